import SctpVerif.Proofs.StreamApi.EvolAck
/-! The abandonment decision along runs: the three per-chunk predicates (`KRex` retransmission limit, `KTimed` lifetime,
`Frozen` a message that is abandoned()) are `Closed`; hence invariants of `gather` / `sack` / `t3` / ticks. -/
namespace SapiProofs
open Gen SenderProofs

def dcep : BitVec 32 := BitVec.ofNat 32 PayloadTypeWebRTCDCEP

/-- partial reliability is in force and stream `σ` is in the association's table with policy (`relType`, `relVal`) -/
def Policy (s : Sender.St) (σ : BitVec 16) (rt : Nat) (v : BitVec 32) : Prop :=
  s.cfg.prEnabled = true ∧ ∃ st, s.streams σ = some st ∧ st.registered = true ∧ st.relType = BitVec.ofNat 8 rt ∧ st.relVal = v

theorem checkPR_rex (s : Sender.St) (σ : BitVec 16) (N : BitVec 32) (h : Policy s σ ReliabilityTypeRexmit N) (ab : List Nat) (c : Sender.Chunk)
    (hsi : c.si = σ) (hp : c.ppi ≠ dcep) :
    Sender.checkPR s ab c = if c.nSent ≥ N then c.msg :: ab else ab := by
  obtain ⟨h1, st, h2, h3, h4, h5⟩ := h
  have hp' : (c.ppi == BitVec.ofNat 32 PayloadTypeWebRTCDCEP) = false := by simpa [dcep] using hp
  simp only [Sender.checkPR, h1, hsi, h2, h3, h4, h5, hp']
  simp

theorem checkPR_timed (s : Sender.St) (σ : BitVec 16) (L : BitVec 32) (h : Policy s σ ReliabilityTypeTimed L) (ab : List Nat) (c : Sender.Chunk)
    (hsi : c.si = σ) (hp : c.ppi ≠ dcep) :
    Sender.checkPR s ab c = if s.now - c.firstSent ≥ L.toNat then c.msg :: ab else ab := by
  obtain ⟨h1, st, h2, h3, h4, h5⟩ := h
  have hp' : (c.ppi == BitVec.ofNat 32 PayloadTypeWebRTCDCEP) = false := by simpa [dcep] using hp
  simp [Sender.checkPR, h1, hsi, h2, h3, h4, h5, hp', ReliabilityTypeTimed, ReliabilityTypeRexmit]

/-- the invariant of a chunk of stream `σ` under a retransmission limit `N` (DCEP exempt):
(1) while its message is not marked abandoned it has been transmitted fewer than `N` times;
(2) an ending fragment (so: every unfragmented message) has been transmitted at most `max 1 N` times;
(3) an ending fragment in flight has its message flagged all-in-flight -/
def KRex (σ : BitVec 16) (N : BitVec 32) (ab ai : List Nat) (c : Sender.Chunk) : Prop :=
  c.si = σ → c.ppi ≠ dcep →
    (c.msg ∉ ab → c.nSent < N) ∧ (c.efrag = true → c.nSent.toNat ≤ max 1 N.toNat) ∧ (c.efrag = true → c.msg ∈ ai)

theorem isAbandoned_true {ab ai : List Nat} {c : Sender.Chunk} (h1 : c.msg ∈ ab) (h2 : c.msg ∈ ai) : Sender.isAbandoned ab ai c = true := by
  simp [Sender.isAbandoned, h1, h2]

theorem toNat_succ_le (x : BitVec 32) : (x + 1).toNat ≤ x.toNat + 1 := by
  rw [BitVec.toNat_add]
  have : (1 : BitVec 32).toNat = 1 := rfl
  rw [this]; omega

theorem KRex_closedL (σ : BitVec 16) (N : BitVec 32) : ClosedL (KRex σ N) where
  mono := by
    intro ab ab' ai ai' c hab hai h hsi hp
    obtain ⟨k1, k2, k3⟩ := h hsi hp
    exact ⟨fun hn => k1 (fun hm => hn (hab _ hm)), k2, fun he => hai _ (k3 he)⟩
  acked := by intro ab ai c h hsi hp; exact h hsi hp
  miss := by intro ab ai c x h hsi hp; exact h hsi hp
  mark := by intro ab ai c h _ _ hsi hp; exact h hsi hp

/-- what is known of a pending chunk (nothing is needed any more: kept for the shape of the instances) -/
def Unmarked (c : Sender.Chunk) : Prop := c.retransmit = false

/-- a retransmission of an ending fragment that is not abandoned(): fewer than `N` so far, so at most `N` afterwards -/
theorem rex_retx (N : BitVec 32) (ab ai : List Nat) (c : Sender.Chunk)
    (k1 : c.msg ∉ ab → c.nSent < N) (k3 : c.efrag = true → c.msg ∈ ai) (hna : Sender.isAbandoned ab ai c = false) (he : c.efrag = true) :
    (c.nSent + 1).toNat ≤ max 1 N.toNat := by
  have hnm : c.msg ∉ ab := by
    intro hm
    have := isAbandoned_true hm (k3 he)
    rw [hna] at this; cases this
  have h1 := k1 hnm
  rw [BitVec.lt_def] at h1
  have h2 := toNat_succ_le c.nSent
  omega

theorem KRex_closed (s : Sender.St) (σ : BitVec 16) (N : BitVec 32) (hpol : Policy s σ ReliabilityTypeRexmit N) :
    Closed s (KRex σ N) Unmarked where
  toClosedL := KRex_closedL σ N
  rtx := by
    intro ab ai c h _ hna hsi hp
    have hsi' : c.si = σ := hsi
    have hp' : c.ppi ≠ dcep := hp
    obtain ⟨k1, _, k3⟩ := h hsi' hp'
    rw [checkPR_rex s σ N hpol ab _ hsi hp]
    have hm : (Sender.rtxUpd s c).msg = c.msg := rfl
    have he : (Sender.rtxUpd s c).efrag = c.efrag := rfl
    refine ⟨?_, ?_, by rw [he, hm]; exact k3⟩
    · intro hnot
      split at hnot
      · rw [hm] at hnot; exact absurd List.mem_cons_self hnot
      · rename_i hge; simpa [BitVec.not_le] using hge
    · intro hef
      rw [he] at hef
      exact rex_retx N ab ai c k1 k3 hna hef
  fast := by
    intro ab ai c h _ hna _ hsi hp
    have hsi' : c.si = σ := hsi
    have hp' : c.ppi ≠ dcep := hp
    obtain ⟨k1, _, k3⟩ := h hsi' hp'
    rw [checkPR_rex s σ N hpol ab _ hsi hp]
    have hm : (Sender.fastUpd s c).msg = c.msg := rfl
    have he : (Sender.fastUpd s c).efrag = c.efrag := rfl
    refine ⟨?_, ?_, by rw [he, hm]; exact k3⟩
    · intro hnot
      split at hnot
      · rw [hm] at hnot; exact absurd List.mem_cons_self hnot
      · rename_i hge; simpa [BitVec.not_le] using hge
    · intro hef
      rw [he] at hef
      exact rex_retx N ab ai c k1 k3 hna hef
  fresh := by
    intro ab ai c tsn _ hsi hp
    have hsi' : (firstTx s tsn c).si = σ := hsi
    rw [checkPR_rex s σ N hpol ab _ hsi' hp]
    have hn : (firstTx s tsn c).nSent = 1 := rfl
    have hm : (firstTx s tsn c).msg = c.msg := rfl
    have he : (firstTx s tsn c).efrag = c.efrag := rfl
    refine ⟨?_, ?_, ?_⟩
    · intro hnot
      split at hnot
      · rw [hm] at hnot; exact absurd List.mem_cons_self hnot
      · rename_i hge; simpa [BitVec.not_le] using hge
    · intro _
      rw [hn]
      have : (1 : BitVec 32).toNat = 1 := rfl
      rw [this]; omega
    · intro hef
      rw [he] at hef
      rw [hm]; simp [hef]

/-- the invariant of a chunk of stream `σ` under a lifetime `L` ms (DCEP exempt): while its message is not marked
abandoned, its LAST transmission happened before the lifetime (counted from its first transmission) had expired — the
transmission that finds the lifetime expired marks the message; an ending fragment in flight has its message flagged
all-in-flight -/
def KTimed (σ : BitVec 16) (L : BitVec 32) (ab ai : List Nat) (c : Sender.Chunk) : Prop :=
  c.si = σ → c.ppi ≠ dcep → (c.msg ∉ ab → c.since - c.firstSent < L.toNat) ∧ (c.efrag = true → c.msg ∈ ai)

theorem KTimed_closedL (σ : BitVec 16) (L : BitVec 32) : ClosedL (KTimed σ L) where
  mono := by
    intro ab ab' ai ai' c hab hai h hsi hp
    exact ⟨fun hn => (h hsi hp).1 (fun hm => hn (hab _ hm)), fun he => hai _ ((h hsi hp).2 he)⟩
  acked := by intro ab ai c h hsi hp; exact h hsi hp
  miss := by intro ab ai c x h hsi hp; exact h hsi hp
  mark := by intro ab ai c h _ _ hsi hp; exact h hsi hp

theorem KTimed_closed (s : Sender.St) (σ : BitVec 16) (L : BitVec 32) (hpol : Policy s σ ReliabilityTypeTimed L) :
    Closed s (KTimed σ L) (fun _ => True) where
  toClosedL := KTimed_closedL σ L
  rtx := by
    intro ab ai c h _ _ hsi hp
    have h0 := h hsi hp
    refine ⟨fun hn => ?_, h0.2⟩
    rw [checkPR_timed s σ L hpol ab _ hsi hp] at hn
    split at hn
    · exact absurd List.mem_cons_self hn
    · rename_i hge
      show s.now - c.firstSent < L.toNat
      have : (Sender.rtxUpd s c).firstSent = c.firstSent := rfl
      rw [this] at hge; omega
  fast := by
    intro ab ai c h _ _ _ hsi hp
    have h0 := h hsi hp
    refine ⟨fun hn => ?_, h0.2⟩
    rw [checkPR_timed s σ L hpol ab _ hsi hp] at hn
    split at hn
    · exact absurd List.mem_cons_self hn
    · rename_i hge
      show s.now - c.firstSent < L.toNat
      have : (Sender.fastUpd s c).firstSent = c.firstSent := rfl
      rw [this] at hge; omega
  fresh := by
    intro ab ai c tsn _ hsi hp
    have hsi' : (firstTx s tsn c).si = σ := hsi
    refine ⟨fun hn => ?_, fun he => ?_⟩
    · rw [checkPR_timed s σ L hpol ab _ hsi' hp] at hn
      split at hn
      · exact absurd List.mem_cons_self hn
      · rename_i hge
        show s.now - s.now < L.toNat
        have : (firstTx s tsn c).firstSent = s.now := rfl
        rw [this] at hge; omega
    · have he' : c.efrag = true := he
      have hm : (firstTx s tsn c).msg = c.msg := rfl
      rw [hm]; simp [he']

/-- a message `m` that is abandoned() — marked AND all its fragments in flight: every in-flight chunk of it sees that, and
its transmission count stays at or below the snapshot `B` (indexed by TSN) from now on: it is never transmitted again -/
def Frozen (m : Nat) (B : BitVec 32 → Nat) (ab ai : List Nat) (c : Sender.Chunk) : Prop :=
  c.msg = m → (m ∈ ab ∧ m ∈ ai) ∧ c.nSent.toNat ≤ B c.tsn

theorem Frozen_closedL (m : Nat) (B : BitVec 32 → Nat) : ClosedL (Frozen m B) where
  mono := by intro ab ab' ai ai' c hab hai h hm; exact ⟨⟨hab _ (h hm).1.1, hai _ (h hm).1.2⟩, (h hm).2⟩
  acked := by intro ab ai c h hm; exact h hm
  miss := by intro ab ai c x h hm; exact h hm
  mark := by intro ab ai c h _ _ hm; exact h hm

theorem Frozen_closed (s : Sender.St) (m : Nat) (B : BitVec 32 → Nat) : Closed s (Frozen m B) (fun c => c.msg ≠ m) where
  toClosedL := Frozen_closedL m B
  rtx := by
    intro ab ai c h _ hna hm
    have hm' : c.msg = m := hm
    have := isAbandoned_true (c := c) (by rw [hm']; exact (h hm').1.1) (by rw [hm']; exact (h hm').1.2)
    rw [hna] at this; cases this
  fast := by
    intro ab ai c h _ hna _ hm
    have hm' : c.msg = m := hm
    have := isAbandoned_true (c := c) (by rw [hm']; exact (h hm').1.1) (by rw [hm']; exact (h hm').1.2)
    rw [hna] at this; cases this
  fresh := by
    intro ab ai c tsn hq hm
    exact absurd hm hq

end SapiProofs
