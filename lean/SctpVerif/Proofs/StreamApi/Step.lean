import SctpVerif.Proofs.StreamApi.Run
/-! `step_settled`: one operation against the invariant `WInv` and the settled counters of one stream. -/
namespace SapiProofs
open Gen Sapi SenderProofs

/-- what one operation does to stream `si` whose settled counters are `x`: either nothing is queued for it and the counters
stay, or exactly one message is queued, every fragment carries the identifier `x` assigns to its class, and the
counters advance by `adv` -/
def Moves (si : BitVec 16) (x : Ids) (s : St) (op : Op) : Prop :=
  (pushedOn si s op = [] ∧ settled (step s op) si = some x) ∨
  (∃ m u, pushedOn si s op = [m] ∧ m ≠ [] ∧ (∀ c ∈ m, c.unordered = u ∧ carries (il s) x c) ∧
     settled (step s op) si = some (adv (il s) u x))

def StepOut (si : BitVec 16) (s : St) (op : Op) : Prop :=
  WInv (step s op) ∧ il (step s op) = il s ∧ ∀ x, settled s si = some x → Moves si x s op

theorem sender_transfer {s : St} (h : WInv s) (snd' : Sender.St) (hc : snd'.cfg = s.snd.cfg)
    (hs : ∀ k, (snd'.streams k).map sstat = (s.snd.streams k).map sstat) :
    WInv { s with snd := snd' } ∧ (∀ k x, settled s k = some x → settled { s with snd := snd' } k = some x) ∧
    il { s with snd := snd' } = il s := by
  have hex : ∀ k st, s.snd.streams k = some st → ∃ st', snd'.streams k = some st' ∧ rids st' = rids st := by
    intro k st hk
    have := hs k
    rw [hk] at this
    cases hk' : snd'.streams k with
    | none => rw [hk'] at this; cases this
    | some st' =>
      rw [hk'] at this
      simp only [Option.map_some, Option.some.injEq] at this
      exact ⟨st', rfl, rids_of_sstat this⟩
  have hreg : ∀ k st, snd'.streams k = some st → st.registered = true := by
    intro k st' hk'
    have := hs k
    rw [hk'] at this
    cases hk : s.snd.streams k with
    | none => rw [hk] at this; cases this
    | some st =>
      rw [hk] at this
      simp only [Option.map_some, Option.some.injEq, sstat, Prod.mk.injEq] at this
      rw [this.1]; exact h.reg _ _ hk
  have := transfer (s' := { s with snd := snd' }) h rfl rfl hc hex hreg
  exact ⟨this.1, this.2, by simp only [il, hc]⟩

theorem expire_inv (s : St) (h : WInv s) (due : List Waiter) (hd : ∀ w ∈ due, w ∈ s.waiters)
    (hnd : due.Pairwise (fun a b => a.wid ≠ b.wid)) :
    WInv (due.foldl failWaiter s) ∧ (∀ k x, settled s k = some x → settled (due.foldl failWaiter s) k = some x) ∧
    il (due.foldl failWaiter s) = il s := by
  induction due generalizing s with
  | nil => exact ⟨h, fun _ _ hx => hx, rfl⟩
  | cons w r ih =>
    rw [List.pairwise_cons] at hnd
    obtain ⟨a1, a2, a3, a4, _⟩ := failWaiter_inv s h w (hd w List.mem_cons_self)
    have hd' : ∀ v ∈ r, v ∈ (failWaiter s w).waiters := by
      intro v hv
      rw [a3, List.mem_filter]
      exact ⟨hd v (List.mem_cons_of_mem _ hv), by simpa using fun e => (hnd.1 v hv) e.symm⟩
    obtain ⟨b1, b2, b3⟩ := ih (failWaiter s w) a1 hd' hnd.2
    exact ⟨b1, fun k x hx => b2 k x (a2 k x hx), by rw [List.foldl_cons, b3, a4]⟩

theorem filter_pairwise_wid {l : List Waiter} (hu : l.Pairwise (fun a b => a.si ≠ b.si ∧ a.wid ≠ b.wid)) (p : Waiter → Bool) :
    (l.filter p).Pairwise (fun a b => a.wid ≠ b.wid) :=
  (hu.imp (fun h => h.2)).sublist List.filter_sublist

theorem close_frame (s : St) (k : BitVec 16) :
    (Sapi.closeStream s k).1.waiters = s.waiters ∧ (Sapi.closeStream s k).1.nextWid = s.nextWid ∧
    (Sapi.closeStream s k).1.snd.cfg = s.snd.cfg ∧ (Sapi.closeStream s k).1.snd.streams = s.snd.streams := by
  cases hs : s.snd.streams k with
  | none => simp [Sapi.closeStream, hs]
  | some st =>
    by_cases c1 : close_isOpen (s.sstate k) = true
    · by_cases c2 : reset_notEstablished s.state = true
      · simp [Sapi.closeStream, hs, c1, c2]
      · simp [Sapi.closeStream, hs, c1, c2, Sender.pushPending]
    · simp [Sapi.closeStream, hs, c1]

theorem open_frame (s : St) (k : BitVec 16) (u : Bool) (rt : BitVec 8) (rv : BitVec 32) (h : ¬ openRefused s.state = true) :
    (Sapi.openStream s k u rt rv).1.waiters = s.waiters ∧ (Sapi.openStream s k u rt rv).1.nextWid = s.nextWid ∧
    (Sapi.openStream s k u rt rv).1.snd = Sender.openStream s.snd k u rt rv 0 := by
  cases hs : s.snd.streams k with
  | none => simp [Sapi.openStream, h, hs, setRd]
  | some st => simp [Sapi.openStream, h, hs]

theorem step_settled (s : St) (h : WInv s) (op : Op) (si : BitVec 16) : StepOut si s op := by
  cases op with
  | setState n =>
    obtain ⟨a, b, c⟩ := sender_transfer h { s.snd with established := isEstablished n } rfl (fun _ => rfl)
    simp only [StepOut, Moves, step, Sapi.setState]
    exact ⟨by have := a; exact ⟨this.cfgOk, this.reg, this.uniq, this.fresh, this.ok⟩, c, fun x hx => Or.inl ⟨rfl, b si x hx⟩⟩
  | setRel k u rt rv =>
    simp only [StepOut, Moves, step, Sapi.setRel]
    cases hk : s.snd.streams k with
    | none => exact ⟨h, rfl, fun x hx => Or.inl ⟨rfl, hx⟩⟩
    | some st =>
      simp only
      have := transfer (s' := { s with snd := Sender.setStream s.snd k { st with unordered := u, relType := rt, relVal := rv } }) h rfl rfl rfl
        (by
          intro j sj hj
          by_cases hjk : j = k
          · subst hjk; rw [hk] at hj; cases hj
            exact ⟨{ st with unordered := u, relType := rt, relVal := rv }, by simp [Sender.setStream], rfl⟩
          · exact ⟨sj, by simp [Sender.setStream, hjk, hj], rfl⟩)
        (by
          intro j sj hj
          by_cases hjk : j = k
          · subst hjk; simp [Sender.setStream] at hj; subst hj; show st.registered = true; exact h.reg _ _ hk
          · simp [Sender.setStream, hjk] at hj; exact h.reg _ _ hj)
      exact ⟨this.1, rfl, fun x hx => Or.inl ⟨rfl, this.2 si x hx⟩⟩
  | sack cum arwnd gaps marks =>
    obtain ⟨a, b, c⟩ := sender_transfer h (Sender.sack s.snd cum arwnd gaps marks).1 (sack_cfg _ _ _ _ _ h.cfgOk)
      (fun k => sack_sstat _ _ _ _ _ h.cfgOk k)
    exact ⟨a, c, fun x hx => Or.inl ⟨rfl, b si x hx⟩⟩
  | t3 =>
    obtain ⟨a, b, c⟩ := sender_transfer h (Sender.t3 s.snd) (t3_frame s.snd).1.2.2.2.2.1 (fun k => by rw [t3_streams])
    exact ⟨a, c, fun x hx => Or.inl ⟨rfl, b si x hx⟩⟩
  | close k =>
    obtain ⟨f1, f2, f3, f4⟩ := close_frame s k
    have := transfer (s' := (Sapi.closeStream s k).1) h f1 f2 f3
      (by intro j sj hj; exact ⟨sj, by rw [f4]; exact hj, rfl⟩) (by intro j sj hj; rw [f4] at hj; exact h.reg _ _ hj)
    exact ⟨this.1, by simp only [il, step, f3], fun x hx => Or.inl ⟨rfl, this.2 si x hx⟩⟩
  | rpush k c =>
    have := transfer_sameW h (rpush_sameW s k c)
    exact ⟨this.1, this.2.2, fun x hx => Or.inl ⟨rfl, this.2.1 si x hx⟩⟩
  | read k n =>
    have := transfer_sameW h (read_sameW s k n)
    exact ⟨this.1, this.2.2, fun x hx => Or.inl ⟨rfl, this.2.1 si x hx⟩⟩
  | rdeadline k t =>
    have := transfer_sameW h (rdeadline_sameW s k t)
    exact ⟨this.1, this.2.2, fun x hx => Or.inl ⟨rfl, this.2.1 si x hx⟩⟩
  | reof k =>
    have := transfer_sameW h (reof_sameW s k)
    exact ⟨this.1, this.2.2, fun x hx => Or.inl ⟨rfl, this.2.1 si x hx⟩⟩
  | tick ms n marks =>
    obtain ⟨a1, a2, a3⟩ := sender_transfer h (Sender.step s.snd (.tick ms n marks)) (tick_cfg _ _ _ _ h.cfgOk)
      (fun k => by rw [tick_streams])
    let s1 : St := { s with snd := Sender.step s.snd (.tick ms n marks) }
    have hdue : ∀ w ∈ s1.waiters.filter (fun w => deadlinePassed s1.snd.now w.deadline), w ∈ s1.waiters :=
      fun w hw => (List.mem_filter.mp hw).1
    obtain ⟨b1, b2, b3⟩ := expire_inv s1 a1 _ hdue (filter_pairwise_wid a1.uniq _)
    have c := transfer_sameW b1 (fireTimers_sameW (expireWaiters s1).1 (expireWaiters s1).1.sids)
    have e : step s (.tick ms n marks) = (fireTimers (expireWaiters s1).1 (expireWaiters s1).1.sids).1 := rfl
    simp only [StepOut, Moves]
    rw [e]
    exact ⟨c.1, by rw [c.2.2]; show il (List.foldl failWaiter s1 _) = il s; rw [b3]; exact a3, fun x hx => Or.inl ⟨rfl, c.2.1 si x (b2 si x (a2 si x hx))⟩⟩
  | openS k u rt rv =>
    by_cases hrf : openRefused s.state = true
    · have e : step s (.openS k u rt rv) = s := by simp [step, Sapi.openStream, hrf]
      simp only [StepOut, Moves]; rw [e]
      exact ⟨h, rfl, fun x hx => Or.inl ⟨rfl, hx⟩⟩
    · obtain ⟨f1, f2, f3⟩ := open_frame s k u rt rv hrf
      have hopen : ∀ j sj, s.snd.streams j = some sj →
          ∃ sj', (Sender.openStream s.snd k u rt rv 0).streams j = some sj' ∧ rids sj' = rids sj := by
        intro j sj hj
        by_cases hjk : j = k
        · subst hjk
          have hr := h.reg _ _ hj
          refine ⟨{ sj with unordered := u, relType := rt, relVal := rv, threshold := 0, hasCb := true }, ?_, rfl⟩
          simp [Sender.openStream, Sender.setStream, hj, hr]
        · exact ⟨sj, by simp [Sender.openStream, Sender.setStream, hjk, hj], rfl⟩
      have hreg : ∀ j sj, (Sender.openStream s.snd k u rt rv 0).streams j = some sj → sj.registered = true := by
        intro j sj hj
        by_cases hjk : j = k
        · subst hjk
          simp only [Sender.openStream, Sender.setStream, if_true, Option.some.injEq] at hj
          subst hj
          cases hk : s.snd.streams j with
          | none => rfl
          | some st => simp only; split <;> simp_all
        · simp [Sender.openStream, Sender.setStream, hjk] at hj; exact h.reg _ _ hj
      have := transfer (s' := (Sapi.openStream s k u rt rv).1) h f1 f2 (by rw [f3]; rfl)
        (by rw [f3]; exact hopen) (by rw [f3]; exact hreg)
      exact ⟨this.1, by simp only [il, step, f3]; rfl, fun x hx => Or.inl ⟨rfl, this.2 si x hx⟩⟩
  | write k ppi len dl =>
    simp only [StepOut, Moves, step]
    rcases write_cases s k ppi len dl with ⟨e1, e2⟩ | ⟨st, hst, hl, _, _, hw, hmp, _, _, e⟩ | ⟨st, hst, hl, _, _, hw, hmp, _, _, _, e⟩
    · rw [e1]
      refine ⟨h, rfl, fun x hx => Or.inl ⟨?_, hx⟩⟩
      simp only [pushedOn]
      split
      · cases hr : (Sapi.write s k ppi len dl).2 <;> rw [hr] at e2 <;> simp [accepted] at e2 ⊢
        · split
          · rename_i n _ _ _ heq
            simp only [WRes.ok.injEq] at heq
            subst heq; simp [e2]
          · rfl
        all_goals (split <;> simp_all)
      · rfl
    · rw [e]
      obtain ⟨a1, a2, a3, a4, a5⟩ := accept_inv s h k st ppi len hst hw
      refine ⟨a1, a2, fun x hx => ?_⟩
      by_cases hk : k = si
      · subst hk
        right
        rw [a4] at hx; cases hx
        refine ⟨(Sender.packetize s.snd.cfg st k s.snd.nextMsg ppi len).chunks, (Sender.packetize s.snd.cfg st k s.snd.nextMsg ppi len).unordered,
          ?_, packetize_nonempty _ _ _ _ _ _ hmp hl, ?_, a5⟩
        · simp only [pushedOn, if_true, hst, e, hl, if_false]
        · intro c hc
          obtain ⟨_, _, _, b4, b5, _⟩ := packetize_mem _ _ _ _ _ _ hmp c hc
          exact ⟨b4, b5⟩
      · left
        exact ⟨by simp only [pushedOn, hk, if_false], a3 si x (fun e' => hk e'.symm) hx⟩
    · rw [e]
      obtain ⟨a1, a2, a3⟩ := park_inv s h k st ppi len dl hst hw hmp hl
      refine ⟨a1, a2, fun x hx => Or.inl ⟨?_, a3 si x hx⟩⟩
      simp only [pushedOn]
      split
      · rw [e]; simp only [hst]
      · rfl
  | gather orc sel woke =>
    simp only [StepOut, Moves, step, pushedOn]
    -- the data part
    have hnow : ∀ wp : Bool, WInv { s with snd := (Sender.gather s.snd orc sel).1, writePending := wp } ∧
        (∀ k y, settled s k = some y → settled { s with snd := (Sender.gather s.snd orc sel).1, writePending := wp } k = some y) ∧
        il { s with snd := (Sender.gather s.snd orc sel).1, writePending := wp } = il s := by
      intro wp
      have := transfer (s' := { s with snd := (Sender.gather s.snd orc sel).1, writePending := wp }) h rfl rfl (gather_cfg _ _ _)
        (by intro j sj hj; exact ⟨sj, by rw [(gather_streams _ _ _).2]; exact hj, rfl⟩)
        (by intro j sj hj; rw [(gather_streams _ _ _).2] at hj; exact h.reg _ _ hj)
      exact ⟨this.1, this.2, by simp only [il, gather_cfg]⟩
    simp only [Sapi.gather]
    generalize hnot : (s.snd.established && popPending_notifyWritable s.blockWrite ((Sender.gather s.snd orc sel).2.admits.length : Int)
      s.writePending (Sender.gather s.snd orc sel).1.penChunks) = notify
    generalize hwp : (if notify = true then false else s.writePending) = wp
    obtain ⟨a1, a2, a3⟩ := hnow wp
    cases hsel : (if notify = true then woke else none) with
    | none =>
      simp only
      exact ⟨a1, a3, fun x hx => Or.inl ⟨rfl, a2 si x hx⟩⟩
    | some wid =>
      simp only [wake]
      cases hf : s.waiters.find? (·.wid == wid) with
      | none =>
        simp only [Option.toList, List.map_nil, List.filterMap_nil]
        exact ⟨a1, a3, fun x hx => Or.inl ⟨by trivial, a2 si x hx⟩⟩
      | some w =>
        have hwm : w ∈ s.waiters := List.mem_of_find?_eq_some hf
        have hwid : w.wid = wid := by simpa using List.find?_some hf
        simp only
        split
        · -- the association is no longer established: the call fails
          obtain ⟨b1, b2, _, b4, _⟩ := failWaiter_inv _ a1 w hwm
          refine ⟨b1, by rw [b4, a3], fun x hx => Or.inl ⟨?_, b2 si x (a2 si x hx)⟩⟩
          simp
        · split
          · simp only [Option.toList, List.map_nil, List.filterMap_nil]
            exact ⟨a1, a3, fun x hx => Or.inl ⟨by trivial, a2 si x hx⟩⟩
          · -- released: its chunks are queued
            have hrel := release_inv (s := { s with snd := (Sender.gather s.snd orc sel).1, writePending := wp })
              (s' := pushChunks (dropWaiter { s with snd := (Sender.gather s.snd orc sel).1, writePending := wp } wid) w.chunks)
              a1 w hwm (by subst hwid; rfl) rfl rfl rfl
            obtain ⟨c1, c2, y, c3, c4, c5, c6⟩ := hrel
            refine ⟨c1, by rw [← a3]; rfl, fun x hx => ?_⟩
            simp only [Option.toList, List.map_cons, List.map_nil, List.filterMap_cons, hf]
            by_cases hws : w.si = si
            · right
              subst hws
              have : y = x := by
                have := a2 _ _ hx
                rw [c3] at this; cases this; rfl
              subst this
              refine ⟨w.chunks, w.unordered, by simp, c5, ?_, ?_⟩
              · intro c hc; rw [← a3]; exact c6 c hc
              · rw [← a3]; exact c4
            · left
              refine ⟨by simp [hws], c2 si x (fun e' => hws e'.symm) (a2 si x hx)⟩

/-- **every accepted message carries the next identifier of its class**, over any run: rejected, failed, empty, parked
and timed-out calls in between do not move the counters -/
theorem run_consecutive (s : St) (h : WInv s) (ops : List Op) (si : BitVec 16) (x : Ids) (hx : settled s si = some x) :
    Consecutive (il s) x (logOn si s ops) := by
  induction ops generalizing s x with
  | nil => trivial
  | cons op ops ih =>
    obtain ⟨a1, a2, a3⟩ := step_settled s h op si
    simp only [logOn]
    rcases a3 x hx with ⟨b1, b2⟩ | ⟨m, u, b1, b2, b3, b4⟩
    · rw [b1, List.nil_append]
      have := ih (step s op) a1 x b2
      rw [a2] at this; exact this
    · rw [b1]
      have := ih (step s op) a1 _ b4
      rw [a2] at this
      exact ⟨u, b2, b3, this⟩

theorem init_winv (cfg : Sender.Cfg) (bw : Bool) (tsn rw : BitVec 32) (hc : CfgOk cfg) : WInv (Sapi.init cfg bw tsn rw) :=
  { cfgOk := hc
    reg := by intro k st hk; simp [Sapi.init, Sender.init] at hk
    uniq := List.Pairwise.nil
    fresh := by intro w hw; simp [Sapi.init] at hw
    ok := by intro w hw; simp [Sapi.init] at hw }

theorem run_winv (s : St) (h : WInv s) (ops : List Op) : WInv (run s ops) := by
  induction ops generalizing s with
  | nil => exact h
  | cons op ops ih => exact ih _ (step_settled s h op 0).1

end SapiProofs
