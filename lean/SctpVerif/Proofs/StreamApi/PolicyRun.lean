import SctpVerif.Proofs.StreamApi.Policy
import SctpVerif.Proofs.StreamApi.Gate
/-! Lifting the per-chunk invariants to runs of the stream-API model (`Sapi.Op`). -/
namespace SapiProofs
open Gen Sapi SenderProofs

/-- a `Closed` per-chunk predicate together with the condition on the state under which it is closed (`Ctx`: the policy
of the stream, a bound on message ids, …) and the operations that keep that condition (`Ok`) -/
structure RunHyp (P : List Nat → List Nat → Sender.Chunk → Prop) (Q : Sender.Chunk → Prop) (Ctx : St → Prop) (Ok : Op → Prop) : Prop where
  closed : ∀ s, Ctx s → Closed s.snd P Q
  ctx : ∀ s op, Ctx s → Ok op → Ctx (step s op)
  qNew : ∀ s (st : Sender.Stream) si ppi len, Ctx s → s.snd.cfg.maxPayload ≠ 0 →
    ∀ c ∈ (Sender.packetize s.snd.cfg st si s.snd.nextMsg ppi len).chunks, Q c
  qMarker : ∀ s si, Ctx s → Q (resetMarker si s.snd.nextMsg)

structure RInv (P : List Nat → List Nat → Sender.Chunk → Prop) (Q : Sender.Chunk → Prop) (Ctx : St → Prop) (s : St) : Prop where
  ctx : Ctx s
  inf : InvP s.snd P
  pend : ∀ c ∈ s.snd.pending, Q c
  wait : ∀ w ∈ s.waiters, ∀ c ∈ w.chunks, Q c

/-- the part of the sender state the per-chunk invariants read is the same -/
def SameQ (a b : Sender.St) : Prop :=
  b.inflight = a.inflight ∧ b.abandonedMsgs = a.abandonedMsgs ∧ b.allInflightMsgs = a.allInflightMsgs ∧ b.pending = a.pending

theorem rinv_of_sameQ {P Q Ctx} {s s' : St} (h : RInv P Q Ctx s) (hc : Ctx s') (hq : SameQ s.snd s'.snd)
    (hw : ∀ w ∈ s'.waiters, w ∈ s.waiters) : RInv P Q Ctx s' :=
  ⟨hc, by intro c hc'; rw [hq.2.1, hq.2.2.1]; rw [hq.1] at hc'; exact h.inf c hc', by rw [hq.2.2.2]; exact h.pend,
   fun w hw' => h.wait w (hw w hw')⟩

theorem rollbackStream_sameQ (s : St) (si : BitVec 16) (u : Bool) (n : Nat) :
    SameQ s.snd (rollbackStream s si u n).snd ∧ (rollbackStream s si u n).waiters = s.waiters := by
  unfold rollbackStream
  split
  · exact ⟨⟨rfl, rfl, rfl, rfl⟩, rfl⟩
  · exact ⟨⟨rfl, rfl, rfl, rfl⟩, rfl⟩

theorem failWaiter_sameQ (s : St) (w : Waiter) :
    SameQ s.snd (failWaiter s w).snd ∧ ∀ a ∈ (failWaiter s w).waiters, a ∈ s.waiters := by
  obtain ⟨a1, a2⟩ := rollbackStream_sameQ (dropWaiter s w.wid) w.si w.unordered w.n
  exact ⟨a1, by intro a ha; simp only [failWaiter] at ha; rw [a2] at ha; exact (List.mem_filter.mp ha).1⟩

theorem foldl_failWaiter_sameQ (s : St) (l : List Waiter) :
    SameQ s.snd (l.foldl failWaiter s).snd ∧ ∀ a ∈ (l.foldl failWaiter s).waiters, a ∈ s.waiters := by
  induction l generalizing s with
  | nil => exact ⟨⟨rfl, rfl, rfl, rfl⟩, fun _ h => h⟩
  | cons w r ih =>
    obtain ⟨a1, a2⟩ := failWaiter_sameQ s w
    obtain ⟨b1, b2⟩ := ih (failWaiter s w)
    exact ⟨⟨b1.1.trans a1.1, b1.2.1.trans a1.2.1, b1.2.2.1.trans a1.2.2.1, b1.2.2.2.trans a1.2.2.2⟩, fun a ha => a2 a (b2 a ha)⟩

/-- one operation keeps the invariant; a gather puts only chunks satisfying the predicate on the wire -/
theorem step_rinv {P Q Ctx Ok} (H : RunHyp P Q Ctx Ok) (s : St) (h : RInv P Q Ctx s) (op : Op) (hok : Ok op) :
    RInv P Q Ctx (step s op) := by
  have hctx := H.ctx s op h.ctx hok
  cases op with
  | setState n => exact rinv_of_sameQ h hctx ⟨rfl, rfl, rfl, rfl⟩ (fun _ hw => hw)
  | setRel k u rt rv =>
    refine rinv_of_sameQ h hctx ?_ ?_
    · simp only [step, Sapi.setRel]; split <;> exact ⟨rfl, rfl, rfl, rfl⟩
    · simp only [step, Sapi.setRel]; split <;> exact fun _ hw => hw
  | openS k u rt rv =>
    refine rinv_of_sameQ h hctx ?_ ?_
    · simp only [step, Sapi.openStream]; split
      · exact ⟨rfl, rfl, rfl, rfl⟩
      · split <;> exact ⟨rfl, rfl, rfl, rfl⟩
    · simp only [step, Sapi.openStream]; split
      · exact fun _ hw => hw
      · split <;> exact fun _ hw => hw
  | rpush k c => obtain ⟨a, b, _⟩ := rpush_sameW s k c; exact rinv_of_sameQ h hctx (by simp only [step]; rw [a]; exact ⟨rfl, rfl, rfl, rfl⟩) (by simp only [step]; rw [b]; exact fun _ hw => hw)
  | read k n => obtain ⟨a, b, _⟩ := read_sameW s k n; exact rinv_of_sameQ h hctx (by simp only [step]; rw [a]; exact ⟨rfl, rfl, rfl, rfl⟩) (by simp only [step]; rw [b]; exact fun _ hw => hw)
  | rdeadline k t => obtain ⟨a, b, _⟩ := rdeadline_sameW s k t; exact rinv_of_sameQ h hctx (by simp only [step]; rw [a]; exact ⟨rfl, rfl, rfl, rfl⟩) (by simp only [step]; rw [b]; exact fun _ hw => hw)
  | reof k => obtain ⟨a, b, _⟩ := reof_sameW s k; exact rinv_of_sameQ h hctx (by simp only [step]; rw [a]; exact ⟨rfl, rfl, rfl, rfl⟩) (by simp only [step]; rw [b]; exact fun _ hw => hw)
  | sack cum arwnd gaps marks =>
    obtain ⟨a1, a2⟩ := sack_closed s.snd cum arwnd gaps marks P (H.closed s h.ctx).toClosedL h.inf
    exact ⟨hctx, a2, by show ∀ c ∈ (Sender.sack s.snd cum arwnd gaps marks).1.pending, Q c; rw [a1.2.2.1]; exact h.pend, h.wait⟩
  | t3 =>
    obtain ⟨a1, a2⟩ := t3_closed s.snd P (H.closed s h.ctx).toClosedL h.inf
    exact ⟨hctx, a2, by show ∀ c ∈ (Sender.t3 s.snd).pending, Q c; rw [a1.2.2.1]; exact h.pend, h.wait⟩
  | tick ms n marks =>
    obtain ⟨a1, a2⟩ := tick_closed s.snd ms n marks P (H.closed s h.ctx).toClosedL h.inf
    let s1 : St := { s with snd := Sender.step s.snd (.tick ms n marks) }
    obtain ⟨b1, b2⟩ := foldl_failWaiter_sameQ s1 (s1.waiters.filter (fun w => deadlinePassed s1.snd.now w.deadline))
    obtain ⟨c1, c2, _⟩ := fireTimers_sameW (expireWaiters s1).1 (expireWaiters s1).1.sids
    have e : step s (.tick ms n marks) = (fireTimers (expireWaiters s1).1 (expireWaiters s1).1.sids).1 := rfl
    rw [e]
    refine ⟨by rw [← e]; exact hctx, ?_, ?_, ?_⟩
    · intro c hc
      rw [c1] at hc ⊢
      have hc' : c ∈ (List.foldl failWaiter s1 (s1.waiters.filter (fun w => deadlinePassed s1.snd.now w.deadline))).snd.inflight := hc
      rw [b1.1] at hc'
      show P (List.foldl failWaiter s1 _).snd.abandonedMsgs (List.foldl failWaiter s1 _).snd.allInflightMsgs c
      rw [b1.2.1, b1.2.2.1]
      exact a2 c hc'
    · intro c hc
      rw [c1] at hc
      have hc' : c ∈ (List.foldl failWaiter s1 (s1.waiters.filter (fun w => deadlinePassed s1.snd.now w.deadline))).snd.pending := hc
      rw [b1.2.2.2] at hc'
      have : c ∈ (Sender.step s.snd (.tick ms n marks)).pending := hc'
      rw [a1.2.2.1] at this; exact h.pend c this
    · intro w hw
      rw [c2] at hw
      exact h.wait w (b2 w hw)
  | close k =>
    simp only [step, Sapi.closeStream] at hctx ⊢
    split
    · exact h
    · split
      · split
        · exact rinv_of_sameQ h (by simpa [*] using hctx) ⟨rfl, rfl, rfl, rfl⟩ (fun _ hw => hw)
        · refine ⟨by simpa [*] using hctx, h.inf, ?_, h.wait⟩
          intro c hc
          simp only [Sender.pushPending, List.mem_append, List.mem_singleton] at hc
          rcases hc with hc | hc
          · exact h.pend c hc
          · subst hc; exact H.qMarker s k h.ctx
      · exact h
  | write k ppi len dl =>
    simp only [step] at hctx ⊢
    rcases write_cases s k ppi len dl with ⟨e1, _⟩ | ⟨st, hst, hl, _, _, hw, hmp, _, _, e⟩ | ⟨st, hst, hl, _, _, hw, hmp, _, _, _, e⟩
    · rw [e1]; exact h
    · rw [e] at hctx ⊢
      refine ⟨hctx, h.inf, ?_, h.wait⟩
      intro c hc
      have : c ∈ s.snd.pending ++ (Sender.packetize s.snd.cfg st k s.snd.nextMsg ppi len).chunks := hc
      rcases List.mem_append.mp this with h1 | h1
      · exact h.pend c h1
      · exact H.qNew s st k ppi len h.ctx hmp c h1
    · rw [e] at hctx ⊢
      refine ⟨hctx, h.inf, h.pend, ?_⟩
      intro w hwm c hc
      simp only [parkState, List.mem_append, List.mem_singleton] at hwm
      rcases hwm with h1 | h1
      · exact h.wait w h1 c hc
      · subst h1; exact H.qNew s st k ppi len h.ctx hmp c hc
  | gather orc sel woke =>
    obtain ⟨a1, a2, _, _, _⟩ := gather_closed s.snd orc sel P Q (H.closed s h.ctx) h.inf h.pend
    simp only [step, Sapi.gather] at hctx ⊢
    generalize (s.snd.established && popPending_notifyWritable s.blockWrite ((Sender.gather s.snd orc sel).2.admits.length : Int)
      s.writePending (Sender.gather s.snd orc sel).1.penChunks) = notify at hctx ⊢
    have base : ∀ wp, Ctx { s with snd := (Sender.gather s.snd orc sel).1, writePending := wp } →
        RInv P Q Ctx { s with snd := (Sender.gather s.snd orc sel).1, writePending := wp } :=
      fun wp hc => ⟨hc, a1, a2, h.wait⟩
    cases notify with
    | false => simp only [Bool.false_eq_true, if_false] at hctx ⊢; exact base _ hctx
    | true =>
      simp only [if_true] at hctx ⊢
      cases woke with
      | none => exact base _ hctx
      | some wid =>
        simp only [wake] at hctx ⊢
        cases hf : s.waiters.find? (·.wid == wid) with
        | none => rw [hf] at hctx; exact base _ hctx
        | some w =>
          rw [hf] at hctx
          simp only at hctx ⊢
          by_cases c1 : send_notEstablishedAfterWait s.state = true
          · simp only [c1, if_true] at hctx ⊢
            obtain ⟨f1, f2⟩ := failWaiter_sameQ { s with snd := (Sender.gather s.snd orc sel).1, writePending := false } w
            refine ⟨hctx, ?_, ?_, fun a ha => h.wait a (f2 a ha)⟩
            · intro c hc; rw [f1.2.1, f1.2.2.1]; rw [f1.1] at hc; exact a1 c hc
            · intro c hc; rw [f1.2.2.2] at hc; exact a2 c hc
          · simp only [c1, if_false, send_waits, Bool.false_eq_true] at hctx ⊢
            refine ⟨hctx, a1, ?_, fun a ha => h.wait a (List.mem_filter.mp ha).1⟩
            intro c hc
            have : c ∈ (Sender.gather s.snd orc sel).1.pending ++ w.chunks := hc
            rcases List.mem_append.mp this with h1 | h1
            · exact a2 c h1
            · exact h.wait w (List.mem_of_find?_eq_some hf) c h1

theorem run_rinv {P Q Ctx Ok} (H : RunHyp P Q Ctx Ok) (s : St) (h : RInv P Q Ctx s) (ops : List Op) (hok : ∀ op ∈ ops, Ok op) :
    RInv P Q Ctx (run s ops) := by
  induction ops generalizing s with
  | nil => exact h
  | cons op ops ih =>
    exact ih _ (step_rinv H s h op (hok op List.mem_cons_self)) (fun o ho => hok o (List.mem_cons_of_mem _ ho))

/-- what a gather puts on the wire satisfies the predicate relative to the sets after the gather -/
theorem gather_emits {P Q Ctx Ok} (H : RunHyp P Q Ctx Ok) (s : St) (h : RInv P Q Ctx s) (orc : Sender.Oracle) (sel : List Nat) (woke : Option Nat) :
    ∀ p ∈ (Sapi.gather s orc sel woke).2.out.packets, ∀ e ∈ p,
      P (Sender.gather s.snd orc sel).1.abandonedMsgs (Sender.gather s.snd orc sel).1.allInflightMsgs e := by
  obtain ⟨_, _, a3, _, _⟩ := gather_closed s.snd orc sel P Q (H.closed s h.ctx) h.inf h.pend
  have : (Sapi.gather s orc sel woke).2.out = (Sender.gather s.snd orc sel).2 := by
    simp only [Sapi.gather]; split <;> rfl
  rw [this]; exact a3

end SapiProofs
