import SctpVerif.Proofs.StreamApi.Ids
/-! What the sender-side operations (`Sender.gather / sack / t3 / tick`) leave alone in the stream table: everything but
the buffered amount and the callback count. -/
namespace SapiProofs
open Gen Sapi SenderProofs

/-- the static part of a stream (everything except `buffered` and `cbCount`) -/
def sstat (st : Sender.Stream) : Bool × Bool × BitVec 8 × BitVec 32 × BitVec 16 × BitVec 32 × BitVec 32 :=
  (st.registered, st.unordered, st.relType, st.relVal, st.ssn, st.nextOrderedMID, st.nextUnorderedMID)

theorem release_sstat (st : Sender.Stream) (n : Int) : sstat (Sender.release st n).1 = sstat st := by
  simp only [Sender.release]; split <;> rfl

theorem releaseAll_sstat (rel : Sender.Rel) (s : Sender.St) (si : BitVec 16) :
    ((Sender.releaseAll rel s).streams si).map sstat = (s.streams si).map sstat := by
  induction rel generalizing s with
  | nil => rfl
  | cons e r ih =>
    obtain ⟨k, n⟩ := e
    simp only [Sender.releaseAll]
    cases hs : s.streams k with
    | none => exact ih s
    | some st =>
      simp only
      split
      · rw [ih]
        simp only [Sender.setStream]
        by_cases hk : si = k
        · subst hk; simp [hs, release_sstat]
        · simp [hk]
      · exact ih s

theorem sack_sstat (s : Sender.St) (cum arwnd : BitVec 32) (gaps : List (BitVec 16 × BitVec 16)) (marks : List (BitVec 32))
    (hm : s.cfg.mtu.toNat < 2^30) (si : BitVec 16) :
    ((Sender.sack s cum arwnd gaps marks).1.streams si).map sstat = (s.streams si).map sstat := by
  obtain ⟨_, rel, x, _, hx, hs⟩ := sack_streams s cum arwnd gaps marks hm
  rw [hs, releaseAll_sstat, hx]

theorem t3_streams (s : Sender.St) : (Sender.t3 s).streams = s.streams := (t3_frame s).1.2.2.2.2.2.1

theorem tick_streams (s : Sender.St) (ms n : Nat) (marks : List (BitVec 32)) :
    (Sender.step s (.tick ms n marks)).streams = s.streams := by
  simp only [Sender.step]
  rw [(applyMarks_frame _ marks).1.2.2.2.2.2.1, iter_t3_streams]

theorem tick_cfg (s : Sender.St) (ms n : Nat) (marks : List (BitVec 32)) (hm : CfgOk s.cfg) :
    (Sender.step s (.tick ms n marks)).cfg = s.cfg := step_cfg_eq s (.tick ms n marks) hm

end SapiProofs
