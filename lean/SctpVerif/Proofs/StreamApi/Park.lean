import SctpVerif.Proofs.StreamApi.Gate
/-! A parked write that fails (deadline, state gate) — exact statement of what is left behind: only the two id allocators
of the model (`nextWid`, `nextMsg`: ghost identities of calls and messages) have moved. -/
namespace SapiProofs
open Gen Sapi SenderProofs

theorem park_then_fail (s : St) (hfresh : ∀ w ∈ s.waiters, w.wid < s.nextWid) (k : BitVec 16) (st : Sender.Stream)
    (ppi : BitVec 32) (len : Nat) (dl : Option Nat) (hst : s.snd.streams k = some st) :
    failWaiter (parkState s k st ppi len dl) (parkedCall s k st ppi len dl) =
    { s with snd := { s.snd with nextMsg := s.snd.nextMsg + 1 }, nextWid := s.nextWid + 1 } := by
  have hfil : (s.waiters ++ [parkedCall s k st ppi len dl]).filter (fun a => a.wid != s.nextWid) = s.waiters := by
    rw [List.filter_append]
    have h1 : s.waiters.filter (fun a => a.wid != s.nextWid) = s.waiters := by
      apply List.filter_eq_self.mpr
      intro a ha; have := hfresh a ha; simp; omega
    rw [h1]; simp [parkedCall]
  have hw : (parkedCall s k st ppi len dl).wid = s.nextWid := rfl
  simp only [failWaiter, rollbackStream, dropWaiter, parkState, hw, hfil]
  have hsi : (parkedCall s k st ppi len dl).si = k := rfl
  have hun : (parkedCall s k st ppi len dl).unordered = (Sender.packetize s.snd.cfg st k s.snd.nextMsg ppi len).unordered := rfl
  have hn : (parkedCall s k st ppi len dl).n = len := rfl
  simp only [hsi, hun, hn, Sender.setStream, if_true]
  have h3 : (fun j => if j = k then some (Sender.rollback s.snd.cfg (Sender.packetize s.snd.cfg st k s.snd.nextMsg ppi len).st
      (Sender.packetize s.snd.cfg st k s.snd.nextMsg ppi len).unordered len) else
        if j = k then some (Sender.packetize s.snd.cfg st k s.snd.nextMsg ppi len).st else s.snd.streams j) = s.snd.streams := by
    funext j
    by_cases hj : j = k
    · subst hj; simp [rollback_packetize, hst]
    · simp [hj]
  rw [h3]

end SapiProofs
