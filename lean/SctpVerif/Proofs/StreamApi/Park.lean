import SctpVerif.Proofs.StreamApi.Gate
/-! A parked write that fails (deadline, state gate) — exact statement of what is left behind: only the two id allocators
of the model (`nextWid`, `nextMsg`: ghost identities of calls and messages) have moved. -/
namespace SapiProofs
open Gen Sapi SenderProofs

theorem park_then_fail (s : St) (hfresh : ∀ w ∈ s.waiters, w.wid < s.nextWid) (k : BitVec 16) (st : Sender.Stream)
    (ppi : BitVec 32) (len : Nat) (dl : Option Nat) (hst : s.snd.streams k = some st) :
    failWaiter (parkState s k st ppi len dl) (parkedCall s k st ppi len dl) =
    { s with snd := { s.snd with nextMsg := s.snd.nextMsg + 1 }, nextWid := s.nextWid + 1 } := by
  have hfil : (s.waiters ++ [parkedCall s k st ppi len dl]).filter (fun a => a.wid != s.nextWid) = s.waiters := by
    rw [List.filter_append]
    have h1 : s.waiters.filter (fun a => a.wid != s.nextWid) = s.waiters := by
      apply List.filter_eq_self.mpr
      intro a ha; have := hfresh a ha; simp; omega
    rw [h1]; simp [parkedCall]
  have hw : (parkedCall s k st ppi len dl).wid = s.nextWid := rfl
  simp only [failWaiter, rollbackStream, dropWaiter, parkState, hw, hfil]
  have hsi : (parkedCall s k st ppi len dl).si = k := rfl
  have hun : (parkedCall s k st ppi len dl).unordered = (Sender.packetize s.snd.cfg st k s.snd.nextMsg ppi len).unordered := rfl
  have hn : (parkedCall s k st ppi len dl).n = len := rfl
  simp only [hsi, hun, hn, Sender.setStream, if_true]
  have h3 : (fun j => if j = k then some (Sender.rollback s.snd.cfg (Sender.packetize s.snd.cfg st k s.snd.nextMsg ppi len).st
      (Sender.packetize s.snd.cfg st k s.snd.nextMsg ppi len).unordered len) else
        if j = k then some (Sender.packetize s.snd.cfg st k s.snd.nextMsg ppi len).st else s.snd.streams j) = s.snd.streams := by
    funext j
    by_cases hj : j = k
    · subst hj; simp [rollback_packetize, hst]
    · simp [hj]
  rw [h3]

/-- what an accepted write queues and what it does to the counters (statement: `C18_write_consumes_one_id`) -/
theorem write_ok_shape (s : St) (si : BitVec 16) (ppi : BitVec 32) (len : Nat) (dl : Option Nat) (n : Nat)
    (hr : (write s si ppi len dl).2 = .ok n) (hn : n ≠ 0) :
    ∃ st cs u, s.snd.streams si = some st ∧ n = len ∧
      (write s si ppi len dl).1.snd.pending = s.snd.pending ++ cs ∧
      cs.length = (len + s.snd.cfg.maxPayload.toNat - 1) / s.snd.cfg.maxPayload.toNat ∧
      Sender.sumLen cs = len ∧
      (∀ i c, cs[i]? = some c →
        c.si = si ∧ c.ppi = ppi ∧ c.unordered = u ∧ c.fsn = BitVec.ofNat 32 i ∧ c.bfrag = (i == 0) ∧ c.efrag = (i + 1 == cs.length) ∧
        0 < c.len ∧ c.len ≤ s.snd.cfg.maxPayload.toNat ∧ carries s.snd.cfg.useInterleaving (ids st) c) ∧
      u = (ppi != BitVec.ofNat 32 PayloadTypeWebRTCDCEP && st.unordered) ∧
      ((write s si ppi len dl).1.snd.streams si).map ids = some (adv s.snd.cfg.useInterleaving u (ids st)) ∧
      ((write s si ppi len dl).1.snd.streams si).map (·.buffered) = some (st.buffered + BitVec.ofNat 64 len) ∧
      (∀ j, j ≠ si → (write s si ppi len dl).1.snd.streams j = s.snd.streams j) := by
  rcases write_cases s si ppi len dl with ⟨_, e2⟩ | ⟨st, hst, hl, _, _, _, hmp, _, _, e⟩ | ⟨st, _, _, _, _, _, _, _, _, _, e⟩
  · rw [hr] at e2; simp [accepted, hn] at e2
  · rw [e] at hr ⊢
    simp only [WRes.ok.injEq] at hr
    obtain ⟨p1, p2⟩ := packetize_shape s.snd.cfg st si s.snd.nextMsg ppi len hmp
    obtain ⟨q1, q2, _, q4, _, q6, _⟩ := packetize_spec s.snd.cfg st si s.snd.nextMsg ppi len hmp
    refine ⟨st, (Sender.packetize s.snd.cfg st si s.snd.nextMsg ppi len).chunks, (Sender.packetize s.snd.cfg st si s.snd.nextMsg ppi len).unordered,
      hst, hr.symm, rfl, p1, q4, ?_, rfl, ?_, ?_, ?_⟩
    · intro i c hc
      obtain ⟨a1, _, a3, a4, a5, a6, a7, a8, _⟩ := p2 i c hc
      obtain ⟨b1, b2, _⟩ := q6 c (List.mem_of_getElem? hc)
      exact ⟨a1, a3, a4, a5, a6, a7, b1, b2, a8⟩
    · show ((if si = si then some (Sender.packetize s.snd.cfg st si s.snd.nextMsg ppi len).st else s.snd.streams si)).map ids = _
      simp only [if_true, Option.map_some, ids_packetize]
    · show ((if si = si then some (Sender.packetize s.snd.cfg st si s.snd.nextMsg ppi len).st else s.snd.streams si)).map (·.buffered) = _
      simp only [if_true, Option.map_some, q2]
    · intro j hj
      show (if j = si then some (Sender.packetize s.snd.cfg st si s.snd.nextMsg ppi len).st else s.snd.streams j) = _
      simp [hj]
  · rw [e] at hr; cases hr

end SapiProofs
