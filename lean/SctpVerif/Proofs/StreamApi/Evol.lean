import SctpVerif.Proofs.Sender
/-! How the sender operations change ONE in-flight chunk: a per-chunk predicate `P marked allInflight chunk` that is closed
under the local transitions (acknowledged, miss indication, marked for retransmission when not abandoned, T3-path
retransmission and fast retransmission (both only when not abandoned: D21 fix), first transmission — each followed by `checkPartialReliabilityStatus`) holds for
every in-flight chunk and every chunk put on the wire, along `gather` / `sack` / `t3` / clock ticks. -/
namespace SapiProofs
open Gen SenderProofs

/-- what `checkPR`, `rtxUpd`, `fastUpd`, `move` read besides the chunk: PR enabled, the stream table, the clock -/
def SameCtx (s s' : Sender.St) : Prop := s'.cfg = s.cfg ∧ s'.streams = s.streams ∧ s'.now = s.now ∧ s'.nextMsg = s.nextMsg

theorem SameCtx.rfl' (s : Sender.St) : SameCtx s s := ⟨rfl, rfl, rfl, rfl⟩
theorem SameCtx.trans {a b c : Sender.St} (h1 : SameCtx a b) (h2 : SameCtx b c) : SameCtx a c :=
  ⟨h2.1.trans h1.1, h2.2.1.trans h1.2.1, h2.2.2.1.trans h1.2.2.1, h2.2.2.2.trans h1.2.2.2⟩

theorem checkPR_congr {s s' : Sender.St} (h : SameCtx s s') (ab : List Nat) (c : Sender.Chunk) :
    Sender.checkPR s' ab c = Sender.checkPR s ab c := by
  simp only [Sender.checkPR, h.1, h.2.1, h.2.2.1]

theorem checkPR_mono (s : Sender.St) (ab : List Nat) (c : Sender.Chunk) : ∀ m ∈ ab, m ∈ Sender.checkPR s ab c := by
  intro m hm
  simp only [Sender.checkPR]
  repeat' split
  all_goals first | exact hm | exact List.mem_cons_of_mem _ hm

theorem rtxUpd_congr {s s' : Sender.St} (h : SameCtx s s') (c : Sender.Chunk) : Sender.rtxUpd s' c = Sender.rtxUpd s c := by
  simp only [Sender.rtxUpd, h.2.2.1]
theorem fastUpd_congr {s s' : Sender.St} (h : SameCtx s s') (c : Sender.Chunk) : Sender.fastUpd s' c = Sender.fastUpd s c := by
  simp only [Sender.fastUpd, h.2.2.1]

/-- the first transmission of a pending chunk (`movePendingDataChunkToInflightQueue`) -/
def firstTx (s : Sender.St) (tsn : BitVec 32) (c : Sender.Chunk) : Sender.Chunk :=
  { c with tsn := tsn, since := s.now, firstSent := s.now, nSent := 1 }

/-- `P marked allInflight chunk`, closed under what acknowledgements, miss indications and retransmission marks do to an
in-flight chunk, and stable when the two sets grow -/
structure ClosedL (P : List Nat → List Nat → Sender.Chunk → Prop) : Prop where
  mono : ∀ ab ab' ai ai' c, (∀ m ∈ ab, m ∈ ab') → (∀ m ∈ ai, m ∈ ai') → P ab ai c → P ab' ai' c
  acked : ∀ ab ai c, P ab ai c → P ab ai c.markAcked
  miss : ∀ ab ai c x, P ab ai c → P ab ai { c with missIndicator := x }
  mark : ∀ ab ai c, P ab ai c → Sender.isAbandoned ab ai c = false → c.acked = false → P ab ai { c with retransmit := true }

/-- … and under the transmissions of a gather in context `s` (each followed by `checkPartialReliabilityStatus`);
`Q` is what is known of a chunk still in the pending queue -/
structure Closed (s : Sender.St) (P : List Nat → List Nat → Sender.Chunk → Prop) (Q : Sender.Chunk → Prop) : Prop extends ClosedL P where
  rtx : ∀ ab ai c, P ab ai c → c.retransmit = true → Sender.isAbandoned ab ai c = false →
    P (Sender.checkPR s ab (Sender.rtxUpd s c)) ai (Sender.rtxUpd s c)
  fast : ∀ ab ai c, P ab ai c → c.acked = false → Sender.isAbandoned ab ai c = false → fastRtx_skip c.nSent c.missIndicator = false →
    P (Sender.checkPR s ab (Sender.fastUpd s c)) ai (Sender.fastUpd s c)
  fresh : ∀ ab ai c tsn, Q c →
    P (Sender.checkPR s ab (firstTx s tsn c)) (if c.efrag then c.msg :: ai else ai) (firstTx s tsn c)

theorem Closed.congr {s s' : Sender.St} {P Q} (h : Closed s P Q) (hc : SameCtx s s') : Closed s' P Q :=
  { toClosedL := h.toClosedL
    rtx := by intro ab ai c hp hr hna; rw [rtxUpd_congr hc, checkPR_congr hc]; exact h.rtx ab ai c hp hr hna
    fast := by intro ab ai c hp h1 h2 h3; rw [fastUpd_congr hc, checkPR_congr hc]; exact h.fast ab ai c hp h1 h2 h3
    fresh := by
      intro ab ai c tsn hq
      have : firstTx s' tsn c = firstTx s tsn c := by simp only [firstTx, hc.2.2.1]
      rw [this, checkPR_congr hc]; exact h.fresh ab ai c tsn hq }

/-! ### the scan loops -/

theorem scanLoop_closed {B : Type} (s : Sender.St) (dec : Int → Sender.LoopAcc B → Sender.Chunk → Sender.Take B) (upd : Sender.Chunk → Sender.Chunk)
    (ai : List Nat) (P : List Nat → List Nat → Sender.Chunk → Prop)
    (mono : ∀ ab ab' c, (∀ m ∈ ab, m ∈ ab') → P ab ai c → P ab' ai c)
    (take : ∀ i (a : Sender.LoopAcc B) c b bip, dec i a c = .take b bip → P a.aband ai c → P (Sender.checkPR s a.aband (upd c)) ai (upd c))
    (i : Int) (q : List Sender.Chunk) (a : Sender.LoopAcc B)
    (hq : ∀ c ∈ q, P a.aband ai c) (hout : ∀ e ∈ a.out, P a.aband ai e) :
    (∀ c ∈ (Sender.scanLoop s dec upd i q a).1, P (Sender.scanLoop s dec upd i q a).2.aband ai c) ∧
    (∀ e ∈ (Sender.scanLoop s dec upd i q a).2.out, P (Sender.scanLoop s dec upd i q a).2.aband ai e) ∧
    (∀ m ∈ a.aband, m ∈ (Sender.scanLoop s dec upd i q a).2.aband) := by
  induction q generalizing i a with
  | nil => exact ⟨fun c hc => absurd hc List.not_mem_nil, hout, fun m hm => hm⟩
  | cons c rest ih =>
    simp only [Sender.scanLoop]
    cases hd : dec i a c with
    | skip =>
      simp only
      obtain ⟨r1, r2, r3⟩ := ih (i + 1) a (fun x hx => hq x (List.mem_cons_of_mem _ hx)) hout
      refine ⟨?_, r2, r3⟩
      intro x hx
      rcases List.mem_cons.mp hx with h | h
      · subst h; exact mono _ _ _ r3 (hq _ List.mem_cons_self)
      · exact r1 x h
    | stop b => exact ⟨hq, hout, fun m hm => hm⟩
    | take b bip =>
      simp only
      have hgrow : ∀ m ∈ a.aband, m ∈ Sender.checkPR s a.aband (upd c) := checkPR_mono s a.aband (upd c)
      have hc' := take i a c b bip hd (hq c List.mem_cons_self)
      obtain ⟨r1, r2, r3⟩ := ih (i + 1)
        { a with b := b, bytesToSend := a.bytesToSend + (c.len : Int), bip := bip, size := a.size + c.sizeInPacket s.cfg.useInterleaving,
                 out := a.out ++ [upd c], aband := Sender.checkPR s a.aband (upd c) }
        (fun x hx => mono _ _ _ hgrow (hq x (List.mem_cons_of_mem _ hx)))
        (by
          intro e he
          simp only [List.mem_append, List.mem_singleton] at he
          rcases he with h | h
          · exact mono _ _ _ hgrow (hout e h)
          · subst h; exact hc')
      refine ⟨?_, r2, fun m hm => r3 m (hgrow m hm)⟩
      intro x hx
      rcases List.mem_cons.mp hx with h | h
      · subst h; exact mono _ _ _ r3 hc'
      · exact r1 x h

theorem rtxDecide_take {B : Type} (s : Sender.St) (allow : B → Int → Bool × B) (awnd : BitVec 32) (i : Int) (a : Sender.LoopAcc B)
    (c : Sender.Chunk) (b : B) (bip : Int) (h : Sender.rtxDecide s allow awnd i a c = .take b bip) :
    c.retransmit = true ∧ Sender.isAbandoned a.aband s.allInflightMsgs c = false := by
  unfold Sender.rtxDecide at h
  by_cases hr : c.retransmit = true
  · by_cases ha : Sender.isAbandoned a.aband s.allInflightMsgs c = true
    · simp [hr, ha] at h
    · exact ⟨hr, by simpa using ha⟩
  · simp [hr] at h

theorem packAllow_not_skip {B : Type} (allow : B → Int → Bool × B) (b : B) (abip cb : Int) (full tooBig : Bool) :
    ∀ b' bip, Sender.packAllow allow b abip cb full tooBig = .take b' bip → True := fun _ _ _ => trivial

theorem fastDecide_take {B : Type} (s : Sender.St) (allow : B → Int → Bool × B) (wnd : Int) (i : Int) (a : Sender.LoopAcc B)
    (c : Sender.Chunk) (b : B) (bip : Int) (h : Sender.fastDecide s allow wnd i a c = .take b bip) :
    c.acked = false ∧ Sender.isAbandoned a.aband s.allInflightMsgs c = false ∧ fastRtx_skip c.nSent c.missIndicator = false := by
  unfold Sender.fastDecide at h
  by_cases h1 : (c.acked || Sender.isAbandoned a.aband s.allInflightMsgs c) = true
  · simp [h1] at h
  · by_cases h2 : fastRtx_skip c.nSent c.missIndicator = true
    · simp [h1, h2] at h
    · simp only [Bool.or_eq_true, not_or, Bool.not_eq_true] at h1
      exact ⟨h1.1, h1.2, by simpa using h2⟩

/-! ### the three phases of a gather -/

/-- every in-flight chunk satisfies `P` relative to the state's own sets -/
def InvP (s : Sender.St) (P : List Nat → List Nat → Sender.Chunk → Prop) : Prop :=
  ∀ c ∈ s.inflight, P s.abandonedMsgs s.allInflightMsgs c

/-- the sets only grow -/
def Grows (s s' : Sender.St) : Prop :=
  (∀ m ∈ s.abandonedMsgs, m ∈ s'.abandonedMsgs) ∧ (∀ m ∈ s.allInflightMsgs, m ∈ s'.allInflightMsgs)

theorem Grows.rfl' (s : Sender.St) : Grows s s := ⟨fun _ h => h, fun _ h => h⟩
theorem Grows.trans {a b c : Sender.St} (h1 : Grows a b) (h2 : Grows b c) : Grows a c :=
  ⟨fun m hm => h2.1 m (h1.1 m hm), fun m hm => h2.2 m (h1.2 m hm)⟩

theorem gatherRtx_closed (s : Sender.St) (orc : Sender.Oracle) (P : List Nat → List Nat → Sender.Chunk → Prop) (Q : Sender.Chunk → Prop)
    (hP : Closed s P Q) (hin : InvP s P) :
    InvP (Sender.gatherRtx s orc).1 P ∧
    (∀ e ∈ (Sender.gatherRtx s orc).2.1, P (Sender.gatherRtx s orc).1.abandonedMsgs (Sender.gatherRtx s orc).1.allInflightMsgs e) ∧
    Grows s (Sender.gatherRtx s orc).1 ∧ SameCtx s (Sender.gatherRtx s orc).1 ∧ (Sender.gatherRtx s orc).1.pending = s.pending := by
  have hsplit := scanSplit_append s
  have hmono : ∀ ab ab' c, (∀ m ∈ ab, m ∈ ab') → P ab s.allInflightMsgs c → P ab' s.allInflightMsgs c :=
    fun ab ab' c h hp => hP.mono ab ab' _ _ c h (fun _ hm => hm) hp
  have hloop := scanLoop_closed s (Sender.rtxDecide s orc.allow (rtx_awnd s.cwnd s.rwnd)) (Sender.rtxUpd s) s.allInflightMsgs P hmono
    (fun i a c b bip hd hp => hP.rtx a.aband _ c hp (rtxDecide_take s orc.allow _ i a c b bip hd).1 (rtxDecide_take s orc.allow _ i a c b bip hd).2)
    0 (Sender.scanSplit s).2 { b := orc.b, aband := s.abandonedMsgs }
    (fun c hc => hin c (by rw [← hsplit]; exact List.mem_append_right _ hc))
    (fun e he => absurd he List.not_mem_nil)
  obtain ⟨l1, l2, l3⟩ := hloop
  refine ⟨?_, l2, ⟨l3, fun _ h => h⟩, ⟨rfl, rfl, rfl, rfl⟩, rfl⟩
  intro c hc
  simp only [Sender.gatherRtx, List.mem_append] at hc
  rcases hc with h | h
  · exact hmono _ _ _ l3 (hin c (by rw [← hsplit]; exact List.mem_append_left _ h))
  · exact l1 c h

theorem gatherFast_closed {B : Type} (s : Sender.St) (allow : B → Int → Bool × B) (b : B)
    (P : List Nat → List Nat → Sender.Chunk → Prop) (Q : Sender.Chunk → Prop) (hP : Closed s P Q) (hin : InvP s P) :
    InvP (Sender.gatherFast s allow b).1 P ∧
    (∀ e ∈ (Sender.gatherFast s allow b).2, P (Sender.gatherFast s allow b).1.abandonedMsgs (Sender.gatherFast s allow b).1.allInflightMsgs e) ∧
    Grows s (Sender.gatherFast s allow b).1 ∧ SameCtx s (Sender.gatherFast s allow b).1 ∧ (Sender.gatherFast s allow b).1.pending = s.pending := by
  unfold Sender.gatherFast
  split
  · exact ⟨hin, fun e he => absurd he List.not_mem_nil, Grows.rfl' s, SameCtx.rfl' s, rfl⟩
  · simp only
    have hsplit := scanSplit_append { s with willRetransmitFast := false }
    have hctx : SameCtx s { s with willRetransmitFast := false } := ⟨rfl, rfl, rfl, rfl⟩
    have hP0 := hP.congr hctx
    have hmono : ∀ ab ab' c, (∀ m ∈ ab, m ∈ ab') → P ab s.allInflightMsgs c → P ab' s.allInflightMsgs c :=
      fun ab ab' c h hp => hP.mono ab ab' _ _ c h (fun _ hm => hm) hp
    have hloop := scanLoop_closed { s with willRetransmitFast := false }
      (Sender.fastDecide { s with willRetransmitFast := false } allow (fastRtx_wnd s.cfg.mtu s.cfg.fastRtxWnd))
      (Sender.fastUpd { s with willRetransmitFast := false }) s.allInflightMsgs P hmono
      (fun i a c b' bip hd hp => by
        obtain ⟨f1, f2, f3⟩ := fastDecide_take _ allow _ i a c b' bip hd
        exact hP0.fast a.aband _ c hp f1 f2 f3)
      0 (Sender.scanSplit { s with willRetransmitFast := false }).2 { b := b, size := Sender.hdr, aband := s.abandonedMsgs }
      (fun c hc => hin c (by
        have : c ∈ ({ s with willRetransmitFast := false } : Sender.St).inflight := by rw [← hsplit]; exact List.mem_append_right _ hc
        exact this))
      (fun e he => absurd he List.not_mem_nil)
    obtain ⟨l1, l2, l3⟩ := hloop
    refine ⟨?_, l2, ⟨l3, fun _ h => h⟩, ⟨rfl, rfl, rfl, rfl⟩, by first | rfl | trivial⟩
    intro c hc
    simp only [List.mem_append] at hc
    rcases hc with h | h
    · refine hmono _ _ _ l3 (hin c ?_)
      have : c ∈ ({ s with willRetransmitFast := false } : Sender.St).inflight := by rw [← hsplit]; exact List.mem_append_left _ h
      exact this
    · exact l1 c h

/-- what `movePendingDataChunkToInflightQueue` does -/
theorem move_closed (s : Sender.St) (i : Nat) (c : Sender.Chunk) (P : List Nat → List Nat → Sender.Chunk → Prop) (Q : Sender.Chunk → Prop)
    (hP : Closed s P Q) (hin : InvP s P) (hq : Q c) :
    InvP (Sender.move s i c).1 P ∧
    P (Sender.move s i c).1.abandonedMsgs (Sender.move s i c).1.allInflightMsgs (Sender.move s i c).2 ∧
    Grows s (Sender.move s i c).1 ∧ SameCtx s (Sender.move s i c).1 ∧ (∀ x ∈ (Sender.move s i c).1.pending, x ∈ s.pending) := by
  have hc' : (Sender.move s i c).2 = firstTx s s.myNextTSN c := rfl
  have hab : (Sender.move s i c).1.abandonedMsgs = Sender.checkPR s s.abandonedMsgs (firstTx s s.myNextTSN c) := by
    simp only [Sender.move]
    exact checkPR_congr (s := s) ⟨rfl, rfl, rfl, rfl⟩ _ _
  have hai : (Sender.move s i c).1.allInflightMsgs = (if c.efrag then c.msg :: s.allInflightMsgs else s.allInflightMsgs) := by
    simp only [Sender.move, Sender.popPend]
  have hnew := hP.fresh s.abandonedMsgs s.allInflightMsgs c s.myNextTSN hq
  have g1 : ∀ m ∈ s.abandonedMsgs, m ∈ (Sender.move s i c).1.abandonedMsgs := by rw [hab]; exact checkPR_mono _ _ _
  have g2 : ∀ m ∈ s.allInflightMsgs, m ∈ (Sender.move s i c).1.allInflightMsgs := by
    rw [hai]; intro m hm; split
    · exact List.mem_cons_of_mem _ hm
    · exact hm
  refine ⟨?_, by rw [hab, hai, hc']; exact hnew, ⟨g1, g2⟩, ⟨rfl, rfl, rfl, rfl⟩, fun x hx => ?_⟩
  · intro x hx
    have : x ∈ s.inflight ++ [firstTx s s.myNextTSN c] := hx
    rcases List.mem_append.mp this with h | h
    · exact hP.mono _ _ _ _ x g1 g2 (hin x h)
    · rw [List.mem_singleton] at h; subst h; rw [hab, hai]; exact hnew
  · simp only [Sender.move, Sender.popPend] at hx; exact mem_eraseIdx hx

theorem popLoop_closed {B : Type} (allow : B → Int → Bool × B) (s0 : Sender.St)
    (P : List Nat → List Nat → Sender.Chunk → Prop) (Q : Sender.Chunk → Prop) (hP : Closed s0 P Q)
    (fuel : Nat) (s : Sender.St) (sel : List Nat) (a : Sender.PopAcc B)
    (hctx : SameCtx s0 s) (hin : InvP s P) (hq : ∀ c ∈ s.pending, Q c)
    (ha : ∀ x ∈ a.admits, P s.abandonedMsgs s.allInflightMsgs x.chunk) :
    InvP (Sender.popLoop allow fuel s sel a).1 P ∧ (∀ c ∈ (Sender.popLoop allow fuel s sel a).1.pending, Q c) ∧
    (∀ x ∈ (Sender.popLoop allow fuel s sel a).2.2.admits,
      P (Sender.popLoop allow fuel s sel a).1.abandonedMsgs (Sender.popLoop allow fuel s sel a).1.allInflightMsgs x.chunk) ∧
    Grows s (Sender.popLoop allow fuel s sel a).1 ∧ SameCtx s0 (Sender.popLoop allow fuel s sel a).1 := by
  induction fuel generalizing s sel a with
  | zero => exact ⟨hin, hq, ha, Grows.rfl' s, hctx⟩
  | succ fuel ih =>
    simp only [Sender.popLoop]
    cases hp : Sender.peek s sel with
    | none => exact ⟨hin, hq, ha, Grows.rfl' s, hctx⟩
    | some ic =>
      obtain ⟨i, c⟩ := ic
      simp only
      have hpi := peek_some hp
      split
      · -- end-of-stream marker: dropped
        have := ih (Sender.popPend s i c) sel.tail { a with sisToReset := a.sisToReset ++ [c.si] } hctx hin
          (fun x hx => hq x (mem_eraseIdx hx)) ha
        exact ⟨this.1, this.2.1, this.2.2.1, this.2.2.2.1, this.2.2.2.2⟩
      · cases hd : Sender.popDecide s allow a c with
        | skip => exact ⟨hin, hq, ha, Grows.rfl' s, hctx⟩
        | stop b => exact ⟨hin, hq, ha, Grows.rfl' s, hctx⟩
        | take b bip =>
          simp only
          have hcs : SameCtx s0 (Sender.chargeSend s c) := hctx
          have hmv := move_closed (Sender.chargeSend s c) i c P Q (hP.congr hcs) hin (hq c (List.mem_of_getElem? hpi))
          obtain ⟨m1, m2, m3, m4, m5⟩ := hmv
          have := ih (Sender.admitChunk s i c).1 sel.tail
            { a with b := b, bip := bip, admits := a.admits ++ [Sender.mkAdmit s (Sender.admitChunk s i c).2 false] }
            (SameCtx.trans hcs m4) m1 (fun x hx => hq x (m5 x hx))
            (by
              intro x hx
              simp only [List.mem_append, List.mem_singleton] at hx
              rcases hx with h | h
              · exact hP.mono _ _ _ _ _ m3.1 m3.2 (ha x h)
              · subst h; exact m2)
          exact ⟨this.1, this.2.1, this.2.2.1, Grows.trans m3 this.2.2.2.1, this.2.2.2.2⟩

theorem probe_closed {B : Type} (allow : B → Int → Bool × B) (s0 : Sender.St)
    (P : List Nat → List Nat → Sender.Chunk → Prop) (Q : Sender.Chunk → Prop) (hP : Closed s0 P Q)
    (s : Sender.St) (sel : List Nat) (a : Sender.PopAcc B)
    (hctx : SameCtx s0 s) (hin : InvP s P) (hq : ∀ c ∈ s.pending, Q c)
    (ha : ∀ x ∈ a.admits, P s.abandonedMsgs s.allInflightMsgs x.chunk) :
    InvP (Sender.probe allow s sel a).1 P ∧ (∀ c ∈ (Sender.probe allow s sel a).1.pending, Q c) ∧
    (∀ x ∈ (Sender.probe allow s sel a).2.2.admits,
      P (Sender.probe allow s sel a).1.abandonedMsgs (Sender.probe allow s sel a).1.allInflightMsgs x.chunk) ∧
    Grows s (Sender.probe allow s sel a).1 ∧ SameCtx s0 (Sender.probe allow s sel a).1 := by
  have triv : InvP s P ∧ (∀ c ∈ s.pending, Q c) ∧ (∀ x ∈ a.admits, P s.abandonedMsgs s.allInflightMsgs x.chunk) ∧ Grows s s ∧ SameCtx s0 s :=
    ⟨hin, hq, ha, Grows.rfl' s, hctx⟩
  unfold Sender.probe
  split
  · cases hp : Sender.peek s sel with
    | none => exact triv
    | some ic =>
      obtain ⟨i, c⟩ := ic
      simp only
      have hpi := peek_some hp
      split
      · split
        · split
          · have hcs : SameCtx s0 (Sender.chargeProbe s c) := hctx
            obtain ⟨m1, m2, m3, m4, m5⟩ := move_closed (Sender.chargeProbe s c) i c P Q (hP.congr hcs) hin (hq c (List.mem_of_getElem? hpi))
            refine ⟨m1, fun x hx => hq x (m5 x hx), ?_, m3, SameCtx.trans hcs m4⟩
            intro x hx
            simp only [List.mem_append, List.mem_singleton] at hx
            rcases hx with h | h
            · exact hP.mono _ _ _ _ _ m3.1 m3.2 (ha x h)
            · subst h; exact m2
          · exact triv
        · exact triv
      · exact triv
  · exact triv

theorem bundle_mem (mtu : BitVec 32) (il : Bool) (l cur : List Sender.Chunk) (bip : Int) :
    ∀ p ∈ Sender.bundle mtu il l cur bip, ∀ e ∈ p, e ∈ cur ∨ e ∈ l := by
  induction l generalizing cur bip with
  | nil =>
    intro p hp e he
    simp only [Sender.bundle] at hp
    split at hp
    · cases hp
    · rw [List.mem_singleton] at hp; subst hp; exact Or.inl he
  | cons c rest ih =>
    intro p hp e he
    simp only [Sender.bundle] at hp
    split at hp
    · rcases List.mem_cons.mp hp with h | h
      · subst h; exact Or.inl he
      · rcases ih [c] _ p h e he with h' | h'
        · rw [List.mem_singleton] at h'; subst h'; exact Or.inr List.mem_cons_self
        · exact Or.inr (List.mem_cons_of_mem _ h')
    · rcases ih (cur ++ [c]) _ p hp e he with h' | h'
      · rcases List.mem_append.mp h' with h'' | h''
        · exact Or.inl h''
        · rw [List.mem_singleton] at h''; subst h''; exact Or.inr List.mem_cons_self
      · exact Or.inr (List.mem_cons_of_mem _ h')

/-- **one gather**: the predicate holds for every in-flight chunk afterwards and for every chunk put on the wire
(retransmission, new DATA, fast retransmission packets), relative to the sets after the gather -/
theorem gather_closed (s : Sender.St) (orc : Sender.Oracle) (sel : List Nat)
    (P : List Nat → List Nat → Sender.Chunk → Prop) (Q : Sender.Chunk → Prop) (hP : Closed s P Q)
    (hin : InvP s P) (hq : ∀ c ∈ s.pending, Q c) :
    InvP (Sender.gather s orc sel).1 P ∧ (∀ c ∈ (Sender.gather s orc sel).1.pending, Q c) ∧
    (∀ p ∈ (Sender.gather s orc sel).2.packets, ∀ e ∈ p,
      P (Sender.gather s orc sel).1.abandonedMsgs (Sender.gather s orc sel).1.allInflightMsgs e) ∧
    Grows s (Sender.gather s orc sel).1 ∧ SameCtx s (Sender.gather s orc sel).1 := by
  unfold Sender.gather
  split
  · exact ⟨hin, hq, fun p hp => absurd hp List.not_mem_nil, Grows.rfl' s, SameCtx.rfl' s⟩
  · simp only
    obtain ⟨a1, a2, a3, a4, a5⟩ := gatherRtx_closed s orc P Q hP hin
    -- new data
    have hnew : InvP (Sender.gatherNew (Sender.gatherRtx s orc).1 orc.allow (Sender.gatherRtx s orc).2.2 sel).1 P ∧
        (∀ c ∈ (Sender.gatherNew (Sender.gatherRtx s orc).1 orc.allow (Sender.gatherRtx s orc).2.2 sel).1.pending, Q c) ∧
        (∀ x ∈ (Sender.gatherNew (Sender.gatherRtx s orc).1 orc.allow (Sender.gatherRtx s orc).2.2 sel).2.admits,
          P (Sender.gatherNew (Sender.gatherRtx s orc).1 orc.allow (Sender.gatherRtx s orc).2.2 sel).1.abandonedMsgs
            (Sender.gatherNew (Sender.gatherRtx s orc).1 orc.allow (Sender.gatherRtx s orc).2.2 sel).1.allInflightMsgs x.chunk) ∧
        Grows (Sender.gatherRtx s orc).1 (Sender.gatherNew (Sender.gatherRtx s orc).1 orc.allow (Sender.gatherRtx s orc).2.2 sel).1 ∧
        SameCtx s (Sender.gatherNew (Sender.gatherRtx s orc).1 orc.allow (Sender.gatherRtx s orc).2.2 sel).1 := by
      unfold Sender.gatherNew
      split
      · obtain ⟨b1, b2, b3, b4, b5⟩ := popLoop_closed orc.allow s P Q hP ((Sender.gatherRtx s orc).1.pending.length + 1)
          (Sender.gatherRtx s orc).1 sel { b := (Sender.gatherRtx s orc).2.2 } a4 a1 (by rw [a5]; exact hq)
          (fun x hx => absurd hx List.not_mem_nil)
        obtain ⟨c1, c2, c3, c4, c5⟩ := probe_closed orc.allow s P Q hP _ _ _ b5 b1 b2 b3
        exact ⟨c1, c2, c3, Grows.trans b4 c4, c5⟩
      · exact ⟨a1, by rw [a5]; exact hq, fun x hx => absurd hx List.not_mem_nil, Grows.rfl' _, a4⟩
    obtain ⟨b1, b2, b3, b4, b5⟩ := hnew
    obtain ⟨c1, c2, c3, c4, c5⟩ := gatherFast_closed (Sender.gatherNew (Sender.gatherRtx s orc).1 orc.allow (Sender.gatherRtx s orc).2.2 sel).1
      orc.allow (Sender.gatherNew (Sender.gatherRtx s orc).1 orc.allow (Sender.gatherRtx s orc).2.2 sel).2.b P Q (hP.congr b5) b1
    have gAll : Grows s (Sender.gatherFast (Sender.gatherNew (Sender.gatherRtx s orc).1 orc.allow (Sender.gatherRtx s orc).2.2 sel).1 orc.allow
        (Sender.gatherNew (Sender.gatherRtx s orc).1 orc.allow (Sender.gatherRtx s orc).2.2 sel).2.b).1 :=
      Grows.trans a3 (Grows.trans b4 c3)
    refine ⟨c1, by intro x hx; exact b2 x (by rw [← c5]; exact hx), ?_, gAll, SameCtx.trans b5 c4⟩
    intro p hp e he
    simp only [Sender.GatherOut.packets, List.mem_append] at hp
    rcases hp with (hp | hp) | hp
    · rcases bundle_mem _ _ _ _ _ p hp e he with h | h
      · cases h
      · exact hP.mono _ _ _ _ _ (Grows.trans b4 c3).1 (Grows.trans b4 c3).2 (a2 e h)
    · split at hp
      · cases hp
      · rcases bundle_mem _ _ _ _ _ p hp e he with h | h
        · cases h
        · obtain ⟨x, hx, rfl⟩ := List.mem_map.mp h
          exact hP.mono _ _ _ _ _ c3.1 c3.2 (b3 x hx)
    · split at hp
      · cases hp
      · rcases bundle_mem _ _ _ _ _ p hp e he with h | h
        · cases h
        · exact c2 e h

end SapiProofs
