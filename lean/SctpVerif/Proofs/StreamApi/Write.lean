import SctpVerif.Model.StreamApi
import SctpVerif.Proofs.Sender
/-! `Sapi.write` / `wake` / `failWaiter`: what a rejected, failed, parked, accepted call does to the state. -/
namespace SapiProofs
open Gen Sapi SenderProofs

/-- a call that queued data or is parked (everything else must leave no trace) -/
def accepted : WRes → Bool
  | .ok n => n != 0
  | .blocked _ => true
  | _ => false

theorem setStream_same (s : Sender.St) (si : BitVec 16) (st : Sender.Stream) (h : s.streams si = some st) : Sender.setStream s si st = s := by
  have : (fun k => if k = si then some st else s.streams k) = s.streams := by
    funext k; by_cases hk : k = si
    · subst hk; simp [h]
    · simp [hk]
  simp only [Sender.setStream, this]

theorem setStream_setStream (s : Sender.St) (si : BitVec 16) (a b : Sender.Stream) : Sender.setStream (Sender.setStream s si a) si b = Sender.setStream s si b := by
  have : (fun k => if k = si then some b else (Sender.setStream s si a).streams k) = (fun k => if k = si then some b else s.streams k) := by
    funext k; by_cases hk : k = si <;> simp [Sender.setStream, hk]
  simp only [Sender.setStream] at this ⊢
  rw [this]

/-- the failure branch of `WriteSCTP` right after `Sender.packetize`: the state is what it was -/
theorem rollback_after_packetize (s : St) (si : BitVec 16) (st : Sender.Stream) (msg : Nat) (ppi : BitVec 32) (len : Nat)
    (hs : s.snd.streams si = some st) :
    rollbackStream { s with snd := Sender.setStream s.snd si (Sender.packetize s.snd.cfg st si msg ppi len).st } si
      (Sender.packetize s.snd.cfg st si msg ppi len).unordered len = s := by
  simp only [rollbackStream]
  have h1 : (Sender.setStream s.snd si (Sender.packetize s.snd.cfg st si msg ppi len).st).streams si = some (Sender.packetize s.snd.cfg st si msg ppi len).st := by
    simp [Sender.setStream]
  rw [h1]
  simp only
  have hc : (Sender.setStream s.snd si (Sender.packetize s.snd.cfg st si msg ppi len).st).cfg = s.snd.cfg := rfl
  rw [hc, rollback_packetize, setStream_setStream, setStream_same _ _ _ hs]

/-- the state after an accepted write: stream after `packetize`, chunks pushed, `writePending` raised in blocking mode -/
def acceptState (s : St) (si : BitVec 16) (st : Sender.Stream) (ppi : BitVec 32) (len : Nat) : St :=
  pushChunks { s with snd := { Sender.setStream s.snd si (Sender.packetize s.snd.cfg st si s.snd.nextMsg ppi len).st with
                                 nextMsg := s.snd.nextMsg + 1,
                                 wrapBuf := s.snd.wrapBuf || (Sender.packetize s.snd.cfg st si s.snd.nextMsg ppi len).wrap } }
    (Sender.packetize s.snd.cfg st si s.snd.nextMsg ppi len).chunks

/-- the record of a call parked by `write` -/
def parkedCall (s : St) (si : BitVec 16) (st : Sender.Stream) (ppi : BitVec 32) (len : Nat) (dl : Option Nat) : Waiter :=
  { wid := s.nextWid, si := si, chunks := (Sender.packetize s.snd.cfg st si s.snd.nextMsg ppi len).chunks,
    unordered := (Sender.packetize s.snd.cfg st si s.snd.nextMsg ppi len).unordered, n := len, deadline := dl }

/-- the state with the call parked: stream after `packetize`, nothing pushed -/
def parkState (s : St) (si : BitVec 16) (st : Sender.Stream) (ppi : BitVec 32) (len : Nat) (dl : Option Nat) : St :=
  { s with snd := { Sender.setStream s.snd si (Sender.packetize s.snd.cfg st si s.snd.nextMsg ppi len).st with nextMsg := s.snd.nextMsg + 1 },
           waiters := s.waiters ++ [parkedCall s si st ppi len dl],
           nextWid := s.nextWid + 1 }

/-- the three outcomes of `write`: no trace / accepted / parked -/
theorem write_cases (s : St) (si : BitVec 16) (ppi : BitVec 32) (len : Nat) (dl : Option Nat) :
    ((Sapi.write s si ppi len dl).1 = s ∧ accepted (Sapi.write s si ppi len dl).2 = false) ∨
    (∃ st, s.snd.streams si = some st ∧ len ≠ 0 ∧ write_tooLarge (len : Int) s.snd.cfg.maxMessageSize = false ∧
      write_notOpen (s.sstate si) = false ∧ hasWaiter s si = false ∧ s.snd.cfg.maxPayload ≠ 0 ∧
      send_notEstablished s.state = false ∧ mustWait s = false ∧
      Sapi.write s si ppi len dl = (acceptState s si st ppi len, .ok len)) ∨
    (∃ st, s.snd.streams si = some st ∧ len ≠ 0 ∧ write_tooLarge (len : Int) s.snd.cfg.maxMessageSize = false ∧
      write_notOpen (s.sstate si) = false ∧ hasWaiter s si = false ∧ s.snd.cfg.maxPayload ≠ 0 ∧
      send_notEstablished s.state = false ∧ mustWait s = true ∧ deadlinePassed s.snd.now dl = false ∧
      Sapi.write s si ppi len dl = (parkState s si st ppi len dl, .blocked s.nextWid)) := by
  cases hs : s.snd.streams si with
  | none => left; simp [Sapi.write, hs, accepted]
  | some st =>
    by_cases c1 : write_tooLarge (len : Int) s.snd.cfg.maxMessageSize = true
    · left; simp [Sapi.write, hs, c1, accepted]
    by_cases c2 : write_notOpen (s.sstate si) = true
    · left; simp [Sapi.write, hs, c1, c2, accepted]
    by_cases c3 : write_empty (len : Int) = true
    · left; simp [Sapi.write, hs, c1, c2, c3, accepted]
    by_cases c4 : hasWaiter s si = true
    · left; simp [Sapi.write, hs, c1, c2, c3, c4, accepted]
    by_cases c5 : s.snd.cfg.maxPayload = 0
    · left; simp [Sapi.write, hs, c1, c2, c3, c4, c5, accepted]
    have hlen : len ≠ 0 := by intro h0; subst h0; simp [write_empty] at c3
    by_cases c6 : send_notEstablished s.state = true
    · left
      simp only [Sapi.write, hs, c1, c2, c3, c4, c5, c6, if_true, if_false, Bool.false_eq_true, accepted, and_true]
      exact rollback_after_packetize s si st _ ppi len hs
    by_cases c7 : mustWait s = true
    · by_cases c8 : deadlinePassed s.snd.now dl = true
      · left
        simp only [Sapi.write, hs, c1, c2, c3, c4, c5, c6, c7, c8, if_true, if_false, Bool.false_eq_true, accepted, and_true]
        exact rollback_after_packetize s si st _ ppi len hs
      · right; right
        refine ⟨st, rfl, hlen, by simpa using c1, by simpa using c2, by simpa using c4, c5, by simpa using c6, c7, by simpa using c8, ?_⟩
        simp only [Sapi.write, hs, c1, c2, c3, c4, c5, c6, c7, c8, if_true, if_false, Bool.false_eq_true, parkState, parkedCall]
    · right; left
      refine ⟨st, rfl, hlen, by simpa using c1, by simpa using c2, by simpa using c4, c5, by simpa using c6, by simpa using c7, ?_⟩
      simp only [Sapi.write, hs, c1, c2, c3, c4, c5, c6, c7, if_false, Bool.false_eq_true, acceptState]

/-- **no side effects**: every `write` that does not queue data and is not parked — oversize, closed stream, empty,
association not established, deadline already passed, busy, no Stream object — returns the state it was given -/
theorem write_rejected_unchanged (s : St) (si : BitVec 16) (ppi : BitVec 32) (len : Nat) (dl : Option Nat)
    (h : accepted (Sapi.write s si ppi len dl).2 = false) : (Sapi.write s si ppi len dl).1 = s := by
  rcases write_cases s si ppi len dl with h1 | ⟨st, _, hl, _, _, _, _, _, _, e⟩ | ⟨st, _, _, _, _, _, _, _, _, _, e⟩
  · exact h1.1
  · rw [e] at h; simp [accepted, hl] at h
  · rw [e] at h; simp [accepted] at h

end SapiProofs
