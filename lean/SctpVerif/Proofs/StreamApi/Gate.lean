import SctpVerif.Proofs.StreamApi.Step
/-! The blocking-write gate: in blocking mode `writePending` is down only while the pending queue holds no DATA, so an
accepted blocking write finds everything written before it handed on; a gather that leaves the queue empty clears the flag. -/
namespace SapiProofs
open Gen Sapi SenderProofs

theorem sack_pending (s : Sender.St) (cum arwnd : BitVec 32) (gaps : List (BitVec 16 × BitVec 16)) (marks : List (BitVec 32))
    (hm : s.cfg.mtu.toNat < 2^30) : (Sender.sack s cum arwnd gaps marks).1.pending = s.pending := by
  unfold Sender.sack
  split
  · rfl
  · split
    · rfl
    · split
      · rfl
      · cases ha : Sender.ackPhase s cum gaps with
        | none => rfl
        | some r =>
          simp only
          have hcfg := (ackPhase_win ha).1
          have hm' : (Sender.setPeerWindow r.1 arwnd).cfg.mtu.toNat < 2^30 := by show r.1.cfg.mtu.toNat < 2^30; rw [hcfg]; exact hm
          have f1 := (fastRetransCheck_frame (Sender.setPeerWindow r.1 arwnd) cum gaps r.2.1 r.2.2 hm').1
          have hr : r.1.pending = s.pending := by
            unfold Sender.ackPhase at ha
            split at ha
            · cases ha
            · split at ha
              · cases ha
              · cases ha
                simp only [Sender.ackApply]
                rw [(releaseAll_frame _ _).2.2.2.2.2.2.2.1]
                split
                · exact (onCumAdvanced_same _ _).1.2.2.1
                · rfl
          have fin : ∀ y : Sender.St, SameAcct (Sender.setPeerWindow r.1 arwnd) y → y.pending = s.pending :=
            fun y hy => by rw [hy.2.2.2.2.2.2.1]; exact hr
          split
          · exact fin _ f1
          · have p1 := (prStep_frame (Sender.fastRetransCheck (Sender.setPeerWindow r.1 arwnd) cum gaps r.2.1 r.2.2).1).1
            have m1 := (applyMarks_frame (Sender.prStep (Sender.fastRetransCheck (Sender.setPeerWindow r.1 arwnd) cum gaps r.2.1 r.2.2).1) marks).1
            exact fin _ (SameAcct.trans f1 (SameAcct.trans p1 m1))

theorem popPend_sub (s : Sender.St) (i : Nat) (c : Sender.Chunk) : ∀ x ∈ (Sender.popPend s i c).pending, x ∈ s.pending :=
  fun _ hx => mem_eraseIdx hx

theorem move_pending_sub (s : Sender.St) (i : Nat) (c : Sender.Chunk) : ∀ x ∈ (Sender.move s i c).1.pending, x ∈ s.pending := by
  intro x hx; simp only [Sender.move, Sender.popPend] at hx; exact mem_eraseIdx hx

theorem popLoop_pending_sub {B : Type} (allow : B → Int → Bool × B) (fuel : Nat) (s : Sender.St) (sel : List Nat) (a : Sender.PopAcc B) :
    ∀ x ∈ (Sender.popLoop allow fuel s sel a).1.pending, x ∈ s.pending := by
  induction fuel generalizing s sel a with
  | zero => intro x hx; exact hx
  | succ fuel ih =>
    simp only [Sender.popLoop]
    cases hp : Sender.peek s sel with
    | none => intro x hx; exact hx
    | some ic =>
      obtain ⟨i, c⟩ := ic
      simp only
      split
      · intro x hx; exact popPend_sub s i c x (ih _ _ _ x hx)
      · cases hd : Sender.popDecide s allow a c with
        | skip => intro x hx; exact hx
        | stop b => intro x hx; exact hx
        | take b bip =>
          simp only
          intro x hx
          have := ih _ _ _ x hx
          simp only [Sender.admitChunk] at this
          exact move_pending_sub _ i c x this

theorem probe_pending_sub {B : Type} (allow : B → Int → Bool × B) (s : Sender.St) (sel : List Nat) (a : Sender.PopAcc B) :
    ∀ x ∈ (Sender.probe allow s sel a).1.pending, x ∈ s.pending := by
  unfold Sender.probe
  split
  · cases hp : Sender.peek s sel with
    | none => intro x hx; exact hx
    | some ic =>
      obtain ⟨i, c⟩ := ic
      simp only
      split
      · split
        · split
          · intro x hx; simp only [Sender.admitProbe] at hx; exact move_pending_sub _ i c x hx
          · intro x hx; exact hx
        · intro x hx; exact hx
      · intro x hx; exact hx
  · intro x hx; exact hx

/-- a gather only takes chunks out of the pending queue -/
theorem gather_pending_sub (s : Sender.St) (orc : Sender.Oracle) (sel : List Nat) :
    ∀ x ∈ (Sender.gather s orc sel).1.pending, x ∈ s.pending := by
  unfold Sender.gather
  split
  · intro x hx; exact hx
  · simp only
    have h1 : (Sender.gatherRtx s orc).1.pending = s.pending := (gatherRtx_same s orc).2.2.1
    have h3 := (gatherFast_same (Sender.gatherNew (Sender.gatherRtx s orc).1 orc.allow (Sender.gatherRtx s orc).2.2 sel).1 orc.allow
      (Sender.gatherNew (Sender.gatherRtx s orc).1 orc.allow (Sender.gatherRtx s orc).2.2 sel).2.b).2.2.1
    intro x hx
    have hx' : x ∈ (Sender.gatherNew (Sender.gatherRtx s orc).1 orc.allow (Sender.gatherRtx s orc).2.2 sel).1.pending := by
      rw [← h3]; exact hx
    rw [← h1]
    unfold Sender.gatherNew at hx'
    split at hx'
    · exact popLoop_pending_sub _ _ _ _ _ x (probe_pending_sub _ _ _ _ x hx')
    · exact hx'

/-- the invariant of the gate -/
structure GInv (s : St) : Prop where
  cfgOk : CfgOk s.snd.cfg
  core : Core s.snd
  wsmall : ∀ w ∈ s.waiters, ∀ c ∈ w.chunks, c.len < 2^32 ∧ c.acked = false
  gate : s.blockWrite = true → s.writePending = false → ∀ c ∈ s.snd.pending, c.len = 0

theorem pushPending_core (s : Sender.St) (cs : List Sender.Chunk) (hb : Core s) (hs : ∀ c ∈ cs, c.len < 2^32 ∧ c.acked = false) :
    Core (Sender.pushPending s cs) := by
  refine ⟨hb.inf, ?_, ?_, hb.ackedEmpty, ?_⟩
  · simp only [Sender.pushPending, sumLen_append]; rw [hb.pen]; omega
  · simp only [Sender.pushPending, List.length_append]; rw [hb.penN]; omega
  · intro c hc
    simp only [Sender.pushPending, List.mem_append] at hc
    rcases hc with h | h
    · exact hb.penSmall c h
    · exact hs c h

theorem core_of_eq {a b : Sender.St} (hb : Core a) (h1 : b.infBytes = a.infBytes) (h2 : b.inflight = a.inflight)
    (h3 : b.pending = a.pending) (h4 : b.penBytes = a.penBytes) (h5 : b.penChunks = a.penChunks) : Core b :=
  ⟨by rw [h1, h2]; exact hb.inf, by rw [h3, h4]; exact hb.pen, by rw [h3, h5]; exact hb.penN, by rw [h2]; exact hb.ackedEmpty,
   by rw [h3]; exact hb.penSmall⟩

theorem rollbackStream_g (s : St) (h : GInv s) (si : BitVec 16) (u : Bool) (n : Nat) : GInv (rollbackStream s si u n) := by
  unfold rollbackStream
  split
  · exact h
  · exact ⟨h.cfgOk, core_of_eq h.core rfl rfl rfl rfl rfl, h.wsmall, h.gate⟩

theorem failWaiter_g (s : St) (h : GInv s) (w : Waiter) : GInv (failWaiter s w) := by
  apply rollbackStream_g
  exact ⟨h.cfgOk, h.core, fun a ha => h.wsmall a (List.mem_filter.mp ha).1, h.gate⟩

theorem foldl_failWaiter_g (s : St) (h : GInv s) (l : List Waiter) : GInv (l.foldl failWaiter s) := by
  induction l generalizing s with
  | nil => exact h
  | cons w r ih => exact ih _ (failWaiter_g s h w)

theorem ginv_sameW {s s' : St} (h : GInv s) (hs : SameW s s') : GInv s' := by
  obtain ⟨a, b, _, d, e, _⟩ := hs
  exact ⟨by rw [a]; exact h.cfgOk, by rw [a]; exact h.core, by rw [b]; exact h.wsmall, by rw [a, d, e]; exact h.gate⟩

theorem tick_pending (s : Sender.St) (ms n : Nat) (marks : List (BitVec 32)) :
    (Sender.step s (.tick ms n marks)).pending = s.pending := by
  simp only [Sender.step]
  rw [(applyMarks_frame _ marks).1.2.2.2.2.2.2.1]
  have : ∀ k (x : Sender.St), (Sender.iter Sender.t3 k x).pending = x.pending := by
    intro k; induction k with
    | zero => intro x; rfl
    | succ k ih => intro x; simp only [Sender.iter]; rw [ih, (t3_frame x).1.2.2.2.2.2.2.1]
  rw [this]

theorem step_ginv (s : St) (h : GInv s) (op : Op) : GInv (step s op) := by
  cases op with
  | setState n => exact ⟨h.cfgOk, core_of_eq h.core rfl rfl rfl rfl rfl, h.wsmall, h.gate⟩
  | setRel k u rt rv =>
    simp only [step, Sapi.setRel]
    split
    · exact h
    · exact ⟨h.cfgOk, core_of_eq h.core rfl rfl rfl rfl rfl, h.wsmall, h.gate⟩
  | openS k u rt rv =>
    simp only [step, Sapi.openStream]
    split
    · exact h
    · split
      · exact ⟨h.cfgOk, core_of_eq h.core rfl rfl rfl rfl rfl, h.wsmall, h.gate⟩
      · exact ⟨h.cfgOk, core_of_eq h.core rfl rfl rfl rfl rfl, h.wsmall, h.gate⟩
  | sack cum arwnd gaps marks =>
    exact ⟨by show CfgOk (Sender.sack s.snd cum arwnd gaps marks).1.cfg; rw [sack_cfg _ _ _ _ _ h.cfgOk]; exact h.cfgOk,
      sack_core _ _ _ _ _ h.core h.cfgOk, h.wsmall,
      by intro hb hw c hc; exact h.gate hb hw c (by have := sack_pending s.snd cum arwnd gaps marks h.cfgOk; simp only [step] at hc; rw [this] at hc; exact hc)⟩
  | t3 =>
    exact ⟨by show CfgOk (Sender.t3 s.snd).cfg; rw [(t3_frame s.snd).1.2.2.2.2.1]; exact h.cfgOk,
      step_core s.snd .t3 h.core h.cfgOk, h.wsmall,
      by intro hb hw c hc; exact h.gate hb hw c (by simp only [step] at hc; rw [(t3_frame s.snd).1.2.2.2.2.2.2.1] at hc; exact hc)⟩
  | close k =>
    simp only [step, Sapi.closeStream]
    split
    · exact h
    · split
      · split
        · exact ⟨h.cfgOk, h.core, h.wsmall, h.gate⟩
        · refine ⟨h.cfgOk, ?_, h.wsmall, ?_⟩
          · apply pushPending_core
            · exact core_of_eq h.core rfl rfl rfl rfl rfl
            · intro c hc; simp only [List.mem_singleton] at hc; subst hc; exact ⟨by simp [resetMarker], rfl⟩
          · intro hb hw c hc
            simp only [Sender.pushPending, List.mem_append, List.mem_singleton] at hc
            rcases hc with hc | hc
            · exact h.gate hb hw c hc
            · subst hc; rfl
      · exact h
  | rpush k c => exact ginv_sameW h (rpush_sameW s k c)
  | read k n => exact ginv_sameW h (read_sameW s k n)
  | rdeadline k t => exact ginv_sameW h (rdeadline_sameW s k t)
  | reof k => exact ginv_sameW h (reof_sameW s k)
  | tick ms n marks =>
    have h1 : GInv { s with snd := Sender.step s.snd (.tick ms n marks) } :=
      ⟨by show CfgOk (Sender.step s.snd (.tick ms n marks)).cfg; rw [tick_cfg _ _ _ _ h.cfgOk]; exact h.cfgOk,
       step_core s.snd (.tick ms n marks) h.core h.cfgOk, h.wsmall,
       by intro hb hw c hc; exact h.gate hb hw c (by rw [tick_pending] at hc; exact hc)⟩
    have h2 := foldl_failWaiter_g _ h1 (({ s with snd := Sender.step s.snd (.tick ms n marks) } : St).waiters.filter
      (fun w => deadlinePassed (Sender.step s.snd (.tick ms n marks)).now w.deadline))
    exact ginv_sameW h2 (fireTimers_sameW _ _)
  | write k ppi len dl =>
    simp only [step]
    rcases write_cases s k ppi len dl with ⟨e1, _⟩ | ⟨st, hst, hl, _, _, hw, hmp, _, _, e⟩ | ⟨st, hst, hl, _, _, hw, hmp, _, _, _, e⟩
    · rw [e1]; exact h
    · rw [e]
      refine ⟨h.cfgOk, ?_, h.wsmall, ?_⟩
      · apply pushPending_core
        · exact core_of_eq h.core rfl rfl rfl rfl rfl
        · intro c hc
          obtain ⟨_, b2, b3, _⟩ := (packetize_spec s.snd.cfg st k s.snd.nextMsg ppi len hmp).2.2.2.2.2.1 c hc
          exact ⟨by have := s.snd.cfg.maxPayload.isLt; omega, b3⟩
      · intro hb hwp
        have hb' : s.blockWrite = true := hb
        have : (acceptState s k st ppi len).writePending = true := by simp [acceptState, pushChunks, send_gated, hb']
        rw [this] at hwp; cases hwp
    · rw [e]
      refine ⟨h.cfgOk, core_of_eq h.core rfl rfl rfl rfl rfl, ?_, h.gate⟩
      intro a ha
      simp only [parkState, List.mem_append, List.mem_singleton] at ha
      rcases ha with ha | ha
      · exact h.wsmall a ha
      · subst ha
        intro c hc
        obtain ⟨_, b2, b3, _⟩ := (packetize_spec s.snd.cfg st k s.snd.nextMsg ppi len hmp).2.2.2.2.2.1 c hc
        exact ⟨by have := s.snd.cfg.maxPayload.isLt; omega, b3⟩
  | gather orc sel woke =>
    simp only [step, Sapi.gather]
    have hcore := gather_core s.snd orc sel h.core
    have hcfg : CfgOk (Sender.gather s.snd orc sel).1.cfg := by rw [gather_cfg]; exact h.cfgOk
    generalize hnot : (s.snd.established && popPending_notifyWritable s.blockWrite ((Sender.gather s.snd orc sel).2.admits.length : Int)
      s.writePending (Sender.gather s.snd orc sel).1.penChunks) = notify
    have hs1 : GInv { s with snd := (Sender.gather s.snd orc sel).1, writePending := if notify = true then false else s.writePending } := by
      refine ⟨hcfg, hcore, h.wsmall, ?_⟩
      intro hb hwp c hc
      cases hn : notify with
      | true =>
        -- notified: the queue is empty
        rw [hn] at hnot
        simp only [Bool.and_eq_true, popPending_notifyWritable, beq_iff_eq] at hnot
        have hz : (Sender.gather s.snd orc sel).1.penChunks = 0 := hnot.2.2
        have : ((Sender.gather s.snd orc sel).1.pending.length : Int) = 0 := by rw [← hcore.penN]; exact hz
        have : (Sender.gather s.snd orc sel).1.pending = [] := List.eq_nil_of_length_eq_zero (by omega)
        rw [this] at hc; cases hc
      | false =>
        rw [hn] at hwp
        simp only [Bool.false_eq_true, if_false] at hwp
        exact h.gate hb hwp c (gather_pending_sub _ _ _ c hc)
    cases hn : notify with
    | false =>
      rw [hn] at hs1
      simp only [Bool.false_eq_true, if_false] at hs1 ⊢
      exact hs1
    | true =>
      rw [hn] at hs1
      simp only [if_true] at hs1 ⊢
      cases woke with
      | none => exact hs1
      | some wid =>
        simp only [wake]
        cases hf : s.waiters.find? (·.wid == wid) with
        | none => exact hs1
        | some w =>
          simp only
          by_cases c1 : send_notEstablishedAfterWait s.state = true
          · simp only [c1, if_true]; exact failWaiter_g _ hs1 w
          · simp only [c1, if_false, send_waits, Bool.false_eq_true]
            refine ⟨hcfg, ?_, fun a ha => h.wsmall a (List.mem_filter.mp ha).1, ?_⟩
            · exact pushPending_core _ _ hcore (h.wsmall w (List.mem_of_find?_eq_some hf))
            · intro hb hwp
              have hb' : s.blockWrite = true := hb
              simp [pushChunks, send_gated, dropWaiter, hb'] at hwp

theorem init_core (cfg : Sender.Cfg) (tsn rw : BitVec 32) : Core (Sender.init cfg tsn rw) :=
  (init_books cfg tsn rw).core

theorem init_ginv (cfg : Sender.Cfg) (bw : Bool) (tsn rw : BitVec 32) (hc : CfgOk cfg) : GInv (Sapi.init cfg bw tsn rw) :=
  { cfgOk := hc
    core := init_core cfg tsn rw
    wsmall := by intro w hw; simp [Sapi.init] at hw
    gate := by intro _ _ c hc; simp [Sapi.init, Sender.init] at hc }

theorem run_ginv (s : St) (h : GInv s) (ops : List Op) : GInv (run s ops) := by
  induction ops generalizing s with
  | nil => exact h
  | cons op ops ih => exact ih _ (step_ginv s h op)

/-- **the gate, at once**: a blocking write that returns `(n, nil)` with n > 0 found `writePending` down, hence (invariant)
no DATA chunk of an earlier write in the pending queue -/
theorem write_ok_gate (s : St) (h : GInv s) (hb : s.blockWrite = true) (si : BitVec 16) (ppi : BitVec 32) (len : Nat) (dl : Option Nat)
    (n : Nat) (hn : n ≠ 0) (hr : (Sapi.write s si ppi len dl).2 = .ok n) :
    s.writePending = false ∧ ∀ c ∈ s.snd.pending, c.len = 0 := by
  rcases write_cases s si ppi len dl with ⟨_, e2⟩ | ⟨st, _, _, _, _, _, _, _, hmw, e⟩ | ⟨st, _, _, _, _, _, _, _, _, _, e⟩
  · rw [hr] at e2; simp [accepted, hn] at e2
  · have hwp : s.writePending = false := by
      simp only [mustWait, send_gated, send_waits, hb, Bool.true_and] at hmw; exact hmw
    exact ⟨hwp, h.gate hb hwp⟩
  · rw [e] at hr; cases hr

/-- **the gate, when parked**: a parked write is released only by a gather that emptied the pending queue -/
theorem gather_wake_gate (s : St) (h : GInv s) (orc : Sender.Oracle) (sel : List Nat) (woke : Option Nat) (wid n : Nat)
    (hw : (wid, WRes.ok n) ∈ (Sapi.gather s orc sel woke).2.woken) :
    (Sender.gather s.snd orc sel).1.pending = [] ∧ (Sapi.gather s orc sel woke).2.notified = true := by
  have hcore := gather_core s.snd orc sel h.core
  simp only [Sapi.gather] at hw ⊢
  generalize hnot : (s.snd.established && popPending_notifyWritable s.blockWrite ((Sender.gather s.snd orc sel).2.admits.length : Int)
    s.writePending (Sender.gather s.snd orc sel).1.penChunks) = notify at hw ⊢
  cases notify with
  | false => simp at hw
  | true =>
    simp only [Bool.and_eq_true, popPending_notifyWritable, beq_iff_eq] at hnot
    have hz : (Sender.gather s.snd orc sel).1.penChunks = 0 := hnot.2.2
    have hl : ((Sender.gather s.snd orc sel).1.pending.length : Int) = 0 := by rw [← hcore.penN]; exact hz
    refine ⟨List.eq_nil_of_length_eq_zero (by omega), ?_⟩
    cases woke <;> simp

/-- **D18 as a theorem**: in blocking mode a gather of an established association that wakes nobody and leaves the pending
queue empty leaves `writePending` down -/
theorem gather_clears_flag (s : St) (hc : Core s.snd) (hb : s.blockWrite = true) (he : s.snd.established = true)
    (orc : Sender.Oracle) (sel : List Nat) (woke : Option Nat)
    (hw : (Sapi.gather s orc sel woke).2.woken = []) (hp : (Sapi.gather s orc sel woke).1.snd.pending = []) :
    (Sapi.gather s orc sel woke).1.writePending = false := by
  have hcore := gather_core s.snd orc sel hc
  simp only [Sapi.gather] at hw hp ⊢
  generalize hnot : (s.snd.established && popPending_notifyWritable s.blockWrite ((Sender.gather s.snd orc sel).2.admits.length : Int)
    s.writePending (Sender.gather s.snd orc sel).1.penChunks) = notify at hw hp ⊢
  cases notify with
  | false =>
    simp only [Bool.false_eq_true, if_false] at hp ⊢
    -- not notified although the queue is empty: the flag was already down
    have hz : (Sender.gather s.snd orc sel).1.penChunks = 0 := by rw [hcore.penN, hp]; rfl
    simp only [he, hb, hz, popPending_notifyWritable, Bool.true_and, beq_self_eq_true, Bool.and_true, Bool.or_eq_false_iff] at hnot
    exact hnot.2
  | true =>
    simp only [if_true] at hw hp ⊢
    cases woke with
    | none => rfl
    | some wid =>
      simp only [wake] at hw hp ⊢
      cases hf : s.waiters.find? (·.wid == wid) with
      | none => rfl
      | some w =>
        rw [hf] at hw
        simp only at hw ⊢
        by_cases c1 : send_notEstablishedAfterWait s.state = true
        · simp [c1] at hw
        · simp [c1, send_waits] at hw

end SapiProofs
