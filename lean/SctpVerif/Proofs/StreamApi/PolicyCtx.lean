import SctpVerif.Proofs.StreamApi.PolicyRun
/-! The context of the per-chunk invariants along runs: configuration and the policy of a stream are kept by every
operation that does not re-open / re-configure that stream; message identities only grow. -/
namespace SapiProofs
open Gen Sapi SenderProofs

/-- what `checkPartialReliabilityStatus` reads of a stream -/
def pol (st : Sender.Stream) : Bool × BitVec 8 × BitVec 32 := (st.registered, st.relType, st.relVal)

def polOf (s : Sender.St) (σ : BitVec 16) : Option (Bool × BitVec 8 × BitVec 32) := (s.streams σ).map pol

theorem pol_of_sstat {a b : Sender.Stream} (h : sstat a = sstat b) : pol a = pol b := by
  simp only [sstat, Prod.mk.injEq] at h
  simp only [pol, h.1, h.2.2.1, h.2.2.2.1]

theorem policy_iff (s : Sender.St) (σ : BitVec 16) (rt : Nat) (v : BitVec 32) :
    Policy s σ rt v ↔ s.cfg.prEnabled = true ∧ polOf s σ = some (true, BitVec.ofNat 8 rt, v) := by
  simp only [Policy, polOf]
  constructor
  · rintro ⟨h1, st, h2, h3, h4, h5⟩; exact ⟨h1, by rw [h2]; simp only [Option.map_some, pol, h3, h4, h5]⟩
  · rintro ⟨h1, h2⟩
    cases hs : s.streams σ with
    | none => rw [hs] at h2; cases h2
    | some st =>
      rw [hs] at h2
      simp only [Option.map_some, Option.some.injEq, pol, Prod.mk.injEq] at h2
      exact ⟨h1, st, rfl, h2.1, h2.2.1, h2.2.2⟩

theorem pol_packetize (cfg : Sender.Cfg) (st : Sender.Stream) (si : BitVec 16) (msg : Nat) (ppi : BitVec 32) (len : Nat) :
    pol (Sender.packetize cfg st si msg ppi len).st = pol st := by
  simp only [Sender.packetize, pol]
  repeat' split
  all_goals rfl

theorem pol_rollback (cfg : Sender.Cfg) (st : Sender.Stream) (u : Bool) (n : Nat) : pol (Sender.rollback cfg st u n) = pol st := by
  simp only [Sender.rollback, pol]
  repeat' split
  all_goals rfl

/-- the operation does not open or re-configure stream `σ` -/
def Keeps (σ : BitVec 16) : Op → Prop
  | .openS k _ _ _ => k ≠ σ
  | .setRel k _ _ _ => k ≠ σ
  | _ => True

theorem polOf_setStream (s : Sender.St) (k σ : BitVec 16) (st' : Sender.Stream)
    (h : k = σ → ∃ st, s.streams σ = some st ∧ pol st' = pol st) :
    polOf (Sender.setStream s k st') σ = polOf s σ := by
  simp only [polOf, Sender.setStream]
  by_cases hk : σ = k
  · subst hk
    obtain ⟨st, h1, h2⟩ := h rfl
    simp [h1, h2]
  · simp [hk]

theorem rollbackStream_pol (s : St) (si : BitVec 16) (u : Bool) (n : Nat) (σ : BitVec 16) :
    (rollbackStream s si u n).snd.cfg = s.snd.cfg ∧ polOf (rollbackStream s si u n).snd σ = polOf s.snd σ ∧
    (rollbackStream s si u n).snd.nextMsg = s.snd.nextMsg := by
  unfold rollbackStream
  cases hs : s.snd.streams si with
  | none => exact ⟨rfl, rfl, rfl⟩
  | some st =>
    refine ⟨rfl, ?_, rfl⟩
    apply polOf_setStream
    intro hk; subst hk
    exact ⟨st, hs, pol_rollback _ _ _ _⟩

theorem failWaiter_pol (s : St) (w : Waiter) (σ : BitVec 16) :
    (failWaiter s w).snd.cfg = s.snd.cfg ∧ polOf (failWaiter s w).snd σ = polOf s.snd σ ∧ (failWaiter s w).snd.nextMsg = s.snd.nextMsg :=
  rollbackStream_pol (dropWaiter s w.wid) w.si w.unordered w.n σ

theorem foldl_failWaiter_pol (s : St) (l : List Waiter) (σ : BitVec 16) :
    (l.foldl failWaiter s).snd.cfg = s.snd.cfg ∧ polOf (l.foldl failWaiter s).snd σ = polOf s.snd σ ∧
    (l.foldl failWaiter s).snd.nextMsg = s.snd.nextMsg := by
  induction l generalizing s with
  | nil => exact ⟨rfl, rfl, rfl⟩
  | cons w r ih =>
    obtain ⟨a1, a2, a3⟩ := failWaiter_pol s w σ
    obtain ⟨b1, b2, b3⟩ := ih (failWaiter s w)
    exact ⟨b1.trans a1, b2.trans a2, b3.trans a3⟩

theorem gather_nextMsg (s : Sender.St) (orc : Sender.Oracle) (sel : List Nat) : (Sender.gather s orc sel).1.nextMsg = s.nextMsg := by
  have := gather_closed s orc sel (fun _ _ _ => True) (fun _ => True)
    { mono := fun _ _ _ _ _ _ _ _ => trivial, acked := fun _ _ _ _ => trivial, miss := fun _ _ _ _ _ => trivial,
      mark := fun _ _ _ _ _ _ => trivial, rtx := fun _ _ _ _ _ _ => trivial, fast := fun _ _ _ _ _ _ _ => trivial,
      fresh := fun _ _ _ _ _ => trivial }
    (fun _ _ => trivial) (fun _ _ => trivial)
  exact this.2.2.2.2.2.2.2

/-- configuration, policy of `σ` and monotonicity of message ids under one operation -/
theorem step_ctx (s : St) (hc : CfgOk s.snd.cfg) (op : Op) (σ : BitVec 16) :
    (step s op).snd.cfg = s.snd.cfg ∧ (Keeps σ op → polOf (step s op).snd σ = polOf s.snd σ) ∧
    s.snd.nextMsg ≤ (step s op).snd.nextMsg := by
  cases op with
  | setState n => exact ⟨rfl, fun _ => rfl, Nat.le_refl _⟩
  | setRel k u rt rv =>
    simp only [step, Sapi.setRel]
    split
    · exact ⟨rfl, fun _ => rfl, Nat.le_refl _⟩
    · refine ⟨rfl, fun hk => ?_, Nat.le_refl _⟩
      apply polOf_setStream
      intro h'; exact absurd h' hk
  | openS k u rt rv =>
    simp only [step, Sapi.openStream]
    split
    · exact ⟨rfl, fun _ => rfl, Nat.le_refl _⟩
    · have hp : k ≠ σ → polOf (Sender.openStream s.snd k u rt rv 0) σ = polOf s.snd σ := by
        intro hk
        simp only [Sender.openStream]
        apply polOf_setStream
        intro h'; exact absurd h' hk
      split
      · exact ⟨rfl, hp, Nat.le_refl _⟩
      · exact ⟨rfl, hp, Nat.le_refl _⟩
  | rpush k c => obtain ⟨a, _⟩ := rpush_sameW s k c; simp only [step]; rw [a]; exact ⟨rfl, fun _ => rfl, Nat.le_refl _⟩
  | read k n => obtain ⟨a, _⟩ := read_sameW s k n; simp only [step]; rw [a]; exact ⟨rfl, fun _ => rfl, Nat.le_refl _⟩
  | rdeadline k t => obtain ⟨a, _⟩ := rdeadline_sameW s k t; simp only [step]; rw [a]; exact ⟨rfl, fun _ => rfl, Nat.le_refl _⟩
  | reof k => obtain ⟨a, _⟩ := reof_sameW s k; simp only [step]; rw [a]; exact ⟨rfl, fun _ => rfl, Nat.le_refl _⟩
  | sack cum arwnd gaps marks =>
    refine ⟨sack_cfg _ _ _ _ _ hc, fun _ => ?_, ?_⟩
    · simp only [step, polOf]
      have := sack_sstat s.snd cum arwnd gaps marks hc σ
      cases h1 : (Sender.sack s.snd cum arwnd gaps marks).1.streams σ <;> cases h2 : s.snd.streams σ <;> rw [h1, h2] at this <;>
        simp at this ⊢
      exact pol_of_sstat this
    · have := (sack_closed s.snd cum arwnd gaps marks (fun _ _ _ => True)
        ⟨fun _ _ _ _ _ _ _ _ => trivial, fun _ _ _ _ => trivial, fun _ _ _ _ _ => trivial, fun _ _ _ _ _ _ => trivial⟩ (fun _ _ => trivial)).1.2.2.2
      simp only [step]; rw [this]; exact Nat.le_refl _
  | t3 =>
    refine ⟨(t3_frame s.snd).1.2.2.2.2.1, fun _ => by simp only [step, polOf, t3_streams], ?_⟩
    have := (t3_closed s.snd (fun _ _ _ => True)
      ⟨fun _ _ _ _ _ _ _ _ => trivial, fun _ _ _ _ => trivial, fun _ _ _ _ _ => trivial, fun _ _ _ _ _ _ => trivial⟩ (fun _ _ => trivial)).1.2.2.2
    simp only [step]; rw [this]; exact Nat.le_refl _
  | tick ms n marks =>
    let s1 : St := { s with snd := Sender.step s.snd (.tick ms n marks) }
    obtain ⟨b1, b2, b3⟩ := foldl_failWaiter_pol s1 (s1.waiters.filter (fun w => deadlinePassed s1.snd.now w.deadline)) σ
    obtain ⟨c1, _⟩ := fireTimers_sameW (expireWaiters s1).1 (expireWaiters s1).1.sids
    have e : step s (.tick ms n marks) = (fireTimers (expireWaiters s1).1 (expireWaiters s1).1.sids).1 := rfl
    have hn := (tick_closed s.snd ms n marks (fun _ _ _ => True)
      ⟨fun _ _ _ _ _ _ _ _ => trivial, fun _ _ _ _ => trivial, fun _ _ _ _ _ => trivial, fun _ _ _ _ _ _ => trivial⟩ (fun _ _ => trivial)).1.2.2.2
    rw [e, c1]
    refine ⟨?_, fun _ => ?_, ?_⟩
    · show (List.foldl failWaiter s1 _).snd.cfg = s.snd.cfg
      rw [b1]; exact tick_cfg _ _ _ _ hc
    · show polOf (List.foldl failWaiter s1 _).snd σ = polOf s.snd σ
      rw [b2]; simp only [polOf, s1, tick_streams]
    · show s.snd.nextMsg ≤ (List.foldl failWaiter s1 _).snd.nextMsg
      rw [b3]; show s.snd.nextMsg ≤ (Sender.step s.snd (.tick ms n marks)).nextMsg
      rw [hn]; exact Nat.le_refl _
  | close k =>
    simp only [step, Sapi.closeStream]
    split
    · exact ⟨rfl, fun _ => rfl, Nat.le_refl _⟩
    · split
      · split
        · exact ⟨rfl, fun _ => rfl, Nat.le_refl _⟩
        · exact ⟨rfl, fun _ => rfl, Nat.le_succ _⟩
      · exact ⟨rfl, fun _ => rfl, Nat.le_refl _⟩
  | write k ppi len dl =>
    simp only [step]
    rcases write_cases s k ppi len dl with ⟨e1, _⟩ | ⟨st, hst, _, _, _, _, _, _, _, e⟩ | ⟨st, hst, _, _, _, _, _, _, _, _, e⟩
    · rw [e1]; exact ⟨rfl, fun _ => rfl, Nat.le_refl _⟩
    · rw [e]
      refine ⟨rfl, fun _ => ?_, Nat.le_succ _⟩
      show polOf (Sender.setStream s.snd k (Sender.packetize s.snd.cfg st k s.snd.nextMsg ppi len).st) σ = _
      apply polOf_setStream
      intro hk; subst hk; exact ⟨st, hst, pol_packetize _ _ _ _ _ _⟩
    · rw [e]
      refine ⟨rfl, fun _ => ?_, Nat.le_succ _⟩
      show polOf (Sender.setStream s.snd k (Sender.packetize s.snd.cfg st k s.snd.nextMsg ppi len).st) σ = _
      apply polOf_setStream
      intro hk; subst hk; exact ⟨st, hst, pol_packetize _ _ _ _ _ _⟩
  | gather orc sel woke =>
    simp only [step, Sapi.gather]
    generalize (s.snd.established && popPending_notifyWritable s.blockWrite ((Sender.gather s.snd orc sel).2.admits.length : Int)
      s.writePending (Sender.gather s.snd orc sel).1.penChunks) = notify
    have base : (Sender.gather s.snd orc sel).1.cfg = s.snd.cfg ∧ (Keeps σ (.gather orc sel woke) → polOf (Sender.gather s.snd orc sel).1 σ = polOf s.snd σ) ∧
        s.snd.nextMsg ≤ (Sender.gather s.snd orc sel).1.nextMsg :=
      ⟨gather_cfg _ _ _, fun _ => by simp only [polOf, (gather_streams _ _ _).2], by rw [gather_nextMsg]; exact Nat.le_refl _⟩
    cases notify with
    | false => simp only [Bool.false_eq_true, if_false]; exact base
    | true =>
      simp only [if_true]
      cases woke with
      | none => exact base
      | some wid =>
        simp only [wake]
        cases hf : s.waiters.find? (·.wid == wid) with
        | none => exact base
        | some w =>
          simp only
          by_cases c1 : send_notEstablishedAfterWait s.state = true
          · simp only [c1, if_true]
            obtain ⟨f1, f2, f3⟩ := failWaiter_pol { s with snd := (Sender.gather s.snd orc sel).1, writePending := false } w σ
            exact ⟨f1.trans base.1, fun hk => f2.trans (base.2.1 hk), by rw [f3]; exact base.2.2⟩
          · simp only [c1, if_false, send_waits, Bool.false_eq_true]
            exact base

/-! ### the three instances -/

/-- retransmission limit `N` on stream `σ`, in force -/
def RexCtx (σ : BitVec 16) (N : BitVec 32) (s : St) : Prop := CfgOk s.snd.cfg ∧ Policy s.snd σ ReliabilityTypeRexmit N
/-- lifetime `L` ms on stream `σ`, in force -/
def TimedCtx (σ : BitVec 16) (L : BitVec 32) (s : St) : Prop := CfgOk s.snd.cfg ∧ Policy s.snd σ ReliabilityTypeTimed L
/-- message id `m` has been handed out -/
def FrozenCtx (m : Nat) (s : St) : Prop := CfgOk s.snd.cfg ∧ m < s.snd.nextMsg

theorem policy_step (s : St) (σ : BitVec 16) (rt : Nat) (v : BitVec 32) (hc : CfgOk s.snd.cfg) (hp : Policy s.snd σ rt v)
    (op : Op) (hk : Keeps σ op) : CfgOk (step s op).snd.cfg ∧ Policy (step s op).snd σ rt v := by
  obtain ⟨a1, a2, _⟩ := step_ctx s hc op σ
  refine ⟨by rw [a1]; exact hc, ?_⟩
  rw [policy_iff] at hp ⊢
  rw [a1, a2 hk]; exact hp

theorem rex_hyp (σ : BitVec 16) (N : BitVec 32) : RunHyp (KRex σ N) Unmarked (RexCtx σ N) (Keeps σ) where
  closed := fun s h => KRex_closed s.snd σ N h.2
  ctx := fun s op h hk => policy_step s σ _ N h.1 h.2 op hk
  qNew := fun s st si ppi len _ hmp c hc => (packetize_mem _ _ _ _ _ _ hmp c hc).2.2.2.2.2.2.2
  qMarker := fun _ _ _ => rfl

theorem timed_hyp (σ : BitVec 16) (L : BitVec 32) : RunHyp (KTimed σ L) (fun _ => True) (TimedCtx σ L) (Keeps σ) where
  closed := fun s h => KTimed_closed s.snd σ L h.2
  ctx := fun s op h hk => policy_step s σ _ L h.1 h.2 op hk
  qNew := fun _ _ _ _ _ _ _ _ _ => trivial
  qMarker := fun _ _ _ => trivial

theorem frozen_hyp (m : Nat) (B : BitVec 32 → Nat) : RunHyp (Frozen m B) (fun c => c.msg ≠ m) (FrozenCtx m) (fun _ => True) where
  closed := fun s _ => Frozen_closed s.snd m B
  ctx := fun s op h _ => by
    obtain ⟨a1, _, a3⟩ := step_ctx s h.1 op 0
    exact ⟨by rw [a1]; exact h.1, Nat.lt_of_lt_of_le h.2 a3⟩
  qNew := fun s st si ppi len h hmp c hc => by
    rw [(packetize_mem _ _ _ _ _ _ hmp c hc).2.1]; exact Nat.ne_of_gt h.2
  qMarker := fun s si h => by show s.snd.nextMsg ≠ m; exact Nat.ne_of_gt h.2

end SapiProofs
