import SctpVerif.Proofs.StreamApi.Frames
/-! Message identifiers along runs: the counters of a stream, "settled" for a parked call, move only when a write is
accepted, by exactly one step, and the accepted message carries the identifier they held (`step_settled`). -/
namespace SapiProofs
open Gen Sapi SenderProofs

def il (s : St) : Bool := s.snd.cfg.useInterleaving

/-- the parked call on a stream (there is at most one: the stream's write lock) -/
def waiterOn (s : St) (si : BitVec 16) : Option Waiter := s.waiters.find? (·.si == si)

/-- the counters of a stream as they will be once the call parked on it (if any) has failed: the failure branch of
`WriteSCTP` is still to run for it -/
def settled (s : St) (si : BitVec 16) : Option Ids :=
  (s.snd.streams si).map fun st => match waiterOn s si with
    | some w => back (il s) w.unordered (ids st)
    | none => ids st

/-- `registered` and the three counters -/
def rids (st : Sender.Stream) : Bool × Ids := (st.registered, ids st)

theorem rids_of_sstat {a b : Sender.Stream} (h : sstat a = sstat b) : rids a = rids b := by
  simp only [sstat, Prod.mk.injEq] at h
  simp only [rids, ids, h.1, h.2.2.2.2.1, h.2.2.2.2.2.1, h.2.2.2.2.2.2]

structure WInv (s : St) : Prop where
  cfgOk : CfgOk s.snd.cfg
  reg : ∀ k st, s.snd.streams k = some st → st.registered = true
  uniq : s.waiters.Pairwise (fun a b => a.si ≠ b.si ∧ a.wid ≠ b.wid)
  fresh : ∀ w ∈ s.waiters, w.wid < s.nextWid
  ok : ∀ w ∈ s.waiters, ∃ st, s.snd.streams w.si = some st ∧ w.chunks ≠ [] ∧
        ∀ c ∈ w.chunks, c.si = w.si ∧ c.unordered = w.unordered ∧ carries (il s) (back (il s) w.unordered (ids st)) c

/-- DATA messages an operation hands to the pending queue for stream `si` (each as its list of fragments) -/
def pushedOn (si : BitVec 16) (s : St) : Op → List (List Sender.Chunk)
  | .write k ppi len dl =>
    if k = si then
      match s.snd.streams k, (Sapi.write s k ppi len dl).2 with
      | some st, .ok n => if n = 0 then [] else [(Sender.packetize s.snd.cfg st k s.snd.nextMsg ppi len).chunks]
      | _, _ => []
    else []
  | .gather orc sel woke =>
    (Sapi.gather s orc sel woke).2.woken.filterMap fun (x : Nat × WRes) =>
      match x.2, s.waiters.find? (·.wid == x.1) with
      | .ok _, some w => if w.si = si then some w.chunks else none
      | _, _ => none
  | _ => []

/-- … over a run, in order -/
def logOn (si : BitVec 16) (s : St) : List Op → List (List Sender.Chunk)
  | [] => []
  | op :: ops => pushedOn si s op ++ logOn si (step s op) ops

/-- every message carries the identifier the counters hold when it is accepted, and advances them by `adv` -/
def Consecutive (il : Bool) : Ids → List (List Sender.Chunk) → Prop
  | _, [] => True
  | x, m :: r => ∃ u, m ≠ [] ∧ (∀ c ∈ m, c.unordered = u ∧ carries il x c) ∧ Consecutive il (adv il u x) r

/-! ### transfer: operations that keep waiters, configuration, and the counters of existing streams -/

theorem find_si_of_mem {l : List Waiter} (hu : l.Pairwise (fun a b => a.si ≠ b.si ∧ a.wid ≠ b.wid)) {w : Waiter} (hw : w ∈ l) :
    l.find? (·.si == w.si) = some w := by
  induction l with
  | nil => cases hw
  | cons a r ih =>
    rw [List.pairwise_cons] at hu
    rcases List.mem_cons.mp hw with h | h
    · subst h; simp
    · have hne : a.si ≠ w.si := (hu.1 w h).1
      simp only [List.find?_cons]
      have : (a.si == w.si) = false := by simpa using hne
      rw [this]; exact ih hu.2 h

theorem find_wid_of_mem {l : List Waiter} (hu : l.Pairwise (fun a b => a.si ≠ b.si ∧ a.wid ≠ b.wid)) {w : Waiter} (hw : w ∈ l) :
    l.find? (·.wid == w.wid) = some w := by
  induction l with
  | nil => cases hw
  | cons a r ih =>
    rw [List.pairwise_cons] at hu
    rcases List.mem_cons.mp hw with h | h
    · subst h; simp
    · have hne : a.wid ≠ w.wid := (hu.1 w h).2
      simp only [List.find?_cons]
      have : (a.wid == w.wid) = false := by simpa using hne
      rw [this]; exact ih hu.2 h

theorem transfer {s s' : St} (h : WInv s) (hw : s'.waiters = s.waiters) (hn : s'.nextWid = s.nextWid) (hc : s'.snd.cfg = s.snd.cfg)
    (hs : ∀ k st, s.snd.streams k = some st → ∃ st', s'.snd.streams k = some st' ∧ rids st' = rids st)
    (hr : ∀ k st, s'.snd.streams k = some st → st.registered = true) :
    WInv s' ∧ ∀ k x, settled s k = some x → settled s' k = some x := by
  have hil : il s' = il s := by simp only [il, hc]
  refine ⟨⟨by rw [hc]; exact h.cfgOk, hr, by rw [hw]; exact h.uniq, by rw [hw, hn]; exact h.fresh, ?_⟩, ?_⟩
  · intro w hwm
    rw [hw] at hwm
    obtain ⟨st, e1, e2, e3⟩ := h.ok w hwm
    obtain ⟨st', f1, f2⟩ := hs _ _ e1
    refine ⟨st', f1, e2, ?_⟩
    have hid : ids st' = ids st := by simp only [rids, Prod.mk.injEq] at f2; exact f2.2
    rw [hil, hid]; exact e3
  · intro k x hx
    simp only [settled] at hx ⊢
    cases hk : s.snd.streams k with
    | none => rw [hk] at hx; cases hx
    | some st =>
      obtain ⟨st', f1, f2⟩ := hs _ _ hk
      have hid : ids st' = ids st := by simp only [rids, Prod.mk.injEq] at f2; exact f2.2
      rw [hk] at hx
      simp only [Option.map_some, waiterOn] at hx
      rw [f1]
      simp only [Option.map_some, waiterOn, hw, hil, hid]
      exact hx

/-! ### list facts about the parked calls -/

theorem mem_same {l : List Waiter} (hu : l.Pairwise (fun a b => a.si ≠ b.si ∧ a.wid ≠ b.wid)) {a b : Waiter}
    (ha : a ∈ l) (hb : b ∈ l) (h : a.si = b.si ∨ a.wid = b.wid) : a = b := by
  induction l with
  | nil => cases ha
  | cons x r ih =>
    rw [List.pairwise_cons] at hu
    rcases List.mem_cons.mp ha with h1 | h1 <;> rcases List.mem_cons.mp hb with h2 | h2
    · rw [h1, h2]
    · subst h1; have := hu.1 b h2; rcases h with h | h
      · exact absurd h this.1
      · exact absurd h this.2
    · subst h2; have := hu.1 a h1; rcases h with h | h
      · exact absurd h.symm this.1
      · exact absurd h.symm this.2
    · exact ih hu.2 h1 h2

theorem find_filter_of {l : List Waiter} (p q : Waiter → Bool) (h : ∀ a ∈ l, q a = false → p a = false) :
    (l.filter q).find? p = l.find? p := by
  induction l with
  | nil => rfl
  | cons x r ih =>
    have ih' := ih (fun a ha => h a (List.mem_cons_of_mem _ ha))
    by_cases hq : q x = true
    · simp only [List.filter_cons, hq, if_true, List.find?_cons, ih']
    · have hq' : q x = false := by simpa using hq
      have hp := h x (List.mem_cons_self) hq'
      rw [List.filter_cons, if_neg (by simp [hq']), List.find?_cons, hp]
      exact ih'

theorem find_none_of {l : List Waiter} (p : Waiter → Bool) (h : ∀ a ∈ l, p a = false) : l.find? p = none := by
  induction l with
  | nil => rfl
  | cons x r ih =>
    simp only [List.find?_cons, h x (List.mem_cons_self)]
    exact ih (fun a ha => h a (List.mem_cons_of_mem _ ha))

/-! ### a parked call fails -/

theorem failWaiter_inv (s : St) (h : WInv s) (w : Waiter) (hw : w ∈ s.waiters) :
    WInv (failWaiter s w) ∧ (∀ k x, settled s k = some x → settled (failWaiter s w) k = some x) ∧
    (failWaiter s w).waiters = s.waiters.filter (·.wid != w.wid) ∧ il (failWaiter s w) = il s ∧
    (failWaiter s w).nextWid = s.nextWid := by
  obtain ⟨st, hst, _, hcar⟩ := h.ok w hw
  have hdrop : (dropWaiter s w.wid).snd = s.snd := rfl
  have hf : failWaiter s w =
      { dropWaiter s w.wid with snd := Sender.setStream s.snd w.si (Sender.rollback s.snd.cfg st w.unordered w.n) } := by
    simp only [failWaiter, rollbackStream, hdrop, hst]
  have hwl : (failWaiter s w).waiters = s.waiters.filter (·.wid != w.wid) := by rw [hf]; rfl
  have hil : il (failWaiter s w) = il s := by rw [hf]; rfl
  have hstr : ∀ k, (failWaiter s w).snd.streams k = if k = w.si then some (Sender.rollback s.snd.cfg st w.unordered w.n) else s.snd.streams k := by
    intro k; rw [hf]; rfl
  -- the members that stay are on other streams
  have hother : ∀ a ∈ s.waiters.filter (·.wid != w.wid), a ∈ s.waiters ∧ a.si ≠ w.si := by
    intro a ha
    obtain ⟨ha1, ha2⟩ := List.mem_filter.mp ha
    refine ⟨ha1, fun hsi => ?_⟩
    have := mem_same h.uniq ha1 hw (Or.inl hsi)
    subst this; simp at ha2
  refine ⟨⟨by rw [hf]; exact h.cfgOk, ?_, ?_, ?_, ?_⟩, ?_, hwl, hil, by rw [hf]; rfl⟩
  · intro k st' hk
    rw [hstr] at hk
    by_cases hkw : k = w.si
    · rw [if_pos hkw] at hk; cases hk
      rw [registered_rollback]; exact h.reg _ _ hst
    · rw [if_neg hkw] at hk; exact h.reg _ _ hk
  · rw [hwl]; exact h.uniq.sublist List.filter_sublist
  · intro a ha; rw [hwl] at ha
    have : (failWaiter s w).nextWid = s.nextWid := by rw [hf]; rfl
    rw [this]; exact h.fresh a (hother a ha).1
  · intro a ha; rw [hwl] at ha
    obtain ⟨ha1, ha2⟩ := hother a ha
    obtain ⟨sa, e1, e2, e3⟩ := h.ok a ha1
    refine ⟨sa, by rw [hstr, if_neg ha2]; exact e1, e2, by rw [hil]; exact e3⟩
  · intro k x hx
    simp only [settled] at hx ⊢
    rw [hstr]
    by_cases hkw : k = w.si
    · subst hkw
      rw [hst] at hx
      simp only [Option.map_some, waiterOn, find_si_of_mem h.uniq hw] at hx
      simp only [if_true, Option.map_some, waiterOn, hwl]
      have hnone : (s.waiters.filter (·.wid != w.wid)).find? (·.si == w.si) = none := by
        apply find_none_of
        intro a ha
        simpa using (hother a ha).2
      rw [hnone]
      simp only [ids_rollback]
      exact hx
    · rw [if_neg hkw]
      cases hks : s.snd.streams k with
      | none => rw [hks] at hx; cases hx
      | some sk =>
        rw [hks] at hx
        simp only [Option.map_some, waiterOn] at hx ⊢
        rw [hwl, find_filter_of (fun a => a.si == k) (fun a => a.wid != w.wid), hil]
        · exact hx
        · intro a ha hq
          have hwid : a.wid = w.wid := by simpa using hq
          have := mem_same h.uniq ha hw (Or.inr hwid)
          subst this
          simpa using (fun h' : a.si = k => hkw h'.symm)

/-! ### a stream without a parked call changes; the others keep their counters -/

theorem waiterOn_none_of {s : St} {k : BitVec 16} (hk : ∀ w ∈ s.waiters, w.si ≠ k) : waiterOn s k = none := by
  apply find_none_of; intro a ha; simpa using hk a ha

theorem hasWaiter_false {s : St} {k : BitVec 16} (h : hasWaiter s k = false) : ∀ w ∈ s.waiters, w.si ≠ k := by
  intro w hw hsi
  have : hasWaiter s k = true := by
    simp only [hasWaiter, List.any_eq_true]; exact ⟨w, hw, by simpa using hsi⟩
  rw [h] at this; cases this

theorem transferExcept {s s' : St} (h : WInv s) (hw : s'.waiters = s.waiters) (hn : s'.nextWid = s.nextWid) (hc : s'.snd.cfg = s.snd.cfg)
    (k : BitVec 16) (hk : ∀ w ∈ s.waiters, w.si ≠ k)
    (hs : ∀ j st, j ≠ k → s.snd.streams j = some st → ∃ st', s'.snd.streams j = some st' ∧ rids st' = rids st)
    (hr : ∀ j st, s'.snd.streams j = some st → st.registered = true) :
    WInv s' ∧ (∀ j x, j ≠ k → settled s j = some x → settled s' j = some x) ∧
    settled s' k = (s'.snd.streams k).map ids ∧ settled s k = (s.snd.streams k).map ids := by
  have hil : il s' = il s := by simp only [il, hc]
  refine ⟨⟨by rw [hc]; exact h.cfgOk, hr, by rw [hw]; exact h.uniq, by rw [hw, hn]; exact h.fresh, ?_⟩, ?_, ?_, ?_⟩
  · intro w hwm
    rw [hw] at hwm
    obtain ⟨st, e1, e2, e3⟩ := h.ok w hwm
    obtain ⟨st', f1, f2⟩ := hs _ _ (hk w hwm) e1
    refine ⟨st', f1, e2, ?_⟩
    have hid : ids st' = ids st := by simp only [rids, Prod.mk.injEq] at f2; exact f2.2
    rw [hil, hid]; exact e3
  · intro j x hj hx
    simp only [settled] at hx ⊢
    cases hjs : s.snd.streams j with
    | none => rw [hjs] at hx; cases hx
    | some st =>
      obtain ⟨st', f1, f2⟩ := hs _ _ hj hjs
      have hid : ids st' = ids st := by simp only [rids, Prod.mk.injEq] at f2; exact f2.2
      rw [hjs] at hx
      simp only [Option.map_some, waiterOn] at hx
      rw [f1]
      simp only [Option.map_some, waiterOn, hw, hil, hid]
      exact hx
  · have : waiterOn s' k = none := waiterOn_none_of (by rw [hw]; exact hk)
    simp only [settled, this]
  · simp only [settled, waiterOn_none_of hk]

/-- a write is accepted at once -/
theorem accept_inv (s : St) (h : WInv s) (k : BitVec 16) (st : Sender.Stream) (ppi : BitVec 32) (len : Nat)
    (hst : s.snd.streams k = some st) (hw : hasWaiter s k = false) :
    WInv (acceptState s k st ppi len) ∧ il (acceptState s k st ppi len) = il s ∧
    (∀ j x, j ≠ k → settled s j = some x → settled (acceptState s k st ppi len) j = some x) ∧
    settled s k = some (ids st) ∧
    settled (acceptState s k st ppi len) k =
      some (adv (il s) (Sender.packetize s.snd.cfg st k s.snd.nextMsg ppi len).unordered (ids st)) := by
  have hstr : ∀ j, (acceptState s k st ppi len).snd.streams j =
      if j = k then some (Sender.packetize s.snd.cfg st k s.snd.nextMsg ppi len).st else s.snd.streams j := by
    intro j; rfl
  have hk := hasWaiter_false hw
  obtain ⟨a1, a2, a3, a4⟩ := transferExcept (s' := acceptState s k st ppi len) h rfl rfl rfl k hk
    (by intro j sj hj hsj; exact ⟨sj, by rw [hstr, if_neg hj]; exact hsj, rfl⟩)
    (by
      intro j sj hsj
      rw [hstr] at hsj
      by_cases hj : j = k
      · rw [if_pos hj] at hsj; cases hsj
        by_cases hmp : s.snd.cfg.maxPayload = 0
        · simp only [Sender.packetize]
          have := h.reg _ _ hst
          repeat' split
          all_goals simpa using this
        · rw [(packetize_spec s.snd.cfg st k s.snd.nextMsg ppi len hmp).1]; exact h.reg _ _ hst
      · rw [if_neg hj] at hsj; exact h.reg _ _ hsj)
  refine ⟨a1, rfl, a2, by rw [a4, hst]; rfl, ?_⟩
  rw [a3, hstr, if_pos rfl]
  simp only [Option.map_some, ids_packetize]; rfl

theorem packetize_registered (cfg : Sender.Cfg) (st : Sender.Stream) (si : BitVec 16) (msg : Nat) (ppi : BitVec 32) (len : Nat) :
    (Sender.packetize cfg st si msg ppi len).st.registered = st.registered := by
  simp only [Sender.packetize]
  repeat' split
  all_goals rfl

/-- a write is parked: its stream's settled counters are what they were -/
theorem park_inv (s : St) (h : WInv s) (k : BitVec 16) (st : Sender.Stream) (ppi : BitVec 32) (len : Nat) (dl : Option Nat)
    (hst : s.snd.streams k = some st) (hw : hasWaiter s k = false) (hmp : s.snd.cfg.maxPayload ≠ 0) (hlen : len ≠ 0) :
    WInv (parkState s k st ppi len dl) ∧ il (parkState s k st ppi len dl) = il s ∧
    (∀ j x, settled s j = some x → settled (parkState s k st ppi len dl) j = some x) := by
  have hk := hasWaiter_false hw
  let w : Waiter := { wid := s.nextWid, si := k, chunks := (Sender.packetize s.snd.cfg st k s.snd.nextMsg ppi len).chunks,
                      unordered := (Sender.packetize s.snd.cfg st k s.snd.nextMsg ppi len).unordered, n := len, deadline := dl }
  have hwl : (parkState s k st ppi len dl).waiters = s.waiters ++ [w] := rfl
  have hstr : ∀ j, (parkState s k st ppi len dl).snd.streams j =
      if j = k then some (Sender.packetize s.snd.cfg st k s.snd.nextMsg ppi len).st else s.snd.streams j := by
    intro j; rfl
  have hil : il (parkState s k st ppi len dl) = il s := rfl
  have hback : back (il s) w.unordered (ids (Sender.packetize s.snd.cfg st k s.snd.nextMsg ppi len).st) = ids st := by
    rw [ids_packetize]; exact back_adv _ _ _
  refine ⟨⟨h.cfgOk, ?_, ?_, ?_, ?_⟩, hil, ?_⟩
  · intro j sj hsj
    rw [hstr] at hsj
    by_cases hj : j = k
    · rw [if_pos hj] at hsj; cases hsj; rw [packetize_registered]; exact h.reg _ _ hst
    · rw [if_neg hj] at hsj; exact h.reg _ _ hsj
  · rw [hwl, List.pairwise_append]
    refine ⟨h.uniq, List.pairwise_singleton _ _, ?_⟩
    intro a ha b hb
    rw [List.mem_singleton] at hb; subst hb
    exact ⟨hk a ha, by have := h.fresh a ha; show a.wid ≠ s.nextWid; omega⟩
  · intro a ha
    rw [hwl, List.mem_append, List.mem_singleton] at ha
    show a.wid < s.nextWid + 1
    rcases ha with ha | ha
    · have := h.fresh a ha; omega
    · subst ha; show s.nextWid < s.nextWid + 1; omega
  · intro a ha
    rw [hwl, List.mem_append, List.mem_singleton] at ha
    rcases ha with ha | ha
    · obtain ⟨sa, e1, e2, e3⟩ := h.ok a ha
      exact ⟨sa, by rw [hstr, if_neg (hk a ha)]; exact e1, e2, e3⟩
    · subst ha
      refine ⟨(Sender.packetize s.snd.cfg st k s.snd.nextMsg ppi len).st, by rw [hstr]; simp [w], packetize_nonempty _ _ _ _ _ _ hmp hlen, ?_⟩
      intro c hc
      obtain ⟨b1, _, _, b4, b5, _⟩ := packetize_mem _ _ _ _ _ _ hmp c hc
      refine ⟨b1, b4, ?_⟩
      rw [hil, hback]; exact b5
  · intro j x hx
    simp only [settled] at hx ⊢
    rw [hstr]
    by_cases hj : j = k
    · subst hj
      rw [hst] at hx
      simp only [Option.map_some, waiterOn_none_of hk] at hx
      simp only [if_true, Option.map_some, waiterOn, hwl, List.find?_append]
      have : s.waiters.find? (·.si == j) = none := waiterOn_none_of hk
      rw [this]
      simp only [Option.none_or, List.find?_cons, w, beq_self_eq_true]
      rw [hil]
      have := hback
      simp only [w] at this
      rw [this]; exact hx
    · rw [if_neg hj]
      cases hjs : s.snd.streams j with
      | none => rw [hjs] at hx; cases hx
      | some sj =>
        rw [hjs] at hx
        simp only [Option.map_some, waiterOn] at hx ⊢
        rw [hwl, List.find?_append]
        have hne : (w.si == j) = false := by simpa [w] using (fun h' : k = j => hj h'.symm)
        simp only [List.find?_cons, hne, List.find?_nil, Option.or_none, hil]
        exact hx

/-- a parked call leaves with its chunks queued (the stream table is not touched): its stream's settled counters advance -/
theorem release_inv {s s' : St} (h : WInv s) (w : Waiter) (hw : w ∈ s.waiters)
    (hwl : s'.waiters = s.waiters.filter (·.wid != w.wid)) (hn : s'.nextWid = s.nextWid) (hc : s'.snd.cfg = s.snd.cfg)
    (hs : s'.snd.streams = s.snd.streams) :
    WInv s' ∧ (∀ j x, j ≠ w.si → settled s j = some x → settled s' j = some x) ∧
    ∃ x, settled s w.si = some x ∧ settled s' w.si = some (adv (il s) w.unordered x) ∧
      w.chunks ≠ [] ∧ ∀ c ∈ w.chunks, c.unordered = w.unordered ∧ carries (il s) x c := by
  have hil : il s' = il s := by simp only [il, hc]
  obtain ⟨st, hst, hne, hcar⟩ := h.ok w hw
  have hother : ∀ a ∈ s.waiters.filter (·.wid != w.wid), a ∈ s.waiters ∧ a.si ≠ w.si := by
    intro a ha
    obtain ⟨ha1, ha2⟩ := List.mem_filter.mp ha
    refine ⟨ha1, fun hsi => ?_⟩
    have := mem_same h.uniq ha1 hw (Or.inl hsi)
    subst this; simp at ha2
  refine ⟨⟨by rw [hc]; exact h.cfgOk, by rw [hs]; exact h.reg, by rw [hwl]; exact h.uniq.sublist List.filter_sublist, ?_, ?_⟩, ?_, ?_⟩
  · intro a ha; rw [hwl] at ha; rw [hn]; exact h.fresh a (hother a ha).1
  · intro a ha; rw [hwl] at ha
    obtain ⟨sa, e1, e2, e3⟩ := h.ok a (hother a ha).1
    exact ⟨sa, by rw [hs]; exact e1, e2, by rw [hil]; exact e3⟩
  · intro j x hj hx
    simp only [settled] at hx ⊢
    rw [hs]
    cases hjs : s.snd.streams j with
    | none => rw [hjs] at hx; cases hx
    | some sj =>
      rw [hjs] at hx
      simp only [Option.map_some, waiterOn] at hx ⊢
      rw [hwl, find_filter_of (fun a => a.si == j) (fun a => a.wid != w.wid), hil]
      · exact hx
      · intro a ha hq
        have hwid : a.wid = w.wid := by simpa using hq
        have := mem_same h.uniq ha hw (Or.inr hwid)
        subst this
        simpa using (fun h' : a.si = j => hj h'.symm)
  · refine ⟨back (il s) w.unordered (ids st), ?_, ?_, hne, fun c hc => ⟨(hcar c hc).2.1, (hcar c hc).2.2⟩⟩
    · simp only [settled, hst, Option.map_some, waiterOn, find_si_of_mem h.uniq hw]
    · have hnone : (s.waiters.filter (·.wid != w.wid)).find? (·.si == w.si) = none := by
        apply find_none_of
        intro a ha
        simpa using (hother a ha).2
      simp only [settled, hs, hst, Option.map_some, waiterOn, hwl, hnone, adv_back]

/-! ### the read half does not touch the write half -/

/-- the write half of the state is the same -/
def SameW (s s' : St) : Prop :=
  s'.snd = s.snd ∧ s'.waiters = s.waiters ∧ s'.nextWid = s.nextWid ∧ s'.blockWrite = s.blockWrite ∧
  s'.writePending = s.writePending ∧ s'.state = s.state

theorem SameW.rfl' (s : St) : SameW s s := ⟨rfl, rfl, rfl, rfl, rfl, rfl⟩

theorem setRd_sameW (s : St) (si : BitVec 16) (r : RStream) : SameW s (setRd s si r) := ⟨rfl, rfl, rfl, rfl, rfl, rfl⟩

theorem read_sameW (s : St) (si : BitVec 16) (n : Nat) : SameW s (Sapi.read s si n).1 := by
  unfold Sapi.read
  split
  · exact SameW.rfl' s
  · split
    · exact SameW.rfl' s
    · split <;> exact ⟨rfl, rfl, rfl, rfl, rfl, rfl⟩

theorem rpush_sameW (s : St) (si : BitVec 16) (c : Reasm.Chunk) : SameW s (Sapi.rpush s si c).1 := by
  unfold Sapi.rpush
  split
  · exact SameW.rfl' s
  · simp only
    split
    · exact SameW.rfl' s
    · split <;> exact ⟨rfl, rfl, rfl, rfl, rfl, rfl⟩

theorem rdeadline_sameW (s : St) (si : BitVec 16) (t : Option Nat) : SameW s (Sapi.rdeadline s si t).1 := by
  unfold Sapi.rdeadline
  split
  · exact SameW.rfl' s
  · simp only
    split
    · exact ⟨rfl, rfl, rfl, rfl, rfl, rfl⟩
    · split
      · exact ⟨rfl, rfl, rfl, rfl, rfl, rfl⟩
      · split <;> exact ⟨rfl, rfl, rfl, rfl, rfl, rfl⟩

theorem reof_sameW (s : St) (si : BitVec 16) : SameW s (Sapi.reof s si).1 := by
  unfold Sapi.reof
  split
  · exact SameW.rfl' s
  · exact ⟨rfl, rfl, rfl, rfl, rfl, rfl⟩

theorem fireTimers_sameW (s : St) (l : List (BitVec 16)) : SameW s (Sapi.fireTimers s l).1 := by
  induction l generalizing s with
  | nil => exact SameW.rfl' s
  | cons si rest ih =>
    simp only [Sapi.fireTimers]
    cases hr : s.rd si with
    | none => exact ih s
    | some r =>
      simp only
      by_cases hc : timerDue r s.snd.now = true
      · rw [if_pos hc]
        obtain ⟨a, b, c, d, e, f⟩ := ih (setRd s si (fireTimer r).1)
        exact ⟨a, b, c, d, e, f⟩
      · rw [if_neg hc]; exact ih s

theorem transfer_sameW {s s' : St} (h : WInv s) (hs : SameW s s') :
    WInv s' ∧ (∀ k x, settled s k = some x → settled s' k = some x) ∧ il s' = il s := by
  obtain ⟨a, b, c, _⟩ := hs
  have := transfer (s' := s') h b c (by rw [a]) (by intro k st hk; exact ⟨st, by rw [a]; exact hk, rfl⟩)
    (by intro k st hk; rw [a] at hk; exact h.reg _ _ hk)
  exact ⟨this.1, this.2, by simp only [il, a]⟩

end SapiProofs
