import SctpVerif.Proofs.StreamApi.Evol
/-! `sack`, `t3` and clock ticks against a `Closed` per-chunk predicate: the sets of marked / all-in-flight messages do not
change, every in-flight chunk afterwards is an in-flight chunk from before that was acknowledged, got a miss indication,
or was marked for retransmission while not abandoned (or is unchanged). -/
namespace SapiProofs
open Gen SenderProofs

/-- the two message sets, the in-flight chunks relative to them -/
def InvPW (ab ai : List Nat) (q : List Sender.Chunk) (P : List Nat → List Nat → Sender.Chunk → Prop) : Prop := ∀ c ∈ q, P ab ai c

theorem popCum_sub (exitPt : BitVec 32) (q : List Sender.Chunk) (idx cum : BitVec 32) (a : Sender.CumAcc)
    (r : List Sender.Chunk × Sender.CumAcc) (h : Sender.popCum exitPt q idx cum a = some r) : ∀ c ∈ r.1, c ∈ q := by
  induction q generalizing idx a with
  | nil =>
    simp only [Sender.popCum] at h
    split at h
    · cases h
    · cases h; intro c hc; exact hc
  | cons x rest ih =>
    simp only [Sender.popCum] at h
    split at h
    · split at h
      · intro c hc; exact List.mem_cons_of_mem _ (ih _ _ h c hc)
      · cases h
    · cases h; intro c hc; exact hc

theorem get_mem {q : List Sender.Chunk} {tsn : BitVec 32} {off : Nat} {c : Sender.Chunk} (h : Sender.get q tsn = some (off, c)) : c ∈ q :=
  List.mem_of_getElem? (get_some h)

theorem mem_set {q : List Sender.Chunk} {off : Nat} {c' x : Sender.Chunk} (h : x ∈ q.set off c') : x = c' ∨ x ∈ q := by
  rcases List.mem_or_eq_of_mem_set h with h | h
  · exact Or.inr h
  · exact Or.inl h

theorem markOne_closed (ab ai : List Nat) (P : List Nat → List Nat → Sender.Chunk → Prop)
    (hack : ∀ c, P ab ai c → P ab ai c.markAcked) (a a' : Sender.GapAcc) (tsn : BitVec 32)
    (h : Sender.markOne a tsn = some a') (hq : InvPW ab ai a.q P) : InvPW ab ai a'.q P := by
  unfold Sender.markOne at h
  cases hg : Sender.get a.q tsn with
  | none => rw [hg] at h; cases h
  | some oc =>
    obtain ⟨off, c⟩ := oc
    rw [hg] at h
    simp only [Option.some.injEq] at h
    subst h
    simp only
    split
    · intro x hx
      rcases mem_set hx with h1 | h1
      · subst h1; exact hack c (hq c (get_mem hg))
      · exact hq x h1
    · exact hq

theorem markRange_closed (ab ai : List Nat) (P : List Nat → List Nat → Sender.Chunk → Prop)
    (hack : ∀ c, P ab ai c → P ab ai c.markAcked) (cum : BitVec 32) (l : List Nat) (a a' : Sender.GapAcc)
    (h : Sender.markRange cum l a = some a') (hq : InvPW ab ai a.q P) : InvPW ab ai a'.q P := by
  induction l generalizing a with
  | nil => simp only [Sender.markRange, Option.some.injEq] at h; subst h; exact hq
  | cons i is ih =>
    simp only [Sender.markRange] at h
    cases hm : Sender.markOne a (cum + BitVec.ofNat 32 i) with
    | none => rw [hm] at h; cases h
    | some a1 => rw [hm] at h; exact ih a1 h (markOne_closed ab ai P hack a a1 _ hm hq)

theorem markGaps_closed (ab ai : List Nat) (P : List Nat → List Nat → Sender.Chunk → Prop)
    (hack : ∀ c, P ab ai c → P ab ai c.markAcked) (cum : BitVec 32) (gaps : List (BitVec 16 × BitVec 16)) (a a' : Sender.GapAcc)
    (h : Sender.markGaps cum gaps a = some a') (hq : InvPW ab ai a.q P) : InvPW ab ai a'.q P := by
  induction gaps generalizing a with
  | nil => simp only [Sender.markGaps, Option.some.injEq] at h; subst h; exact hq
  | cons g gs ih =>
    obtain ⟨st, en⟩ := g
    simp only [Sender.markGaps] at h
    cases hm : Sender.markRange cum (List.range' st.toNat (en.toNat + 1 - st.toNat)) a with
    | none => rw [hm] at h; cases h
    | some a1 => rw [hm] at h; exact ih a1 h (markRange_closed ab ai P hack cum _ a a1 hm hq)

/-- the fields the per-chunk predicates read besides the chunk -/
def SameSets (s s' : Sender.St) : Prop :=
  s'.abandonedMsgs = s.abandonedMsgs ∧ s'.allInflightMsgs = s.allInflightMsgs ∧ s'.pending = s.pending ∧ s'.nextMsg = s.nextMsg

theorem SameSets.rfl' (s : Sender.St) : SameSets s s := ⟨rfl, rfl, rfl, rfl⟩
theorem SameSets.trans {a b c : Sender.St} (h1 : SameSets a b) (h2 : SameSets b c) : SameSets a c :=
  ⟨h2.1.trans h1.1, h2.2.1.trans h1.2.1, h2.2.2.1.trans h1.2.2.1, h2.2.2.2.trans h1.2.2.2⟩

theorem releaseAll_sets (rel : Sender.Rel) (s : Sender.St) :
    SameSets s (Sender.releaseAll rel s) ∧ (Sender.releaseAll rel s).inflight = s.inflight := by
  induction rel generalizing s with
  | nil => exact ⟨SameSets.rfl' s, rfl⟩
  | cons e r ih =>
    obtain ⟨si, n⟩ := e
    simp only [Sender.releaseAll]
    cases hs : s.streams si with
    | none => exact ih s
    | some st =>
      simp only
      split
      · have := ih { Sender.setStream s si (Sender.release st n).1 with clamped := s.clamped || (Sender.release st n).2 }
        exact ⟨⟨this.1.1, this.1.2.1, this.1.2.2.1, this.1.2.2.2⟩, this.2⟩
      · exact ih s

theorem onCumAdvanced_sets (s : Sender.St) (total : Int) :
    SameSets s (Sender.onCumAdvanced s total) ∧ (Sender.onCumAdvanced s total).inflight = s.inflight := by
  unfold Sender.onCumAdvanced
  split
  · split
    · exact ⟨⟨rfl, rfl, rfl, rfl⟩, rfl⟩
    · exact ⟨⟨rfl, rfl, rfl, rfl⟩, rfl⟩
  · simp only
    split
    · exact ⟨⟨rfl, rfl, rfl, rfl⟩, rfl⟩
    · exact ⟨⟨rfl, rfl, rfl, rfl⟩, rfl⟩

theorem ackApply_sets (s : Sender.St) (cum : BitVec 32) (g : Sender.GapAcc) (inFR : Bool) :
    SameSets s (Sender.ackApply s cum g inFR) ∧ (Sender.ackApply s cum g inFR).inflight = g.q := by
  simp only [Sender.ackApply]
  split
  · obtain ⟨a1, a2⟩ := releaseAll_sets g.rel (Sender.onCumAdvanced { { s with inflight := g.q, infBytes := g.infBytes, inFastRecovery := inFR } with cumAck := cum } (Sender.relTotal g.rel))
    obtain ⟨b1, b2⟩ := onCumAdvanced_sets { { s with inflight := g.q, infBytes := g.infBytes, inFastRecovery := inFR } with cumAck := cum } (Sender.relTotal g.rel)
    exact ⟨⟨a1.1.trans b1.1, a1.2.1.trans b1.2.1, a1.2.2.1.trans b1.2.2.1, a1.2.2.2.trans b1.2.2.2⟩, a2.trans b2⟩
  · obtain ⟨a1, a2⟩ := releaseAll_sets g.rel { s with inflight := g.q, infBytes := g.infBytes, inFastRecovery := inFR }
    exact ⟨⟨a1.1, a1.2.1, a1.2.2.1, a1.2.2.2⟩, a2⟩

theorem ackPhase_closed (s : Sender.St) (cum : BitVec 32) (gaps : List (BitVec 16 × BitVec 16)) (r : Sender.St × BitVec 32 × Bool)
    (P : List Nat → List Nat → Sender.Chunk → Prop)
    (hack : ∀ c, P s.abandonedMsgs s.allInflightMsgs c → P s.abandonedMsgs s.allInflightMsgs c.markAcked)
    (h : Sender.ackPhase s cum gaps = some r) (hin : InvP s P) :
    SameSets s r.1 ∧ InvPW s.abandonedMsgs s.allInflightMsgs r.1.inflight P := by
  unfold Sender.ackPhase at h
  split at h
  · cases h
  · rename_i pc hpc
    split at h
    · cases h
    · rename_i g hg
      cases h
      obtain ⟨a1, a2⟩ := ackApply_sets s cum g pc.2.inFR
      refine ⟨a1, ?_⟩
      simp only
      rw [a2]
      exact markGaps_closed _ _ P hack cum gaps _ g hg (fun c hc => hin c (popCum_sub _ _ _ _ _ _ hpc c hc))

theorem missLoop_closed (htna : BitVec 32) (maxTSN : BitVec 32) (ab ai : List Nat) (P : List Nat → List Nat → Sender.Chunk → Prop)
    (hmiss : ∀ c x, P ab ai c → P ab ai { c with missIndicator := x }) (fuel : Nat) :
    ∀ (s : Sender.St) (tsn : BitVec 32), s.abandonedMsgs = ab → s.allInflightMsgs = ai → (∀ c ∈ s.inflight, P ab ai c) →
      (Sender.missLoop htna fuel s tsn maxTSN).1.abandonedMsgs = ab ∧ (Sender.missLoop htna fuel s tsn maxTSN).1.allInflightMsgs = ai ∧
      (Sender.missLoop htna fuel s tsn maxTSN).1.pending = s.pending ∧
      (Sender.missLoop htna fuel s tsn maxTSN).1.nextMsg = s.nextMsg ∧
      (∀ c ∈ (Sender.missLoop htna fuel s tsn maxTSN).1.inflight, P ab ai c) := by
  induction fuel with
  | zero => intro s tsn h1 h2 h3; exact ⟨h1, h2, rfl, rfl, h3⟩
  | succ fuel ih =>
    intro s tsn h1 h2 h3
    simp only [Sender.missLoop]
    split
    · cases hg : Sender.get s.inflight tsn with
      | none => exact ⟨h1, h2, rfl, rfl, h3⟩
      | some oc =>
        obtain ⟨off, c⟩ := oc
        simp only
        split
        · have hin1 : ∀ x ∈ s.inflight.set off { c with missIndicator := c.missIndicator + 1 }, P ab ai x := by
            intro x hx
            rcases mem_set hx with e | e
            · subst e; exact hmiss c _ (h3 c (get_mem hg))
            · exact h3 x e
          split
          · exact ih _ (tsn + 1) h1 h2 hin1
          · exact ih _ (tsn + 1) h1 h2 hin1
        · exact ih s (tsn + 1) h1 h2 h3
    · exact ⟨h1, h2, rfl, rfl, h3⟩

theorem fastRetransCheck_closed (s : Sender.St) (cum : BitVec 32) (gaps : List (BitVec 16 × BitVec 16)) (htna : BitVec 32) (adv : Bool)
    (ab ai : List Nat) (P : List Nat → List Nat → Sender.Chunk → Prop)
    (hmiss : ∀ c x, P ab ai c → P ab ai { c with missIndicator := x })
    (h1 : s.abandonedMsgs = ab) (h2 : s.allInflightMsgs = ai) (h3 : ∀ c ∈ s.inflight, P ab ai c) :
    (Sender.fastRetransCheck s cum gaps htna adv).1.abandonedMsgs = ab ∧ (Sender.fastRetransCheck s cum gaps htna adv).1.allInflightMsgs = ai ∧
    (Sender.fastRetransCheck s cum gaps htna adv).1.pending = s.pending ∧
    (Sender.fastRetransCheck s cum gaps htna adv).1.nextMsg = s.nextMsg ∧
    (∀ c ∈ (Sender.fastRetransCheck s cum gaps htna adv).1.inflight, P ab ai c) := by
  have hfr : (Sender.frLoop s cum gaps htna adv).1.abandonedMsgs = ab ∧ (Sender.frLoop s cum gaps htna adv).1.allInflightMsgs = ai ∧
      (Sender.frLoop s cum gaps htna adv).1.pending = s.pending ∧ (Sender.frLoop s cum gaps htna adv).1.nextMsg = s.nextMsg ∧
      (∀ c ∈ (Sender.frLoop s cum gaps htna adv).1.inflight, P ab ai c) := by
    unfold Sender.frLoop
    split
    · exact missLoop_closed htna _ ab ai P hmiss _ s _ h1 h2 h3
    · exact ⟨h1, h2, rfl, rfl, h3⟩
  simp only [Sender.fastRetransCheck, Sender.frPost]
  split
  · exact hfr
  · split
    · exact hfr
    · exact hfr

theorem advLoop_sets (fuel : Nat) (s : Sender.St) : SameSets s (Sender.advLoop fuel s) ∧ (Sender.advLoop fuel s).inflight = s.inflight := by
  induction fuel generalizing s with
  | zero => exact ⟨SameSets.rfl' s, rfl⟩
  | succ fuel ih =>
    simp only [Sender.advLoop]
    split
    · exact ⟨SameSets.rfl' s, rfl⟩
    · split
      · exact ⟨SameSets.rfl' s, rfl⟩
      · have := ih { s with advPeerAck := s.advPeerAck + 1 }
        exact ⟨⟨this.1.1, this.1.2.1, this.1.2.2.1, this.1.2.2.2⟩, this.2⟩

theorem advancePeerAck_sets (s : Sender.St) : SameSets s (Sender.advancePeerAck s) ∧ (Sender.advancePeerAck s).inflight = s.inflight := by
  simp only [Sender.advancePeerAck]
  have := advLoop_sets (s.inflight.length + 1) s
  split
  · exact ⟨⟨this.1.1, this.1.2.1, this.1.2.2.1, this.1.2.2.2⟩, this.2⟩
  · exact this

theorem prStep_sets (s : Sender.St) : SameSets s (Sender.prStep s) ∧ (Sender.prStep s).inflight = s.inflight := by
  simp only [Sender.prStep]
  split
  · split
    · have := advancePeerAck_sets { s with advPeerAck := s.cumAck }
      exact ⟨⟨this.1.1, this.1.2.1, this.1.2.2.1, this.1.2.2.2⟩, this.2⟩
    · exact advancePeerAck_sets s
  · exact ⟨SameSets.rfl' s, rfl⟩

theorem applyMarks_closed (s : Sender.St) (marks : List (BitVec 32)) (P : List Nat → List Nat → Sender.Chunk → Prop)
    (hmark : ∀ c, P s.abandonedMsgs s.allInflightMsgs c → Sender.isAbandoned s.abandonedMsgs s.allInflightMsgs c = false → c.acked = false →
      P s.abandonedMsgs s.allInflightMsgs { c with retransmit := true })
    (hin : InvP s P) : SameSets s (Sender.applyMarks s marks) ∧ InvP (Sender.applyMarks s marks) P := by
  refine ⟨⟨rfl, rfl, rfl, rfl⟩, ?_⟩
  intro x hx
  simp only [Sender.applyMarks, List.mem_map] at hx
  obtain ⟨c, hc, rfl⟩ := hx
  split
  · rename_i hcond
    simp only [Bool.and_eq_true, Bool.not_eq_true'] at hcond
    exact hmark c (hin c hc) hcond.2 hcond.1.2
  · exact hin c hc

theorem markAll_closed (s : Sender.St) (P : List Nat → List Nat → Sender.Chunk → Prop)
    (hmark : ∀ c, P s.abandonedMsgs s.allInflightMsgs c → Sender.isAbandoned s.abandonedMsgs s.allInflightMsgs c = false → c.acked = false →
      P s.abandonedMsgs s.allInflightMsgs { c with retransmit := true })
    (hin : InvP s P) : ∀ x ∈ Sender.markAllToRetransmit s, P s.abandonedMsgs s.allInflightMsgs x := by
  intro x hx
  simp only [Sender.markAllToRetransmit, List.mem_map] at hx
  obtain ⟨c, hc, rfl⟩ := hx
  split
  · exact hin c hc
  · rename_i hcond
    simp only [Bool.or_eq_true, not_or, Bool.not_eq_true] at hcond
    exact hmark c (hin c hc) hcond.2 hcond.1

/-- **a SACK** -/
theorem sack_closed (s : Sender.St) (cum arwnd : BitVec 32) (gaps : List (BitVec 16 × BitVec 16)) (marks : List (BitVec 32))
    (P : List Nat → List Nat → Sender.Chunk → Prop) (hP : ClosedL P) (hin : InvP s P) :
    SameSets s (Sender.sack s cum arwnd gaps marks).1 ∧ InvP (Sender.sack s cum arwnd gaps marks).1 P := by
  have triv : SameSets s s ∧ InvP s P := ⟨SameSets.rfl' s, hin⟩
  unfold Sender.sack
  split
  · exact triv
  · split
    · exact triv
    · split
      · exact triv
      · cases ha : Sender.ackPhase s cum gaps with
        | none => exact triv
        | some r =>
          simp only
          obtain ⟨a1, a2⟩ := ackPhase_closed s cum gaps r P (fun c hc => hP.acked _ _ c hc) ha hin
          have f := fastRetransCheck_closed (Sender.setPeerWindow r.1 arwnd) cum gaps r.2.1 r.2.2 s.abandonedMsgs s.allInflightMsgs P
            (fun c x hc => hP.miss _ _ c x hc) a1.1 a1.2.1 a2
          obtain ⟨f1, f2, f3, f5, f4⟩ := f
          have hf : SameSets s (Sender.fastRetransCheck (Sender.setPeerWindow r.1 arwnd) cum gaps r.2.1 r.2.2).1 :=
            ⟨f1, f2, f3.trans a1.2.2.1, f5.trans a1.2.2.2⟩
          split
          · exact ⟨hf, by intro c hc; rw [f1, f2]; exact f4 c hc⟩
          · obtain ⟨p1, p2⟩ := prStep_sets (Sender.fastRetransCheck (Sender.setPeerWindow r.1 arwnd) cum gaps r.2.1 r.2.2).1
            have hp : SameSets s (Sender.prStep (Sender.fastRetransCheck (Sender.setPeerWindow r.1 arwnd) cum gaps r.2.1 r.2.2).1) :=
              SameSets.trans hf p1
            have hinp : InvP (Sender.prStep (Sender.fastRetransCheck (Sender.setPeerWindow r.1 arwnd) cum gaps r.2.1 r.2.2).1) P := by
              intro c hc; rw [hp.1, hp.2.1]; rw [p2] at hc; exact f4 c hc
            obtain ⟨m1, m2⟩ := applyMarks_closed _ marks P (by rw [hp.1, hp.2.1]; exact fun c h1 h2 h3 => hP.mark _ _ c h1 h2 h3) hinp
            exact ⟨SameSets.trans hp m1, m2⟩

/-- **a T3 expiry** -/
theorem t3_closed (s : Sender.St) (P : List Nat → List Nat → Sender.Chunk → Prop) (hP : ClosedL P) (hin : InvP s P) :
    SameSets s (Sender.t3 s) ∧ InvP (Sender.t3 s) P := by
  simp only [Sender.t3]
  -- the state before the marking: window figures, fast-recovery flags, advanced peer ack point
  have key : ∀ x : Sender.St, SameSets s x → x.inflight = s.inflight →
      SameSets s { x with inflight := Sender.markAllToRetransmit x } ∧ InvP { x with inflight := Sender.markAllToRetransmit x } P := by
    intro x hx hi
    have hinx : InvP x P := by intro c hc; rw [hx.1, hx.2.1]; rw [hi] at hc; exact hin c hc
    refine ⟨⟨hx.1, hx.2.1, hx.2.2.1, hx.2.2.2⟩, ?_⟩
    intro c hc
    exact markAll_closed x P (by rw [hx.1, hx.2.1]; exact fun c h1 h2 h3 => hP.mark _ _ c h1 h2 h3) hinx c hc
  split
  · split
    · obtain ⟨a1, a2⟩ := advancePeerAck_sets { { s with ssthresh := t3_ssthresh s.cwnd s.cfg.mtu, cwnd := Sender.setCwnd s (t3_cwndArg s.cfg.mtu) } with
        inFastRecovery := false, willRetransmitFast := false, fastRecoverExitPoint := 0, partialBytesAcked := 0 }
      exact key _ ⟨a1.1, a1.2.1, a1.2.2.1, a1.2.2.2⟩ a2
    · exact key _ ⟨rfl, rfl, rfl, rfl⟩ rfl
  · split
    · obtain ⟨a1, a2⟩ := advancePeerAck_sets { s with ssthresh := t3_ssthresh s.cwnd s.cfg.mtu, cwnd := Sender.setCwnd s (t3_cwndArg s.cfg.mtu) }
      exact key _ ⟨a1.1, a1.2.1, a1.2.2.1, a1.2.2.2⟩ a2
    · exact key _ ⟨rfl, rfl, rfl, rfl⟩ rfl

theorem iter_t3_closed (n : Nat) (s : Sender.St) (P : List Nat → List Nat → Sender.Chunk → Prop) (hP : ClosedL P) (hin : InvP s P) :
    SameSets s (Sender.iter Sender.t3 n s) ∧ InvP (Sender.iter Sender.t3 n s) P := by
  induction n generalizing s with
  | zero => exact ⟨SameSets.rfl' s, hin⟩
  | succ n ih =>
    simp only [Sender.iter]
    obtain ⟨a1, a2⟩ := t3_closed s P hP hin
    obtain ⟨b1, b2⟩ := ih (Sender.t3 s) a2
    exact ⟨SameSets.trans a1 b1, b2⟩

/-- **the clock advances** (T3 expiries and RACK / PTO marks as oracle inputs) -/
theorem tick_closed (s : Sender.St) (ms n : Nat) (marks : List (BitVec 32)) (P : List Nat → List Nat → Sender.Chunk → Prop)
    (hP : ClosedL P) (hin : InvP s P) :
    SameSets s (Sender.step s (.tick ms n marks)) ∧ InvP (Sender.step s (.tick ms n marks)) P := by
  simp only [Sender.step]
  obtain ⟨a1, a2⟩ := iter_t3_closed n { s with now := s.now + ms } P hP hin
  obtain ⟨m1, m2⟩ := applyMarks_closed _ marks P (fun c h1 h2 h3 => hP.mark _ _ c h1 h2 h3) a2
  exact ⟨SameSets.trans ⟨a1.1, a1.2.1, a1.2.2.1, a1.2.2.2⟩ m1, m2⟩

end SapiProofs
