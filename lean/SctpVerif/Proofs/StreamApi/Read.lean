import SctpVerif.Model.StreamApi
/-! Read half of the stream API: `reassemblyQueue.read` characterised by the message at its head (`headSet`); a short
buffer changes nothing; the read-deadline timer touches no message. Core-only lemmas (no Mathlib). -/
namespace SapiProofs
open Reasm Gen

/-- user bytes of a chunk run, in order -/
def bytesCat : List Chunk → List UInt8
  | [] => []
  | c :: cs => c.userData ++ bytesCat cs

theorem copyLoop_n (b : Int) (cs : List Chunk) (n0 : Int) (e : Bool) (out : List UInt8) :
    (copyLoop b cs n0 e out).1 = n0 + (bytesOf cs : Int) := by
  induction cs generalizing n0 e out with
  | nil => simp [copyLoop, bytesOf]
  | cons c cs ih =>
    simp only [copyLoop]
    split
    · rw [ih]; simp [bytesOf, Chunk.len]; omega
    · rw [ih]; simp [bytesOf, Chunk.len]; omega

theorem copyLoop_err_true (b : Int) (cs : List Chunk) (n0 : Int) (out : List UInt8) :
    (copyLoop b cs n0 true out).2.1 = true := by
  induction cs generalizing n0 out with
  | nil => simp [copyLoop]
  | cons c cs ih =>
    simp only [copyLoop]
    split
    · exact ih _ _
    · exact ih _ _

/-- the buffer is smaller than the message: the error is raised -/
theorem copyLoop_short (b : Int) (cs : List Chunk) (n0 : Int) (e : Bool) (out : List UInt8)
    (h0 : n0 ≤ b) (h : b < n0 + (bytesOf cs : Int)) : (copyLoop b cs n0 e out).2.1 = true := by
  induction cs generalizing n0 e out with
  | nil => simp [bytesOf] at h; omega
  | cons c cs ih =>
    simp only [copyLoop]
    split
    · exact copyLoop_err_true _ _ _ _
    · rename_i hfit
      apply ih
      · omega
      · simp [bytesOf, Chunk.len] at h ⊢
        omega

/-- the message fits: no error, the bytes of all chunks are copied in order -/
theorem copyLoop_fits (b : Int) (cs : List Chunk) (n0 : Int) (out : List UInt8)
    (h : n0 + (bytesOf cs : Int) ≤ b) :
    (copyLoop b cs n0 false out).2.1 = false ∧ (copyLoop b cs n0 false out).2.2 = out ++ bytesCat cs := by
  induction cs generalizing n0 out with
  | nil => simp [copyLoop, bytesCat]
  | cons c cs ih =>
    have hc : ¬ (b - n0 < (c.len : Int)) := by
      simp [bytesOf, Chunk.len] at h ⊢
      omega
    simp only [copyLoop, hc, if_false, Bool.false_eq_true]
    have := ih (n0 + c.len) (out ++ c.userData) (by simp [bytesOf, Chunk.len] at h ⊢; omega)
    refine ⟨this.1, ?_⟩
    rw [this.2]; simp [bytesCat]

theorem copyLoop0_short (n : Nat) (cs : List Chunk) (h : (n : Int) < (bytesOf cs : Int)) :
    (copyLoop n cs 0 false []).2.1 = true := copyLoop_short _ _ 0 false [] (by omega) (by omega)

theorem copyLoop0_fits (n : Nat) (cs : List Chunk) (h : ¬ (n : Int) < (bytesOf cs : Int)) :
    (copyLoop n cs 0 false []).2.1 = false ∧ (copyLoop n cs 0 false []).2.2 = bytesCat cs := by
  have := copyLoop_fits n cs 0 [] (by omega)
  simpa using this

/-- the message `read` would return: PPI and chunks of the set at the head, if it is deliverable -/
def headSet (q : Q) : Option (PPI × List Chunk) :=
  if q.useInterleaving then
    match q.unorderedMID with
    | iSet :: _ => some (iSet.ppi, iSet.chunks)
    | [] =>
      match q.orderedMID with
      | iSet :: _ => if !iSet.isComplete then none else if sna32GT iSet.mid q.nextMID then none else some (iSet.ppi, iSet.chunks)
      | [] => none
  else
    match q.unordered with
    | cset :: _ => some (cset.ppi, cset.chunks)
    | [] =>
      match q.ordered with
      | cset :: _ => if !cset.isComplete then none else if sna16GT cset.ssn q.nextSSN then none else some (cset.ppi, cset.chunks)
      | [] => none

/-- `read` in terms of the message at the head -/
theorem read_spec (q : Q) (n : Nat) :
    match headSet q with
    | none => q.read n = (q, ReadRes.tryAgain)
    | some (ppi, cs) =>
      if (n : Int) < (bytesOf cs : Int) then q.read n = (q, { n := (bytesOf cs : Int), ppi := 0, err := .shortBuffer, data := [] })
      else (q.read n).2 = { n := (bytesOf cs : Int), ppi := ppi, err := .ok, data := bytesCat cs } := by
  unfold headSet Q.read
  by_cases hil : q.useInterleaving
  · simp only [hil, if_true]
    cases hu : q.unorderedMID with
    | cons iSet rest =>
      simp only
      by_cases hn : (n : Int) < (bytesOf iSet.chunks : Int)
      · simp [hn, copyLoop_n, copyLoop0_short _ _ hn]
      · simp [hn, copyLoop_n, (copyLoop0_fits _ _ hn).1, (copyLoop0_fits _ _ hn).2]
    | nil =>
      simp only
      cases ho : q.orderedMID with
      | nil => rfl
      | cons iSet rest =>
        simp only
        by_cases hc : iSet.isComplete
        · simp only [hc, Bool.not_true, Bool.false_eq_true, if_false]
          by_cases hg : sna32GT iSet.mid q.nextMID
          · simp [hg]
          · simp only [hg, Bool.false_eq_true, if_false]
            by_cases hn : (n : Int) < (bytesOf iSet.chunks : Int)
            · simp [hn, copyLoop_n, copyLoop0_short _ _ hn]
            · simp [hn, copyLoop_n, (copyLoop0_fits _ _ hn).1, (copyLoop0_fits _ _ hn).2]
        · simp [hc]
  · simp only [hil, Bool.false_eq_true, if_false]
    cases hu : q.unordered with
    | cons cset rest =>
      simp only
      by_cases hn : (n : Int) < (bytesOf cset.chunks : Int)
      · simp [hn, copyLoop_n, copyLoop0_short _ _ hn]
      · simp [hn, copyLoop_n, (copyLoop0_fits _ _ hn).1, (copyLoop0_fits _ _ hn).2]
    | nil =>
      simp only
      cases ho : q.ordered with
      | nil => rfl
      | cons cset rest =>
        simp only
        by_cases hc : cset.isComplete
        · simp only [hc, Bool.not_true, Bool.false_eq_true, if_false]
          by_cases hg : sna16GT cset.ssn q.nextSSN
          · simp [hg]
          · simp only [hg, Bool.false_eq_true, if_false]
            by_cases hn : (n : Int) < (bytesOf cset.chunks : Int)
            · simp [hn, copyLoop_n, copyLoop0_short _ _ hn]
            · simp [hn, copyLoop_n, (copyLoop0_fits _ _ hn).1, (copyLoop0_fits _ _ hn).2]
        · simp [hc]

/-- a short-buffer result: the queue is returned as it was, the reported size is the size of the message at the head -/
theorem Q_read_short (q : Q) (n : Nat) (h : (q.read n).2.err = .shortBuffer) :
    (q.read n).1 = q ∧ ∃ ppi cs, headSet q = some (ppi, cs) ∧ (q.read n).2.n = (bytesOf cs : Int) ∧ n < bytesOf cs := by
  have hs := read_spec q n
  cases hh : headSet q with
  | none => rw [hh] at hs; simp only at hs; rw [hs] at h; cases h
  | some pc =>
    obtain ⟨ppi, cs⟩ := pc
    rw [hh] at hs; simp only at hs
    by_cases hn : (n : Int) < (bytesOf cs : Int)
    · rw [if_pos hn] at hs
      exact ⟨by rw [hs], ppi, cs, rfl, by rw [hs], by omega⟩
    · rw [if_neg hn] at hs; rw [hs] at h; cases h

/-- with a buffer that holds the message at the head, `read` returns exactly that message -/
theorem Q_read_fits (q : Q) (ppi : PPI) (cs : List Chunk) (hh : headSet q = some (ppi, cs)) (m : Nat) (hm : bytesOf cs ≤ m) :
    (q.read m).2 = { n := (bytesOf cs : Int), ppi := ppi, err := .ok, data := bytesCat cs } := by
  have hs := read_spec q m
  rw [hh] at hs; simp only at hs
  rw [if_neg (by omega)] at hs
  exact hs

theorem bytesCat_length (cs : List Chunk) : (bytesCat cs).length = bytesOf cs := by
  induction cs with
  | nil => rfl
  | cons c cs ih => simp [bytesCat, bytesOf, ih, Chunk.len]

open Sapi in
/-- one pass of the `ReadSCTP` loop that reports a short buffer leaves the read half of the stream untouched -/
theorem tryRead_short (r : RStream) (n : Nat) (k : Int) (h : (tryRead r n).2 = some (.short k)) :
    (tryRead r n).1 = r ∧ ∃ ppi cs, headSet r.q = some (ppi, cs) ∧ k = (bytesOf cs : Int) ∧ n < bytesOf cs := by
  simp only [tryRead] at h ⊢
  cases he : (r.q.read n).2.err with
  | ok => simp [he] at h
  | tryAgain => simp only [he] at h; split at h <;> simp at h
  | shortBuffer =>
    simp only [he, Option.some.injEq, RRes.short.injEq] at h ⊢
    obtain ⟨e1, ppi, cs, e2, e3, e4⟩ := Q_read_short r.q n he
    exact ⟨by rw [e1], ppi, cs, e2, by rw [← h, e3], e4⟩

open Sapi in
/-- … and a later pass with a buffer of at least the reported size returns that message: its bytes, its PPI -/
theorem tryRead_fits (r : RStream) (ppi : PPI) (cs : List Chunk) (hh : headSet r.q = some (ppi, cs)) (m : Nat) (hm : bytesOf cs ≤ m) :
    (tryRead r m).2 = some (.data (bytesOf cs : Int) ppi (bytesCat cs)) := by
  simp only [tryRead]
  have := Q_read_fits r.q ppi cs hh m hm
  rw [this]

open Sapi in
/-- the read-deadline timer: whatever the parked reader gets, an error result means the queue is as it was -/
theorem wakeReader_err_keeps (r : RStream) (rid : Nat) (e : RdErr) (h : (rid, RRes.err e) ∈ (wakeReader r).2) :
    (wakeReader r).1.q = r.q := by
  unfold wakeReader at h ⊢
  cases hr : r.reader with
  | none => simp [hr] at h
  | some rb =>
    obtain ⟨rid', buflen⟩ := rb
    simp only [hr] at h ⊢
    simp only [tryRead] at h ⊢
    cases he : (r.q.read buflen).2.err with
    | ok => simp [he] at h
    | shortBuffer => simp [he] at h
    | tryAgain =>
      simp only [he] at h ⊢
      cases hre : r.readErr with
      | none => rfl
      | some x => simp only [readDone]; split <;> rfl

end SapiProofs
