import SctpVerif.Proofs.StreamApi.Write
/-! Message identifiers: what `packetize` builds (fragment count, FSN, B/E flags, the SSN / MID every fragment carries) and
how the three counters of a stream move (`adv` / `back`). -/
namespace SapiProofs
open Gen Sapi SenderProofs

/-- (SSN, ordered MID, unordered MID) of a stream -/
abbrev Ids := BitVec 16 × BitVec 32 × BitVec 32

def ids (st : Sender.Stream) : Ids := (st.ssn, st.nextOrderedMID, st.nextUnorderedMID)

/-- what `packetize` does to the counters for a message with U flag `u`: exactly one of them advances by one
(none for an unordered DATA message: it carries the current SSN and does not consume it) -/
def adv (il u : Bool) (x : Ids) : Ids :=
  if il then (if u then (x.1, x.2.1, x.2.2 + 1) else (x.1, x.2.1 + 1, x.2.2)) else if u then x else (x.1 + 1, x.2.1, x.2.2)

/-- what the failure branch of `WriteSCTP` does to them -/
def back (il u : Bool) (x : Ids) : Ids :=
  if il then (if u then (x.1, x.2.1, x.2.2 - 1) else (x.1, x.2.1 - 1, x.2.2)) else if u then x else (x.1 - 1, x.2.1, x.2.2)

theorem back_adv (il u : Bool) (x : Ids) : back il u (adv il u x) = x := by
  obtain ⟨a, b, c⟩ := x
  cases il <;> cases u <;> simp [back, adv, BitVec.add_sub_cancel]

theorem adv_back (il u : Bool) (x : Ids) : adv il u (back il u x) = x := by
  obtain ⟨a, b, c⟩ := x
  cases il <;> cases u <;> simp [back, adv, BitVec.sub_add_cancel]

/-- the identifier a chunk carries is the one `x` assigns to its class -/
def carries (il : Bool) (x : Ids) (c : Sender.Chunk) : Prop :=
  if il then c.mid = (if c.unordered then x.2.2 else x.2.1) ∧ c.ssn = BitVec.setWidth 16 c.mid else c.ssn = x.1 ∧ c.mid = 0

theorem ids_packetize (cfg : Sender.Cfg) (st : Sender.Stream) (si : BitVec 16) (msg : Nat) (ppi : BitVec 32) (len : Nat) :
    ids (Sender.packetize cfg st si msg ppi len).st = adv cfg.useInterleaving (Sender.packetize cfg st si msg ppi len).unordered (ids st) := by
  obtain ⟨reg, un, rt, rv, buf, th, hcb, cb, ssn, om, um⟩ := st
  simp only [Sender.packetize, ids, adv]
  cases hil : cfg.useInterleaving <;> cases hd : (ppi != BitVec.ofNat 32 PayloadTypeWebRTCDCEP) <;> cases un <;> simp

theorem ids_rollback (cfg : Sender.Cfg) (st : Sender.Stream) (u : Bool) (n : Nat) :
    ids (Sender.rollback cfg st u n) = back cfg.useInterleaving u (ids st) := by
  obtain ⟨reg, un, rt, rv, buf, th, hcb, cb, ssn, om, um⟩ := st
  simp only [Sender.rollback, ids, back]
  cases hil : cfg.useInterleaving <;> cases u <;> simp

theorem registered_rollback (cfg : Sender.Cfg) (st : Sender.Stream) (u : Bool) (n : Nat) :
    (Sender.rollback cfg st u n).registered = st.registered := by
  obtain ⟨reg, un, rt, rv, buf, th, hcb, cb, ssn, om, um⟩ := st
  simp only [Sender.rollback]
  cases hil : cfg.useInterleaving <;> cases u <;> simp

/-! ### the fragments -/

theorem fragAux_length (mp : Nat) (hmp : 0 < mp) (fuel remaining : Nat) (hf : remaining ≤ fuel) :
    (Sender.fragAux mp fuel remaining).length = (remaining + mp - 1) / mp := by
  induction fuel generalizing remaining with
  | zero =>
    have : remaining = 0 := by omega
    subst this
    simp only [Sender.fragAux, List.length_nil]
    exact (Nat.div_eq_of_lt (by omega)).symm
  | succ n ih =>
    simp only [Sender.fragAux]
    by_cases h0 : remaining = 0
    · subst h0; simp only [true_or, if_true, List.length_nil]; exact (Nat.div_eq_of_lt (by omega)).symm
    · have hc : ¬ (remaining = 0 ∨ mp = 0) := by omega
      simp only [hc, if_false, List.length_cons]
      rw [ih (remaining - min mp remaining) (by omega)]
      by_cases hle : remaining ≤ mp
      · have e1 : remaining - min mp remaining = 0 := by omega
        rw [e1]
        have e2 : (0 + mp - 1) / mp = 0 := Nat.div_eq_of_lt (by omega)
        have e3 : (remaining + mp - 1) / mp = 1 := by
          have : remaining + mp - 1 = (remaining - 1) + mp := by omega
          rw [this, Nat.add_div_right _ hmp, Nat.div_eq_of_lt (by omega)]
        rw [e2, e3]
      · have e1 : remaining - min mp remaining = remaining - mp := by omega
        rw [e1]
        have : remaining + mp - 1 = (remaining - mp + mp - 1) + mp := by omega
        rw [this, Nat.add_div_right _ hmp]

/-- the i-th chunk `mkChunks` builds -/
theorem mkChunks_get (si : BitVec 16) (msg : Nat) (ppi : BitVec 32) (u : Bool) (ssn : BitVec 16) (mid : BitVec 32)
    (fs : List Nat) (fsn : BitVec 32) (first : Bool) (i : Nat) (hi : i < fs.length) :
    (Sender.mkChunks si msg ppi u ssn mid fs fsn first)[i]? =
      some { si := si, len := fs[i], msg := msg, ppi := ppi, unordered := u, bfrag := (first && i == 0), efrag := (i + 1 == fs.length),
             ssn := ssn, mid := mid, fsn := fsn + BitVec.ofNat 32 i } := by
  induction fs generalizing fsn first i with
  | nil => simp at hi
  | cons f r ih =>
    cases i with
    | zero =>
      simp only [Sender.mkChunks, List.getElem?_cons_zero, List.getElem_cons_zero, List.length_cons]
      congr 2
      · simp
      · cases r <;> simp
      · simp
    | succ j =>
      simp only [Sender.mkChunks, List.getElem?_cons_succ, List.getElem_cons_succ, List.length_cons]
      rw [ih (fsn + 1) false j (by simpa using hi)]
      congr 2
      · simp
      · simp
      · rw [BitVec.add_assoc]; congr 1
        apply BitVec.eq_of_toNat_eq; simp [BitVec.toNat_add, BitVec.toNat_ofNat]; omega

theorem mkChunks_static (si : BitVec 16) (msg : Nat) (ppi : BitVec 32) (u : Bool) (ssn : BitVec 16) (mid : BitVec 32)
    (fs : List Nat) (fsn : BitVec 32) (first : Bool) :
    ∀ c ∈ Sender.mkChunks si msg ppi u ssn mid fs fsn first, c.unordered = u ∧ c.ppi = ppi ∧ c.si = si ∧ c.msg = msg := by
  induction fs generalizing fsn first with
  | nil => intro c hc; simp [Sender.mkChunks] at hc
  | cons f r ih =>
    intro c hc
    simp only [Sender.mkChunks, List.mem_cons] at hc
    rcases hc with h | h
    · subst h; exact ⟨rfl, rfl, rfl, rfl⟩
    · exact ih _ _ c h

theorem mkChunks_length (si : BitVec 16) (msg : Nat) (ppi : BitVec 32) (u : Bool) (ssn : BitVec 16) (mid : BitVec 32)
    (fs : List Nat) (fsn : BitVec 32) (first : Bool) : (Sender.mkChunks si msg ppi u ssn mid fs fsn first).length = fs.length :=
  (mkChunks_spec si msg ppi u ssn mid fs fsn first).2.2.1

/-- **what `packetize` queues**: ⌈len/maxPayload⌉ chunks of one message; the i-th has FSN i, B iff first, E iff last, the
stream id, PPI, message identity and U flag of the message, and carries the identifier the stream's counters assign -/
theorem packetize_shape (cfg : Sender.Cfg) (st : Sender.Stream) (si : BitVec 16) (msg : Nat) (ppi : BitVec 32) (len : Nat)
    (hmp : cfg.maxPayload ≠ 0) :
    (Sender.packetize cfg st si msg ppi len).chunks.length = (len + cfg.maxPayload.toNat - 1) / cfg.maxPayload.toNat ∧
    ∀ i c, (Sender.packetize cfg st si msg ppi len).chunks[i]? = some c →
      c.si = si ∧ c.msg = msg ∧ c.ppi = ppi ∧ c.unordered = (Sender.packetize cfg st si msg ppi len).unordered ∧
      c.fsn = BitVec.ofNat 32 i ∧ c.bfrag = (i == 0) ∧ c.efrag = (i + 1 == (Sender.packetize cfg st si msg ppi len).chunks.length) ∧
      carries cfg.useInterleaving (ids st) c ∧ c.nSent = 0 ∧ c.acked = false ∧ c.retransmit = false := by
  have hmp' : 0 < cfg.maxPayload.toNat := by
    rcases Nat.eq_zero_or_pos cfg.maxPayload.toNat with h | h
    · exact absurd (BitVec.eq_of_toNat_eq (by simpa using h)) hmp
    · exact h
  have hl : (Sender.packetize cfg st si msg ppi len).chunks.length = (Sender.fragSizes cfg.maxPayload.toNat len).length := by
    simp only [Sender.packetize]; exact mkChunks_length _ _ _ _ _ _ _ _ _
  refine ⟨by rw [hl]; exact fragAux_length _ hmp' len len (Nat.le_refl _), ?_⟩
  intro i c hc
  have hi : i < (Sender.fragSizes cfg.maxPayload.toNat len).length := by
    rw [← hl]; exact (List.getElem?_eq_some_iff.mp hc).1
  rw [hl]
  simp only [Sender.packetize] at hc ⊢
  rw [mkChunks_get _ _ _ _ _ _ _ _ _ i hi] at hc
  cases hc
  refine ⟨rfl, rfl, rfl, rfl, by simp, by simp, rfl, ?_, rfl, rfl, rfl⟩
  simp only [carries, ids]
  cases hil : cfg.useInterleaving <;> cases hu : (ppi != BitVec.ofNat 32 PayloadTypeWebRTCDCEP && st.unordered) <;> simp

theorem packetize_mem (cfg : Sender.Cfg) (st : Sender.Stream) (si : BitVec 16) (msg : Nat) (ppi : BitVec 32) (len : Nat)
    (hmp : cfg.maxPayload ≠ 0) (c : Sender.Chunk) (hc : c ∈ (Sender.packetize cfg st si msg ppi len).chunks) :
    c.si = si ∧ c.msg = msg ∧ c.ppi = ppi ∧ c.unordered = (Sender.packetize cfg st si msg ppi len).unordered ∧
    carries cfg.useInterleaving (ids st) c ∧ c.nSent = 0 ∧ c.acked = false ∧ c.retransmit = false := by
  obtain ⟨i, hi⟩ := List.getElem?_of_mem hc
  obtain ⟨a1, a2, a3, a4, _, _, _, a8, a9, a10, a11⟩ := (packetize_shape cfg st si msg ppi len hmp).2 i c hi
  exact ⟨a1, a2, a3, a4, a8, a9, a10, a11⟩

/-- a non-empty payload gives at least one chunk -/
theorem packetize_nonempty (cfg : Sender.Cfg) (st : Sender.Stream) (si : BitVec 16) (msg : Nat) (ppi : BitVec 32) (len : Nat)
    (hmp : cfg.maxPayload ≠ 0) (hlen : len ≠ 0) : (Sender.packetize cfg st si msg ppi len).chunks ≠ [] := by
  intro h
  have := (packetize_spec cfg st si msg ppi len hmp).2.2.2.1
  rw [h] at this; simp [Sender.sumLen] at this; omega

end SapiProofs
