import SctpVerif.Model.Rto
import SctpVerif.Model.Timer
import Mathlib.Tactic.Linarith
import Mathlib.Tactic.Positivity
import Mathlib.Tactic.Ring
import Mathlib.Tactic.NormNum
import Mathlib.Algebra.Order.Field.Rat
/-!
Helper lemmas for C19: clamp / back-off algebra over `Rat` on the translator-generated
arithmetic, and the invariants of the timer automata of `Model/Timer.lean`.
-/
namespace TimerProofs
open Gen

/-! ## `math.Min` / `math.Max` over `Rat` -/

theorem gmin_le_left (a b : Rat) : gmin a b ≤ a := by unfold gmin; split <;> grind
theorem gmin_le_right (a b : Rat) : gmin a b ≤ b := by unfold gmin; split <;> grind
theorem le_gmin {a b c : Rat} (h1 : c ≤ a) (h2 : c ≤ b) : c ≤ gmin a b := by unfold gmin; split <;> grind
theorem le_gmax_right (a b : Rat) : b ≤ gmax a b := by unfold gmax; split <;> grind
theorem gmin_eq_min (a b : Rat) : gmin a b = min a b := by unfold gmin; grind

theorem rtoMin_val : Gen.rtoMin = 1000 := by decide
theorem rtoInitial_val : Gen.rtoInitial = 1000 := by decide

/-! ## rtoManager -/
open Rto

/-- what every reachable manager of non-test code satisfies -/
structure MgrInv (m : Mgr Rat) : Prop where
  upd : m.noUpdate = false
  lo : Gen.rtoMin ≤ m.rto
  hi : m.rto ≤ m.rtoMax

theorem minv_new (rtoMax : Rat) (h : Gen.rtoMin ≤ (R.new rtoMax).rtoMax) : MgrInv (R.new rtoMax) := by
  refine ⟨rfl, ?_, ?_⟩
  · simp [R.new, rtoMin_val, rtoInitial_val]
  · have : (R.new rtoMax).rto = Gen.rtoMin := by simp [R.new, rtoMin_val, rtoInitial_val]
    rw [this]; exact h

theorem setNewRTT_rtoMax (m : Mgr Rat) (x : Rat) : (R.setNewRTT m x).1.rtoMax = m.rtoMax := by simp only [R.setNewRTT]
theorem reset_rtoMax (m : Mgr Rat) : (R.reset m).rtoMax = m.rtoMax := by simp only [R.reset]

/-- shape of the generated `setNewRTT`: when updates are allowed the new rto is a clamp -/
theorem gen_setNewRTT_rto (srtt rttvar rto rtoMax rtt : Rat) :
    ∃ v, (rtoManager_setNewRTT_Rat srtt rttvar rto false rtoMax rtt).m_rto = gmin (gmax v Gen.rtoMin) rtoMax := by
  unfold rtoManager_setNewRTT_Rat
  simp only [Bool.false_eq_true, ↓reduceIte, rtoMin_val]
  split <;> exact ⟨_, rfl⟩

theorem minv_setNewRTT (m : Mgr Rat) (x : Rat) (h : MgrInv m) : MgrInv (R.setNewRTT m x).1 := by
  have hmm : Gen.rtoMin ≤ m.rtoMax := Rat.le_trans h.lo h.hi
  obtain ⟨v, hv⟩ := gen_setNewRTT_rto m.srtt m.rttvar m.rto m.rtoMax x
  have hrto : (R.setNewRTT m x).1.rto = gmin (gmax v Gen.rtoMin) m.rtoMax := by
    simp only [R.setNewRTT, h.upd]; exact hv
  refine ⟨h.upd, ?_, ?_⟩
  · rw [hrto]; exact le_gmin (le_gmax_right _ _) hmm
  · rw [hrto]; exact gmin_le_right _ _

theorem minv_reset (m : Mgr Rat) (h : MgrInv m) : MgrInv (R.reset m) := by
  have hmm : Gen.rtoMin ≤ m.rtoMax := Rat.le_trans h.lo h.hi
  refine ⟨h.upd, ?_, ?_⟩
  · simp [R.reset, Gen.rtoManager_reset_Rat, h.upd, rtoMin_val]
  · simpa [R.reset, Gen.rtoManager_reset_Rat, h.upd, rtoMin_val] using hmm

theorem minv_apply (m : Mgr Rat) (o : R.Op) (h : MgrInv m) : MgrInv (R.apply m o) := by
  cases o with
  | rtt x => exact minv_setNewRTT m x h
  | reset => exact minv_reset m h

theorem apply_rtoMax (m : Mgr Rat) (o : R.Op) : (R.apply m o).rtoMax = m.rtoMax := by
  cases o with
  | rtt x => exact setNewRTT_rtoMax m x
  | reset => exact reset_rtoMax m

theorem minv_run (m : Mgr Rat) (os : List R.Op) (h : MgrInv m) : MgrInv (R.run m os) ∧ (R.run m os).rtoMax = m.rtoMax := by
  induction os generalizing m with
  | nil => exact ⟨h, rfl⟩
  | cons o os ih =>
    have := ih (R.apply m o) (minv_apply m o h)
    exact ⟨this.1, by rw [R.run, this.2, apply_rtoMax]⟩

/-! ## back-off: the generated `calculateNextTimeout` -/

theorem next_lt (rto rtoMax : Rat) (n : Nat) (h : n < 31) :
    calculateNextTimeout_Rat rto n rtoMax = min (rto * 2^n) rtoMax := by
  unfold calculateNextTimeout_Rat
  simp only [h, decide_true, ↓reduceIte, gmin_eq_min]
  congr 2
  push_cast; ring

theorem next_ge (rto rtoMax : Rat) (n : Nat) (h : 31 ≤ n) :
    calculateNextTimeout_Rat rto n rtoMax = rtoMax := by
  unfold calculateNextTimeout_Rat
  have : ¬ n < 31 := by omega
  simp [this]

theorem backoff_step (rto rtoMax : Rat) (n : Nat) (hmax : 0 ≤ rtoMax) (hbig : 30 ≤ n → rtoMax ≤ rto * 2^31) :
    calculateNextTimeout_Rat rto (n+1) rtoMax = min (2 * calculateNextTimeout_Rat rto n rtoMax) rtoMax := by
  by_cases h : n < 30
  · rw [next_lt _ _ _ (by omega), next_lt _ _ _ (by omega), pow_succ]
    rcases le_total (rto * 2^n) rtoMax with h1 | h1
    · rw [min_eq_left h1]; congr 1; ring
    · rw [min_eq_right h1, min_eq_right (by linarith), min_eq_right (by nlinarith)]
  · by_cases h30 : n = 30
    · subst h30
      rw [next_ge _ _ _ (by omega), next_lt _ _ _ (by omega)]
      have hb := hbig (by omega)
      rcases le_total (rto * 2^30) rtoMax with h1 | h1
      · rw [min_eq_left h1, min_eq_right]; rw [pow_succ] at hb; linarith
      · rw [min_eq_right h1, min_eq_right]; linarith
    · rw [next_ge _ _ _ (by omega), next_ge _ _ _ (by omega), min_eq_right]; linarith

theorem backoff_mono (rto rtoMax : Rat) (n : Nat) (hrto : 0 ≤ rto) :
    calculateNextTimeout_Rat rto n rtoMax ≤ calculateNextTimeout_Rat rto (n+1) rtoMax := by
  by_cases h : n < 30
  · rw [next_lt _ _ _ (by omega), next_lt _ _ _ (by omega)]
    have : rto * 2^n ≤ rto * 2^(n+1) := by
      have : (0:Rat) < 2^n := by positivity
      rw [pow_succ]; nlinarith
    exact min_le_min this le_rfl
  · by_cases h30 : n = 30
    · subst h30; rw [next_lt _ _ 30 (by omega), next_ge _ _ (30+1) (by omega)]; exact min_le_right _ _
    · rw [next_ge _ _ _ (by omega), next_ge _ _ _ (by omega)]

theorem interval_bounds (rto rtoMax : Rat) (n : Nat) (hlo : Gen.rtoMin ≤ rto) (hmm : Gen.rtoMin ≤ rtoMax) :
    Gen.rtoMin ≤ calculateNextTimeout_Rat rto n rtoMax ∧ calculateNextTimeout_Rat rto n rtoMax ≤ rtoMax := by
  by_cases h : n < 31
  · rw [next_lt _ _ _ h]
    refine ⟨le_min ?_ hmm, min_le_right _ _⟩
    have h1 : (1:Rat) ≤ 2^n := one_le_pow₀ (by norm_num)
    have h0 : (0:Rat) ≤ rto := by rw [rtoMin_val] at hlo; linarith
    nlinarith
  · rw [next_ge _ _ _ (by omega)]; exact ⟨hmm, le_rfl⟩

end TimerProofs
