import SctpVerif.Proofs.Sender.Arith
import SctpVerif.Proofs.Sender.Gather
import SctpVerif.Proofs.Sender.Window
import SctpVerif.Proofs.Sender.Admit
import SctpVerif.Proofs.Sender.Frames
import SctpVerif.Proofs.Sender.WinRun
import SctpVerif.Proofs.Sender.Loss
import SctpVerif.Proofs.Sender.Cfg
import SctpVerif.Proofs.Sender.Books
import SctpVerif.Proofs.Sender.Acct
import SctpVerif.Proofs.Sender.Core
import SctpVerif.Proofs.Sender.Callback
import SctpVerif.Proofs.Sender.Seq
import SctpVerif.Proofs.Sender.Rtx
import SctpVerif.Proofs.Sender.Adv
import SctpVerif.Proofs.Sender.AdvMsg
import SctpVerif.Proofs.Sender.Progress
import SctpVerif.Proofs.Sender.Recover
import SctpVerif.Proofs.Sender.Wire
import SctpVerif.Proofs.Sender.MsgId
/-! Helper lemmas about the L0 sender model `Model/Sender.lean` (used by `Props/C10.lean`, `Props/C15.lean`):
`Arith` packet/chunk sizes · `Gather` the scan loops · `Window`/`Admit` admission of new DATA · `Frames` what the
flag-only transitions leave alone · `WinRun` window invariants over runs · `Loss` loss response · `Books`/`Acct`/`Core`
byte accounting · `Callback` low-threshold callback · `Seq` TSN contiguity, a validated SACK is applied completely · `Adv` partial reliability: abandonment, advanced peer
ack point, FORWARD-TSN contents · `AdvMsg` who can be abandoned, which retransmission paths test `abandoned()` (`Props/C07.lean`) · `Progress` T3 marks all, lowest flagged chunk retransmitted, zero-window probe, cumulative SACK, the drain rounds · `Recover` recovery against a peer that keeps nothing beyond its cumulative point (`Props/C02.lean`). -/
