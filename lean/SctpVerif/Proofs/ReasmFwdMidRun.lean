import SctpVerif.Proofs.ReasmFwdMid
/-!
Helper lemmas for C07 (receiver reassembly under skips), part 6: read and skip steps of `SkipInvM`, the run theorem and
the end-of-run lemmas for ordered I-DATA (mirror of `Proofs/ReasmFwdRun.lean`).
-/
set_option linter.unusedVariables false
set_option linter.unusedSimpArgs false
namespace Reasm
open Gen

/-- the state after a successful read of the first set `(k, js)` (complete, not above the cursor). -/
theorem SkipInvM.afterRead {S τ K q f c P D} {k : Nat} {js : List Nat} {rest : Tab}
    (h : SkipInvM S τ K q f c ((k, js) :: rest) P D) (hS : S.WF) (hall : js = List.range (S.nf k)) (hkc : k ≤ c)
    (q' : Q) (hsi : q'.si = S.si) (hil : q'.useInterleaving = true) (hun : q'.unordered = []) (hod : q'.ordered = [])
    (hum : q'.unorderedMID = [])
    (hq'cur : q'.nextMID = BitVec.ofNat 32 (if k = c then c + 1 else c))
    (hq'ord : q'.orderedMID = rest.map (S.concSetMID τ)) :
    SkipInvM S τ K q' (q'.floorMID f (if k = c then c + 1 else c)) (if k = c then c + 1 else c) rest P (D ++ [k]) := by
  have hfc := h.fc
  have hin : (k, js) ∈ (k, js) :: rest := List.mem_cons_self ..
  have hwin := h.tab.win _ hin
  have hs := h.tab.sorted
  rw [List.pairwise_cons] at hs
  simp only at hwin
  have hc'ge : f ≤ (if k = c then c + 1 else c) := by split <;> omega
  have htail : TabInvM S τ (rest.map (S.concSetMID τ)) f rest := h.tab.tail
  have htab' : TabInvM S τ q'.orderedMID f rest := by rw [hq'ord]; exact htail
  obtain ⟨s1, s2, s3, s4⟩ := floorMID_spec htab' hc'ge
  refine
    { si := hsi, il := (by rw [hil]; intro hc; cases hc), un := hun, od := hod, um := hum, cur := hq'cur,
      tab := htab'.raise _ s1 s3, fc := ⟨s2, ?_⟩,
      pushed := fun e he => h.pushed e (List.mem_cons_of_mem _ he),
      below := ?_, done := ?_, dsorted := ?_, dlt := ?_, held := ?_ }
  · rcases s4 with s4 | ⟨e, he, s4⟩
    · rw [s4]; omega
    · have := hs.1 e he
      simp only at this
      rw [s4]; split <;> omega
  · intro e he hec
    have hlt := hs.1 e he
    simp only at hlt
    by_cases hkc : k = c
    · rw [if_pos hkc] at hec; omega
    · rw [if_neg hkc] at hec
      exact h.below e (List.mem_cons_of_mem _ he) hec
  · intro k' hk' hK' i hi
    by_cases hkc : k = c
    · rw [if_pos hkc] at hk'
      rcases Nat.lt_or_ge k' c with hlt | hge
      · exact h.done k' hlt hK' i hi
      · have : k' = k := by omega
        subst this
        refine h.pushed _ hin i ?_
        simp only [hall, List.mem_range]; exact hi
    · rw [if_neg hkc] at hk'
      exact h.done k' hk' hK' i hi
  · rw [List.pairwise_append]
    refine ⟨h.dsorted, by simp, ?_⟩
    intro a ha b hb
    simp only [List.mem_singleton] at hb; subst hb
    exact (h.dlt a ha).2.2 _ hin
  · intro k0 hk0
    rcases List.mem_append.1 hk0 with hk0 | hk0
    · obtain ⟨a, b, d⟩ := h.dlt k0 hk0
      refine ⟨by split <;> omega, b, fun e he => d e (List.mem_cons_of_mem _ he)⟩
    · simp only [List.mem_singleton] at hk0; subst hk0
      refine ⟨by split <;> omega, hwin.2.2, fun e he => hs.1 e he⟩
  · intro k0 hK0 hD0 i0 hi0
    have hD1 : k0 ∉ D := fun hx => hD0 (List.mem_append_left _ hx)
    have hne : k0 ≠ k := fun hx => hD0 (List.mem_append_right _ (by simp [hx]))
    obtain ⟨js0, hjs0, hij0⟩ := h.held k0 hK0 hD1 i0 hi0
    rcases List.mem_cons.1 hjs0 with e | hjs0
    · exact absurd (Prod.mk.inj e).1 hne
    · exact ⟨js0, hjs0, hij0⟩

/-- a read on a refined state (I-DATA): as `SkipInv.read`. -/
theorem SkipInvM.read {S τ K q f c A P D} (h : SkipInvM S τ K q f c A P D) (hS : S.WF) (n : Nat) :
    ((q.read n).2.err ≠ .ok ∧ (q.read n).1 = q) ∨
    (∃ m, (q.read n).2.err = .ok ∧ (q.read n).2.ppi = (S.msg m).ppi ∧ (q.read n).2.data = (S.msg m).payload ∧
      (q.read n).1.nextMID = BitVec.ofNat 32 (if m = c then c + 1 else c) ∧
      ∃ A', SkipInvM S τ K (q.read n).1 ((q.read n).1.floorMID f (if m = c then c + 1 else c))
        (if m = c then c + 1 else c) A' P (D ++ [m])) := by
  have hfc := h.fc
  unfold Q.read
  cases hil : q.useInterleaving with
  | false =>
    left
    simp [h.un, h.od, ReadRes.tryAgain]
  | true =>
    simp only [↓reduceIte, h.um, h.tab.ord]
    cases hA : A with
    | nil => left; simp [ReadRes.tryAgain]
    | cons e rest =>
      obtain ⟨k, js⟩ := e
      subst hA
      have hin : (k, js) ∈ (k, js) :: rest := List.mem_cons_self ..
      have hwin := h.tab.win _ hin
      have hwf := h.tab.wf _ hin
      simp only at hwin hwf
      simp only [List.map_cons]
      by_cases hc : (S.concSetMID τ (k, js)).isComplete = true
      · simp only [hc, Bool.not_true, Bool.false_eq_true, ↓reduceIte]
        have hgt : sna32GT (S.concSetMID τ (k, js)).mid q.nextMID = decide (c < k) := by
          rw [h.cur]; simp only [Sender.concSetMID]
          exact sna32GT_ofNat _ _ (by omega) (by omega)
        rw [hgt]
        by_cases hck : c < k
        · left; simp [hck, ReadRes.tryAgain]
        · simp only [hck, decide_false, Bool.false_eq_true, ↓reduceIte]
          have hall : js = List.range (S.nf k) := (h.tab.complete_iff hS hin).1 hc
          have hnf := S.nf_pos hS hwin.2.2
          cases herr : (copyLoop (n : Int) (S.concSetMID τ (k, js)).chunks 0 false []).2.1 with
          | true => left; simp [herr]
          | false =>
            right
            have hdata := copyLoop_ok _ _ _ _ herr
            simp only [herr, Bool.false_eq_true, ↓reduceIte]
            have hcur' : (if (S.concSetMID τ (k, js)).mid == q.nextMID then q.nextMID + 1 else q.nextMID)
                = BitVec.ofNat 32 (if k = c then c + 1 else c) := by
              rw [h.cur]
              simp only [Sender.concSetMID]
              by_cases hkc : k = c
              · subst hkc
                simp only [beq_self_eq_true, ↓reduceIte]
                rw [BitVec.ofNat_add]; rfl
              · have : (BitVec.ofNat 32 k == BitVec.ofNat 32 c) = false := by
                  rw [beq_eq_false_iff_ne, ne_eq, ofNat32_eq_iff _ _ (by omega) (by omega)]; exact hkc
                simp only [this, Bool.false_eq_true, ↓reduceIte, hkc]
            refine ⟨k, trivial, ?_, ?_, ?_, rest, ?_⟩
            · have : 0 ∈ js := by rw [hall]; simp; omega
              simp [Sender.concSetMID, this]
            · rw [hdata]; simp only [Sender.concSetMID, List.nil_append, hall]
              exact idataFrags_payload S τ k
            · simpa [Q.subtractNumBytes] using hcur'
            · exact h.afterRead hS hall (by omega) _ (by simp [Q.subtractNumBytes, h.si]) (by simp [Q.subtractNumBytes, hil])
                (by simp [Q.subtractNumBytes, h.un]) (by simp [Q.subtractNumBytes, h.od]) (by simp [Q.subtractNumBytes])
                (by simpa [Q.subtractNumBytes] using hcur') (by simp [Q.subtractNumBytes])
      · left
        simp only [Bool.not_eq_true] at hc
        simp [hc, ReadRes.tryAgain]

/-- a skip on a refined state: exactly the incomplete sets at or below `L` leave the table, the cursor
moves to `max c (L + 1)`; under the honest-sender premise nothing of a message that is not abandoned leaves. -/
theorem SkipInvM.skip {S τ K q f c A P D} (h : SkipInvM S τ K q f c A P D) (hS : S.WF) {L : Nat}
    (hLlen : L < S.msgs.length) (hfL : f ≤ L) (hL : L + 1 < f + 2^31)
    (hprem : ∀ k, k < L + 1 → K k = false → ∀ i, i < S.nf k → (k, i) ∈ P) :
    SkipInvM S τ K (q.forwardTSNForOrderedMID (BitVec.ofNat 32 L)) f (max c (L + 1))
      (A.filter (fun e => !S.purgedEM τ L e)) P D := by
  have hfc := h.fc
  obtain ⟨r1, r2, r3, r4, r5⟩ := fwdOM_rest q (BitVec.ofNat 32 L)
  have hmemA : ∀ e, e ∈ A.filter (fun e => !S.purgedEM τ L e) → e ∈ A := fun e he => (List.mem_filter.1 he).1
  refine { si := by rw [r1, h.si], il := (fun hu => by rw [r2] at hu; rw [h.il hu]; rfl), un := by rw [r3, h.un],
           od := by rw [r4, h.od], um := by rw [r5, h.um], cur := ?_,
           tab := ?_, fc := by omega, pushed := fun e he => h.pushed e (hmemA e he),
           below := ?_, done := ?_, dsorted := h.dsorted, dlt := ?_, held := ?_ }
  · rw [fwdOM_nextMID, h.cur, sna32LTE_ofNat _ _ (by omega) (by omega)]
    by_cases hcl : c ≤ L
    · simp only [hcl, decide_true, ↓reduceIte]
      have : max c (L + 1) = L + 1 := by omega
      rw [this, BitVec.ofNat_add]; rfl
    · simp only [hcl, decide_false, Bool.false_eq_true, ↓reduceIte]
      have : max c (L + 1) = c := by omega
      rw [this]
  · rw [fwdOM_orderedMID]; exact h.tab.purge L hfL (by omega)
  · intro e he hec
    have heA := hmemA e he
    rcases Nat.lt_or_ge e.1 c with hlt | hge
    · exact h.below e heA hlt
    · have hkeep := (List.mem_filter.1 he).2
      have heL : e.1 ≤ L := by omega
      simp only [Sender.purgedEM, heL, decide_true, Bool.true_and, Bool.not_not] at hkeep
      exact (h.tab.complete_iff hS heA).1 hkeep
  · intro k hk hK i hi
    rcases Nat.lt_or_ge k c with hlt | hge
    · exact h.done k hlt hK i hi
    · exact hprem k (by omega) hK i hi
  · intro k hk
    obtain ⟨a, b, d⟩ := h.dlt k hk
    exact ⟨by omega, b, fun e he => d e (hmemA e he)⟩
  · intro k hK hD i hi
    obtain ⟨js, hjs, hij⟩ := h.held k hK hD i hi
    refine ⟨js, List.mem_filter.2 ⟨hjs, ?_⟩, hij⟩
    simp only [Sender.purgedEM, Bool.not_and, Bool.not_not, Bool.or_eq_true, Bool.not_eq_true',
      decide_eq_false_iff_not]
    rcases Nat.lt_or_ge L k with hlt | hge
    · left; omega
    · right
      apply (h.tab.complete_iff hS hjs).2
      have hwf := h.tab.wf _ hjs
      apply sorted_all_eq_range js (S.nf k) hwf.2.1 hwf.2.2
      intro i' hi'
      obtain ⟨js', hjs', hij'⟩ := h.held k hK hD i' (hprem k (by omega) hK i' hi')
      rw [tab_unique h.tab.sorted hjs hjs']; exact hij'

/-! ### the run theorem -/

/-- ✱ every admissible run keeps the invariant; the successful reads return exactly the messages `D'` that the
run appends to the delivered list. -/
theorem SkipInvM.run {S : Sender} (hS : S.WF) (K : Nat → Bool) (ops : List SOp) {q f c A P D}
    (h : SkipInvM S τ K q f c A P D) (hadm : S.AdmissibleS K (S.idataFr τ) q f c P ops) :
    ∃ f' c' A' P' D', SkipInvM S τ K ((S.idataFr τ).run q ops) f' c' A' P' (D ++ D') ∧
      (S.idataFr τ).deliveries q ops = D'.map (fun k => ((S.msg k).ppi, (S.msg k).payload)) ∧
      (∀ x, x ∈ P' ↔ x ∈ P ∨ x ∈ pushedS ops) ∧ c ≤ c' ∧ (∀ L ∈ skipsS ops, L < c') := by
  induction ops generalizing q f c A P D with
  | nil =>
    exact ⟨f, c, A, P, [], by simpa [Framing.run] using h, rfl, by simp [pushedS], Nat.le_refl _, by simp [skipsS]⟩
  | cons op ops ih =>
    cases op with
    | push k i =>
      simp only [Sender.AdmissibleS] at hadm
      obtain ⟨hk, hi, hP, hw, hlate, hok, hrest⟩ := hadm
      obtain ⟨A1, h1⟩ := h.push hS hk hi hP hw hlate hok
      obtain ⟨f', c', A', P', D', hinv, hdel, hP', hcc, hsk⟩ := ih h1 hrest
      refine ⟨f', c', A', P', D', hinv, hdel, ?_, hcc, hsk⟩
      intro x
      rw [hP' x]
      simp only [pushedS, List.mem_cons]
      constructor
      · rintro ((h | h) | h)
        · exact .inr (.inl h)
        · exact .inl h
        · exact .inr (.inr h)
      · rintro (h | h | h)
        · exact .inl (.inr h)
        · exact .inl (.inl h)
        · exact .inr h
    | read n =>
      simp only [Sender.AdmissibleS] at hadm
      simp only [Framing.deliveries]
      rcases h.read hS n with ⟨hne, hq⟩ | ⟨m, hok, hppi, hdata, hcur, A1, h1⟩
      · rw [if_neg hne]
        have hcs : (S.idataFr τ).cursor (q.read n).1 = (S.idataFr τ).cursor q := by rw [hq]
        rw [if_pos hcs] at hadm
        have hrun : (S.idataFr τ).run q (.read n :: ops) = (S.idataFr τ).run q ops := by
          simp only [Framing.run, List.foldl_cons, Framing.step]; rw [hq]
        rw [hrun]
        rw [hq] at hadm ⊢
        obtain ⟨f', c', A', P', D', hinv, hdel, hP', hcc, hsk⟩ := ih h.refloor hadm
        exact ⟨f', c', A', P', D', hinv, by simpa using hdel, by simpa [pushedS] using hP', hcc,
          by simpa [skipsS] using hsk⟩
      · rw [if_pos hok]
        have hcs : ((S.idataFr τ).cursor (q.read n).1 = (S.idataFr τ).cursor q) ↔ ¬ m = c := by
          simp only [Sender.idataFr]
          rw [hcur, h.cur]
          by_cases hmc : m = c
          · simp only [hmc, ↓reduceIte, not_true_eq_false, iff_false]
            intro hx
            exact ofNat32_succ_ne c (BitVec.eq_of_toNat_eq hx)
          · simp [hmc]
        have hc' : (if (S.idataFr τ).cursor (q.read n).1 = (S.idataFr τ).cursor q then c else c + 1)
            = (if m = c then c + 1 else c) := by
          by_cases hmc : m = c
          · rw [if_neg (by rw [hcs]; simpa using hmc), if_pos hmc]
          · rw [if_pos (hcs.2 hmc), if_neg hmc]
        rw [hc'] at hadm
        obtain ⟨f', c', A', P', D', hinv, hdel, hP', hcc, hsk⟩ := ih h1 hadm
        refine ⟨f', c', A', P', m :: D', ?_, ?_, by simpa [pushedS] using hP', ?_, by simpa [skipsS] using hsk⟩
        · have : D ++ m :: D' = D ++ [m] ++ D' := by simp
          rw [this]; exact hinv
        · rw [hdel, hppi, hdata]; rfl
        · split at hcc <;> omega
    | skip L =>
      simp only [Sender.AdmissibleS] at hadm
      obtain ⟨hLlen, hfL, hL, hprem, hrest⟩ := hadm
      have h1 := h.skip hS hLlen hfL hL ((S.allPushed_iff K P L).1 hprem)
      obtain ⟨f', c', A', P', D', hinv, hdel, hP', hcc, hsk⟩ := ih h1.refloor hrest
      refine ⟨f', c', A', P', D', hinv, hdel, by simpa [pushedS] using hP', by omega, ?_⟩
      intro L' hL'
      simp only [skipsS, List.mem_cons] at hL'
      rcases hL' with rfl | hL'
      · omega
      · exact hsk L' hL'

/-! ### what the invariant says about the state it describes -/

/-- nothing that is not abandoned is lost: a message all of whose fragments were handed over has been
delivered or sits complete in the queue. -/
theorem SkipInvM.kept {S τ K q f c A P D} (h : SkipInvM S τ K q f c A P D) (hS : S.WF) {k : Nat}
    (hk : k < S.msgs.length) (hK : K k = false) (hall : ∀ i, i < S.nf k → (k, i) ∈ P) :
    k ∈ D ∨ (k, List.range (S.nf k)) ∈ A := by
  by_cases hD : k ∈ D
  · exact .inl hD
  · right
    have hnf := S.nf_pos hS hk
    obtain ⟨js, hjs, _⟩ := h.held k hK hD 0 (hall 0 (by omega))
    have hwf := h.tab.wf _ hjs
    have : js = List.range (S.nf k) := by
      apply sorted_all_eq_range js (S.nf k) hwf.2.1 hwf.2.2
      intro i hi
      obtain ⟨js', hjs', hij'⟩ := h.held k hK hD i (hall i hi)
      rw [tab_unique h.tab.sorted hjs hjs']; exact hij'
    rw [← this]; exact hjs

/-- when the application has drained the queue (`isReadable = false`), every message at or below the cursor
that is not abandoned and was handed over completely HAS been delivered. -/
theorem SkipInvM.drained {S τ K q f c A P D} (h : SkipInvM S τ K q f c A P D) (hS : S.WF)
    (hnr : q.isReadable = false) {k : Nat} (hk : k < S.msgs.length) (hkc : k ≤ c) (hK : K k = false)
    (hall : ∀ i, i < S.nf k → (k, i) ∈ P) : k ∈ D := by
  rcases h.kept hS hk hK hall with hD | hA
  · exact hD
  · exfalso
    have hfc := h.fc
    have hil : q.useInterleaving = true := by
      cases hu : q.useInterleaving with
      | true => rfl
      | false => rw [h.il hu] at hA; cases hA
    unfold Q.isReadable at hnr
    simp only [hil, ↓reduceIte, h.um, List.length_nil, Nat.lt_irrefl, decide_false, Bool.false_eq_true,
      h.tab.ord] at hnr
    cases hAe : A with
    | nil => rw [hAe] at hA; cases hA
    | cons e rest =>
      rw [hAe] at hnr
      simp only [List.map_cons] at hnr
      have he : e ∈ A := by rw [hAe]; exact List.mem_cons_self ..
      have hwin := h.tab.win e he
      have hs := h.tab.sorted
      rw [hAe, List.pairwise_cons] at hs
      have hek : e.1 ≤ k := by
        rw [hAe] at hA
        rcases List.mem_cons.1 hA with e1 | hA
        · rw [← e1]; exact Nat.le_refl _
        · have := hs.1 _ hA; simp only at this; omega
      have hcomp : (S.concSetMID τ e).isComplete = true := by
        apply (h.tab.complete_iff hS he).2
        rcases Nat.lt_or_ge e.1 c with hlt | hge
        · exact h.below e he hlt
        · have hek' : e.1 = k := by omega
          have := tab_unique h.tab.sorted (k := k) (js1 := e.2) (js2 := List.range (S.nf k)) (by rw [← hek']; exact he) hA
          rw [this, hek']
      have hle : sna32LTE (S.concSetMID τ e).mid q.nextMID = true := by
        rw [h.cur]
        show sna32LTE (BitVec.ofNat 32 e.1) _ = true
        rw [sna32LTE_ofNat _ _ (by omega) (by omega)]
        simp; omega
      rw [hcomp, hle] at hnr
      cases hnr


end Reasm
