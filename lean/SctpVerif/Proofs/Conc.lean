import SctpVerif.Model.Conc
/-!
Lemmas for the lock graph (sink elimination is a sound acyclicity test) and for the
critical-section refinement (fine interleavings = sequences of whole sections).
-/
namespace Conc

/-! ## sink elimination -/

theorem not_sink_of_mem {es : List Edge} {a b : String} (h : (a, b) ∈ es) : isSink es a = false := by
  unfold isSink
  simp only [Bool.not_eq_false', List.any_eq_true]
  exact ⟨(a, b), h, by simp⟩

/-- if elimination succeeds there is a rank that strictly drops along every edge -/
theorem acyclicFuel_rank : ∀ (n : Nat) (es : List Edge), acyclicFuel n es = true →
    ∃ rk : String → Nat, ∀ e ∈ es, rk e.2 < rk e.1 := by
  intro n
  induction n with
  | zero =>
    intro es h
    cases es with
    | nil => exact ⟨fun _ => 0, by simp⟩
    | cons e es => simp [acyclicFuel] at h
  | succ n ih =>
    intro es h
    cases es with
    | nil => exact ⟨fun _ => 0, by simp⟩
    | cons e0 es0 =>
      simp only [acyclicFuel] at h
      obtain ⟨rk', hrk'⟩ := ih _ h
      refine ⟨fun v => if isSink (e0 :: es0) v then 0 else rk' v + 1, ?_⟩
      intro e he
      have h1 : isSink (e0 :: es0) e.1 = false := not_sink_of_mem (a := e.1) (b := e.2) (by simpa using he)
      simp only [h1]
      cases h2 : isSink (e0 :: es0) e.2 with
      | true => simp
      | false =>
        have : e ∈ elimStep (e0 :: es0) := by
          unfold elimStep
          simp only [List.mem_filter]
          exact ⟨he, by simp [h2]⟩
        have := hrk' e this
        simp only [Bool.false_eq_true, ↓reduceIte]
        omega

theorem reach_rank {es : List Edge} {rk : String → Nat} (hrk : ∀ e ∈ es, rk e.2 < rk e.1) {a b : String}
    (h : Reach es a b) : rk b < rk a := by
  induction h with
  | edge h => exact hrk _ h
  | step h _ ih => have := hrk _ h; simp only at this; omega

/-- **sound**: a graph that passes the test has no cycle (no vertex reaches itself) -/
theorem acyclic_sound {es : List Edge} (h : acyclic es = true) : ∀ v, ¬ Reach es v v := by
  intro v hv
  obtain ⟨rk, hrk⟩ := acyclicFuel_rank _ _ h
  have := reach_rank hrk hv
  omega

/-- in particular an edge and its reverse cannot both be present -/
theorem acyclic_no_inversion {es : List Edge} (h : acyclic es = true) {a b : String} (hab : (a, b) ∈ es) : (b, a) ∉ es := by
  intro hba
  exact acyclic_sound h a (.step hab (.edge hba))

/-! ## critical sections -/

theorem upd_upd {α : Type} (f : Nat → α) (t : Nat) (a b : α) : upd (upd f t a) t b = upd f t b := by
  funext i; unfold upd; split <;> rfl

theorem upd_same {α : Type} (f : Nat → α) (t : Nat) (a : α) : upd f t a t = a := by simp [upd]

theorem absSys_free {S L : Type} (y : Sys S L) (h : y.holder = none) : absSys y = y := by
  unfold absSys; rw [h]

/-- an acquisition is one coarse step under the abstraction -/
theorem fstep_abs_acq {S L : Type} (y y' : Sys S L) (t : Nat) (h : fstep y (.acq t) = some y') :
    cstep (absSys y) t = some (absSys y') := by
  simp only [fstep] at h
  split at h
  · rename_i hh hp
    simp only [Option.some.injEq] at h
    subst h
    simp only [absSys, hh, cstep, hp]
  · simp at h

/-- a micro-operation of the holder is invisible under the abstraction -/
theorem fstep_abs_op {S L : Type} (y y' : Sys S L) (t : Nat) (h : fstep y (.op t) = some y') :
    absSys y' = absSys y := by
  simp only [fstep] at h
  split at h
  · rename_i t' f fs hh
    split at h
    · rename_i ht
      subst ht
      simp only [Option.some.injEq] at h
      subst h
      simp only [absSys, hh, runOps, upd_same, upd_upd]
    · simp at h
  · simp at h

/-- so is the release -/
theorem fstep_abs_rel {S L : Type} (y y' : Sys S L) (t : Nat) (h : fstep y (.rel t) = some y') :
    absSys y' = absSys y := by
  simp only [fstep] at h
  split at h
  · rename_i t' hh
    split at h
    · rename_i ht
      subst ht
      simp only [Option.some.injEq] at h
      subst h
      simp only [absSys, hh, runOps]
      congr 1
      funext i; simp only [upd]; split
      · rename_i hi; rw [hi]
      · rfl
    · simp at h
  · simp at h

theorem frun_abs {S L : Type} : ∀ (es : List Ev) (y y' : Sys S L), frun y es = some y' →
    crun (absSys y) (acqs es) = some (absSys y') := by
  intro es
  induction es with
  | nil => intro y y' h; simp only [frun, Option.some.injEq] at h; subst h; simp [acqs, crun]
  | cons e es ih =>
    intro y y' h
    simp only [frun] at h
    split at h
    · rename_i y1 h1
      have := ih y1 y' h
      cases e with
      | acq t => simp only [acqs, crun]; rw [fstep_abs_acq y y1 t h1]; exact this
      | op t => simp only [acqs]; rw [← fstep_abs_op y y1 t h1]; exact this
      | rel t => simp only [acqs]; rw [← fstep_abs_rel y y1 t h1]; exact this
    · simp at h

end Conc
