import SctpVerif.Proofs.RecvQ.Pop
namespace RecvQ
open Gen Sna

/-! ## 7. clearTSNRange / advanceCumulativeTSN -/

theorem off_le_succ (t st : TSN) : (t - st).toNat ≤ (t - (st + 1)).toNat + 1 := by bv_omega

theorem getBit_clear (b : Array Bool) (p j : Nat) :
    getBit (setBit b p false) j = true ↔ (getBit b j = true ∧ p ≠ j) := by
  rw [getBit_setBit]
  constructor
  · intro h
    split at h
    · exact Bool.noConfusion h
    · rename_i hn
      refine ⟨h, fun hp => hn ⟨hp, ?_⟩⟩
      rw [hp]; exact getBit_lt h
  · intro ⟨h, hp⟩
    simp [hp, h]

theorem clearRange_size (W : Nat) (n : Nat) : ∀ (b : Array Bool) (s : Int) (st : TSN),
    (clearRange W b s st n).1.size = b.size := by
  induction n with
  | zero => intro b s st; rfl
  | succ n ih => intro b s st; simp only [clearRange]; rw [ih]; simp

/-- the bits that survive `clearRange` are those outside the cleared TSN range -/
theorem clearRange_bits (W : Nat) (n : Nat) : ∀ (b : Array Bool) (s : Int) (st : TSN) (j : Nat),
    getBit (clearRange W b s st n).1 j = true ↔
      (getBit b j = true ∧ ∀ t : TSN, (t - st).toNat < n → pos W t ≠ j) := by
  induction n with
  | zero =>
    intro b s st j
    simp only [clearRange]
    exact ⟨fun h => ⟨h, fun t ht => absurd ht (Nat.not_lt_zero _)⟩, fun h => h.1⟩
  | succ n ih =>
    intro b s st j
    simp only [clearRange]
    rw [ih, getBit_clear]
    constructor
    · intro ⟨⟨hb, hp⟩, hall⟩
      refine ⟨hb, fun t ht => ?_⟩
      by_cases h0 : (t - st).toNat = 0
      · have : t = st := off_eq st (by rw [h0, off_self])
        rw [this]; exact hp
      · apply hall
        rw [off_succ _ _ (by omega)]; omega
    · intro ⟨hb, hall⟩
      refine ⟨⟨hb, hall st (by rw [off_self]; omega)⟩, fun t ht => hall t ?_⟩
      have := off_le_succ t st
      omega

/-- `clearRange` keeps `size - (number of set bits)` unchanged -/
theorem clearRange_cnt (W : Nat) (n : Nat) : ∀ (b : Array Bool) (s : Int) (st : TSN),
    (clearRange W b s st n).2 - (cnt (clearRange W b s st n).1 : Int) = s - (cnt b : Int) := by
  induction n with
  | zero => intro b s st; rfl
  | succ n ih =>
    intro b s st
    simp only [clearRange]
    rw [ih]
    cases hb : getBit b (pos W st)
    · rw [cnt_setBit_false_of_false hb]; simp
    · have := cnt_setBit_false_of_true hb
      simp only [ite_true]; omega

/-- state after a partial advance -/
def advancedP (q : Q) (c : TSN) : Q :=
  let r := clearRange q.W q.bits q.size (q.cum + 1) (c - (q.cum + 1) + 1).toNat
  { q with bits := r.1, size := r.2, cum := c, tail := if r.2 == 0 then c else q.tail }

/-- state after a total advance (everything dropped) -/
def advancedT (q : Q) (c : TSN) : Q :=
  { q with bits := Array.replicate q.bits.size false, size := 0, cum := c, tail := c }

theorem advance_state (q : Q) (c : TSN) :
    advance q c = if sna32LT q.cum c then
                    (if q.size == 0 || sna32LTE q.tail c then advancedT q c else advancedP q c)
                  else q := by
  simp only [advance, advancedP, advancedT]
  cases sna32LT q.cum c <;> simp

theorem advancedT_inv {q : Q} (r : Ring q) (c : TSN) : Inv (advancedT q c) :=
  inv_empty (r.of_eq (by simp [advancedT]) rfl) rfl rfl (by intro i; simp [advancedT])

theorem lte_tail_iff (cum tail c : TSN) (h1 : (c - cum).toNat < 2^31) (h2 : (tail - cum).toNat ≤ 2^31) :
    sna32LTE tail c = true ↔ (tail - cum).toNat ≤ (c - cum).toNat := by
  rw [lte32_iff]; bv_omega

theorem clear_len (c cum : TSN) : (c - (cum + 1) + 1).toNat = (c - cum).toNat := by bv_omega

@[simp] theorem advancedP_W (q : Q) (c : TSN) : (advancedP q c).W = q.W := by
  simp [advancedP, Q.W, clearRange_size]
@[simp] theorem advancedP_cum (q : Q) (c : TSN) : (advancedP q c).cum = c := rfl
@[simp] theorem advancedP_maxOff (q : Q) (c : TSN) : (advancedP q c).maxOff = q.maxOff := rfl

theorem advancedP_bit {q : Q} (c : TSN) (j : Nat) :
    getBit (advancedP q c).bits j = true ↔
      (getBit q.bits j = true ∧ ∀ t : TSN, 1 ≤ (t - q.cum).toNat → (t - q.cum).toNat ≤ (c - q.cum).toNat →
         pos q.W t ≠ j) := by
  simp only [advancedP, clearRange_bits, clear_len]
  constructor
  · intro ⟨hb, hall⟩
    refine ⟨hb, fun t h1 h2 => hall t ?_⟩
    rw [off_succ _ _ h1]; omega
  · intro ⟨hb, hall⟩
    refine ⟨hb, fun t ht => ?_⟩
    have h3 := off_le_succ t q.cum
    by_cases h0 : (t - q.cum).toNat = 0
    · -- t = cum: then t - (cum+1) = 2^32-1, not < dc
      have : t = q.cum := off_eq q.cum (by rw [h0, off_self])
      rw [this] at ht
      have : (q.cum - (q.cum + 1)).toNat = 2^32 - 1 := by bv_omega
      have := (c - q.cum).isLt
      omega
    · apply hall t (by omega)
      rw [off_succ _ _ (by omega)] at ht; omega

/-- facts shared by the invariant and the abstraction lemma for the partial branch -/
theorem advancedP_facts {q : Q} (I : Inv q) (c : TSN) (hlt : (c - q.cum).toNat < dtail q)
    (hpos : 1 ≤ (c - q.cum).toNat) :
    (advancedP q c).size ≠ 0 ∧ (advancedP q c).tail = q.tail ∧
    dtail (advancedP q c) = dtail q - (c - q.cum).toNat ∧
    (advancedP q c).size = (cnt (advancedP q c).bits : Int) ∧
    getBit (advancedP q c).bits (pos q.W q.tail) = true := by
  obtain ⟨hb1, hb2⟩ := I.hb
  have hN := I.hmax
  have hs : q.size ≠ 0 := by
    intro h0; have := I.ht0 h0; simp only [dtail, this, off_self] at hlt; omega
  have ht := I.ht1 hs
  have hbit : getBit (advancedP q c).bits (pos q.W q.tail) = true := by
    rw [advancedP_bit]
    refine ⟨ht, fun t h1 h2 hp => ?_⟩
    have : t = q.tail := pos_inj I.hdvd q.cum t q.tail (by simp only [dtail] at *; omega)
      (by simp only [dtail] at *; omega) h1 (by simp only [dtail] at *; omega) hp
    rw [this] at h2; simp only [dtail] at hlt; omega
  have hcnt : (advancedP q c).size = (cnt (advancedP q c).bits : Int) := by
    have := clearRange_cnt q.W (c - (q.cum + 1) + 1).toNat q.bits q.size (q.cum + 1)
    have h2 := I.hcnt
    simp only [advancedP]; omega
  have hsn : (advancedP q c).size ≠ 0 := by
    rw [hcnt]; have := cnt_pos_of_getBit hbit; omega
  have htl : (advancedP q c).tail = q.tail := by
    have : ((advancedP q c).size == 0) = false := by simp [hsn]
    simp only [advancedP] at this ⊢
    rw [this]; rfl
  refine ⟨hsn, htl, ?_, hcnt, hbit⟩
  simp only [dtail, htl, advancedP_cum] at *
  exact off_rebase _ _ _ (by omega)

theorem advancedP_inv {q : Q} (I : Inv q) (c : TSN) (hlt : (c - q.cum).toNat < dtail q)
    (hpos : 1 ≤ (c - q.cum).toNat) : Inv (advancedP q c) := by
  obtain ⟨hsn, htl, hdt, hcnt, hbit⟩ := advancedP_facts I c hlt hpos
  obtain ⟨hb1, hb2⟩ := I.hb
  refine { toRing := I.toRing.of_eq (by simp [advancedP, clearRange_size]) rfl,
           hcnt := hcnt, hwin := ?_, ht0 := fun h => absurd h hsn, ht1 := ?_, hb := ?_ }
  · intro i hi
    rw [advancedP_bit] at hi
    obtain ⟨ho, hall⟩ := hi
    obtain ⟨t', h1', h2', h3'⟩ := I.hwin i ho
    have hgt : (c - q.cum).toNat < (t' - q.cum).toNat := by
      apply Classical.byContradiction; intro hle
      exact hall t' h1' (by omega) h3'
    refine ⟨t', ?_, ?_, by simpa using h3'⟩
    · rw [advancedP_cum, off_rebase _ _ _ (Nat.le_of_lt hgt)]; omega
    · rw [hdt, advancedP_cum, off_rebase _ _ _ (Nat.le_of_lt hgt)]; omega
  · intro _; rw [advancedP_W, htl]; exact hbit
  · rw [hdt, advancedP_maxOff]; omega

/-- offsets relative to the new cumulative point -/
theorem off_rebase_ge (t c c' : TSN) (h : (c' - c).toNat < 2^31)
    (h1 : 1 ≤ (t - c').toNat) (h2 : (t - c').toNat ≤ 2^31) :
    (c' - c).toNat < (t - c).toNat ∧ (t - c).toNat = (t - c').toNat + (c' - c).toNat := by
  bv_omega

theorem advancedP_held {q : Q} (I : Inv q) (c : TSN) (hlt : (c - q.cum).toNat < dtail q)
    (hpos : 1 ≤ (c - q.cum).toNat) (t' : TSN) :
    held (advancedP q c) t' ↔ (held q t' ∧ (c - q.cum).toNat < (t' - q.cum).toNat) := by
  obtain ⟨hsn, htl, hdt, hcnt, hbit⟩ := advancedP_facts I c hlt hpos
  obtain ⟨hb1, hb2⟩ := I.hb
  have hN := I.hmax
  simp only [held, hdt, advancedP_cum, advancedP_W, advancedP_bit]
  constructor
  · intro ⟨a1, a2, a3, _⟩
    obtain ⟨g1, g2⟩ := off_rebase_ge t' q.cum c (by omega) a1 (by omega)
    exact ⟨⟨by omega, by omega, a3⟩, g1⟩
  · intro ⟨⟨a1, a2, a3⟩, hgt⟩
    rw [off_rebase _ _ _ (Nat.le_of_lt hgt)]
    refine ⟨by omega, by omega, a3, fun t h1 h2 hp => ?_⟩
    have : t = t' := pos_inj I.hdvd q.cum t t' (by omega) (by omega) h1 a1 hp
    rw [this] at h2; omega

theorem lt_iff_off (cum c : TSN) : sna32LT cum c = true ↔ (1 ≤ (c - cum).toNat ∧ (c - cum).toNat < 2^31) := by
  rw [lt32_iff]; omega

theorem advance_inv {q : Q} (I : Inv q) (c : TSN) : Inv (advance q c) := by
  rw [advance_state]
  by_cases hl : sna32LT q.cum c = true
  · obtain ⟨hp, hlt⟩ := (lt_iff_off _ _).mp hl
    simp only [hl, ite_true]
    split
    · exact advancedT_inv I.toRing c
    · rename_i hcond
      simp only [Bool.or_eq_true, beq_iff_eq, not_or] at hcond
      have := mt (lte_tail_iff q.cum q.tail c hlt I.hb.2).mpr hcond.2
      exact advancedP_inv I c (by simp only [dtail]; omega) hp
  · simp only [hl, Bool.false_eq_true, ite_false]; exact I

/-- abstract effect of `advance` when the new point is ahead: offsets up to it are dropped -/
theorem advance_held {q : Q} (I : Inv q) (c : TSN) (hl : sna32LT q.cum c = true) (t' : TSN) :
    held (advance q c) t' ↔ (held q t' ∧ (c - q.cum).toNat < (t' - q.cum).toNat) := by
  rw [advance_state]
  obtain ⟨hp, hlt⟩ := (lt_iff_off _ _).mp hl
  simp only [hl, ite_true]
  split
  · rename_i hcond
    simp only [Bool.or_eq_true, beq_iff_eq] at hcond
    constructor
    · intro ⟨_, _, h⟩; simp [advancedT] at h
    · intro ⟨⟨a1, a2, a3⟩, hgt⟩
      exfalso
      rcases hcond with hs | hle
      · have := I.size_zero_bits hs (pos q.W t'); rw [a3] at this; exact Bool.noConfusion this
      · have := (lte_tail_iff q.cum q.tail c hlt I.hb.2).mp hle
        simp only [dtail] at a2; omega
  · rename_i hcond
    simp only [Bool.or_eq_true, beq_iff_eq, not_or] at hcond
    have := mt (lte_tail_iff q.cum q.tail c hlt I.hb.2).mpr hcond.2
    exact advancedP_held I c (by simp only [dtail]; omega) hp t'

theorem advance_cum (q : Q) (c : TSN) :
    (advance q c).cum = if sna32LT q.cum c then c else q.cum := by
  rw [advance_state]
  cases sna32LT q.cum c
  · rfl
  · simp only [ite_true]; split <;> rfl

end RecvQ
