import SctpVerif.Proofs.RecvQ.Mono
namespace RecvQ
open Gen Sna

/-! ## 13. shift invariance (C16 for this component) -/

theorem lte_shift (a b k : TSN) : sna32LTE (a + k) (b + k) = sna32LTE a b := by
  rw [Bool.eq_iff_iff, lte32_iff, lte32_iff, sub_shift32]
theorem gt_shift (a b k : TSN) : sna32GT (a + k) (b + k) = sna32GT a b := by
  rw [Bool.eq_iff_iff, gt32_iff, gt32_iff, sub_shift32]
theorem lt_shift (a b k : TSN) : sna32LT (a + k) (b + k) = sna32LT a b := by
  rw [Bool.eq_iff_iff, lt32_iff, lt32_iff, sub_shift32]

/-- shifting two TSNs by the same amount preserves whether they share a bit -/
theorem pos_shift_iff {W : Nat} (hW : 0 < W) (hd : 64 * W ∣ 2^32) (t u k : TSN) :
    pos W (t + k) = pos W (u + k) ↔ pos W t = pos W u := by
  rw [pos_add hd, pos_add hd, pos_eq, pos_eq]
  have hN : 0 < 64 * W := by omega
  constructor
  · intro h
    rw [Nat.add_comm t.toNat, Nat.add_comm u.toNat, Nat.add_mod k.toNat t.toNat, Nat.add_mod k.toNat u.toNat] at h
    have h' := Nat.mod_lt t.toNat hN
    have h'' := Nat.mod_lt u.toNat hN
    -- (k%N + t%N) % N = (k%N + u%N) % N with both residues < N
    exact mod_window_inj h' h'' h
  · intro h
    rw [Nat.add_mod, h, ← Nat.add_mod]

/-- `q'` is `q` with every TSN shifted by `k` (the bitmap is the same ring, rotated) -/
structure Shift (k : TSN) (q q' : Q) : Prop where
  cum  : q'.cum = q.cum + k
  tail : q'.tail = q.tail + k
  size : q'.size = q.size
  mo   : q'.maxOff = q.maxOff
  bsz  : q'.bits.size = q.bits.size
  dups : q'.dups = q.dups.map (· + k)
  bits : ∀ t, getBit q'.bits (pos q.W (t + k)) = getBit q.bits (pos q.W t)

theorem Shift.W {k : TSN} {q q' : Q} (h : Shift k q q') : q'.W = q.W := by simp [Q.W, h.bsz]

theorem shift_hasChunk {k : TSN} {q q' : Q} (h : Shift k q q') (t : TSN) :
    hasChunk q' (t + k) = hasChunk q t := by
  simp only [hasChunk, h.cum, h.tail, h.size, h.W, lte_shift, gt_shift, h.bits]

theorem shift_canPush {k : TSN} {q q' : Q} (h : Shift k q q') (t : TSN) :
    canPush q' (t + k) = canPush q t := by
  have e : q.cum + k + q.maxOff = q.cum + q.maxOff + k := by
    rw [BitVec.add_assoc, BitVec.add_comm k, ← BitVec.add_assoc]
  simp only [canPush, shift_hasChunk h, h.cum, h.mo, lte_shift, e, gt_shift]

/-- bit relation is preserved by writing the corresponding bits -/
theorem shift_setBit {k : TSN} {W : Nat} (hW : 0 < W) (hd : 64 * W ∣ 2^32) {b b' : Array Bool}
    (hs : b'.size = b.size) (hsz : b.size = 64 * W)
    (hb : ∀ t, getBit b' (pos W (t + k)) = getBit b (pos W t)) (u : TSN) (v : Bool) :
    ∀ t, getBit (setBit b' (pos W (u + k)) v) (pos W (t + k)) = getBit (setBit b (pos W u) v) (pos W t) := by
  intro t
  rw [getBit_setBit, getBit_setBit, hb t, hs, hsz]
  have l1 := pos_lt hW (u + k)
  have l2 := pos_lt hW u
  have hiff := pos_shift_iff hW hd u t k
  by_cases hp : pos W u = pos W t
  · rw [if_pos ⟨hiff.mpr hp, l1⟩, if_pos ⟨hp, l2⟩]
  · rw [if_neg (fun h => hp (hiff.mp h.1)), if_neg (fun h => hp h.1)]

theorem add_shift_comm (a b k : TSN) : a + k + b = a + b + k := by
  rw [BitVec.add_assoc, BitVec.add_comm k, ← BitVec.add_assoc]

theorem shift_push {k : TSN} {q q' : Q} (r : Ring q) (h : Shift k q q') (t : TSN) :
    (push q' (t + k)).2 = (push q t).2 ∧ Shift k (push q t).1 (push q' (t + k)).1 := by
  have e1 : sna32GT (t + k) (q'.cum + q'.maxOff) = sna32GT t (q.cum + q.maxOff) := by
    rw [h.cum, h.mo, add_shift_comm, gt_shift]
  have e2 : sna32LTE (t + k) q'.cum = sna32LTE t q.cum := by rw [h.cum, lte_shift]
  have e3 := shift_hasChunk h t
  have e4 : sna32GT (t + k) q'.tail = sna32GT t q.tail := by rw [h.tail, gt_shift]
  simp only [push, e1, e2, e3, e4]
  by_cases c1 : sna32GT t (q.cum + q.maxOff) = true
  · simp only [c1, ite_true]; exact ⟨by trivial, h⟩
  · by_cases c2 : (sna32LTE t q.cum || hasChunk q t) = true
    · simp only [c1, c2, ite_true, Bool.false_eq_true, ite_false]
      exact ⟨by trivial, ⟨h.cum, h.tail, h.size, h.mo, h.bsz, by simp [h.dups], h.bits⟩⟩
    · simp only [c1, c2, Bool.false_eq_true, ite_false]
      refine ⟨by trivial, ⟨h.cum, ?_, by simp [h.size], h.mo, by simp [h.bsz], h.dups, ?_⟩⟩
      · simp only [h.tail]; split <;> rfl
      · have hW' : Q.W { q with bits := setBit q.bits (pos q.W t) true, size := q.size + 1,
                                tail := if sna32GT t q.tail then t else q.tail } = q.W := by simp [Q.W]
        simp only [hW', h.W]
        exact shift_setBit r.hW r.hdvd h.bsz r.hsz h.bits t true

theorem shift_pop {k : TSN} {q q' : Q} (r : Ring q) (h : Shift k q q') (f : Bool) :
    (pop q' f).2 = (pop q f).2 ∧ Shift k (pop q f).1 (pop q' f).1 := by
  have hcum1 : q'.cum + 1 = q.cum + 1 + k := by rw [h.cum, add_shift_comm]
  have hc : hasChunk q' (q'.cum + 1) = hasChunk q (q.cum + 1) := by
    rw [hcum1, shift_hasChunk h]
  refine ⟨by rw [pop_ok, pop_ok, hc], ?_⟩
  rw [pop_state, pop_state, hc]
  split
  · refine ⟨hcum1, h.tail, by rw [popped_size, popped_size, h.size], h.mo, by simp [h.bsz], h.dups, ?_⟩
    rw [popped_W, popped_bits, popped_bits, h.W, hcum1]
    exact shift_setBit r.hW r.hdvd h.bsz r.hsz h.bits _ false
  · split
    · refine ⟨hcum1, ?_, h.size, h.mo, h.bsz, h.dups, h.bits⟩
      rw [forced_tail, forced_tail, h.size, hcum1, h.tail]; split <;> rfl
    · exact h

theorem shift_clearRange {k : TSN} {W : Nat} (hW : 0 < W) (hd : 64 * W ∣ 2^32) (n : Nat) :
    ∀ (b b' : Array Bool) (s : Int) (st : TSN), b'.size = b.size → b.size = 64 * W →
      (∀ t, getBit b' (pos W (t + k)) = getBit b (pos W t)) →
      (clearRange W b' s (st + k) n).2 = (clearRange W b s st n).2 ∧
      (∀ t, getBit (clearRange W b' s (st + k) n).1 (pos W (t + k)) = getBit (clearRange W b s st n).1 (pos W t)) := by
  induction n with
  | zero => intro b b' s st _ _ hb; exact ⟨rfl, hb⟩
  | succ n ih =>
    intro b b' s st hs hsz hb
    simp only [clearRange, hb st]
    rw [add_shift_comm st 1 k]
    exact ih _ _ _ _ (by simp [hs]) (by simp [hsz]) (shift_setBit hW hd hs hsz hb st false)

theorem shift_advance {k : TSN} {q q' : Q} (r : Ring q) (h : Shift k q q') (c : TSN) :
    Shift k (advance q c) (advance q' (c + k)) := by
  rw [advance_state, advance_state, h.cum, h.tail, h.size, lt_shift, lte_shift]
  split
  · split
    · exact ⟨rfl, rfl, rfl, h.mo, by simp [advancedT, h.bsz], h.dups, by intro t; simp [advancedT]⟩
    · have hn : (c + k - (q.cum + k + 1) + 1) = (c - (q.cum + 1) + 1) := by bv_omega
      obtain ⟨e1, e2⟩ := shift_clearRange (k := k) r.hW r.hdvd (c - (q.cum + 1) + 1).toNat q.bits q'.bits
        q.size (q.cum + 1) h.bsz r.hsz h.bits
      rw [← add_shift_comm q.cum 1 k] at e1 e2
      refine ⟨rfl, ?_, ?_, h.mo, ?_, h.dups, ?_⟩
      · simp only [advancedP, h.W, h.size, h.cum, h.tail, hn, e1]; split <;> rfl
      · simp only [advancedP, h.W, h.size, h.cum, hn, e1]
      · simp only [advancedP, clearRange_size, h.bsz]
      · simp only [advancedP, h.W, h.size, h.cum, hn]
        have : (advancedP q c).W = q.W := advancedP_W q c
        simp only [advancedP] at this
        rw [this]; exact e2
  · exact h

theorem shift_init {k : TSN} {q q' : Q} (h : Shift k q q') (c : TSN) :
    Shift k (init q c) (init q' (c + k)) :=
  ⟨rfl, rfl, rfl, h.mo, by simp [init, h.bsz], rfl, by intro t; simp [init]⟩

theorem shift_gapScan {k : TSN} {q q' : Q} (h : Shift k q q') (last n : Nat) : ∀ (d : Nat) (run : Option Nat),
    gapScan q' last n d run = gapScan q last n d run := by
  induction n with
  | zero => intro d run; rfl
  | succ n ih =>
    intro d run
    simp only [gapScan, h.W, h.cum]
    rw [add_shift_comm q.cum (BitVec.ofNat 32 d) k, h.bits]
    simp only [ih]

theorem shift_gaps {k : TSN} {q q' : Q} (h : Shift k q q') : gaps q' = gaps q := by
  have e1 : q.tail + k - (q.cum + k) = q.tail - q.cum := sub_shift32 _ _ _
  simp only [gaps, h.size, h.cum, h.tail, e1, add_shift_comm q.cum 1 k, lte_shift, shift_gapScan h]

/-- shifting an op -/
def shiftOp (k : TSN) : Op → Op
  | .init c => .init (c + k)
  | .push t => .push (t + k)
  | .pop f => .pop f
  | .adv c => .adv (c + k)
  | .data t st => .data (t + k) st
  | .fwd c => .fwd (c + k)
  | .sack => .sack

theorem shift_popLoopS {k : TSN} (n : Nat) : ∀ {s s' : St}, Ring s.q → Shift k s.q s'.q →
    Shift k (popLoopS n s).q (popLoopS n s').q := by
  induction n with
  | zero => intro s s' _ h; exact h
  | succ n ih =>
    intro s s' r h
    obtain ⟨e, h'⟩ := shift_pop r h false
    simp only [popLoopS, e]
    split
    · exact ih (r.of_eq (by
        show (pop s.q false).1.bits.size = _
        rw [pop_state]; split
        · simp
        · rfl) (pop_maxOff _ _)) h'
    · exact h

theorem shift_step {k : TSN} {s s' : St} (g : GInv s) (h : Shift k s.q s'.q) (op : Op) :
    Shift k (step s op).q (step s' (shiftOp k op)).q := by
  have r := g.inv.toRing
  cases op with
  | init c => exact shift_init h c
  | push t => exact (shift_push r h t).2
  | pop f => exact (shift_pop r h f).2
  | adv c => exact shift_advance r h c
  | data t st =>
    simp only [step, shiftOp, sData, popAllS, shift_canPush h]
    split
    · have h1 : Shift k (sPush s t).q (sPush s' (t + k)).q := (shift_push r h t).2
      rw [h1.size]; exact shift_popLoopS _ (sPush_ginv g t).inv.toRing h1
    · rw [h.size]; exact shift_popLoopS _ r h
  | fwd c =>
    simp only [step, shiftOp, sFwd, popAllS, h.cum, lte_shift]
    split
    · exact h
    · have h1 : Shift k (sAdv s c).q (sAdv s' (c + k)).q := shift_advance r h c
      rw [h1.size]; exact shift_popLoopS _ (sAdv_ginv g c).inv.toRing h1
  | sack => exact ⟨h.cum, h.tail, h.size, h.mo, h.bsz, rfl, h.bits⟩

theorem shift_start (m c k : TSN) : Shift k (start m c).q (start m (c + k)).q :=
  ⟨rfl, rfl, rfl, rfl, rfl, rfl, by intro t; simp [start, sInit, init]⟩

theorem shift_run {k : TSN} (ops : List Op) : ∀ {s s' : St}, GInv s → Shift k s.q s'.q →
    Shift k (run s ops).q (run s' (ops.map (shiftOp k))).q := by
  induction ops with
  | nil => intro s s' _ h; exact h
  | cons op ops ih => intro s s' g h; exact ih (step_ginv g op) (shift_step g h op)

end RecvQ
