import SctpVerif.Proofs.RecvQ.Mono
/-!
The number of UNSET slots of the receive queue — offsets `1 … tail−cum` above the cumulative point whose TSN has
not been received. It is the potential behind the memory bound (C11): at zero credit the association stores a
chunk only into such a slot, and no operation other than storing a chunk above the highest TSN received makes
their number grow.
-/
namespace RecvQ
open Gen Sna

instance (q : Q) (d : Nat) : Decidable (heldAt q d) := by unfold heldAt; infer_instance

/-! ### counting over an initial segment of the naturals -/

def cntRange (p : Nat → Bool) (n : Nat) : Nat := (List.range n).countP p

theorem cntRange_zero (p : Nat → Bool) : cntRange p 0 = 0 := rfl

theorem cntRange_succ (p : Nat → Bool) (n : Nat) : cntRange p (n + 1) = cntRange p n + (if p n then 1 else 0) := by
  simp [cntRange, List.range_succ, List.countP_append, List.countP_cons]

theorem cntRange_le (p : Nat → Bool) (n : Nat) : cntRange p n ≤ n := by
  induction n with
  | zero => simp [cntRange_zero]
  | succ n ih => rw [cntRange_succ]; split <;> omega

theorem cntRange_congr (p p' : Nat → Bool) (n : Nat) (h : ∀ d, d < n → p d = p' d) : cntRange p n = cntRange p' n := by
  induction n with
  | zero => rfl
  | succ n ih =>
    rw [cntRange_succ, cntRange_succ, ih (fun d hd => h d (by omega)), h n (by omega)]

theorem cntRange_mono_n (p : Nat → Bool) (n m : Nat) (h : n ≤ m) : cntRange p n ≤ cntRange p m := by
  induction m with
  | zero => have : n = 0 := by omega
            subst this; exact Nat.le_refl _
  | succ m ih =>
    rcases Nat.lt_or_ge n (m + 1) with hlt | hge
    · rw [cntRange_succ]; have := ih (by omega); omega
    · have : n = m + 1 := by omega
      subst this; exact Nat.le_refl _

/-- one index flips from counted to not counted -/
theorem cntRange_flip (p p' : Nat → Bool) (n j : Nat) (hj : j < n) (hp : p j = true) (hp' : p' j = false)
    (h : ∀ d, d < n → d ≠ j → p' d = p d) : cntRange p' n + 1 = cntRange p n := by
  induction n with
  | zero => omega
  | succ n ih =>
    rw [cntRange_succ, cntRange_succ]
    rcases Nat.lt_or_ge j n with hlt | hge
    · have := ih hlt (fun d hd hne => h d (by omega) hne)
      rw [h n (by omega) (by omega)]
      omega
    · have hjn : j = n := by omega
      subst hjn
      rw [hp, hp', cntRange_congr p' p j (fun d hd => h d (by omega) (by omega))]
      simp

/-- an index that is not counted -/
theorem cntRange_lt (p : Nat → Bool) (n j : Nat) (hj : j < n) (hp : p j = false) : cntRange p n + 1 ≤ n := by
  induction n with
  | zero => omega
  | succ n ih =>
    rw [cntRange_succ]
    rcases Nat.lt_or_ge j n with hlt | hge
    · have := ih hlt; split <;> omega
    · have hjn : j = n := by omega
      subst hjn
      rw [hp]; have := cntRange_le p j; simp; omega

/-- dropping the first `e` indices -/
theorem cntRange_shift (p : Nat → Bool) (n e : Nat) : cntRange (fun d => p (d + e)) (n - e) ≤ cntRange p n := by
  rcases Nat.lt_or_ge n e with hlt | hge
  · have : n - e = 0 := by omega
    rw [this]; simp [cntRange_zero]
  · have hn : n = e + (n - e) := by omega
    generalize n - e = m at hn
    subst hn
    induction m with
    | zero => simp [cntRange_zero]
    | succ m ih =>
      rw [cntRange_succ, show e + (m + 1) = (e + m) + 1 by omega, cntRange_succ]
      have hih := ih (by omega)
      have : p (m + e) = p (e + m) := by rw [Nat.add_comm]
      simp only [this]
      omega

/-- dropping index 0 when it is not counted -/
theorem cntRange_shift_one (p : Nat → Bool) (n : Nat) (hn : 1 ≤ n) (h0 : p 0 = false) :
    cntRange (fun d => p (d + 1)) (n - 1) = cntRange p n := by
  have hn' : n = (n - 1) + 1 := by omega
  generalize n - 1 = m at hn'
  subst hn'
  clear hn
  induction m with
  | zero => simp [cntRange_succ, cntRange_zero, h0]
  | succ m ih => rw [cntRange_succ, cntRange_succ (n := m + 1), ih]

/-! ### unset slots -/

/-- number of offsets `1 … tail−cum` that are not held -/
def unset (q : Q) : Nat := cntRange (fun d => decide (¬ heldAt q (d + 1))) (dtail q)

theorem unset_le (q : Q) : unset q ≤ dtail q := cntRange_le _ _

/-- the highest slot is held, so at most `tail−cum−1` slots are unset -/
theorem unset_lt {q : Q} (I : Inv q) (hs : q.size ≠ 0) : unset q + 1 ≤ dtail q := by
  have hp := I.dtail_pos hs
  have ht := heldAt_tail I hs
  apply cntRange_lt _ _ (dtail q - 1) (by omega)
  rw [show dtail q - 1 + 1 = dtail q by omega]
  simp [ht]

theorem unset_empty {q : Q} (I : Inv q) (hs : q.size = 0) : unset q = 0 := by
  have : dtail q = 0 := by simp [dtail, I.ht0 hs, off_self]
  simp [unset, this, cntRange_zero]

theorem unset_bound {q : Q} (I : Inv q) (hm : 1 ≤ q.maxOff.toNat) : unset q + 1 ≤ q.maxOff.toNat := by
  by_cases hs : q.size = 0
  · rw [unset_empty I hs]; omega
  · have := unset_lt I hs; have := I.hb.1; omega

/-- `dtail` after an accepted push -/
theorem dtail_push {q : Q} (I : Inv q) (t : TSN) (hr : (push q t).2 = true) :
    dtail (push q t).1 = max (dtail q) (t - q.cum).toNat := by
  obtain ⟨⟨a1, a2, a3, a4⟩, _⟩ := (push_accept_iff I t).mp hr
  rw [push_accept_state t hr]
  have hb := I.hb
  simp only [dtail, pushed_tail, pushed_cum] at *
  by_cases hg : sna32GT t q.tail = true
  · rw [if_pos hg]
    have := (gt32_iff t q.tail).mp hg
    have e : (t - q.tail).toNat = (t - q.cum).toNat - (q.tail - q.cum).toNat ∨ True := Or.inr trivial
    have : (q.tail - q.cum).toNat ≤ (t - q.cum).toNat := by bv_omega
    omega
  · rw [if_neg hg]
    have hng : ¬ (0 < (t - q.tail).toNat ∧ (t - q.tail).toNat ≤ 2^31) := fun h => hg ((gt32_iff t q.tail).mpr h)
    have : (t - q.cum).toNat ≤ (q.tail - q.cum).toNat := by bv_omega
    omega

/-- ✱ a chunk stored into a gap (at or below the highest TSN received) uses up one unset slot -/
theorem unset_push_gap {q : Q} (I : Inv q) (t : TSN) (hr : (push q t).2 = true) (hle : (t - q.cum).toNat ≤ dtail q) :
    unset (push q t).1 + 1 = unset q := by
  obtain ⟨⟨a1, _, _, _⟩, hnh⟩ := (push_accept_iff I t).mp hr
  have hnh' : ¬ heldAt q (t - q.cum).toNat := fun h => hnh ((held_iff_heldAt t).mpr h)
  have hd : dtail (push q t).1 = dtail q := by rw [dtail_push I t hr]; omega
  unfold unset
  rw [hd]
  apply cntRange_flip _ _ (dtail q) ((t - q.cum).toNat - 1) (by omega)
  · show decide (¬ heldAt q ((t - q.cum).toNat - 1 + 1)) = true
    rw [show (t - q.cum).toNat - 1 + 1 = (t - q.cum).toNat by omega]
    exact decide_eq_true hnh'
  · show decide (¬ heldAt (push q t).1 ((t - q.cum).toNat - 1 + 1)) = false
    rw [show (t - q.cum).toNat - 1 + 1 = (t - q.cum).toNat by omega]
    exact decide_eq_false (fun hn => hn ((push_heldAt I t hr _).mpr (Or.inr rfl)))
  · intro d _ hne
    have : d + 1 ≠ (t - q.cum).toNat := by omega
    simp only [push_heldAt I t hr, this, or_false]

/-- ✱ after any accepted push the unset slots are fewer than the tracking window -/
theorem unset_push_any {q : Q} (I : Inv q) (t : TSN) (hr : (push q t).2 = true) :
    unset (push q t).1 + 1 ≤ q.maxOff.toNat := by
  have I' := push_inv I t
  have hs : (push q t).1.size ≠ 0 := by
    rw [push_accept_state t hr, pushed_size]; have := I.size_nonneg; omega
  have := unset_lt I' hs
  have := I'.hb.1
  rw [push_maxOff] at this
  omega

/-- ✱ a successful pop keeps the number of unset slots -/
theorem unset_pop {q : Q} (I : Inv q) (hok : (pop q false).2 = true) : unset (pop q false).1 = unset q := by
  rw [pop_ok] at hok
  have hh := (hasChunk_iff I _).mp hok
  have hst : (pop q false).1 = popped q := by rw [pop_state, hok]; rfl
  have h1 : heldAt q 1 := by
    have := (held_iff_heldAt (q := q) (q.cum + 1)).mp hh; rwa [off_one] at this
  have hdp : 1 ≤ dtail q := h1.2.1
  rw [hst]
  unfold unset
  rw [dtail_popped hdp]
  rw [← cntRange_shift_one (fun d => decide (¬ heldAt q (d + 1))) (dtail q) hdp (by simp [h1])]
  apply cntRange_congr
  intro d _
  simp only [popped_heldAt I hh (d + 1) (by omega)]

theorem unset_popLoop (n : Nat) : ∀ {s : St}, Inv s.q → unset (popLoopS n s).q = unset s.q := by
  induction n with
  | zero => intro s _; rfl
  | succ n ih =>
    intro s I
    simp only [popLoopS]
    split
    · rename_i hok
      have := ih (s := sPop s false) (pop_inv I false)
      rw [this]
      exact unset_pop I hok
    · rfl

/-- ✱ FORWARD-TSN never adds unset slots -/
theorem unset_advance {q : Q} (I : Inv q) (c : TSN) : unset (advance q c) ≤ unset q := by
  by_cases hl : sna32LT q.cum c = true
  · obtain ⟨hp, hlt⟩ := (lt_iff_off _ _).mp hl
    have hcum : (advance q c).cum = c := by rw [advance_cum, hl]; rfl
    have hdt := advance_dtail I c
    rw [hcum] at hdt
    have hb := I.hb
    have hdle : dtail (advance q c) ≤ dtail q - (c - q.cum).toNat := by
      rw [advance_state, hl] at *
      simp only [ite_true] at *
      split
      · simp [dtail, advancedT, off_self]
      · rename_i hcond
        simp only [Bool.or_eq_true, beq_iff_eq, not_or] at hcond
        have := mt (lte_tail_iff q.cum q.tail c hlt I.hb.2).mpr hcond.2
        obtain ⟨_, _, hdt', _⟩ := advancedP_facts I c (by simp only [dtail]; omega) hp
        rw [hdt']; exact Nat.le_refl _
    unfold unset
    calc cntRange (fun d => decide (¬ heldAt (advance q c) (d + 1))) (dtail (advance q c))
        ≤ cntRange (fun d => decide (¬ heldAt (advance q c) (d + 1))) (dtail q - (c - q.cum).toNat) :=
          cntRange_mono_n _ _ _ hdle
      _ = cntRange (fun d => (fun d' => decide (¬ heldAt q (d' + 1))) (d + (c - q.cum).toNat)) (dtail q - (c - q.cum).toNat) := by
          apply cntRange_congr
          intro d _
          simp only [advance_heldAt I c hl (d + 1) (by omega)]
          rw [show d + 1 + (c - q.cum).toNat = d + (c - q.cum).toNat + 1 by omega]
      _ ≤ cntRange (fun d' => decide (¬ heldAt q (d' + 1))) (dtail q) :=
          cntRange_shift (fun d' => decide (¬ heldAt q (d' + 1))) (dtail q) (c - q.cum).toNat
  · have : advance q c = q := by rw [advance_state, Bool.eq_false_iff.mpr hl]; rfl
    rw [this]; exact Nat.le_refl _

/-- `popDuplicates` does not touch the bitmap -/
theorem unset_popDuplicates (q : Q) : unset (popDuplicates q).1 = unset q := rfl

end RecvQ
