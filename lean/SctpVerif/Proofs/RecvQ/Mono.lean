import SctpVerif.Proofs.RecvQ.Gaps
namespace RecvQ
open Gen Sna

/-! ## 11. movement of the cumulative point (S3) and the pop loop -/

theorem push_maxOff (q : Q) (t : TSN) : (push q t).1.maxOff = q.maxOff := by
  simp only [push]; split
  · rfl
  · split <;> rfl

theorem pop_maxOff (q : Q) (f : Bool) : (pop q f).1.maxOff = q.maxOff := by
  rw [pop_state]; split
  · rfl
  · split <;> rfl

theorem advance_maxOff (q : Q) (c : TSN) : (advance q c).maxOff = q.maxOff := by
  rw [advance_state]; split
  · split <;> rfl
  · rfl

theorem push_cum (q : Q) (t : TSN) : (push q t).1.cum = q.cum := by
  simp only [push]; split
  · rfl
  · split <;> rfl

/-- what one step does to the ghost clock: the origin stays, the clock never runs backwards -/
structure Fwd (s s' : St) (bound : Nat) : Prop where
  c0   : s'.h.c0 = s.h.c0
  mono : s.h.A ≤ s'.h.A
  bnd  : s'.h.A - s.h.A ≤ bound
  mo   : s'.q.maxOff = s.q.maxOff

theorem Fwd.refl (s : St) : Fwd s s 0 := ⟨rfl, Nat.le_refl _, by omega, rfl⟩

theorem Fwd.trans {s s' s'' : St} {b b' : Nat} (h : Fwd s s' b) (h' : Fwd s' s'' b') : Fwd s s'' (b + b') :=
  ⟨h'.c0.trans h.c0, Nat.le_trans h.mono h'.mono, by have := h.bnd; have := h'.bnd; have := h.mono; have := h'.mono; omega,
   h'.mo.trans h.mo⟩

theorem Fwd.weaken {s s' : St} {b b' : Nat} (h : Fwd s s' b) (hb : b ≤ b') : Fwd s s' b' :=
  ⟨h.c0, h.mono, Nat.le_trans h.bnd hb, h.mo⟩

theorem sPush_fwd (s : St) (t : TSN) : Fwd s (sPush s t) 0 :=
  ⟨rfl, Nat.le_refl _, by simp [sPush], push_maxOff _ _⟩

theorem pop_delta (q : Q) (f : Bool) : ((pop q f).1.cum - q.cum).toNat ≤ 1 := by
  rw [pop_state]; split
  · rw [popped_cum, off_one]; omega
  · split
    · rw [forced_cum, off_one]; omega
    · rw [off_self]; omega

theorem sPop_fwd (s : St) (f : Bool) : Fwd s (sPop s f) 1 :=
  ⟨rfl, by simp [sPop], by have := pop_delta s.q f; simp only [sPop]; omega, pop_maxOff _ _⟩

theorem advance_delta (q : Q) (c : TSN) : ((advance q c).cum - q.cum).toNat < 2^31 := by
  rw [advance_cum]
  by_cases hl : sna32LT q.cum c = true
  · rw [hl]; exact ((lt_iff_off _ _).mp hl).2
  · rw [Bool.eq_false_iff.mpr hl]; simp only [Bool.false_eq_true, ite_false]; rw [off_self]; omega

theorem sAdv_fwd (s : St) (c : TSN) : Fwd s (sAdv s c) (2^31 - 1) :=
  ⟨rfl, by simp [sAdv], by have := advance_delta s.q c; simp only [sAdv]; omega, advance_maxOff _ _⟩

/-- each successful pop moves the clock by one and the tail distance by minus one -/
theorem popLoopS_pot (n : Nat) : ∀ {s : St}, Inv s.q →
    Fwd s (popLoopS n s) (dtail s.q) ∧
    (popLoopS n s).h.A + dtail (popLoopS n s).q = s.h.A + dtail s.q := by
  induction n with
  | zero => intro s _; exact ⟨(Fwd.refl s).weaken (by omega), rfl⟩
  | succ n ih =>
    intro s I
    simp only [popLoopS]
    split
    · rename_i hok
      rw [pop_ok] at hok
      have hh := (hasChunk_iff I _).mp hok
      have hst : (pop s.q false).1 = popped s.q := by rw [pop_state, hok]; rfl
      have hq : (sPop s false).q = popped s.q := hst
      have hd1 : 1 ≤ dtail s.q := by have := hh.2.1; rw [off_one] at this; exact this
      have hA : (sPop s false).h.A = s.h.A + 1 := by
        simp only [sPop, hst, popped_cum, off_one]
      obtain ⟨f, e⟩ := ih (s := sPop s false) (by rw [hq]; exact popped_inv I hh)
      rw [hq, dtail_popped hd1] at f e
      refine ⟨⟨f.c0, by have := f.mono; omega, by have := f.bnd; have := f.mono; omega,
        f.mo.trans (pop_maxOff _ _)⟩, by omega⟩
    · exact ⟨(Fwd.refl s).weaken (by omega), rfl⟩

theorem popAllS_fwd {s : St} (I : Inv s.q) : Fwd s (popAllS s) (dtail s.q) := (popLoopS_pot _ I).1

theorem advance_dtail {q : Q} (I : Inv q) (c : TSN) :
    dtail (advance q c) + ((advance q c).cum - q.cum).toNat ≤ max (2^31 - 1) (dtail q) := by
  have hd := advance_delta q c
  rw [advance_state] at hd ⊢
  by_cases hl : sna32LT q.cum c = true
  · obtain ⟨hp, hlt⟩ := (lt_iff_off _ _).mp hl
    simp only [hl, ite_true] at hd ⊢
    split
    · have : dtail (advancedT q c) = 0 := by simp only [dtail, advancedT, off_self]
      rw [this]
      have : (advancedT q c).cum = c := rfl
      rw [this]; omega
    · rename_i hcond
      simp only [Bool.or_eq_true, beq_iff_eq, not_or] at hcond
      have := mt (lte_tail_iff q.cum q.tail c hlt I.hb.2).mpr hcond.2
      obtain ⟨_, _, hdt, _⟩ := advancedP_facts I c (by simp only [dtail]; omega) hp
      rw [hdt, advancedP_cum]; simp only [dtail] at *; omega
  · rw [Bool.eq_false_iff.mpr hl]; simp only [Bool.false_eq_true, ite_false]; rw [off_self]; omega

/-- S3 for one step: any op other than `init` keeps the origin and moves the clock forward by at
most `max (2^31-1) maxOff` (primitive ops: by less than 2^31). -/
theorem step_fwd {s : St} (g : GInv s) (op : Op) (hop : ∀ c, op ≠ .init c) :
    Fwd s (step s op) (max (2^31 - 1) s.q.maxOff.toNat) := by
  have I := g.inv
  cases op with
  | init c => exact absurd rfl (hop c)
  | push t => exact (sPush_fwd s t).weaken (by omega)
  | pop f => exact (sPop_fwd s f).weaken (by omega)
  | adv c => exact (sAdv_fwd s c).weaken (by omega)
  | data t st =>
    simp only [step, sData]
    split
    · have g1 := sPush_ginv g t
      have f2 := popAllS_fwd g1.inv
      have := g1.inv.hb.1
      have hm : (sPush s t).q.maxOff = s.q.maxOff := push_maxOff _ _
      rw [hm] at this
      exact ((sPush_fwd s t).trans f2).weaken (by omega)
    · have := I.hb.1
      exact (popAllS_fwd I).weaken (by omega)
  | fwd c =>
    simp only [step, sFwd]
    split
    · exact (Fwd.refl s).weaken (by omega)
    · have g1 := sAdv_ginv g c
      have f2 := popAllS_fwd g1.inv
      have hd := advance_dtail I c
      have hb := I.hb.1
      have hA : (sAdv s c).h.A = s.h.A + ((advance s.q c).cum - s.q.cum).toNat := rfl
      have hq : (sAdv s c).q = advance s.q c := rfl
      rw [hq] at f2
      refine ⟨f2.c0, by have := f2.mono; omega, ?_, f2.mo.trans (advance_maxOff _ _)⟩
      have := f2.bnd; have := f2.mono
      omega
  | sack => exact ⟨rfl, Nat.le_refl _, by simp [step], rfl⟩

/-- the pop loop really runs to completion: afterwards `pop(false)` fails, i.e. the state is
"pop-normalised" — the TSN right after the cumulative point is not held. -/
theorem popLoopS_done (n : Nat) : ∀ {s : St}, Inv s.q → s.q.size ≤ n →
    hasChunk (popLoopS n s).q ((popLoopS n s).q.cum + 1) = false := by
  induction n with
  | zero =>
    intro s I hn
    have h0 : s.q.size = 0 := by have := I.size_nonneg; omega
    simp [popLoopS, hasChunk, h0]
  | succ n ih =>
    intro s I hn
    simp only [popLoopS]
    split
    · rename_i hok
      rw [pop_ok] at hok
      have hh := (hasChunk_iff I _).mp hok
      have hst : (sPop s false).q = popped s.q := by
        show (pop s.q false).1 = _; rw [pop_state, hok]; rfl
      apply ih (by rw [hst]; exact popped_inv I hh)
      rw [hst, popped_size]; omega
    · rename_i hok
      rw [pop_ok] at hok
      exact Bool.eq_false_iff.mpr hok

theorem popAllS_done {s : St} (I : Inv s.q) :
    hasChunk (popAllS s).q ((popAllS s).q.cum + 1) = false :=
  popLoopS_done _ I (by have := I.size_nonneg; omega)

/-- pop-normalised states: offset 1 is not held … -/
theorem normalised_iff {q : Q} (I : Inv q) : hasChunk q (q.cum + 1) = false ↔ ¬ heldAt q 1 := by
  rw [← Bool.not_eq_true, hasChunk_iff I, held_iff_heldAt, off_one]

/-- … and then every gap block starts at offset 2 or later -/
theorem gapsNat_start {q : Q} (I : Inv q) (hn : ¬ heldAt q 1) : ∀ p ∈ gapsNat q, 2 ≤ p.1 := by
  intro p hp
  obtain ⟨h1, h2, _, h4⟩ := (gapsNat_spec I).1 p hp
  have hh := h4 p.1 (Nat.le_refl _) h2
  apply Classical.byContradiction; intro hlt
  have : p.1 = 1 := by omega
  rw [this] at hh; exact hn hh

end RecvQ
