import SctpVerif.Proofs.RecvQ.Gaps
namespace RecvQ
open Gen Sna

/-! ## 11. movement of the cumulative point (S3) and the pop loop -/

theorem push_maxOff (q : Q) (t : TSN) : (push q t).1.maxOff = q.maxOff := by
  simp only [push]; split
  · rfl
  · split <;> rfl

theorem pop_maxOff (q : Q) (f : Bool) : (pop q f).1.maxOff = q.maxOff := by
  rw [pop_state]; split
  · rfl
  · split <;> rfl

theorem advance_maxOff (q : Q) (c : TSN) : (advance q c).maxOff = q.maxOff := by
  rw [advance_state]; split
  · split <;> rfl
  · rfl

theorem push_cum (q : Q) (t : TSN) : (push q t).1.cum = q.cum := by
  simp only [push]; split
  · rfl
  · split <;> rfl

/-- what one step does to the ghost clock: the origin stays, the clock never runs backwards -/
structure Fwd (s s' : St) (bound : Nat) : Prop where
  c0   : s'.h.c0 = s.h.c0
  mono : s.h.A ≤ s'.h.A
  bnd  : s'.h.A - s.h.A ≤ bound
  mo   : s'.q.maxOff = s.q.maxOff

theorem Fwd.refl (s : St) : Fwd s s 0 := ⟨rfl, Nat.le_refl _, by omega, rfl⟩

theorem Fwd.trans {s s' s'' : St} {b b' : Nat} (h : Fwd s s' b) (h' : Fwd s' s'' b') : Fwd s s'' (b + b') :=
  ⟨h'.c0.trans h.c0, Nat.le_trans h.mono h'.mono, by have := h.bnd; have := h'.bnd; have := h.mono; have := h'.mono; omega,
   h'.mo.trans h.mo⟩

theorem Fwd.weaken {s s' : St} {b b' : Nat} (h : Fwd s s' b) (hb : b ≤ b') : Fwd s s' b' :=
  ⟨h.c0, h.mono, Nat.le_trans h.bnd hb, h.mo⟩

theorem sPush_fwd (s : St) (t : TSN) : Fwd s (sPush s t) 0 :=
  ⟨rfl, Nat.le_refl _, by simp [sPush], push_maxOff _ _⟩

theorem pop_delta (q : Q) (f : Bool) : ((pop q f).1.cum - q.cum).toNat ≤ 1 := by
  rw [pop_state]; split
  · rw [popped_cum, off_one]; omega
  · split
    · rw [forced_cum, off_one]; omega
    · rw [off_self]; omega

theorem sPop_fwd (s : St) (f : Bool) : Fwd s (sPop s f) 1 :=
  ⟨rfl, by simp [sPop], by have := pop_delta s.q f; simp only [sPop]; omega, pop_maxOff _ _⟩

theorem advance_delta (q : Q) (c : TSN) : ((advance q c).cum - q.cum).toNat < 2^31 := by
  rw [advance_cum]
  by_cases hl : sna32LT q.cum c = true
  · rw [hl]; exact ((lt_iff_off _ _).mp hl).2
  · rw [Bool.eq_false_iff.mpr hl]; simp only [Bool.false_eq_true, ite_false]; rw [off_self]; omega

theorem sAdv_fwd (s : St) (c : TSN) : Fwd s (sAdv s c) (2^31 - 1) :=
  ⟨rfl, by simp [sAdv], by have := advance_delta s.q c; simp only [sAdv]; omega, advance_maxOff _ _⟩

/-- each successful pop moves the clock by one and the tail distance by minus one -/
theorem popLoopS_pot (n : Nat) : ∀ {s : St}, Inv s.q →
    Fwd s (popLoopS n s) (dtail s.q) ∧
    (popLoopS n s).h.A + dtail (popLoopS n s).q = s.h.A + dtail s.q := by
  induction n with
  | zero => intro s _; exact ⟨(Fwd.refl s).weaken (by omega), rfl⟩
  | succ n ih =>
    intro s I
    simp only [popLoopS]
    split
    · rename_i hok
      rw [pop_ok] at hok
      have hh := (hasChunk_iff I _).mp hok
      have hst : (pop s.q false).1 = popped s.q := by rw [pop_state, hok]; rfl
      have hq : (sPop s false).q = popped s.q := hst
      have hd1 : 1 ≤ dtail s.q := by have := hh.2.1; rw [off_one] at this; exact this
      have hA : (sPop s false).h.A = s.h.A + 1 := by
        simp only [sPop, hst, popped_cum, off_one]
      obtain ⟨f, e⟩ := ih (s := sPop s false) (by rw [hq]; exact popped_inv I hh)
      rw [hq, dtail_popped hd1] at f e
      refine ⟨⟨f.c0, by have := f.mono; omega, by have := f.bnd; have := f.mono; omega,
        f.mo.trans (pop_maxOff _ _)⟩, by omega⟩
    · exact ⟨(Fwd.refl s).weaken (by omega), rfl⟩

theorem popAllS_fwd {s : St} (I : Inv s.q) : Fwd s (popAllS s) (dtail s.q) := (popLoopS_pot _ I).1

theorem advance_dtail {q : Q} (I : Inv q) (c : TSN) :
    dtail (advance q c) + ((advance q c).cum - q.cum).toNat ≤ max (2^31 - 1) (dtail q) := by
  have hd := advance_delta q c
  rw [advance_state] at hd ⊢
  by_cases hl : sna32LT q.cum c = true
  · obtain ⟨hp, hlt⟩ := (lt_iff_off _ _).mp hl
    simp only [hl, ite_true] at hd ⊢
    split
    · have : dtail (advancedT q c) = 0 := by simp only [dtail, advancedT, off_self]
      rw [this]
      have : (advancedT q c).cum = c := rfl
      rw [this]; omega
    · rename_i hcond
      simp only [Bool.or_eq_true, beq_iff_eq, not_or] at hcond
      have := mt (lte_tail_iff q.cum q.tail c hlt I.hb.2).mpr hcond.2
      obtain ⟨_, _, hdt, _⟩ := advancedP_facts I c (by simp only [dtail]; omega) hp
      rw [hdt, advancedP_cum]; simp only [dtail] at *; omega
  · rw [Bool.eq_false_iff.mpr hl]; simp only [Bool.false_eq_true, ite_false]; rw [off_self]; omega

/-- S3 for one step: any op other than `init` keeps the origin and moves the clock forward by at
most `max (2^31-1) maxOff` (primitive ops: by less than 2^31). -/
theorem step_fwd {s : St} (g : GInv s) (op : Op) (hop : ∀ c, op ≠ .init c) :
    Fwd s (step s op) (max (2^31 - 1) s.q.maxOff.toNat) := by
  have I := g.inv
  cases op with
  | init c => exact absurd rfl (hop c)
  | push t => exact (sPush_fwd s t).weaken (by omega)
  | pop f => exact (sPop_fwd s f).weaken (by omega)
  | adv c => exact (sAdv_fwd s c).weaken (by omega)
  | data t st =>
    simp only [step, sData]
    split
    · have g1 := sPush_ginv g t
      have f2 := popAllS_fwd g1.inv
      have := g1.inv.hb.1
      have hm : (sPush s t).q.maxOff = s.q.maxOff := push_maxOff _ _
      rw [hm] at this
      exact ((sPush_fwd s t).trans f2).weaken (by omega)
    · have := I.hb.1
      exact (popAllS_fwd I).weaken (by omega)
  | fwd c =>
    simp only [step, sFwd]
    split
    · exact (Fwd.refl s).weaken (by omega)
    · have g1 := sAdv_ginv g c
      have f2 := popAllS_fwd g1.inv
      have hd := advance_dtail I c
      have hb := I.hb.1
      have hA : (sAdv s c).h.A = s.h.A + ((advance s.q c).cum - s.q.cum).toNat := rfl
      have hq : (sAdv s c).q = advance s.q c := rfl
      rw [hq] at f2
      refine ⟨f2.c0, by have := f2.mono; omega, ?_, f2.mo.trans (advance_maxOff _ _)⟩
      have := f2.bnd; have := f2.mono
      omega
  | sack => exact ⟨rfl, Nat.le_refl _, by simp [step], rfl⟩

/-- the pop loop really runs to completion: afterwards `pop(false)` fails, i.e. the state is
"pop-normalised" — the TSN right after the cumulative point is not held. -/
theorem popLoopS_done (n : Nat) : ∀ {s : St}, Inv s.q → s.q.size ≤ n →
    hasChunk (popLoopS n s).q ((popLoopS n s).q.cum + 1) = false := by
  induction n with
  | zero =>
    intro s I hn
    have h0 : s.q.size = 0 := by have := I.size_nonneg; omega
    simp [popLoopS, hasChunk, h0]
  | succ n ih =>
    intro s I hn
    simp only [popLoopS]
    split
    · rename_i hok
      rw [pop_ok] at hok
      have hh := (hasChunk_iff I _).mp hok
      have hst : (sPop s false).q = popped s.q := by
        show (pop s.q false).1 = _; rw [pop_state, hok]; rfl
      apply ih (by rw [hst]; exact popped_inv I hh)
      rw [hst, popped_size]; omega
    · rename_i hok
      rw [pop_ok] at hok
      exact Bool.eq_false_iff.mpr hok

theorem popAllS_done {s : St} (I : Inv s.q) :
    hasChunk (popAllS s).q ((popAllS s).q.cum + 1) = false :=
  popLoopS_done _ I (by have := I.size_nonneg; omega)

/-- pop-normalised states: offset 1 is not held … -/
theorem normalised_iff {q : Q} (I : Inv q) : hasChunk q (q.cum + 1) = false ↔ ¬ heldAt q 1 := by
  rw [← Bool.not_eq_true, hasChunk_iff I, held_iff_heldAt, off_one]

/-- … and then every gap block starts at offset 2 or later -/
theorem gapsNat_start {q : Q} (I : Inv q) (hn : ¬ heldAt q 1) : ∀ p ∈ gapsNat q, 2 ≤ p.1 := by
  intro p hp
  obtain ⟨h1, h2, _, h4⟩ := (gapsNat_spec I).1 p hp
  have hh := h4 p.1 (Nat.le_refl _) h2
  apply Classical.byContradiction; intro hlt
  have : p.1 = 1 := by omega
  rw [this] at hh; exact hn hh

/-! ## 12. small facts about runs used by the property statements -/

theorem run_append (s : St) (ops ops' : List Op) : run s (ops ++ ops') = run (run s ops) ops' := by
  simp [run, List.foldl_append]

theorem run_snoc (s : St) (ops : List Op) (op : Op) : run s (ops ++ [op]) = step (run s ops) op := by
  simp [run, List.foldl_append]

theorem popLoopS_maxOff (n : Nat) : ∀ (s : St), (popLoopS n s).q.maxOff = s.q.maxOff := by
  induction n with
  | zero => intro s; rfl
  | succ n ih =>
    intro s; simp only [popLoopS]; split
    · rw [ih]; exact pop_maxOff _ _
    · rfl

theorem step_maxOff (s : St) (op : Op) : (step s op).q.maxOff = s.q.maxOff := by
  cases op with
  | init c => rfl
  | push t => exact push_maxOff _ _
  | pop f => exact pop_maxOff _ _
  | adv c => exact advance_maxOff _ _
  | data t st =>
    simp only [step, sData, popAllS]; rw [popLoopS_maxOff]; split
    · exact push_maxOff _ _
    · rfl
  | fwd c =>
    simp only [step, sFwd, popAllS]; split
    · rfl
    · rw [popLoopS_maxOff]; exact advance_maxOff _ _
  | sack => rfl

theorem run_maxOff (s : St) (ops : List Op) : (run s ops).q.maxOff = s.q.maxOff := by
  induction ops generalizing s with
  | nil => rfl
  | cons op ops ih => simp only [run, List.foldl_cons] at ih ⊢; rw [ih, step_maxOff]

theorem start_maxOff (m c : TSN) : (start m c).q.maxOff = (new m).maxOff := rfl

/-- the pop loop does not touch the ghost sets -/
theorem popLoopS_sets (n : Nat) : ∀ (s : St), (popLoopS n s).h.acc = s.h.acc ∧
    ∀ k, s.h.skp k → (popLoopS n s).h.skp k := by
  induction n with
  | zero => intro s; exact ⟨rfl, fun _ h => h⟩
  | succ n ih =>
    intro s; simp only [popLoopS]; split
    · obtain ⟨a, b⟩ := ih (sPop s false)
      exact ⟨a, fun k h => b k (Or.inl h)⟩
    · exact ⟨rfl, fun _ h => h⟩

/-- the rounding in `new` and the association's sizing (`getMaxTSNOffset ≤ 40000`) -/
theorem round_le (o : BitVec 32) (h : o.toNat ≤ 40000) :
    (((o + 63#32) / 64#32) * 64#32).toNat ≤ 40000 := by
  rw [BitVec.toNat_mul, BitVec.toNat_udiv, BitVec.toNat_add]
  simp only [BitVec.toNat_ofNat, Nat.reducePow, Nat.reduceMod]
  omega

theorem getMaxTSNOffset_le (rb : BitVec 32) : (getMaxTSNOffset rb).toNat ≤ 40000 := by
  simp only [getMaxTSNOffset, gmin]
  split
  · rename_i h; exact h
  · decide

/-- the ghost sets only grow (until the next `init`) -/
theorem step_sets_mono (s : St) (op : Op) (hop : ∀ c, op ≠ .init c) :
    (∀ k, s.h.acc k → (step s op).h.acc k) ∧ (∀ k, s.h.skp k → (step s op).h.skp k) := by
  cases op with
  | init c => exact absurd rfl (hop c)
  | push t => exact ⟨fun k h => Or.inl h, fun k h => h⟩
  | pop f => exact ⟨fun k h => h, fun k h => Or.inl h⟩
  | adv c => exact ⟨fun k h => h, fun k h => Or.inl h⟩
  | data t st =>
    simp only [step, sData, popAllS]
    split
    · obtain ⟨a, b⟩ := popLoopS_sets (sPush s t).q.size.toNat (sPush s t)
      exact ⟨fun k h => by rw [a]; exact Or.inl h, fun k h => b k h⟩
    · obtain ⟨a, b⟩ := popLoopS_sets s.q.size.toNat s
      exact ⟨fun k h => by rw [a]; exact h, b⟩
  | fwd c =>
    simp only [step, sFwd, popAllS]
    split
    · exact ⟨fun k h => h, fun k h => h⟩
    · obtain ⟨a, b⟩ := popLoopS_sets (sAdv s c).q.size.toNat (sAdv s c)
      exact ⟨fun k h => by rw [a]; exact h, fun k h => b k (Or.inl h)⟩
  | sack => exact ⟨fun k h => h, fun k h => h⟩

/-- TSN-level reading of the ghost sets (coarser than the index-level one once the 32-bit
space has wrapped completely) -/
def AcceptedTSN (s : St) (t : TSN) : Prop := ∃ k, s.h.acc k ∧ t = s.h.c0 + BitVec.ofNat 32 k
def SkippedTSN (s : St) (t : TSN) : Prop := ∃ k, s.h.skp k ∧ t = s.h.c0 + BitVec.ofNat 32 k

/-- ops the association issues (it never calls the bare queue operations in another order) -/
def assocOp : Op → Prop
  | .init _ | .data _ _ | .fwd _ | .sack => True
  | _ => False

/-- pop-normalised: `pop(false)` would fail -/
def Normalised (q : Q) : Prop := hasChunk q (q.cum + 1) = false

theorem step_normalised {s : St} (g : GInv s) (hn : Normalised s.q) (op : Op) (ha : assocOp op) :
    Normalised (step s op).q := by
  cases op with
  | init c => simp [Normalised, step, sInit, init, hasChunk]
  | push t => exact absurd ha (by simp [assocOp])
  | pop f => exact absurd ha (by simp [assocOp])
  | adv c => exact absurd ha (by simp [assocOp])
  | data t st =>
    simp only [step, sData]
    split
    · exact popAllS_done (sPush_ginv g t).inv
    · exact popAllS_done g.inv
  | fwd c =>
    simp only [step, sFwd]
    split
    · exact hn
    · exact popAllS_done (sAdv_ginv g c).inv
  | sack => exact hn

theorem run_normalised {s : St} (g : GInv s) (hn : Normalised s.q) (ops : List Op)
    (ha : ∀ op ∈ ops, assocOp op) : Normalised (run s ops).q := by
  induction ops generalizing s with
  | nil => exact hn
  | cons op ops ih =>
    exact ih (step_ginv g op) (step_normalised g hn op (ha op List.mem_cons_self))
      (fun o ho => ha o (List.mem_cons_of_mem _ ho))

theorem start_normalised (m c : TSN) : Normalised (start m c).q := by
  simp [Normalised, start, sInit, init, hasChunk]

/-- set bits and held offsets are in bijection -/
theorem bit_iff_heldAt {q : Q} (I : Inv q) (i : Nat) :
    getBit q.bits i = true ↔ ∃ d, heldAt q d ∧ pos q.W (q.cum + BitVec.ofNat 32 d) = i := by
  constructor
  · intro h
    obtain ⟨t, h1, h2, h3⟩ := I.hwin i h
    refine ⟨(t - q.cum).toNat, ⟨h1, h2, ?_⟩, ?_⟩
    · rw [add_off, h3]; exact h
    · rw [add_off]; exact h3
  · rintro ⟨d, ⟨_, _, hb⟩, rfl⟩; exact hb

theorem heldAt_inj {q : Q} (I : Inv q) {d d' : Nat} (h : heldAt q d) (h' : heldAt q d')
    (hp : pos q.W (q.cum + BitVec.ofNat 32 d) = pos q.W (q.cum + BitVec.ofNat 32 d')) : d = d' := by
  obtain ⟨hb1, hb2⟩ := I.hb
  have hN := I.hmax
  obtain ⟨a1, a2, _⟩ := h
  obtain ⟨b1, b2, _⟩ := h'
  have e1 := off_ofNat q.cum d (by omega)
  have e2 := off_ofNat q.cum d' (by omega)
  have := pos_inj I.hdvd q.cum _ _ (by omega) (by omega) (by omega) (by omega) hp
  rw [← e1, ← e2, this]

theorem heldAt_tail {q : Q} (I : Inv q) (hs : q.size ≠ 0) : heldAt q (dtail q) :=
  ⟨I.dtail_pos hs, Nat.le_refl _, by simp only [dtail, add_off]; exact I.ht1 hs⟩

end RecvQ
