import SctpVerif.Proofs.RecvQ.Advance
namespace RecvQ
open Gen Sna

/-! ## 8. offsets as naturals -/

/-- offset `d` (a natural number, as `getGapAckBlocks` counts them) is held -/
def heldAt (q : Q) (d : Nat) : Prop :=
  1 ≤ d ∧ d ≤ dtail q ∧ getBit q.bits (pos q.W (q.cum + BitVec.ofNat 32 d)) = true

theorem off_ofNat (c : TSN) (d : Nat) (h : d < 2^32) : ((c + BitVec.ofNat 32 d) - c).toNat = d := by
  have : (c + BitVec.ofNat 32 d) - c = BitVec.ofNat 32 d := by bv_omega
  rw [this, BitVec.toNat_ofNat]; exact Nat.mod_eq_of_lt h

theorem add_off (t c : TSN) : c + BitVec.ofNat 32 (t - c).toNat = t := by
  rw [BitVec.ofNat_toNat, BitVec.setWidth_eq]; bv_omega

theorem heldAt_iff {q : Q} (I : Inv q) (d : Nat) :
    heldAt q d ↔ (d ≤ 2^31 ∧ held q (q.cum + BitVec.ofNat 32 d)) := by
  have hb2 := I.hb.2
  simp only [heldAt, held]
  constructor
  · intro ⟨h1, h2, h3⟩
    rw [off_ofNat _ _ (by omega)]
    exact ⟨by omega, h1, h2, h3⟩
  · intro ⟨h0, h1, h2, h3⟩
    rw [off_ofNat _ _ (by omega)] at h1 h2
    exact ⟨h1, h2, h3⟩

theorem held_iff_heldAt {q : Q} (t : TSN) : held q t ↔ heldAt q (t - q.cum).toNat := by
  simp only [heldAt, held, add_off]

theorem heldAt_le {q : Q} (I : Inv q) {d : Nat} (h : heldAt q d) : d ≤ q.maxOff.toNat ∧ d ≤ 2^31 := by
  have := I.hb; obtain ⟨_, h2, _⟩ := h; omega

/-- re-basing: if the cumulative point moved forward by `e` and the held set lost exactly the
TSNs at offsets `≤ e`, then the new offset `d` is the old offset `d + e`. -/
theorem heldAt_rebase {q q' : Q} (I : Inv q) (I' : Inv q') (e : Nat) (he : e < 2^31)
    (hc : q'.cum = q.cum + BitVec.ofNat 32 e)
    (hh : ∀ t', held q' t' ↔ (held q t' ∧ e < (t' - q.cum).toNat)) (d : Nat) (hd : 1 ≤ d) :
    heldAt q' d ↔ heldAt q (d + e) := by
  rw [heldAt_iff I, heldAt_iff I', hh, hc]
  have hadd : q.cum + BitVec.ofNat 32 e + BitVec.ofNat 32 d = q.cum + BitVec.ofNat 32 (d + e) := by
    rw [BitVec.add_assoc, ← BitVec.ofNat_add, Nat.add_comm]
  rw [hadd]
  constructor
  · intro ⟨h0, hheld, _⟩
    refine ⟨?_, hheld⟩
    obtain ⟨_, h2, _⟩ := hheld
    rw [off_ofNat _ _ (by omega)] at h2
    have := I.hb.2; omega
  · intro ⟨h0, hheld⟩
    refine ⟨by omega, hheld, ?_⟩
    rw [off_ofNat _ _ (by omega)]; omega

theorem add_one_ofNat (c : TSN) : c + 1 = c + BitVec.ofNat 32 1 := rfl

theorem popped_heldAt {q : Q} (I : Inv q) (h : held q (q.cum + 1)) (d : Nat) (hd : 1 ≤ d) :
    heldAt (popped q) d ↔ heldAt q (d + 1) := by
  apply heldAt_rebase I (popped_inv I h) 1 (by omega) (add_one_ofNat _) _ d hd
  intro t'
  rw [popped_held I h]
  constructor
  · intro ⟨hh, hne⟩; have := off_ne_one hne; have := hh.1; exact ⟨hh, by omega⟩
  · intro ⟨hh, hgt⟩; refine ⟨hh, ?_⟩; rintro rfl; rw [off_one] at hgt; omega

theorem forced_heldAt {q : Q} (I : Inv q) (h : ¬ held q (q.cum + 1)) (d : Nat) (hd : 1 ≤ d) :
    heldAt (forced q) d ↔ heldAt q (d + 1) := by
  apply heldAt_rebase I (forced_inv I h) 1 (by omega) (add_one_ofNat _) _ d hd
  intro t'
  rw [forced_held I h]
  constructor
  · intro hh
    refine ⟨hh, ?_⟩
    have hne : t' ≠ q.cum + 1 := by rintro rfl; exact h hh
    have := off_ne_one hne; have := hh.1; omega
  · exact fun hh => hh.1

theorem advance_heldAt {q : Q} (I : Inv q) (c : TSN) (hl : sna32LT q.cum c = true) (d : Nat) (hd : 1 ≤ d) :
    heldAt (advance q c) d ↔ heldAt q (d + (c - q.cum).toNat) := by
  obtain ⟨_, hlt⟩ := (lt_iff_off _ _).mp hl
  apply heldAt_rebase I (advance_inv I c) _ hlt _ (advance_held I c hl) d hd
  rw [advance_cum, hl, add_off]; rfl

theorem push_heldAt {q : Q} (I : Inv q) (t : TSN) (hr : (push q t).2 = true) (d : Nat) :
    heldAt (push q t).1 d ↔ (heldAt q d ∨ d = (t - q.cum).toNat) := by
  have hcum : (push q t).1.cum = q.cum := by rw [push_accept_state t hr]; rfl
  obtain ⟨⟨a1, a2, a3, a4⟩, _⟩ := (push_accept_iff I t).mp hr
  rw [heldAt_iff I, heldAt_iff (push_inv I t), push_held I t hr, hcum]
  constructor
  · rintro ⟨h0, hh | he⟩
    · exact Or.inl ⟨h0, hh⟩
    · right; rw [← he, off_ofNat _ _ (by omega)]
  · rintro (⟨h0, hh⟩ | rfl)
    · exact ⟨h0, Or.inl hh⟩
    · exact ⟨a3, Or.inr (add_off _ _)⟩

/-! ## 9. runs with ghost history -/

/-- ghost history since the last `init`. TSNs are identified by their absolute index `k`
(the TSN is `c0 + k`), so that nothing is lost when the 32-bit space wraps, even many times. -/
structure Hist where
  c0  : TSN          -- cumulative point installed by the last `init`
  A   : Nat          -- total forward movement of the cumulative point since then
  acc : Nat → Prop   -- indices whose DATA was accepted (`push` returned true)
  skp : Nat → Prop   -- indices the peer explicitly told us to skip (FORWARD-TSN, forced pop)

structure St where
  q : Q
  h : Hist

inductive Op
  | init (c : TSN)                 -- receivePayloadQueue.init
  | push (t : TSN)                 -- bare push
  | pop (force : Bool)             -- bare pop
  | adv (c : TSN)                  -- bare advanceCumulativeTSN
  | data (t : TSN) (store : Bool)  -- Association.handleData (store = acceptPayloadData stored it)
  | fwd (c : TSN)                  -- Association.handleForwardTSN / handleIForwardTSN
  | sack                           -- createSelectiveAckChunk: popDuplicates + getGapAckBlocks

def sInit (s : St) (c : TSN) : St :=
  { q := init s.q c, h := { c0 := c, A := 0, acc := fun _ => False, skp := fun _ => False } }

def sPush (s : St) (t : TSN) : St :=
  { q := (push s.q t).1,
    h := { s.h with acc := fun k => s.h.acc k ∨ ((push s.q t).2 = true ∧ k = s.h.A + (t - s.q.cum).toNat) } }

def sPop (s : St) (f : Bool) : St :=
  { q := (pop s.q f).1,
    h := { s.h with A := s.h.A + ((pop s.q f).1.cum - s.q.cum).toNat,
                    skp := fun k => s.h.skp k ∨ (f = true ∧ k = s.h.A + 1) } }

def sAdv (s : St) (c : TSN) : St :=
  { q := advance s.q c,
    h := { s.h with A := s.h.A + ((advance s.q c).cum - s.q.cum).toNat,
                    skp := fun k => s.h.skp k ∨
                      (sna32LT s.q.cum c = true ∧ s.h.A < k ∧ k ≤ s.h.A + (c - s.q.cum).toNat) } }

/-- Go: `for { if !q.pop(false) { break } }` in `handlePeerLastTSNAndAcknowledgement`; `n` is fuel -/
def popLoopS : Nat → St → St
  | 0, s => s
  | n+1, s => if (pop s.q false).2 then popLoopS n (sPop s false) else s

/-- fuel: a successful pop decrements `size`, so `size` iterations suffice (`popAll_done`) -/
def popAllS (s : St) : St := popLoopS s.q.size.toNat s

def sData (s : St) (t : TSN) (store : Bool) : St :=
  popAllS (if canPush s.q t && store then sPush s t else s)

def sFwd (s : St) (c : TSN) : St :=
  if sna32LTE c s.q.cum then s else popAllS (sAdv s c)

def step (s : St) : Op → St
  | .init c => sInit s c
  | .push t => sPush s t
  | .pop f => sPop s f
  | .adv c => sAdv s c
  | .data t st => sData s t st
  | .fwd c => sFwd s c
  | .sack => { s with q := (popDuplicates s.q).1 }

def run (s : St) (ops : List Op) : St := ops.foldl step s

/-- a fresh association: `newReceivePayloadQueue(m)` followed by `init(c)` -/
def start (m c : TSN) : St := sInit { q := new m, h := ⟨0, 0, fun _ => False, fun _ => False⟩ } c

/-- invariant coupling the queue with the ghost history -/
structure GInv (s : St) : Prop where
  inv  : Inv s.q
  hcum : s.q.cum = s.h.c0 + BitVec.ofNat 32 s.h.A
  hacc : ∀ d, 1 ≤ d → (s.h.acc (s.h.A + d) ↔ heldAt s.q d)
  hS1  : ∀ k, 1 ≤ k → k ≤ s.h.A → s.h.acc k ∨ s.h.skp k

theorem sInit_ginv {s : St} (r : Ring s.q) (c : TSN) : GInv (sInit s c) where
  inv := init_inv r c
  hcum := by simp [sInit, init]
  hacc := by
    intro d hd
    simp only [sInit, heldAt, init, getBit_replicate]
    simp
  hS1 := by intro k h1 h2; simp only [sInit] at h2; omega

theorem sPush_ginv {s : St} (g : GInv s) (t : TSN) : GInv (sPush s t) := by
  have I := g.inv
  cases hr : (push s.q t).2
  · have hq : Inv (push s.q t).1 := push_inv I t
    have hrej := push_reject t hr
    refine ⟨hq, ?_, ?_, ?_⟩
    · have : (push s.q t).1.cum = s.q.cum := by rcases hrej with h | h <;> rw [h]
      simp only [sPush, this]; exact g.hcum
    · intro d hd
      have hh : heldAt (push s.q t).1 d ↔ heldAt s.q d := by
        rcases hrej with h | h <;> rw [h] <;> rfl
      simp only [sPush, hr, Bool.false_eq_true, false_and, or_false, hh]
      exact g.hacc d hd
    · intro k h1 h2
      rcases g.hS1 k h1 h2 with h | h
      · exact Or.inl (Or.inl h)
      · exact Or.inr h
  · have hcum : (push s.q t).1.cum = s.q.cum := by rw [push_accept_state t hr]; rfl
    refine ⟨push_inv I t, ?_, ?_, ?_⟩
    · simp only [sPush, hcum]; exact g.hcum
    · intro d hd
      simp only [sPush, hr, true_and]
      rw [push_heldAt I t hr, g.hacc d hd]
      constructor
      · rintro (h | h)
        · exact Or.inl h
        · exact Or.inr (by omega)
      · rintro (h | h)
        · exact Or.inl h
        · exact Or.inr (by omega)
    · intro k h1 h2
      rcases g.hS1 k h1 h2 with h | h
      · exact Or.inl (Or.inl h)
      · exact Or.inr h

theorem off_add_one (c : TSN) : ((c + 1) - c).toNat = 1 := off_one c

theorem ofNat_succ (c : TSN) (A : Nat) : c + BitVec.ofNat 32 A + 1 = c + BitVec.ofNat 32 (A + 1) := by
  rw [BitVec.add_assoc, add_one_ofNat, ← BitVec.ofNat_add]

theorem sPop_ginv {s : St} (g : GInv s) (f : Bool) : GInv (sPop s f) := by
  have I := g.inv
  by_cases hc : hasChunk s.q (s.q.cum + 1) = true
  · have hh := (hasChunk_iff I _).mp hc
    have hst : (pop s.q f).1 = popped s.q := by rw [pop_state, hc]; rfl
    have hA : ((popped s.q).cum - s.q.cum).toNat = 1 := by rw [popped_cum, off_one]
    have h1 : heldAt s.q 1 := by
      have := (held_iff_heldAt (q := s.q) (s.q.cum + 1)).mp hh; rwa [off_one] at this
    refine ⟨by rw [show (sPop s f).q = (pop s.q f).1 from rfl, hst]; exact popped_inv I hh, ?_, ?_, ?_⟩
    · simp only [sPop, hst, hA]; rw [popped_cum, g.hcum]; exact ofNat_succ _ _
    · intro d hd
      simp only [sPop, hst, hA]
      rw [popped_heldAt I hh d hd, ← g.hacc (d + 1) (by omega)]
      rw [show s.h.A + 1 + d = s.h.A + (d + 1) by omega]
    · intro k k1 k2
      simp only [sPop, hst, hA] at k2 ⊢
      by_cases hk : k ≤ s.h.A
      · rcases g.hS1 k k1 hk with h | h
        · exact Or.inl h
        · exact Or.inr (Or.inl h)
      · have : k = s.h.A + 1 := by omega
        rw [this]; exact Or.inl ((g.hacc 1 (by omega)).mpr h1)
  · have hnh := mt (hasChunk_iff I _).mpr hc
    have hc' : hasChunk s.q (s.q.cum + 1) = false := Bool.eq_false_iff.mpr hc
    cases f
    · have hst : (pop s.q false).1 = s.q := by rw [pop_state, hc']; rfl
      have hA : (s.q.cum - s.q.cum).toNat = 0 := off_self _
      refine ⟨by rw [show (sPop s false).q = (pop s.q false).1 from rfl, hst]; exact I, ?_, ?_, ?_⟩
      · simp only [sPop, hst, hA, Nat.add_zero]; exact g.hcum
      · intro d hd; simp only [sPop, hst, hA, Nat.add_zero]; exact g.hacc d hd
      · intro k k1 k2
        simp only [sPop, hst, hA, Nat.add_zero] at k2 ⊢
        rcases g.hS1 k k1 k2 with h | h
        · exact Or.inl h
        · exact Or.inr (Or.inl h)
    · have hst : (pop s.q true).1 = forced s.q := by rw [pop_state, hc']; rfl
      have hA : ((forced s.q).cum - s.q.cum).toNat = 1 := by rw [forced_cum, off_one]
      refine ⟨by rw [show (sPop s true).q = (pop s.q true).1 from rfl, hst]; exact forced_inv I hnh, ?_, ?_, ?_⟩
      · simp only [sPop, hst, hA]; rw [forced_cum, g.hcum]; exact ofNat_succ _ _
      · intro d hd
        simp only [sPop, hst, hA]
        rw [forced_heldAt I hnh d hd, ← g.hacc (d + 1) (by omega)]
        rw [show s.h.A + 1 + d = s.h.A + (d + 1) by omega]
      · intro k k1 k2
        simp only [sPop, hst, hA] at k2 ⊢
        by_cases hk : k ≤ s.h.A
        · rcases g.hS1 k k1 hk with h | h
          · exact Or.inl h
          · exact Or.inr (Or.inl h)
        · exact Or.inr (Or.inr ⟨by trivial, by omega⟩)

theorem sAdv_ginv {s : St} (g : GInv s) (c : TSN) : GInv (sAdv s c) := by
  have I := g.inv
  by_cases hl : sna32LT s.q.cum c = true
  · obtain ⟨hp, hlt⟩ := (lt_iff_off _ _).mp hl
    have hcum : (advance s.q c).cum = c := by rw [advance_cum, hl]; rfl
    have hl' : sna32LT s.q.cum c = true := hl
    refine ⟨advance_inv I c, ?_, ?_, ?_⟩
    · simp only [sAdv, hcum]
      rw [BitVec.ofNat_add, ← BitVec.add_assoc, ← g.hcum, add_off]
    · intro d hd
      simp only [sAdv, hcum]
      rw [advance_heldAt I c hl d hd, ← g.hacc _ (by omega)]
      rw [show s.h.A + (c - s.q.cum).toNat + d = s.h.A + (d + (c - s.q.cum).toNat) by omega]
    · intro k k1 k2
      simp only [sAdv, hcum, hl, true_and] at k2 ⊢
      by_cases hk : k ≤ s.h.A
      · rcases g.hS1 k k1 hk with h | h
        · exact Or.inl h
        · exact Or.inr (Or.inl h)
      · exact Or.inr (Or.inr ⟨by omega, k2⟩)
  · have hst : advance s.q c = s.q := by rw [advance_state, Bool.eq_false_iff.mpr hl]; rfl
    have hA : (s.q.cum - s.q.cum).toNat = 0 := off_self _
    refine ⟨by rw [show (sAdv s c).q = advance s.q c from rfl, hst]; exact I, ?_, ?_, ?_⟩
    · simp only [sAdv, hst, hA, Nat.add_zero]; exact g.hcum
    · intro d hd; simp only [sAdv, hst, hA, Nat.add_zero]; exact g.hacc d hd
    · intro k k1 k2
      simp only [sAdv, hst, hA, Nat.add_zero] at k2 ⊢
      rcases g.hS1 k k1 k2 with h | h
      · exact Or.inl h
      · exact Or.inr (Or.inl h)

theorem popLoopS_ginv (n : Nat) : ∀ {s : St}, GInv s → GInv (popLoopS n s) := by
  induction n with
  | zero => intro s g; exact g
  | succ n ih =>
    intro s g
    simp only [popLoopS]
    split
    · exact ih (sPop_ginv g false)
    · exact g

theorem step_ginv {s : St} (g : GInv s) (op : Op) : GInv (step s op) := by
  cases op with
  | init c => exact sInit_ginv g.inv.toRing c
  | push t => exact sPush_ginv g t
  | pop f => exact sPop_ginv g f
  | adv c => exact sAdv_ginv g c
  | data t st =>
    simp only [step, sData, popAllS]
    split
    · exact popLoopS_ginv _ (sPush_ginv g t)
    · exact popLoopS_ginv _ g
  | fwd c =>
    simp only [step, sFwd, popAllS]
    split
    · exact g
    · exact popLoopS_ginv _ (sAdv_ginv g c)
  | sack => exact ⟨inv_dups g.inv [], g.hcum, g.hacc, g.hS1⟩

theorem start_ginv (m c : TSN) : GInv (start m c) := sInit_ginv (new_ring m) c

theorem run_ginv {s : St} (g : GInv s) (ops : List Op) : GInv (run s ops) := by
  induction ops generalizing s with
  | nil => exact g
  | cons op ops ih => exact ih (step_ginv g op)

end RecvQ
