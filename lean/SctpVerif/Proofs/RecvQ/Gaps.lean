import SctpVerif.Proofs.RecvQ.History
namespace RecvQ
open Gen Sna

/-! ## 10. getGapAckBlocks -/

/-- the scan of `gapScan`, over an abstract bit predicate and without the 16-bit truncation -/
def scan (B : Nat → Bool) (last : Nat) : Nat → Nat → Option Nat → List (Nat × Nat)
  | 0, _, _ => []
  | n+1, d, run =>
    match run, B d with
    | none, false => scan B last n (d+1) none
    | none, true => if d == last then [(d, d)] else scan B last n (d+1) (some d)
    | some s, true => if d == last then [(s, d)] else scan B last n (d+1) (some s)
    | some s, false => (s, d-1) :: scan B last n (d+1) none

def bitAt (q : Q) (d : Nat) : Bool := getBit q.bits (pos q.W (q.cum + BitVec.ofNat 32 d))

def trunc16 (p : Nat × Nat) : BitVec 16 × BitVec 16 := (BitVec.ofNat 16 p.1, BitVec.ofNat 16 p.2)

theorem gapScan_eq (q : Q) (last : Nat) (n : Nat) : ∀ (d : Nat) (run : Option Nat),
    gapScan q last n d run = (scan (bitAt q) last n d run).map trunc16 := by
  induction n with
  | zero => intro d run; rfl
  | succ n ih =>
    intro d run
    simp only [gapScan, scan, bitAt]
    cases run <;> cases getBit q.bits (pos q.W (q.cum + BitVec.ofNat 32 d)) <;> simp only
    · exact ih _ _
    · split
      · rfl
      · exact ih _ _
    · rw [List.map_cons, ← ih]; rfl
    · split
      · rfl
      · exact ih _ _

/-- what a correct list of gap blocks is, relative to the bit predicate `B` on `[lo, last]` -/
structure ScanOK (B : Nat → Bool) (last lo : Nat) (bl : List (Nat × Nat)) : Prop where
  snd : ∀ p ∈ bl, lo ≤ p.1 ∧ p.1 ≤ p.2 ∧ p.2 ≤ last ∧ ∀ j, p.1 ≤ j → j ≤ p.2 → B j = true
  cmp : ∀ j, lo ≤ j → j ≤ last → B j = true → ∃ p ∈ bl, p.1 ≤ j ∧ j ≤ p.2
  pw  : bl.Pairwise (fun a b => a.2 + 1 < b.1)
  mx  : ∀ p ∈ bl, (p.1 = lo ∨ (lo < p.1 ∧ B (p.1 - 1) = false)) ∧ (p.2 = last ∨ B (p.2 + 1) = false)

theorem scanOK_single {B : Nat → Bool} {last s : Nat} (hs : s ≤ last)
    (hB : ∀ j, s ≤ j → j ≤ last → B j = true) : ScanOK B last s [(s, last)] where
  snd := by intro p hp; simp only [List.mem_singleton] at hp; subst hp; exact ⟨Nat.le_refl _, hs, Nat.le_refl _, hB⟩
  cmp := by intro j h1 h2 _; exact ⟨(s, last), by simp, h1, h2⟩
  pw := List.pairwise_singleton _ _
  mx := by intro p hp; simp only [List.mem_singleton] at hp; subst hp; exact ⟨Or.inl rfl, Or.inl rfl⟩

theorem scan_ok (B : Nat → Bool) (last : Nat) (hl : B last = true) (n : Nat) :
    ∀ (d : Nat) (run : Option Nat), d + n = last + 1 → 1 ≤ n →
      (∀ s, run = some s → s < d ∧ ∀ j, s ≤ j → j < d → B j = true) →
      ScanOK B last (run.getD d) (scan B last n d run) := by
  induction n with
  | zero => intro d run _ h1; omega
  | succ n ih =>
    intro d run hdn _ hrun
    simp only [scan]
    cases run with
    | none =>
      cases hb : B d with
      | false =>
        simp only [Option.getD_none]
        have hne : d ≠ last := by rintro rfl; rw [hl] at hb; exact Bool.noConfusion hb
        have r := ih (d+1) none (by omega) (by omega) (by intro s hs; cases hs)
        simp only [Option.getD_none] at r
        refine ⟨?_, ?_, r.pw, ?_⟩
        · intro p hp; obtain ⟨h1, h2⟩ := r.snd p hp; exact ⟨by omega, h2⟩
        · intro j h1 h2 h3
          have : j ≠ d := by rintro rfl; rw [hb] at h3; exact Bool.noConfusion h3
          exact r.cmp j (by omega) h2 h3
        · intro p hp
          obtain ⟨h1, h2⟩ := r.mx p hp
          refine ⟨Or.inr ?_, h2⟩
          rcases h1 with h | ⟨h, h'⟩
          · rw [h]; exact ⟨by omega, by simpa using hb⟩
          · exact ⟨by omega, h'⟩
      | true =>
        simp only [Option.getD_none]
        split
        · rename_i he
          have he : d = last := by simpa using he
          subst he
          refine scanOK_single (Nat.le_refl _) ?_
          intro j h1 h2
          have : j = d := by omega
          rw [this]; exact hb
        · rename_i he
          have he : d ≠ last := by simpa using he
          have hopen : ∀ s, some d = some s → s < d + 1 ∧ ∀ j, s ≤ j → j < d + 1 → B j = true := by
            intro s hs; cases hs
            refine ⟨by omega, ?_⟩
            intro j h1 h2
            have : j = d := by omega
            rw [this]; exact hb
          have r := ih (d+1) (some d) (by omega) (by omega) hopen
          simpa using r
    | some s =>
      obtain ⟨hsd, hopen⟩ := hrun s rfl
      cases hb : B d with
      | true =>
        simp only [Option.getD_some]
        split
        · rename_i he
          have he : d = last := by simpa using he
          subst he
          refine scanOK_single (by omega) ?_
          intro j h1 h2
          by_cases hj : j < d
          · exact hopen j h1 hj
          · have : j = d := by omega
            rw [this]; exact hb
        · rename_i he
          have he : d ≠ last := by simpa using he
          have hopen' : ∀ s', some s = some s' → s' < d + 1 ∧ ∀ j, s' ≤ j → j < d + 1 → B j = true := by
            intro s' hs; cases hs
            refine ⟨by omega, ?_⟩
            intro j h1 h2
            by_cases hj : j < d
            · exact hopen j h1 hj
            · have : j = d := by omega
              rw [this]; exact hb
          have r := ih (d+1) (some s) (by omega) (by omega) hopen'
          simpa using r
      | false =>
        simp only [Option.getD_some]
        have hne : d ≠ last := by rintro rfl; rw [hl] at hb; exact Bool.noConfusion hb
        have r := ih (d+1) none (by omega) (by omega) (by intro s hs; cases hs)
        simp only [Option.getD_none] at r
        refine ⟨?_, ?_, ?_, ?_⟩
        · intro p hp
          rcases List.mem_cons.mp hp with rfl | hp
          · exact ⟨Nat.le_refl _, by simp only; omega, by simp only; omega,
              by intro j h1 h2; exact hopen j h1 (by simp only at h2; omega)⟩
          · obtain ⟨h1, h2⟩ := r.snd p hp; exact ⟨by omega, h2⟩
        · intro j h1 h2 h3
          have : j ≠ d := by rintro rfl; rw [hb] at h3; exact Bool.noConfusion h3
          by_cases hj : j < d
          · exact ⟨(s, d-1), List.mem_cons_self, h1, by simp only; omega⟩
          · obtain ⟨p, hp, hp'⟩ := r.cmp j (by omega) h2 h3
            exact ⟨p, List.mem_cons_of_mem _ hp, hp'⟩
        · rw [List.pairwise_cons]
          refine ⟨?_, r.pw⟩
          intro p hp
          have := (r.snd p hp).1
          simp only; omega
        · intro p hp
          rcases List.mem_cons.mp hp with rfl | hp
          · refine ⟨Or.inl rfl, Or.inr ?_⟩
            simp only
            rw [show d - 1 + 1 = d by omega]; exact hb
          · obtain ⟨h1, h2⟩ := r.mx p hp
            refine ⟨Or.inr ?_, h2⟩
            rcases h1 with h | ⟨h, h'⟩
            · rw [h]; exact ⟨by omega, by simpa using hb⟩
            · exact ⟨by omega, h'⟩

/-- the gap blocks as untruncated offsets -/
def gapsNat (q : Q) : List (Nat × Nat) :=
  if q.size == 0 then [] else scan (bitAt q) (dtail q) (dtail q) 1 none

theorem lte_succ_tail (cum tail : TSN) (h1 : 1 ≤ (tail - cum).toNat) (h2 : (tail - cum).toNat ≤ 2^31) :
    sna32LTE (cum + 1) tail = true := by
  rw [lte32_iff]; bv_omega

theorem gaps_eq {q : Q} (I : Inv q) : gaps q = (gapsNat q).map trunc16 := by
  simp only [gaps, gapsNat]
  by_cases hs : q.size = 0
  · simp [hs]
  · have h1 := I.dtail_pos hs
    have : (q.size == 0) = false := by simp [hs]
    simp only [this, Bool.false_eq_true, ite_false]
    rw [lte_succ_tail q.cum q.tail h1 I.hb.2]
    simp only [ite_true]
    exact gapScan_eq q _ _ _ _

theorem heldAt_bit {q : Q} (d : Nat) : heldAt q d ↔ (1 ≤ d ∧ d ≤ dtail q ∧ bitAt q d = true) := Iff.rfl

theorem heldAt_size {q : Q} (I : Inv q) {d : Nat} (h : heldAt q d) : q.size ≠ 0 := by
  intro hs; have := I.size_zero_bits hs (pos q.W (q.cum + BitVec.ofNat 32 d))
  rw [h.2.2] at this; exact Bool.noConfusion this

/-- **the blocks are exactly the maximal runs of the held offsets** -/
theorem gapsNat_spec {q : Q} (I : Inv q) :
    -- every block lies in [1, tail-cum] and contains only held offsets
    (∀ p ∈ gapsNat q, 1 ≤ p.1 ∧ p.1 ≤ p.2 ∧ p.2 ≤ dtail q ∧ ∀ j, p.1 ≤ j → j ≤ p.2 → heldAt q j) ∧
    -- every held offset is in a block
    (∀ j, heldAt q j → ∃ p ∈ gapsNat q, p.1 ≤ j ∧ j ≤ p.2) ∧
    -- sorted, disjoint, non-adjacent
    (gapsNat q).Pairwise (fun a b => a.2 + 1 < b.1) ∧
    -- maximal on both sides
    (∀ p ∈ gapsNat q, ¬ heldAt q (p.1 - 1) ∧ ¬ heldAt q (p.2 + 1)) := by
  by_cases hs : q.size = 0
  · have hnil : gapsNat q = [] := by simp [gapsNat, hs]
    rw [hnil]
    refine ⟨by simp, ?_, List.Pairwise.nil, by simp⟩
    intro j hj; exact absurd hs (heldAt_size I hj)
  · have h1 := I.dtail_pos hs
    have hlast : bitAt q (dtail q) = true := by
      simp only [bitAt, dtail, add_off]; exact I.ht1 hs
    have hg : gapsNat q = scan (bitAt q) (dtail q) (dtail q) 1 none := by
      have : (q.size == 0) = false := by simp [hs]
      simp [gapsNat, this]
    have r := scan_ok (bitAt q) (dtail q) hlast (dtail q) 1 none (by omega) h1
      (by intro s hs; cases hs)
    rw [← hg] at r
    simp only [Option.getD_none] at r
    refine ⟨?_, ?_, r.pw, ?_⟩
    · intro p hp
      obtain ⟨a, b, c, d⟩ := r.snd p hp
      exact ⟨a, b, c, fun j j1 j2 => ⟨by omega, by omega, d j j1 j2⟩⟩
    · intro j ⟨j1, j2, j3⟩
      exact r.cmp j j1 j2 j3
    · intro p hp
      obtain ⟨a, b, c, d⟩ := r.snd p hp
      obtain ⟨m1, m2⟩ := r.mx p hp
      constructor
      · rintro ⟨k1, k2, k3⟩
        rcases m1 with h | ⟨_, h⟩
        · omega
        · have k3' : bitAt q (p.1 - 1) = true := k3
          rw [h] at k3'; exact Bool.noConfusion k3'
      · rintro ⟨k1, k2, k3⟩
        rcases m2 with h | h
        · omega
        · have k3' : bitAt q (p.2 + 1) = true := k3
          rw [h] at k3'; exact Bool.noConfusion k3'

theorem trunc16_toNat {p : Nat × Nat} (h1 : p.1 < 2^16) (h2 : p.2 < 2^16) :
    (trunc16 p).1.toNat = p.1 ∧ (trunc16 p).2.toNat = p.2 := by
  simp only [trunc16, BitVec.toNat_ofNat]
  exact ⟨Nat.mod_eq_of_lt h1, Nat.mod_eq_of_lt h2⟩

/-- the emitted 16-bit blocks, when the admission window fits the wire format (`maxOff < 2^16`;
the association never configures more than 40000): same statement on `gaps`. -/
theorem gaps_spec {q : Q} (I : Inv q) (hm : q.maxOff.toNat < 2^16) :
    (∀ b ∈ gaps q, 1 ≤ b.1.toNat ∧ b.1.toNat ≤ b.2.toNat ∧ b.2.toNat ≤ dtail q ∧
        ∀ j, b.1.toNat ≤ j → j ≤ b.2.toNat → heldAt q j) ∧
    (∀ j, heldAt q j → ∃ b ∈ gaps q, b.1.toNat ≤ j ∧ j ≤ b.2.toNat) ∧
    (gaps q).Pairwise (fun a b => a.2.toNat + 1 < b.1.toNat) ∧
    (∀ b ∈ gaps q, ¬ heldAt q (b.1.toNat - 1) ∧ ¬ heldAt q (b.2.toNat + 1)) := by
  obtain ⟨s1, s2, s3, s4⟩ := gapsNat_spec I
  have hdt : dtail q < 2^16 := by have := I.hb.1; omega
  have hconv : ∀ p ∈ gapsNat q, (trunc16 p).1.toNat = p.1 ∧ (trunc16 p).2.toNat = p.2 := by
    intro p hp
    obtain ⟨a, b, c, _⟩ := s1 p hp
    exact trunc16_toNat (by omega) (by omega)
  rw [gaps_eq I]
  refine ⟨?_, ?_, ?_, ?_⟩
  · intro b hb
    obtain ⟨p, hp, rfl⟩ := List.mem_map.mp hb
    obtain ⟨e1, e2⟩ := hconv p hp
    rw [e1, e2]; exact s1 p hp
  · intro j hj
    obtain ⟨p, hp, hj'⟩ := s2 j hj
    obtain ⟨e1, e2⟩ := hconv p hp
    exact ⟨trunc16 p, List.mem_map_of_mem hp, by rw [e1, e2]; exact hj'⟩
  · rw [List.pairwise_map]
    refine List.Pairwise.imp_of_mem ?_ s3
    intro a b ha hb hab
    obtain ⟨e1, e2⟩ := hconv a ha
    obtain ⟨f1, f2⟩ := hconv b hb
    rw [e2, f1]; exact hab
  · intro b hb
    obtain ⟨p, hp, rfl⟩ := List.mem_map.mp hb
    obtain ⟨e1, e2⟩ := hconv p hp
    rw [e1, e2]; exact s4 p hp

end RecvQ
