import SctpVerif.Proofs.RecvQ.Basic
namespace RecvQ
open Gen Sna

/-! ## 6. pop -/

/-- state after a successful pop -/
def popped (q : Q) : Q :=
  { q with bits := setBit q.bits (pos q.W (q.cum + 1)) false, size := q.size - 1, cum := q.cum + 1 }

/-- state after a forced pop that found nothing -/
def forced (q : Q) : Q :=
  { q with cum := q.cum + 1, tail := if q.size == 0 then q.cum + 1 else q.tail }

@[simp] theorem popped_W (q : Q) : (popped q).W = q.W := by simp [popped, Q.W]
@[simp] theorem popped_cum (q : Q) : (popped q).cum = q.cum + 1 := rfl
@[simp] theorem popped_maxOff (q : Q) : (popped q).maxOff = q.maxOff := rfl
@[simp] theorem popped_bits (q : Q) : (popped q).bits = setBit q.bits (pos q.W (q.cum + 1)) false := rfl
@[simp] theorem popped_size (q : Q) : (popped q).size = q.size - 1 := rfl
@[simp] theorem popped_tail (q : Q) : (popped q).tail = q.tail := rfl

@[simp] theorem forced_W (q : Q) : (forced q).W = q.W := rfl
@[simp] theorem forced_cum (q : Q) : (forced q).cum = q.cum + 1 := rfl
@[simp] theorem forced_maxOff (q : Q) : (forced q).maxOff = q.maxOff := rfl
@[simp] theorem forced_bits (q : Q) : (forced q).bits = q.bits := rfl
@[simp] theorem forced_size (q : Q) : (forced q).size = q.size := rfl
@[simp] theorem forced_tail (q : Q) :
    (forced q).tail = if q.size == 0 then q.cum + 1 else q.tail := rfl

theorem pop_ok (q : Q) (f : Bool) : (pop q f).2 = hasChunk q (q.cum + 1) := by
  simp only [pop]
  cases hasChunk q (q.cum + 1) <;> cases f <;> simp

theorem pop_state (q : Q) (f : Bool) :
    (pop q f).1 = if hasChunk q (q.cum + 1) then popped q else if f then forced q else q := by
  simp only [pop, popped, forced]
  cases hasChunk q (q.cum + 1) <;> cases f <;> simp

theorem dtail_popped {q : Q} (h : 1 ≤ dtail q) : dtail (popped q) = dtail q - 1 := by
  simp only [dtail, popped_tail, popped_cum] at *; exact off_succ _ _ h

theorem popped_inv {q : Q} (I : Inv q) (h : held q (q.cum + 1)) : Inv (popped q) := by
  obtain ⟨_, h2, h3⟩ := h
  obtain ⟨hb1, hb2⟩ := I.hb
  have hN := I.hmax
  rw [off_one] at h2
  have hdt := dtail_popped h2
  have hcn := cnt_setBit_false_of_true h3
  have hsz := I.hcnt
  -- a bit that survives belongs to a TSN other than cum+1
  have hsurv : ∀ i, getBit (popped q).bits i = true → getBit q.bits i = true ∧ pos q.W (q.cum + 1) ≠ i := by
    intro i hi
    rw [popped_bits, getBit_setBit] at hi
    split at hi
    · exact Bool.noConfusion hi
    · rename_i hne
      refine ⟨hi, fun hp => hne ⟨hp, getBit_lt h3⟩⟩
  refine { toRing := I.toRing.of_eq (by simp) rfl, hcnt := ?_, hwin := ?_, ht0 := ?_, ht1 := ?_, hb := ?_ }
  · rw [popped_size, popped_bits]; omega
  · intro i hi
    obtain ⟨ho, hne⟩ := hsurv i hi
    obtain ⟨t', h1', h2', h3'⟩ := I.hwin i ho
    have hne1 : (t' - q.cum).toNat ≠ 1 := off_ne_one (by rintro rfl; exact hne h3')
    refine ⟨t', ?_, ?_, by simpa using h3'⟩
    · rw [popped_cum, off_succ _ _ h1']; omega
    · rw [hdt, popped_cum, off_succ _ _ h1']; omega
  · intro hs
    rw [popped_size] at hs
    rw [popped_tail, popped_cum]
    have hs1 : q.size ≠ 0 := by omega
    have hc0 : cnt (popped q).bits = 0 := by rw [popped_bits]; omega
    have ht := I.ht1 hs1
    have hnew := (cnt_eq_zero_iff _).mp hc0 (pos q.W q.tail)
    rw [popped_bits, getBit_setBit] at hnew
    split at hnew
    · rename_i hp
      have hp1 := I.dtail_pos hs1
      have h1 := off_one q.cum
      exact (pos_inj I.hdvd q.cum (q.cum + 1) q.tail (by omega) (by simp only [dtail] at *; omega)
        (by omega) hp1 hp.1).symm
    · rw [ht] at hnew; exact Bool.noConfusion hnew
  · intro hs
    rw [popped_size] at hs
    have hs1 : q.size ≠ 0 := by
      intro h0; rw [h0] at hsz; have := cnt_pos_of_getBit h3; omega
    rw [popped_bits, popped_W, popped_tail, getBit_setBit]
    split
    · rename_i hp
      exfalso
      have hp1 := I.dtail_pos hs1
      have h1 := off_one q.cum
      have ht : q.cum + 1 = q.tail :=
        pos_inj I.hdvd q.cum (q.cum + 1) q.tail (by omega) (by simp only [dtail] at *; omega)
          (by omega) hp1 hp.1
      have hd1 : dtail q = 1 := by simp only [dtail, ← ht]; exact h1
      have hc0 : cnt (popped q).bits = 0 := by
        rw [cnt_eq_zero_iff]
        intro i
        cases hi : getBit (popped q).bits i
        · rfl
        · obtain ⟨ho, hne⟩ := hsurv i hi
          obtain ⟨t', h1', h2', h3'⟩ := I.hwin i ho
          have : t' = q.cum + 1 := off_eq q.cum (by omega)
          rw [this] at h3'; exact absurd h3' hne
      rw [popped_bits] at hc0
      omega
    · exact I.ht1 hs1
  · rw [hdt, popped_maxOff]; omega

theorem popped_held {q : Q} (I : Inv q) (h : held q (q.cum + 1)) (t' : TSN) :
    held (popped q) t' ↔ (held q t' ∧ t' ≠ q.cum + 1) := by
  obtain ⟨_, h2, h3⟩ := h
  obtain ⟨hb1, hb2⟩ := I.hb
  have hN := I.hmax
  rw [off_one] at h2
  have hdt := dtail_popped h2
  have h1 := off_one q.cum
  simp only [held, hdt, popped_cum, popped_W, popped_bits]
  rw [getBit_setBit]
  constructor
  · intro ⟨a1, a2, a3⟩
    have hne : t' ≠ q.cum + 1 := by rintro rfl; rw [off_self] at a1; omega
    have hne1 := off_ne_one hne
    have hge : 1 ≤ (t' - q.cum).toNat := by
      apply Classical.byContradiction; intro hlt
      have h0 : (t' - q.cum).toNat = (q.cum - q.cum).toNat := by rw [off_self]; omega
      have := off_eq q.cum h0
      rw [this] at a1 a2
      have : (q.cum - (q.cum + 1)).toNat = 2^32 - 1 := by bv_omega
      omega
    rw [off_succ _ _ hge] at a1 a2
    split at a3
    · exact Bool.noConfusion a3
    · exact ⟨⟨hge, by omega, a3⟩, hne⟩
  · intro ⟨⟨a1, a2, a3⟩, hne⟩
    have hne1 := off_ne_one hne
    rw [off_succ _ _ a1]
    refine ⟨by omega, by omega, ?_⟩
    split
    · rename_i hp
      exact absurd (pos_inj I.hdvd q.cum (q.cum + 1) t' (by omega) (by omega) (by omega) a1 hp.1).symm hne
    · exact a3

theorem dtail_forced {q : Q} (hs : q.size ≠ 0) (h : 1 ≤ dtail q) : dtail (forced q) = dtail q - 1 := by
  have htl : (forced q).tail = q.tail := by simp [hs]
  simp only [dtail, htl, forced_cum] at *; exact off_succ _ _ h

theorem forced_inv {q : Q} (I : Inv q) (h : ¬ held q (q.cum + 1)) : Inv (forced q) := by
  obtain ⟨hb1, hb2⟩ := I.hb
  by_cases hs : q.size = 0
  · exact inv_empty (I.toRing.of_eq rfl rfl) hs (by simp [hs]) (I.size_zero_bits hs)
  · have hp1 := I.dtail_pos hs
    have ht := I.ht1 hs
    have htl : (forced q).tail = q.tail := by simp [hs]
    have hdt := dtail_forced hs hp1
    have hne : dtail q ≠ 1 := by
      intro he; apply h
      have : q.tail = q.cum + 1 := off_eq q.cum (by rw [off_one]; exact he)
      rw [← this]
      exact ⟨hp1, Nat.le_refl _, ht⟩
    refine { toRing := I.toRing.of_eq rfl rfl, hcnt := I.hcnt, hwin := ?_, ht0 := ?_, ht1 := ?_, hb := ?_ }
    · intro i hi
      obtain ⟨t', h1', h2', h3'⟩ := I.hwin i hi
      have hne1 : (t' - q.cum).toNat ≠ 1 := off_ne_one (by
        rintro rfl; exact h ⟨h1', h2', by rw [h3']; exact hi⟩)
      refine ⟨t', ?_, ?_, h3'⟩
      · rw [forced_cum, off_succ _ _ h1']; omega
      · rw [hdt, forced_cum, off_succ _ _ h1']; omega
    · intro h0; exact absurd h0 hs
    · intro _; rw [htl]; exact ht
    · rw [hdt, forced_maxOff]; omega

theorem forced_held {q : Q} (I : Inv q) (h : ¬ held q (q.cum + 1)) (t' : TSN) :
    held (forced q) t' ↔ held q t' := by
  obtain ⟨hb1, hb2⟩ := I.hb
  by_cases hs : q.size = 0
  · have hb := I.size_zero_bits hs
    simp [held, hb]
  · have hp1 := I.dtail_pos hs
    have hdt := dtail_forced hs hp1
    simp only [held, hdt, forced_cum, forced_W, forced_bits]
    constructor
    · intro ⟨a1, a2, a3⟩
      have hge : 1 ≤ (t' - q.cum).toNat := by
        apply Classical.byContradiction; intro hlt
        have h0 : (t' - q.cum).toNat = (q.cum - q.cum).toNat := by rw [off_self]; omega
        have := off_eq q.cum h0
        rw [this] at a1 a2
        have : (q.cum - (q.cum + 1)).toNat = 2^32 - 1 := by bv_omega
        omega
      rw [off_succ _ _ hge] at a1 a2
      exact ⟨hge, by omega, a3⟩
    · intro ⟨a1, a2, a3⟩
      have hne1 : (t' - q.cum).toNat ≠ 1 := off_ne_one (by
        rintro rfl; exact h ⟨a1, a2, a3⟩)
      rw [off_succ _ _ a1]
      exact ⟨by omega, by omega, a3⟩

theorem pop_inv {q : Q} (I : Inv q) (f : Bool) : Inv (pop q f).1 := by
  rw [pop_state]
  by_cases hc : hasChunk q (q.cum + 1) = true
  · simp only [hc, ite_true]; exact popped_inv I ((hasChunk_iff I _).mp hc)
  · have hnh := mt (hasChunk_iff I _).mpr hc
    simp only [hc, Bool.false_eq_true, ite_false]
    cases f
    · exact I
    · exact forced_inv I hnh

end RecvQ
