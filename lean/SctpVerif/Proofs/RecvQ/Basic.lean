import SctpVerif.Model.RecvQ
import SctpVerif.Proofs.Sna
/-!
Lemmas about the L0 model of `receivePayloadQueue` (Model/RecvQ.lean): bit-array algebra,
the ring index `pos`, the sizing function `Gen.tsnBitmaskWords`, the representation invariant
`Inv`, its preservation by every operation, and the characterisations of `hasChunk`, `canPush`,
`push`, `pop`, `advance`, `gaps` in terms of the set of held offsets.
-/
namespace RecvQ
open Gen Sna

/-! ## 1. bit arrays -/

/-- number of set bits -/
def cnt (b : Array Bool) : Nat := b.count true

theorem getBit_setBit (b : Array Bool) (i j : Nat) (v : Bool) :
    getBit (setBit b i v) j = if i = j ∧ i < b.size then v else getBit b j := by
  simp only [getBit, setBit, Array.getD_eq_getD_getElem?, Array.getElem?_setIfInBounds]
  by_cases hij : i = j
  · subst hij
    by_cases hi : i < b.size
    · simp [hi]
    · simp [hi]
  · simp [hij]

@[simp] theorem size_setBit (b : Array Bool) (i : Nat) (v : Bool) : (setBit b i v).size = b.size := by
  simp [setBit]

@[simp] theorem getBit_replicate (n j : Nat) : getBit (Array.replicate n false) j = false := by
  simp only [getBit, Array.getD_eq_getD_getElem?, Array.getElem?_replicate]
  split <;> rfl

theorem getBit_lt {b : Array Bool} {i : Nat} (h : getBit b i = true) : i < b.size := by
  apply Classical.byContradiction; intro hn
  simp [getBit, Array.getD_eq_getD_getElem?, Array.getElem?_eq_none (Nat.le_of_not_lt hn)] at h

theorem getBit_eq_getElem {b : Array Bool} {i : Nat} (h : i < b.size) : getBit b i = b[i] := by
  simp [getBit, h]

@[simp] theorem cnt_replicate (n : Nat) : cnt (Array.replicate n false) = 0 := by
  simp [cnt, Array.count_replicate]

theorem cnt_setBit_true {b : Array Bool} {i : Nat} (hi : i < b.size) (h : getBit b i = false) :
    cnt (setBit b i true) = cnt b + 1 := by
  rw [getBit_eq_getElem hi] at h
  simp [cnt, setBit, Array.setIfInBounds_def, hi, Array.count_set, h]

theorem cnt_setBit_false_of_true {b : Array Bool} {i : Nat} (h : getBit b i = true) :
    cnt (setBit b i false) + 1 = cnt b := by
  have hi := getBit_lt h
  rw [getBit_eq_getElem hi] at h
  have hle := Array.boole_getElem_le_count (xs := b) (a := true) hi
  simp only [h, beq_self_eq_true, ite_true] at hle
  simp only [cnt, setBit, Array.setIfInBounds_def, hi, dite_true, Array.count_set, h]
  simp only [beq_self_eq_true, ite_true]
  have : (false == true) = false := rfl
  simp only [this]
  simp only [Bool.false_eq_true, ite_false]
  omega

theorem cnt_setBit_false_of_false {b : Array Bool} {i : Nat} (h : getBit b i = false) :
    cnt (setBit b i false) = cnt b := by
  by_cases hi : i < b.size
  · rw [getBit_eq_getElem hi] at h
    simp [cnt, setBit, Array.setIfInBounds_def, hi, Array.count_set, h]
  · simp [setBit, Array.setIfInBounds_eq_of_size_le (Nat.le_of_not_lt hi)]

theorem cnt_eq_zero_iff (b : Array Bool) : cnt b = 0 ↔ ∀ i, getBit b i = false := by
  simp only [cnt, Array.count_eq_zero]
  constructor
  · intro h i
    by_cases hi : i < b.size
    · rw [getBit_eq_getElem hi]
      cases hb : b[i]
      · rfl
      · exact absurd (hb ▸ Array.getElem_mem hi) h
    · cases hb : getBit b i
      · rfl
      · exact absurd (getBit_lt hb) hi
  · intro h hm
    obtain ⟨i, hi, hb⟩ := Array.mem_iff_getElem.mp hm
    have := h i
    rw [getBit_eq_getElem hi, hb] at this
    exact Bool.noConfusion this

theorem cnt_pos_of_getBit {b : Array Bool} {i : Nat} (h : getBit b i = true) : 0 < cnt b := by
  apply Nat.pos_of_ne_zero; intro h0
  have := (cnt_eq_zero_iff b).mp h0 i
  rw [h] at this; exact Bool.noConfusion this

/-! ## 2. the ring index -/

/-- Appendix C `ring_idx`: the Go index expression is `t mod 64·W`. -/
theorem pos_eq (W : Nat) (t : TSN) : pos W t = t.toNat % (64 * W) := by
  simp only [pos]
  rw [Nat.mod_mul, Nat.add_comm, Nat.mul_comm]

theorem pos_lt {W : Nat} (hW : 0 < W) (t : TSN) : pos W t < 64 * W := by
  rw [pos_eq]; exact Nat.mod_lt _ (by omega)

/-- window injectivity on naturals: `N` consecutive numbers have distinct residues mod `N` -/
theorem mod_window_inj {N c d1 d2 : Nat} (h1 : d1 < N) (h2 : d2 < N)
    (h : (c + d1) % N = (c + d2) % N) : d1 = d2 := by
  rcases Nat.lt_or_ge d1 d2 with hlt | hge
  · have h0 : ((c + d2) - (c + d1)) % N = 0 := Nat.sub_mod_eq_zero_of_mod_eq h.symm
    have hd : (c + d2) - (c + d1) = d2 - d1 := by omega
    rw [hd] at h0
    have := Nat.eq_zero_of_dvd_of_lt (Nat.dvd_of_mod_eq_zero h0) (by omega : d2 - d1 < N)
    omega
  · have h0 : ((c + d1) - (c + d2)) % N = 0 := Nat.sub_mod_eq_zero_of_mod_eq h
    have hd : (c + d1) - (c + d2) = d1 - d2 := by omega
    rw [hd] at h0
    have := Nat.eq_zero_of_dvd_of_lt (Nat.dvd_of_mod_eq_zero h0) (by omega : d1 - d2 < N)
    omega

/-- when `64·W` divides `2^32`, `pos` of `c + d` is computed without the 2^32 wrap. -/
theorem pos_add {W : Nat} (hd : 64 * W ∣ 2^32) (c d : TSN) :
    pos W (c + d) = (c.toNat + d.toNat) % (64 * W) := by
  rw [pos_eq, BitVec.toNat_add, Nat.mod_mod_of_dvd _ hd]

/-- **ring injectivity** — any window of `64·W` consecutive TSNs (also one that straddles the
2^32 wrap) is mapped injectively into the bitmap when `64·W ∣ 2^32`. -/
theorem pos_inj_off {W : Nat} (hd : 64 * W ∣ 2^32) (c d1 d2 : TSN)
    (h1 : d1.toNat < 64 * W) (h2 : d2.toNat < 64 * W)
    (h : pos W (c + d1) = pos W (c + d2)) : d1 = d2 := by
  rw [pos_add hd, pos_add hd] at h
  exact BitVec.eq_of_toNat_eq (mod_window_inj h1 h2 h)

/-- the same, for two TSNs given by their distance from a common base `c`; the window may be
`[c, c+N)` or `(c, c+N]`. -/
theorem pos_inj {W : Nat} (hd : 64 * W ∣ 2^32) (c t1 t2 : TSN)
    (h1 : (t1 - c).toNat ≤ 64 * W) (h2 : (t2 - c).toNat ≤ 64 * W)
    (h1' : 1 ≤ (t1 - c).toNat) (h2' : 1 ≤ (t2 - c).toNat)
    (h : pos W t1 = pos W t2) : t1 = t2 := by
  have e1 : t1 = (c + 1) + (t1 - c - 1) := by bv_omega
  have e2 : t2 = (c + 1) + (t2 - c - 1) := by bv_omega
  rw [e1, e2] at h
  have := pos_inj_off hd (c + 1) (t1 - c - 1) (t2 - c - 1) (by bv_omega) (by bv_omega) h
  bv_omega


/-! ## 2b. offsets from a base (standalone BitVec facts, so that the big proofs stay in `Nat`) -/

theorem off_self (c : TSN) : (c - c).toNat = 0 := by bv_omega
theorem off_one (c : TSN) : ((c + 1) - c).toNat = 1 := by bv_omega
theorem off_succ (t c : TSN) (h : 1 ≤ (t - c).toNat) : (t - (c + 1)).toNat = (t - c).toNat - 1 := by
  bv_omega
theorem off_rebase (t c c' : TSN) (h : (c' - c).toNat ≤ (t - c).toNat) :
    (t - c').toNat = (t - c).toNat - (c' - c).toNat := by bv_omega
theorem off_eq {t t' : TSN} (c : TSN) (h : (t - c).toNat = (t' - c).toNat) : t = t' := by bv_omega
theorem off_ne_one {t c : TSN} (h : t ≠ c + 1) : (t - c).toNat ≠ 1 := by
  intro h1; exact h (off_eq c (by rw [h1, off_one]))

/-! ## 3. the sizing function `Gen.tsnBitmaskWords` (translator-generated) -/

/-- `tsnBitmaskWords` of a multiple of 64 is a power of two `2^k`, `k ≤ 26`, that covers it. -/
theorem words_pow2 (m : TSN) (hm : m.toNat % 64 = 0) :
    ∃ k, k ≤ 26 ∧ tsnBitmaskWords m = ((2^k : Nat) : Int) ∧ m.toNat ≤ 64 * 2^k := by
  simp only [tsnBitmaskWords]
  have hw : ((m + 63#32) / 64#32).toNat = m.toNat / 64 := by
    rw [BitVec.toNat_udiv]
    simp only [BitVec.toNat_add, BitVec.toNat_ofNat, Nat.reducePow, Nat.reduceMod]
    have := m.isLt; omega
  split
  · rename_i h
    refine ⟨0, by omega, by simp, ?_⟩
    have h' : ((m + 63#32) / 64#32).toNat ≤ 1 := by simpa [BitVec.le_def] using h
    omega
  · rename_i h
    have h' : ¬ ((m + 63#32) / 64#32).toNat ≤ 1 := by simpa [BitVec.le_def] using h
    rw [hw] at h'
    have hv : (((m + 63#32) / 64#32) - 1#32).toNat = m.toNat / 64 - 1 := by
      rw [BitVec.toNat_sub]
      simp only [hw, BitVec.toNat_ofNat, Nat.reducePow, Nat.reduceMod]
      have := m.isLt; omega
    simp only [len32, hv]
    have hne : m.toNat / 64 - 1 ≠ 0 := by omega
    simp only [hne, ite_false]
    refine ⟨Nat.log2 (m.toNat / 64 - 1) + 1, ?_, ?_, ?_⟩
    · have : Nat.log2 (m.toNat / 64 - 1) < 26 := (Nat.log2_lt hne).mpr (by have := m.isLt; omega)
      omega
    · simp only [Int.toNat_natCast, Int.one_mul]
      norm_cast
    · have := Nat.lt_log2_self (n := m.toNat / 64 - 1)
      omega

theorem pow2_dvd {k : Nat} (hk : k ≤ 26) : 64 * 2^k ∣ 2^32 := by
  have : 64 * 2^k = 2^(6+k) := by rw [Nat.pow_add]
  rw [this]; exact Nat.pow_dvd_pow 2 (by omega)

/-! ## 4. the representation invariant -/

/-- distance of the tail from the cumulative point -/
def dtail (q : Q) : Nat := (q.tail - q.cum).toNat

/-- static part: geometry of the bitmap (never changes after `new`). -/
structure Ring (q : Q) : Prop where
  hsz  : q.bits.size = 64 * q.W
  hW   : 0 < q.W
  hdvd : 64 * q.W ∣ 2^32
  hmax : q.maxOff.toNat ≤ 64 * q.W

/-- offset `d = t - cum` is currently held (received, accepted, not yet covered). -/
def held (q : Q) (t : TSN) : Prop :=
  1 ≤ (t - q.cum).toNat ∧ (t - q.cum).toNat ≤ dtail q ∧ getBit q.bits (pos q.W t) = true

structure Inv (q : Q) : Prop extends Ring q where
  hcnt : q.size = (cnt q.bits : Int)
  hwin : ∀ i, getBit q.bits i = true →
           ∃ t, 1 ≤ (t - q.cum).toNat ∧ (t - q.cum).toNat ≤ dtail q ∧ pos q.W t = i
  ht0  : q.size = 0 → q.tail = q.cum
  ht1  : q.size ≠ 0 → getBit q.bits (pos q.W q.tail) = true
  hb   : dtail q ≤ q.maxOff.toNat ∧ dtail q ≤ 2^31

theorem Ring.of_eq {q q' : Q} (r : Ring q) (hb : q'.bits.size = q.bits.size)
    (hm : q'.maxOff = q.maxOff) : Ring q' := by
  have hW : q'.W = q.W := by simp [Q.W, hb]
  exact ⟨by rw [hb, hW]; exact r.hsz, hW ▸ r.hW, hW ▸ r.hdvd, by rw [hm, hW]; exact r.hmax⟩

theorem new_ring (m0 : TSN) : Ring (new m0) := by
  have hm : (((m0 + 63#32) / 64#32) * 64#32).toNat % 64 = 0 := by
    rw [BitVec.toNat_mul, BitVec.toNat_udiv]
    simp only [BitVec.toNat_add, BitVec.toNat_ofNat, Nat.reducePow, Nat.reduceMod]
    omega
  obtain ⟨k, hk, hw, hle⟩ := words_pow2 _ hm
  have hW : (new m0).W = 2^k := by
    simp only [Q.W, new, Array.size_replicate, hw, Int.toNat_natCast]; omega
  refine ⟨?_, ?_, ?_, ?_⟩
  · rw [hW]; simp only [new, Array.size_replicate, hw, Int.toNat_natCast]
  · rw [hW]; exact Nat.pow_pos (by omega)
  · rw [hW]; exact pow2_dvd hk
  · rw [hW]; exact hle

/-- the bitmap of `new` has `64·2^k` bits, `k ≤ 26` -/
theorem new_size (m0 : TSN) : ∃ k, k ≤ 26 ∧ (new m0).W = 2^k := by
  have hm : (((m0 + 63#32) / 64#32) * 64#32).toNat % 64 = 0 := by
    rw [BitVec.toNat_mul, BitVec.toNat_udiv]
    simp only [BitVec.toNat_add, BitVec.toNat_ofNat, Nat.reducePow, Nat.reduceMod]
    omega
  obtain ⟨k, hk, hw, _⟩ := words_pow2 _ hm
  exact ⟨k, hk, by simp only [Q.W, new, Array.size_replicate, hw, Int.toNat_natCast]; omega⟩

/-- an empty queue with the right geometry satisfies the invariant -/
theorem inv_empty {q : Q} (r : Ring q) (hs : q.size = 0) (ht : q.tail = q.cum)
    (hbits : ∀ i, getBit q.bits i = false) : Inv q where
  toRing := r
  hcnt := by rw [hs, (cnt_eq_zero_iff _).mpr hbits]; rfl
  hwin := by intro i h; rw [hbits] at h; exact Bool.noConfusion h
  ht0 := fun _ => ht
  ht1 := fun h => absurd hs h
  hb := by simp [dtail, ht]

theorem new_inv (m0 : TSN) : Inv (new m0) :=
  inv_empty (new_ring m0) rfl rfl (by intro i; simp [new])

theorem init_ring {q : Q} (r : Ring q) (c : TSN) : Ring (init q c) :=
  r.of_eq (by simp [init]) rfl

theorem init_inv {q : Q} (r : Ring q) (c : TSN) : Inv (init q c) :=
  inv_empty (init_ring r c) rfl rfl (by intro i; simp [init])

/-- every set bit belongs to exactly one TSN of the window `(cum, tail]` -/
theorem Inv.bit_window {q : Q} (I : Inv q) {t : TSN} (h1 : 1 ≤ (t - q.cum).toNat)
    (hN : (t - q.cum).toNat ≤ 64 * q.W) (hb : getBit q.bits (pos q.W t) = true) :
    (t - q.cum).toNat ≤ dtail q := by
  obtain ⟨t', h1', h2', hp⟩ := I.hwin _ hb
  have hdt : dtail q ≤ 64 * q.W := Nat.le_trans I.hb.1 I.hmax
  have := pos_inj I.hdvd q.cum t' t (by omega) hN h1' h1 hp
  rw [← this]; exact h2'

theorem Inv.size_nonneg {q : Q} (I : Inv q) : 0 ≤ q.size := by rw [I.hcnt]; omega

theorem Inv.size_zero_bits {q : Q} (I : Inv q) (h : q.size = 0) (i : Nat) : getBit q.bits i = false := by
  have : cnt q.bits = 0 := by have := I.hcnt; omega
  exact (cnt_eq_zero_iff _).mp this i

theorem Inv.dtail_pos {q : Q} (I : Inv q) (h : q.size ≠ 0) : 1 ≤ dtail q := by
  obtain ⟨t, h1, h2, _⟩ := I.hwin _ (I.ht1 h)
  omega

/-- `hasChunk` is membership in the held set -/
theorem hasChunk_iff {q : Q} (I : Inv q) (t : TSN) : hasChunk q t = true ↔ held q t := by
  obtain ⟨hb1, hb2⟩ := I.hb
  simp only [hasChunk, held, dtail] at *
  by_cases hs : q.size = 0
  · have := I.size_zero_bits hs (pos q.W t)
    simp [hs, this]
  · have hp := I.dtail_pos hs
    simp only [dtail] at hp
    have h1 := lte32_iff t q.cum
    have h2 := gt32_iff t q.tail
    by_cases hl : sna32LTE t q.cum = true
    · have := h1.mp hl
      simp only [hl, Bool.or_true, Bool.true_or, ite_true, Bool.false_eq_true, false_iff]
      intro ⟨_, _, _⟩; bv_omega
    · have hl' := mt h1.mpr hl
      by_cases hg : sna32GT t q.tail = true
      · have := h2.mp hg
        simp only [hg, Bool.or_true, ite_true, Bool.false_eq_true, false_iff]
        intro ⟨_, _, _⟩; bv_omega
      · have hg' := mt h2.mpr hg
        simp only [Bool.not_eq_true] at hl hg
        simp only [hl, hg, beq_iff_eq, hs, Bool.or_false, ite_false]
        constructor
        · intro h; refine ⟨?_, ?_, h⟩ <;> bv_omega
        · exact fun h => h.2.2

/-! ## 5. push / canPush -/

/-- the admission condition of `push`/`canPush` in terms of the offset `d = t - cum`:
`1 ≤ d ≤ maxOff` (and, for absurdly large windows only, `d ≤ 2^31`, `maxOff - d < 2^31`). -/
def admissible (q : Q) (t : TSN) : Prop :=
  1 ≤ (t - q.cum).toNat ∧ (t - q.cum).toNat ≤ q.maxOff.toNat ∧
  (t - q.cum).toNat ≤ 2^31 ∧ q.maxOff.toNat < (t - q.cum).toNat + 2^31

theorem admissible_iff (q : Q) (t : TSN) :
    (sna32GT t (q.cum + q.maxOff) = false ∧ sna32LTE t q.cum = false) ↔ admissible q t := by
  have h1 := lte32_iff t q.cum
  have h2 := gt32_iff t (q.cum + q.maxOff)
  simp only [admissible, ← Bool.not_eq_true, h1, h2]
  constructor
  · intro ⟨_, _⟩; refine ⟨?_, ?_, ?_, ?_⟩ <;> bv_omega
  · intro ⟨_, _, _, _⟩; constructor <;> bv_omega

/-- for windows below 2^31 (every real configuration) admissibility is just `1 ≤ d ≤ maxOff` -/
theorem admissible_small {q : Q} (hm : q.maxOff.toNat < 2^31) (t : TSN) :
    admissible q t ↔ (1 ≤ (t - q.cum).toNat ∧ (t - q.cum).toNat ≤ q.maxOff.toNat) := by
  simp only [admissible]; omega

theorem push_accept_iff {q : Q} (I : Inv q) (t : TSN) :
    (push q t).2 = true ↔ (admissible q t ∧ ¬ held q t) := by
  rw [← admissible_iff, ← hasChunk_iff I]
  simp only [push]
  cases sna32GT t (q.cum + q.maxOff) <;> cases sna32LTE t q.cum <;> cases hasChunk q t <;> simp

theorem canPush_eq_push {q : Q} (t : TSN) : canPush q t = (push q t).2 := by
  simp only [push, canPush]
  cases sna32GT t (q.cum + q.maxOff) <;> cases sna32LTE t q.cum <;> cases hasChunk q t <;> simp

theorem canPush_iff {q : Q} (I : Inv q) (t : TSN) :
    canPush q t = true ↔ (admissible q t ∧ ¬ held q t) := by
  rw [canPush_eq_push, push_accept_iff I]

/-- a rejected push changes nothing but the duplicate list -/
theorem push_reject {q : Q} (t : TSN) (h : (push q t).2 = false) :
    (push q t).1 = q ∨ (push q t).1 = { q with dups := q.dups ++ [t] } := by
  simp only [push] at *
  split
  · exact Or.inl rfl
  · split
    · exact Or.inr rfl
    · rename_i h1 h2; simp [h1, h2] at h

/-- state after an accepted push -/
def pushed (q : Q) (t : TSN) : Q :=
  { q with bits := setBit q.bits (pos q.W t) true, size := q.size + 1,
           tail := if sna32GT t q.tail then t else q.tail }

@[simp] theorem pushed_W (q : Q) (t : TSN) : (pushed q t).W = q.W := by simp [pushed, Q.W]
@[simp] theorem pushed_cum (q : Q) (t : TSN) : (pushed q t).cum = q.cum := rfl
@[simp] theorem pushed_maxOff (q : Q) (t : TSN) : (pushed q t).maxOff = q.maxOff := rfl
@[simp] theorem pushed_bits (q : Q) (t : TSN) : (pushed q t).bits = setBit q.bits (pos q.W t) true := rfl
@[simp] theorem pushed_size (q : Q) (t : TSN) : (pushed q t).size = q.size + 1 := rfl
@[simp] theorem pushed_tail (q : Q) (t : TSN) :
    (pushed q t).tail = if sna32GT t q.tail then t else q.tail := rfl

theorem push_accept_state {q : Q} (t : TSN) (h : (push q t).2 = true) :
    (push q t).1 = pushed q t := by
  simp only [push, pushed] at *
  split
  · rename_i h1; simp [h1] at h
  · split
    · rename_i h1 h2; simp [h1, h2] at h
    · rfl

theorem inv_dups {q : Q} (I : Inv q) (l : List TSN) : Inv { q with dups := l } :=
  { toRing := I.toRing.of_eq rfl rfl, hcnt := I.hcnt, hwin := I.hwin, ht0 := I.ht0, ht1 := I.ht1, hb := I.hb }

/-- in-window comparison with the tail -/
theorem gt_tail_iff {q : Q} (I : Inv q) {t : TSN} (ha : admissible q t) :
    sna32GT t q.tail = true ↔ dtail q < (t - q.cum).toNat := by
  obtain ⟨hb1, hb2⟩ := I.hb
  obtain ⟨a1, a2, a3, a4⟩ := ha
  rw [gt32_iff]; simp only [dtail] at *
  bv_omega

theorem push_inv {q : Q} (I : Inv q) (t : TSN) : Inv (push q t).1 := by
  cases hr : (push q t).2
  · rcases push_reject t hr with h | h <;> rw [h]
    · exact I
    · exact inv_dups I _
  · rw [push_accept_state t hr]
    obtain ⟨ha, hnh⟩ := (push_accept_iff I t).mp hr
    have hgt := gt_tail_iff I ha
    obtain ⟨a1, a2, a3, a4⟩ := ha
    obtain ⟨hb1, hb2⟩ := I.hb
    have hN := I.hmax
    have hlt : pos q.W t < q.bits.size := by rw [I.hsz]; exact pos_lt I.hW t
    -- the bit of `t` is clear
    have hclr : getBit q.bits (pos q.W t) = false := by
      cases hb : getBit q.bits (pos q.W t)
      · rfl
      · exact absurd ⟨a1, I.bit_window a1 (by omega) hb, hb⟩ hnh
    -- new distance of the tail
    have hdt : dtail (pushed q t) = max (dtail q) (t - q.cum).toNat := by
      simp only [dtail, pushed_tail, pushed_cum] at *
      by_cases hg : sna32GT t q.tail = true
      · have := hgt.mp hg; simp only [hg, ite_true]; omega
      · have := mt hgt.mpr hg; simp only [hg]; simp only [Bool.false_eq_true, ite_false]; omega
    refine { toRing := I.toRing.of_eq (by simp) rfl, hcnt := ?_, hwin := ?_, ht0 := ?_, ht1 := ?_, hb := ?_ }
    · rw [pushed_size, pushed_bits, cnt_setBit_true hlt hclr, I.hcnt]; omega
    · intro i hi
      rw [hdt]
      simp only [pushed_cum, pushed_W]
      rw [pushed_bits, getBit_setBit] at hi
      by_cases hp : pos q.W t = i
      · exact ⟨t, a1, by omega, hp⟩
      · simp only [hp, false_and, ite_false] at hi
        obtain ⟨t', h1, h2, h3⟩ := I.hwin i hi
        exact ⟨t', h1, by omega, h3⟩
    · intro h
      have := I.size_nonneg
      rw [pushed_size] at h
      omega
    · intro _
      rw [pushed_bits, pushed_W, pushed_tail, getBit_setBit]
      by_cases hg : sna32GT t q.tail = true
      · simp [hg, hlt]
      · simp only [hg, Bool.false_eq_true, ite_false]
        split
        · rfl
        · apply I.ht1
          intro hs
          have := I.ht0 hs
          have := mt hgt.mpr hg
          simp only [dtail] at this
          bv_omega
    · rw [hdt, pushed_maxOff]; omega

/-- abstract effect of an accepted push: the held set gains exactly `t` -/
theorem push_held {q : Q} (I : Inv q) (t : TSN) (hr : (push q t).2 = true) (t' : TSN) :
    held (push q t).1 t' ↔ (held q t' ∨ t' = t) := by
  have I' := push_inv I t
  rw [push_accept_state t hr] at I' ⊢
  obtain ⟨ha, hnh⟩ := (push_accept_iff I t).mp hr
  have hgt := gt_tail_iff I ha
  obtain ⟨a1, a2, a3, a4⟩ := ha
  obtain ⟨hb1, hb2⟩ := I.hb
  have hN := I.hmax
  have hlt : pos q.W t < q.bits.size := by rw [I.hsz]; exact pos_lt I.hW t
  have hdt : dtail (pushed q t) = max (dtail q) (t - q.cum).toNat := by
    simp only [dtail, pushed_tail, pushed_cum] at *
    by_cases hg : sna32GT t q.tail = true
    · have := hgt.mp hg; simp only [hg, ite_true]; omega
    · have := mt hgt.mpr hg; simp only [hg]; simp only [Bool.false_eq_true, ite_false]; omega
  simp only [held, hdt, pushed_cum, pushed_W, pushed_bits]
  rw [getBit_setBit]
  constructor
  · intro ⟨h1, h2, h3⟩
    by_cases hp : pos q.W t = pos q.W t'
    · right
      exact (pos_inj I.hdvd q.cum t t' (by omega) (by omega) a1 h1 hp).symm
    · left
      simp only [hp, false_and, ite_false] at h3
      exact ⟨h1, I.bit_window h1 (by omega) h3, h3⟩
  · rintro (⟨h1, h2, h3⟩ | rfl)
    · refine ⟨h1, by omega, ?_⟩
      split
      · rfl
      · exact h3
    · exact ⟨a1, by omega, by simp [hlt]⟩

end RecvQ
