import SctpVerif.Proofs.Codec.Stable
import SctpVerif.Gen.CodecFacts
/-!
The model's type dispatch against the dispatch tables the translator reads off the Go source
(`Gen.packetUnmarshalDispatch`, `Gen.buildParamDispatch`, `Gen.buildErrorCauseDispatch`).
-/
namespace Codec
open Res

/-- the Go struct a decoded chunk stands for -/
def Chunk.goStruct : Chunk → String
  | .data .. => "chunkPayloadData"
  | .init .. => "chunkInit"
  | .initAck .. => "chunkInitAck"
  | .sack .. => "chunkSelectiveAck"
  | .heartbeat .. => "chunkHeartbeat"
  | .heartbeatEmpty .. => "chunkHeartbeat"
  | .heartbeatAck .. => "chunkHeartbeatAck"
  | .abort .. => "chunkAbort"
  | .error .. => "chunkError"
  | .shutdown .. => "chunkShutdown"
  | .shutdownAck .. => "chunkShutdownAck"
  | .shutdownComplete .. => "chunkShutdownComplete"
  | .cookieEcho .. => "chunkCookieEcho"
  | .cookieAck .. => "chunkCookieAck"
  | .reconfig .. => "chunkReconfig"
  | .forwardTsn .. => "chunkForwardTSN"
  | .iForwardTsn .. => "chunkIForwardTSN"

def Param.goStruct : Param → String
  | .heartbeatInfo _ => "paramHeartbeatInfo"
  | .stateCookie _ => "paramStateCookie"
  | .outReset .. => "paramOutgoingResetRequest"
  | .reconfigResp .. => "paramReconfigResponse"
  | .ecnCapable => "paramECNCapable"
  | .zeroChecksum _ => "paramZeroChecksumAcceptable"
  | .random _ => "paramRandom"
  | .chunkList _ => "paramChunkList"
  | .reqHmac _ => "paramRequestedHMACAlgorithm"
  | .supportedExt _ => "paramSupportedExtensions"
  | .fwdTsnSupported => "paramForwardTSNSupported"

def CauseKind.goStruct : CauseKind → String
  | .hdr => "errorCauseHeader"
  | .invalidMandatory => "errorCauseInvalidMandatoryParameter"
  | .unrecognizedChunk => "errorCauseUnrecognizedChunkType"
  | .protocolViolation => "errorCauseProtocolViolation"
  | .userAbort => "errorCauseUserInitiatedAbort"

/-- a value every chunk decoder accepts for probing which struct it builds: 16 zero bytes with a zeroed
HEARTBEAT-info header patched in for the two heartbeat types, 4 bytes for SHUTDOWN, a RECONFIG response -/
def probeValue (t : Nat) : Bytes :=
  if t = 4 ∨ t = 5 then [0, 1, 0, 4]
  else if t = 3 then zeros 12
  else if t = 6 ∨ t = 9 then []
  else if t = 7 then zeros 4
  else if t = 130 then [0, 16, 0, 12] ++ zeros 8
  else if t = 194 then zeros 12
  else zeros 16

def probeParam (t : Nat) : Bytes :=
  [byteOf (t / 256), byteOf t, 0, 16] ++ [0, 1, 0, 3, 0, 1, 0, 3, 0, 1, 0, 3].map (BitVec.ofNat 8)

end Codec
