import SctpVerif.Proofs.Codec.Total
/-!
Framing layer: `chunkHeader` round trip, the decoding of one chunk as a function of its own
bytes (locality), shift invariance of the chunk loop, fuel monotonicity.
-/
namespace Codec
open Res

theorem allZero_iff (b : Bytes) : allZero b = true ↔ ∀ x ∈ b, x = 0#8 := by
  simp [allZero, List.all_eq_true]

@[simp] theorem allZero_zeros (n : Nat) : allZero (zeros n) = true := by
  simp [allZero_iff, zeros]

@[simp] theorem allZero_nil : allZero [] = true := rfl

/-- the padding loop over `pre ++ tail` with `pre.length = 4 + vl` checks the first `i` bytes of `tail` -/
theorem paddingLoop_append (pre tail : Bytes) (vl i : Nat) (hpre : pre.length = 4 + vl) (hi : i ≤ tail.length)
    (hz : allZero tail = true) : paddingLoop (pre ++ tail) vl i = .ok () := by
  induction i with
  | zero => simp [paddingLoop]
  | succ i ih =>
    unfold paddingLoop
    have hlt : i < tail.length := by omega
    have : u8At (pre ++ tail) (Gen.chunkHeaderSize + vl + i) = .ok (g8 tail i) := by
      rw [c_chunkHeaderSize, ← hpre, u8At_append_right, u8At_of_lt hlt]
    rw [this]
    have hz' : g8 tail i = 0#8 := by
      rw [allZero_iff] at hz
      apply hz
      simp [g8, List.getD_eq_getElem?_getD, List.getElem?_eq_getElem hlt]
    simp only [ok_bind, hz', ne_eq, not_true_eq_false, if_false]
    exact ih (by omega)

/-- `chunkHeader.unmarshal` on `hdr ++ v ++ tail` when the length field says `4 + |v|` (mod 2^16): the
result is `(type, flags, v)` whatever follows — provided what follows is at least 4 bytes (another
chunk; padding is not looked at then) or all zero. -/
theorem chunkHeaderUnmarshal_append (t f b1 b2 : Byte) (v tail : Bytes)
    (hl : (u16 b1 b2 - trunc16 4).toNat = v.length)
    (ht : 4 ≤ tail.length ∨ allZero tail = true) :
    chunkHeaderUnmarshal (t :: f :: b1 :: b2 :: (v ++ tail)) = .ok (t, f, v) := by
  unfold chunkHeaderUnmarshal
  rw [if_neg (by simp)]
  simp only [u8At_zero, u8At_cons_succ, u16At_cons_succ, u16At_zero, ok_bind, c_chunkHeaderSize, hl]
  have hlen : (t :: f :: b1 :: b2 :: (v ++ tail)).length = 4 + v.length + tail.length := by
    simp; omega
  have hslice : slice (t :: f :: b1 :: b2 :: (v ++ tail)) 4 (4 + v.length) = .ok v := by
    exact slice_mid [t, f, b1, b2] v tail
  rw [hlen, hslice]
  rw [if_neg (by omega)]
  by_cases h4 : ((4 + v.length + tail.length : Nat) : Int) - (((4 : Nat) : Int) + (v.length : Int)) < 4
  · rw [if_pos h4]
    have hz : allZero tail = true := by
      rcases ht with ht | ht
      · omega
      · exact ht
    have : paddingLoop (t :: f :: b1 :: b2 :: (v ++ tail)) v.length
        (((4 + v.length + tail.length : Nat) : Int) - (((4 : Nat) : Int) + (v.length : Int))).toNat = .ok () := by
      have e : (t :: f :: b1 :: b2 :: (v ++ tail)) = (t :: f :: b1 :: b2 :: v) ++ tail := by simp
      rw [e]
      exact paddingLoop_append _ _ _ _ (by simp; omega) (by omega) hz
    rw [this]
    simp
  · rw [if_neg h4]
    simp

theorem trunc16_add4_sub4 {n : Nat} (h : n < 65536) : (trunc16 (n + 4) - trunc16 4).toNat = n := by
  simp only [trunc16, BitVec.toNat_sub, BitVec.toNat_ofNat]
  omega

/-- `chunkHeader.unmarshal ∘ chunkHeader.marshal`: any value shorter than 2^16 bytes, followed either
by at least 4 more bytes (another chunk: padding is not looked at) or by zero bytes only. -/
theorem chunkHeader_roundtrip (t f : Byte) (v tail : Bytes) (hv : v.length < 65536)
    (ht : 4 ≤ tail.length ∨ allZero tail = true) :
    chunkHeaderUnmarshal (chunkHeaderMarshal t f v ++ tail) = .ok (t, f, v) := by
  unfold chunkHeaderMarshal
  simp only [be16, List.cons_append, List.nil_append, c_chunkHeaderSize]
  apply chunkHeaderUnmarshal_append
  · rw [u16_be]; exact trunc16_add4_sub4 hv
  · exact ht

/-! ### one chunk: a function of its own bytes -/

/-- the decoding of a chunk whose length field frames exactly `hdr ++ v`: the result is computed
from type, flags and `v` alone, whatever bytes follow (at least 4, or all zero). -/
theorem decChunk_framed (t f b1 b2 : Byte) (v tail : Bytes)
    (hl : (u16 b1 b2 - trunc16 4).toNat = v.length) (ht : 4 ≤ tail.length ∨ allZero tail = true) :
    decChunk (t :: f :: b1 :: b2 :: (v ++ tail)) =
      if knownChunkType t then (decBody t f v >>= fun c => .ok (c, v.length)) else .err .ErrUnmarshalUnknownChunkType := by
  unfold decChunk
  simp only [u8At_zero, ok_bind, chunkHeaderUnmarshal_append t f b1 b2 v tail hl ht]
  cases knownChunkType t <;> simp

theorem decChunk_marshal (t f : Byte) (v tail : Bytes) (hv : v.length < 65536)
    (ht : 4 ≤ tail.length ∨ allZero tail = true) :
    decChunk (chunkHeaderMarshal t f v ++ tail) =
      if knownChunkType t then (decBody t f v >>= fun c => .ok (c, v.length)) else .err .ErrUnmarshalUnknownChunkType := by
  unfold chunkHeaderMarshal
  simp only [be16, List.cons_append, List.nil_append, c_chunkHeaderSize]
  apply decChunk_framed
  · rw [u16_be]; exact trunc16_add4_sub4 hv
  · exact ht

/-! ### the chunk loop: shift invariance, fuel -/

theorem chunksLoop_shift (raw : Bytes) (fuel off k : Nat) (hoff : off ≤ raw.length) :
    chunksLoop raw fuel (off + k) = chunksLoop (raw.drop off) fuel k := by
  induction fuel generalizing k with
  | zero => rfl
  | succ f ih =>
    unfold chunksLoop
    have hl : (raw.drop off).length = raw.length - off := List.length_drop
    by_cases hlt : off + k < raw.length
    · have hlt' : k < (raw.drop off).length := by omega
      rw [if_pos hlt, if_pos hlt', sliceFrom_of_le (by omega), sliceFrom_of_le (by omega)]
      simp only [ok_bind, List.drop_drop]
      have e : ∀ adv : Nat, chunksLoop raw f (off + k + adv) = chunksLoop (raw.drop off) f (k + adv) := by
        intro adv; rw [Nat.add_assoc]; exact ih _
      simp only [e]
    · have hlt' : ¬ k < (raw.drop off).length := by omega
      rw [if_neg hlt, if_neg hlt']
      by_cases he : off + k = raw.length
      · have he' : k = (raw.drop off).length := by omega
        rw [if_neg (by simpa using he), if_neg (by simpa using he')]
      · have he' : k ≠ (raw.drop off).length := by omega
        rw [if_pos he, if_pos he']

theorem chunksLoop_mono (raw : Bytes) (f off : Nat) (h : chunksLoop raw f off ≠ .loop) :
    chunksLoop raw (f + 1) off = chunksLoop raw f off := by
  induction f generalizing off with
  | zero => exact absurd rfl h
  | succ f ih =>
    rw [chunksLoop.eq_def raw (f + 1 + 1) off, chunksLoop.eq_def raw (f + 1) off]
    rw [chunksLoop.eq_def raw (f + 1) off] at h
    simp only at h ⊢
    split
    · rename_i hlt
      rw [if_pos hlt] at h
      cases hs : sliceFrom raw off with
      | ok rem =>
        rw [hs] at h
        simp only [ok_bind] at h ⊢
        split
        · rfl
        · rename_i h4
          rw [if_neg h4] at h
          cases hd : decChunk rem with
          | ok x =>
            obtain ⟨c, vl⟩ := x
            rw [hd] at h
            simp only [ok_bind] at h ⊢
            have hne : chunksLoop raw f (off + (Gen.chunkHeaderSize + vl + pad4 vl)) ≠ .loop := by
              intro hl; rw [hl] at h; exact h rfl
            rw [ih _ hne]
          | err e => rfl
          | panic => rfl
          | loop => rfl
      | err e => rfl
      | panic => rfl
      | loop => rfl
    · rfl

theorem chunksLoop_mono_le (raw : Bytes) (f f' off : Nat) (hle : f ≤ f') (h : chunksLoop raw f off ≠ .loop) :
    chunksLoop raw f' off = chunksLoop raw f off := by
  induction f' with
  | zero => have : f = 0 := by omega
            subst this; rfl
  | succ g ih =>
    by_cases hfg : f = g + 1
    · subst hfg; rfl
    · have hle' : f ≤ g := by omega
      have := ih hle'
      rw [chunksLoop_mono raw g off (by rw [this]; exact h), this]

/-- decoding of the chunk area of a packet (everything after the 12-byte common header) -/
def decChunks (bs : Bytes) : Res (List Chunk) := chunksLoop bs (bs.length / 4 + 1) 0

/-- any fuel above `len/4` gives the same result as `decChunks` -/
theorem chunksLoop_eq_decChunks (bs : Bytes) (f : Nat) (hf : bs.length / 4 + 1 ≤ f) :
    chunksLoop bs f 0 = decChunks bs := by
  unfold decChunks
  apply chunksLoop_mono_le _ _ _ _ hf
  exact ((safe_iff _).1 (chunksLoop_safe bs _ 0 (by omega) (by omega))).2

theorem decChunks_nil : decChunks [] = .ok [] := by
  simp [decChunks, chunksLoop]

/-- LOCALITY of the chunk loop. For a chunk `hdr ++ v` whose length field frames exactly its own
bytes, followed by its padding and by `rest` (nothing, or at least one more chunk header):
decoding the bundle = decoding this chunk from (type, flags, v) alone, then decoding `rest`.
The padding bytes are looked at only when nothing follows (then they must be zero). -/
theorem decChunks_cons (t f b1 b2 : Byte) (v pad rest : Bytes)
    (hl : (u16 b1 b2 - trunc16 4).toNat = v.length)
    (hpad : pad.length = pad4 v.length)
    (hrest : (rest = [] ∧ allZero pad = true) ∨ 4 ≤ rest.length) :
    decChunks (t :: f :: b1 :: b2 :: (v ++ (pad ++ rest))) =
      ((if knownChunkType t then decBody t f v else .err .ErrUnmarshalUnknownChunkType) >>= fun c =>
        decChunks rest >>= fun cs => .ok (c :: cs)) := by
  have ht : 4 ≤ (pad ++ rest).length ∨ allZero (pad ++ rest) = true := by
    rcases hrest with ⟨h1, h2⟩ | h
    · right; subst h1; simpa using h2
    · left; simp; omega
  have hlen : (t :: f :: b1 :: b2 :: (v ++ (pad ++ rest))).length = 4 + v.length + pad.length + rest.length := by
    simp; omega
  have hdec := decChunk_framed t f b1 b2 v (pad ++ rest) hl ht
  generalize hraw : (t :: f :: b1 :: b2 :: (v ++ (pad ++ rest))) = raw at *
  unfold decChunks
  rw [chunksLoop.eq_def]
  simp only
  rw [if_pos (by omega), sliceFrom_of_le (by omega)]
  simp only [ok_bind, List.drop_zero]
  rw [if_neg (by rw [c_chunkHeaderSize]; omega), hdec]
  cases hk : knownChunkType t
  · simp
  · simp only [if_true]
    cases hb : decBody t f v with
    | ok c =>
      simp only [ok_bind, c_chunkHeaderSize]
      have hshift := chunksLoop_shift raw (raw.length / 4) (4 + v.length + pad4 v.length) 0 (by omega)
      rw [Nat.add_zero] at hshift
      have hdrop : raw.drop (4 + v.length + pad4 v.length) = rest := by
        rw [← hraw, ← hpad]
        have : (t :: f :: b1 :: b2 :: (v ++ (pad ++ rest))) = ([t, f, b1, b2] ++ v ++ pad) ++ rest := by simp
        rw [this]
        have hl' : 4 + v.length + pad.length = ([t, f, b1, b2] ++ v ++ pad).length := by simp; omega
        rw [hl', List.drop_left]
      rw [Nat.zero_add, hshift, hdrop, chunksLoop_eq_decChunks rest _ (by omega)]
      rfl
    | err e => simp
    | panic => simp
    | loop => simp

end Codec
