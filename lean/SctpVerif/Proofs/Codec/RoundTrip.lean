import SctpVerif.Proofs.Codec.Frame
/-!
Round trips: parameters, error causes, each chunk type, bundles, packets.
-/
namespace Codec
open Res CodecSpec

/-- the parameter type number `encParam` writes -/
def ptOf : Param → BitVec 16
  | .heartbeatInfo _ => ptHeartbeatInfo
  | .stateCookie _ => ptStateCookie
  | .outReset .. => ptOutReset
  | .reconfigResp .. => ptReconfigResp
  | .ecnCapable => ptEcn
  | .zeroChecksum _ => ptZeroChecksum
  | .random _ => ptRandom
  | .chunkList _ => ptChunkList
  | .reqHmac _ => ptReqHmac
  | .supportedExt _ => ptSupportedExt
  | .fwdTsnSupported => ptFwdTsnSupp

theorem paramHeaderUnmarshal_cons (a b c d : Byte) (v tail : Bytes) (hl : (u16 c d).toNat = 4 + v.length) :
    paramHeaderUnmarshal (a :: b :: c :: d :: (v ++ tail)) = .ok (u16 a b, v, 4 + v.length) := by
  unfold paramHeaderUnmarshal
  have hlen : (a :: b :: c :: d :: (v ++ tail)).length = 4 + v.length + tail.length := by simp; omega
  rw [if_neg (by rw [hlen, c_paramHeaderLength]; omega)]
  simp only [u16At_zero, u16At_cons_succ, ok_bind]
  rw [hl, if_neg (by rw [c_paramHeaderLength]; omega), if_neg (by rw [hlen]; omega), c_paramHeaderLength]
  have := slice_mid [a, b, c, d] v tail
  simp only [List.cons_append, List.nil_append, List.length_cons, List.length_nil, Nat.zero_add] at this
  rw [this]
  rfl

theorem trunc16_toNat {n : Nat} (h : n < 65536) : (trunc16 n).toNat = n := by
  simp only [trunc16, BitVec.toNat_ofNat]; omega

theorem paramHeader_roundtrip (typ : BitVec 16) (v tail : Bytes) (hv : v.length + 4 < 65536) :
    paramHeaderUnmarshal (paramHeaderMarshal typ v ++ tail) = .ok (typ, v, 4 + v.length) := by
  unfold paramHeaderMarshal
  simp only [be16, List.cons_append, List.nil_append, c_paramHeaderLength]
  have := paramHeaderUnmarshal_cons (byteOf (typ.toNat / 256)) (byteOf typ.toNat)
    (byteOf ((trunc16 (4 + v.length)).toNat / 256)) (byteOf (trunc16 (4 + v.length)).toNat) v tail
    (by rw [u16_be]; exact trunc16_toNat (by omega))
  rw [u16_be] at this
  exact this

/-! ### type numbers as literals -/
@[simp] theorem pt_hb : ptHeartbeatInfo = 1#16 := by decide
@[simp] theorem pt_cookie : ptStateCookie = 7#16 := by decide
@[simp] theorem pt_outreset : ptOutReset = 13#16 := by decide
@[simp] theorem pt_reconfresp : ptReconfigResp = 16#16 := by decide
@[simp] theorem pt_ecn : ptEcn = 32768#16 := by decide
@[simp] theorem pt_zerock : ptZeroChecksum = 32769#16 := by decide
@[simp] theorem pt_random : ptRandom = 32770#16 := by decide
@[simp] theorem pt_chunklist : ptChunkList = 32771#16 := by decide
@[simp] theorem pt_hmac : ptReqHmac = 32772#16 := by decide
@[simp] theorem pt_supext : ptSupportedExt = 32776#16 := by decide
@[simp] theorem pt_fwdtsn : ptFwdTsnSupp = 49152#16 := by decide

/-! ### reading back lists of fixed-size items -/

theorem u16At_mid (pre rest : Bytes) (x : BitVec 16) : u16At (pre ++ (be16 x ++ rest)) pre.length = .ok x := by
  have := u16At_append_right pre (be16 x ++ rest) 0
  rw [Nat.add_zero] at this
  rw [this]; simp [be16]

theorem u32At_mid (pre rest : Bytes) (x : BitVec 32) : u32At (pre ++ (be32 x ++ rest)) pre.length = .ok x := by
  have := u32At_append_right pre (be32 x ++ rest) 0
  rw [Nat.add_zero] at this
  rw [this]; simp [be32]

theorem readU16s_flatten (pre : Bytes) (xs : List (BitVec 16)) (post : Bytes) :
    readU16s (pre ++ ((xs.map be16).flatten ++ post)) pre.length xs.length = .ok xs := by
  induction xs generalizing pre with
  | nil => simp [readU16s]
  | cons x xs ih =>
    simp only [List.map_cons, List.flatten_cons, List.length_cons, List.append_assoc]
    unfold readU16s
    rw [u16At_mid]
    have := ih (pre ++ be16 x)
    simp only [List.append_assoc, List.length_append, be16_length] at this
    simp only [ok_bind, this]

theorem readU32s_flatten (pre : Bytes) (xs : List (BitVec 32)) (post : Bytes) :
    readU32s (pre ++ ((xs.map be32).flatten ++ post)) pre.length xs.length = .ok xs := by
  induction xs generalizing pre with
  | nil => simp [readU32s]
  | cons x xs ih =>
    simp only [List.map_cons, List.flatten_cons, List.length_cons, List.append_assoc]
    unfold readU32s
    rw [u32At_mid]
    have := ih (pre ++ be32 x)
    simp only [List.append_assoc, List.length_append, be32_length] at this
    simp only [ok_bind, this]

theorem readHmacs_flatten (pre : Bytes) (xs : List (BitVec 16)) (fuel : Nat) (hf : xs.length < fuel)
    (hx : ∀ a ∈ xs, a = 1#16 ∨ a = 3#16) :
    readHmacs (pre ++ (xs.map be16).flatten) fuel pre.length = .ok xs := by
  induction xs generalizing pre fuel with
  | nil =>
    cases fuel with
    | zero => omega
    | succ f => simp [readHmacs]
  | cons x xs ih =>
    cases fuel with
    | zero => omega
    | succ f =>
      simp only [List.map_cons, List.flatten_cons]
      unfold readHmacs
      rw [if_pos (by simp only [List.length_append, be16_length]; omega)]
      have hm := u16At_mid pre ((xs.map be16).flatten) x
      rw [hm]
      have hx1 : x = 1#16 ∨ x = 3#16 := hx x (by simp)
      have hv : x.toNat = Gen.hmacSHA128 ∨ x.toNat = Gen.hmacSHA256 := by
        rcases hx1 with h | h <;> subst h <;> simp
      simp only [ok_bind]
      rw [if_pos hv]
      have := ih (pre ++ be16 x) f (by simp at hf; omega) (fun a ha => hx a (by simp [ha]))
      simp only [List.append_assoc, List.length_append, be16_length] at this
      simp only [this, ok_bind]

theorem flatten_be16_length (xs : List (BitVec 16)) : ((xs.map be16).flatten).length = 2 * xs.length := by
  induction xs with
  | nil => rfl
  | cons x xs ih => simp only [List.map_cons, List.flatten_cons, List.length_append, be16_length, ih, List.length_cons]; omega

theorem flatten_be32_length (xs : List (BitVec 32)) : ((xs.map be32).flatten).length = 4 * xs.length := by
  induction xs with
  | nil => rfl
  | cons x xs ih => simp only [List.map_cons, List.flatten_cons, List.length_append, be32_length, ih, List.length_cons]; omega

/-! ### parameters -/

theorem fits_iff (n : Nat) : fits n = true ↔ n + 4 < 65536 := by simp [fits]
theorem fitsV_iff (n : Nat) : fitsV n = true ↔ n < 65536 := by simp [fitsV]

theorem encParam_eq (p : Param) : ∃ v, encParam p = paramHeaderMarshal (ptOf p) v := by
  cases p <;> exact ⟨_, rfl⟩

theorem paramHeaderMarshal_length (t : BitVec 16) (v : Bytes) : (paramHeaderMarshal t v).length = 4 + v.length := by
  simp [paramHeaderMarshal]; omega

/-- `buildParam ∘ marshal` for each of the 11 parameter structs, whatever bytes follow -/
theorem buildParam_roundtrip (p : Param) (tail : Bytes) (h : CodecSpec.wfParam p = true) :
    buildParam (ptOf p) (encParam p ++ tail) = .ok (p, (encParam p).length) := by
  cases p with
  | heartbeatInfo i =>
    simp only [CodecSpec.wfParam, fits_iff] at h
    simp only [ptOf, encParam, buildParam, paramHeader_roundtrip _ _ _ h, paramHeaderMarshal_length]; simp
  | stateCookie c =>
    simp only [CodecSpec.wfParam, fits_iff] at h
    simp only [ptOf, encParam, buildParam, paramHeader_roundtrip _ _ _ h, paramHeaderMarshal_length]; simp
  | random d =>
    simp only [CodecSpec.wfParam, fits_iff] at h
    simp only [ptOf, encParam, buildParam, paramHeader_roundtrip _ _ _ h, paramHeaderMarshal_length]; simp
  | chunkList t =>
    simp only [CodecSpec.wfParam, fits_iff] at h
    simp only [ptOf, encParam, buildParam, paramHeader_roundtrip _ _ _ h, paramHeaderMarshal_length]; simp
  | supportedExt t =>
    simp only [CodecSpec.wfParam, fits_iff] at h
    simp only [ptOf, encParam, buildParam, paramHeader_roundtrip _ _ _ h, paramHeaderMarshal_length]; simp
  | ecnCapable =>
    simp only [ptOf, encParam, buildParam, paramHeader_roundtrip _ [] _ (by simp), paramHeaderMarshal_length]; simp
  | fwdTsnSupported =>
    simp only [ptOf, encParam, buildParam, paramHeader_roundtrip _ [] _ (by simp), paramHeaderMarshal_length]; simp
  | zeroChecksum e =>
    simp only [ptOf, encParam, buildParam, paramHeader_roundtrip _ (be32 e) _ (by simp), paramHeaderMarshal_length]
    simp [be32]
  | reconfigResp sn r =>
    simp only [ptOf, encParam, buildParam, paramHeader_roundtrip _ (be32 sn ++ be32 r) _ (by simp), paramHeaderMarshal_length]
    simp [be32]
  | reqHmac as =>
    simp only [CodecSpec.wfParam, fits_iff, Bool.and_eq_true, List.all_eq_true, Bool.or_eq_true, decide_eq_true_eq] at h
    obtain ⟨hfit, hall⟩ := h
    have hlen := flatten_be16_length as
    simp only [ptOf, encParam, buildParam, paramHeader_roundtrip _ ((as.map be16).flatten) _ (by omega),
      paramHeaderMarshal_length]
    have hr := readHmacs_flatten [] as (as.length + 1) (by omega) hall
    simp only [List.nil_append, List.length_nil] at hr
    simp [hr, hlen]
  | outReset a b c sids =>
    simp only [CodecSpec.wfParam, fits_iff] at h
    have hlen := flatten_be16_length sids
    have hl : (be32 a ++ be32 b ++ be32 c ++ (sids.map be16).flatten).length = 12 + 2 * sids.length := by
      simp [hlen]; omega
    simp only [ptOf, encParam, buildParam, paramHeader_roundtrip _ _ _ (by rw [hl]; omega), paramHeaderMarshal_length]
    have hr := readU16s_flatten (be32 a ++ be32 b ++ be32 c) sids []
    simp only [List.append_nil, List.length_append, be32_length] at hr
    have hlim : ((be32 a ++ be32 b ++ be32 c ++ (sids.map be16).flatten).length -
        Gen.paramOutgoingResetRequestStreamIdentifiersOffset) / 2 = sids.length := by
      rw [hl, c_outResetOffset]; omega
    rw [show (4 + 4 + 4 : Nat) = 12 from rfl] at hr
    simp only [pt_outreset, pt_fwdtsn, pt_supext, pt_ecn, pt_random, pt_hmac, pt_chunklist, pt_cookie, pt_hb, ok_bind,
      BitVec.reduceEq, ↓reduceIte, c_outResetOffset]
    have hnot : ¬ (12 + 2 * sids.length < 12) := by omega
    simp only [hl, hnot, ↓reduceIte]
    simp only [be32, List.cons_append, List.nil_append, List.append_assoc] at hr
    simp [be32, hr]

/-! ### error causes -/
@[simp] theorem cc_unrec : ccUnrecognizedChunk = 6#16 := by decide
@[simp] theorem cc_invparam : ccInvalidMandatory = 7#16 := by decide
@[simp] theorem cc_uabort : ccUserAbort = 12#16 := by decide
@[simp] theorem cc_pviol : ccProtocolViolation = 13#16 := by decide

theorem causeHeaderMarshal_ok (code : BitVec 16) (raw : Bytes) (h : raw.length + 4 < 65536) :
    causeHeaderMarshal code raw = .ok (be16 code ++ be16 (trunc16 (raw.length + 4)) ++ raw) := by
  unfold causeHeaderMarshal
  have he : trunc16 raw.length + trunc16 Gen.errorCauseHeaderLength = trunc16 (raw.length + 4) := by
    apply BitVec.eq_of_toNat_eq
    simp only [trunc16, c_errorCauseHeaderLength, BitVec.toNat_add, BitVec.toNat_ofNat]
    omega
  have hn : (trunc16 (raw.length + 4)).toNat = raw.length + 4 := trunc16_toNat (by omega)
  simp only [he]
  simp only [hn, c_errorCauseHeaderLength]
  rw [if_neg (by omega)]
  simp

theorem causeHeaderUnmarshal_cons (a b c d : Byte) (v tail : Bytes) (hl : (u16 c d).toNat = 4 + v.length) :
    causeHeaderUnmarshal (a :: b :: c :: d :: (v ++ tail)) = .ok (u16 a b, 4 + v.length, v) := by
  unfold causeHeaderUnmarshal
  have hlen : (a :: b :: c :: d :: (v ++ tail)).length = 4 + v.length + tail.length := by simp; omega
  simp only [u16At_zero, u16At_cons_succ, ok_bind]
  rw [if_neg (by rw [hl, hlen, c_errorCauseHeaderLength]; omega)]
  have hvl : (u16 c d - trunc16 Gen.errorCauseHeaderLength).toNat = v.length := by
    simp only [trunc16, c_errorCauseHeaderLength, BitVec.toNat_sub, BitVec.toNat_ofNat, hl]; omega
  rw [hvl, c_errorCauseHeaderLength]
  have := slice_mid [a, b, c, d] v tail
  simp only [List.cons_append, List.nil_append, List.length_cons, List.length_nil, Nat.zero_add, Nat.reduceAdd] at this
  rw [this, hl]
  rfl

/-- the code `encCause` puts on the wire -/
def wireCode (c : Cause) : BitVec 16 :=
  match c.kind with
  | .unrecognizedChunk => ccUnrecognizedChunk
  | .userAbort => ccUserAbort
  | _ => c.code

/-- the bytes `encCause` produces for a cause whose data fits -/
def causeBytes (c : Cause) : Bytes := be16 (wireCode c) ++ be16 (trunc16 (c.data.length + 4)) ++ c.data

theorem causeBytes_length (c : Cause) : (causeBytes c).length = 4 + c.data.length := by
  simp [causeBytes]; omega

theorem encCause_ok (c : Cause) (h : wfCause c = true) : encCause c = .ok (causeBytes c) := by
  obtain ⟨kind, code, data⟩ := c
  simp only [wfCause, Bool.and_eq_true, fits_iff] at h
  cases kind <;> simp only [encCause, causeBytes, wireCode] <;> exact causeHeaderMarshal_ok _ _ h.1

/-- `buildErrorCause ∘ marshal` for the five cause structs, whatever bytes follow -/
theorem buildErrorCause_roundtrip (c : Cause) (tail : Bytes) (h : wfCause c = true) :
    buildErrorCause (causeBytes c ++ tail) = .ok (c, 4 + c.data.length) := by
  obtain ⟨kind, code, data⟩ := c
  simp only [wfCause, Bool.and_eq_true, fits_iff] at h
  obtain ⟨hfit, hk⟩ := h
  have key : ∀ code' : BitVec 16,
      (if code' = ccInvalidMandatory then CauseKind.invalidMandatory
        else if code' = ccUnrecognizedChunk then .unrecognizedChunk
        else if code' = ccProtocolViolation then .protocolViolation
        else if code' = ccUserAbort then .userAbort else .hdr) = kind →
      buildErrorCause (be16 code' ++ be16 (trunc16 (data.length + 4)) ++ data ++ tail)
        = .ok ({ kind := kind, code := code', data := data }, 4 + data.length) := by
    intro code' hkind
    unfold buildErrorCause
    simp only [be16, List.cons_append, List.nil_append, u16At_zero, ok_bind, u16_be]
    have := causeHeaderUnmarshal_cons (byteOf (code'.toNat / 256)) (byteOf code'.toNat)
      (byteOf ((trunc16 (data.length + 4)).toNat / 256)) (byteOf (trunc16 (data.length + 4)).toNat) data tail
      (by rw [u16_be, trunc16_toNat (by omega)]; omega)
    rw [u16_be] at this
    rw [this]
    simp only [ok_bind, hkind]
  simp only [causeBytes, wireCode]
  cases kind with
  | hdr =>
    apply key
    simp only [bne_iff_ne, ne_eq, Bool.and_eq_true, decide_eq_true_eq, cc_unrec, cc_invparam, cc_uabort, cc_pviol] at hk
    obtain ⟨⟨⟨h1, h2⟩, h3⟩, h4⟩ := hk
    simp [h1, h2, h3, h4]
  | invalidMandatory =>
    apply key
    simp only [decide_eq_true_eq] at hk
    simp [hk]
  | protocolViolation =>
    apply key
    simp only [decide_eq_true_eq] at hk
    simp [hk]
  | unrecognizedChunk =>
    simp only [decide_eq_true_eq] at hk
    subst hk
    apply key
    simp
  | userAbort =>
    simp only [decide_eq_true_eq] at hk
    subst hk
    apply key
    simp

theorem encCauses_ok (cs : List Cause) (hwf : ∀ c ∈ cs, wfCause c = true) :
    encCauses cs = .ok (cs.map causeBytes).flatten := by
  induction cs with
  | nil => rfl
  | cons c cs ih =>
    unfold encCauses
    rw [encCause_ok c (hwf c (by simp)), ih (fun x hx => hwf x (by simp [hx]))]
    simp

theorem causes_flatten_length (cs : List Cause) :
    ((cs.map causeBytes).flatten).length = (cs.map fun c => 4 + c.data.length).sum := by
  induction cs with
  | nil => rfl
  | cons c cs ih => simp [causeBytes_length, ih]

/-- the cause loop of ABORT / ERROR reads back what `encCauses` wrote (causes are not padded) -/
theorem causesLoop_roundtrip (pre : Bytes) (cs : List Cause) (fuel : Nat) (hf : cs.length < fuel)
    (hwf : ∀ c ∈ cs, wfCause c = true) :
    causesLoop (pre ++ (cs.map causeBytes).flatten) fuel pre.length = .ok cs := by
  induction cs generalizing pre fuel with
  | nil =>
    cases fuel with
    | zero => omega
    | succ f =>
      unfold causesLoop
      rw [if_neg (by simp)]
  | cons c cs ih =>
    cases fuel with
    | zero => omega
    | succ f =>
      unfold causesLoop
      have hcl := causeBytes_length c
      rw [if_pos (by simp only [List.map_cons, List.flatten_cons, List.length_append, hcl]; omega)]
      rw [sliceFrom_append]
      simp only [ok_bind, List.map_cons, List.flatten_cons]
      rw [buildErrorCause_roundtrip c _ (hwf c (by simp))]
      have := ih (pre ++ causeBytes c) f (by simp at hf; omega) (fun x hx => hwf x (by simp [hx]))
      simp only [List.append_assoc, List.length_append, hcl] at this
      simp only [ok_bind, this]

end Codec
