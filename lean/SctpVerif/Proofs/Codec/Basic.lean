import SctpVerif.Model.Codec
import SctpVerif.Spec.CodecSpec
/-!
Framing-layer lemmas for the codec model: the `Res` monad, checked reads, big-endian round trips,
padding arithmetic.
-/
namespace Codec
open Res

/-! ### the `Res` monad -/
@[simp] theorem ok_bind {α β : Type} (a : α) (f : α → Res β) : (Res.ok a >>= f) = f a := rfl
@[simp] theorem err_bind {α β : Type} (e : Err) (f : α → Res β) : (Res.err e >>= f) = Res.err e := rfl
@[simp] theorem panic_bind {α β : Type} (f : α → Res β) : (Res.panic >>= f) = Res.panic := rfl
@[simp] theorem loop_bind {α β : Type} (f : α → Res β) : (Res.loop >>= f) = Res.loop := rfl
@[simp] theorem pure_eq {α : Type} (a : α) : (pure a : Res α) = Res.ok a := rfl
@[simp] theorem wrap_ok {α : Type} (a : α) (e : Err) : (Res.ok a).wrap e = Res.ok a := rfl
@[simp] theorem wrap_err {α : Type} (e' e : Err) : (Res.err e' : Res α).wrap e = Res.err e := rfl
@[simp] theorem wrap_panic {α : Type} (e : Err) : (Res.panic : Res α).wrap e = Res.panic := rfl
@[simp] theorem wrap_loop {α : Type} (e : Err) : (Res.loop : Res α).wrap e = Res.loop := rfl

/-- neither a runtime panic nor an exhausted loop bound -/
def Res.Safe {α : Type} (x : Res α) : Prop := x ≠ .panic ∧ x ≠ .loop

@[simp] theorem safe_ok {α : Type} (a : α) : (Res.ok a).Safe := by simp [Res.Safe]
@[simp] theorem safe_err {α : Type} (e : Err) : (Res.err e : Res α).Safe := by simp [Res.Safe]
@[simp] theorem safe_panic {α : Type} : ¬ (Res.panic : Res α).Safe := by simp [Res.Safe]
@[simp] theorem safe_loop {α : Type} : ¬ (Res.loop : Res α).Safe := by simp [Res.Safe]

theorem safe_bind {α β : Type} {x : Res α} {f : α → Res β} (hx : x.Safe) (hf : ∀ a, x = .ok a → (f a).Safe) :
    (x >>= f).Safe := by
  cases x with
  | ok a => exact hf a rfl
  | err e => simp
  | panic => exact absurd hx safe_panic
  | loop => exact absurd hx safe_loop

theorem safe_wrap {α : Type} {x : Res α} (e : Err) (hx : x.Safe) : (x.wrap e).Safe := by
  cases x <;> simp_all [Res.wrap]

theorem safe_iff {α : Type} (x : Res α) : x.Safe ↔ x ≠ .panic ∧ x ≠ .loop := Iff.rfl

/-! ### bytes and big-endian numbers -/
theorem byteOf_toNat (n : Nat) : (byteOf n).toNat = n % 256 := by simp [byteOf]

@[simp] theorem u16_be (v : BitVec 16) : u16 (byteOf (v.toNat / 256)) (byteOf v.toNat) = v := by
  apply BitVec.eq_of_toNat_eq
  have := v.isLt
  simp only [u16, byteOf, BitVec.toNat_ofNat]
  omega

@[simp] theorem u32_be (v : BitVec 32) :
    u32 (byteOf (v.toNat / 256 / 256 / 256)) (byteOf (v.toNat / 256 / 256)) (byteOf (v.toNat / 256)) (byteOf v.toNat) = v := by
  apply BitVec.eq_of_toNat_eq
  have := v.isLt
  simp only [u32, byteOf, BitVec.toNat_ofNat]
  omega

theorem be16_u16 (x y : Byte) : be16 (u16 x y) = [x, y] := by
  have hx := x.isLt; have hy := y.isLt
  simp only [be16, u16, byteOf, BitVec.toNat_ofNat]
  congr 1
  · apply BitVec.eq_of_toNat_eq; simp only [BitVec.toNat_ofNat]; omega
  · congr 1; apply BitVec.eq_of_toNat_eq; simp only [BitVec.toNat_ofNat]; omega

@[simp] theorem be16_length (v : BitVec 16) : (be16 v).length = 2 := rfl
@[simp] theorem be32_length (v : BitVec 32) : (be32 v).length = 4 := rfl
@[simp] theorem le32_length (v : BitVec 32) : (le32 v).length = 4 := rfl
@[simp] theorem zeros_length (n : Nat) : (zeros n).length = n := by simp [zeros]

/-! ### checked reads -/
@[simp] theorem u8At_cons_succ (x : Byte) (l : Bytes) (n : Nat) : u8At (x :: l) (n+1) = u8At l n := by simp [u8At]
@[simp] theorem u16At_cons_succ (x : Byte) (l : Bytes) (n : Nat) : u16At (x :: l) (n+1) = u16At l n := by simp [u16At]
@[simp] theorem u32At_cons_succ (x : Byte) (l : Bytes) (n : Nat) : u32At (x :: l) (n+1) = u32At l n := by simp [u32At]
@[simp] theorem u8At_zero (x : Byte) (l : Bytes) : u8At (x :: l) 0 = .ok x := rfl
@[simp] theorem u16At_zero (x y : Byte) (l : Bytes) : u16At (x :: y :: l) 0 = .ok (u16 x y) := rfl
@[simp] theorem u32At_zero (x y z w : Byte) (l : Bytes) : u32At (x :: y :: z :: w :: l) 0 = .ok (u32 x y z w) := rfl

theorem u8At_drop (b : Bytes) (o i : Nat) : u8At (b.drop o) i = u8At b (o + i) := by simp [u8At, List.drop_drop]
theorem u16At_drop (b : Bytes) (o i : Nat) : u16At (b.drop o) i = u16At b (o + i) := by simp [u16At, List.drop_drop]
theorem u32At_drop (b : Bytes) (o i : Nat) : u32At (b.drop o) i = u32At b (o + i) := by simp [u32At, List.drop_drop]

theorem u8At_append_right (a b : Bytes) (i : Nat) : u8At (a ++ b) (a.length + i) = u8At b i := by
  simp only [u8At, List.drop_length_add_append]
theorem u16At_append_right (a b : Bytes) (i : Nat) : u16At (a ++ b) (a.length + i) = u16At b i := by
  simp only [u16At, List.drop_length_add_append]
theorem u32At_append_right (a b : Bytes) (i : Nat) : u32At (a ++ b) (a.length + i) = u32At b i := by
  simp only [u32At, List.drop_length_add_append]

/-- total readers: what a checked read returns when it is in range -/
def g8 (b : Bytes) (i : Nat) : Byte := b.getD i 0
def g16 (b : Bytes) (i : Nat) : BitVec 16 := u16 (g8 b i) (g8 b (i+1))
def g32 (b : Bytes) (i : Nat) : BitVec 32 := u32 (g8 b i) (g8 b (i+1)) (g8 b (i+2)) (g8 b (i+3))

theorem drop_eq_cons_of_lt {b : Bytes} {i : Nat} (h : i < b.length) : b.drop i = g8 b i :: b.drop (i+1) := by
  rw [List.drop_eq_getElem_cons h]
  simp [g8, List.getD_eq_getElem?_getD, List.getElem?_eq_getElem h]

theorem u8At_of_lt {b : Bytes} {i : Nat} (h : i < b.length) : u8At b i = .ok (g8 b i) := by
  simp [u8At, drop_eq_cons_of_lt h]

theorem u16At_of_le {b : Bytes} {i : Nat} (h : i + 2 ≤ b.length) : u16At b i = .ok (g16 b i) := by
  have h1 : i < b.length := by omega
  have h2 : i + 1 < b.length := by omega
  simp [u16At, drop_eq_cons_of_lt h1, drop_eq_cons_of_lt h2, g16]

theorem u32At_of_le {b : Bytes} {i : Nat} (h : i + 4 ≤ b.length) : u32At b i = .ok (g32 b i) := by
  have h1 : i < b.length := by omega
  have h2 : i + 1 < b.length := by omega
  have h3 : i + 2 < b.length := by omega
  have h4 : i + 3 < b.length := by omega
  simp [u32At, drop_eq_cons_of_lt h1, drop_eq_cons_of_lt h2, drop_eq_cons_of_lt h3, drop_eq_cons_of_lt h4, g32]

theorem u32leAt_of_le {b : Bytes} {i : Nat} (h : i + 4 ≤ b.length) :
    u32leAt b i = .ok (u32 (g8 b (i+3)) (g8 b (i+2)) (g8 b (i+1)) (g8 b i)) := by
  have h1 : i < b.length := by omega
  have h2 : i + 1 < b.length := by omega
  have h3 : i + 2 < b.length := by omega
  have h4 : i + 3 < b.length := by omega
  simp [u32leAt, drop_eq_cons_of_lt h1, drop_eq_cons_of_lt h2, drop_eq_cons_of_lt h3, drop_eq_cons_of_lt h4]

theorem sliceFrom_of_le {b : Bytes} {i : Nat} (h : i ≤ b.length) : sliceFrom b i = .ok (b.drop i) := by
  simp [sliceFrom, h]
theorem slice_of_le {b : Bytes} {lo hi : Nat} (h1 : lo ≤ hi) (h2 : hi ≤ b.length) :
    slice b lo hi = .ok ((b.take hi).drop lo) := by
  simp [slice, h1, h2]

theorem take_drop_mid (pre v tail : Bytes) :
    ((pre ++ (v ++ tail)).take (pre.length + v.length)).drop pre.length = v := by
  rw [List.take_length_add_append, List.drop_left, List.take_left]

theorem slice_mid (pre v tail : Bytes) : slice (pre ++ (v ++ tail)) pre.length (pre.length + v.length) = .ok v := by
  rw [slice_of_le (by omega) (by simp), take_drop_mid]

theorem sliceFrom_append (pre rest : Bytes) : sliceFrom (pre ++ rest) pre.length = .ok rest := by
  rw [sliceFrom_of_le (by simp), List.drop_left]

/-! ### padding -/
theorem pad4_eq (n : Nat) : pad4 n = (4 - n % 4) % 4 := by
  unfold pad4 Gen.getPadding
  rw [Int.tmod_eq_emod_of_nonneg (by omega : (0:Int) ≤ (n:Int)), Int.tmod_eq_emod_of_nonneg (by omega)]
  omega

theorem pad4_lt (n : Nat) : pad4 n < 4 := by rw [pad4_eq]; omega
theorem add_pad4_mod (n : Nat) : (n + pad4 n) % 4 = 0 := by rw [pad4_eq]; omega
theorem pad4_of_mod {n : Nat} (h : n % 4 = 0) : pad4 n = 0 := by rw [pad4_eq]; omega
theorem pad4_add_mul4 (n k : Nat) : pad4 (4 * k + n) = pad4 n := by rw [pad4_eq, pad4_eq]; omega

end Codec

namespace Codec
/-! ### the Go constants the model refers to (if one changes in /repo these stop being `rfl`) -/
@[simp] theorem c_paramHeaderLength : Gen.paramHeaderLength = 4 := by decide
@[simp] theorem c_chunkHeaderSize : Gen.chunkHeaderSize = 4 := by decide
@[simp] theorem c_errorCauseHeaderLength : Gen.errorCauseHeaderLength = 4 := by decide
@[simp] theorem c_initChunkMinLength : Gen.initChunkMinLength = 16 := by decide
@[simp] theorem c_initOptionalVarHeaderLength : Gen.initOptionalVarHeaderLength = 4 := by decide
@[simp] theorem c_packetHeaderSize : Gen.packetHeaderSize = 12 := by decide
@[simp] theorem c_selectiveAckHeaderSize : Gen.selectiveAckHeaderSize = 12 := by decide
@[simp] theorem c_forwardTSNStreamLength : Gen.forwardTSNStreamLength = 4 := by decide
@[simp] theorem c_newCumulativeTSNLength : Gen.newCumulativeTSNLength = 4 := by decide
@[simp] theorem c_iForwardTSNEntryLength : Gen.iForwardTSNEntryLength = 8 := by decide
@[simp] theorem c_maxIForwardTSNStreams : Gen.maxIForwardTSNStreams = 8190 := by decide
@[simp] theorem c_outResetOffset : Gen.paramOutgoingResetRequestStreamIdentifiersOffset = 12 := by decide
@[simp] theorem c_payloadDataHeaderSize : Gen.payloadDataHeaderSize = 12 := by decide
@[simp] theorem c_iDataHeaderSize : Gen.iDataHeaderSize = 16 := by decide
@[simp] theorem c_cumulativeTSNAckLength : Gen.cumulativeTSNAckLength = 4 := by decide
@[simp] theorem c_hmacSHA128 : Gen.hmacSHA128 = 1 := by decide
@[simp] theorem c_hmacSHA256 : Gen.hmacSHA256 = 3 := by decide
@[simp] theorem c_maskE : Gen.payloadDataEndingFragmentBitmask = 1 := by decide
@[simp] theorem c_maskB : Gen.payloadDataBeginingFragmentBitmask = 2 := by decide
@[simp] theorem c_maskU : Gen.payloadDataUnorderedBitmask = 4 := by decide
@[simp] theorem c_maskI : Gen.payloadDataImmediateSACK = 8 := by decide
end Codec
