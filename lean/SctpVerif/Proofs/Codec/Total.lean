import SctpVerif.Proofs.Codec.Basic
/-!
Decoder totality (C03, decoder part): no byte string drives `Codec.dec` into a `panic` outcome (a
Go index/slice out of range) or exhausts the loop fuel `len/4+1` (`loop`).
One lemma per model function, in the order of Model/Codec.lean.
-/
namespace Codec
open Res

/-- puts the values of the Go size constants into the context (for `omega`) without rewriting the goal -/
macro "gen_consts" : tactic => `(tactic| (
  have := c_paramHeaderLength; have := c_chunkHeaderSize; have := c_errorCauseHeaderLength
  have := c_initChunkMinLength; have := c_initOptionalVarHeaderLength; have := c_packetHeaderSize
  have := c_selectiveAckHeaderSize; have := c_forwardTSNStreamLength; have := c_newCumulativeTSNLength
  have := c_iForwardTSNEntryLength; have := c_maxIForwardTSNStreams; have := c_outResetOffset
  have := c_payloadDataHeaderSize; have := c_iDataHeaderSize; have := c_cumulativeTSNAckLength))

section helpers
variable {β : Type}
theorem safe_u8 {b : Bytes} {i : Nat} {f : Byte → Res β} (h : i < b.length) (hf : ∀ v, (f v).Safe) :
    (u8At b i >>= f).Safe := by rw [u8At_of_lt h]; exact hf _
theorem safe_u16 {b : Bytes} {i : Nat} {f : BitVec 16 → Res β} (h : i + 2 ≤ b.length) (hf : ∀ v, (f v).Safe) :
    (u16At b i >>= f).Safe := by rw [u16At_of_le h]; exact hf _
theorem safe_u32 {b : Bytes} {i : Nat} {f : BitVec 32 → Res β} (h : i + 4 ≤ b.length) (hf : ∀ v, (f v).Safe) :
    (u32At b i >>= f).Safe := by rw [u32At_of_le h]; exact hf _
theorem safe_u32le {b : Bytes} {i : Nat} {f : BitVec 32 → Res β} (h : i + 4 ≤ b.length) (hf : ∀ v, (f v).Safe) :
    (u32leAt b i >>= f).Safe := by rw [u32leAt_of_le h]; exact hf _
theorem safe_sliceFrom {b : Bytes} {i : Nat} {f : Bytes → Res β} (h : i ≤ b.length) (hf : (f (b.drop i)).Safe) :
    (sliceFrom b i >>= f).Safe := by rw [sliceFrom_of_le h]; exact hf
theorem safe_slice {b : Bytes} {lo hi : Nat} {f : Bytes → Res β} (h1 : lo ≤ hi) (h2 : hi ≤ b.length)
    (hf : (f ((b.take hi).drop lo)).Safe) : (slice b lo hi >>= f).Safe := by rw [slice_of_le h1 h2]; exact hf
end helpers

/-! ### paramheader.go, param*.go -/

theorem paramHeaderUnmarshal_safe (raw : Bytes) : (paramHeaderUnmarshal raw).Safe := by
  gen_consts
  unfold paramHeaderUnmarshal
  split
  · simp
  · refine safe_u16 (by omega) fun l => ?_
    try dsimp only
    split
    · simp
    · split
      · simp
      · refine safe_u16 (by omega) fun t => ?_
        refine safe_slice (by omega) (by omega) ?_
        simp

/-- what `paramHeaderUnmarshal` returns when it succeeds -/
theorem paramHeaderUnmarshal_ok {raw : Bytes} {t : BitVec 16} {v : Bytes} {n : Nat}
    (h : paramHeaderUnmarshal raw = .ok (t, v, n)) :
    4 ≤ n ∧ n ≤ raw.length ∧ v = (raw.take n).drop 4 ∧ v.length = n - 4 ∧ n = (g16 raw 2).toNat ∧ t = g16 raw 0 := by
  gen_consts
  unfold paramHeaderUnmarshal at h
  split at h
  · cases h
  · rw [u16At_of_le (by omega), u16At_of_le (by omega)] at h
    simp only [ok_bind] at h
    split at h
    · cases h
    · split at h
      · cases h
      · rw [slice_of_le (by omega) (by omega)] at h
        simp only [ok_bind, Res.ok.injEq, Prod.mk.injEq] at h
        obtain ⟨h1, h2, h3⟩ := h
        subst h1 h2 h3
        refine ⟨by omega, by omega, rfl, ?_, rfl, rfl⟩
        simp only [List.length_drop, List.length_take]
        omega

theorem readU16s_safe (raw : Bytes) (n off : Nat) (h : off + 2 * n ≤ raw.length) : (readU16s raw off n).Safe := by
  induction n generalizing off with
  | zero => simp [readU16s]
  | succ n ih =>
    unfold readU16s
    refine safe_u16 (by omega) fun x => ?_
    exact safe_bind (ih (off + 2) (by omega)) (fun _ _ => by simp)

theorem readHmacs_safe (raw : Bytes) (fuel i : Nat) (heven : raw.length % 2 = 0) (hi : i % 2 = 0)
    (hle : i ≤ raw.length) (hf : raw.length < i + 2 * fuel) : (readHmacs raw fuel i).Safe := by
  induction fuel generalizing i with
  | zero => omega
  | succ f ih =>
    unfold readHmacs
    split
    · refine safe_u16 (by omega) fun a => ?_
      split
      · exact safe_bind (ih (i + 2) (by omega) (by omega) (by omega)) (fun _ _ => by simp)
      · simp
    · simp

/-- `ifcase c => tac`: case split on the condition of the outermost `if c then … else …` of the goal;
`tac` closes the positive case, the proof continues in the negative one -/
macro "ifcase " t:term " => " tac:tacticSeq : tactic =>
  `(tactic| (by_cases hh : $t; (· rw [if_pos hh]; ($tac)); rw [if_neg hh]))

theorem buildParam_safe (typ : BitVec 16) (raw : Bytes) : (buildParam typ raw).Safe := by
  gen_consts
  unfold buildParam
  have H := paramHeaderUnmarshal_safe raw
  have simple : ∀ (f : BitVec 16 × Bytes × Nat → Param × Nat),
      (paramHeaderUnmarshal raw >>= fun x => Res.ok (f x)).Safe :=
    fun f => safe_bind H (fun _ _ => by simp)
  ifcase typ = ptFwdTsnSupp => exact simple _
  ifcase typ = ptSupportedExt => exact simple _
  ifcase typ = ptEcn => exact simple _
  ifcase typ = ptRandom => exact simple _
  ifcase typ = ptReqHmac =>
    refine safe_bind H ?_; rintro ⟨t, v, n⟩ _
    try dsimp only
    split
    · simp
    · refine safe_bind (readHmacs_safe v _ 0 (by omega) (by omega) (by omega) (by omega)) (fun _ _ => by simp)
  ifcase typ = ptChunkList => exact simple _
  ifcase typ = ptStateCookie => exact simple _
  ifcase typ = ptHeartbeatInfo => exact simple _
  ifcase typ = ptOutReset =>
    refine safe_bind H ?_; rintro ⟨t, v, n⟩ _
    try dsimp only
    split
    · simp
    · refine safe_u32 (by omega) fun a => safe_u32 (by omega) fun b => safe_u32 (by omega) fun c => ?_
      exact safe_bind (readU16s_safe v _ _ (by omega)) (fun _ _ => by simp)
  ifcase typ = ptReconfigResp =>
    refine safe_bind H ?_; rintro ⟨t, v, n⟩ _
    try dsimp only
    split
    · simp
    · exact safe_u32 (by omega) fun a => safe_u32 (by omega) fun b => by simp
  ifcase typ = ptZeroChecksum =>
    refine safe_bind H ?_; rintro ⟨t, v, n⟩ _
    try dsimp only
    split
    · simp
    · exact safe_u32 (by omega) fun a => by simp
  simp

/-! ### error_cause*.go -/

theorem causeHeaderUnmarshal_safe (raw : Bytes) (h : 4 ≤ raw.length) : (causeHeaderUnmarshal raw).Safe := by
  gen_consts
  unfold causeHeaderUnmarshal
  refine safe_u16 (by omega) fun code => safe_u16 (by omega) fun l => ?_
  split
  · simp
  · rename_i hl
    have : (l - trunc16 Gen.errorCauseHeaderLength).toNat = l.toNat - 4 := by
      simp only [trunc16, c_errorCauseHeaderLength, BitVec.toNat_sub, BitVec.toNat_ofNat]; omega
    try dsimp only
    rw [this]
    refine safe_slice (by omega) (by omega) ?_
    simp

theorem causeHeaderUnmarshal_ok {raw : Bytes} {code : BitVec 16} {l : Nat} {v : Bytes} (h4 : 4 ≤ raw.length)
    (h : causeHeaderUnmarshal raw = .ok (code, l, v)) : 4 ≤ l ∧ l ≤ raw.length := by
  gen_consts
  unfold causeHeaderUnmarshal at h
  rw [u16At_of_le (by omega), u16At_of_le (by omega)] at h
  simp only [ok_bind] at h
  split at h
  · cases h
  · rename_i hl
    have : ((g16 raw 2) - trunc16 Gen.errorCauseHeaderLength).toNat = (g16 raw 2).toNat - 4 := by
      simp only [trunc16, c_errorCauseHeaderLength, BitVec.toNat_sub, BitVec.toNat_ofNat]; omega
    try dsimp only at h
    rw [this, slice_of_le (by omega) (by omega)] at h
    simp only [ok_bind, Res.ok.injEq, Prod.mk.injEq] at h
    omega

theorem buildErrorCause_safe (raw : Bytes) (h : 4 ≤ raw.length) : (buildErrorCause raw).Safe := by
  unfold buildErrorCause
  refine safe_u16 (by omega) fun c => ?_
  refine safe_bind (causeHeaderUnmarshal_safe raw h) ?_
  rintro ⟨code, l, v⟩ _
  simp

theorem buildErrorCause_ok {raw : Bytes} {c : Cause} {l : Nat} (h4 : 4 ≤ raw.length)
    (h : buildErrorCause raw = .ok (c, l)) : 4 ≤ l ∧ l ≤ raw.length := by
  unfold buildErrorCause at h
  rw [u16At_of_le (by omega)] at h
  simp only [ok_bind] at h
  cases hh : causeHeaderUnmarshal raw with
  | ok x =>
    obtain ⟨code, l', v⟩ := x
    rw [hh] at h
    simp only [ok_bind, Res.ok.injEq, Prod.mk.injEq] at h
    have := causeHeaderUnmarshal_ok h4 hh
    omega
  | err e => rw [hh] at h; cases h
  | panic => rw [hh] at h; cases h
  | loop => rw [hh] at h; cases h

theorem causesLoop_safe (raw : Bytes) (fuel off : Nat) (hoff : off ≤ raw.length) (hf : raw.length < off + 4 * fuel) :
    (causesLoop raw fuel off).Safe := by
  induction fuel generalizing off with
  | zero => omega
  | succ f ih =>
    unfold causesLoop
    split
    · rename_i hc
      refine safe_sliceFrom hoff ?_
      have hlen : 4 ≤ (raw.drop off).length := by simp only [List.length_drop]; omega
      refine safe_bind (buildErrorCause_safe _ hlen) ?_
      rintro ⟨e, l⟩ hok
      have := buildErrorCause_ok hlen hok
      simp only [List.length_drop] at this
      try dsimp only
      exact safe_bind (ih (off + l) (by omega) (by omega)) (fun _ _ => by simp)
    · simp

/-! ### chunkheader.go -/

theorem paddingLoop_safe (raw : Bytes) (vl i : Nat) (h : 4 + vl + i ≤ raw.length) : (paddingLoop raw vl i).Safe := by
  gen_consts
  induction i with
  | zero => simp [paddingLoop]
  | succ i ih =>
    unfold paddingLoop
    refine safe_u8 (by omega) fun b => ?_
    split
    · simp
    · exact ih (by omega)

theorem chunkHeaderUnmarshal_safe (raw : Bytes) : (chunkHeaderUnmarshal raw).Safe := by
  gen_consts
  unfold chunkHeaderUnmarshal
  split
  · simp
  · refine safe_u8 (by omega) fun t => safe_u8 (by omega) fun f => safe_u16 (by omega) fun l => ?_
    try dsimp only
    split
    · simp
    · rename_i hlav
      split
      · exact safe_bind (paddingLoop_safe _ _ _ (by omega)) (fun _ _ => safe_slice (by omega) (by omega) (by simp))
      · exact safe_slice (by omega) (by omega) (by simp)

/-- what `chunkHeaderUnmarshal` returns when it succeeds: type and flags are the first two bytes, the
value is `raw[4 : 4+vl]` with `vl = uint16(length - 4)`, and it fits -/
theorem chunkHeaderUnmarshal_ok {raw : Bytes} {t f : Byte} {v : Bytes} (h : chunkHeaderUnmarshal raw = .ok (t, f, v)) :
    4 ≤ raw.length ∧ t = g8 raw 0 ∧ f = g8 raw 1 ∧ v.length = (g16 raw 2 - 4#16).toNat ∧
    4 + v.length ≤ raw.length ∧ v = (raw.take (4 + v.length)).drop 4 := by
  gen_consts
  unfold chunkHeaderUnmarshal at h
  split at h
  · cases h
  · rename_i h4
    rw [u8At_of_lt (by omega), u8At_of_lt (by omega), u16At_of_le (by omega)] at h
    simp only [ok_bind] at h
    split at h
    · cases h
    · rename_i hlav
      have hvl : trunc16 Gen.chunkHeaderSize = 4#16 := by simp [trunc16]
      rw [hvl] at h hlav
      rw [slice_of_le (by omega) (by omega)] at h
      have hl : ((raw.take (Gen.chunkHeaderSize + (g16 raw 2 - 4#16).toNat)).drop Gen.chunkHeaderSize).length
          = (g16 raw 2 - 4#16).toNat := by
        simp only [List.length_drop, List.length_take]; omega
      have fin : ∀ {t f : Byte} {v : Bytes},
          (Res.ok (g8 raw 0, g8 raw 1, (raw.take (Gen.chunkHeaderSize + (g16 raw 2 - 4#16).toNat)).drop Gen.chunkHeaderSize)
            : Res (Byte × Byte × Bytes)) = .ok (t, f, v) →
          4 ≤ raw.length ∧ t = g8 raw 0 ∧ f = g8 raw 1 ∧ v.length = (g16 raw 2 - 4#16).toNat ∧
          4 + v.length ≤ raw.length ∧ v = (raw.take (4 + v.length)).drop 4 := by
        intro t f v h
        simp only [Res.ok.injEq, Prod.mk.injEq] at h
        obtain ⟨h1, h2, h3⟩ := h
        subst h1 h2 h3
        refine ⟨by omega, rfl, rfl, hl, by omega, ?_⟩
        rw [hl, c_chunkHeaderSize]
      split at h
      · -- padding checked: whatever the check returns, an `ok` result is the final `ok`
        cases hp : paddingLoop raw (g16 raw 2 - 4#16).toNat
            ((raw.length : Int) - (((Gen.chunkHeaderSize : Nat) : Int) + ((g16 raw 2 - 4#16).toNat : Int))).toNat with
        | ok u => rw [hp] at h; simp only [ok_bind] at h; exact fin h
        | err e => rw [hp] at h; cases h
        | panic => rw [hp] at h; cases h
        | loop => rw [hp] at h; cases h
      · simp only [ok_bind] at h; exact fin h

/-! ### chunk_*.go -/

theorem parseParamType_safe (raw : Bytes) : (parseParamType raw).Safe := by
  unfold parseParamType
  split
  · simp
  · rw [u16At_of_le (by omega)]; simp

theorem initParamsLoop_safe (raw : Bytes) (fuel offset : Nat) (remaining : Int)
    (hrem : remaining = (raw.length : Int) - offset) (hf : remaining < 4 * fuel) (hpos : 0 < fuel) :
    (initParamsLoop raw fuel offset remaining).Safe := by
  gen_consts
  induction fuel generalizing offset remaining with
  | zero => omega
  | succ f ih =>
    unfold initParamsLoop
    split
    · split
      · rename_i h0 h4
        refine safe_sliceFrom (by omega) ?_
        refine safe_bind (safe_wrap _ (paramHeaderUnmarshal_safe _)) ?_
        rintro ⟨typ, v, plen⟩ hok
        have hplen : 4 ≤ plen := by
          cases hu : paramHeaderUnmarshal (raw.drop offset) with
          | ok x =>
            rw [hu] at hok; simp only [wrap_ok, Res.ok.injEq] at hok; subst hok
            exact (paramHeaderUnmarshal_ok hu).1
          | err e => rw [hu] at hok; simp at hok
          | panic => rw [hu] at hok; simp at hok
          | loop => rw [hu] at hok; simp at hok
        try dsimp only
        have hrec := ih (offset + (plen + pad4 plen)) (remaining - ((plen + pad4 plen : Nat) : Int))
          (by omega) (by omega) (by omega)
        cases hb : buildParam typ (raw.drop offset) with
        | ok x => obtain ⟨p, n⟩ := x; exact safe_bind hrec (fun ⟨_, _⟩ _ => by simp)
        | err e => exact safe_bind hrec (fun ⟨_, _⟩ _ => by simp)
        | panic => exact absurd (hb ▸ buildParam_safe typ _) safe_panic
        | loop => exact absurd (hb ▸ buildParam_safe typ _) safe_loop
      · simp
    · simp

theorem initCommonUnmarshal_safe (raw : Bytes) (h : 16 ≤ raw.length) : (initCommonUnmarshal raw).Safe := by
  gen_consts
  unfold initCommonUnmarshal
  refine safe_u32 (by omega) fun a => safe_u32 (by omega) fun b => safe_u16 (by omega) fun c =>
    safe_u16 (by omega) fun d => safe_u32 (by omega) fun e => ?_
  refine safe_bind (initParamsLoop_safe raw _ _ _ (by omega) (by omega) (by omega)) ?_
  rintro ⟨ps, us⟩ _
  simp

theorem decInit_safe (ack : Bool) (flags : Byte) (raw : Bytes) : (decInit ack flags raw).Safe := by
  gen_consts
  unfold decInit
  split
  · simp
  · split
    · simp
    · exact safe_bind (safe_wrap _ (initCommonUnmarshal_safe raw (by omega))) (fun _ _ => by simp)

theorem readGaps_safe (raw : Bytes) (n off : Nat) (h : off + 4 * n ≤ raw.length) : (readGaps raw off n).Safe := by
  induction n generalizing off with
  | zero => simp [readGaps]
  | succ n ih =>
    unfold readGaps
    refine safe_u16 (by omega) fun x => safe_u16 (by omega) fun y => ?_
    exact safe_bind (ih (off + 4) (by omega)) (fun _ _ => by simp)

theorem readU32s_safe (raw : Bytes) (n off : Nat) (h : off + 4 * n ≤ raw.length) : (readU32s raw off n).Safe := by
  induction n generalizing off with
  | zero => simp [readU32s]
  | succ n ih =>
    unfold readU32s
    refine safe_u32 (by omega) fun x => ?_
    exact safe_bind (ih (off + 4) (by omega)) (fun _ _ => by simp)

theorem decSack_safe (flags : Byte) (raw : Bytes) : (decSack flags raw).Safe := by
  gen_consts
  unfold decSack
  split
  · simp
  · refine safe_u32 (by omega) fun a => safe_u32 (by omega) fun b => safe_u16 (by omega) fun ng =>
      safe_u16 (by omega) fun nd => ?_
    split
    · simp
    · rename_i hne
      have hne' : raw.length = 12 + (4 * ng.toNat + 4 * nd.toNat) := by
        simpa [c_selectiveAckHeaderSize] using hne
      refine safe_bind (readGaps_safe raw _ _ (by omega)) (fun _ _ => ?_)
      exact safe_bind (readU32s_safe raw _ _ (by omega)) (fun _ _ => by simp)

theorem decHeartbeatParam_safe (raw : Bytes) (e1 e2 e3 e4 : Err) : (decHeartbeatParam raw e1 e2 e3 e4).Safe := by
  gen_consts
  unfold decHeartbeatParam
  split
  · simp
  · refine safe_bind (safe_wrap _ (parseParamType_safe raw)) (fun pType _ => ?_)
    split
    · simp
    · refine safe_bind (safe_wrap _ (paramHeaderUnmarshal_safe raw)) ?_
      rintro ⟨t, v, plen⟩ _
      try dsimp only
      split
      · simp
      · refine safe_slice (by omega) (by omega) ?_
        refine safe_bind (safe_wrap _ (buildParam_safe _ _)) ?_
        rintro ⟨p, n⟩ _
        try dsimp only
        refine safe_sliceFrom (by omega) ?_
        split <;> simp

theorem decHeartbeat_safe (typ flags : Byte) (raw : Bytes) : (decHeartbeat typ flags raw).Safe := by
  unfold decHeartbeat
  split
  · simp
  · exact safe_bind (decHeartbeatParam_safe raw _ _ _ _) (fun _ _ => by simp)

theorem decHeartbeatAck_safe (flags : Byte) (raw : Bytes) : (decHeartbeatAck flags raw).Safe := by
  unfold decHeartbeatAck
  split
  · simp
  · exact safe_bind (decHeartbeatParam_safe raw _ _ _ _) (fun _ _ => by simp)

theorem decReconfig_safe (flags : Byte) (raw : Bytes) : (decReconfig flags raw).Safe := by
  unfold decReconfig
  refine safe_bind (parseParamType_safe raw) (fun pType _ => ?_)
  refine safe_bind (buildParam_safe _ _) ?_
  rintro ⟨a, alen⟩ _
  try dsimp only
  split
  · refine safe_sliceFrom (by omega) ?_
    refine safe_bind (parseParamType_safe _) (fun pType _ => ?_)
    refine safe_bind (buildParam_safe _ _) ?_
    rintro ⟨b, _⟩ _
    simp
  · simp

theorem fwdStreamsLoop_safe (raw : Bytes) (fuel offset : Nat) (remaining : Int)
    (hrem : remaining = (raw.length : Int) - offset) (hf : remaining < 4 * fuel) (hpos : 0 < fuel) :
    (fwdStreamsLoop raw fuel offset remaining).Safe := by
  gen_consts
  induction fuel generalizing offset remaining with
  | zero => omega
  | succ f ih =>
    unfold fwdStreamsLoop
    split
    · refine safe_sliceFrom (by omega) ?_
      split
      · simp
      · rename_i h0 h4
        simp only [List.length_drop] at h4
        refine safe_u16 (by simp only [List.length_drop]; omega) fun a =>
          safe_u16 (by simp only [List.length_drop]; omega) fun b => ?_
        exact safe_bind (ih _ _ (by omega) (by omega) (by omega)) (fun _ _ => by simp)
    · simp

theorem decForwardTsn_safe (flags : Byte) (raw : Bytes) : (decForwardTsn flags raw).Safe := by
  gen_consts
  unfold decForwardTsn
  split
  · simp
  · refine safe_u32 (by omega) fun c => ?_
    exact safe_bind (fwdStreamsLoop_safe raw _ _ _ (by omega) (by omega) (by omega)) (fun _ _ => by simp)

theorem readIStreams_safe (raw : Bytes) (n i : Nat) (h : 4 + (i + n) * 8 ≤ raw.length) : (readIStreams raw n i).Safe := by
  gen_consts
  induction n generalizing i with
  | zero => simp [readIStreams]
  | succ n ih =>
    unfold readIStreams
    simp only [c_iForwardTSNEntryLength, c_newCumulativeTSNLength]
    refine safe_slice (by omega) (by omega) ?_
    have hl : ((raw.take (4 + i * 8 + 8)).drop (4 + i * 8)).length = 8 := by
      simp only [List.length_drop, List.length_take]; omega
    refine safe_u16 (by omega) fun a => safe_u16 (by omega) fun b => safe_u32 (by omega) fun c => ?_
    exact safe_bind (ih (i + 1) (by omega)) (fun _ _ => by simp)

theorem decIForwardTsn_safe (flags : Byte) (raw : Bytes) : (decIForwardTsn flags raw).Safe := by
  gen_consts
  unfold decIForwardTsn
  split
  · simp
  · refine safe_u32 (by omega) fun c => ?_
    try dsimp only
    split
    · simp
    · split
      · simp
      · rename_i h1 h2 h3
        simp only [c_iForwardTSNEntryLength, c_newCumulativeTSNLength, c_maxIForwardTSNStreams] at h1 h2 h3 ⊢
        exact safe_bind (readIStreams_safe raw _ 0 (by omega)) (fun _ _ => by simp)

theorem decData_safe (typ flags : Byte) (raw : Bytes) : (decData typ flags raw).Safe := by
  gen_consts
  unfold decData
  try dsimp only
  split
  · split
    · simp
    · refine safe_u32 (by omega) fun a => safe_u16 (by omega) fun b => safe_u16 (by omega) fun c =>
        safe_u32 (by omega) fun d => safe_sliceFrom (by omega) (by simp)
  · split
    · simp
    · refine safe_u32 (by omega) fun a => safe_u16 (by omega) fun b => safe_u32 (by omega) fun c =>
        safe_u32 (by omega) fun d => safe_sliceFrom (by omega) (by simp)

theorem decBody_safe (typ flags : Byte) (raw : Bytes) : (decBody typ flags raw).Safe := by
  gen_consts
  unfold decBody
  have hc : (causesLoop raw (raw.length / 4 + 1) 0).Safe := causesLoop_safe raw _ 0 (by omega) (by omega)
  ifcase typ = ctInit => exact decInit_safe _ _ _
  ifcase typ = ctInitAck => exact decInit_safe _ _ _
  ifcase typ = ctAbort => exact safe_bind (safe_wrap _ hc) (fun _ _ => by simp)
  ifcase typ = ctCookieEcho => simp
  ifcase typ = ctCookieAck => simp
  ifcase typ = ctHeartbeat => exact decHeartbeat_safe _ _ _
  ifcase typ = ctHeartbeatAck => exact decHeartbeatAck_safe _ _
  ifcase typ = ctData ∨ typ = ctIData => exact decData_safe _ _ _
  ifcase typ = ctSack => exact decSack_safe _ _
  ifcase typ = ctReconfig => exact decReconfig_safe _ _
  ifcase typ = ctForwardTSN => exact decForwardTsn_safe _ _
  ifcase typ = ctIForwardTSN => exact decIForwardTsn_safe _ _
  ifcase typ = ctError => exact safe_bind (safe_wrap _ hc) (fun _ _ => by simp)
  ifcase typ = ctShutdown =>
    split
    · simp
    · rename_i h
      have : raw.length = 4 := by simpa using h
      exact safe_u32 (by omega) fun c => by simp
  ifcase typ = ctShutdownAck => simp
  ifcase typ = ctShutdownComplete => simp
  simp

theorem decChunk_safe (rem : Bytes) (h : 4 ≤ rem.length) : (decChunk rem).Safe := by
  unfold decChunk
  refine safe_u8 (by omega) fun t => ?_
  split
  · simp
  · refine safe_bind (chunkHeaderUnmarshal_safe rem) ?_
    rintro ⟨typ, flags, v⟩ _
    exact safe_bind (decBody_safe _ _ _) (fun _ _ => by simp)

/-- a decoded chunk lies inside the bytes it was decoded from -/
theorem decChunk_ok {rem : Bytes} {c : Chunk} {vl : Nat} (h4 : 4 ≤ rem.length) (h : decChunk rem = .ok (c, vl)) :
    4 + vl ≤ rem.length := by
  unfold decChunk at h
  rw [u8At_of_lt (by omega)] at h
  simp only [ok_bind] at h
  split at h
  · cases h
  · cases hh : chunkHeaderUnmarshal rem with
    | ok x =>
      obtain ⟨typ, flags, v⟩ := x
      rw [hh] at h
      simp only [ok_bind] at h
      cases hb : decBody typ flags v with
      | ok c' =>
        rw [hb] at h
        simp only [ok_bind, Res.ok.injEq, Prod.mk.injEq] at h
        have := chunkHeaderUnmarshal_ok hh
        omega
      | err e => rw [hb] at h; cases h
      | panic => rw [hb] at h; cases h
      | loop => rw [hb] at h; cases h
    | err e => rw [hh] at h; cases h
    | panic => rw [hh] at h; cases h
    | loop => rw [hh] at h; cases h

/-! ### packet.go -/

theorem chunksLoop_safe (raw : Bytes) (fuel offset : Nat) (hpos : 0 < fuel)
    (hf : (raw.length : Int) - offset < 4 * fuel) : (chunksLoop raw fuel offset).Safe := by
  gen_consts
  induction fuel generalizing offset with
  | zero => omega
  | succ f ih =>
    unfold chunksLoop
    split
    · rename_i hlt
      refine safe_sliceFrom (by omega) ?_
      split
      · simp
      · rename_i h4
        simp only [List.length_drop] at h4
        have hlen : 4 ≤ (raw.drop offset).length := by simp only [List.length_drop]; omega
        refine safe_bind (decChunk_safe _ hlen) ?_
        rintro ⟨c, vl⟩ hok
        have := decChunk_ok hlen hok
        simp only [List.length_drop] at this
        try dsimp only
        exact safe_bind (ih _ (by omega) (by omega)) (fun _ _ => by simp)
    · split <;> simp

theorem packetChecksum_safe (crc : Bytes → BitVec 32) (raw : Bytes) (h : 12 ≤ raw.length) :
    (packetChecksum crc raw).Safe := by
  unfold packetChecksum
  exact safe_slice (by omega) (by omega) (safe_sliceFrom (by omega) (by simp))

theorem decWith_safe (crc : Bytes → BitVec 32) (doChecksum : Bool) (raw : Bytes) : (decWith crc doChecksum raw).Safe := by
  gen_consts
  unfold decWith
  split
  · simp
  · rename_i h12
    try dsimp only
    have rest : ∀ dc : Bool, (do
        let theirs ← u32leAt raw 8
        if theirs ≠ 0#32 ∨ dc = true then do
          let ours ← packetChecksum crc raw
          if theirs ≠ ours then Res.err Err.ErrChecksumMismatch else pure ()
        else pure ()
        let sport ← u16At raw 0
        let dport ← u16At raw 2
        let vtag ← u32At raw 4
        let cs ← chunksLoop raw (raw.length / 4 + 1) Gen.packetHeaderSize
        Res.ok ({ sport, dport, vtag, chunks := cs } : Packet)).Safe := by
      intro dc
      have tail : (do
          let sport ← u16At raw 0
          let dport ← u16At raw 2
          let vtag ← u32At raw 4
          let cs ← chunksLoop raw (raw.length / 4 + 1) Gen.packetHeaderSize
          Res.ok ({ sport, dport, vtag, chunks := cs } : Packet)).Safe :=
        safe_u16 (by omega) fun a => safe_u16 (by omega) fun b => safe_u32 (by omega) fun c =>
          safe_bind (chunksLoop_safe raw _ _ (by omega) (by omega)) (fun _ _ => by simp)
      refine safe_u32le (by omega) fun theirs => ?_
      split
      · refine safe_bind (packetChecksum_safe crc raw (by omega)) fun ours _ => ?_
        split
        · simp
        · exact tail
      · exact tail
    split
    · refine safe_u8 (by omega) fun t => ?_
      exact rest _
    · exact rest _

end Codec
