import SctpVerif.Proofs.Codec.Packet
/-!
Decoder outputs are well formed (up to `norm`, and except the two known shapes): the ingredient of
re-encode stability for arbitrary accepted packets.
-/
namespace Codec
open Res CodecSpec

/-! ### generic: results of binds -/
theorem bind_eq_ok {α β : Type} {x : Res α} {f : α → Res β} {b : β} (h : (x >>= f) = .ok b) :
    ∃ a, x = .ok a ∧ f a = .ok b := by
  cases x with
  | ok a => exact ⟨a, rfl, h⟩
  | err e => cases h
  | panic => cases h
  | loop => cases h

theorem wrap_eq_ok {α : Type} {x : Res α} {e : Err} {a : α} (h : x.wrap e = .ok a) : x = .ok a := by
  cases x <;> simp_all [Res.wrap]

/-! ### parameters -/

theorem readU16s_length (raw : Bytes) (off n : Nat) (xs : List (BitVec 16)) (h : readU16s raw off n = .ok xs) :
    xs.length = n := by
  induction n generalizing off xs with
  | zero => simp only [readU16s, Res.ok.injEq] at h; subst h; rfl
  | succ n ih =>
    unfold readU16s at h
    obtain ⟨x, _, h⟩ := bind_eq_ok h
    obtain ⟨ys, hy, h⟩ := bind_eq_ok h
    simp only [Res.ok.injEq] at h
    subst h
    simp [ih _ _ hy]

theorem readHmacs_ok (raw : Bytes) (fuel i : Nat) (xs : List (BitVec 16)) (h : readHmacs raw fuel i = .ok xs) :
    (∀ a ∈ xs, a = 1#16 ∨ a = 3#16) ∧ (i ≤ raw.length → i + 2 * xs.length ≤ raw.length + 1) := by
  induction fuel generalizing i xs with
  | zero => cases h
  | succ f ih =>
    unfold readHmacs at h
    split at h
    · rename_i hlt
      obtain ⟨a, _, h⟩ := bind_eq_ok h
      split at h
      · rename_i hv
        obtain ⟨ys, hy, h⟩ := bind_eq_ok h
        simp only [Res.ok.injEq] at h
        subst h
        obtain ⟨h1, h2⟩ := ih _ _ hy
        refine ⟨?_, ?_⟩
        · intro b hb
          simp only [List.mem_cons] at hb
          rcases hb with hb | hb
          · subst hb
            simp only [c_hmacSHA128, c_hmacSHA256] at hv
            rcases hv with hv | hv
            · left; apply BitVec.eq_of_toNat_eq; simpa using hv
            · right; apply BitVec.eq_of_toNat_eq; simpa using hv
          · exact h1 b hb
        · intro _
          simp only [List.length_cons]
          by_cases hle : i + 2 ≤ raw.length
          · have := h2 hle; omega
          · -- i + 2 > len: the recursive call returned at once with []
            have : ys = [] := by
              cases f with
              | zero => cases hy
              | succ f' =>
                unfold readHmacs at hy
                rw [if_neg (by omega)] at hy
                simpa using hy.symm
            subst this; simp; omega
      · cases h
    · simp only [Res.ok.injEq] at h
      subst h
      exact ⟨by simp, by intro; simp; omega⟩

/-- `hifcase h : c => tac`: case split on the outermost `if c then … else …` in hypothesis `h` -/
macro "hifcase " h:ident " : " t:term " => " tac:tacticSeq : tactic =>
  `(tactic| (by_cases hh : $t; (· rw [if_pos hh] at $h:ident; ($tac)); rw [if_neg hh] at $h:ident))

/-- a decoded parameter is well formed, its re-encoding is not longer than what was read, and it was
read from inside the buffer -/
theorem buildParam_wf {typ : BitVec 16} {r : Bytes} {p : Param} {n : Nat} (h : buildParam typ r = .ok (p, n)) :
    CodecSpec.wfParam p = true ∧ (encParam p).length ≤ n ∧ 4 ≤ n ∧ n ≤ r.length ∧ n < 65536 ∧ n = (g16 r 2).toNat := by
  unfold buildParam at h
  have key : ∀ {t : BitVec 16} {v : Bytes} {m : Nat}, paramHeaderUnmarshal r = .ok (t, v, m) →
      4 ≤ m ∧ m ≤ r.length ∧ v.length = m - 4 ∧ m < 65536 ∧ m = (g16 r 2).toNat := by
    intro t v m hh
    have := paramHeaderUnmarshal_ok hh
    have hlt := (g16 r 2).isLt
    omega
  have simple : ∀ (mk : Bytes → Param), (∀ v, v.length + 4 < 65536 → CodecSpec.wfParam (mk v) = true) →
      (∀ v, (encParam (mk v)).length ≤ 4 + v.length) →
      (paramHeaderUnmarshal r >>= fun x => Res.ok (mk x.2.1, x.2.2)) = .ok (p, n) →
      CodecSpec.wfParam p = true ∧ (encParam p).length ≤ n ∧ 4 ≤ n ∧ n ≤ r.length ∧ n < 65536 ∧ n = (g16 r 2).toNat := by
    intro mk hwf hlen hh
    obtain ⟨⟨t, v, m⟩, hu, hh⟩ := bind_eq_ok hh
    simp only [Res.ok.injEq, Prod.mk.injEq] at hh
    obtain ⟨h1, h2⟩ := hh
    subst h1 h2
    have := key hu
    have := hlen v
    exact ⟨hwf v (by omega), by omega, by omega, by omega, by omega, by omega⟩
  hifcase h : typ = ptFwdTsnSupp =>
    exact simple (fun _ => .fwdTsnSupported) (fun _ _ => rfl) (fun v => by simp [encParam, paramHeaderMarshal_length]) h
  hifcase h : typ = ptSupportedExt =>
    exact simple .supportedExt (fun v hv => by simp [CodecSpec.wfParam, fits_iff, hv])
      (fun v => by simp [encParam, paramHeaderMarshal_length]) h
  hifcase h : typ = ptEcn =>
    exact simple (fun _ => .ecnCapable) (fun _ _ => rfl) (fun v => by simp [encParam, paramHeaderMarshal_length]) h
  hifcase h : typ = ptRandom =>
    exact simple .random (fun v hv => by simp [CodecSpec.wfParam, fits_iff, hv])
      (fun v => by simp [encParam, paramHeaderMarshal_length]) h
  hifcase h : typ = ptReqHmac =>
    obtain ⟨⟨t, v, m⟩, hu, h⟩ := bind_eq_ok h
    have := key hu
    dsimp only at h
    split at h
    · cases h
    · rename_i hodd
      obtain ⟨as, ha, h⟩ := bind_eq_ok h
      simp only [Res.ok.injEq, Prod.mk.injEq] at h
      obtain ⟨h1, h2⟩ := h
      subst h1 h2
      obtain ⟨hall, hl⟩ := readHmacs_ok _ _ _ _ ha
      have hl' := hl (by omega)
      refine ⟨?_, ?_, by omega, by omega, by omega, by omega⟩
      · simp only [CodecSpec.wfParam, fits_iff, Bool.and_eq_true, List.all_eq_true, Bool.or_eq_true, decide_eq_true_eq]
        exact ⟨by omega, hall⟩
      · simp only [encParam, paramHeaderMarshal_length, flatten_be16_length]; omega
  hifcase h : typ = ptChunkList =>
    exact simple .chunkList (fun v hv => by simp [CodecSpec.wfParam, fits_iff, hv])
      (fun v => by simp [encParam, paramHeaderMarshal_length]) h
  hifcase h : typ = ptStateCookie =>
    exact simple .stateCookie (fun v hv => by simp [CodecSpec.wfParam, fits_iff, hv])
      (fun v => by simp [encParam, paramHeaderMarshal_length]) h
  hifcase h : typ = ptHeartbeatInfo =>
    exact simple .heartbeatInfo (fun v hv => by simp [CodecSpec.wfParam, fits_iff, hv])
      (fun v => by simp [encParam, paramHeaderMarshal_length]) h
  hifcase h : typ = ptOutReset =>
    obtain ⟨⟨t, v, m⟩, hu, h⟩ := bind_eq_ok h
    have := key hu
    dsimp only at h
    split at h
    · cases h
    · rename_i hshort
      simp only [c_outResetOffset] at hshort
      obtain ⟨a, _, h⟩ := bind_eq_ok h
      obtain ⟨b, _, h⟩ := bind_eq_ok h
      obtain ⟨c, _, h⟩ := bind_eq_ok h
      obtain ⟨sids, hs, h⟩ := bind_eq_ok h
      simp only [Res.ok.injEq, Prod.mk.injEq] at h
      obtain ⟨h1, h2⟩ := h
      subst h1 h2
      have hl := readU16s_length _ _ _ _ hs
      simp only [c_outResetOffset] at hl
      refine ⟨?_, ?_, by omega, by omega, by omega, by omega⟩
      · simp only [CodecSpec.wfParam, fits_iff]; omega
      · simp only [encParam, paramHeaderMarshal_length, List.length_append, be32_length, flatten_be16_length]; omega
  hifcase h : typ = ptReconfigResp =>
    obtain ⟨⟨t, v, m⟩, hu, h⟩ := bind_eq_ok h
    have := key hu
    dsimp only at h
    split at h
    · cases h
    · obtain ⟨a, _, h⟩ := bind_eq_ok h
      obtain ⟨b, _, h⟩ := bind_eq_ok h
      simp only [Res.ok.injEq, Prod.mk.injEq] at h
      obtain ⟨h1, h2⟩ := h
      subst h1 h2
      refine ⟨rfl, ?_, by omega, by omega, by omega, by omega⟩
      simp only [encParam, paramHeaderMarshal_length, List.length_append, be32_length]; omega
  hifcase h : typ = ptZeroChecksum =>
    obtain ⟨⟨t, v, m⟩, hu, h⟩ := bind_eq_ok h
    have := key hu
    dsimp only at h
    split at h
    · cases h
    · obtain ⟨a, _, h⟩ := bind_eq_ok h
      simp only [Res.ok.injEq, Prod.mk.injEq] at h
      obtain ⟨h1, h2⟩ := h
      subst h1 h2
      refine ⟨rfl, ?_, by omega, by omega, by omega, by omega⟩
      simp only [encParam, paramHeaderMarshal_length, be32_length]; omega
  cases h

/-! ### error causes -/

theorem buildErrorCause_wf {r : Bytes} {c : Cause} {l : Nat} (h4 : 4 ≤ r.length) (h : buildErrorCause r = .ok (c, l)) :
    wfCause c = true ∧ l = 4 + c.data.length ∧ l ≤ r.length := by
  unfold buildErrorCause at h
  rw [u16At_of_le (by omega)] at h
  simp only [ok_bind] at h
  obtain ⟨⟨code, l', v⟩, hu, h⟩ := bind_eq_ok h
  simp only [Res.ok.injEq, Prod.mk.injEq] at h
  obtain ⟨h1, h2⟩ := h
  subst h2
  have hb := causeHeaderUnmarshal_ok h4 hu
  -- value length and code
  unfold causeHeaderUnmarshal at hu
  rw [u16At_of_le (by omega), u16At_of_le (by omega)] at hu
  simp only [ok_bind] at hu
  split at hu
  · cases hu
  · rename_i hl
    have hvl : ((g16 r 2) - trunc16 Gen.errorCauseHeaderLength).toNat = (g16 r 2).toNat - 4 := by
      simp only [trunc16, c_errorCauseHeaderLength, BitVec.toNat_sub, BitVec.toNat_ofNat]
      simp only [c_errorCauseHeaderLength] at hl; omega
    simp only [c_errorCauseHeaderLength] at hl
    try dsimp only at hu
    rw [hvl, c_errorCauseHeaderLength, slice_of_le (by omega) (by omega)] at hu
    simp only [ok_bind, Res.ok.injEq, Prod.mk.injEq] at hu
    obtain ⟨hc, hl', hv⟩ := hu
    have hlt := (g16 r 2).isLt
    have hvlen : v.length = l' - 4 := by
      rw [← hv, ← hl']; simp only [List.length_drop, List.length_take]; omega
    subst h1
    refine ⟨?_, by simp only; omega, hb.2⟩
    simp only [wfCause, fits_iff, Bool.and_eq_true, decide_eq_true_eq]
    refine ⟨by omega, ?_⟩
    subst hc
    by_cases c1 : g16 r 0 = ccInvalidMandatory
    · simp [c1]
    · by_cases c2 : g16 r 0 = ccUnrecognizedChunk
      · simp [c2]
      · by_cases c3 : g16 r 0 = ccProtocolViolation
        · simp [c3]
        · by_cases c4 : g16 r 0 = ccUserAbort
          · simp [c4]
          · simp only [cc_invparam, cc_unrec, cc_pviol, cc_uabort] at c1 c2 c3 c4
            simp [c1, c2, c3, c4]

theorem causesLoop_wf (raw : Bytes) (fuel off : Nat) (cs : List Cause) (hoff : off ≤ raw.length)
    (h : causesLoop raw fuel off = .ok cs) :
    (∀ c ∈ cs, wfCause c = true) ∧ off + (cs.map fun c => 4 + c.data.length).sum ≤ raw.length := by
  induction fuel generalizing off cs with
  | zero => cases h
  | succ f ih =>
    unfold causesLoop at h
    split at h
    · rename_i hc
      rw [sliceFrom_of_le hoff] at h
      simp only [ok_bind] at h
      obtain ⟨⟨e, l⟩, hb, h⟩ := bind_eq_ok h
      obtain ⟨es, hr, h⟩ := bind_eq_ok h
      simp only [Res.ok.injEq] at h
      subst h
      have hlen : 4 ≤ (raw.drop off).length := by simp only [List.length_drop]; omega
      obtain ⟨hw, hl, hle⟩ := buildErrorCause_wf hlen hb
      simp only [List.length_drop] at hle
      obtain ⟨h1, h2⟩ := ih (off + l) es (by omega) hr
      refine ⟨?_, ?_⟩
      · intro c hc
        simp only [List.mem_cons] at hc
        rcases hc with hc | hc
        · subst hc; exact hw
        · exact h1 c hc
      · simp only [List.map_cons, List.sum_cons]; omega
    · simp only [Res.ok.injEq] at h
      subst h
      exact ⟨by simp, by simp; exact hoff⟩

/-! ### list readers: lengths -/

theorem readGaps_length (raw : Bytes) (off n : Nat) (xs : List (BitVec 16 × BitVec 16)) (h : readGaps raw off n = .ok xs) :
    xs.length = n := by
  induction n generalizing off xs with
  | zero => simp only [readGaps, Res.ok.injEq] at h; subst h; rfl
  | succ n ih =>
    unfold readGaps at h
    obtain ⟨x, _, h⟩ := bind_eq_ok h
    obtain ⟨y, _, h⟩ := bind_eq_ok h
    obtain ⟨ys, hy, h⟩ := bind_eq_ok h
    simp only [Res.ok.injEq] at h
    subst h
    simp [ih _ _ hy]

theorem readU32s_length (raw : Bytes) (off n : Nat) (xs : List (BitVec 32)) (h : readU32s raw off n = .ok xs) :
    xs.length = n := by
  induction n generalizing off xs with
  | zero => simp only [readU32s, Res.ok.injEq] at h; subst h; rfl
  | succ n ih =>
    unfold readU32s at h
    obtain ⟨x, _, h⟩ := bind_eq_ok h
    obtain ⟨ys, hy, h⟩ := bind_eq_ok h
    simp only [Res.ok.injEq] at h
    subst h
    simp [ih _ _ hy]

theorem readIStreams_length (raw : Bytes) (n i : Nat) (xs : List IStream) (h : readIStreams raw n i = .ok xs) :
    xs.length = n := by
  induction n generalizing i xs with
  | zero => simp only [readIStreams, Res.ok.injEq] at h; subst h; rfl
  | succ n ih =>
    unfold readIStreams at h
    dsimp only at h
    obtain ⟨r, _, h⟩ := bind_eq_ok h
    obtain ⟨a, _, h⟩ := bind_eq_ok h
    obtain ⟨b, _, h⟩ := bind_eq_ok h
    obtain ⟨c, _, h⟩ := bind_eq_ok h
    obtain ⟨ys, hy, h⟩ := bind_eq_ok h
    simp only [Res.ok.injEq] at h
    subst h
    simp [ih _ _ hy]

theorem fwdStreamsLoop_length (raw : Bytes) (fuel off : Nat) (rem : Int) (ss : List (BitVec 16 × BitVec 16))
    (hrem : rem = (raw.length : Int) - off) (h : fwdStreamsLoop raw fuel off rem = .ok ss) :
    off + 4 * ss.length ≤ max raw.length off := by
  induction fuel generalizing off rem ss with
  | zero => cases h
  | succ f ih =>
    unfold fwdStreamsLoop at h
    split at h
    · rename_i hpos
      rw [sliceFrom_of_le (by omega)] at h
      simp only [ok_bind] at h
      split at h
      · cases h
      · rename_i h4
        simp only [List.length_drop, c_forwardTSNStreamLength] at h4
        obtain ⟨a, _, h⟩ := bind_eq_ok h
        obtain ⟨b, _, h⟩ := bind_eq_ok h
        obtain ⟨ys, hy, h⟩ := bind_eq_ok h
        simp only [Res.ok.injEq] at h
        subst h
        have := ih (off + Gen.forwardTSNStreamLength) (rem - (Gen.forwardTSNStreamLength : Nat)) ys
          (by rw [c_forwardTSNStreamLength]; omega) hy
        simp only [c_forwardTSNStreamLength, List.length_cons] at this ⊢
        omega
    · simp only [Res.ok.injEq] at h
      subst h
      simp only [List.length_nil]; omega

/-! ### I-FORWARD-TSN normalisation is idempotent -/

def ikey (s : IStream) : BitVec 16 × Bool := (s.1, s.2.1)

theorem normInsert_keys (acc : List IStream) (s : IStream) :
    (normInsert acc s).map ikey = if ikey s ∈ acc.map ikey then acc.map ikey else acc.map ikey ++ [ikey s] := by
  induction acc with
  | nil => simp [normInsert]
  | cons a rest ih =>
    unfold normInsert
    by_cases hk : a.1 = s.1 ∧ a.2.1 = s.2.1
    · rw [if_pos hk]
      have : ikey a = ikey s := by simp [ikey, hk.1, hk.2]
      by_cases hlt : Gen.sna32LT a.2.2 s.2.2 = true
      · simp [hlt, ikey, hk.1, hk.2]
      · simp [hlt, this]
    · rw [if_neg hk]
      have hne : ikey a ≠ ikey s := by
        intro he; apply hk
        simp only [ikey, Prod.mk.injEq] at he; exact he
      simp only [List.map_cons, ih, List.mem_cons]
      by_cases hm : ikey s ∈ rest.map ikey
      · simp [hm]
      · simp [hm, Ne.symm hne]

theorem normInsert_fresh (acc : List IStream) (s : IStream) (h : ikey s ∉ acc.map ikey) :
    normInsert acc s = acc ++ [s] := by
  induction acc with
  | nil => simp [normInsert]
  | cons a rest ih =>
    simp only [List.map_cons, List.mem_cons, not_or] at h
    unfold normInsert
    have hk : ¬ (a.1 = s.1 ∧ a.2.1 = s.2.1) := by
      intro hk; apply h.1; simp [ikey, hk.1, hk.2]
    rw [if_neg hk, ih h.2]
    rfl

theorem foldl_normInsert_keys_nodup (ss acc : List IStream) (h : (acc.map ikey).Nodup) :
    ((ss.foldl normInsert acc).map ikey).Nodup := by
  induction ss generalizing acc with
  | nil => exact h
  | cons s ss ih =>
    simp only [List.foldl_cons]
    apply ih
    rw [normInsert_keys]
    by_cases hm : ikey s ∈ acc.map ikey
    · rw [if_pos hm]; exact h
    · rw [if_neg hm]
      rw [List.nodup_append]
      exact ⟨h, by simp, by intro a ha b hb; simp at hb; subst hb; intro he; subst he; exact hm ha⟩

theorem foldl_normInsert_nodup (ss acc : List IStream) (h : ((acc ++ ss).map ikey).Nodup) :
    ss.foldl normInsert acc = acc ++ ss := by
  induction ss generalizing acc with
  | nil => simp
  | cons s ss ih =>
    simp only [List.foldl_cons]
    have hfresh : ikey s ∉ acc.map ikey := by
      simp only [List.map_append, List.map_cons, List.nodup_append] at h
      intro hm
      exact h.2.2 _ hm _ (by simp) rfl
    rw [normInsert_fresh acc s hfresh, ih]
    · simp
    · simpa using h

theorem foldl_normInsert_length (ss acc : List IStream) : (ss.foldl normInsert acc).length ≤ acc.length + ss.length := by
  induction ss generalizing acc with
  | nil => simp
  | cons s ss ih =>
    simp only [List.foldl_cons, List.length_cons]
    have := ih (normInsert acc s)
    have hl : (normInsert acc s).length ≤ acc.length + 1 := by
      have := congrArg List.length (normInsert_keys acc s)
      simp only [List.length_map] at this
      rw [this]; split <;> simp
    omega

theorem normalizeStreams_idem (ss : List IStream) : normalizeStreams (normalizeStreams ss) = normalizeStreams ss := by
  unfold normalizeStreams
  by_cases h2 : ss.length < 2
  · simp [h2]
  · rw [if_neg h2]
    by_cases h3 : (ss.foldl normInsert []).length < 2
    · rw [if_pos h3]
    · rw [if_neg h3]
      have := foldl_normInsert_nodup (ss.foldl normInsert []) [] (by
        simpa using foldl_normInsert_keys_nodup ss [] (by simp))
      simpa using this

theorem normalizeStreams_length (ss : List IStream) : (normalizeStreams ss).length ≤ ss.length := by
  unfold normalizeStreams
  split
  · exact Nat.le_refl _
  · have := foldl_normInsert_length ss []; simpa using this

/-! ### INIT parameter loop -/

theorem padded_mono {a b : Nat} (h : a ≤ b) : a + pad4 a ≤ b + pad4 b := by
  rw [pad4_eq, pad4_eq]; omega

theorem initParamsLoop_wf (raw : Bytes) (fuel off : Nat) (rem : Int) (ps : List Param) (us : List (BitVec 16 × Bytes))
    (hrem : rem = (raw.length : Int) - off) (h : initParamsLoop raw fuel off rem = .ok (ps, us)) :
    (∀ p ∈ ps, CodecSpec.wfParam p = true) ∧ ((encParamsPadded ps).length : Int) ≤ max rem 0 := by
  induction fuel generalizing off rem ps us with
  | zero => cases h
  | succ f ih =>
    unfold initParamsLoop at h
    split at h
    · split at h
      · rename_i hpos h4
        rw [sliceFrom_of_le (by omega)] at h
        simp only [ok_bind] at h
        obtain ⟨⟨typ, v, plen⟩, hu, h⟩ := bind_eq_ok h
        have hu' := wrap_eq_ok hu
        have hh := paramHeaderUnmarshal_ok hu'
        simp only [List.length_drop] at hh
        dsimp only at h
        cases hb : buildParam typ (raw.drop off) with
        | ok x =>
          obtain ⟨p, n⟩ := x
          rw [hb] at h
          simp only at h
          obtain ⟨⟨ps', us'⟩, hr, h⟩ := bind_eq_ok h
          simp only [Res.ok.injEq, Prod.mk.injEq] at h
          obtain ⟨h1, h2⟩ := h
          subst h1 h2
          obtain ⟨hw, hle, _, _, _, hn⟩ := buildParam_wf hb
          have hnp : n = plen := by omega
          subst hnp
          obtain ⟨i1, i2⟩ := ih (off + (n + pad4 n)) (rem - ((n + pad4 n : Nat) : Int)) ps' us' (by omega) hr
          refine ⟨?_, ?_⟩
          · intro q hq
            simp only [List.mem_cons] at hq
            rcases hq with hq | hq
            · subst hq; exact hw
            · exact i1 q hq
          · cases ps' with
            | nil => simp only [encParamsPadded]; omega
            | cons q qs =>
              have hge := encParamsPadded_length_ge (q :: qs)
              simp only [List.length_cons] at hge
              have hm := padded_mono hle
              simp only [encParamsPadded, List.length_append, zeros_length] at i2 ⊢
              omega
        | err e =>
          rw [hb] at h
          simp only at h
          obtain ⟨⟨ps', us'⟩, hr, h⟩ := bind_eq_ok h
          simp only [Res.ok.injEq, Prod.mk.injEq] at h
          obtain ⟨h1, h2⟩ := h
          subst h1 h2
          obtain ⟨i1, i2⟩ := ih (off + (plen + pad4 plen)) (rem - ((plen + pad4 plen : Nat) : Int)) ps' us' (by omega) hr
          exact ⟨i1, by omega⟩
        | panic => rw [hb] at h; cases h
        | loop => rw [hb] at h; cases h
      · simp only [Res.ok.injEq, Prod.mk.injEq] at h
        obtain ⟨h1, _⟩ := h
        subst h1
        exact ⟨by simp, by simp [encParamsPadded]; omega⟩
    · simp only [Res.ok.injEq, Prod.mk.injEq] at h
      obtain ⟨h1, _⟩ := h
      subst h1
      exact ⟨by simp, by simp [encParamsPadded]; omega⟩

/-! ### chunk bodies -/

theorem buildParam_hb {r : Bytes} {p : Param} {n : Nat} (h : buildParam ptHeartbeatInfo r = .ok (p, n)) :
    ∃ i, p = .heartbeatInfo i := by
  unfold buildParam at h
  simp only [pt_hb, pt_fwdtsn, pt_supext, pt_ecn, pt_random, pt_hmac, pt_chunklist, pt_cookie, BitVec.reduceEq,
    ↓reduceIte] at h
  obtain ⟨⟨t, v, m⟩, _, h⟩ := bind_eq_ok h
  simp only [Res.ok.injEq, Prod.mk.injEq] at h
  exact ⟨v, h.1.symm⟩

theorem decHeartbeatParam_wf {raw : Bytes} {e1 e2 e3 e4 : Err} {p : Param}
    (h : decHeartbeatParam raw e1 e2 e3 e4 = .ok p) : ∃ i, p = .heartbeatInfo i ∧ i.length + 4 ≤ raw.length := by
  unfold decHeartbeatParam at h
  split at h
  · cases h
  · obtain ⟨pType, _, h⟩ := bind_eq_ok h
    split at h
    · cases h
    · rename_i hpt
      have hpt' : pType = ptHeartbeatInfo := by simpa using hpt
      subst hpt'
      obtain ⟨⟨t, v, plen⟩, _, h⟩ := bind_eq_ok h
      dsimp only at h
      split at h
      · cases h
      · rename_i hpl
        simp only [c_initOptionalVarHeaderLength, not_or, Nat.not_lt, Nat.not_gt_eq] at hpl
        rw [slice_of_le (by omega) hpl.2] at h
        simp only [ok_bind] at h
        obtain ⟨⟨p', n⟩, hb, h⟩ := bind_eq_ok h
        have hb' := wrap_eq_ok hb
        obtain ⟨i, hi⟩ := buildParam_hb hb'
        obtain ⟨hw, _, _, hn, _, _⟩ := buildParam_wf hb'
        obtain ⟨rem, _, h⟩ := bind_eq_ok h
        split at h
        · cases h
        · simp only [Res.ok.injEq] at h
          subst h hi
          refine ⟨i, rfl, ?_⟩
          simp only [CodecSpec.wfParam, fits_iff] at hw
          have hlen : (encParam (.heartbeatInfo i)).length = 4 + i.length := by
            simp [encParam, paramHeaderMarshal_length]
          simp only [List.length_drop, List.length_take, Nat.sub_zero] at hn
          rename_i hle _
          omega

theorem decInit_wf {ack : Bool} {f : Byte} {v : Bytes} {c : Chunk} (h : decInit ack f v = .ok c)
    (hv : v.length < 65536) (hr : reencodable c = true) : wfChunk (normChunk c) = true := by
  unfold decInit at h
  split at h
  · cases h
  · rename_i hlen
    simp only [c_initChunkMinLength, Nat.not_lt] at hlen
    split at h
    · cases h
    · rename_i hf
      have hf0 : f = 0#8 := by simpa using hf
      obtain ⟨ic, hic, h⟩ := bind_eq_ok h
      have hic' := wrap_eq_ok hic
      unfold initCommonUnmarshal at hic'
      rw [u32At_of_le (by omega), u32At_of_le (by omega), u16At_of_le (by omega), u16At_of_le (by omega),
        u32At_of_le (by omega)] at hic'
      simp only [ok_bind] at hic'
      obtain ⟨⟨ps, us⟩, hl, hic'⟩ := bind_eq_ok hic'
      simp only [Res.ok.injEq] at hic'
      obtain ⟨hw, hsz⟩ := initParamsLoop_wf v _ _ _ ps us (by rw [c_initChunkMinLength]) hl
      simp only [c_initChunkMinLength] at hsz
      have hsize : (initCommonMarshal { ic with unrec := [] }).length < 65536 := by
        rw [← hic']
        simp only [initCommonMarshal, List.length_append, be32_length, be16_length]
        omega
      simp only [Res.ok.injEq] at h
      cases ack
      · simp only [Bool.false_eq_true, ↓reduceIte] at h
        subst h
        simp only [reencodable] at hr
        simp only [normChunk, wfChunk, wfInit, Bool.and_eq_true, decide_eq_true_eq, List.all_eq_true, List.isEmpty_nil,
          fitsV_iff]
        refine ⟨hf0, ⟨⟨⟨?_, trivial⟩, hr⟩, hsize⟩⟩
        rw [← hic']; exact hw
      · simp only [↓reduceIte] at h
        subst h
        simp only [reencodable] at hr
        simp only [normChunk, wfChunk, wfInit, Bool.and_eq_true, decide_eq_true_eq, List.all_eq_true, List.isEmpty_nil,
          fitsV_iff]
        refine ⟨hf0, ⟨⟨⟨?_, trivial⟩, hr⟩, hsize⟩⟩
        rw [← hic']; exact hw

theorem decData_wf {t f : Byte} {v : Bytes} {c : Chunk} (h : decData t f v = .ok c) (hv : v.length < 65536) :
    wfChunk c = true := by
  unfold decData at h
  dsimp only at h
  split at h
  · split at h
    · cases h
    · rename_i hl
      simp only [c_payloadDataHeaderSize, Nat.not_lt] at hl
      rw [u32At_of_le (by omega), u16At_of_le (by omega), u16At_of_le (by omega), u32At_of_le (by omega),
        sliceFrom_of_le (by rw [c_payloadDataHeaderSize]; omega)] at h
      simp only [ok_bind, Res.ok.injEq] at h
      subst h
      simp [wfChunk, fitsV_iff]
      omega
  · split at h
    · cases h
    · rename_i hl
      simp only [c_iDataHeaderSize, Nat.not_lt] at hl
      rw [u32At_of_le (by omega), u16At_of_le (by omega), u32At_of_le (by omega), u32At_of_le (by omega),
        sliceFrom_of_le (by rw [c_iDataHeaderSize]; omega)] at h
      simp only [ok_bind, Res.ok.injEq] at h
      subst h
      simp only [wfChunk, ↓reduceIte, decide_true, Bool.true_and, Bool.and_eq_true, decide_eq_true_eq, fitsV_iff,
        List.length_drop, c_iDataHeaderSize]
      refine ⟨?_, by omega⟩
      cases flagBit f Gen.payloadDataBeginingFragmentBitmask <;> simp

theorem decSack_wf {f : Byte} {v : Bytes} {c : Chunk} (h : decSack f v = .ok c) (hv : v.length < 65536) :
    wfChunk c = true := by
  unfold decSack at h
  split at h
  · cases h
  · rename_i hl
    simp only [c_selectiveAckHeaderSize, Nat.not_lt] at hl
    rw [u32At_of_le (by omega), u32At_of_le (by omega), u16At_of_le (by omega), u16At_of_le (by omega)] at h
    simp only [ok_bind] at h
    split at h
    · cases h
    · rename_i hsz
      simp only [c_selectiveAckHeaderSize, ne_eq, Decidable.not_not] at hsz
      obtain ⟨gs, hg, h⟩ := bind_eq_ok h
      obtain ⟨ds, hd, h⟩ := bind_eq_ok h
      simp only [Res.ok.injEq] at h
      subst h
      have := readGaps_length _ _ _ _ hg
      have := readU32s_length _ _ _ _ hd
      simp only [wfChunk, fitsV_iff]
      omega

theorem decReconfig_wf {f : Byte} {v : Bytes} {c : Chunk} (h : decReconfig f v = .ok c) (hv : v.length < 65536) :
    wfChunk c = true := by
  unfold decReconfig at h
  obtain ⟨pt, _, h⟩ := bind_eq_ok h
  obtain ⟨⟨a, alen⟩, ha, h⟩ := bind_eq_ok h
  obtain ⟨hwa, hla, _, hna, _, _⟩ := buildParam_wf ha
  dsimp only at h
  split at h
  · rename_i hgt
    rw [sliceFrom_of_le (by omega)] at h
    simp only [ok_bind] at h
    obtain ⟨pt2, _, h⟩ := bind_eq_ok h
    obtain ⟨⟨b, blen⟩, hb, h⟩ := bind_eq_ok h
    obtain ⟨hwb, hlb, _, hnb, _, _⟩ := buildParam_wf hb
    simp only [List.length_drop] at hnb
    simp only [Res.ok.injEq] at h
    subst h
    have hm := padded_mono hla
    simp only [wfChunk, hwa, hwb, Bool.and_self, Bool.true_and, fitsV_iff, paramLen]
    omega
  · simp only [Res.ok.injEq] at h
    subst h
    simp only [wfChunk, hwa, Bool.and_self, Bool.true_and, fitsV_iff, paramLen]
    omega

theorem decForwardTsn_wf {f : Byte} {v : Bytes} {c : Chunk} (h : decForwardTsn f v = .ok c) (hv : v.length < 65536) :
    wfChunk c = true := by
  unfold decForwardTsn at h
  split at h
  · cases h
  · rename_i hl
    simp only [c_newCumulativeTSNLength, Nat.not_lt] at hl
    rw [u32At_of_le (by omega)] at h
    simp only [ok_bind] at h
    obtain ⟨ss, hs, h⟩ := bind_eq_ok h
    simp only [Res.ok.injEq] at h
    subst h
    have := fwdStreamsLoop_length v _ _ _ ss (by rw [c_newCumulativeTSNLength]) hs
    simp only [c_newCumulativeTSNLength] at this
    simp only [wfChunk, fitsV_iff]
    omega

theorem decIForwardTsn_wf {f : Byte} {v : Bytes} {c : Chunk} (h : decIForwardTsn f v = .ok c) :
    wfChunk c = true := by
  unfold decIForwardTsn at h
  split at h
  · cases h
  · rename_i hl
    simp only [c_newCumulativeTSNLength, Nat.not_lt] at hl
    rw [u32At_of_le (by omega)] at h
    simp only [ok_bind] at h
    try dsimp only at h
    split at h
    · cases h
    · split at h
      · cases h
      · rename_i hmod hmax
        obtain ⟨ss, hs, h⟩ := bind_eq_ok h
        simp only [Res.ok.injEq] at h
        subst h
        have hl := readIStreams_length _ _ _ _ hs
        have := normalizeStreams_length ss
        simp only [c_maxIForwardTSNStreams, Nat.not_lt] at hmax
        simp only [wfChunk, normalizeStreams_idem, decide_true, Bool.true_and, decide_eq_true_eq, c_maxIForwardTSNStreams]
        omega

theorem normChunk_of_not_init {c : Chunk} (h : ∀ f ic, c ≠ .init f ic ∧ c ≠ .initAck f ic) : normChunk c = c := by
  cases c <;> first | rfl | (exfalso; rename_i f ic; first | exact (h f ic).1 rfl | exact (h f ic).2 rfl)

/-- every chunk the decoder returns from a value shorter than 2^16 bytes is well formed (after
dropping the never-marshalled unrecognised INIT parameters), unless it is one of the two known shapes -/
theorem decBody_wf {t f : Byte} {v : Bytes} {c : Chunk} (h : decBody t f v = .ok c) (hv : v.length < 65536)
    (hr : reencodable c = true) : wfChunk (normChunk c) = true := by
  unfold decBody at h
  hifcase h : t = ctInit => exact decInit_wf h hv hr
  hifcase h : t = ctInitAck => exact decInit_wf h hv hr
  hifcase h : t = ctAbort =>
    obtain ⟨cs, hc, h⟩ := bind_eq_ok h
    simp only [Res.ok.injEq] at h
    subst h
    obtain ⟨h1, h2⟩ := causesLoop_wf v _ 0 cs (by omega) (wrap_eq_ok hc)
    simp only [normChunk, wfChunk, Bool.and_eq_true, List.all_eq_true, fitsV_iff]
    exact ⟨h1, by omega⟩
  hifcase h : t = ctCookieEcho =>
    simp only [Res.ok.injEq] at h; subst h
    simp only [normChunk, wfChunk, fitsV_iff]; exact hv
  hifcase h : t = ctCookieAck =>
    simp only [Res.ok.injEq] at h; subst h
    simp only [normChunk, wfChunk, fitsV_iff]; exact hv
  hifcase h : t = ctHeartbeat =>
    rename_i htyp
    unfold decHeartbeat at h
    split at h
    · rename_i hl
      simp only [Res.ok.injEq] at h; subst h
      have : v = [] := List.eq_nil_of_length_eq_zero hl
      subst this
      simp [normChunk, wfChunk, htyp]
    · obtain ⟨p, hp, h⟩ := bind_eq_ok h
      simp only [Res.ok.injEq] at h; subst h
      obtain ⟨i, hi, hl⟩ := decHeartbeatParam_wf hp
      subst hi
      simp only [normChunk, wfChunk, fits_iff]; omega
  hifcase h : t = ctHeartbeatAck =>
    unfold decHeartbeatAck at h
    split at h
    · simp only [Res.ok.injEq] at h; subst h
      simp [reencodable] at hr
    · obtain ⟨p, hp, h⟩ := bind_eq_ok h
      simp only [Res.ok.injEq] at h; subst h
      obtain ⟨i, hi, hl⟩ := decHeartbeatParam_wf hp
      subst hi
      simp only [normChunk, wfChunk, fits_iff]; omega
  hifcase h : t = ctData ∨ t = ctIData =>
    have := decData_wf h hv
    rw [normChunk_of_not_init]
    · exact this
    · intro f' ic
      unfold decData at h
      dsimp only at h
      constructor <;> (intro he; subst he; split at h <;> split at h <;>
        first | cases h | (repeat (obtain ⟨_, _, h⟩ := bind_eq_ok h)); cases h)
  hifcase h : t = ctSack =>
    have := decSack_wf h hv
    unfold decSack at h
    split at h
    · cases h
    · obtain ⟨_, _, h⟩ := bind_eq_ok h
      obtain ⟨_, _, h⟩ := bind_eq_ok h
      obtain ⟨_, _, h⟩ := bind_eq_ok h
      obtain ⟨_, _, h⟩ := bind_eq_ok h
      split at h
      · cases h
      · obtain ⟨_, _, h⟩ := bind_eq_ok h
        obtain ⟨_, _, h⟩ := bind_eq_ok h
        simp only [Res.ok.injEq] at h; subst h
        exact this
  hifcase h : t = ctReconfig =>
    have := decReconfig_wf h hv
    unfold decReconfig at h
    obtain ⟨_, _, h⟩ := bind_eq_ok h
    obtain ⟨_, _, h⟩ := bind_eq_ok h
    dsimp only at h
    split at h
    · obtain ⟨_, _, h⟩ := bind_eq_ok h
      obtain ⟨_, _, h⟩ := bind_eq_ok h
      obtain ⟨_, _, h⟩ := bind_eq_ok h
      simp only [Res.ok.injEq] at h; subst h; exact this
    · simp only [Res.ok.injEq] at h; subst h; exact this
  hifcase h : t = ctForwardTSN =>
    have := decForwardTsn_wf h hv
    unfold decForwardTsn at h
    split at h
    · cases h
    · obtain ⟨_, _, h⟩ := bind_eq_ok h
      obtain ⟨_, _, h⟩ := bind_eq_ok h
      simp only [Res.ok.injEq] at h; subst h; exact this
  hifcase h : t = ctIForwardTSN =>
    have := decIForwardTsn_wf h
    unfold decIForwardTsn at h
    split at h
    · cases h
    · obtain ⟨_, _, h⟩ := bind_eq_ok h
      dsimp only at h
      split at h
      · cases h
      · split at h
        · cases h
        · obtain ⟨_, _, h⟩ := bind_eq_ok h
          simp only [Res.ok.injEq] at h; subst h; exact this
  hifcase h : t = ctError =>
    obtain ⟨cs, hc, h⟩ := bind_eq_ok h
    simp only [Res.ok.injEq] at h
    subst h
    obtain ⟨h1, h2⟩ := causesLoop_wf v _ 0 cs (by omega) (wrap_eq_ok hc)
    simp only [normChunk, wfChunk, Bool.and_eq_true, List.all_eq_true, fitsV_iff]
    exact ⟨h1, by omega⟩
  hifcase h : t = ctShutdown =>
    split at h
    · cases h
    · obtain ⟨_, _, h⟩ := bind_eq_ok h
      simp only [Res.ok.injEq] at h; subst h
      rfl
  hifcase h : t = ctShutdownAck =>
    simp only [Res.ok.injEq] at h; subst h
    simp only [normChunk, wfChunk, fitsV_iff]; exact hv
  hifcase h : t = ctShutdownComplete =>
    simp only [Res.ok.injEq] at h; subst h
    simp only [normChunk, wfChunk, fitsV_iff]; exact hv
  cases h

/-! ### packets -/

theorem decChunk_wf {rem : Bytes} {c : Chunk} {vl : Nat} (h4 : 4 ≤ rem.length) (h : decChunk rem = .ok (c, vl))
    (hr : reencodable c = true) : wfChunk (normChunk c) = true := by
  unfold decChunk at h
  rw [u8At_of_lt (by omega)] at h
  simp only [ok_bind] at h
  split at h
  · cases h
  · obtain ⟨⟨typ, flags, v⟩, hh, h⟩ := bind_eq_ok h
    obtain ⟨c', hb, h⟩ := bind_eq_ok h
    simp only [Res.ok.injEq, Prod.mk.injEq] at h
    obtain ⟨h1, _⟩ := h
    subst h1
    have hvl : v.length = (g16 rem 2 - 4#16).toNat := (chunkHeaderUnmarshal_ok hh).2.2.2.1
    have hlt := (g16 rem 2 - 4#16).isLt
    exact decBody_wf hb (by rw [hvl]; omega) hr

theorem chunksLoop_wf (raw : Bytes) (fuel off : Nat) (cs : List Chunk) (h : chunksLoop raw fuel off = .ok cs) :
    ∀ c ∈ cs, reencodable c = true → wfChunk (normChunk c) = true := by
  induction fuel generalizing off cs with
  | zero => cases h
  | succ f ih =>
    unfold chunksLoop at h
    split at h
    · rename_i hlt
      rw [sliceFrom_of_le (by omega)] at h
      simp only [ok_bind] at h
      split at h
      · cases h
      · rename_i h4
        simp only [List.length_drop, c_chunkHeaderSize, Nat.not_lt] at h4
        obtain ⟨⟨c, vl⟩, hd, h⟩ := bind_eq_ok h
        obtain ⟨cs', hr, h⟩ := bind_eq_ok h
        simp only [Res.ok.injEq] at h
        subst h
        intro x hx hre
        simp only [List.mem_cons] at hx
        rcases hx with hx | hx
        · subst hx
          exact decChunk_wf (by simp only [List.length_drop]; omega) hd hre
        · exact ih _ _ hr x hx hre
    · split at h
      · cases h
      · simp only [Res.ok.injEq] at h
        subst h
        intro x hx; cases hx

theorem encChunk_norm (c : Chunk) : encChunk (normChunk c) = encChunk c := by
  cases c <;> rfl

theorem encChunks_norm (pre : Bytes) (cs : List Chunk) : encChunks pre (cs.map normChunk) = encChunks pre cs := by
  induction cs generalizing pre with
  | nil => rfl
  | cons c cs ih =>
    simp only [List.map_cons]
    unfold encChunks
    rw [encChunk_norm]
    cases encChunk c with
    | ok cb => simp only [ok_bind]; exact ih _
    | err e => rfl
    | panic => rfl
    | loop => rfl

theorem encWith_norm (crc : Bytes → BitVec 32) (dc : Bool) (p : Packet) : encWith crc dc (norm p) = encWith crc dc p := by
  unfold encWith norm
  simp only [encChunks_norm]

theorem normChunk_idem (c : Chunk) : normChunk (normChunk c) = normChunk c := by
  cases c <;> rfl

/-- RE-ENCODE STABILITY for every accepted packet none of whose chunks has one of the two known shapes:
the decoded packet is re-encoded successfully, the re-encoding decodes to the same packet (up to the
never-marshalled unrecognised INIT parameters), and a second round changes nothing. -/
theorem reencode_stable (crc : Bytes → BitVec 32) (dc : Bool) (raw : Bytes) (p : Packet)
    (h : decWith crc dc raw = .ok p) (hr : p.chunks.all reencodable = true) :
    ∃ raw', encWith crc true p = .ok raw' ∧ (∀ dc', decWith crc dc' raw' = .ok (norm p)) ∧
      encWith crc true (norm p) = .ok raw' := by
  have h12 : 12 ≤ raw.length := by
    apply Decidable.byContradiction
    intro hlt
    unfold decWith at h
    rw [if_pos (by rw [c_packetHeaderSize]; omega)] at h
    cases h
  rw [decWith_eq crc dc raw h12] at h
  split at h
  · unfold decAfter at h
    obtain ⟨cs, hc, h⟩ := bind_eq_ok h
    simp only [Res.ok.injEq] at h
    have hwf : wfPacket (norm p) = true := by
      simp only [wfPacket, norm, List.all_eq_true, List.mem_map]
      rintro x ⟨c, hcm, rfl⟩
      simp only [List.all_eq_true] at hr
      rw [← h] at hcm hr
      exact chunksLoop_wf raw _ 12 cs hc c hcm (hr c hcm)
    obtain ⟨raw', he, hd⟩ := packet_roundtrip crc (norm p) hwf
    exact ⟨raw', by rw [← encWith_norm]; exact he, hd, he⟩
  · cases h

end Codec
