import SctpVerif.Proofs.Codec.Chunks
/-!
Packet level: every well-formed chunk round-trips, bundles, the common header and the checksum.
-/
namespace Codec
open Res CodecSpec

theorem chunk_roundtrip (c : Chunk) (h : wfChunk c = true) : RoundTrips c := by
  cases c with
  | data iData u b e i tsn si ssn mid fsn ppi ud =>
    cases iData
    · simp only [wfChunk, Bool.false_eq_true, ↓reduceIte, Bool.and_eq_true, decide_eq_true_eq, fitsV_iff] at h
      obtain ⟨⟨h1, h2⟩, h3⟩ := h
      subst h1 h2
      exact data_roundtrip u b e i tsn si ssn ppi ud (by omega)
    · simp only [wfChunk, ↓reduceIte, Bool.and_eq_true, decide_eq_true_eq, fitsV_iff] at h
      obtain ⟨⟨h1, h2⟩, h3⟩ := h
      subst h1
      refine idata_roundtrip u b e i tsn si mid fsn ppi ud ?_ (by omega)
      cases b <;> simpa using h2
  | init flags c =>
    simp only [wfChunk, Bool.and_eq_true, decide_eq_true_eq] at h
    obtain ⟨h1, h2⟩ := h
    subst h1
    exact init_roundtrip false c h2
  | initAck flags c =>
    simp only [wfChunk, Bool.and_eq_true, decide_eq_true_eq] at h
    obtain ⟨h1, h2⟩ := h
    subst h1
    exact init_roundtrip true c h2
  | sack f cum arwnd gaps dups =>
    simp only [wfChunk, fitsV_iff] at h
    exact sack_roundtrip f cum arwnd gaps dups h
  | heartbeat ps =>
    match ps, h with
    | [.heartbeatInfo i], h =>
      simp only [wfChunk, fits_iff] at h
      exact heartbeat_roundtrip i (by omega)
  | heartbeatEmpty typ f raw =>
    simp only [wfChunk, Bool.and_eq_true, decide_eq_true_eq, List.isEmpty_iff] at h
    obtain ⟨h1, h2⟩ := h
    subst h1 h2
    exact heartbeatEmpty_roundtrip f
  | heartbeatAck f ps =>
    match ps, h with
    | [.heartbeatInfo i], h =>
      simp only [wfChunk, fits_iff] at h
      exact heartbeatAck_roundtrip f i (by omega)
  | abort cs =>
    simp only [wfChunk, Bool.and_eq_true, List.all_eq_true, fitsV_iff] at h
    exact abort_roundtrip cs h.1 (by omega)
  | error cs =>
    simp only [wfChunk, Bool.and_eq_true, List.all_eq_true, fitsV_iff] at h
    exact error_roundtrip cs h.1 (by omega)
  | shutdown f cum => exact shutdown_roundtrip f cum
  | shutdownAck f raw => simp only [wfChunk, fitsV_iff] at h; exact shutdownAck_roundtrip f raw (by omega)
  | shutdownComplete f raw => simp only [wfChunk, fitsV_iff] at h; exact shutdownComplete_roundtrip f raw (by omega)
  | cookieEcho f raw => simp only [wfChunk, fitsV_iff] at h; exact cookieEcho_roundtrip f raw (by omega)
  | cookieAck f raw => simp only [wfChunk, fitsV_iff] at h; exact cookieAck_roundtrip f raw (by omega)
  | reconfig f a b =>
    simp only [wfChunk, Bool.and_eq_true, fitsV_iff] at h
    obtain ⟨⟨h1, h2⟩, h3⟩ := h
    refine reconfig_roundtrip f a b h1 ?_ (by cases b <;> simp_all <;> omega)
    intro x hx; subst hx; simpa using h2
  | forwardTsn f cum ss => simp only [wfChunk, fitsV_iff] at h; exact forwardTsn_roundtrip f cum ss h
  | iForwardTsn f cum ss =>
    simp only [wfChunk, Bool.and_eq_true, decide_eq_true_eq, c_maxIForwardTSNStreams] at h
    exact iForwardTsn_roundtrip f cum ss h.1 h.2

/-! ### bundles -/

theorem pad4_add_of_mod (a n : Nat) (h : a % 4 = 0) : pad4 (a + n) = pad4 n := by
  rw [pad4_eq, pad4_eq]; omega

theorem chunkHeaderMarshal_length (t f : Byte) (v : Bytes) : (chunkHeaderMarshal t f v).length = 4 + v.length := by
  simp [chunkHeaderMarshal]; omega

/-- `packet.marshal`'s chunk loop followed by `packet.unmarshal`'s chunk loop is the identity on
well-formed chunk lists; the produced chunk area is 4-aligned. -/
theorem encChunks_roundtrip (pre : Bytes) (hpre : pre.length % 4 = 0) (cs : List Chunk)
    (hwf : ∀ c ∈ cs, wfChunk c = true) :
    ∃ body, encChunks pre cs = .ok (pre ++ body) ∧ decChunks body = .ok cs ∧ body.length % 4 = 0 ∧
      (body = [] ∨ 4 ≤ body.length) := by
  induction cs generalizing pre with
  | nil => exact ⟨[], by simp [encChunks], decChunks_nil, rfl, Or.inl rfl⟩
  | cons c cs ih =>
    obtain ⟨t, f, v, henc, hknown, hvl, hdec⟩ := chunk_roundtrip c (hwf c (by simp))
    have hcl := chunkHeaderMarshal_length t f v
    have hpad : pad4 (pre ++ chunkHeaderMarshal t f v).length = pad4 v.length := by
      rw [List.length_append, pad4_add_of_mod _ _ hpre, hcl, pad4_eq, pad4_eq]; omega
    have hal : (pre ++ chunkHeaderMarshal t f v ++ zeros (pad4 v.length)).length % 4 = 0 := by
      have := add_pad4_mod v.length
      simp only [List.length_append, hcl, zeros_length]; omega
    obtain ⟨body', he', hd', hm', hb'⟩ := ih (pre ++ chunkHeaderMarshal t f v ++ zeros (pad4 v.length)) hal
      (fun x hx => hwf x (by simp [hx]))
    refine ⟨chunkHeaderMarshal t f v ++ zeros (pad4 v.length) ++ body', ?_, ?_, ?_, ?_⟩
    · unfold encChunks
      simp only [List.append_assoc] at he'
      simp only [henc, ok_bind, hpad, List.append_assoc, he']
    · have hcons := decChunks_cons t f (byteOf ((trunc16 (v.length + 4)).toNat / 256)) (byteOf (trunc16 (v.length + 4)).toNat)
        v (zeros (pad4 v.length)) body' (by rw [u16_be]; exact trunc16_add4_sub4 hvl) (by simp)
        (by rcases hb' with h | h
            · exact Or.inl ⟨h, by simp⟩
            · exact Or.inr h)
      have hshape : chunkHeaderMarshal t f v ++ zeros (pad4 v.length) ++ body' =
          t :: f :: byteOf ((trunc16 (v.length + 4)).toNat / 256) :: byteOf (trunc16 (v.length + 4)).toNat ::
            (v ++ (zeros (pad4 v.length) ++ body')) := by
        simp [chunkHeaderMarshal, be16]
      rw [hshape, hcons, hknown]
      simp only [↓reduceIte, hdec, hd', ok_bind]
    · have := add_pad4_mod v.length
      simp only [List.length_append, hcl, zeros_length]; omega
    · right; simp only [List.length_append, hcl]; omega

/-! ### the common header and the checksum -/

/-- `generatePacketChecksum` as a total function -/
def cksum (crc : Bytes → BitVec 32) (raw : Bytes) : BitVec 32 := crc (raw.take 8 ++ zeros 4 ++ raw.drop 12)

/-- the checksum field as a total function -/
def field (raw : Bytes) : BitVec 32 := u32 (g8 raw 11) (g8 raw 10) (g8 raw 9) (g8 raw 8)

theorem packetChecksum_eq (crc : Bytes → BitVec 32) (raw : Bytes) (h : 12 ≤ raw.length) :
    packetChecksum crc raw = .ok (cksum crc raw) := by
  unfold packetChecksum cksum
  rw [slice_of_le (by omega) (by omega), sliceFrom_of_le (by omega)]
  rfl

theorem u32_le (v : BitVec 32) :
    u32 (byteOf (v.toNat / 256 / 256 / 256)) (byteOf (v.toNat / 256 / 256)) (byteOf (v.toNat / 256)) (byteOf v.toNat) = v :=
  u32_be v

/-- writing the checksum does not change what it is computed from -/
theorem cksum_putChecksum (crc : Bytes → BitVec 32) (raw : Bytes) (s : BitVec 32) (h : 12 ≤ raw.length) :
    cksum crc (putChecksum raw s) = cksum crc raw := by
  unfold cksum putChecksum
  have h8 : (raw.take 8).length = 8 := by simp; omega
  have e1 : (raw.take 8 ++ le32 s ++ raw.drop 12).take 8 = raw.take 8 := by
    rw [List.append_assoc]; exact List.take_left' h8
  have e2 : (raw.take 8 ++ le32 s ++ raw.drop 12).drop 12 = raw.drop 12 :=
    List.drop_left' (by simp; omega)
  rw [e1, e2]

theorem g8_append_right (a b : Bytes) (i : Nat) : g8 (a ++ b) (a.length + i) = g8 b i := by
  simp only [g8, List.getD_eq_getElem?_getD]
  rw [List.getElem?_append_right (by omega)]
  simp

theorem g8_append_left (a b : Bytes) (i : Nat) (h : i < a.length) : g8 (a ++ b) i = g8 a i := by
  simp only [g8, List.getD_eq_getElem?_getD]
  rw [List.getElem?_append_left h]

theorem field_append (a : Bytes) (s : BitVec 32) (d : Bytes) (h8 : a.length = 8) : field (a ++ le32 s ++ d) = s := by
  unfold field
  have g : ∀ k, k < 4 → g8 (a ++ le32 s ++ d) (8 + k) = g8 (le32 s) k := by
    intro k hk
    rw [List.append_assoc, ← h8, g8_append_right, g8_append_left _ _ _ (by simp; omega)]
  have h0 := g 0 (by omega); have h1 := g 1 (by omega); have h2 := g 2 (by omega); have h3 := g 3 (by omega)
  simp only [Nat.add_zero, Nat.reduceAdd] at h0 h1 h2 h3
  rw [h0, h1, h2, h3]
  simp [g8, le32, u32_be]

theorem field_putChecksum (raw : Bytes) (s : BitVec 32) (h : 12 ≤ raw.length) : field (putChecksum raw s) = s :=
  field_append _ _ _ (by simp; omega)

/-! ### `packet.unmarshal` in normal form: the checksum rule, then everything else -/

/-- the packet has a first chunk header and its type is INIT or COOKIE-ECHO -/
def firstIsInitOrCookieEcho (raw : Bytes) : Bool :=
  decide (16 ≤ raw.length) && (g8 raw 12 == ctInit || g8 raw 12 == ctCookieEcho)

/-- the checksum acceptance rule of `packet.unmarshal(doChecksum, raw)` -/
def accept (crc : Bytes → BitVec 32) (doChecksum : Bool) (raw : Bytes) : Prop :=
  field raw = cksum crc raw ∨ (field raw = 0#32 ∧ doChecksum = false ∧ firstIsInitOrCookieEcho raw = false)

instance (crc : Bytes → BitVec 32) (dc : Bool) (raw : Bytes) : Decidable (accept crc dc raw) := by
  unfold accept; infer_instance

/-- what `packet.unmarshal` does once the checksum rule has let the packet through: it depends
neither on the flag nor on the CRC -/
def decAfter (raw : Bytes) : Res Packet :=
  chunksLoop raw (raw.length / 4 + 1) 12 >>= fun cs =>
    .ok { sport := g16 raw 0, dport := g16 raw 2, vtag := g32 raw 4, chunks := cs }

theorem decWith_eq (crc : Bytes → BitVec 32) (dc : Bool) (raw : Bytes) (h12 : 12 ≤ raw.length) :
    decWith crc dc raw = if accept crc dc raw then decAfter raw else .err .ErrChecksumMismatch := by
  have hf : u32 (g8 raw (8 + 3)) (g8 raw (8 + 2)) (g8 raw (8 + 1)) (g8 raw 8) = field raw := rfl
  unfold decWith
  rw [if_neg (by rw [c_packetHeaderSize]; omega)]
  simp only [c_packetHeaderSize, c_chunkHeaderSize]
  rw [u32leAt_of_le (by omega), packetChecksum_eq crc raw h12, u16At_of_le (by omega), u16At_of_le (by omega),
    u32At_of_le (by omega), hf]
  unfold accept firstIsInitOrCookieEcho decAfter
  by_cases h16 : 12 + 4 ≤ raw.length
  · rw [if_pos h16, u8At_of_lt (by omega)]
    have h16' : decide (16 ≤ raw.length) = true := by simp; omega
    by_cases ht : g8 raw 12 = 1#8 ∨ g8 raw 12 = 10#8
    · have hb : (g8 raw 12 == 1#8 || g8 raw 12 == 10#8) = true := by
        rcases ht with h | h <;> simp [h]
      by_cases hz : field raw = 0#32 <;> by_cases he : field raw = cksum crc raw <;>
        simp [ht, h16', hb, hz, he] <;> simp_all
    · have hb : (g8 raw 12 == 1#8 || g8 raw 12 == 10#8) = false := by
        simp only [not_or] at ht
        simp [ht.1, ht.2]
      by_cases hz : field raw = 0#32 <;> by_cases hd : dc = true <;> by_cases he : field raw = cksum crc raw <;>
        simp [ht, h16', hb, hz, hd, he] <;> simp_all
  · rw [if_neg h16]
    have h16' : decide (16 ≤ raw.length) = false := by simp; omega
    by_cases hz : field raw = 0#32 <;> by_cases hd : dc = true <;> by_cases he : field raw = cksum crc raw <;>
      simp [h16', hz, hd, he] <;> simp_all

/-! ### packets -/

theorem encChunks_prefix (pre : Bytes) (cs : List Chunk) (raw : Bytes) (h : encChunks pre cs = .ok raw) :
    ∃ body, raw = pre ++ body := by
  induction cs generalizing pre with
  | nil => simp only [encChunks, Res.ok.injEq] at h; exact ⟨[], by simp [h]⟩
  | cons c cs ih =>
    unfold encChunks at h
    cases hc : encChunk c with
    | ok cb =>
      rw [hc] at h
      simp only [ok_bind] at h
      obtain ⟨body, hb⟩ := ih _ h
      exact ⟨cb ++ zeros (pad4 (pre ++ cb).length) ++ body, by rw [hb]; simp⟩
    | err e => rw [hc] at h; cases h
    | panic => rw [hc] at h; cases h
    | loop => rw [hc] at h; cases h

/-- the 12-byte common header `packet.marshal` starts from -/
def hdr8 (p : Packet) : Bytes := be16 p.sport ++ be16 p.dport ++ be32 p.vtag

theorem hdr8_length (p : Packet) : (hdr8 p).length = 8 := by simp [hdr8]

theorem putChecksum_hdr (p : Packet) (body : Bytes) (s : BitVec 32) :
    putChecksum (hdr8 p ++ zeros 4 ++ body) s = hdr8 p ++ le32 s ++ body := by
  unfold putChecksum
  have h1 : (hdr8 p ++ zeros 4 ++ body).take 8 = hdr8 p := by
    rw [List.append_assoc]; exact List.take_left' (hdr8_length p)
  have h2 : (hdr8 p ++ zeros 4 ++ body).drop 12 = body :=
    List.drop_left' (by simp [hdr8_length])
  rw [h1, h2]

theorem decAfter_hdr (p : Packet) (x body : Bytes) (hx : x.length = 4) (cs : List Chunk)
    (hd : decChunks body = .ok cs) :
    decAfter (hdr8 p ++ x ++ body) = .ok { sport := p.sport, dport := p.dport, vtag := p.vtag, chunks := cs } := by
  unfold decAfter
  have hl : (hdr8 p ++ x).length = 12 := by simp [hdr8_length, hx]
  have hshift := chunksLoop_shift (hdr8 p ++ x ++ body) ((hdr8 p ++ x ++ body).length / 4 + 1) 12 0
    (by simp [hdr8_length, hx]; omega)
  rw [Nat.add_zero] at hshift
  have hdrop : (hdr8 p ++ x ++ body).drop 12 = body := List.drop_left' hl
  rw [hshift, hdrop, chunksLoop_eq_decChunks body _ (by simp [hdr8_length, hx]; omega), hd]
  simp only [ok_bind, Res.ok.injEq]
  have e0 : g16 (hdr8 p ++ x ++ body) 0 = p.sport := by simp [hdr8, be16, g16, g8]
  have e2 : g16 (hdr8 p ++ x ++ body) 2 = p.dport := by simp [hdr8, be16, g16, g8]
  have e4 : g32 (hdr8 p ++ x ++ body) 4 = p.vtag := by simp [hdr8, be16, be32, g32, g8]
  rw [e0, e2, e4]

/-- ROUND TRIP: a well-formed packet, marshalled with its checksum, unmarshals to itself whatever
the `doChecksum` flag of the receiver. `crc` is arbitrary. -/
theorem packet_roundtrip (crc : Bytes → BitVec 32) (p : Packet) (hwf : wfPacket p = true) :
    ∃ raw, encWith crc true p = .ok raw ∧ ∀ dc, decWith crc dc raw = .ok p := by
  simp only [wfPacket, List.all_eq_true] at hwf
  obtain ⟨body, he, hd, _, _⟩ := encChunks_roundtrip (hdr8 p ++ zeros 4) (by simp [hdr8_length]) p.chunks hwf
  have hlen : 12 ≤ (hdr8 p ++ zeros 4 ++ body).length := by simp [hdr8_length]; omega
  refine ⟨hdr8 p ++ le32 (cksum crc (hdr8 p ++ zeros 4 ++ body)) ++ body, ?_, ?_⟩
  · unfold encWith
    have : be16 p.sport ++ be16 p.dport ++ be32 p.vtag ++ zeros 4 = hdr8 p ++ zeros 4 := rfl
    rw [this, he]
    simp only [ok_bind, ↓reduceIte, packetChecksum_eq crc _ hlen, putChecksum_hdr]
  · intro dc
    have hlen' : 12 ≤ (hdr8 p ++ le32 (cksum crc (hdr8 p ++ zeros 4 ++ body)) ++ body).length := by
      simp [hdr8_length]; omega
    rw [decWith_eq crc dc _ hlen']
    have hacc : accept crc dc (hdr8 p ++ le32 (cksum crc (hdr8 p ++ zeros 4 ++ body)) ++ body) := by
      left
      rw [← putChecksum_hdr, field_putChecksum _ _ hlen, cksum_putChecksum _ _ _ hlen]
    rw [if_pos hacc, decAfter_hdr p _ body (by simp) p.chunks hd]

/-! ### emission -/

theorem le32_zero : le32 0#32 = zeros 4 := by decide

/-- what `packet.marshal(doChecksum)` writes into the checksum field -/
theorem encWith_field (crc : Bytes → BitVec 32) (dc : Bool) (p : Packet) (raw : Bytes)
    (h : encWith crc dc p = .ok raw) :
    12 ≤ raw.length ∧ field raw = if dc then cksum crc raw else 0#32 := by
  unfold encWith at h
  have e : be16 p.sport ++ be16 p.dport ++ be32 p.vtag ++ zeros 4 = hdr8 p ++ zeros 4 := rfl
  rw [e] at h
  cases he : encChunks (hdr8 p ++ zeros 4) p.chunks with
  | ok raw0 =>
    obtain ⟨body, hb⟩ := encChunks_prefix _ _ _ he
    subst hb
    have hlen : 12 ≤ (hdr8 p ++ zeros 4 ++ body).length := by simp [hdr8_length]; omega
    rw [he] at h
    simp only [ok_bind] at h
    cases dc
    · simp only [Bool.false_eq_true, ↓reduceIte, Res.ok.injEq] at h
      subst h
      refine ⟨hlen, ?_⟩
      rw [← le32_zero]
      exact field_append _ _ _ (hdr8_length p)
    · simp only [↓reduceIte, packetChecksum_eq crc _ hlen, ok_bind, Res.ok.injEq] at h
      subst h
      refine ⟨by rw [putChecksum_hdr]; simp [hdr8_length]; omega, ?_⟩
      rw [field_putChecksum _ _ hlen, cksum_putChecksum _ _ _ hlen]
      rfl
  | err e => rw [he] at h; cases h
  | panic => rw [he] at h; cases h
  | loop => rw [he] at h; cases h

/-- a packet that starts with INIT / COOKIE-ECHO but is too short to hold a chunk header is rejected
after the checksum stage -/
theorem decAfter_short (raw : Bytes) (h1 : 12 < raw.length) (h2 : raw.length < 16) :
    decAfter raw = .err .ErrParseSCTPChunkNotEnoughData := by
  unfold decAfter
  rw [chunksLoop.eq_def]
  simp only
  rw [if_pos h1, sliceFrom_of_le (by omega)]
  simp only [ok_bind]
  rw [if_pos (by simp only [List.length_drop, c_chunkHeaderSize]; omega)]
  rfl

end Codec
