import SctpVerif.Proofs.Codec.RoundTrip
/-!
Round trip of each chunk type: `decBody t f v = ok c` where `encChunk c = ok (chunkHeaderMarshal t f v)`.
-/
namespace Codec
open Res CodecSpec

@[simp] theorem ct_data : ctData = 0#8 := by decide
@[simp] theorem ct_init : ctInit = 1#8 := by decide
@[simp] theorem ct_initack : ctInitAck = 2#8 := by decide
@[simp] theorem ct_sack : ctSack = 3#8 := by decide
@[simp] theorem ct_hb : ctHeartbeat = 4#8 := by decide
@[simp] theorem ct_hback : ctHeartbeatAck = 5#8 := by decide
@[simp] theorem ct_abort : ctAbort = 6#8 := by decide
@[simp] theorem ct_shutdown : ctShutdown = 7#8 := by decide
@[simp] theorem ct_shutdownack : ctShutdownAck = 8#8 := by decide
@[simp] theorem ct_error : ctError = 9#8 := by decide
@[simp] theorem ct_cookieecho : ctCookieEcho = 10#8 := by decide
@[simp] theorem ct_cookieack : ctCookieAck = 11#8 := by decide
@[simp] theorem ct_shutdowncomplete : ctShutdownComplete = 14#8 := by decide
@[simp] theorem ct_idata : ctIData = 64#8 := by decide
@[simp] theorem ct_reconfig : ctReconfig = 130#8 := by decide
@[simp] theorem ct_fwdtsn : ctForwardTSN = 192#8 := by decide
@[simp] theorem ct_ifwdtsn : ctIForwardTSN = 194#8 := by decide

/-- a chunk's wire form and its decoding from exactly that form -/
def RoundTrips (c : Chunk) : Prop :=
  ∃ t f v, encChunk c = .ok (chunkHeaderMarshal t f v) ∧ knownChunkType t = true ∧ v.length < 65536 ∧
    decBody t f v = .ok c

theorem flagBit_dataFlags (u b e i : Bool) :
    flagBit (dataFlags u b e i) 8 = i ∧ flagBit (dataFlags u b e i) 4 = u ∧
    flagBit (dataFlags u b e i) 2 = b ∧ flagBit (dataFlags u b e i) 1 = e := by
  cases u <;> cases b <;> cases e <;> cases i <;> decide

theorem data_roundtrip (u b e i : Bool) (tsn : BitVec 32) (si ssn : BitVec 16) (ppi : BitVec 32) (ud : Bytes)
    (h : ud.length + 12 < 65536) : RoundTrips (.data false u b e i tsn si ssn 0 0 ppi ud) := by
  refine ⟨ctData, dataFlags u b e i, be32 tsn ++ be16 si ++ be16 ssn ++ be32 ppi ++ ud, rfl, by decide,
    by simp; omega, ?_⟩
  obtain ⟨h1, h2, h3, h4⟩ := flagBit_dataFlags u b e i
  unfold decBody
  simp only [ct_data, ct_init, ct_initack, ct_abort, ct_cookieecho, ct_cookieack, ct_hb, ct_hback, ct_idata,
    BitVec.reduceEq, ↓reduceIte, true_or]
  unfold decData
  simp only [c_maskI, c_maskU, c_maskB, c_maskE, h1, h2, h3, h4, ct_data, ↓reduceIte, c_payloadDataHeaderSize]
  rw [if_neg (by simp; omega)]
  have hs : sliceFrom (be32 tsn ++ be16 si ++ be16 ssn ++ be32 ppi ++ ud) 12 = .ok ud := by
    have := sliceFrom_append (be32 tsn ++ be16 si ++ be16 ssn ++ be32 ppi) ud
    simpa using this
  rw [hs]
  simp [be32, be16]

theorem idata_roundtrip (u b e i : Bool) (tsn : BitVec 32) (si : BitVec 16) (mid fsn ppi : BitVec 32) (ud : Bytes)
    (hb : if b then fsn = 0#32 else ppi = 0#32)
    (h : ud.length + 16 < 65536) : RoundTrips (.data true u b e i tsn si (mid.setWidth 16) mid fsn ppi ud) := by
  refine ⟨ctIData, dataFlags u b e i,
    be32 tsn ++ be16 si ++ be16 0 ++ be32 mid ++ be32 (if b then ppi else fsn) ++ ud, rfl, by decide,
    by simp; omega, ?_⟩
  obtain ⟨h1, h2, h3, h4⟩ := flagBit_dataFlags u b e i
  unfold decBody
  simp only [ct_data, ct_init, ct_initack, ct_abort, ct_cookieecho, ct_cookieack, ct_hb, ct_hback, ct_idata,
    BitVec.reduceEq, ↓reduceIte, or_true]
  unfold decData
  simp only [c_maskI, c_maskU, c_maskB, c_maskE, h1, h2, h3, h4, ct_data, ct_idata, BitVec.reduceEq, ↓reduceIte,
    c_iDataHeaderSize]
  rw [if_neg (by simp; omega)]
  have hs : sliceFrom (be32 tsn ++ be16 si ++ be16 0 ++ be32 mid ++ be32 (if b then ppi else fsn) ++ ud) 16 = .ok ud := by
    have := sliceFrom_append (be32 tsn ++ be16 si ++ be16 0 ++ be32 mid ++ be32 (if b then ppi else fsn)) ud
    simpa using this
  rw [hs]
  cases b
  · simp only [Bool.false_eq_true, ↓reduceIte] at hb ⊢
    subst hb
    simp [be32, be16]
  · simp only [↓reduceIte] at hb ⊢
    subst hb
    simp [be32, be16]

theorem shutdown_roundtrip (f : Byte) (cum : BitVec 32) : RoundTrips (.shutdown f cum) := by
  refine ⟨ctShutdown, f, be32 cum, rfl, by decide, by simp, ?_⟩
  unfold decBody
  simp only [ct_data, ct_init, ct_initack, ct_abort, ct_cookieecho, ct_cookieack, ct_hb, ct_hback, ct_idata, ct_sack,
    ct_reconfig, ct_fwdtsn, ct_ifwdtsn, ct_error, ct_shutdown, BitVec.reduceEq, ↓reduceIte, or_self]
  simp [be32]

theorem shutdownAck_roundtrip (f : Byte) (raw : Bytes) (h : raw.length < 65536) : RoundTrips (.shutdownAck f raw) := by
  refine ⟨ctShutdownAck, f, raw, rfl, by decide, h, ?_⟩
  unfold decBody
  simp only [ct_data, ct_init, ct_initack, ct_abort, ct_cookieecho, ct_cookieack, ct_hb, ct_hback, ct_idata, ct_sack,
    ct_reconfig, ct_fwdtsn, ct_ifwdtsn, ct_error, ct_shutdown, ct_shutdownack, BitVec.reduceEq, ↓reduceIte, or_self]

theorem shutdownComplete_roundtrip (f : Byte) (raw : Bytes) (h : raw.length < 65536) :
    RoundTrips (.shutdownComplete f raw) := by
  refine ⟨ctShutdownComplete, f, raw, rfl, by decide, h, ?_⟩
  unfold decBody
  simp only [ct_data, ct_init, ct_initack, ct_abort, ct_cookieecho, ct_cookieack, ct_hb, ct_hback, ct_idata, ct_sack,
    ct_reconfig, ct_fwdtsn, ct_ifwdtsn, ct_error, ct_shutdown, ct_shutdownack, ct_shutdowncomplete, BitVec.reduceEq,
    ↓reduceIte, or_self]

theorem cookieEcho_roundtrip (f : Byte) (raw : Bytes) (h : raw.length < 65536) : RoundTrips (.cookieEcho f raw) := by
  refine ⟨ctCookieEcho, f, raw, rfl, by decide, h, ?_⟩
  unfold decBody
  simp only [ct_init, ct_initack, ct_abort, ct_cookieecho, BitVec.reduceEq, ↓reduceIte]

theorem cookieAck_roundtrip (f : Byte) (raw : Bytes) (h : raw.length < 65536) : RoundTrips (.cookieAck f raw) := by
  refine ⟨ctCookieAck, f, raw, rfl, by decide, h, ?_⟩
  unfold decBody
  simp only [ct_init, ct_initack, ct_abort, ct_cookieecho, ct_cookieack, BitVec.reduceEq, ↓reduceIte]

theorem abort_roundtrip (cs : List Cause) (hwf : ∀ c ∈ cs, wfCause c = true)
    (hfit : (cs.map fun c => 4 + c.data.length).sum < 65536) : RoundTrips (.abort cs) := by
  refine ⟨ctAbort, 0#8, (cs.map causeBytes).flatten, ?_, by decide, by rw [causes_flatten_length]; exact hfit, ?_⟩
  · simp only [encChunk, encCauses_ok cs hwf, ok_bind]
  · unfold decBody
    simp only [ct_init, ct_initack, ct_abort, BitVec.reduceEq, ↓reduceIte]
    have hsum : 4 * cs.length ≤ ((cs.map causeBytes).flatten).length := by
      rw [causes_flatten_length]
      clear hwf hfit
      induction cs with
      | nil => simp
      | cons c cs ih => simp only [List.map_cons, List.sum_cons, List.length_cons]; omega
    have := causesLoop_roundtrip [] cs (((cs.map causeBytes).flatten).length / 4 + 1) (by omega) hwf
    simp only [List.nil_append, List.length_nil] at this
    rw [this]
    rfl

theorem error_roundtrip (cs : List Cause) (hwf : ∀ c ∈ cs, wfCause c = true)
    (hfit : (cs.map fun c => 4 + c.data.length).sum < 65536) : RoundTrips (.error cs) := by
  refine ⟨ctError, 0#8, (cs.map causeBytes).flatten, ?_, by decide, by rw [causes_flatten_length]; exact hfit, ?_⟩
  · simp only [encChunk, encCauses_ok cs hwf, ok_bind]
  · unfold decBody
    simp only [ct_data, ct_init, ct_initack, ct_abort, ct_cookieecho, ct_cookieack, ct_hb, ct_hback, ct_idata, ct_sack,
      ct_reconfig, ct_fwdtsn, ct_ifwdtsn, ct_error, BitVec.reduceEq, ↓reduceIte, or_self]
    have hsum : 4 * cs.length ≤ ((cs.map causeBytes).flatten).length := by
      rw [causes_flatten_length]
      clear hwf hfit
      induction cs with
      | nil => simp
      | cons c cs ih => simp only [List.map_cons, List.sum_cons, List.length_cons]; omega
    have := causesLoop_roundtrip [] cs (((cs.map causeBytes).flatten).length / 4 + 1) (by omega) hwf
    simp only [List.nil_append, List.length_nil] at this
    rw [this]
    rfl

/-! ### SACK -/

theorem readGaps_flatten (pre : Bytes) (gs : List (BitVec 16 × BitVec 16)) (post : Bytes) :
    readGaps (pre ++ ((gs.map fun g => be16 g.1 ++ be16 g.2).flatten ++ post)) pre.length gs.length = .ok gs := by
  induction gs generalizing pre with
  | nil => simp [readGaps]
  | cons g gs ih =>
    simp only [List.map_cons, List.flatten_cons, List.length_cons, List.append_assoc]
    unfold readGaps
    rw [u16At_mid]
    have h2 := u16At_mid (pre ++ be16 g.1) ((gs.map fun g => be16 g.1 ++ be16 g.2).flatten ++ post) g.2
    simp only [List.append_assoc, List.length_append, be16_length] at h2
    simp only [ok_bind, h2]
    have := ih (pre ++ be16 g.1 ++ be16 g.2)
    simp only [List.append_assoc, List.length_append, be16_length] at this
    rw [show pre.length + 4 = pre.length + (2 + 2) from rfl, this]
    rfl

theorem flatten_gaps_length (gs : List (BitVec 16 × BitVec 16)) :
    ((gs.map fun g => be16 g.1 ++ be16 g.2).flatten).length = 4 * gs.length := by
  induction gs with
  | nil => rfl
  | cons g gs ih => simp only [List.map_cons, List.flatten_cons, List.length_append, be16_length, ih, List.length_cons]; omega

theorem sack_roundtrip (f : Byte) (cum arwnd : BitVec 32) (gaps : List (BitVec 16 × BitVec 16)) (dups : List (BitVec 32))
    (h : 12 + 4 * gaps.length + 4 * dups.length < 65536) : RoundTrips (.sack f cum arwnd gaps dups) := by
  have hg := flatten_gaps_length gaps
  have hd := flatten_be32_length dups
  refine ⟨ctSack, f, be32 cum ++ be32 arwnd ++ be16 (trunc16 gaps.length) ++ be16 (trunc16 dups.length)
      ++ (gaps.map fun g => be16 g.1 ++ be16 g.2).flatten ++ (dups.map be32).flatten, rfl, by decide,
    by simp [hg, hd]; omega, ?_⟩
  unfold decBody
  simp only [ct_data, ct_init, ct_initack, ct_abort, ct_cookieecho, ct_cookieack, ct_hb, ct_hback, ct_idata, ct_sack,
    BitVec.reduceEq, ↓reduceIte, or_self]
  unfold decSack
  have hlen : (be32 cum ++ be32 arwnd ++ be16 (trunc16 gaps.length) ++ be16 (trunc16 dups.length)
      ++ (gaps.map fun g => be16 g.1 ++ be16 g.2).flatten ++ (dups.map be32).flatten).length
      = 12 + (4 * gaps.length + 4 * dups.length) := by simp [hg, hd]; omega
  rw [if_neg (by rw [hlen, c_selectiveAckHeaderSize]; omega)]
  have hng : (trunc16 gaps.length).toNat = gaps.length := trunc16_toNat (by omega)
  have hnd : (trunc16 dups.length).toNat = dups.length := trunc16_toNat (by omega)
  have r1 := readGaps_flatten (be32 cum ++ be32 arwnd ++ be16 (trunc16 gaps.length) ++ be16 (trunc16 dups.length))
    gaps ((dups.map be32).flatten)
  have r2 := readU32s_flatten (be32 cum ++ be32 arwnd ++ be16 (trunc16 gaps.length) ++ be16 (trunc16 dups.length)
    ++ (gaps.map fun g => be16 g.1 ++ be16 g.2).flatten) dups []
  simp only [List.append_nil, List.length_append, be32_length, be16_length, hg, List.append_assoc] at r1 r2
  simp only [List.append_assoc] at hlen ⊢
  have e0 : u32At (be32 cum ++ (be32 arwnd ++ (be16 (trunc16 gaps.length) ++ (be16 (trunc16 dups.length) ++
      ((gaps.map fun g => be16 g.1 ++ be16 g.2).flatten ++ (dups.map be32).flatten))))) 0 = .ok cum := by
    simp [be32]
  have e4 : u32At (be32 cum ++ (be32 arwnd ++ (be16 (trunc16 gaps.length) ++ (be16 (trunc16 dups.length) ++
      ((gaps.map fun g => be16 g.1 ++ be16 g.2).flatten ++ (dups.map be32).flatten))))) 4 = .ok arwnd := by
    simp [be32]
  have e8 : u16At (be32 cum ++ (be32 arwnd ++ (be16 (trunc16 gaps.length) ++ (be16 (trunc16 dups.length) ++
      ((gaps.map fun g => be16 g.1 ++ be16 g.2).flatten ++ (dups.map be32).flatten))))) 8 = .ok (trunc16 gaps.length) := by
    simp [be32, be16]
  have e10 : u16At (be32 cum ++ (be32 arwnd ++ (be16 (trunc16 gaps.length) ++ (be16 (trunc16 dups.length) ++
      ((gaps.map fun g => be16 g.1 ++ be16 g.2).flatten ++ (dups.map be32).flatten))))) 10 = .ok (trunc16 dups.length) := by
    simp [be32, be16]
  rw [e0, e4, e8, e10]
  simp only [ok_bind, hng, hnd]
  rw [if_neg (by rw [hlen, c_selectiveAckHeaderSize]; simp)]
  rw [c_selectiveAckHeaderSize]
  rw [show (4 + (4 + (2 + 2)) : Nat) = 12 from rfl] at r1
  rw [show (4 + (4 + (2 + (2 + 4 * gaps.length))) : Nat) = 12 + 4 * gaps.length from by omega] at r2
  rw [r1]
  simp only [ok_bind]
  rw [r2]
  rfl

/-! ### FORWARD-TSN, I-FORWARD-TSN -/

theorem fwdStreamsLoop_flatten (pre : Bytes) (ss : List (BitVec 16 × BitVec 16)) (fuel : Nat) (hf : ss.length < fuel) :
    fwdStreamsLoop (pre ++ (ss.map fun s => be16 s.1 ++ be16 s.2).flatten) fuel pre.length ((4 * ss.length : Nat) : Int)
      = .ok ss := by
  induction ss generalizing pre fuel with
  | nil =>
    cases fuel with
    | zero => omega
    | succ f => unfold fwdStreamsLoop; simp
  | cons x ss ih =>
    cases fuel with
    | zero => omega
    | succ f =>
      unfold fwdStreamsLoop
      rw [if_pos (by simp only [List.length_cons]; omega), sliceFrom_append]
      simp only [ok_bind, List.map_cons, List.flatten_cons, c_forwardTSNStreamLength]
      rw [if_neg (by simp only [List.length_append, be16_length]; omega)]
      have e0 : u16At (be16 x.1 ++ be16 x.2 ++ (ss.map fun s => be16 s.1 ++ be16 s.2).flatten) 0 = .ok x.1 := by
        simp [be16]
      have e2 : u16At (be16 x.1 ++ be16 x.2 ++ (ss.map fun s => be16 s.1 ++ be16 s.2).flatten) 2 = .ok x.2 := by
        simp [be16]
      rw [e0, e2]
      have := ih (pre ++ (be16 x.1 ++ be16 x.2)) f (by simp at hf; omega)
      simp only [List.append_assoc, List.length_append, be16_length] at this
      simp only [ok_bind, List.append_assoc]
      have hrem : (((4 * (x :: ss).length : Nat) : Int) - ((4 : Nat) : Int)) = ((4 * ss.length : Nat) : Int) := by
        simp only [List.length_cons]; omega
      rw [hrem, show pre.length + 4 = pre.length + (2 + 2) from rfl, this]
      rfl

theorem flatten_streams_length (ss : List (BitVec 16 × BitVec 16)) :
    ((ss.map fun s => be16 s.1 ++ be16 s.2).flatten).length = 4 * ss.length := flatten_gaps_length ss

theorem forwardTsn_roundtrip (f : Byte) (cum : BitVec 32) (ss : List (BitVec 16 × BitVec 16))
    (h : 4 + 4 * ss.length < 65536) : RoundTrips (.forwardTsn f cum ss) := by
  have hl := flatten_streams_length ss
  refine ⟨ctForwardTSN, f, be32 cum ++ (ss.map fun s => be16 s.1 ++ be16 s.2).flatten, rfl, by decide,
    by simp [hl]; omega, ?_⟩
  unfold decBody
  simp only [ct_data, ct_init, ct_initack, ct_abort, ct_cookieecho, ct_cookieack, ct_hb, ct_hback, ct_idata, ct_sack,
    ct_reconfig, ct_fwdtsn, BitVec.reduceEq, ↓reduceIte, or_self]
  unfold decForwardTsn
  have hlen : (be32 cum ++ (ss.map fun s => be16 s.1 ++ be16 s.2).flatten).length = 4 + 4 * ss.length := by
    simp [hl]
  rw [if_neg (by rw [hlen, c_newCumulativeTSNLength]; omega)]
  have e0 : u32At (be32 cum ++ (ss.map fun s => be16 s.1 ++ be16 s.2).flatten) 0 = .ok cum := by simp [be32]
  rw [e0]
  simp only [ok_bind, hlen, c_newCumulativeTSNLength]
  have := fwdStreamsLoop_flatten (be32 cum) ss ((4 + 4 * ss.length) / 4 + 1) (by omega)
  simp only [be32_length] at this
  have hrem : (((4 + 4 * ss.length : Nat) : Int) - ((4 : Nat) : Int)) = ((4 * ss.length : Nat) : Int) := by omega
  rw [hrem, this]
  rfl

def istreamBytes (s : IStream) : Bytes := be16 s.1 ++ be16 (if s.2.1 then 1 else 0) ++ be32 s.2.2

theorem istreamBytes_length (s : IStream) : (istreamBytes s).length = 8 := by simp [istreamBytes]

theorem flatten_istreams_length (ss : List IStream) : ((ss.map istreamBytes).flatten).length = 8 * ss.length := by
  induction ss with
  | nil => rfl
  | cons x ss ih => simp only [List.map_cons, List.flatten_cons, List.length_append, istreamBytes_length, ih, List.length_cons]; omega

theorem readIStreams_flatten (pre : Bytes) (ss : List IStream) (i : Nat) (hpre : pre.length = 4 + i * 8) :
    readIStreams (pre ++ (ss.map istreamBytes).flatten) ss.length i = .ok ss := by
  induction ss generalizing pre i with
  | nil => simp [readIStreams]
  | cons x ss ih =>
    simp only [List.length_cons, List.map_cons, List.flatten_cons]
    unfold readIStreams
    simp only [c_newCumulativeTSNLength, c_iForwardTSNEntryLength]
    have hs := slice_mid pre (istreamBytes x) ((ss.map istreamBytes).flatten)
    rw [istreamBytes_length, hpre] at hs
    rw [hs]
    obtain ⟨id, u, mid⟩ := x
    have hu : decide ((if u = true then (1 : BitVec 16) else 0).toNat % 2 = 1) = u := by cases u <;> decide
    simp only [ok_bind]
    have e0 : u16At (istreamBytes (id, u, mid)) 0 = .ok id := by simp [istreamBytes, be16]
    have e2 : u16At (istreamBytes (id, u, mid)) 2 = .ok (if u = true then 1 else 0) := by simp [istreamBytes, be16]
    have e4 : u32At (istreamBytes (id, u, mid)) 4 = .ok mid := by simp [istreamBytes, be16, be32]
    rw [e0, e2, e4]
    have := ih (pre ++ istreamBytes (id, u, mid)) (i + 1) (by simp only [List.length_append, istreamBytes_length, hpre]; omega)
    simp only [List.append_assoc] at this
    simp only [ok_bind, this, hu]

theorem iForwardTsn_roundtrip (f : Byte) (cum : BitVec 32) (ss : List IStream)
    (hn : normalizeStreams ss = ss) (hl : ss.length ≤ 8190) : RoundTrips (.iForwardTsn f cum ss) := by
  have hfl := flatten_istreams_length ss
  refine ⟨ctIForwardTSN, f, be32 cum ++ (ss.map istreamBytes).flatten, ?_, by decide, by simp [hfl]; omega, ?_⟩
  · simp only [encChunk, hn, c_maxIForwardTSNStreams]
    rw [if_neg (by omega)]
    rfl
  · unfold decBody
    simp only [ct_data, ct_init, ct_initack, ct_abort, ct_cookieecho, ct_cookieack, ct_hb, ct_hback, ct_idata, ct_sack,
      ct_reconfig, ct_fwdtsn, ct_ifwdtsn, BitVec.reduceEq, ↓reduceIte, or_self]
    unfold decIForwardTsn
    have hlen : (be32 cum ++ (ss.map istreamBytes).flatten).length = 4 + 8 * ss.length := by simp [hfl]
    rw [if_neg (by rw [hlen, c_newCumulativeTSNLength]; omega)]
    have e0 : u32At (be32 cum ++ (ss.map istreamBytes).flatten) 0 = .ok cum := by simp [be32]
    rw [e0]
    simp only [ok_bind, hlen, c_newCumulativeTSNLength, c_iForwardTSNEntryLength, c_maxIForwardTSNStreams]
    have h1 : (4 + 8 * ss.length - 4) % 8 = 0 := by omega
    have h2 : (4 + 8 * ss.length - 4) / 8 = ss.length := by omega
    simp only [h1, h2, ne_eq, not_true_eq_false, ↓reduceIte]
    rw [if_neg (by omega)]
    have := readIStreams_flatten (be32 cum) ss 0 (by simp)
    rw [this]
    simp only [ok_bind, hn]

/-! ### HEARTBEAT, HEARTBEAT-ACK -/

theorem parseParamType_enc (p : Param) (tail : Bytes) : parseParamType (encParam p ++ tail) = .ok (ptOf p) := by
  obtain ⟨v, hv⟩ := encParam_eq p
  rw [hv]
  unfold parseParamType paramHeaderMarshal
  rw [if_neg (by simp)]
  simp [be16]

theorem decHeartbeatParam_roundtrip (i : Bytes) (h : i.length + 4 < 65536) (e1 e2 e3 e4 : Err) :
    decHeartbeatParam (encParam (.heartbeatInfo i)) e1 e2 e3 e4 = .ok (.heartbeatInfo i) := by
  unfold decHeartbeatParam
  have hlen : (encParam (.heartbeatInfo i)).length = 4 + i.length := by
    simp [encParam, paramHeaderMarshal_length]
  rw [if_neg (by rw [hlen, c_initOptionalVarHeaderLength]; omega)]
  have hp := parseParamType_enc (.heartbeatInfo i) []
  rw [List.append_nil] at hp
  rw [hp]
  simp only [wrap_ok, ok_bind, ptOf, ne_eq, not_true_eq_false, ↓reduceIte]
  have hh := paramHeader_roundtrip ptHeartbeatInfo i [] h
  rw [List.append_nil] at hh
  have henc : encParam (.heartbeatInfo i) = paramHeaderMarshal ptHeartbeatInfo i := rfl
  rw [henc] at hlen ⊢
  rw [hh]
  simp only [wrap_ok, ok_bind, c_initOptionalVarHeaderLength]
  rw [if_neg (by rw [hlen]; omega)]
  have hs : slice (paramHeaderMarshal ptHeartbeatInfo i) 0 (4 + i.length) = .ok (paramHeaderMarshal ptHeartbeatInfo i) := by
    rw [slice_of_le (by omega) (by omega), ← hlen]
    simp
  rw [hs]
  have hb := buildParam_roundtrip (.heartbeatInfo i) [] (by simp [CodecSpec.wfParam, fits_iff, h])
  simp only [ptOf, List.append_nil, henc] at hb
  simp only [ok_bind, hb, wrap_ok]
  have hsf : sliceFrom (paramHeaderMarshal ptHeartbeatInfo i) (4 + i.length) = .ok [] := by
    rw [sliceFrom_of_le (by omega), ← hlen]
    simp
  rw [hsf]
  simp

theorem heartbeat_roundtrip (i : Bytes) (h : i.length + 4 < 65536) : RoundTrips (.heartbeat [.heartbeatInfo i]) := by
  refine ⟨ctHeartbeat, 0#8, encParam (.heartbeatInfo i), rfl, by decide,
    by simp [encParam, paramHeaderMarshal_length]; omega, ?_⟩
  unfold decBody
  simp only [ct_init, ct_initack, ct_abort, ct_cookieecho, ct_cookieack, ct_hb, BitVec.reduceEq, ↓reduceIte]
  unfold decHeartbeat
  rw [if_neg (by simp [encParam, paramHeaderMarshal_length])]
  rw [decHeartbeatParam_roundtrip i (by omega)]
  rfl

theorem heartbeatEmpty_roundtrip (f : Byte) : RoundTrips (.heartbeatEmpty ctHeartbeat f []) := by
  refine ⟨ctHeartbeat, f, [], rfl, by decide, by simp, ?_⟩
  unfold decBody
  simp only [ct_init, ct_initack, ct_abort, ct_cookieecho, ct_cookieack, ct_hb, BitVec.reduceEq, ↓reduceIte]
  unfold decHeartbeat
  simp

theorem heartbeatAck_roundtrip (f : Byte) (i : Bytes) (h : i.length + 4 < 65536) :
    RoundTrips (.heartbeatAck f [.heartbeatInfo i]) := by
  refine ⟨ctHeartbeatAck, f, encParam (.heartbeatInfo i), rfl, by decide,
    by simp [encParam, paramHeaderMarshal_length]; omega, ?_⟩
  unfold decBody
  simp only [ct_init, ct_initack, ct_abort, ct_cookieecho, ct_cookieack, ct_hb, ct_hback, BitVec.reduceEq, ↓reduceIte]
  unfold decHeartbeatAck
  rw [if_neg (by simp [encParam, paramHeaderMarshal_length])]
  rw [decHeartbeatParam_roundtrip i (by omega)]
  rfl

/-! ### RECONFIG -/

theorem encParam_length_ge (p : Param) : 4 ≤ (encParam p).length := by
  obtain ⟨v, hv⟩ := encParam_eq p
  rw [hv, paramHeaderMarshal_length]; omega

theorem reconfig_roundtrip (f : Byte) (a : Param) (b : Option Param) (ha : CodecSpec.wfParam a = true)
    (hb : ∀ x, b = some x → CodecSpec.wfParam x = true)
    (hfit : (match b with | none => paramLen a | some b => paramLen a + pad4 (paramLen a) + paramLen b) < 65536) :
    RoundTrips (.reconfig f a b) := by
  have hdisp : ∀ v, decBody ctReconfig f v = decReconfig f v := by
    intro v
    unfold decBody
    simp only [ct_data, ct_init, ct_initack, ct_abort, ct_cookieecho, ct_cookieack, ct_hb, ct_hback, ct_idata, ct_sack,
      ct_reconfig, BitVec.reduceEq, ↓reduceIte, or_self]
  cases b with
  | none =>
    refine ⟨ctReconfig, f, encParam a, rfl, by decide, by simpa [paramLen] using hfit, ?_⟩
    rw [hdisp]
    unfold decReconfig
    have hp := parseParamType_enc a []
    have hbp := buildParam_roundtrip a [] ha
    rw [List.append_nil] at hp hbp
    rw [hp]
    simp only [ok_bind, hbp]
    rw [if_neg (by omega)]
  | some b =>
    have hb' := hb b rfl
    simp only [paramLen] at hfit
    refine ⟨ctReconfig, f, encParam a ++ zeros (pad4 (encParam a).length) ++ encParam b, rfl, by decide,
      by simp; omega, ?_⟩
    rw [hdisp]
    unfold decReconfig
    have hp := parseParamType_enc a (zeros (pad4 (encParam a).length) ++ encParam b)
    have hbp := buildParam_roundtrip a (zeros (pad4 (encParam a).length) ++ encParam b) ha
    rw [← List.append_assoc] at hp hbp
    rw [hp]
    simp only [ok_bind, hbp]
    have hge := encParam_length_ge b
    rw [if_pos (by simp; omega)]
    have hs := sliceFrom_append (encParam a ++ zeros (pad4 (encParam a).length)) (encParam b)
    simp only [List.length_append, zeros_length] at hs
    rw [hs]
    have hp2 := parseParamType_enc b []
    have hbp2 := buildParam_roundtrip b [] hb'
    rw [List.append_nil] at hp2 hbp2
    simp only [ok_bind, hp2, hbp2]

/-! ### INIT, INIT-ACK -/

theorem initParamsLoop_done (raw : Bytes) (fuel off : Nat) (rem : Int) (hf : 0 < fuel) (hr : rem ≤ 0) :
    initParamsLoop raw fuel off rem = .ok ([], []) := by
  cases fuel with
  | zero => omega
  | succ f => unfold initParamsLoop; rw [if_neg (by omega)]

theorem encParamsPadded_length_ge (ps : List Param) : 4 * ps.length ≤ (encParamsPadded ps).length := by
  induction ps with
  | nil => simp [encParamsPadded]
  | cons p ps ih =>
    cases ps with
    | nil => have := encParam_length_ge p; simp [encParamsPadded]; omega
    | cons q qs =>
      have := encParam_length_ge p
      simp only [encParamsPadded, List.length_append, List.length_cons, zeros_length] at ih ⊢
      omega

theorem encParam_length_lt (p : Param) (h : CodecSpec.wfParam p = true) : (encParam p).length < 65536 := by
  cases p with
  | heartbeatInfo i => simp only [CodecSpec.wfParam, fits_iff] at h; simp only [encParam, paramHeaderMarshal_length]; omega
  | stateCookie i => simp only [CodecSpec.wfParam, fits_iff] at h; simp only [encParam, paramHeaderMarshal_length]; omega
  | random i => simp only [CodecSpec.wfParam, fits_iff] at h; simp only [encParam, paramHeaderMarshal_length]; omega
  | chunkList i => simp only [CodecSpec.wfParam, fits_iff] at h; simp only [encParam, paramHeaderMarshal_length]; omega
  | supportedExt i => simp only [CodecSpec.wfParam, fits_iff] at h; simp only [encParam, paramHeaderMarshal_length]; omega
  | ecnCapable => simp [encParam, paramHeaderMarshal_length]
  | fwdTsnSupported => simp [encParam, paramHeaderMarshal_length]
  | zeroChecksum e => simp [encParam, paramHeaderMarshal_length]
  | reconfigResp a b => simp [encParam, paramHeaderMarshal_length]
  | reqHmac as =>
    simp only [CodecSpec.wfParam, fits_iff, Bool.and_eq_true] at h
    simp only [encParam, paramHeaderMarshal_length, flatten_be16_length]; omega
  | outReset a b c sids =>
    simp only [CodecSpec.wfParam, fits_iff] at h
    simp only [encParam, paramHeaderMarshal_length, List.length_append, be32_length, flatten_be16_length]; omega

/-- one iteration of the INIT parameter loop on `… ++ encParam p ++ tail` -/
theorem initParamsLoop_step (pre : Bytes) (p : Param) (tail : Bytes) (f : Nat) (rem : Int)
    (hwf : CodecSpec.wfParam p = true) (hrem : 4 < rem) :
    initParamsLoop (pre ++ (encParam p ++ tail)) (f + 1) pre.length rem =
      (initParamsLoop (pre ++ (encParam p ++ tail)) f (pre.length + ((encParam p).length + pad4 (encParam p).length))
        (rem - (((encParam p).length + pad4 (encParam p).length : Nat) : Int))) >>= fun r => .ok (p :: r.1, r.2) := by
  rw [initParamsLoop.eq_def]
  simp only
  rw [if_pos (by omega), if_pos (by rw [c_initOptionalVarHeaderLength]; omega), sliceFrom_append]
  obtain ⟨v, hv⟩ := encParam_eq p
  have hlen : (encParam p).length = 4 + v.length := by rw [hv, paramHeaderMarshal_length]
  have hvl : v.length + 4 < 65536 := by have := encParam_length_lt p hwf; omega
  have hh := paramHeader_roundtrip (ptOf p) v tail hvl
  rw [← hv] at hh
  simp only [ok_bind, hh, wrap_ok, buildParam_roundtrip p tail hwf, ← hlen]

/-- the parameter loop reads back what `encParamsPadded` wrote, provided the last parameter is
longer than 4 bytes (the loop stops at `remaining ≤ 4`) -/
theorem initParamsLoop_roundtrip (pre : Bytes) (ps : List Param) (fuel : Nat) (hf : ps.length < fuel)
    (hwf : ∀ p ∈ ps, CodecSpec.wfParam p = true)
    (hlast : ∀ p, ps.getLast? = some p → 4 < (encParam p).length) :
    initParamsLoop (pre ++ encParamsPadded ps) fuel pre.length ((encParamsPadded ps).length : Int) = .ok (ps, []) := by
  induction ps generalizing pre fuel with
  | nil => exact initParamsLoop_done _ _ _ _ (by omega) (by simp [encParamsPadded])
  | cons p ps ih =>
    cases fuel with
    | zero => omega
    | succ f =>
      have hp := hwf p (by simp)
      cases ps with
      | nil =>
        have h4 : 4 < (encParam p).length := hlast p rfl
        have := initParamsLoop_step pre p [] f ((encParam p).length : Int) hp (by omega)
        simp only [List.append_nil] at this
        simp only [encParamsPadded]
        rw [this, initParamsLoop_done _ _ _ _ (by simp at hf; omega) (by omega)]
        rfl
      | cons q qs =>
        have hge := encParam_length_ge p
        have hge2 := encParamsPadded_length_ge (q :: qs)
        simp only [List.length_cons] at hge2
        have hlen : (encParamsPadded (p :: q :: qs)).length =
            (encParam p).length + pad4 (encParam p).length + (encParamsPadded (q :: qs)).length := by
          simp only [encParamsPadded, List.length_append, zeros_length]
        have := initParamsLoop_step pre p (zeros (pad4 (encParam p).length) ++ encParamsPadded (q :: qs)) f
          ((encParamsPadded (p :: q :: qs)).length : Int) hp (by omega)
        have henc : encParamsPadded (p :: q :: qs) =
            encParam p ++ (zeros (pad4 (encParam p).length) ++ encParamsPadded (q :: qs)) := by
          simp only [encParamsPadded, List.append_assoc]
        rw [henc] at hlen this ⊢
        rw [this]
        have ih' := ih (pre ++ encParam p ++ zeros (pad4 (encParam p).length)) f (by simp at hf ⊢; omega)
          (fun x hx => hwf x (by simp [hx])) (fun x hx => hlast x (by simpa [List.getLast?_cons_cons] using hx))
        simp only [List.append_assoc, List.length_append, zeros_length] at ih'
        have hrem : ((encParam p ++ (zeros (pad4 (encParam p).length) ++ encParamsPadded (q :: qs))).length : Int)
            - (((encParam p).length + pad4 (encParam p).length : Nat) : Int) = ((encParamsPadded (q :: qs)).length : Int) := by
          rw [hlen]; omega
        rw [hrem, ih']
        rfl

theorem initCommon_roundtrip (c : InitCommon) (hwf : ∀ p ∈ c.params, CodecSpec.wfParam p = true)
    (hun : c.unrec = []) (hlast : ∀ p, c.params.getLast? = some p → 4 < (encParam p).length) :
    initCommonUnmarshal (initCommonMarshal c) = .ok c := by
  obtain ⟨tag, arwnd, nOut, nIn, itsn, ps, us⟩ := c
  simp only at hwf hun hlast
  subst hun
  unfold initCommonUnmarshal initCommonMarshal
  simp only [List.append_assoc]
  have e0 : u32At (be32 tag ++ (be32 arwnd ++ (be16 nOut ++ (be16 nIn ++ (be32 itsn ++ encParamsPadded ps))))) 0 = .ok tag := by
    simp [be32]
  have e4 : u32At (be32 tag ++ (be32 arwnd ++ (be16 nOut ++ (be16 nIn ++ (be32 itsn ++ encParamsPadded ps))))) 4 = .ok arwnd := by
    simp [be32]
  have e8 : u16At (be32 tag ++ (be32 arwnd ++ (be16 nOut ++ (be16 nIn ++ (be32 itsn ++ encParamsPadded ps))))) 8 = .ok nOut := by
    simp [be32, be16]
  have e10 : u16At (be32 tag ++ (be32 arwnd ++ (be16 nOut ++ (be16 nIn ++ (be32 itsn ++ encParamsPadded ps))))) 10 = .ok nIn := by
    simp [be32, be16]
  have e12 : u32At (be32 tag ++ (be32 arwnd ++ (be16 nOut ++ (be16 nIn ++ (be32 itsn ++ encParamsPadded ps))))) 12 = .ok itsn := by
    simp [be32, be16]
  rw [e0, e4, e8, e10, e12]
  simp only [ok_bind, c_initChunkMinLength]
  have hge := encParamsPadded_length_ge ps
  have hl := initParamsLoop_roundtrip (be32 tag ++ be32 arwnd ++ be16 nOut ++ be16 nIn ++ be32 itsn) ps
    ((be32 tag ++ (be32 arwnd ++ (be16 nOut ++ (be16 nIn ++ (be32 itsn ++ encParamsPadded ps))))).length / 4 + 1)
    (by simp; omega) hwf hlast
  simp only [List.append_assoc, List.length_append, be32_length, be16_length] at hl
  have hrem : ((4 + (4 + (2 + (2 + (4 + (encParamsPadded ps).length)))) : Nat) : Int) - ((16 : Nat) : Int)
      = ((encParamsPadded ps).length : Int) := by omega
  simp only [List.length_append, be32_length, be16_length, hrem]
  rw [show (4 + (4 + (2 + (2 + 4))) : Nat) = 16 from rfl] at hl
  rw [hl]
  rfl

theorem init_roundtrip (ack : Bool) (c : InitCommon) (hwf : wfInit c = true) :
    RoundTrips (if ack then .initAck 0#8 c else .init 0#8 c) := by
  simp only [wfInit, Bool.and_eq_true, List.all_eq_true, List.isEmpty_iff, fitsV_iff, paramLen, decide_eq_true_eq] at hwf
  obtain ⟨⟨⟨hp, hu⟩, hl⟩, hfit⟩ := hwf
  have hlast : ∀ p, c.params.getLast? = some p → 4 < (encParam p).length := by
    intro p hpl; rw [hpl] at hl; simpa using hl
  have hrt := initCommon_roundtrip c hp hu hlast
  have hlen : 16 ≤ (initCommonMarshal c).length := by simp [initCommonMarshal]; omega
  cases ack
  · refine ⟨ctInit, 0#8, initCommonMarshal c, by simp [encChunk], by decide, by omega, ?_⟩
    unfold decBody
    simp only [ct_init, ↓reduceIte]
    unfold decInit
    rw [if_neg (by rw [c_initChunkMinLength]; omega)]
    simp [hrt]
  · refine ⟨ctInitAck, 0#8, initCommonMarshal c, by simp [encChunk], by decide, by omega, ?_⟩
    unfold decBody
    simp only [ct_init, ct_initack, BitVec.reduceEq, ↓reduceIte]
    unfold decInit
    rw [if_neg (by rw [c_initChunkMinLength]; omega)]
    simp [hrt]

end Codec
