import SctpVerif.Proofs.PendQInv
/-!
Helper lemmas for C17, part 3: the message policy keeps a message's fragments adjacent.
-/
namespace PendQ

/-- `x` is immediately followed by `y` somewhere in `l` -/
def AdjIn (x y : Chunk) (l : List Chunk) : Prop := ∃ l1 l2, l = l1 ++ x :: y :: l2

theorem AdjIn.append {x y : Chunk} {l : List Chunk} (h : AdjIn x y l) (l' : List Chunk) : AdjIn x y (l ++ l') := by
  obtain ⟨l1, l2, rfl⟩ := h
  exact ⟨l1, l2 ++ l', by simp⟩

theorem AdjIn.cons {x y : Chunk} {l : List Chunk} (h : AdjIn x y l) (a : Chunk) : AdjIn x y (a :: l) := by
  obtain ⟨l1, l2, rfl⟩ := h
  exact ⟨a :: l1, l2, by simp⟩

theorem adj_snoc_cases {x y z : Chunk} {l : List Chunk} (h : AdjIn x y (l ++ [z])) :
    AdjIn x y l ∨ (∃ l1, l = l1 ++ [x] ∧ z = y) := by
  obtain ⟨l1, l2, hl⟩ := h
  rcases List.eq_nil_or_concat l2 with rfl | ⟨l2', w, rfl⟩
  · right
    have : l ++ [z] = (l1 ++ [x]) ++ [y] := by simpa using hl
    obtain ⟨h1, h2⟩ := List.append_inj' this rfl
    exact ⟨l1, h1, by simpa using h2⟩
  · left
    have : l ++ [z] = (l1 ++ x :: y :: l2') ++ [w] := by simpa using hl
    obtain ⟨h1, _⟩ := List.append_inj' this rfl
    exact ⟨l1, l2', h1⟩

/-- the push list keeps fragments together: a non-final fragment is followed by a chunk of the same
ordering class (the next fragment of its message) -/
def KeepsTogether (P : List Chunk) : Prop := ∀ a b, AdjIn a b P → a.e = false → b.unordered = a.unordered

theorem adj_of_filter {x y : Chunk} (u : Bool) :
    ∀ (l : List Chunk), KeepsTogether l → AdjIn x y (l.filter (·.unordered == u)) → x.e = false →
      x.unordered = u → AdjIn x y l := by
  intro l
  induction l with
  | nil => intro _ h; obtain ⟨l1, l2, h⟩ := h; simp at h
  | cons a t ih =>
    intro hk hadj hxe hxu
    have hkt : KeepsTogether t := fun a' b' hab he => hk a' b' (hab.cons a) he
    by_cases hpa : (a.unordered == u) = true
    · have hf : (a :: t).filter (·.unordered == u) = a :: t.filter (·.unordered == u) := by
        simp [hpa]
      rw [hf] at hadj
      obtain ⟨l1, l2, hl⟩ := hadj
      cases l1 with
      | nil =>
        simp only [List.nil_append, List.cons.injEq] at hl
        obtain ⟨rfl, hft⟩ := hl
        cases t with
        | nil => simp at hft
        | cons b t' =>
          have hb : b.unordered = a.unordered := hk a b ⟨[], t', rfl⟩ hxe
          have hpb : (b.unordered == u) = true := by rw [hb]; exact hpa
          have hf' : (b :: t').filter (·.unordered == u) = b :: t'.filter (·.unordered == u) := by
            simp [hpb]
          rw [hf'] at hft
          simp only [List.cons.injEq] at hft
          obtain ⟨rfl, _⟩ := hft
          exact ⟨[], t', rfl⟩
      | cons a' l1' =>
        simp only [List.cons_append, List.cons.injEq] at hl
        exact (ih hkt ⟨l1', l2, hl.2⟩ hxe hxu).cons a
    · have hf : (a :: t).filter (·.unordered == u) = t.filter (·.unordered == u) := by
        simp [hpa]
      rw [hf] at hadj
      exact (ih hkt hadj hxe hxu).cons a

namespace MsgPol

/-- invariant of the message policy along a run: `P` pushed so far, `Q` popped so far -/
structure CInv (m : MsgPol) (P Q : List Chunk) : Prop where
  wf : m.WF
  fifo : ∀ u, P.filter (·.unordered == u) = Q.filter (·.unordered == u) ++ m.classQ u
  selLast : ∀ x, Q.getLast? = some x → m.selected = (!x.e) ∧ (x.e = false → m.unordSel = x.unordered)
  selNone : Q = [] → m.selected = false
  good : ∀ x y, AdjIn x y Q → x.e = false → AdjIn x y (P.filter (·.unordered == x.unordered))

theorem cinv_empty : CInv {} [] [] :=
  ⟨wf_empty, by intro u; cases u <;> simp [classQ], by simp, by simp,
    by intro x y h; obtain ⟨l1, l2, h⟩ := h; simp at h⟩

theorem cinv_push {m : MsgPol} {P Q : List Chunk} (h : CInv m P Q) (c : Chunk) : CInv (m.push c) (P ++ [c]) Q := by
  refine ⟨push_wf h.wf c, ?_, ?_, ?_, ?_⟩
  · intro u
    have := h.fifo u
    unfold push classQ at *
    cases hu : c.unordered <;> cases u <;> simp [List.filter_append, hu] at this ⊢ <;>
      simp [this]
  · intro x hx
    have := h.selLast x hx
    unfold push; split <;> exact this
  · intro hq
    have := h.selNone hq
    unfold push; split <;> exact this
  · intro x y hadj he
    have := (h.good x y hadj he).append ([c].filter (·.unordered == x.unordered))
    simpa [List.filter_append] using this

/-- peek-then-pop at the policy level -/
def serve (m : MsgPol) : MsgPol × List Chunk :=
  match m.peek with
  | none => (m, [])
  | some c => match m.pop c with
    | (m', .ok) => (m', [c])
    | (m', _) => (m', [])

theorem cinv_serve {m : MsgPol} {P Q : List Chunk} (h : CInv m P Q) :
    CInv m.serve.1 P (Q ++ m.serve.2) := by
  unfold serve
  cases hp : m.peek with
  | none => simpa using h
  | some c =>
    simp only
    rcases pop_peeked h.wf hp with ⟨h1, _, _⟩ | ⟨hok, hwf, _, _, _, hsu, _, hsel', husel', hcq, hcq'⟩
    · rw [h1]; simpa using h
    · generalize hpp : m.pop c = pp at *
      obtain ⟨m', r⟩ := pp
      simp only at hok hwf hsel' husel' hcq hcq'
      subst hok
      simp only
      refine ⟨hwf, ?_, ?_, by simp, ?_⟩
      · intro u
        have := h.fifo u
        by_cases hu : c.unordered = u
        · subst hu
          rw [this, hcq]; simp [List.filter_append]
        · have hu' : (!c.unordered) = u := by cases hcu : c.unordered <;> cases u <;> simp_all
          subst hu'
          rw [this, hcq']
          cases hcu : c.unordered <;> simp [List.filter_append, hcu]
      · intro x hx
        simp at hx; subst hx
        exact ⟨hsel', husel'⟩
      · intro x y hadj he
        rcases adj_snoc_cases hadj with hold | ⟨l1, hq, hy⟩
        · exact h.good x y hold he
        · subst hy
          have hlast : Q.getLast? = some x := by simp [hq]
          obtain ⟨hs1, hs2⟩ := h.selLast x hlast
          have hselT : m.selected = true := by simp [hs1, he]
          have hcu : c.unordered = x.unordered := by rw [← hsu hselT, hs2 he]
          have := h.fifo x.unordered
          rw [hq] at this
          rw [this, ← hcu, hcq]
          refine ⟨l1.filter (·.unordered == c.unordered), m'.classQ c.unordered, ?_⟩
          simp [List.filter_append, hcu]

end MsgPol

/-! lifting to the wrapper: an operation list without `setInterleaving` on a fresh queue stays in
the message policy and behaves like the policy-level run -/

def msgStep (m : MsgPol) : Op → MsgPol × List Chunk × List Chunk
  | .push c => (m.push c, [c], [])
  | .pop => (m.serve.1, [], m.serve.2)
  | _ => (m, [], [])

/-- push / peek / pop only -/
def Op.basic : Op → Bool
  | .push _ | .peek | .pop => true
  | _ => false

variable {α : Type} [Num α]

theorem step_msg {q : PQ α} {m : MsgPol} (hq : q.policy = .msg m) (o : Op) (ho : o.basic = true) :
    (q.step o).1.policy = .msg (msgStep m o).1 ∧ evPush (o, (q.step o).2) = (msgStep m o).2.1 ∧
    evPop (o, (q.step o).2) = (msgStep m o).2.2 := by
  cases o with
  | rawPop c => simp [Op.basic] at ho
  | popNil => simp [Op.basic] at ho
  | setil b => simp [Op.basic] at ho
  | push c => simp [PQ.step, PQ.push, PQ.policyPush, hq, msgStep, evPush, evPop]
  | peek => simp [PQ.step, PQ.peek, PQ.policyPeek, hq, msgStep, evPush, evPop]
  | pop =>
    simp only [PQ.step, PQ.peek, PQ.policyPeek, hq, msgStep, MsgPol.serve, evPush]
    cases hp : m.peek with
    | none => simp [evPop]
    | some c =>
      simp only [PQ.pop, PQ.policyPop]
      generalize m.pop c = pp
      obtain ⟨m', r⟩ := pp
      cases r <;> simp [evPop]

theorem cinv_run {q : PQ α} {m : MsgPol} {P Q : List Chunk} (hq : q.policy = .msg m) (h : MsgPol.CInv m P Q)
    (ops : List Op) (hops : ∀ o ∈ ops, o.basic = true) :
    ∃ m', (q.run ops).1.policy = .msg m' ∧
      MsgPol.CInv m' (P ++ pushesOf (q.run ops).2) (Q ++ popsOf (q.run ops).2) := by
  induction ops generalizing q m P Q with
  | nil => exact ⟨m, hq, by simpa [PQ.run, pushesOf, popsOf] using h⟩
  | cons o os ih =>
    obtain ⟨h1, h2, h3⟩ := step_msg hq o (hops o (by simp))
    have hstep : MsgPol.CInv (msgStep m o).1 (P ++ (msgStep m o).2.1) (Q ++ (msgStep m o).2.2) := by
      cases o with
      | push c => simpa [msgStep] using MsgPol.cinv_push h c
      | pop => simpa [msgStep] using MsgPol.cinv_serve h
      | peek => simpa [msgStep] using h
      | rawPop c => simpa [msgStep] using h
      | popNil => simpa [msgStep] using h
      | setil b => simpa [msgStep] using h
    obtain ⟨m', hm', hc⟩ := ih h1 hstep (fun o' ho' => hops o' (by simp [ho']))
    refine ⟨m', by simpa [PQ.run] using hm', ?_⟩
    simp only [PQ.run]
    rw [pushesOf_cons, popsOf_cons, h2, h3]
    simpa [List.append_assoc] using hc

end PendQ
