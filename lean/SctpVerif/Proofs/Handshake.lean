import SctpVerif.Model.Handshake
/-!
Invariants of the handshake / negotiation model `Hs` over every operation list
(every loss / duplication / reordering pattern, both start orders, all 16 option combinations).
-/
namespace Hs

def Seen (e : Ep) : Prop := e.hasCookie = true ∨ e.st = stCookieEchoed ∨ e.st = stEstablished

def Derived (e : Ep) : Prop :=
  e.uil = (e.il && e.pil) ∧ e.uifwd = (e.il && e.pil && e.pifwd) ∧ e.ufwd = (!(e.il && e.pil) && e.pfwd)

def MsgFrom (il zc : Bool) : Msg → Prop
  | .init t z => t = extTypes il ∧ z = zcParam zc
  | .initAck t z _ => t = extTypes il ∧ z = zcParam zc
  | _ => True

def PktFrom (il zc pzc : Bool) (p : Pkt) : Prop :=
  MsgFrom il zc p.msg ∧ (p.zeroCk = true → pzc = true ∧ (match p.msg with | .init .. => False | .cookieEcho .. => False | _ => True))

structure EpInv (e : Ep) (il zc : Bool) (id : Nat) (pil pzc : Bool) : Prop where
  cfg : e.il = il ∧ e.zc = zc ∧ e.id = id
  derived : Derived e
  zero : e.sendZero = true → pzc = true
  seen : Seen e → e.pil = pil ∧ e.pfwd = true ∧ e.pifwd = pil
  unseen : ¬ Seen e → e.pil = false ∧ e.pfwd = false ∧ e.pifwd = false ∧ e.sendZero = false
  states : e.st = stClosed ∨ e.st = stCookieWait ∨ e.st = stCookieEchoed ∨ e.st = stEstablished
  queued : ∀ m ∈ e.queue, MsgFrom il zc m

@[simp] theorem learn_il (pil : Bool) : hasType (extTypes pil) Gen.ctIData = pil := by cases pil <;> decide
@[simp] theorem learn_fwd (pil : Bool) : hasType (extTypes pil) Gen.ctForwardTSN = true := by cases pil <;> decide
@[simp] theorem learn_ifwd (pil : Bool) : hasType (extTypes pil) Gen.ctIForwardTSN = pil := by cases pil <;> decide
@[simp] theorem zcLearn_from (cur pzc : Bool) : zcLearn cur (zcParam pzc) = (pzc || cur) := by
  cases pzc <;> simp [zcLearn, zcParam]

theorem mkPkt_from (e : Ep) (m : Msg) (il zc pzc : Bool) (hm : MsgFrom il zc m)
    (hz : e.sendZero = true → pzc = true) : PktFrom il zc pzc (mkPkt e m) := by
  unfold mkPkt PktFrom
  refine ⟨hm, ?_⟩
  cases m <;> simp <;> intro h <;> exact hz h

theorem handleInit_inv (e : Ep) (il zc : Bool) (id : Nat) (pil pzc : Bool)
    (hI : EpInv e il zc id pil pzc) :
    EpInv (handleInit e (extTypes pil) (zcParam pzc)).1 il zc id pil pzc ∧
    ∀ q ∈ (handleInit e (extTypes pil) (zcParam pzc)).2, MsgFrom il zc q := by
  obtain ⟨⟨hil, hzc, hid⟩, hder, hzero, hseen, hunseen, hst, hq⟩ := hI
  unfold handleInit
  split
  · exact ⟨⟨⟨hil, hzc, hid⟩, hder, hzero, hseen, hunseen, hst, hq⟩, by simp⟩
  · have hz' : (pzc || e.sendZero) = true → pzc = true := by
      cases pzc
      · intro h; exact hzero (by simpa using h)
      · intro _; rfl
    refine ⟨⟨?_, ?_, ?_, ?_, ?_, ?_, ?_⟩, ?_⟩
    · simp [updateIl, learnPeer, hil, hzc, hid]
    · simp [Derived, updateIl, learnPeer]
    · simpa [updateIl, learnPeer] using hz'
    · intro _; simp [updateIl, learnPeer]
    · intro h; exfalso; apply h; left; simp [updateIl, learnPeer]
    · simpa [updateIl, learnPeer] using hst
    · simpa [updateIl, learnPeer] using hq
    · intro q hq'
      simp only [List.mem_singleton] at hq'
      subst hq'
      simp [MsgFrom, updateIl, learnPeer, hil, hzc]

theorem handleInitAck_inv (e : Ep) (il zc : Bool) (id : Nat) (pil pzc : Bool) (cookie : Nat)
    (hI : EpInv e il zc id pil pzc) :
    EpInv (handleInitAck e (extTypes pil) (zcParam pzc) cookie).1 il zc id pil pzc ∧
    ∀ q ∈ (handleInitAck e (extTypes pil) (zcParam pzc) cookie).2, MsgFrom il zc q := by
  obtain ⟨⟨hil, hzc, hid⟩, hder, hzero, hseen, hunseen, hst, hq⟩ := hI
  unfold handleInitAck
  split
  · exact ⟨⟨⟨hil, hzc, hid⟩, hder, hzero, hseen, hunseen, hst, hq⟩, by simp⟩
  · have hz' : (pzc || e.sendZero) = true → pzc = true := by
      cases pzc
      · intro h; exact hzero (by simpa using h)
      · intro _; rfl
    refine ⟨⟨?_, ?_, ?_, ?_, ?_, ?_, ?_⟩, ?_⟩
    · simp [updateIl, learnPeer, hil, hzc, hid]
    · simp [Derived, updateIl, learnPeer]
    · simpa [updateIl, learnPeer] using hz'
    · intro _; simp [updateIl, learnPeer]
    · intro h; exfalso; apply h; right; left; rfl
    · right; right; left; rfl
    · simpa [updateIl, learnPeer] using hq
    · intro q hq'
      simp only [List.mem_singleton] at hq'
      subst hq'
      simp [MsgFrom]

theorem establish_inv (e : Ep) (il zc : Bool) (id : Nat) (pil pzc : Bool)
    (hI : EpInv e il zc id pil pzc) (hs : Seen e) : EpInv (establish e) il zc id pil pzc := by
  obtain ⟨⟨hil, hzc, hid⟩, hder, hzero, hseen, hunseen, hst, hq⟩ := hI
  obtain ⟨s1, s2, s3⟩ := hseen hs
  unfold establish
  refine ⟨?_, ?_, ?_, ?_, ?_, ?_, ?_⟩
  · simp [updateIl, hil, hzc, hid]
  · simp [Derived, updateIl]
  · simpa [updateIl] using hzero
  · intro _; simp [updateIl, s1, s2, s3]
  · intro h; exfalso; apply h; right; right; rfl
  · right; right; right; rfl
  · simpa [updateIl] using hq

/-- clearing the stored chunks does not touch anything the invariant talks about -/
theorem clearStored_inv (e : Ep) (il zc : Bool) (id : Nat) (pil pzc : Bool) (si : Bool) (sc : Option Nat) (ti tc : Bool)
    (hI : EpInv e il zc id pil pzc) : EpInv { e with storedInit := si, storedCookie := sc, t1i := ti, t1c := tc } il zc id pil pzc := by
  obtain ⟨⟨hil, hzc, hid⟩, hder, hzero, hseen, hunseen, hst, hq⟩ := hI
  exact ⟨⟨hil, hzc, hid⟩, hder, hzero, hseen, hunseen, hst, hq⟩

theorem handleCookieEcho_inv (e : Ep) (il zc : Bool) (id : Nat) (pil pzc : Bool) (cookie : Nat)
    (hI : EpInv e il zc id pil pzc) :
    EpInv (handleCookieEcho e cookie).1 il zc id pil pzc ∧
    ∀ q ∈ (handleCookieEcho e cookie).2, MsgFrom il zc q := by
  unfold handleCookieEcho
  split
  · exact ⟨hI, by simp⟩
  · rename_i hc
    have hc : e.hasCookie = true := by simpa using hc
    split
    · split
      · exact ⟨hI, by simp⟩
      · exact ⟨hI, by simp [MsgFrom]⟩
    · split
      · split
        · exact ⟨hI, by simp⟩
        · have hE := establish_inv { e with storedInit := false, storedCookie := none, t1i := false, t1c := false } il zc id pil pzc
            (clearStored_inv e il zc id pil pzc false none false false hI) (Or.inl (by simpa using hc))
          exact ⟨hE, by simp [MsgFrom]⟩
      · exact ⟨hI, by simp⟩

theorem handleCookieAck_inv (e : Ep) (il zc : Bool) (id : Nat) (pil pzc : Bool)
    (hI : EpInv e il zc id pil pzc) :
    EpInv (handleCookieAck e).1 il zc id pil pzc ∧ ∀ q ∈ (handleCookieAck e).2, MsgFrom il zc q := by
  unfold handleCookieAck
  split
  · exact ⟨hI, by simp⟩
  · rename_i hs
    have hst' : e.st = stCookieEchoed := by simpa using hs
    refine ⟨?_, by simp⟩
    have h0 : EpInv { e with storedCookie := none, t1c := false } il zc id pil pzc := by
      obtain ⟨⟨hil, hzc, hid⟩, hder, hzero, hseen, hunseen, hst, hq⟩ := hI
      exact ⟨⟨hil, hzc, hid⟩, hder, hzero, hseen, hunseen, hst, hq⟩
    exact establish_inv _ il zc id pil pzc h0 (Or.inr (Or.inl hst'))

/-- one inbound packet from the (consistently configured) peer preserves the endpoint invariant,
and every chunk it queues is consistent with its own configuration -/
theorem handle_inv (e : Ep) (il zc : Bool) (id : Nat) (pil pzc : Bool) (p : Pkt)
    (hI : EpInv e il zc id pil pzc) (hp : MsgFrom pil pzc p.msg) :
    EpInv (handle e p).1 il zc id pil pzc ∧ ∀ q ∈ (handle e p).2, MsgFrom il zc q := by
  unfold handle
  split
  · exact ⟨hI, by simp⟩
  · split
    · rename_i t z hm
      rw [hm] at hp; obtain ⟨ht, hz⟩ := hp; subst ht; subst hz
      exact handleInit_inv e il zc id pil pzc hI
    · rename_i t z c hm
      rw [hm] at hp; obtain ⟨ht, hz⟩ := hp; subst ht; subst hz
      exact handleInitAck_inv e il zc id pil pzc c hI
    · exact handleCookieEcho_inv e il zc id pil pzc _ hI
    · exact handleCookieAck_inv e il zc id pil pzc hI

theorem start_inv (e : Ep) (il zc : Bool) (id : Nat) (pil pzc : Bool)
    (hI : EpInv e il zc id pil pzc) (hc : e.st = stClosed) :
    EpInv (start e).1 il zc id pil pzc ∧ ∀ q ∈ (start e).2, MsgFrom il zc q := by
  obtain ⟨⟨hil, hzc, hid⟩, hder, hzero, hseen, hunseen, hst, hq⟩ := hI
  unfold start
  refine ⟨⟨⟨hil, hzc, hid⟩, ?_, hzero, ?_, ?_, Or.inr (Or.inl rfl), hq⟩, ?_⟩
  · unfold Derived at hder ⊢; simpa using hder
  · intro h
    apply hseen
    rcases h with h | h | h
    · exact Or.inl (by simpa using h)
    · simp [stCookieWait, stCookieEchoed] at h
    · simp [stCookieWait, stEstablished] at h
  · intro h
    apply hunseen
    intro h'
    apply h
    rcases h' with h' | h' | h'
    · exact Or.inl (by simpa using h')
    · simp [hc, stClosed, stCookieEchoed] at h'
    · simp [hc, stClosed, stEstablished] at h'
  · simp [MsgFrom, hil, hzc]

theorem t1Init_inv (e : Ep) (il zc : Bool) (id : Nat) (pil pzc : Bool) (hI : EpInv e il zc id pil pzc) :
    EpInv (t1Init e).1 il zc id pil pzc ∧ ∀ q ∈ (t1Init e).2, MsgFrom il zc q := by
  unfold t1Init
  split
  · exact ⟨hI, by simp [MsgFrom, hI.cfg.1, hI.cfg.2.1]⟩
  · exact ⟨hI, by simp⟩

theorem t1Cookie_inv (e : Ep) (il zc : Bool) (id : Nat) (pil pzc : Bool) (hI : EpInv e il zc id pil pzc) :
    EpInv (t1Cookie e).1 il zc id pil pzc ∧ ∀ q ∈ (t1Cookie e).2, MsgFrom il zc q := by
  unfold t1Cookie
  split
  · exact ⟨hI, by simp [MsgFrom]⟩
  · exact ⟨hI, by simp⟩

/-- the write loop marshals everything queued with the CURRENT flags: the endpoint invariant is kept and
every emitted packet is consistent with the configuration (zero checksum only if the peer accepts it, never
on INIT / COOKIE-ECHO) -/
theorem flush_inv (e : Ep) (il zc : Bool) (id : Nat) (pil pzc : Bool) (more : List Msg)
    (hI : EpInv e il zc id pil pzc) (hm : ∀ q ∈ more, MsgFrom il zc q) :
    EpInv (flush e more).1 il zc id pil pzc ∧ ∀ q ∈ (flush e more).2, PktFrom il zc pzc q := by
  obtain ⟨⟨hil, hzc, hid⟩, hder, hzero, hseen, hunseen, hst, hq⟩ := hI
  unfold flush
  refine ⟨⟨⟨hil, hzc, hid⟩, hder, hzero, hseen, hunseen, hst, by simp⟩, ?_⟩
  intro q hq'
  simp only [List.mem_map, List.mem_append] at hq'
  obtain ⟨m, hm', rfl⟩ := hq'
  apply mkPkt_from _ _ _ _ _ _ hzero
  rcases hm' with h | h
  · exact hq m h
  · exact hm m h

/-- queueing more consistent chunks keeps the invariant -/
theorem enqueue_inv (e : Ep) (il zc : Bool) (id : Nat) (pil pzc : Bool) (more : List Msg)
    (hI : EpInv e il zc id pil pzc) (hm : ∀ q ∈ more, MsgFrom il zc q) :
    EpInv { e with queue := e.queue ++ more } il zc id pil pzc := by
  obtain ⟨⟨hil, hzc, hid⟩, hder, hzero, hseen, hunseen, hst, hq⟩ := hI
  refine ⟨⟨hil, hzc, hid⟩, hder, hzero, hseen, hunseen, hst, ?_⟩
  intro m hm'
  simp only [List.mem_append] at hm'
  rcases hm' with h | h
  · exact hq m h
  · exact hm m h

/-- the system invariant: both endpoint invariants, and both packet histories consistent with
the configuration of the side that sent them -/
structure SysInv (s : Sys) (ilA zcA ilB zcB : Bool) : Prop where
  a : EpInv s.a ilA zcA 0 ilB zcB
  b : EpInv s.b ilB zcB 1 ilA zcA
  ha : ∀ p ∈ s.ha.toList, PktFrom ilA zcA zcB p
  hb : ∀ p ∈ s.hb.toList, PktFrom ilB zcB zcA p

theorem init_inv (ilA zcA ilB zcB : Bool) : SysInv (Sys.init ilA zcA ilB zcB) ilA zcA ilB zcB := by
  have hE : ∀ (il zc : Bool) (id : Nat) (pil pzc : Bool), EpInv { id := id, il := il, zc := zc } il zc id pil pzc := by
    intro il zc id pil pzc
    refine ⟨⟨rfl, rfl, rfl⟩, ?_, ?_, ?_, ?_, Or.inl rfl, by simp⟩
    · simp [Derived]
    · simp
    · intro h; rcases h with h | h | h <;> simp [stClosed, stCookieEchoed, stEstablished] at h
    · intro _; simp
  exact ⟨hE _ _ _ _ _, hE _ _ _ _ _, by simp [Sys.init], by simp [Sys.init]⟩

theorem step_inv (s : Sys) (ilA zcA ilB zcB : Bool) (op : Op) (h : SysInv s ilA zcA ilB zcB) :
    SysInv (s.step op) ilA zcA ilB zcB := by
  obtain ⟨ia, ib, iha, ihb⟩ := h
  have putA : ∀ (e : Ep) (o : List Pkt), EpInv e ilA zcA 0 ilB zcB → (∀ q ∈ o, PktFrom ilA zcA zcB q) →
      SysInv (s.put false e o) ilA zcA ilB zcB := by
    intro e o he ho
    refine ⟨he, ib, ?_, ihb⟩
    intro p hp
    simp only [Sys.put, Bool.false_eq_true, ↓reduceIte, Array.toList_append, List.mem_append] at hp
    rcases hp with hp | hp
    · exact iha p hp
    · exact ho p (by simpa using hp)
  have putB : ∀ (e : Ep) (o : List Pkt), EpInv e ilB zcB 1 ilA zcA → (∀ q ∈ o, PktFrom ilB zcB zcA q) →
      SysInv (s.put true e o) ilA zcA ilB zcB := by
    intro e o he ho
    refine ⟨ia, he, iha, ?_⟩
    intro p hp
    simp only [Sys.put, ↓reduceIte, Array.toList_append, List.mem_append] at hp
    rcases hp with hp | hp
    · exact ihb p hp
    · exact ho p (by simpa using hp)
  -- an endpoint step followed by the write loop
  have thenFlushA : ∀ (r : Ep × List Msg), EpInv r.1 ilA zcA 0 ilB zcB → (∀ q ∈ r.2, MsgFrom ilA zcA q) →
      SysInv (s.put false (flush r.1 r.2).1 (flush r.1 r.2).2) ilA zcA ilB zcB := by
    intro r h1 h2
    have := flush_inv r.1 ilA zcA 0 ilB zcB r.2 h1 h2
    exact putA _ _ this.1 this.2
  have thenFlushB : ∀ (r : Ep × List Msg), EpInv r.1 ilB zcB 1 ilA zcA → (∀ q ∈ r.2, MsgFrom ilB zcB q) →
      SysInv (s.put true (flush r.1 r.2).1 (flush r.1 r.2).2) ilA zcA ilB zcB := by
    intro r h1 h2
    have := flush_inv r.1 ilB zcB 1 ilA zcA r.2 h1 h2
    exact putB _ _ this.1 this.2
  cases op with
  | start x =>
    cases x
    · simp only [Sys.step, Sys.ep, Bool.false_eq_true, ↓reduceIte]
      split
      · rename_i hc
        have := start_inv s.a ilA zcA 0 ilB zcB ia (by simpa using hc)
        exact thenFlushA _ this.1 this.2
      · exact ⟨ia, ib, iha, ihb⟩
    · simp only [Sys.step, Sys.ep, ↓reduceIte]
      split
      · rename_i hc
        have := start_inv s.b ilB zcB 1 ilA zcA ib (by simpa using hc)
        exact thenFlushB _ this.1 this.2
      · exact ⟨ia, ib, iha, ihb⟩
  | deliver x i =>
    cases x
    · simp only [Sys.step, Sys.hist, Bool.false_eq_true, ↓reduceIte, Bool.not_false, Sys.ep]
      split
      · exact ⟨ia, ib, iha, ihb⟩
      · rename_i p hp
        have hmem : p ∈ s.ha.toList := by
          have := Array.mem_of_getElem? hp
          simpa using this
        have := handle_inv s.b ilB zcB 1 ilA zcA p ib (iha p hmem).1
        exact thenFlushB _ this.1 this.2
    · simp only [Sys.step, Sys.hist, ↓reduceIte, Bool.not_true, Sys.ep, Bool.false_eq_true]
      split
      · exact ⟨ia, ib, iha, ihb⟩
      · rename_i p hp
        have hmem : p ∈ s.hb.toList := by
          have := Array.mem_of_getElem? hp
          simpa using this
        have := handle_inv s.a ilA zcA 0 ilB zcB p ia (ihb p hmem).1
        exact thenFlushA _ this.1 this.2
  | t1Init x =>
    cases x
    · have := t1Init_inv s.a ilA zcA 0 ilB zcB ia
      exact thenFlushA _ this.1 this.2
    · have := t1Init_inv s.b ilB zcB 1 ilA zcA ib
      exact thenFlushB _ this.1 this.2
  | t1Cookie x =>
    cases x
    · have := t1Cookie_inv s.a ilA zcA 0 ilB zcB ia
      exact thenFlushA _ this.1 this.2
    · have := t1Cookie_inv s.b ilB zcB 1 ilA zcA ib
      exact thenFlushB _ this.1 this.2
  | t1Queue x cookie =>
    cases x
    · simp only [Sys.step, Sys.ep, Bool.false_eq_true, ↓reduceIte]
      cases cookie
      · have := t1Init_inv s.a ilA zcA 0 ilB zcB ia
        exact putA _ _ (enqueue_inv _ _ _ _ _ _ _ this.1 this.2) (by simp)
      · have := t1Cookie_inv s.a ilA zcA 0 ilB zcB ia
        exact putA _ _ (enqueue_inv _ _ _ _ _ _ _ this.1 this.2) (by simp)
    · simp only [Sys.step, Sys.ep, ↓reduceIte]
      cases cookie
      · have := t1Init_inv s.b ilB zcB 1 ilA zcA ib
        exact putB _ _ (enqueue_inv _ _ _ _ _ _ _ this.1 this.2) (by simp)
      · have := t1Cookie_inv s.b ilB zcB 1 ilA zcA ib
        exact putB _ _ (enqueue_inv _ _ _ _ _ _ _ this.1 this.2) (by simp)
  | gather x =>
    cases x
    · have := flush_inv s.a ilA zcA 0 ilB zcB [] ia (by simp)
      exact putA _ _ this.1 this.2
    · have := flush_inv s.b ilB zcB 1 ilA zcA [] ib (by simp)
      exact putB _ _ this.1 this.2

theorem run_inv (ilA zcA ilB zcB : Bool) (ops : List Op) :
    SysInv ((Sys.init ilA zcA ilB zcB).run ops) ilA zcA ilB zcB := by
  unfold Sys.run
  have : ∀ (s : Sys), SysInv s ilA zcA ilB zcB → SysInv (ops.foldl Sys.step s) ilA zcA ilB zcB := by
    induction ops with
    | nil => intro s h; simpa using h
    | cons op ops ih => intro s h; simp only [List.foldl_cons]; exact ih _ (step_inv s _ _ _ _ op h)
  exact this _ (init_inv ilA zcA ilB zcB)

/-- what an established endpoint has negotiated, from its invariant -/
theorem established_flags (e : Ep) (il zc : Bool) (id : Nat) (pil pzc : Bool)
    (hI : EpInv e il zc id pil pzc) (he : e.st = stEstablished) :
    e.uil = (il && pil) ∧ e.uifwd = (il && pil) ∧ e.ufwd = !(il && pil) ∧ (e.sendZero = true → pzc = true) := by
  obtain ⟨⟨hil, hzc, hid⟩, ⟨d1, d2, d3⟩, hzero, hseen, hunseen, hst, -⟩ := hI
  obtain ⟨s1, s2, s3⟩ := hseen (Or.inr (Or.inr he))
  refine ⟨?_, ?_, ?_, hzero⟩
  · rw [d1, hil, s1]
  · rw [d2, hil, s1, s3]; cases il <;> cases pil <;> rfl
  · rw [d3, hil, s1, s2]; simp

end Hs

/-! ## T1 timers: running only in the state they belong to -/
namespace Hs

/-- T1-init runs only in COOKIE-WAIT, T1-cookie only in COOKIE-ECHOED -/
def TInv (e : Ep) : Prop := (e.t1i = true → e.st = stCookieWait) ∧ (e.t1c = true → e.st = stCookieEchoed)

theorem updateIl_t (e : Ep) : (updateIl e).t1i = e.t1i ∧ (updateIl e).t1c = e.t1c ∧ (updateIl e).st = e.st := ⟨rfl, rfl, rfl⟩
theorem learnPeer_t (e : Ep) (ts : List Nat) (z : Option Nat) :
    (learnPeer e ts z).t1i = e.t1i ∧ (learnPeer e ts z).t1c = e.t1c ∧ (learnPeer e ts z).st = e.st := ⟨rfl, rfl, rfl⟩

theorem handleInit_tinv (e : Ep) (ts : List Nat) (z : Option Nat) (h : TInv e) : TInv (handleInit e ts z).1 := by
  unfold handleInit
  split
  · exact h
  · exact h

theorem handleInitAck_tinv (e : Ep) (ts : List Nat) (z : Option Nat) (c : Nat) (_h : TInv e) : TInv (handleInitAck e ts z c).1 := by
  unfold handleInitAck
  split
  · exact _h
  · exact ⟨fun h => by simp at h, fun _ => rfl⟩

theorem handleCookieEcho_tinv (e : Ep) (c : Nat) (h : TInv e) : TInv (handleCookieEcho e c).1 := by
  unfold handleCookieEcho
  split
  · exact h
  · split
    · split <;> exact h
    · split
      · split
        · exact h
        · exact ⟨fun h' => by simp [establish, updateIl] at h', fun h' => by simp [establish, updateIl] at h'⟩
      · exact h

theorem handleCookieAck_tinv (e : Ep) (h : TInv e) : TInv (handleCookieAck e).1 := by
  unfold handleCookieAck
  split
  · exact h
  · rename_i hs
    have hst : e.st = stCookieEchoed := by simpa using hs
    refine ⟨fun h' => ?_, fun h' => by simp [establish, updateIl] at h'⟩
    have : e.t1i = true := by simpa [establish, updateIl] using h'
    have := h.1 this
    rw [hst] at this
    exact absurd this (by decide)

theorem handle_tinv (e : Ep) (p : Pkt) (h : TInv e) : TInv (handle e p).1 := by
  unfold handle
  split
  · exact h
  · split
    · exact handleInit_tinv e _ _ h
    · exact handleInitAck_tinv e _ _ _ h
    · exact handleCookieEcho_tinv e _ h
    · exact handleCookieAck_tinv e h

theorem start_tinv (e : Ep) (h : TInv e) (hc : e.st = stClosed) : TInv (start e).1 := by
  refine ⟨fun _ => rfl, fun h' => ?_⟩
  have : e.t1c = true := h'
  have := h.2 this
  rw [hc] at this
  exact absurd this (by decide)

theorem flush_tinv (e : Ep) (m : List Msg) (h : TInv e) : TInv (flush e m).1 := h

theorem t1_tinv (e : Ep) (h : TInv e) : TInv (t1Init e).1 ∧ TInv (t1Cookie e).1 := by
  constructor
  · unfold t1Init; split <;> exact h
  · unfold t1Cookie; split <;> exact h

def SysT (s : Sys) : Prop := TInv s.a ∧ TInv s.b

theorem ep_tinv {s : Sys} (h : SysT s) (x : Bool) : TInv (s.ep x) := by
  cases x
  · exact h.1
  · exact h.2

theorem put_tinv {s : Sys} (h : SysT s) (x : Bool) (e : Ep) (o : List Pkt) (he : TInv e) : SysT (s.put x e o) := by
  cases x
  · exact ⟨he, h.2⟩
  · exact ⟨h.1, he⟩

theorem step_tinv (s : Sys) (op : Op) (h : SysT s) : SysT (s.step op) := by
  cases op with
  | start x =>
    simp only [Sys.step]
    split
    · rename_i hc
      have hc' : (s.ep x).st = stClosed := by simpa using hc
      exact put_tinv h x _ _ (flush_tinv _ _ (start_tinv _ (ep_tinv h x) hc'))
    · exact h
  | deliver x i =>
    simp only [Sys.step]
    split
    · exact h
    · exact put_tinv h (!x) _ _ (flush_tinv _ _ (handle_tinv _ _ (ep_tinv h (!x))))
  | t1Init x =>
    simp only [Sys.step]
    exact put_tinv h x _ _ (flush_tinv _ _ (t1_tinv _ (ep_tinv h x)).1)
  | t1Cookie x =>
    simp only [Sys.step]
    exact put_tinv h x _ _ (flush_tinv _ _ (t1_tinv _ (ep_tinv h x)).2)
  | t1Queue x cookie =>
    simp only [Sys.step]
    apply put_tinv h x
    cases cookie
    · exact (t1_tinv _ (ep_tinv h x)).1
    · exact (t1_tinv _ (ep_tinv h x)).2
  | gather x =>
    simp only [Sys.step]
    exact put_tinv h x _ _ (flush_tinv _ _ (ep_tinv h x))

theorem run_tinv (s : Sys) (ops : List Op) (h : SysT s) : SysT (s.run ops) := by
  induction ops generalizing s with
  | nil => exact h
  | cons op ops ih => exact ih _ (step_tinv s op h)

theorem init_tinv (a b c d : Bool) : SysT (Sys.init a b c d) :=
  ⟨⟨fun h => by simp [Sys.init] at h, fun h => by simp [Sys.init] at h⟩, ⟨fun h => by simp [Sys.init] at h, fun h => by simp [Sys.init] at h⟩⟩

end Hs
