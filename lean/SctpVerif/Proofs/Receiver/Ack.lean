import SctpVerif.Proofs.Receiver.AckFrames
import SctpVerif.Proofs.AckAuto
/-!
The acknowledgement state machine of the association (`ackState`, `immediateAckTriggered`,
`delayedAckTriggered`, the ack timer) — invariant and per-packet effects.
-/
namespace Receiver
open Gen Timer

/-- coupling of `ackState` with the ack-timer automaton -/
structure AckInv (s : St) : Prop where
  nospawn : s.timer.g.spawned = []
  open_ : s.timer.t.state ≠ .closed
  delay_iff : s.timer.t.state = .started ↔ s.ackState = 2
  started : s.timer.t.state = .started →
    ∃ tag, s.timer.g.armed = some (s.timer.since + ackInterval, tag) ∧ s.timer.since ≤ s.timer.now ∧ s.timer.t.pending = 1
  stopped : s.timer.t.state = .stopped → s.timer.g.armed = none ∧ s.timer.t.pending = 0
  range : s.ackState = 0 ∨ s.ackState = 1 ∨ s.ackState = 2

theorem stop_state (t : AckSys) (h : t.t.state ≠ .closed) : t.stop.t.state = .stopped := by
  unfold AckSys.stop
  split
  · rfl
  · rename_i hs
    cases hst : t.t.state with
    | stopped => rfl
    | started => exact absurd hst hs
    | closed => exact absurd hst h

theorem stop_now (t : AckSys) : t.stop.now = t.now := by unfold AckSys.stop; split <;> rfl

/-- the ack state becomes `immediate`, the timer is stopped -/
theorem ackInv_imm {s : St} (h : AckInv s) (s' : St) (ha : s'.ackState = 1) (ht : s'.timer = s.timer.stop) : AckInv s' := by
  have hst := stop_state s.timer h.open_
  refine ⟨?_, ?_, ?_, ?_, ?_, Or.inr (Or.inl ha)⟩
  · rw [ht]; unfold AckSys.stop; split
    · simp [GoTimer.stop, h.nospawn]
    · exact h.nospawn
  · rw [ht, hst]; simp
  · rw [ht, hst, ha]; simp
  · rw [ht, hst]; intro hc; cases hc
  · intro _
    rw [ht]
    unfold AckSys.stop
    split
    · rename_i hs
      obtain ⟨tag, harm, _, hp⟩ := h.started hs
      simp [GoTimer.stop, harm, hp]
    · rename_i hs
      have : s.timer.t.state = .stopped := by
        cases hst' : s.timer.t.state with
        | stopped => rfl
        | started => exact absurd hst' hs
        | closed => exact absurd hst' h.open_
      exact h.stopped this

/-! ### the acknowledgement step -/

@[simp] theorem popLoop_immTrig' (n : Nat) (s : St) : (popLoop n s).immTrig = s.immTrig := popLoop_immTrig n s

/-- what `handlePeerLastTSNAndAcknowledgement` does to the trigger flags -/
theorem ackStep_triggers (s : St) (b : Bool) :
    ((ackStep s b).immTrig = true ∨ (ackStep s b).delTrig = true) ∧
    (s.immTrig = true → (ackStep s b).immTrig = true) ∧
    (s.delTrig = true → (ackStep s b).delTrig = true) ∧
    ((ackStep s b).delTrig = true → s.delTrig = true ∨ s.ackState = 0) ∧
    (b = true ∨ (popLoop s.pq.size.toNat s).pq.size > 0 ∨ s.ackMode = 1 → (ackStep s b).immTrig = true) := by
  unfold ackStep
  dsimp only
  split
  · exact ⟨Or.inl rfl, fun _ => rfl, fun h => by simpa using h, fun h => Or.inl (by simpa using h), fun _ => rfl⟩
  · rename_i hi
    have hi' : ¬ (b = true ∨ (popLoop s.pq.size.toNat s).pq.size > 0 ∨ s.ackMode = 1) := by
      intro hc
      apply hi
      simp only [ack_immediate, ack_hasPacketLoss, popLoop_ackMode, Bool.or_eq_true, decide_eq_true_eq, beq_iff_eq]
      rcases hc with h | h | h
      · exact Or.inl (Or.inl h)
      · exact Or.inl (Or.inr h)
      · exact Or.inr h
    split
    · split
      · rename_i hidle
        refine ⟨Or.inr rfl, fun h => by simpa using h, fun _ => rfl, fun _ => Or.inr ?_, fun hc => absurd hc hi'⟩
        simpa [ack_wasIdle] using hidle
      · exact ⟨Or.inl rfl, fun _ => rfl, fun h => by simpa using h, fun h => Or.inl (by simpa using h), fun _ => rfl⟩
    · exact ⟨Or.inl rfl, fun _ => rfl, fun h => by simpa using h, fun h => Or.inl (by simpa using h), fun _ => rfl⟩

/-! ### one chunk -/

/-- the ack-relevant effect of one chunk handler -/
structure ChunkAck (x y : St) : Prop where
  timer : (y.timer = x.timer ∧ y.ackState = x.ackState) ∨ (y.timer = x.timer.stop ∧ y.ackState = 1)
  imm : x.immTrig = true → y.immTrig = true
  del : x.delTrig = true → y.delTrig = true
  delWhy : y.delTrig = true → x.delTrig = true ∨ x.ackState = 0

theorem ChunkAck.refl (x : St) : ChunkAck x x := ⟨Or.inl ⟨rfl, rfl⟩, id, id, Or.inl⟩

theorem ChunkAck.of_frames {x y : St} (ht : y.timer = x.timer) (ha : y.ackState = x.ackState)
    (hi : y.immTrig = x.immTrig) (hd : y.delTrig = x.delTrig) : ChunkAck x y :=
  ⟨Or.inl ⟨ht, ha⟩, fun h => hi ▸ h, fun h => hd ▸ h, fun h => Or.inl (hd ▸ h)⟩

theorem ackStep_chunkAck (x : St) (b : Bool) : ChunkAck x (ackStep x b) := by
  obtain ⟨_, h2, h3, h4, _⟩ := ackStep_triggers x b
  exact ⟨Or.inl ⟨by simp, by simp⟩, h2, h3, h4⟩

theorem ChunkAck.trans_frames {x y z : St} (h : ChunkAck y z) (ht : y.timer = x.timer) (ha : y.ackState = x.ackState)
    (hi : y.immTrig = x.immTrig) (hd : y.delTrig = x.delTrig) : ChunkAck x z := by
  refine ⟨?_, ?_, ?_, ?_⟩
  · rw [← ht, ← ha]; exact h.timer
  · rw [← hi]; exact h.imm
  · rw [← hd]; exact h.del
  · rw [← hd, ← ha]; exact h.delWhy

theorem handleData_chunkAck (x : St) (c : Reasm.Chunk) (imm : Bool) : ChunkAck x (handleData x c imm) := by
  unfold handleData
  dsimp only
  split
  · exact .refl x
  · split
    · exact .of_frames rfl rfl rfl rfl
    · by_cases hcp : RecvQ.canPush x.pq c.tsn = true
      · simp only [if_pos hcp]
        split
        · split
          · exact (ackStep_chunkAck _ _).trans_frames (by simp) (by simp) (by simp) (by simp)
          · exact .of_frames (by simp) (by simp) (by simp) (by simp)
        · exact (ackStep_chunkAck _ _).trans_frames (by simp) (by simp) (by simp) (by simp)
      · simp only [if_neg hcp]
        split
        · split
          · exact ackStep_chunkAck _ _
          · exact .refl x
        · exact ackStep_chunkAck _ _

theorem staleFwd_chunkAck (x : St) : ChunkAck x (staleFwd x) :=
  ⟨Or.inr ⟨rfl, rfl⟩, id, id, Or.inl⟩

theorem handleFwd_chunkAck (x : St) (c : TSN) (es : List (BitVec 16 × BitVec 16)) : ChunkAck x (handleFwd x c es) := by
  unfold handleFwd
  split
  · exact .of_frames rfl rfl rfl rfl
  · split
    · exact .of_frames rfl rfl rfl rfl
    · split
      · exact staleFwd_chunkAck x
      · exact (ackStep_chunkAck _ _).trans_frames (by simp) (by simp) (by simp) (by simp)

theorem handleIFwd_chunkAck (x : St) (c : TSN) (es : List (BitVec 16 × Bool × BitVec 32)) : ChunkAck x (handleIFwd x c es) := by
  unfold handleIFwd
  split
  · exact .of_frames rfl rfl rfl rfl
  · split
    · exact staleFwd_chunkAck x
    · exact (ackStep_chunkAck _ _).trans_frames (by simp) (by simp) (by simp) (by simp)

theorem handleChunk_chunkAck (x : St) (ch : InChunk) : ChunkAck x (handleChunk x ch) := by
  cases ch with
  | data c imm => simp only [handleChunk]; split; exact .of_frames rfl rfl rfl rfl; exact handleData_chunkAck x c imm
  | fwd c es => exact handleFwd_chunkAck x c es
  | ifwd c es => exact handleIFwd_chunkAck x c es
  | hb info => exact .of_frames rfl rfl rfl rfl
  | reset r => exact .of_frames (by simp [handleChunk]) (by simp [handleChunk]) (by simp [handleChunk]) (by simp [handleChunk])

/-! ### the chunks of one packet -/

/-- the ack-relevant state after the chunk handlers of a packet, relative to the state `s` before the packet -/
structure PktAck (s x : St) : Prop where
  timer : (x.timer = s.timer ∧ x.ackState = s.ackState) ∨ (x.timer = s.timer.stop ∧ x.ackState = 1)
  delWhy : x.delTrig = true → s.ackState = 0

theorem stop_stop (t : AckSys) : t.stop.stop = t.stop := by
  unfold AckSys.stop
  split
  · simp
  · rfl

theorem PktAck.step {s x : St} (h : PktAck s x) (hs1 : s.ackState = 0 ∨ s.ackState = 1 ∨ s.ackState = 2) (ch : InChunk) :
    PktAck s (handleChunk x ch) := by
  have c := handleChunk_chunkAck x ch
  refine ⟨?_, ?_⟩
  · rcases c.timer with ⟨ct, ca⟩ | ⟨ct, ca⟩
    · rw [ct, ca]; exact h.timer
    · right
      rcases h.timer with ⟨ht, _⟩ | ⟨ht, _⟩
      · exact ⟨by rw [ct, ht], ca⟩
      · exact ⟨by rw [ct, ht, stop_stop], ca⟩
  · intro hd
    rcases c.delWhy hd with hx | hx
    · exact h.delWhy hx
    · rcases h.timer with ⟨_, ha⟩ | ⟨_, ha⟩
      · rw [← ha]; exact hx
      · rw [ha] at hx; cases hx

theorem foldl_pktAck (cs : List InChunk) {s x : St} (h : PktAck s x) (hs1 : s.ackState = 0 ∨ s.ackState = 1 ∨ s.ackState = 2) :
    PktAck s (cs.foldl handleChunk x) := by
  induction cs generalizing x with
  | nil => exact h
  | cons c cs ih => exact ih (h.step hs1 c)

theorem foldl_sticky (cs : List InChunk) (x : St) :
    (x.immTrig = true → (cs.foldl handleChunk x).immTrig = true) ∧ (x.delTrig = true → (cs.foldl handleChunk x).delTrig = true) := by
  induction cs generalizing x with
  | nil => exact ⟨id, id⟩
  | cons c cs ih =>
    have h := handleChunk_chunkAck x c
    exact ⟨fun hi => (ih _).1 (h.imm hi), fun hd => (ih _).2 (h.del hd)⟩

theorem chunksStart_pktAck (s : St) : PktAck s (chunksStart s) := ⟨Or.inl ⟨rfl, rfl⟩, fun h => by simp [chunksStart] at h⟩

/-! ### the whole packet -/

theorem start_from_stopped (t : AckSys) (h : t.t.state = .stopped) :
    t.start.1.t.state = .started ∧ t.start.1.g.armed = some (t.now + ackInterval, t.epoch + 1) ∧
    t.start.1.since = t.now ∧ t.start.1.now = t.now ∧ t.start.1.g.spawned = t.g.spawned ∧
    t.start.1.t.pending = t.t.pending + 1 := by
  unfold AckSys.start
  simp [h, GoTimer.reset]

/-- ✱ every packet keeps the ack invariant -/
theorem packet_ackInv {s : St} (h : AckInv s) (cs : List InChunk) : AckInv (packet s cs) := by
  have hp := foldl_pktAck cs (chunksStart_pktAck s) h.range
  generalize hx : cs.foldl handleChunk (chunksStart s) = x at hp
  have hxi : AckInv x := by
    rcases hp.timer with ⟨ht, ha⟩ | ⟨ht, ha⟩
    · exact ⟨ht ▸ h.nospawn, ht ▸ h.open_, by rw [ht, ha]; exact h.delay_iff, by rw [ht]; exact h.started,
        by rw [ht]; exact h.stopped, ha ▸ h.range⟩
    · exact ackInv_imm h x ha ht
  unfold packet
  rw [hx]
  unfold chunksEnd
  split
  · exact ackInv_imm hxi _ rfl rfl
  · split
    · rename_i hd
      have hidle := hp.delWhy hd
      have hstopped : x.timer.t.state = .stopped := by
        have hne : s.timer.t.state ≠ .started := by
          intro hc; have := h.delay_iff.mp hc; omega
        have hs : s.timer.t.state = .stopped := by
          cases hst : s.timer.t.state with
          | stopped => rfl
          | started => exact absurd hst hne
          | closed => exact absurd hst h.open_
        rcases hp.timer with ⟨ht, _⟩ | ⟨ht, _⟩
        · rw [ht]; exact hs
        · rw [ht]; exact stop_state _ h.open_
      obtain ⟨a1, a2, a3, a4, a5, a6⟩ := start_from_stopped x.timer hstopped
      obtain ⟨b1, b2⟩ := hxi.stopped hstopped
      refine ⟨?_, ?_, ?_, ?_, ?_, Or.inr (Or.inr rfl)⟩
      · show x.timer.start.1.g.spawned = []
        rw [a5]; exact hxi.nospawn
      · show x.timer.start.1.t.state ≠ .closed
        rw [a1]; simp
      · show x.timer.start.1.t.state = .started ↔ (2 : Int) = 2
        rw [a1]; simp
      · intro _
        show ∃ tag, x.timer.start.1.g.armed = some (x.timer.start.1.since + ackInterval, tag) ∧
          x.timer.start.1.since ≤ x.timer.start.1.now ∧ x.timer.start.1.t.pending = 1
        refine ⟨x.timer.epoch + 1, ?_, ?_, ?_⟩
        · rw [a2, a3]
        · rw [a3, a4]; exact Nat.le_refl _
        · rw [a6, b2]; rfl
      · intro hc
        have : x.timer.start.1.t.state = .stopped := hc
        rw [a1] at this; cases this
    · exact hxi


/-! ### the other steps -/

theorem ackInv_of_eq {s s' : St} (h : AckInv s) (ht : s'.timer = s.timer) (ha : s'.ackState = s.ackState) : AckInv s' :=
  ⟨ht ▸ h.nospawn, ht ▸ h.open_, by rw [ht, ha]; exact h.delay_iff, by rw [ht]; exact h.started,
    by rw [ht]; exact h.stopped, ha ▸ h.range⟩

theorem gather_ackInv {s : St} (h : AckInv s) : AckInv (gather s).1 := by
  unfold gather
  split
  · exact ackInv_of_eq h rfl rfl
  · dsimp only
    split
    · rename_i hc
      have hp : s.ackState = 1 := by
        simp only [Bool.and_eq_true, sack_pending, beq_iff_eq] at hc
        exact hc.2
      have hns : s.timer.t.state ≠ .started := by
        intro hst; have := h.delay_iff.mp hst; omega
      refine ⟨h.nospawn, h.open_, ?_, h.started, h.stopped, Or.inl rfl⟩
      show s.timer.t.state = .started ↔ ((ackStateIdle : Nat) : Int) = 2
      constructor
      · intro hst; exact absurd hst hns
      · intro hc2; simp [ackStateIdle] at hc2
    · exact ackInv_of_eq h rfl rfl

theorem tick_ackInv {s : St} (h : AckInv s) (d : Nat) : AckInv (tick s d) := by
  unfold tick
  dsimp only
  split
  · rename_i dl tag harm
    have hst : s.timer.t.state = .started := by
      cases hs : s.timer.t.state with
      | started => rfl
      | stopped => have := (h.stopped hs).1; rw [harm] at this; cases this
      | closed => exact absurd hs h.open_
    obtain ⟨tag', harm', hsince, hpend⟩ := h.started hst
    split
    · -- the timer fires and its callback runs: one shot
      have hrun : (({ s.timer with now := dl } : AckSys).fire.run 0) =
          ({ s.timer with now := dl, g := { armed := none, spawned := [] }, t := { pending := 0, state := .stopped } }, some .ack) := by
        simp [AckSys.fire, AckSys.run, AckSys.timeout, GoTimer.fire, harm, h.nospawn, hst, hpend]
      rw [hrun]
      simp only [beq_self_eq_true, if_true, ackTimeout]
      refine ⟨rfl, by simp, ?_, ?_, ?_, Or.inr (Or.inl rfl)⟩
      · show (TState.stopped = TState.started) ↔ ((ackStateImmediate : Nat) : Int) = 2
        simp [ackStateImmediate]
      · intro hc; cases hc
      · intro _; exact ⟨rfl, rfl⟩
    · refine ⟨h.nospawn, h.open_, h.delay_iff, ?_, h.stopped, h.range⟩
      intro hs
      obtain ⟨tg, a, b, c⟩ := h.started hs
      exact ⟨tg, a, Nat.le_trans b (Nat.le_add_right _ _), c⟩
  · refine ⟨h.nospawn, h.open_, h.delay_iff, ?_, h.stopped, h.range⟩
    intro hs
    obtain ⟨tg, a, b, c⟩ := h.started hs
    exact ⟨tg, a, Nat.le_trans b (Nat.le_add_right _ _), c⟩

theorem step_ackInv {s : St} (h : AckInv s) (op : Op) : AckInv (step s op) := by
  cases op with
  | pkt cs => exact packet_ackInv h cs
  | read n b => exact ackInv_of_eq h (by simp [step]) (by simp [step])
  | accept => exact ackInv_of_eq h (by simp [step]) (by simp [step])
  | «open» si => exact ackInv_of_eq h (by simp [step]) (by simp [step])
  | gather => exact gather_ackInv h
  | tick d => exact tick_ackInv h d
  | setState st => exact ackInv_of_eq h rfl rfl

theorem run_ackInv (ops : List Op) {s : St} (h : AckInv s) : AckInv (run s ops) := by
  induction ops generalizing s with
  | nil => exact h
  | cons op ops ih => exact ih (step_ackInv h op)

theorem init_ackInv (a b : BitVec 32) (c d e : Bool) (f : Int) (t : TSN) : AckInv (init a b c d e f t) :=
  ⟨rfl, by simp [init], by simp [init], by intro h; simp [init] at h, by intro _; exact ⟨rfl, rfl⟩, Or.inl rfl⟩

end Receiver
