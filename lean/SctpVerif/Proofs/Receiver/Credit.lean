import SctpVerif.Proofs.Receiver.Sack
/-!
Receive-window accounting at association level (C11): the per-stream byte counters stay exact along every
association run, so `getMyReceiverWindowCredit` is the configured buffer minus the user bytes held by the
REGISTERED streams (clamped at 0); the user bytes held by all stream objects never grow except by a DATA chunk
that `canPush` admits (inside the tracking window) and that either finds credit or fills a gap below the highest
TSN received.
-/
namespace Receiver
open Gen

/-! ### exact counters -/

theorem cinv_gpres : GPres (fun b q => b < 2^63 → Reasm.CInv q b) where
  new := fun si me _ => Reasm.CInv_new si me
  mono := by
    intro b b' q hb h hb'
    obtain ⟨h1, h2⟩ := h (by omega)
    exact ⟨h1, by omega⟩
  step := by
    intro b q op h hb
    exact Reasm.CInv_step (h (by omega)) op hb

/-- every stream object's counter is the truth (and below 2^63) -/
def Exact (s : St) : Prop := AllQ (fun q => q.nBytes.toNat = q.heldBytes ∧ q.heldBytes < 2^63) s

/-- ✱ along any op list whose DATA chunks carry fewer than 2^63 user bytes in total, every stream's byte counter
equals the user bytes held in its reassembly structures -/
theorem run_exact (a b : BitVec 32) (c d e : Bool) (f : Int) (t : TSN) (ops : List Op)
    (h : (ops.map opBytes).sum < 2^63) : Exact (run (init a b c d e f t) ops) := by
  have h0 : AllQ (fun q => (0 : Nat) < 2^63 → Reasm.CInv q 0) (init a b c d e f t) := init_allQ _ a b c d e f t
  have := run_allQ_g cinv_gpres ops (b := 0) h0
  simp only [Nat.zero_add] at this
  exact ⟨fun x hx => by obtain ⟨h1, h2⟩ := this.1 x hx h; exact ⟨h1, by omega⟩,
         fun x hx => by obtain ⟨h1, h2⟩ := this.2 x hx h; exact ⟨h1, by omega⟩⟩

/-! ### the credit -/

def sumHeld (l : List Stream) : Nat := (l.map heldOf).sum

theorem getNumBytes_exact (q : Reasm.Q) (h : q.nBytes.toNat = q.heldBytes ∧ q.heldBytes < 2^63) :
    q.getNumBytes = (q.heldBytes : Int) := by
  unfold Reasm.Q.getNumBytes
  rw [BitVec.toInt_eq_toNat_cond, if_pos (by omega), h.1]

theorem credit_fold (l : List Stream) (a : BitVec 32)
    (h : ∀ x ∈ l, x.q.nBytes.toNat = x.q.heldBytes ∧ x.q.heldBytes < 2^63) :
    l.foldl (fun acc x => acc + rwnd_addStream x.q.getNumBytes) a = a + BitVec.ofNat 32 (sumHeld l) := by
  induction l generalizing a with
  | nil => simp [sumHeld]
  | cons x l ih =>
    rw [List.foldl_cons, ih _ (fun y hy => h y (List.mem_cons_of_mem _ hy))]
    have hx := getNumBytes_exact x.q (h x List.mem_cons_self)
    simp only [rwnd_addStream, hx, sumHeld, List.map_cons, List.sum_cons, heldOf]
    rw [BitVec.add_assoc]
    congr 1
    rw [show BitVec.ofInt 32 (x.q.heldBytes : Int) = BitVec.ofNat 32 x.q.heldBytes from by
      apply BitVec.eq_of_toNat_eq; simp]
    rw [← BitVec.ofNat_add]

/-- ✱ `getMyReceiverWindowCredit` = configured buffer ∸ user bytes held by the registered streams -/
theorem credit_eq (s : St) (hex : ∀ x ∈ s.streams, x.q.nBytes.toNat = x.q.heldBytes ∧ x.q.heldBytes < 2^63)
    (hsum : heldRegistered s < 2^32) : (credit s).toNat = s.maxBuf.toNat - heldRegistered s := by
  unfold credit
  dsimp only
  rw [credit_fold _ _ hex]
  have hs : sumHeld s.streams = heldRegistered s := rfl
  rw [hs]
  have hv : ((0#32) + BitVec.ofNat 32 (heldRegistered s)).toNat = heldRegistered s := by
    simp [Nat.mod_eq_of_lt hsum]
  by_cases hge : s.maxBuf.toNat ≤ heldRegistered s
  · have hd : rwnd_exhausted (0#32 + BitVec.ofNat 32 (heldRegistered s)) s.maxBuf = true := by
      simp only [rwnd_exhausted]
      exact decide_eq_true (by rw [ge_iff_le, BitVec.le_def, hv]; exact hge)
    rw [if_pos hd]
    simp; omega
  · have hd : ¬ rwnd_exhausted (0#32 + BitVec.ofNat 32 (heldRegistered s)) s.maxBuf = true := by
      simp only [rwnd_exhausted]
      intro hc
      have := of_decide_eq_true hc
      rw [ge_iff_le, BitVec.le_def, hv] at this
      exact hge this
    rw [if_neg hd]
    simp only [rwnd_credit]
    rw [BitVec.toNat_sub, hv]
    have := s.maxBuf.isLt
    omega


/-! ### user bytes held by ALL stream objects -/

/-- user bytes held by every stream object, registered or already deleted from the table -/
def heldAll (s : St) : Nat := sumHeld s.streams + sumHeld s.gone

@[simp] theorem sumHeld_nil : sumHeld [] = 0 := rfl
@[simp] theorem sumHeld_cons (x : Stream) (l : List Stream) : sumHeld (x :: l) = x.q.heldBytes + sumHeld l := by
  simp [sumHeld, heldOf]
@[simp] theorem sumHeld_append (a b : List Stream) : sumHeld (a ++ b) = sumHeld a + sumHeld b := by
  simp [sumHeld]

theorem sumHeld_filter_le (p : Stream → Bool) (l : List Stream) : sumHeld (l.filter p) ≤ sumHeld l := by
  induction l with
  | nil => simp
  | cons x l ih => simp only [List.filter_cons]; split <;> simp <;> omega

theorem sumHeld_filter_add_le (p : Stream → Bool) (l : List Stream) (x : Stream) (hx : x ∈ l) (hp : p x = false) :
    sumHeld (l.filter p) + x.q.heldBytes ≤ sumHeld l := by
  induction l with
  | nil => simp at hx
  | cons y l ih =>
    simp only [List.mem_cons] at hx
    rcases hx with rfl | hx
    · simp only [List.filter_cons, hp, Bool.false_eq_true, if_false, sumHeld_cons]
      have := sumHeld_filter_le p l; omega
    · have := ih hx
      simp only [List.filter_cons]; split <;> simp <;> omega

theorem heldBytes_new (si : BitVec 16) (me : BitVec 32) : (Reasm.new si me).heldBytes = 0 := by
  simp [Reasm.new, Reasm.Q.heldBytes]

theorem createStream_heldAll (s : St) (si : BitVec 16) (a : Bool) : heldAll (createStream s si a).1 = heldAll s := by
  rcases createStream_cases s si a with ⟨e, _⟩ | ⟨strm, hq, _, _, hs, hg, _, _⟩
  · rw [e]
  · simp only [heldAll, hs, hg, sumHeld_append, sumHeld_cons, sumHeld_nil, hq, heldBytes_new]; omega

theorem getOrCreateStream_heldAll (s : St) (si : BitVec 16) (a : Bool) : heldAll (getOrCreateStream s si a).1 = heldAll s := by
  unfold getOrCreateStream; split; rfl; exact createStream_heldAll s si a

theorem unregister_heldAll (s : St) (id : BitVec 16) : heldAll (unregister s id) ≤ heldAll s := by
  unfold unregister
  split
  · exact Nat.le_refl _
  · rename_i x hx
    obtain ⟨hm, hsi⟩ := getS_mem hx
    have := sumHeld_filter_add_le (fun y => y.si != id) s.streams x hm (by simp [hsi])
    simp only [heldAll, sumHeld_append, sumHeld_cons, sumHeld_nil]
    omega

theorem foldl_unregister_heldAll (ids : List (BitVec 16)) (s : St) : heldAll (ids.foldl unregister s) ≤ heldAll s := by
  induction ids generalizing s with
  | nil => exact Nat.le_refl _
  | cons id ids ih => exact Nat.le_trans (ih _) (unregister_heldAll s id)

theorem resetStreamsIfAny_heldAll (s : St) (r : ResetReq) : heldAll (resetStreamsIfAny s r) ≤ heldAll s := by
  unfold resetStreamsIfAny
  split
  · exact foldl_unregister_heldAll r.ids s
  · exact Nat.le_refl _

theorem foldl_reset_heldAll (rs : List ResetReq) (s : St) : heldAll (rs.foldl resetStreamsIfAny s) ≤ heldAll s := by
  induction rs generalizing s with
  | nil => exact Nat.le_refl _
  | cons r rs ih => exact Nat.le_trans (ih _) (resetStreamsIfAny_heldAll s r)

theorem popLoop_heldAll (n : Nat) (s : St) : heldAll (popLoop n s) ≤ heldAll s := by
  induction n generalizing s with
  | zero => exact Nat.le_refl _
  | succ n ih =>
    simp only [popLoop]
    split
    · exact Nat.le_trans (ih _) (foldl_reset_heldAll _ { s with pq := _ })
    · exact Nat.le_refl _

theorem ackStep_heldAll (s : St) (b : Bool) : heldAll (ackStep s b) ≤ heldAll s := by
  have := popLoop_heldAll s.pq.size.toNat s
  unfold ackStep
  dsimp only
  repeat' split
  all_goals exact this

/-- replacing the queue of the entry `getS` finds -/
theorem sumHeld_setQ (l : List Stream) (si : BitVec 16) (f : Reasm.Q → Reasm.Q) (x : Stream) (h : getS l si = some x) :
    sumHeld (setQ l si f) + x.q.heldBytes = sumHeld l + (f x.q).heldBytes := by
  induction l with
  | nil => simp [getS] at h
  | cons y l ih =>
    simp only [getS, List.find?_cons] at h
    simp only [setQ]
    split at h
    · rename_i hy
      cases h
      simp only [hy, if_true, sumHeld_cons]; omega
    · rename_i hy
      have hy' : (y.si == si) = false := by simpa using hy
      simp only [hy', Bool.false_eq_true, if_false, sumHeld_cons]
      have := ih h
      omega

theorem sumHeld_setQ_none (l : List Stream) (si : BitVec 16) (f : Reasm.Q → Reasm.Q) (h : getS l si = none) :
    setQ l si f = l := by
  induction l with
  | nil => rfl
  | cons y l ih =>
    simp only [getS, List.find?_cons] at h
    split at h
    · cases h
    · rename_i hy
      have hy' : (y.si == si) = false := by simpa using hy
      simp only [setQ, hy', Bool.false_eq_true, if_false]
      rw [ih h]

/-- `pushPayloadDataToStream` adds at most the chunk's user bytes -/
theorem pushToStream_heldAll (s : St) (c : Reasm.Chunk) : heldAll (pushToStream s c).1 ≤ heldAll s + c.len := by
  unfold pushToStream
  dsimp only
  split
  · simp only [heldAll]; omega
  · rename_i x hx
    have he := (Reasm.pushWithError_effect x.q c).bytes
    have hs := sumHeld_setQ s.streams c.si (fun _ => (x.q.pushWithError c).1) x hx
    have key : sumHeld (setQ s.streams c.si (fun _ => (x.q.pushWithError c).1)) + sumHeld s.gone ≤
        sumHeld s.streams + sumHeld s.gone + c.len := by
      rcases he with ⟨h1, _⟩ | ⟨h1, _⟩ <;> omega
    split <;> exact key

/-- ✱ what `handleData` may do to the user bytes held: nothing, unless `canPush` admits the TSN and
`acceptPayloadData` stores the chunk (`stores`); then at most the chunk's bytes are added -/
theorem handleData_heldAll (s : St) (c : Reasm.Chunk) (imm : Bool) :
    heldAll (handleData s c imm) ≤ heldAll s + (if RecvQ.canPush s.pq c.tsn && stores s c then c.len else 0) := by
  unfold handleData
  dsimp only
  split
  · omega
  · split
    · simp only [abortPV, heldAll]; omega
    · have hacc : heldAll (acceptPayloadData s c).1 ≤ heldAll s + (if stores s c then c.len else 0) := by
        unfold acceptPayloadData stores
        have hg := getOrCreateStream_heldAll s c.si true
        rcases hgo : getOrCreateStream s c.si true with ⟨s', o⟩
        rw [hgo] at hg
        cases o with
        | none => simp only [Bool.false_eq_true, if_false]; simpa using Nat.le_of_eq hg
        | some x =>
          dsimp only at hg ⊢
          have hp := pushToStream_heldAll s' c
          by_cases hc : accept_hasCredit (credit s') = true
          · simp only [hc, if_true, Bool.true_or]; omega
          · have hc' : accept_hasCredit (credit s') = false := by simpa using hc
            simp only [hc', Bool.false_eq_true, if_false, Bool.false_or]
            by_cases hd : accept_dropAtFullBuffer (RecvQ.lastTSN s'.pq).isSome c.tsn ((RecvQ.lastTSN s'.pq).getD 0) = true
            · simp only [hd, if_true, Bool.not_true, Bool.false_eq_true, if_false]; omega
            · have hd' : accept_dropAtFullBuffer (RecvQ.lastTSN s'.pq).isSome c.tsn ((RecvQ.lastTSN s'.pq).getD 0) = false := by
                simpa using hd
              simp only [hd', Bool.false_eq_true, if_false, Bool.not_false, if_true]; omega
      by_cases hcp : RecvQ.canPush s.pq c.tsn = true
      · simp only [hcp, if_true, Bool.true_and]
        have h1 := ackStep_heldAll (acceptPayloadData s c).1
        generalize (if stores s c = true then c.len else 0) = k at hacc ⊢
        split
        · split
          · exact Nat.le_trans (h1 _) hacc
          · exact hacc
        · exact Nat.le_trans (h1 _) hacc
      · have hcp' : RecvQ.canPush s.pq c.tsn = false := by simpa using hcp
        simp only [hcp', Bool.false_and, Bool.false_eq_true, if_false, Nat.add_zero]
        have h1 := ackStep_heldAll s
        split
        · split
          · exact h1 _
          · exact Nat.le_refl _
        · exact h1 _


/-! ### the credit does not see a freshly created stream; reachable receive queues satisfy the queue invariant -/

theorem getNumBytes_new (si : BitVec 16) (me : BitVec 32) : (Reasm.new si me).getNumBytes = 0 := by
  simp [Reasm.new, Reasm.Q.getNumBytes]

theorem credit_createStream (s : St) (si : BitVec 16) (a : Bool) : credit (createStream s si a).1 = credit s := by
  rcases createStream_cases s si a with ⟨e, _⟩ | ⟨strm, hq, _, _, hs, _, _, _⟩
  · rw [e]
  · have hmb : (createStream s si a).1.maxBuf = s.maxBuf := createStream_maxBuf s si a
    unfold credit
    dsimp only
    rw [hs, hmb, List.foldl_append]
    have : ∀ acc : BitVec 32, List.foldl (fun acc x => acc + rwnd_addStream x.q.getNumBytes) acc [strm] = acc := by
      intro acc; simp [hq, getNumBytes_new, rwnd_addStream]
    rw [this]

theorem credit_getOrCreateStream (s : St) (si : BitVec 16) (a : Bool) : credit (getOrCreateStream s si a).1 = credit s := by
  unfold getOrCreateStream; split; rfl; exact credit_createStream s si a

theorem lastTSN_getOrCreateStream (s : St) (si : BitVec 16) (a : Bool) :
    RecvQ.lastTSN (getOrCreateStream s si a).1.pq = RecvQ.lastTSN s.pq := by
  rw [getOrCreateStream_pq]

/-- ✱ what `stores` means: a stream object is available, and there is credit or the TSN is serially below the
highest TSN received -/
theorem stores_iff (s : St) (c : Reasm.Chunk) :
    stores s c = true ↔ (getOrCreateStream s c.si true).2.isSome = true ∧
      ((credit s).toNat > 0 ∨ ∃ last, RecvQ.lastTSN s.pq = some last ∧ sna32LT c.tsn last = true) := by
  have hc := credit_getOrCreateStream s c.si true
  have hl := lastTSN_getOrCreateStream s c.si true
  unfold stores
  rcases hgo : getOrCreateStream s c.si true with ⟨s', o⟩
  rw [hgo] at hc hl
  dsimp only at hc hl
  cases o with
  | none => simp
  | some x =>
    simp only [Option.isSome_some, true_and, hc, hl, accept_hasCredit, accept_dropAtFullBuffer, Bool.or_eq_true,
      decide_eq_true_eq, Bool.not_eq_true', Bool.or_eq_false_iff, Bool.not_eq_false']
    constructor
    · rintro (h | ⟨h1, h2⟩)
      · left; exact BitVec.lt_def.mp h
      · right
        cases hlast : RecvQ.lastTSN s.pq with
        | none => rw [hlast] at h1; simp at h1
        | some last => rw [hlast] at h2; exact ⟨last, rfl, by simpa using h2⟩
    · rintro (h | ⟨last, h1, h2⟩)
      · left; exact BitVec.lt_def.mpr h
      · right; rw [h1]; simp [h2]

theorem run_pq_inv (a b : BitVec 32) (c d e : Bool) (f : Int) (t : TSN) (ops : List Op) :
    RecvQ.Inv (run (init a b c d e f t) ops).pq ∧ (run (init a b c d e f t) ops).pq.maxOff.toNat ≤ 40000 := by
  have hq : (run (init a b c d e f t) ops).pq =
      (RecvQ.run (RecvQ.start (getMaxTSNOffset a) (t - 1)) (runTrace (init a b c d e f t) ops)).q := by
    rw [run_pq, qrun_eq _ (RecvQ.start (getMaxTSNOffset a) (t - 1)).h]; rfl
  rw [hq]
  refine ⟨(RecvQ.run_ginv (RecvQ.start_ginv _ _) _).inv, ?_⟩
  rw [RecvQ.run_maxOff, RecvQ.start_maxOff]
  exact RecvQ.round_le _ (RecvQ.getMaxTSNOffset_le a)

end Receiver
