import SctpVerif.Proofs.Receiver.Cfg
/-! Frame lemmas (generated text): which handlers leave the ack state, the ack timer and the two per-packet
trigger flags alone. -/
namespace Receiver
open Gen

@[simp] theorem createStream_ackState (s : St) (si : BitVec 16) (a : Bool) : ((createStream s si a).1).ackState = s.ackState := by
  unfold createStream; repeat' split
  all_goals first | rfl | simp

@[simp] theorem getOrCreateStream_ackState (s : St) (si : BitVec 16) (a : Bool) : ((getOrCreateStream s si a).1).ackState = s.ackState := by
  unfold getOrCreateStream; split <;> simp

@[simp] theorem abortPV_ackState (s : St) : (abortPV s).ackState = s.ackState := by
  rfl

@[simp] theorem unregister_ackState (s : St) (id : BitVec 16) : (unregister s id).ackState = s.ackState := by
  unfold unregister; split <;> rfl

@[simp] theorem foldl_unregister_ackState (ids : List (BitVec 16)) (s : St) : (ids.foldl unregister s).ackState = s.ackState := by
  induction ids generalizing s with
  | nil => rfl
  | cons id ids ih => simp [ih]

@[simp] theorem rememberPerformed_ackState (s : St) (rsn : BitVec 32) : (rememberPerformed s rsn).ackState = s.ackState := by
  rfl

@[simp] theorem resetStreamsIfAny_ackState (s : St) (r : ResetReq) : (resetStreamsIfAny s r).ackState = s.ackState := by
  unfold resetStreamsIfAny; split <;> simp

@[simp] theorem foldl_reset_ackState (rs : List ResetReq) (s : St) : (rs.foldl resetStreamsIfAny s).ackState = s.ackState := by
  induction rs generalizing s with
  | nil => rfl
  | cons r rs ih => simp [ih]

@[simp] theorem handleResetReq_ackState (s : St) (r : ResetReq) : (handleResetReq s r).ackState = s.ackState := by
  unfold handleResetReq; repeat' split
  all_goals first | rfl | simp

@[simp] theorem popLoop_ackState (n : Nat) (s : St) : (popLoop n s).ackState = s.ackState := by
  induction n generalizing s with
  | zero => rfl
  | succ n ih => simp only [popLoop]; split <;> simp [ih]

@[simp] theorem ackStep_ackState (s : St) (b : Bool) : (ackStep s b).ackState = s.ackState := by
  unfold ackStep; dsimp only; repeat' split
  all_goals simp

@[simp] theorem pushToStream_ackState (s : St) (c : Reasm.Chunk) : ((pushToStream s c).1).ackState = s.ackState := by
  unfold pushToStream; dsimp only; repeat' split
  all_goals first | rfl | simp

@[simp] theorem acceptPayloadData_ackState (s : St) (c : Reasm.Chunk) : ((acceptPayloadData s c).1).ackState = s.ackState := by
  unfold acceptPayloadData
  split
  · rename_i s' heq; have := getOrCreateStream_ackState s c.si true; rw [heq] at this; exact this
  · rename_i s' x heq; have := getOrCreateStream_ackState s c.si true; rw [heq] at this
    dsimp only at this ⊢; repeat' split
    all_goals simp [this]

@[simp] theorem handleData_ackState (s : St) (c : Reasm.Chunk) (imm : Bool) : (handleData s c imm).ackState = s.ackState := by
  unfold handleData; dsimp only; repeat' split
  all_goals first | rfl | simp

@[simp] theorem fwdEntry_ackState (s : St) (e : BitVec 16 × BitVec 16) : (fwdEntry s e).ackState = s.ackState := by
  unfold fwdEntry; dsimp only; repeat' split
  all_goals first | rfl | simp

@[simp] theorem foldl_fwdEntry_ackState (es : List (BitVec 16 × BitVec 16)) (s : St) : (es.foldl fwdEntry s).ackState = s.ackState := by
  induction es generalizing s with
  | nil => rfl
  | cons e es ih => simp [ih]

@[simp] theorem ifwdEntry_ackState (s : St) (e : BitVec 16 × Bool × BitVec 32) : (ifwdEntry s e).ackState = s.ackState := by
  unfold ifwdEntry; dsimp only; repeat' split
  all_goals first | rfl | simp

@[simp] theorem foldl_ifwdEntry_ackState (es : List (BitVec 16 × Bool × BitVec 32)) (s : St) : (es.foldl ifwdEntry s).ackState = s.ackState := by
  induction es generalizing s with
  | nil => rfl
  | cons e es ih => simp [ih]

@[simp] theorem chunksStart_ackState (s : St) : (chunksStart s).ackState = s.ackState := by
  rfl

@[simp] theorem read_ackState (s : St) (n : Name) (b : Nat) : ((read s n b).1).ackState = s.ackState := by
  unfold read; repeat' split
  all_goals rfl

@[simp] theorem accept_ackState (s : St) : ((accept s).1).ackState = s.ackState := by
  unfold accept; split <;> rfl

@[simp] theorem openStream_ackState (s : St) (si : BitVec 16) : ((openStream s si).1).ackState = s.ackState := by
  unfold openStream; split <;> simp

@[simp] theorem createStream_timer (s : St) (si : BitVec 16) (a : Bool) : ((createStream s si a).1).timer = s.timer := by
  unfold createStream; repeat' split
  all_goals first | rfl | simp

@[simp] theorem getOrCreateStream_timer (s : St) (si : BitVec 16) (a : Bool) : ((getOrCreateStream s si a).1).timer = s.timer := by
  unfold getOrCreateStream; split <;> simp

@[simp] theorem abortPV_timer (s : St) : (abortPV s).timer = s.timer := by
  rfl

@[simp] theorem unregister_timer (s : St) (id : BitVec 16) : (unregister s id).timer = s.timer := by
  unfold unregister; split <;> rfl

@[simp] theorem foldl_unregister_timer (ids : List (BitVec 16)) (s : St) : (ids.foldl unregister s).timer = s.timer := by
  induction ids generalizing s with
  | nil => rfl
  | cons id ids ih => simp [ih]

@[simp] theorem rememberPerformed_timer (s : St) (rsn : BitVec 32) : (rememberPerformed s rsn).timer = s.timer := by
  rfl

@[simp] theorem resetStreamsIfAny_timer (s : St) (r : ResetReq) : (resetStreamsIfAny s r).timer = s.timer := by
  unfold resetStreamsIfAny; split <;> simp

@[simp] theorem foldl_reset_timer (rs : List ResetReq) (s : St) : (rs.foldl resetStreamsIfAny s).timer = s.timer := by
  induction rs generalizing s with
  | nil => rfl
  | cons r rs ih => simp [ih]

@[simp] theorem handleResetReq_timer (s : St) (r : ResetReq) : (handleResetReq s r).timer = s.timer := by
  unfold handleResetReq; repeat' split
  all_goals first | rfl | simp

@[simp] theorem popLoop_timer (n : Nat) (s : St) : (popLoop n s).timer = s.timer := by
  induction n generalizing s with
  | zero => rfl
  | succ n ih => simp only [popLoop]; split <;> simp [ih]

@[simp] theorem ackStep_timer (s : St) (b : Bool) : (ackStep s b).timer = s.timer := by
  unfold ackStep; dsimp only; repeat' split
  all_goals simp

@[simp] theorem pushToStream_timer (s : St) (c : Reasm.Chunk) : ((pushToStream s c).1).timer = s.timer := by
  unfold pushToStream; dsimp only; repeat' split
  all_goals first | rfl | simp

@[simp] theorem acceptPayloadData_timer (s : St) (c : Reasm.Chunk) : ((acceptPayloadData s c).1).timer = s.timer := by
  unfold acceptPayloadData
  split
  · rename_i s' heq; have := getOrCreateStream_timer s c.si true; rw [heq] at this; exact this
  · rename_i s' x heq; have := getOrCreateStream_timer s c.si true; rw [heq] at this
    dsimp only at this ⊢; repeat' split
    all_goals simp [this]

@[simp] theorem handleData_timer (s : St) (c : Reasm.Chunk) (imm : Bool) : (handleData s c imm).timer = s.timer := by
  unfold handleData; dsimp only; repeat' split
  all_goals first | rfl | simp

@[simp] theorem fwdEntry_timer (s : St) (e : BitVec 16 × BitVec 16) : (fwdEntry s e).timer = s.timer := by
  unfold fwdEntry; dsimp only; repeat' split
  all_goals first | rfl | simp

@[simp] theorem foldl_fwdEntry_timer (es : List (BitVec 16 × BitVec 16)) (s : St) : (es.foldl fwdEntry s).timer = s.timer := by
  induction es generalizing s with
  | nil => rfl
  | cons e es ih => simp [ih]

@[simp] theorem ifwdEntry_timer (s : St) (e : BitVec 16 × Bool × BitVec 32) : (ifwdEntry s e).timer = s.timer := by
  unfold ifwdEntry; dsimp only; repeat' split
  all_goals first | rfl | simp

@[simp] theorem foldl_ifwdEntry_timer (es : List (BitVec 16 × Bool × BitVec 32)) (s : St) : (es.foldl ifwdEntry s).timer = s.timer := by
  induction es generalizing s with
  | nil => rfl
  | cons e es ih => simp [ih]

@[simp] theorem chunksStart_timer (s : St) : (chunksStart s).timer = s.timer := by
  rfl

@[simp] theorem read_timer (s : St) (n : Name) (b : Nat) : ((read s n b).1).timer = s.timer := by
  unfold read; repeat' split
  all_goals rfl

@[simp] theorem accept_timer (s : St) : ((accept s).1).timer = s.timer := by
  unfold accept; split <;> rfl

@[simp] theorem openStream_timer (s : St) (si : BitVec 16) : ((openStream s si).1).timer = s.timer := by
  unfold openStream; split <;> simp

@[simp] theorem createStream_immTrig (s : St) (si : BitVec 16) (a : Bool) : ((createStream s si a).1).immTrig = s.immTrig := by
  unfold createStream; repeat' split
  all_goals first | rfl | simp

@[simp] theorem getOrCreateStream_immTrig (s : St) (si : BitVec 16) (a : Bool) : ((getOrCreateStream s si a).1).immTrig = s.immTrig := by
  unfold getOrCreateStream; split <;> simp

@[simp] theorem abortPV_immTrig (s : St) : (abortPV s).immTrig = s.immTrig := by
  rfl

@[simp] theorem unregister_immTrig (s : St) (id : BitVec 16) : (unregister s id).immTrig = s.immTrig := by
  unfold unregister; split <;> rfl

@[simp] theorem foldl_unregister_immTrig (ids : List (BitVec 16)) (s : St) : (ids.foldl unregister s).immTrig = s.immTrig := by
  induction ids generalizing s with
  | nil => rfl
  | cons id ids ih => simp [ih]

@[simp] theorem rememberPerformed_immTrig (s : St) (rsn : BitVec 32) : (rememberPerformed s rsn).immTrig = s.immTrig := by
  rfl

@[simp] theorem resetStreamsIfAny_immTrig (s : St) (r : ResetReq) : (resetStreamsIfAny s r).immTrig = s.immTrig := by
  unfold resetStreamsIfAny; split <;> simp

@[simp] theorem foldl_reset_immTrig (rs : List ResetReq) (s : St) : (rs.foldl resetStreamsIfAny s).immTrig = s.immTrig := by
  induction rs generalizing s with
  | nil => rfl
  | cons r rs ih => simp [ih]

@[simp] theorem handleResetReq_immTrig (s : St) (r : ResetReq) : (handleResetReq s r).immTrig = s.immTrig := by
  unfold handleResetReq; repeat' split
  all_goals first | rfl | simp

@[simp] theorem popLoop_immTrig (n : Nat) (s : St) : (popLoop n s).immTrig = s.immTrig := by
  induction n generalizing s with
  | zero => rfl
  | succ n ih => simp only [popLoop]; split <;> simp [ih]

@[simp] theorem pushToStream_immTrig (s : St) (c : Reasm.Chunk) : ((pushToStream s c).1).immTrig = s.immTrig := by
  unfold pushToStream; dsimp only; repeat' split
  all_goals first | rfl | simp

@[simp] theorem acceptPayloadData_immTrig (s : St) (c : Reasm.Chunk) : ((acceptPayloadData s c).1).immTrig = s.immTrig := by
  unfold acceptPayloadData
  split
  · rename_i s' heq; have := getOrCreateStream_immTrig s c.si true; rw [heq] at this; exact this
  · rename_i s' x heq; have := getOrCreateStream_immTrig s c.si true; rw [heq] at this
    dsimp only at this ⊢; repeat' split
    all_goals simp [this]

@[simp] theorem staleFwd_immTrig (s : St) : (staleFwd s).immTrig = s.immTrig := by
  rfl

@[simp] theorem fwdEntry_immTrig (s : St) (e : BitVec 16 × BitVec 16) : (fwdEntry s e).immTrig = s.immTrig := by
  unfold fwdEntry; dsimp only; repeat' split
  all_goals first | rfl | simp

@[simp] theorem foldl_fwdEntry_immTrig (es : List (BitVec 16 × BitVec 16)) (s : St) : (es.foldl fwdEntry s).immTrig = s.immTrig := by
  induction es generalizing s with
  | nil => rfl
  | cons e es ih => simp [ih]

@[simp] theorem ifwdEntry_immTrig (s : St) (e : BitVec 16 × Bool × BitVec 32) : (ifwdEntry s e).immTrig = s.immTrig := by
  unfold ifwdEntry; dsimp only; repeat' split
  all_goals first | rfl | simp

@[simp] theorem foldl_ifwdEntry_immTrig (es : List (BitVec 16 × Bool × BitVec 32)) (s : St) : (es.foldl ifwdEntry s).immTrig = s.immTrig := by
  induction es generalizing s with
  | nil => rfl
  | cons e es ih => simp [ih]

@[simp] theorem chunksEnd_immTrig (s : St) : (chunksEnd s).immTrig = s.immTrig := by
  unfold chunksEnd; repeat' split
  all_goals rfl

@[simp] theorem read_immTrig (s : St) (n : Name) (b : Nat) : ((read s n b).1).immTrig = s.immTrig := by
  unfold read; repeat' split
  all_goals rfl

@[simp] theorem accept_immTrig (s : St) : ((accept s).1).immTrig = s.immTrig := by
  unfold accept; split <;> rfl

@[simp] theorem openStream_immTrig (s : St) (si : BitVec 16) : ((openStream s si).1).immTrig = s.immTrig := by
  unfold openStream; split <;> simp

@[simp] theorem gather_immTrig (s : St) : ((gather s).1).immTrig = s.immTrig := by
  unfold gather; dsimp only; repeat' split
  all_goals first | rfl | simp [createSack]

@[simp] theorem tick_immTrig (s : St) (d : Nat) : (tick s d).immTrig = s.immTrig := by
  unfold tick; dsimp only; repeat' split
  all_goals first | rfl | simp [ackTimeout]

@[simp] theorem createStream_delTrig (s : St) (si : BitVec 16) (a : Bool) : ((createStream s si a).1).delTrig = s.delTrig := by
  unfold createStream; repeat' split
  all_goals first | rfl | simp

@[simp] theorem getOrCreateStream_delTrig (s : St) (si : BitVec 16) (a : Bool) : ((getOrCreateStream s si a).1).delTrig = s.delTrig := by
  unfold getOrCreateStream; split <;> simp

@[simp] theorem abortPV_delTrig (s : St) : (abortPV s).delTrig = s.delTrig := by
  rfl

@[simp] theorem unregister_delTrig (s : St) (id : BitVec 16) : (unregister s id).delTrig = s.delTrig := by
  unfold unregister; split <;> rfl

@[simp] theorem foldl_unregister_delTrig (ids : List (BitVec 16)) (s : St) : (ids.foldl unregister s).delTrig = s.delTrig := by
  induction ids generalizing s with
  | nil => rfl
  | cons id ids ih => simp [ih]

@[simp] theorem rememberPerformed_delTrig (s : St) (rsn : BitVec 32) : (rememberPerformed s rsn).delTrig = s.delTrig := by
  rfl

@[simp] theorem resetStreamsIfAny_delTrig (s : St) (r : ResetReq) : (resetStreamsIfAny s r).delTrig = s.delTrig := by
  unfold resetStreamsIfAny; split <;> simp

@[simp] theorem foldl_reset_delTrig (rs : List ResetReq) (s : St) : (rs.foldl resetStreamsIfAny s).delTrig = s.delTrig := by
  induction rs generalizing s with
  | nil => rfl
  | cons r rs ih => simp [ih]

@[simp] theorem handleResetReq_delTrig (s : St) (r : ResetReq) : (handleResetReq s r).delTrig = s.delTrig := by
  unfold handleResetReq; repeat' split
  all_goals first | rfl | simp

@[simp] theorem popLoop_delTrig (n : Nat) (s : St) : (popLoop n s).delTrig = s.delTrig := by
  induction n generalizing s with
  | zero => rfl
  | succ n ih => simp only [popLoop]; split <;> simp [ih]

@[simp] theorem pushToStream_delTrig (s : St) (c : Reasm.Chunk) : ((pushToStream s c).1).delTrig = s.delTrig := by
  unfold pushToStream; dsimp only; repeat' split
  all_goals first | rfl | simp

@[simp] theorem acceptPayloadData_delTrig (s : St) (c : Reasm.Chunk) : ((acceptPayloadData s c).1).delTrig = s.delTrig := by
  unfold acceptPayloadData
  split
  · rename_i s' heq; have := getOrCreateStream_delTrig s c.si true; rw [heq] at this; exact this
  · rename_i s' x heq; have := getOrCreateStream_delTrig s c.si true; rw [heq] at this
    dsimp only at this ⊢; repeat' split
    all_goals simp [this]

@[simp] theorem staleFwd_delTrig (s : St) : (staleFwd s).delTrig = s.delTrig := by
  rfl

@[simp] theorem fwdEntry_delTrig (s : St) (e : BitVec 16 × BitVec 16) : (fwdEntry s e).delTrig = s.delTrig := by
  unfold fwdEntry; dsimp only; repeat' split
  all_goals first | rfl | simp

@[simp] theorem foldl_fwdEntry_delTrig (es : List (BitVec 16 × BitVec 16)) (s : St) : (es.foldl fwdEntry s).delTrig = s.delTrig := by
  induction es generalizing s with
  | nil => rfl
  | cons e es ih => simp [ih]

@[simp] theorem ifwdEntry_delTrig (s : St) (e : BitVec 16 × Bool × BitVec 32) : (ifwdEntry s e).delTrig = s.delTrig := by
  unfold ifwdEntry; dsimp only; repeat' split
  all_goals first | rfl | simp

@[simp] theorem foldl_ifwdEntry_delTrig (es : List (BitVec 16 × Bool × BitVec 32)) (s : St) : (es.foldl ifwdEntry s).delTrig = s.delTrig := by
  induction es generalizing s with
  | nil => rfl
  | cons e es ih => simp [ih]

@[simp] theorem chunksEnd_delTrig (s : St) : (chunksEnd s).delTrig = s.delTrig := by
  unfold chunksEnd; repeat' split
  all_goals rfl

@[simp] theorem read_delTrig (s : St) (n : Name) (b : Nat) : ((read s n b).1).delTrig = s.delTrig := by
  unfold read; repeat' split
  all_goals rfl

@[simp] theorem accept_delTrig (s : St) : ((accept s).1).delTrig = s.delTrig := by
  unfold accept; split <;> rfl

@[simp] theorem openStream_delTrig (s : St) (si : BitVec 16) : ((openStream s si).1).delTrig = s.delTrig := by
  unfold openStream; split <;> simp

@[simp] theorem gather_delTrig (s : St) : ((gather s).1).delTrig = s.delTrig := by
  unfold gather; dsimp only; repeat' split
  all_goals first | rfl | simp [createSack]

@[simp] theorem tick_delTrig (s : St) (d : Nat) : (tick s d).delTrig = s.delTrig := by
  unfold tick; dsimp only; repeat' split
  all_goals first | rfl | simp [ackTimeout]

end Receiver
