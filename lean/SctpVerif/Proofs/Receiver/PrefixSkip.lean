import SctpVerif.Proofs.Receiver.PrefixSkipQ
import SctpVerif.Proofs.NetSys.PRRcv
/-!
The receive-side simulation of `Proofs/Receiver/Prefix.lean` redone WITH skips, for ordered DATA: the association next to
the ghost receive queue (accepted / skipped TSN indices, `ReceiverPR.RInv`) and, for the stream under study, the
refinement `Reasm.SkipInv` of its reassembly queue (table of messages held, fragments handed over `P`, messages
delivered `D`). Inbound chunks: DATA fragments of the universe and FORWARD-TSN chunks.
Window: fewer than 2^15 messages on the stream in all (the table is anchored at floor 0).
-/
namespace Receiver
open Gen

/-! ### ghosts of a receiver run: the TSNs `handleData` hands to `pushPayloadDataToStream` -/

def pushedC : St → List InChunk → List TSN
  | _, [] => []
  | s, ch :: cs => (match ch with | .data c _ => if pushes s c then [c.tsn] else [] | _ => []) ++ pushedC (handleChunk s ch) cs

def pushedO (s : St) : Op → List TSN
  | .pkt cs => pushedC (chunksStart s) cs
  | _ => []

def pushedT : St → List Op → List TSN
  | _, [] => []
  | s, op :: ops => pushedO s op ++ pushedT (step s op) ops

/-! ### the universe -/

structure UnivS where
  t : TSN
  N : Nat
  hN : N < 2^31
  senders : List Reasm.Sender
  wf : ∀ S ∈ senders, S.WF
  t0 : ∀ S ∈ senders, S.t0 = t
  idx : ∀ S ∈ senders, ∀ k i, k < S.msgs.length → i < S.nf k → S.base k + i < N
  si : ∀ S ∈ senders, ∀ S' ∈ senders, S'.si = S.si → S' = S

/-- a DATA fragment of the universe whose TSN names no other fragment of the stream under study, or a FORWARD-TSN whose
new cumulative TSN is one of the universe's -/
def GoodChunkS (U : UnivS) (S : Reasm.Sender) (ch : InChunk) : Prop :=
  (∃ S' ∈ U.senders, ∃ k i imm, k < S'.msgs.length ∧ i < S'.nf k ∧ ch = .data (S'.dataFrag k i) imm ∧
    ∀ k0 i0, k0 < S.msgs.length → i0 < S.nf k0 → (S.dataFrag k0 i0).tsn = (S'.dataFrag k i).tsn → S' = S ∧ k = k0 ∧ i = i0) ∨
  (∃ nc es n, ch = .fwd nc es ∧ n < U.N ∧ nc = U.t + BitVec.ofNat 32 n)

/-- the honest-sender premise of a FORWARD-TSN, seen from stream `S`: every entry naming the stream is the SSN of a message
`L` of the stream, and every message up to `L` that is not abandoned (`K`) has had all its fragments handed over (`G`) -/
def EntOk (S : Reasm.Sender) (K : Nat → Bool) (G : List TSN) (es : List (BitVec 16 × BitVec 16)) : Prop :=
  ∀ e ∈ es, e.1 = S.si → ∃ L, L < S.msgs.length ∧ e.2 = BitVec.ofNat 16 L ∧
    ∀ k, k < L + 1 → K k = false → ∀ i, i < S.nf k → (S.dataFrag k i).tsn ∈ G

/-! ### the simulation invariant -/

structure PS (U : UnivS) (S : Reasm.Sender) (K : Nat → Bool) (s : St) (R : RecvQ.St) (G : List TSN)
    (c : Nat) (A : Reasm.Tab) (P : List (Nat × Nat)) (D : List Nat) : Prop where
  nr : NoReset s
  tb : TblOK s
  rinv : ReceiverPR.RInv U.t s R U.N (fun _ => True) G
  gacc : ∀ x ∈ G, ∃ k, R.h.acc k ∧ x = U.t + BitVec.ofNat 32 (k - 1)
  sk : Reasm.SkipInv S K (qOf s S.si) 0 c A P D
  qne : Reasm.NoEmpty (qOf s S.si)
  qme : (qOf s S.si).maxEntries = 0
  pg : ∀ k i, k < S.msgs.length → i < S.nf k → ((k, i) ∈ P ↔ (S.dataFrag k i).tsn ∈ G)
  cl : c ≤ S.msgs.length

theorem chunk_acc_mono (s : St) (ch : InChunk) (R : RecvQ.St) (k : Nat) (h : R.h.acc k) :
    (RecvQ.run R (chunkTrace s ch)).h.acc k := by
  rcases chunkTrace_short s ch with e | ⟨op, e, hn⟩
  · rw [e]; exact h
  · rw [e, run_single]
    exact (RecvQ.step_sets_mono R op (fun c hc => by rw [hc] at hn; exact hn)).1 k h

theorem dataFrag_tsn (U : UnivS) {S : Reasm.Sender} (hS : S ∈ U.senders) (k i : Nat) :
    (S.dataFrag k i).tsn = U.t + BitVec.ofNat 32 (S.base k + i) := by
  simp only [Reasm.Sender.dataFrag, U.t0 S hS]

/-- a chunk that is handed to its stream: its index is accepted now and was not before -/
theorem data_acc {t0 : TSN} {s : St} {R : RecvQ.St} {N : Nat} {Ab : Nat → Prop} {G : List TSN}
    (h : ReceiverPR.RInv t0 s R N Ab G) (hN : N < 2^31) (c : Reasm.Chunk) (imm : Bool) (j : Nat) (hj : j < N)
    (htsn : c.tsn = t0 + BitVec.ofNat 32 j) (hp : pushes s c = true) :
    (RecvQ.run R (chunkTrace s (.data c imm))).h.acc (j + 1) ∧ ¬ R.h.acc (j + 1) := by
  have hne : c.userData ≠ [] := by
    intro e; simp [pushes, e] at hp
  have hemp : c.userData.isEmpty = false := by simpa using hne
  have e2 : chunkTrace s (.data c imm) = dataTrace s c := by simp [chunkTrace, hemp]
  rcases dataTrace_cases s c hne with ⟨hp', _⟩ | ⟨_, hcp, htr⟩
  · rw [hp] at hp'; cases hp'
  · have hcpR : RecvQ.canPush R.q c.tsn = true := by rw [← h.pq]; exact hcp
    have hidx := h.index hN c.tsn j hj htsn hcpR
    refine ⟨?_, ?_⟩
    · rw [e2]
      rcases htr with htr | htr
      · rw [htr, run_single]
        obtain ⟨_, _, c'⟩ := sData_ghost R c.tsn true
        have := (c' (j + 1)).mpr (Or.inr ⟨by simp [hcpR], hidx.symm⟩)
        exact this
      · rw [htr, run_single]
        obtain ⟨_, _, c'⟩ := sPush_ghost R c.tsn hcpR
        exact (c' (j + 1)).mpr (Or.inr hidx.symm)
    · intro hacc
      obtain ⟨hadm, hnh⟩ := (RecvQ.canPush_iff h.ginv.inv c.tsn).mp hcpR
      have hm := h.moff
      have hsm := (RecvQ.admissible_small (q := R.q) (by omega) c.tsn).mp hadm
      rw [← hidx] at hacc
      have := (h.ginv.hacc _ hsm.1).mp hacc
      exact hnh ((RecvQ.held_iff_heldAt c.tsn).mpr this)

theorem ofNat32_add_inj' (t : BitVec 32) {a b : Nat} (ha : a < 2^31) (hb : b < 2^31)
    (h : t + BitVec.ofNat 32 a = t + BitVec.ofNat 32 b) : a = b := by
  have e1 : (BitVec.ofNat 32 a).toNat = a := by simp; omega
  have e2 : (BitVec.ofNat 32 b).toNat = b := by simp; omega
  generalize BitVec.ofNat 32 a = x at e1 h
  generalize BitVec.ofNat 32 b = y at e2 h
  bv_omega

/-- ✱ a DATA chunk of the universe -/
theorem PS.dataStep {U : UnivS} {S : Reasm.Sender} {K s R G c A P D} (h : PS U S K s R G c A P D) (hS : S ∈ U.senders)
    (hlen : S.msgs.length < 2^15)
    (S' : Reasm.Sender) (hS' : S' ∈ U.senders) (k i : Nat) (imm : Bool) (hk : k < S'.msgs.length) (hi : i < S'.nf k)
    (hinj : ∀ k0 i0, k0 < S.msgs.length → i0 < S.nf k0 → (S.dataFrag k0 i0).tsn = (S'.dataFrag k i).tsn → S' = S ∧ k = k0 ∧ i = i0) :
    ∃ A' P', PS U S K (handleChunk s (.data (S'.dataFrag k i) imm)) (RecvQ.run R (chunkTrace s (.data (S'.dataFrag k i) imm)))
      (G ++ (if pushes s (S'.dataFrag k i) then [(S'.dataFrag k i).tsn] else [])) c A' P' D := by
  have hN := U.hN
  have hj := U.idx S' hS' k i hk hi
  have htsn := dataFrag_tsn U hS' k i
  have hrinv := h.rinv.data hN (S'.dataFrag k i) imm (S'.base k + i) hj htsn
  generalize hcd : S'.dataFrag k i = cd at *
  have hgmono : ∀ x ∈ G, ∃ k', (RecvQ.run R (chunkTrace s (.data cd imm))).h.acc k' ∧ x = U.t + BitVec.ofNat 32 (k' - 1) := by
    intro x hx
    obtain ⟨k', a1, a2⟩ := h.gacc x hx
    exact ⟨k', chunk_acc_mono s _ R k' a1, a2⟩
  by_cases hp : pushes s cd = true
  · -- handed to its stream
    have hne : cd.userData ≠ [] := by intro e; simp [pushes, e] at hp
    have hemp : cd.userData.isEmpty = false := by simpa using hne
    have e1 : handleChunk s (.data cd imm) = handleData s cd imm := by simp [handleChunk, hemp]
    obtain ⟨hq, hnr, htb⟩ := handleData_qOf s cd imm hne h.nr h.tb S.si
    obtain ⟨hacc', hfresh⟩ := data_acc h.rinv hN cd imm (S'.base k + i) hj htsn hp
    rw [hp] at hrinv ⊢
    simp only [if_true] at hrinv ⊢
    have hgacc : ∀ x ∈ G ++ [cd.tsn], ∃ k', (RecvQ.run R (chunkTrace s (.data cd imm))).h.acc k' ∧ x = U.t + BitVec.ofNat 32 (k' - 1) := by
      intro x hx
      rcases List.mem_append.1 hx with hx | hx
      · exact hgmono x hx
      · simp only [List.mem_singleton] at hx
        exact ⟨S'.base k + i + 1, hacc', by rw [hx, htsn]; simp⟩
    rw [e1] at hrinv ⊢
    by_cases hsi : S.si = cd.si
    · have hTT : S' = S := by
        apply U.si S hS S' hS'
        rw [← hcd] at hsi; exact hsi.symm
      subst hTT
      have hnotin : (k, i) ∉ P := by
        intro hmem
        have hg := (h.pg k i hk hi).1 hmem
        rw [hcd] at hg
        obtain ⟨k', a1, a2⟩ := h.gacc _ hg
        obtain ⟨b1, b2, _⟩ := h.rinv.acc k' a1
        rw [htsn] at a2
        have := ofNat32_add_inj' U.t (by omega) (by omega) a2
        have hk' : k' = S'.base k + i + 1 := by omega
        rw [hk'] at a1
        exact hfresh a1
      have hok := Reasm.push_ok (qOf s S'.si) (S'.dataFrag k i) h.qne h.qme rfl
      have hcl := h.cl
      obtain ⟨A', hsk'⟩ := h.sk.push (U.wf S' hS) hk hi hnotin (by omega) (by omega) hok
      refine ⟨A', (k, i) :: P, hnr, htb, hrinv, hgacc, ?_, ?_, ?_, ?_, h.cl⟩
      · rw [hq, if_pos ⟨hp, hsi⟩, ← hsi, ← hcd]; exact hsk'
      · rw [hq, if_pos ⟨hp, hsi⟩, ← hsi]; exact Reasm.pushWithError_noEmpty _ _ h.qne
      · rw [hq, if_pos ⟨hp, hsi⟩, ← hsi, Reasm.push_maxEntries]; exact h.qme
      · intro k0 i0 hk0 hi0
        constructor
        · intro hm
          rcases List.mem_cons.1 hm with e | hm
          · cases e; rw [hcd]; exact List.mem_append_right _ (by simp)
          · exact List.mem_append_left _ ((h.pg k0 i0 hk0 hi0).1 hm)
        · intro hm
          rcases List.mem_append.1 hm with hm | hm
          · exact List.mem_cons_of_mem _ ((h.pg k0 i0 hk0 hi0).2 hm)
          · simp only [List.mem_singleton] at hm
            obtain ⟨_, e1', e2'⟩ := hinj k0 i0 hk0 hi0 hm
            rw [e1', e2']; exact List.mem_cons_self
    · refine ⟨A, P, hnr, htb, hrinv, hgacc, ?_, ?_, ?_, ?_, h.cl⟩
      · rw [hq, if_neg (fun hc' => hsi hc'.2)]; exact h.sk
      · rw [hq, if_neg (fun hc' => hsi hc'.2)]; exact h.qne
      · rw [hq, if_neg (fun hc' => hsi hc'.2)]; exact h.qme
      · intro k0 i0 hk0 hi0
        rw [h.pg k0 i0 hk0 hi0]
        constructor
        · intro hm; exact List.mem_append_left _ hm
        · intro hm
          rcases List.mem_append.1 hm with hm | hm
          · exact hm
          · simp only [List.mem_singleton] at hm
            obtain ⟨e0, _, _⟩ := hinj k0 i0 hk0 hi0 hm
            exfalso; apply hsi; rw [← hcd, e0]; rfl
  · -- nothing reaches a stream
    have hp' : pushes s cd = false := by simpa using hp
    rw [hp'] at hrinv ⊢
    simp only [Bool.false_eq_true, if_false, List.append_nil] at hrinv ⊢
    have hqq : qOf (handleChunk s (.data cd imm)) S.si = qOf s S.si ∧ NoReset (handleChunk s (.data cd imm)) ∧
        TblOK (handleChunk s (.data cd imm)) := by
      by_cases hne : cd.userData = []
      · have e1 : handleChunk s (.data cd imm) = abortPV s := by simp [handleChunk, hne]
        rw [e1]; exact ⟨rfl, h.nr, h.tb⟩
      · have hemp : cd.userData.isEmpty = false := by simpa using hne
        have e1 : handleChunk s (.data cd imm) = handleData s cd imm := by simp [handleChunk, hemp]
        obtain ⟨hq, hnr, htb⟩ := handleData_qOf s cd imm hne h.nr h.tb S.si
        rw [e1]
        refine ⟨?_, hnr, htb⟩
        rw [hq]; simp [hp']
    refine ⟨A, P, hqq.2.1, hqq.2.2, hrinv, hgmono, ?_, ?_, ?_, h.pg, h.cl⟩
    · rw [hqq.1]; exact h.sk
    · rw [hqq.1]; exact h.qne
    · rw [hqq.1]; exact h.qme

theorem fwdTrace_two (r : St) (nc : TSN) (ids : List (BitVec 16)) :
    (fwdTrace r nc ids = [] ∨ fwdTrace r nc ids = [.fwd nc]) ∧
    (fwdTrace r nc ids = [.fwd nc] → sna32LTE nc r.pq.cum = false) := by
  unfold fwdTrace
  split
  · exact ⟨Or.inl rfl, fun h => by cases h⟩
  · split
    · exact ⟨Or.inl rfl, fun h => by cases h⟩
    · split
      · exact ⟨Or.inl rfl, fun h => by cases h⟩
      · rename_i hst
        split
        · exact ⟨Or.inl rfl, fun h => by cases h⟩
        · exact ⟨Or.inr rfl, fun _ => by simpa [fwd_stale] using hst⟩

/-- the ordered skips of the entries naming the stream, one after the other -/
theorem skips_fold {S : Reasm.Sender} {K : Nat → Bool} (hS : S.WF) (hlen : S.msgs.length < 2^15) {P : List (Nat × Nat)} {D : List Nat}
    (l : List (BitVec 16 × BitVec 16))
    (hl : ∀ e ∈ l, ∃ L, L < S.msgs.length ∧ e.2 = BitVec.ofNat 16 L ∧
      ∀ k, k < L + 1 → K k = false → ∀ i, i < S.nf k → (k, i) ∈ P) :
    ∀ (q : Reasm.Q) (c : Nat) (A : Reasm.Tab), Reasm.SkipInv S K q 0 c A P D → c ≤ S.msgs.length → Reasm.NoEmpty q → q.maxEntries = 0 →
    ∃ c' A', Reasm.SkipInv S K (l.foldl (fun q e => q.forwardTSNForOrdered e.2) q) 0 c' A' P D ∧ c' ≤ S.msgs.length ∧
      Reasm.NoEmpty (l.foldl (fun q e => q.forwardTSNForOrdered e.2) q) ∧
      (l.foldl (fun q e => q.forwardTSNForOrdered e.2) q).maxEntries = 0 := by
  induction l with
  | nil => intro q c A h hc hn hm; exact ⟨c, A, h, hc, hn, hm⟩
  | cons e l ih =>
    intro q c A h hc hn hm
    obtain ⟨L, hL, he, hprem⟩ := hl e List.mem_cons_self
    have h1 := h.skip hS hL (Nat.zero_le _) (by omega) hprem
    rw [List.foldl_cons, he]
    exact ih (fun e' he' => hl e' (List.mem_cons_of_mem _ he')) _ _ _ h1 (by omega)
      (Reasm.step_noEmpty q (.fwdO (BitVec.ofNat 16 L)) hn) (by rw [Reasm.fwdO_maxEntries]; exact hm)

/-- ✱ a FORWARD-TSN -/
theorem PS.fwdStep {U : UnivS} {S : Reasm.Sender} {K s R G c A P D} (h : PS U S K s R G c A P D) (hS : S ∈ U.senders)
    (hlen : S.msgs.length < 2^15) (nc : TSN) (es : List (BitVec 16 × BitVec 16)) (n : Nat) (hn : n < U.N)
    (hnc : nc = U.t + BitVec.ofNat 32 n)
    (hent : chunkTrace s (.fwd nc es) = [.fwd nc] → EntOk S K G es) :
    ∃ c' A', PS U S K (handleChunk s (.fwd nc es)) (RecvQ.run R (chunkTrace s (.fwd nc es))) G c' A' P D := by
  have htwo := fwdTrace_two s nc (es.map (·.1))
  have hrinv := h.rinv.fwdStep U.hN (.fwd nc es) nc htwo.1 htwo.2 n hn hnc (fun _ _ => Or.inl trivial)
  have hgacc : ∀ x ∈ G, ∃ k', (RecvQ.run R (chunkTrace s (.fwd nc es))).h.acc k' ∧ x = U.t + BitVec.ofNat 32 (k' - 1) := by
    intro x hx
    obtain ⟨k', a1, a2⟩ := h.gacc x hx
    exact ⟨k', chunk_acc_mono s _ R k' a1, a2⟩
  obtain ⟨q1, q2, _, q4, q5⟩ := handleFwd_qOf s nc es h.nr h.tb S.si
  rcases htwo.1 with htr | htr
  · have hq := q4 htr
    refine ⟨c, A, q1, q2, hrinv, hgacc, ?_, ?_, ?_, h.pg, h.cl⟩
    · show Reasm.SkipInv S K (qOf (handleFwd s nc es) S.si) 0 c A P D
      rw [hq]; exact h.sk
    · show Reasm.NoEmpty (qOf (handleFwd s nc es) S.si)
      rw [hq]; exact h.qne
    · show (qOf (handleFwd s nc es) S.si).maxEntries = 0
      rw [hq]; exact h.qme
  · obtain ⟨b, hq⟩ := q5 htr
    have hE := hent htr
    have hl : ∀ e ∈ es.filter (fun e => e.1 == S.si), ∃ L, L < S.msgs.length ∧ e.2 = BitVec.ofNat 16 L ∧
        ∀ k, k < L + 1 → K k = false → ∀ i, i < S.nf k → (k, i) ∈ P := by
      intro e he
      obtain ⟨he1, he2⟩ := List.mem_filter.1 he
      obtain ⟨L, hL, heq, hall⟩ := hE e he1 (by simpa using he2)
      refine ⟨L, hL, heq, fun k hk hK i hi => ?_⟩
      exact (h.pg k i (by omega) hi).2 (hall k hk hK i hi)
    obtain ⟨c', A', s1, s2, s3, s4⟩ := skips_fold (U.wf S hS) hlen _ hl _ c A h.sk h.cl h.qne h.qme
    refine ⟨c', A', q1, q2, hrinv, hgacc, ?_, ?_, ?_, h.pg, s2⟩
    · show Reasm.SkipInv S K (qOf (handleFwd s nc es) S.si) 0 c' A' P D
      rw [hq]; cases b
      · exact s1
      · exact s1.fwdU nc
    · show Reasm.NoEmpty (qOf (handleFwd s nc es) S.si)
      rw [hq]; cases b
      · exact s3
      · exact Reasm.step_noEmpty _ (.fwdU nc) s3
    · show (qOf (handleFwd s nc es) S.si).maxEntries = 0
      rw [hq]; cases b
      · exact s4
      · simp only [if_true]; rw [Reasm.fwdU_maxEntries]; exact s4

end Receiver
