import SctpVerif.Proofs.Receiver.Prefix
/-!
FORWARD-TSN / I-FORWARD-TSN are taken completely or not at all (C07, deviation D23 fixed in /repo 349533d):
the pre-check `ensureStreams` registers every stream the chunk names or drops the chunk; once it succeeded every
named stream is in the table when the per-stream skips are applied, so no skip is lost.
-/
namespace Receiver
open Gen

/-- everything but the stream table bookkeeping -/
def core (s : St) := (s.pq, s.gone, s.resetReqs, s.control, s.ackState, s.timer, s.immTrig, s.delTrig, s.willSendAbort, s.state,
  s.performed, s.panicked, s.maxEntries)

theorem createStream_core (s : St) (si : BitVec 16) (a : Bool) : core (createStream s si a).1 = core s := by
  unfold createStream; repeat' split
  all_goals rfl

/-- the table only grows, by fresh empty queues -/
def Grown (s s' : St) : Prop :=
  core s' = core s ∧ ∃ l, s'.streams = s.streams ++ l ∧ ∀ x ∈ l, x.q = Reasm.new x.si s.maxEntries

theorem Grown.refl (s : St) : Grown s s := ⟨rfl, [], by simp, by simp⟩

theorem Grown.trans {a b c : St} (h1 : Grown a b) (h2 : Grown b c) : Grown a c := by
  obtain ⟨c1, l1, e1, f1⟩ := h1
  obtain ⟨c2, l2, e2, f2⟩ := h2
  have hme : b.maxEntries = a.maxEntries := by
    have := congrArg (fun t => t.2.2.2.2.2.2.2.2.2.2.2.2) c1; exact this
  refine ⟨c2.trans c1, l1 ++ l2, by rw [e2, e1, List.append_assoc], ?_⟩
  intro x hx
  rcases List.mem_append.mp hx with h | h
  · exact f1 x h
  · rw [← hme]; exact f2 x h

theorem createStream_grown (s : St) (si : BitVec 16) (a : Bool) : Grown s (createStream s si a).1 := by
  refine ⟨createStream_core s si a, ?_⟩
  rcases createStream_cases s si a with ⟨e, _⟩ | ⟨strm, hq, hsi, _, hs, _, _, _⟩
  · rw [e]; exact ⟨[], by simp, by simp⟩
  · exact ⟨[strm], hs, by intro x hx; simp at hx; subst hx; rw [hq, hsi]⟩

theorem ensureStreams_grown (ids : List (BitVec 16)) (s : St) : Grown s (ensureStreams s ids).1 := by
  induction ids generalizing s with
  | nil => exact .refl s
  | cons id ids ih =>
    simp only [ensureStreams]
    split
    · exact ih s
    · split
      · exact (createStream_grown s id true).trans (ih _)
      · exact createStream_grown s id true

theorem getS_append_left (l l' : List Stream) (si : BitVec 16) (h : (getS l si).isSome) : (getS (l ++ l') si).isSome := by
  simp only [getS, List.find?_append] at *
  cases hf : l.find? (fun x => x.si == si) with
  | some y => simp
  | none => rw [hf] at h; simp at h

theorem Grown.keeps {s s' : St} (h : Grown s s') (si : BitVec 16) (hs : (getS s.streams si).isSome) : (getS s'.streams si).isSome := by
  obtain ⟨_, l, e, _⟩ := h
  rw [e]; exact getS_append_left _ _ _ hs

theorem createStream_some_reg (s : St) (si : BitVec 16) (a : Bool) (h : (createStream s si a).2.isSome) :
    (getS (createStream s si a).1.streams si).isSome := by
  rcases createStream_cases s si a with ⟨_, e2⟩ | ⟨strm, _, hsi, _, hs, _, _, _⟩
  · rw [e2] at h; simp at h
  · rw [hs, getS_append_single]
    cases getS s.streams si <;> simp [hsi]

/-- ✱ when the pre-check succeeds every named stream is registered -/
theorem ensureStreams_ok (ids : List (BitVec 16)) (s : St) (h : (ensureStreams s ids).2 = true) :
    ∀ id ∈ ids, (getS (ensureStreams s ids).1.streams id).isSome := by
  induction ids generalizing s with
  | nil => intro id hid; simp at hid
  | cons i ids ih =>
    simp only [ensureStreams] at h ⊢
    split at h
    · rename_i x hx
      intro id hid
      simp only [List.mem_cons] at hid
      rcases hid with rfl | hid
      · exact (ensureStreams_grown ids s).keeps _ (by rw [hx]; rfl)
      · exact ih s h id hid
    · rename_i hx
      split at h
      · rename_i hc
        rw [if_pos hc]
        intro id hid
        simp only [List.mem_cons] at hid
        rcases hid with rfl | hid
        · exact (ensureStreams_grown ids _).keeps _ (createStream_some_reg s _ true hc)
        · exact ih _ h id hid
      · cases h

/-! ### the per-stream skips -/

theorem getS_setQ_isSome (l : List Stream) (si si' : BitVec 16) (f : Reasm.Q → Reasm.Q) (h : (getS l si').isSome) :
    (getS (setQ l si f) si').isSome := by
  rw [getS_setQ]
  split
  · rename_i e; subst e; cases hg : getS l si' with
    | some x => rfl
    | none => rw [hg] at h; simp at h
  · exact h

/-- one entry: a registered stream stays registered; its own stream gets `f` applied, other streams keep their queue -/
theorem entry_effect (s : St) (si : BitVec 16) (f : Reasm.Q → Reasm.Q) (si' : BitVec 16)
    (h' : (getS s.streams si').isSome) :
    let s' : St := { s with streams := setQ s.streams si f }
    (getS s'.streams si').isSome ∧
    ((getS s'.streams si').map (·.q) = if si' = si then (getS s.streams si).map (fun x => f x.q) else (getS s.streams si').map (·.q)) := by
  intro s'
  refine ⟨getS_setQ_isSome _ _ _ _ h', ?_⟩
  show (getS (setQ s.streams si f) si').map (·.q) = _
  rw [getS_setQ]
  split
  · cases getS s.streams si <;> rfl
  · rfl

theorem fwdEntry_eq (s : St) (e : BitVec 16 × BitVec 16) (hreg : (getS s.streams e.1).isSome) :
    fwdEntry s e = { s with streams := setQ s.streams e.1 (fun q => q.forwardTSNForOrdered e.2) } := by
  unfold fwdEntry
  cases hg : getS s.streams e.1 with
  | some x => rfl
  | none => rw [hg] at hreg; simp at hreg

theorem ifwdEntry_eq (s : St) (e : BitVec 16 × Bool × BitVec 32) (hreg : (getS s.streams e.1).isSome) :
    ifwdEntry s e = { s with streams := setQ s.streams e.1 (fun q =>
      if e.2.1 then q.forwardTSNForUnorderedMID e.2.2 else q.forwardTSNForOrderedMID e.2.2) } := by
  unfold ifwdEntry
  cases hg : getS s.streams e.1 with
  | some x => rfl
  | none => rw [hg] at hreg; simp at hreg

/-- the cursor of an ordered DATA stream is past the skipped number -/
def pastSSN (q : Reasm.Q) (ssn : BitVec 16) : Prop := sna16LTE q.nextSSN ssn = false

theorem fwdO_past (q : Reasm.Q) (ssn : BitVec 16) : pastSSN (q.forwardTSNForOrdered ssn) ssn := by
  unfold pastSSN Reasm.Q.forwardTSNForOrdered
  dsimp only
  split
  · simp only [sna16LTE, sna16LT, Bool.or_eq_false_iff, beq_eq_false_iff_ne, Bool.and_eq_false_iff, decide_eq_false_iff_not, ne_eq]
    refine ⟨?_, ?_, ?_⟩ <;> bv_omega
  · rename_i h; simpa using h


/-! ### all entries of a chunk -/

/-- one entry applied to a registered stream -/
def gstep {α : Type} (key : α → BitVec 16) (fn : α → Reasm.Q → Reasm.Q) (s : St) (e : α) : St :=
  { s with streams := setQ s.streams (key e) (fn e) }

theorem gstep_core {α : Type} (key : α → BitVec 16) (fn : α → Reasm.Q → Reasm.Q) (es : List α) (s : St) :
    core (es.foldl (gstep key fn) s) = core s := by
  induction es generalizing s with
  | nil => rfl
  | cons e es ih => rw [List.foldl_cons, ih]; rfl

/-- ✱ registered streams stay registered; a stream named once ends with exactly its entry applied; streams not
named keep their queue -/
theorem gstep_spec {α : Type} (key : α → BitVec 16) (fn : α → Reasm.Q → Reasm.Q) (es : List α) (s : St) :
    (∀ si, (getS s.streams si).isSome → (getS (es.foldl (gstep key fn) s).streams si).isSome) ∧
    (∀ si, si ∉ es.map key → (getS (es.foldl (gstep key fn) s).streams si).map (·.q) = (getS s.streams si).map (·.q)) ∧
    ((es.map key).Nodup → ∀ e ∈ es, (getS (es.foldl (gstep key fn) s).streams (key e)).map (·.q) =
        (getS s.streams (key e)).map (fun x => fn e x.q)) := by
  induction es generalizing s with
  | nil => exact ⟨fun _ h => h, fun _ _ => rfl, fun _ e he => by simp at he⟩
  | cons a es ih =>
    obtain ⟨i1, i2, i3⟩ := ih (gstep key fn s a)
    have hq : ∀ si, (getS (gstep key fn s a).streams si).map (·.q) =
        if si = key a then (getS s.streams (key a)).map (fun x => fn a x.q) else (getS s.streams si).map (·.q) := by
      intro si
      show (getS (setQ s.streams (key a) (fn a)) si).map (·.q) = _
      rw [getS_setQ]
      split
      · cases getS s.streams (key a) <;> rfl
      · rfl
    refine ⟨?_, ?_, ?_⟩
    · intro si h; exact i1 si (getS_setQ_isSome _ _ _ _ h)
    · intro si hsi
      simp only [List.map_cons, List.mem_cons, not_or] at hsi
      rw [List.foldl_cons, i2 si hsi.2, hq, if_neg hsi.1]
    · intro hnd e he
      simp only [List.map_cons, List.nodup_cons] at hnd
      rw [List.foldl_cons]
      simp only [List.mem_cons] at he
      rcases he with rfl | he
      · rw [i2 _ hnd.1, hq, if_pos rfl]
      · have hne : key e ≠ key a := fun h => hnd.1 (h ▸ List.mem_map_of_mem he)
        rw [i3 hnd.2 e he]
        have := hq (key e)
        rw [if_neg hne] at this
        cases h1 : getS (gstep key fn s a).streams (key e) with
        | none =>
          rw [h1] at this
          cases h2 : getS s.streams (key e) with
          | none => rfl
          | some y => rw [h2] at this; simp at this
        | some x =>
          rw [h1] at this
          cases h2 : getS s.streams (key e) with
          | none => rw [h2] at this; simp at this
          | some y => rw [h2] at this; simp at this ⊢; rw [this]

theorem foldl_fwdEntry_gstep (es : List (BitVec 16 × BitVec 16)) (s : St) (hreg : ∀ e ∈ es, (getS s.streams e.1).isSome) :
    es.foldl fwdEntry s = es.foldl (gstep (·.1) (fun e q => q.forwardTSNForOrdered e.2)) s := by
  induction es generalizing s with
  | nil => rfl
  | cons a es ih =>
    rw [List.foldl_cons, List.foldl_cons, fwdEntry_eq s a (hreg a List.mem_cons_self)]
    exact ih _ (fun e he => getS_setQ_isSome _ _ _ _ (hreg e (List.mem_cons_of_mem _ he)))

theorem foldl_ifwdEntry_gstep (es : List (BitVec 16 × Bool × BitVec 32)) (s : St) (hreg : ∀ e ∈ es, (getS s.streams e.1).isSome) :
    es.foldl ifwdEntry s = es.foldl (gstep (·.1) (fun e q =>
      if e.2.1 then q.forwardTSNForUnorderedMID e.2.2 else q.forwardTSNForOrderedMID e.2.2)) s := by
  induction es generalizing s with
  | nil => rfl
  | cons a es ih =>
    rw [List.foldl_cons, List.foldl_cons, ifwdEntry_eq s a (hreg a List.mem_cons_self)]
    exact ih _ (fun e he => getS_setQ_isSome _ _ _ _ (hreg e (List.mem_cons_of_mem _ he)))

/-- the cursor of an ordered I-DATA stream is past the skipped message identifier -/
def pastMID (q : Reasm.Q) (mid : BitVec 32) : Prop := sna32LTE q.nextMID mid = false

theorem fwdOM_past (q : Reasm.Q) (mid : BitVec 32) : pastMID (q.forwardTSNForOrderedMID mid) mid := by
  unfold pastMID Reasm.Q.forwardTSNForOrderedMID
  dsimp only
  split
  · simp only [sna32LTE, sna32LT, Bool.or_eq_false_iff, beq_eq_false_iff_ne, Bool.and_eq_false_iff, decide_eq_false_iff_not, ne_eq]
    refine ⟨?_, ?_, ?_⟩ <;> bv_omega
  · rename_i h; simpa using h

theorem fwdU_nextSSN (q : Reasm.Q) (t : BitVec 32) : (q.forwardTSNForUnordered t).nextSSN = q.nextSSN := by
  unfold Reasm.Q.forwardTSNForUnordered; dsimp only; split <;> rfl

end Receiver
