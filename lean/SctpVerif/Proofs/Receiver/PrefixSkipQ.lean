import SctpVerif.Proofs.Receiver.Prefix
import SctpVerif.Proofs.Receiver.Forward
import SctpVerif.Proofs.ReasmFwdRun
import SctpVerif.Proofs.ReasmFwdPurge
import SctpVerif.Proofs.ReasmTotal
/-!
Queue-level and table-level facts for the receive-side simulation WITH skips (`Proofs/Receiver/PrefixSkip.lean`):
what `handleForwardTSN` does to the reassembly queue of one stream, and small additions to `SkipInv`.
-/
namespace Reasm
open Gen

/-- with fewer than 2^15 messages on the stream the window can be anchored at 0 -/
theorem SkipInv.lower0 {S K q f c A P D} (h : SkipInv S K q f c A P D) (hlen : S.msgs.length < 2^15)
    (hc : c ≤ S.msgs.length) : SkipInv S K q 0 c A P D :=
  { h with
    tab := { h.tab with win := fun e he => ⟨Nat.zero_le _, by have := (h.tab.win e he).2.2; omega, (h.tab.win e he).2.2⟩ }
    fc := ⟨Nat.zero_le _, by omega⟩ }

/-- the unordered-class skip touches nothing the ordered refinement looks at -/
theorem SkipInv.fwdU {S K q f c A P D} (h : SkipInv S K q f c A P D) (t : BitVec 32) :
    SkipInv S K (q.forwardTSNForUnordered t) f c A P D := by
  rw [forwardTSNForUnordered_eq]
  exact { h with si := h.si, il := h.il, un := h.un, cur := h.cur, tab := h.tab }

/-- without an entry limit a DATA chunk is never refused -/
theorem push_ok (q : Q) (c : Chunk) (hne : NoEmpty q) (hme : q.maxEntries = 0) (hid : c.iData = false) :
    (q.pushWithError c).2.2 = Err.none := by
  have hp := pushWithError_no_panic q c hne
  have hl : q.hasDataLimit = false := by simp [Q.hasDataLimit, hme]
  unfold Q.pushWithError at hp ⊢
  simp only [hid, Bool.false_eq_true, ↓reduceIte, hl, Bool.false_and] at hp ⊢
  repeat' split
  all_goals first | rfl | (exfalso; simp_all)

theorem push_maxEntries (q : Q) (c : Chunk) : (q.pushWithError c).1.maxEntries = q.maxEntries := step_maxEntries q (.push c)
theorem read_maxEntries (q : Q) (n : Nat) : (q.read n).1.maxEntries = q.maxEntries := step_maxEntries q (.read n)
theorem fwdO_maxEntries (q : Q) (L : BitVec 16) : (q.forwardTSNForOrdered L).maxEntries = q.maxEntries := step_maxEntries q (.fwdO L)
theorem fwdU_maxEntries (q : Q) (t : BitVec 32) : (q.forwardTSNForUnordered t).maxEntries = q.maxEntries := step_maxEntries q (.fwdU t)

end Reasm

namespace Receiver
open Gen

/-! ### what `handleForwardTSN` does to the queue of one stream -/

theorem ensureStreams_inv (ids : List (BitVec 16)) (s : St) (hn : NoReset s) (ht : TblOK s) :
    NoReset (ensureStreams s ids).1 ∧ TblOK (ensureStreams s ids).1 ∧ (ensureStreams s ids).1.maxEntries = s.maxEntries ∧
    ∀ si, qOf (ensureStreams s ids).1 si = qOf s si := by
  induction ids generalizing s with
  | nil => exact ⟨hn, ht, rfl, fun _ => rfl⟩
  | cons id ids ih =>
    simp only [ensureStreams]
    split
    · exact ih s hn ht
    · rename_i hx
      have h1 := createStream_noReset s id true hn
      have h2 := createStream_tblOK s id true ht hx
      have h3 : (createStream s id true).1.maxEntries = s.maxEntries := createStream_maxEntries s id true
      have h4 := fun si => qOf_createStream s id true si
      split
      · obtain ⟨i1, i2, i3, i4⟩ := ih _ h1 h2
        exact ⟨i1, i2, i3.trans h3, fun si => (i4 si).trans (h4 si)⟩
      · exact ⟨h1, h2, h3, h4⟩

/-- the per-entry loop: the queue of stream `si` gets, in order, the skips of the entries that name it -/
theorem qOf_foldl_gstep {α : Type} (key : α → BitVec 16) (fn : α → Reasm.Q → Reasm.Q) (es : List α) (s : St) (si : BitVec 16)
    (hreg : ∀ e ∈ es, key e = si → (getS s.streams si).isSome) :
    qOf (es.foldl (gstep key fn) s) si = (es.filter (fun e => key e == si)).foldl (fun q e => fn e q) (qOf s si) ∧
    (es.foldl (gstep key fn) s).maxEntries = s.maxEntries ∧
    ((getS (es.foldl (gstep key fn) s).streams si).isSome = (getS s.streams si).isSome) := by
  induction es generalizing s with
  | nil => exact ⟨rfl, rfl, rfl⟩
  | cons a es ih =>
    have hg : getS (gstep key fn s a).streams si =
        if si = key a then (getS s.streams (key a)).map (fun x => { x with q := fn a x.q }) else getS s.streams si :=
      getS_setQ s.streams (key a) si (fn a)
    have hsome : (getS (gstep key fn s a).streams si).isSome = (getS s.streams si).isSome := by
      rw [hg]; split
      · rename_i e; subst e; cases getS s.streams (key a) <;> rfl
      · rfl
    obtain ⟨i1, i2, i3⟩ := ih (gstep key fn s a) (fun e he hk => by
      rw [hsome]; exact hreg e (List.mem_cons_of_mem _ he) hk)
    rw [List.foldl_cons]
    refine ⟨?_, i2, i3.trans hsome⟩
    rw [i1, List.filter_cons]
    by_cases hk : key a = si
    · have hr := hreg a List.mem_cons_self hk
      simp only [hk, beq_self_eq_true, if_true, List.foldl_cons]
      congr 1
      unfold qOf
      show ((getS (gstep key fn s a).streams si).map (·.q)).getD _ = _
      rw [hg, if_pos hk.symm, hk]
      cases hgs : getS s.streams si with
      | none => rw [hgs] at hr; simp at hr
      | some x => rfl
    · have hk' : (key a == si) = false := by simpa using hk
      simp only [hk', Bool.false_eq_true, if_false]
      congr 1
      unfold qOf
      show ((getS (gstep key fn s a).streams si).map (·.q)).getD _ = _
      rw [hg, if_neg (fun e => hk e.symm)]
      rfl

theorem foldl_gstep_sis {α : Type} (key : α → BitVec 16) (fn : α → Reasm.Q → Reasm.Q) (es : List α) (s : St) :
    (es.foldl (gstep key fn) s).streams.map (·.si) = s.streams.map (·.si) := by
  induction es generalizing s with
  | nil => rfl
  | cons a es ih =>
    rw [List.foldl_cons, ih]
    exact setQ_map_si s.streams (key a) (fn a)

theorem qOf_mapAll (s : St) (g : Reasm.Q → Reasm.Q) (si : BitVec 16) :
    qOf ({ s with streams := s.streams.map fun x => { x with q := g x.q } } : St) si =
      if (getS s.streams si).isSome then g (qOf s si) else qOf s si := by
  unfold qOf
  show ((getS (s.streams.map fun x => { x with q := g x.q }) si).map (·.q)).getD _ = _
  rw [getS_map _ (fun x => { x with q := g x.q }) (fun _ => rfl)]
  cases getS s.streams si <;> rfl

/-- ✱ `handleForwardTSN` seen from one stream: if the chunk is not taken (`fwdTrace = []`) no queue changes; if it is
taken the queue gets the ordered skips of the entries naming the stream, in order, then (if the stream is registered)
the unordered skip at the new cumulative TSN -/
theorem handleFwd_qOf (s : St) (nc : TSN) (es : List (BitVec 16 × BitVec 16)) (hn : NoReset s) (ht : TblOK s) (si : BitVec 16) :
    NoReset (handleFwd s nc es) ∧ TblOK (handleFwd s nc es) ∧ (handleFwd s nc es).maxEntries = s.maxEntries ∧
    (fwdTrace s nc (es.map (·.1)) = [] → qOf (handleFwd s nc es) si = qOf s si) ∧
    (fwdTrace s nc (es.map (·.1)) = [.fwd nc] → ∃ b : Bool, qOf (handleFwd s nc es) si =
      (if b then ((es.filter (fun e => e.1 == si)).foldl (fun q e => q.forwardTSNForOrdered e.2) (qOf s si)).forwardTSNForUnordered nc
       else (es.filter (fun e => e.1 == si)).foldl (fun q e => q.forwardTSNForOrdered e.2) (qOf s si))) := by
  unfold handleFwd fwdTrace
  split
  · exact ⟨hn, ht, rfl, fun _ => rfl, fun h => by cases h⟩
  · split
    · exact ⟨hn, ht, rfl, fun _ => rfl, fun h => by cases h⟩
    · split
      · exact ⟨hn, ht, rfl, fun _ => rfl, fun h => by cases h⟩
      · obtain ⟨e1, e2, e3, e4⟩ := ensureStreams_inv (es.map (·.1)) s hn ht
        have hok := ensureStreams_ok (es.map (·.1)) s
        have hpqE := ensureStreams_pq (es.map (·.1)) s
        generalize ensureStreams s (es.map (·.1)) = E at e1 e2 e3 e4 hok hpqE ⊢
        dsimp only
        split
        · exact ⟨e1, e2, e3, fun _ => e4 si, fun h => by cases h⟩
        · rename_i hE
          have hE' : E.2 = true := by simpa using hE
          have hreg : ∀ e ∈ es, (getS ({ E.1 with pq := RecvQ.advance E.1.pq nc } : St).streams e.1).isSome :=
            fun e he => hok hE' e.1 (List.mem_map_of_mem he)
          rw [foldl_fwdEntry_gstep es _ hreg]
          obtain ⟨g1, g2, g3⟩ := qOf_foldl_gstep (·.1) (fun e q => q.forwardTSNForOrdered e.2) es
            ({ E.1 with pq := RecvQ.advance E.1.pq nc } : St) si (fun e he hk => by rw [← hk]; exact hreg e he)
          have hsis := foldl_gstep_sis (·.1) (fun (e : BitVec 16 × BitVec 16) q => q.forwardTSNForOrdered e.2) es
            ({ E.1 with pq := RecvQ.advance E.1.pq nc } : St)
          have hcore := gstep_core (·.1) (fun (e : BitVec 16 × BitVec 16) q => q.forwardTSNForOrdered e.2) es
            ({ E.1 with pq := RecvQ.advance E.1.pq nc } : St)
          generalize es.foldl (gstep (·.1) (fun e q => q.forwardTSNForOrdered e.2)) ({ E.1 with pq := RecvQ.advance E.1.pq nc } : St) = F
            at g1 g2 g3 hcore hsis ⊢
          have hq0 : qOf ({ E.1 with pq := RecvQ.advance E.1.pq nc } : St) si = qOf s si := e4 si
          rw [hq0] at g1
          -- the table after the unordered skip of every stream
          let M : St := { F with streams := F.streams.map fun x => { x with q := x.q.forwardTSNForUnordered nc } }
          have hMq := qOf_mapAll F (fun q => q.forwardTSNForUnordered nc) si
          have hFg : F.gone = E.1.gone ∧ F.resetReqs = E.1.resetReqs := by
            have a := congrArg (fun t => t.2.1) hcore
            have b := congrArg (fun t => t.2.2.1) hcore
            exact ⟨a, b⟩
          have hMn : NoReset M := ⟨hFg.2.trans e1.1, hFg.1.trans e1.2⟩
          have hFt : TblOK F := by
            unfold TblOK; rw [hsis]; exact e2
          have hMt : TblOK M := by
            unfold TblOK
            show ((F.streams.map fun x => ({ x with q := x.q.forwardTSNForUnordered nc } : Stream)).map (·.si)).Nodup
            rw [List.map_map]
            exact hFt
          have htb := ackStep_tbl M false hMn.1
          refine ⟨noReset_of_tbl htb hMn, tblOK_of_tbl htb hMt, by rw [ackStep_maxEntries]; exact g2.trans e3,
            (fun h => by cases h), fun _ => ⟨(getS F.streams si).isSome, ?_⟩⟩
          rw [qOf_of_tbl htb si, hMq, g1]
