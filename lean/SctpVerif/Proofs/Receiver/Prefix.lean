import SctpVerif.Proofs.Receiver.Streams
import SctpVerif.Proofs.ReasmOrd
/-!
The receive-side system theorem (C01): composition of `C01_dedup` (from the receive-queue refinement) with
the reassembly-queue refinement (`OrdInv` / `MidInv`), for ANY arrival history of chunks drawn from the
fragment universe of a message list per stream.
-/
namespace Receiver
open Gen

/-! ### ghost history of the queue operations the association issues -/

theorem popLoopS_ghost (n : Nat) (R : RecvQ.St) :
    (RecvQ.popLoopS n R).h.c0 = R.h.c0 ∧ (RecvQ.popLoopS n R).h.acc = R.h.acc ∧
    ∀ k, (RecvQ.popLoopS n R).h.skp k ↔ R.h.skp k := by
  induction n generalizing R with
  | zero => exact ⟨rfl, rfl, fun _ => Iff.rfl⟩
  | succ n ih =>
    simp only [RecvQ.popLoopS]
    split
    · obtain ⟨a, b, c⟩ := ih (RecvQ.sPop R false)
      refine ⟨a, b, fun k => (c k).trans ?_⟩
      simp [RecvQ.sPop]
    · exact ⟨rfl, rfl, fun _ => Iff.rfl⟩

/-- ghost effect of `data t st` -/
theorem sData_ghost (R : RecvQ.St) (t : TSN) (st : Bool) :
    (RecvQ.sData R t st).h.c0 = R.h.c0 ∧ (∀ k, (RecvQ.sData R t st).h.skp k ↔ R.h.skp k) ∧
    (∀ k, (RecvQ.sData R t st).h.acc k ↔
      (R.h.acc k ∨ ((RecvQ.canPush R.q t && st) = true ∧ k = R.h.A + (t - R.q.cum).toNat))) := by
  unfold RecvQ.sData RecvQ.popAllS
  split
  · rename_i hc
    obtain ⟨a, b, c⟩ := popLoopS_ghost (RecvQ.sPush R t).q.size.toNat (RecvQ.sPush R t)
    refine ⟨a, c, fun k => ?_⟩
    rw [b]
    have hp : (RecvQ.push R.q t).2 = true := by
      rw [← RecvQ.canPush_eq_push]; simp only [Bool.and_eq_true] at hc; exact hc.1
    simp [RecvQ.sPush, hp, hc]
  · rename_i hc
    obtain ⟨a, b, c⟩ := popLoopS_ghost R.q.size.toNat R
    refine ⟨a, c, fun k => ?_⟩
    rw [b]
    simp [hc]

/-- ghost effect of a bare `push t` that the queue accepts -/
theorem sPush_ghost (R : RecvQ.St) (t : TSN) (hc : RecvQ.canPush R.q t = true) :
    (RecvQ.sPush R t).h.c0 = R.h.c0 ∧ (∀ k, (RecvQ.sPush R t).h.skp k ↔ R.h.skp k) ∧
    (∀ k, (RecvQ.sPush R t).h.acc k ↔ (R.h.acc k ∨ k = R.h.A + (t - R.q.cum).toNat)) := by
  have hp : (RecvQ.push R.q t).2 = true := by rw [← RecvQ.canPush_eq_push]; exact hc
  exact ⟨rfl, fun _ => Iff.rfl, fun k => by simp [RecvQ.sPush, hp]⟩

/-! ### the universe of an honest peer -/

/-- what the per-stream refinement proofs of `Proofs/ReasmOrd.lean` provide, for one stream -/
structure SSpec where
  S : Reasm.Sender
  frag : Nat → Nat → Reasm.Chunk          -- fragment `i` of message `k` as it arrives
  idx : Nat → Nat → Nat                   -- its TSN, counted from the peer's initial TSN
  W : Nat                                 -- the sequence-number window (2^15 for SSN, 2^31 for MID)
  Inv : Reasm.Q → Nat → Reasm.Tab → List (Nat × Nat) → Prop
  inv_new : ∀ me, Inv (Reasm.new S.si me) 0 [] []
  inv_push : ∀ {q d A P k i}, Inv q d A P → k < S.msgs.length → i < S.nf k → (k, i) ∉ P → k < d + W →
      ∃ A', Inv (q.pushWithError (frag k i)).1 d A' ((k, i) :: P)
  inv_read : ∀ {q d A P} (n : Nat), Inv q d A P →
      ((q.read n).2.err ≠ .ok ∧ (q.read n).1 = q) ∨
      ((q.read n).2.err = .ok ∧ d < S.msgs.length ∧ (q.read n).2.ppi = (S.msg d).ppi ∧
        (q.read n).2.data = (S.msg d).payload ∧ ∃ A', Inv (q.read n).1 (d + 1) A' P)
  frag_si : ∀ k i, (frag k i).si = S.si

/-- the chunks an honest peer can ever put on the wire towards this association: per stream a message list cut
into fragments, every fragment with its own TSN `t + idx k i`, fewer than 2^31 TSNs in all -/
structure Univ where
  t : TSN
  N : Nat
  specs : List SSpec
  hN : N < 2^31
  tsn : ∀ T ∈ specs, ∀ k i, k < T.S.msgs.length → i < T.S.nf k →
      (T.frag k i).tsn = t + BitVec.ofNat 32 (T.idx k i) ∧ T.idx k i < N
  distinct : ∀ T ∈ specs, ∀ T' ∈ specs, T'.S.si = T.S.si → T' = T

/-- DATA chunks of the universe and HEARTBEATs: no FORWARD-TSN (every message is reliable), no stream reset -/
def GoodChunk (U : Univ) (ch : InChunk) : Prop :=
  (∃ info, ch = .hb info) ∨
  ∃ T ∈ U.specs, ∃ k i imm, k < T.S.msgs.length ∧ i < T.S.nf k ∧ ch = .data (T.frag k i) imm

def GoodOp (U : Univ) : Op → Prop
  | .pkt cs => ∀ ch ∈ cs, GoodChunk U ch
  | _ => True

/-! ### deliveries -/

/-- what a read op on stream `si` (any object of that stream id) returns to the application -/
def readOut (si : BitVec 16) (s : St) : Op → List (Reasm.PPI × List UInt8)
  | .read nm n => if nm.1 = si then
      (match (read s nm n).2 with | .ok _ ppi data => [(ppi, data)] | _ => []) else []
  | _ => []

/-- the successful reads on stream `si` along a run, in order -/
def delivs (si : BitVec 16) : St → List Op → List (Reasm.PPI × List UInt8)
  | _, [] => []
  | s, op :: ops => readOut si s op ++ delivs si (step s op) ops

/-- the window hypothesis the 16/32-bit sequence space forces: whenever a fragment of message `k` of this stream
is handed to the reassembly queue, fewer than `W` messages separate it from what the application has read -/
def Win (T : SSpec) (s : St) (d : Nat) (ops : List Op) : Prop :=
  ∀ ops1 cs1 k i imm cs2 ops2, ops = ops1 ++ Op.pkt (cs1 ++ InChunk.data (T.frag k i) imm :: cs2) :: ops2 →
    k < T.S.msgs.length → i < T.S.nf k →
    pushes (cs1.foldl handleChunk (chunksStart (run s ops1))) (T.frag k i) = true →
    k < d + (delivs T.S.si s ops1).length + T.W


/-! ### the simulation invariant -/

/-- association state `s`, ghost-instrumented receive queue `R`, `d` messages of stream `T` delivered so far -/
structure PInv (U : Univ) (T : SSpec) (s : St) (R : RecvQ.St) (d : Nat) : Prop where
  nr : NoReset s
  tb : TblOK s
  pq : s.pq = R.q
  ginv : RecvQ.GInv R
  c0 : R.h.c0 = U.t - 1
  moff : R.q.maxOff.toNat ≤ 40000
  accN : ∀ k, R.h.acc k → 1 ≤ k ∧ k ≤ U.N
  noskp : ∀ k, ¬ R.h.skp k
  spec : ∃ A P, T.Inv (qOf s T.S.si) d A P ∧ ∀ p ∈ P, R.h.acc (T.idx p.1 p.2 + 1)

theorem dataTrace_cases (s : St) (c : Reasm.Chunk) (hne : c.userData ≠ []) :
    (pushes s c = false ∧ (dataTrace s c = [] ∨ dataTrace s c = [.data c.tsn false])) ∨
    (pushes s c = true ∧ RecvQ.canPush s.pq c.tsn = true ∧ (dataTrace s c = [.data c.tsn true] ∨ dataTrace s c = [.push c.tsn])) := by
  have hemp : c.userData.isEmpty = false := by simpa using hne
  unfold pushes dataTrace
  dsimp only
  simp only [hemp, Bool.not_false, Bool.true_and]
  by_cases hst : data_canHandle s.scp s.state = true
  · simp only [hst, Bool.not_true, Bool.false_eq_true, if_false, Bool.true_and]
    by_cases hwk : data_wrongKind c.iData s.il = true
    · simp [hwk]
    · have hwk' : data_wrongKind c.iData s.il = false := by simpa using hwk
      simp only [hwk', Bool.false_eq_true, if_false, Bool.not_false, Bool.true_and]
      generalize (if RecvQ.canPush s.pq c.tsn = true then (acceptPayloadData s c).2 else true) = cont
      cases hps : (RecvQ.canPush s.pq c.tsn && stores s c) with
      | false =>
        left
        refine ⟨rfl, ?_⟩
        by_cases hcont : (cont || s.state == 7#32) = true
        · right; rw [if_pos hcont]
        · left; rw [if_neg hcont]; simp
      | true =>
        right
        have hps' := hps
        rw [Bool.and_eq_true] at hps'
        refine ⟨rfl, hps'.1, ?_⟩
        by_cases hcont : (cont || s.state == 7#32) = true
        · left; rw [if_pos hcont]
        · right; rw [if_neg hcont]; simp
  · have hst' : data_canHandle s.scp s.state = false := by simpa using hst
    simp [hst']

/-- ✱ the dedup core: a chunk of the universe that `canPush` admits has the absolute index `idx + 1`, and that
index was never accepted before -/
theorem index_of_accept (U : Univ) {R : RecvQ.St} (g : RecvQ.GInv R) (hc0 : R.h.c0 = U.t - 1)
    (hm : R.q.maxOff.toNat ≤ 40000) (haN : ∀ k, R.h.acc k → 1 ≤ k ∧ k ≤ U.N) (hns : ∀ k, ¬ R.h.skp k)
    (tsn : TSN) (ix : Nat) (htsn : tsn = U.t + BitVec.ofNat 32 ix) (hix : ix < U.N)
    (hcp : RecvQ.canPush R.q tsn = true) :
    R.h.A + (tsn - R.q.cum).toNat = ix + 1 ∧ ¬ R.h.acc (ix + 1) := by
  have hN := U.hN
  have hA : R.h.A ≤ U.N := by
    rcases Nat.eq_zero_or_pos R.h.A with h0 | hp
    · omega
    · rcases g.hS1 R.h.A hp (Nat.le_refl _) with h | h
      · exact (haN _ h).2
      · exact absurd h (hns _)
  obtain ⟨hadm, hnh⟩ := (RecvQ.canPush_iff g.inv tsn).mp hcp
  have hsm := (RecvQ.admissible_small (q := R.q) (by omega) tsn).mp hadm
  have hcum := g.hcum
  rw [hc0] at hcum
  have e1 : (BitVec.ofNat 32 ix).toNat = ix := by simp; omega
  have e2 : (BitVec.ofNat 32 R.h.A).toNat = R.h.A := by simp; omega
  have key : ∀ (x a : BitVec 32), x.toNat = ix → a.toNat = R.h.A →
      1 ≤ (U.t + x - (U.t - 1 + a)).toNat → (U.t + x - (U.t - 1 + a)).toNat ≤ 40000 →
      R.h.A + (U.t + x - (U.t - 1 + a)).toNat = ix + 1 := by
    intro x a hx ha h1 h2; bv_omega
  have hoff : R.h.A + (tsn - R.q.cum).toNat = ix + 1 := by
    have h1 := hsm.1
    have h2 : (tsn - R.q.cum).toNat ≤ 40000 := by have := hsm.2; omega
    rw [htsn, hcum] at h1 h2 ⊢
    exact key _ _ e1 e2 h1 h2
  refine ⟨hoff, ?_⟩
  intro hacc
  rw [← hoff] at hacc
  have := (g.hacc _ hsm.1).mp hacc
  exact hnh ((RecvQ.held_iff_heldAt tsn).mpr this)


/-! ### one chunk -/

theorem run_R_q (R : RecvQ.St) (q : RecvQ.Q) (hq : q = R.q) (ops : List RecvQ.Op) : qrun q ops = (RecvQ.run R ops).q := by
  subst hq; exact qrun_eq _ R.h ops

theorem run_single (R : RecvQ.St) (op : RecvQ.Op) : RecvQ.run R [op] = RecvQ.step R op := rfl

/-- the ghost part of the invariant is kept by a queue operation that leaves the ghost sets alone -/
theorem PInv.ghost_same {U T s R d} (h : PInv U T s R d) (s' : St) (R' : RecvQ.St)
    (hnr : NoReset s') (htb : TblOK s') (hpq : s'.pq = R'.q) (hg : RecvQ.GInv R') (hmo : R'.q.maxOff = R.q.maxOff)
    (hc0 : R'.h.c0 = R.h.c0) (hacc : ∀ k, R'.h.acc k ↔ R.h.acc k) (hskp : ∀ k, R'.h.skp k ↔ R.h.skp k)
    (hq : qOf s' T.S.si = qOf s T.S.si) : PInv U T s' R' d := by
  obtain ⟨A, P, hinv, hP⟩ := h.spec
  exact ⟨hnr, htb, hpq, hg, hc0.trans h.c0, by rw [hmo]; exact h.moff, fun k hk => h.accN k ((hacc k).mp hk),
    fun k hk => h.noskp k ((hskp k).mp hk), A, P, by rw [hq]; exact hinv, fun p hp => (hacc _).mpr (hP p hp)⟩

/-- ✱ a DATA chunk of the universe keeps the simulation: the TSN filter lets each fragment through at most once
(`index_of_accept`), so the reassembly-queue refinement step applies -/
theorem data_step {U : Univ} {T : SSpec} {s : St} {R : RecvQ.St} {d : Nat} (h : PInv U T s R d)
    (T' : SSpec) (hT' : T' ∈ U.specs) (hT : T ∈ U.specs) (k i : Nat) (hk : k < T'.S.msgs.length) (hi : i < T'.S.nf k) (imm : Bool)
    (hw : T' = T → pushes s (T.frag k i) = true → k < d + T.W) :
    PInv U T (handleChunk s (.data (T'.frag k i) imm)) (RecvQ.run R (chunkTrace s (.data (T'.frag k i) imm))) d := by
  generalize hc : T'.frag k i = c at *
  by_cases hne : c.userData = []
  · -- no user data: ABORT flag only
    have e1 : handleChunk s (.data c imm) = abortPV s := by simp [handleChunk, hne]
    have e2 : chunkTrace s (.data c imm) = [] := by simp [chunkTrace, hne]
    rw [e1, e2]
    exact h.ghost_same _ _ h.nr h.tb h.pq h.ginv rfl rfl (fun _ => Iff.rfl) (fun _ => Iff.rfl) rfl
  · have hemp : c.userData.isEmpty = false := by simpa using hne
    have e1 : handleChunk s (.data c imm) = handleData s c imm := by simp [handleChunk, hemp]
    have e2 : chunkTrace s (.data c imm) = dataTrace s c := by simp [chunkTrace, hemp]
    rw [e1, e2]
    obtain ⟨hq, hnr, htb⟩ := handleData_qOf s c imm hne h.nr h.tb T.S.si
    have hpq : (handleData s c imm).pq = (RecvQ.run R (dataTrace s c)).q := by
      rw [handleData_pq, run_R_q R s.pq h.pq]
    have hg : RecvQ.GInv (RecvQ.run R (dataTrace s c)) := RecvQ.run_ginv h.ginv _
    have hmo : (RecvQ.run R (dataTrace s c)).q.maxOff = R.q.maxOff := RecvQ.run_maxOff R _
    rcases dataTrace_cases s c hne with ⟨hp, htr⟩ | ⟨hp, hcp, htr⟩
    · -- nothing reaches a stream
      have hq' : qOf (handleData s c imm) T.S.si = qOf s T.S.si := by
        rw [hq]; simp [hp]
      rcases htr with htr | htr
      · rw [htr] at hpq hg hmo ⊢
        exact h.ghost_same _ _ hnr htb hpq hg hmo rfl (fun _ => Iff.rfl) (fun _ => Iff.rfl) hq'
      · rw [htr] at hpq hg hmo ⊢
        obtain ⟨a, b, c'⟩ := sData_ghost R c.tsn false
        exact h.ghost_same _ _ hnr htb hpq hg hmo a
          (fun k => by
            rw [run_single]
            show (RecvQ.sData R c.tsn false).h.acc k ↔ _
            simpa using c' k)
          (fun k => by rw [run_single]; exact b k) hq'
    · -- the chunk is handed to its stream: its TSN is accepted now, for the first time
      obtain ⟨htsn, hix⟩ := U.tsn T' hT' k i hk hi
      rw [hc] at htsn
      have hcpR : RecvQ.canPush R.q c.tsn = true := by rw [← h.pq]; exact hcp
      obtain ⟨hidx, hfresh⟩ := index_of_accept U h.ginv h.c0 h.moff h.accN h.noskp c.tsn (T'.idx k i) htsn hix hcpR
      -- ghost sets after the operation
      have hgh : (RecvQ.run R (dataTrace s c)).h.c0 = R.h.c0 ∧
          (∀ j, (RecvQ.run R (dataTrace s c)).h.skp j ↔ R.h.skp j) ∧
          (∀ j, (RecvQ.run R (dataTrace s c)).h.acc j ↔ (R.h.acc j ∨ j = T'.idx k i + 1)) := by
        rcases htr with htr | htr
        · rw [htr, run_single]
          obtain ⟨a, b, c'⟩ := sData_ghost R c.tsn true
          refine ⟨a, b, fun j => ?_⟩
          have := c' j
          simp only [RecvQ.step, hcpR, Bool.and_self, true_and, hidx] at this ⊢
          exact this
        · rw [htr, run_single]
          obtain ⟨a, b, c'⟩ := sPush_ghost R c.tsn hcpR
          refine ⟨a, b, fun j => ?_⟩
          have := c' j
          simp only [RecvQ.step, hidx] at this ⊢
          exact this
      obtain ⟨g1, g2, g3⟩ := hgh
      obtain ⟨A, P, hinv, hP⟩ := h.spec
      refine ⟨hnr, htb, hpq, hg, g1.trans h.c0, by rw [hmo]; exact h.moff, ?_, fun j hj => h.noskp j ((g2 j).mp hj), ?_⟩
      · intro j hj
        rcases (g3 j).mp hj with hj | rfl
        · exact h.accN j hj
        · omega
      · by_cases hsi : T.S.si = c.si
        · -- our stream: the refinement step of the reassembly queue
          have hTT : T' = T := by
            apply U.distinct T hT T' hT'
            rw [← hc, T'.frag_si] at hsi; exact hsi.symm
          subst hTT
          have hnotin : (k, i) ∉ P := fun hmem => hfresh (hP (k, i) hmem)
          have hwin : k < d + T'.W := hw rfl (by rw [hc]; exact hp)
          obtain ⟨A', hinv'⟩ := T'.inv_push hinv hk hi hnotin hwin
          refine ⟨A', (k, i) :: P, ?_, ?_⟩
          · rw [hq, if_pos ⟨hp, hsi⟩, ← hsi, ← hc]; exact hinv'
          · intro p hp'
            simp only [List.mem_cons] at hp'
            rcases hp' with rfl | hp'
            · exact (g3 _).mpr (Or.inr rfl)
            · exact (g3 _).mpr (Or.inl (hP p hp'))
        · refine ⟨A, P, ?_, fun p hp' => (g3 _).mpr (Or.inl (hP p hp'))⟩
          rw [hq, if_neg (fun hc' => hsi hc'.2)]; exact hinv


/-! ### the chunks of a packet -/

theorem hb_step {U : Univ} {T : SSpec} {s : St} {R : RecvQ.St} {d : Nat} (h : PInv U T s R d) (info : String) :
    PInv U T (handleChunk s (.hb info)) (RecvQ.run R (chunkTrace s (.hb info))) d :=
  h.ghost_same _ _ h.nr h.tb h.pq h.ginv rfl rfl (fun _ => Iff.rfl) (fun _ => Iff.rfl) rfl

theorem chunks_step {U : Univ} {T : SSpec} (hT : T ∈ U.specs) (cs : List InChunk) :
    ∀ {x : St} {R : RecvQ.St} {d : Nat}, PInv U T x R d → (∀ ch ∈ cs, GoodChunk U ch) →
    (∀ cs1 k i imm cs2, cs = cs1 ++ InChunk.data (T.frag k i) imm :: cs2 → k < T.S.msgs.length → i < T.S.nf k →
        pushes (cs1.foldl handleChunk x) (T.frag k i) = true → k < d + T.W) →
    PInv U T (cs.foldl handleChunk x) (RecvQ.run R (chunksTrace x cs)) d := by
  induction cs with
  | nil => intro x R d h _ _; exact h
  | cons ch cs ih =>
    intro x R d h hgood hw
    have hstep : PInv U T (handleChunk x ch) (RecvQ.run R (chunkTrace x ch)) d := by
      rcases hgood ch List.mem_cons_self with ⟨info, rfl⟩ | ⟨T', hT', k, i, imm, hk, hi, rfl⟩
      · exact hb_step h info
      · refine data_step h T' hT' hT k i hk hi imm ?_
        intro hTT hp
        subst hTT
        exact hw [] k i imm cs rfl hk hi hp
    have := ih hstep (fun c hc => hgood c (List.mem_cons_of_mem _ hc)) (by
      intro cs1 k i imm cs2 hcs hk hi hp
      exact hw (ch :: cs1) k i imm cs2 (by rw [hcs]; rfl) hk hi hp)
    simp only [List.foldl_cons, chunksTrace, RecvQ.run_append]
    exact this

theorem packet_step {U : Univ} {T : SSpec} (hT : T ∈ U.specs) {s : St} {R : RecvQ.St} {d : Nat} (h : PInv U T s R d)
    (cs : List InChunk) (hgood : ∀ ch ∈ cs, GoodChunk U ch)
    (hw : ∀ cs1 k i imm cs2, cs = cs1 ++ InChunk.data (T.frag k i) imm :: cs2 → k < T.S.msgs.length → i < T.S.nf k →
        pushes (cs1.foldl handleChunk (chunksStart s)) (T.frag k i) = true → k < d + T.W) :
    PInv U T (packet s cs) (RecvQ.run R (opTrace s (.pkt cs))) d := by
  have h0 : PInv U T (chunksStart s) R d :=
    h.ghost_same _ _ h.nr h.tb h.pq h.ginv rfl rfl (fun _ => Iff.rfl) (fun _ => Iff.rfl) rfl
  have h1 := chunks_step hT cs h0 hgood hw
  unfold packet opTrace
  refine h1.ghost_same _ _ ?_ ?_ ?_ h1.ginv rfl rfl (fun _ => Iff.rfl) (fun _ => Iff.rfl) ?_
  · have : tbl (chunksEnd (cs.foldl handleChunk (chunksStart s))) = tbl (cs.foldl handleChunk (chunksStart s)) := by
      unfold chunksEnd; repeat' split
      all_goals rfl
    exact noReset_of_tbl this h1.nr
  · have : tbl (chunksEnd (cs.foldl handleChunk (chunksStart s))) = tbl (cs.foldl handleChunk (chunksStart s)) := by
      unfold chunksEnd; repeat' split
      all_goals rfl
    exact tblOK_of_tbl this h1.tb
  · rw [chunksEnd_pq]; exact h1.pq
  · have : tbl (chunksEnd (cs.foldl handleChunk (chunksStart s))) = tbl (cs.foldl handleChunk (chunksStart s)) := by
      unfold chunksEnd; repeat' split
      all_goals rfl
    exact qOf_of_tbl this _

/-! ### the application reads -/

theorem getS_map (l : List Stream) (g : Stream → Stream) (hg : ∀ y, (g y).si = y.si) (si : BitVec 16) :
    getS (l.map g) si = (getS l si).map g := by
  induction l with
  | nil => rfl
  | cons y l ih =>
    simp only [List.map_cons, getS, List.find?_cons, hg]
    cases (y.si == si) with
    | true => rfl
    | false => simpa [getS] using ih

theorem getS_of_mem_nodup (l : List Stream) (hnd : (l.map (·.si)).Nodup) (x : Stream) (hx : x ∈ l) : getS l x.si = some x := by
  induction l with
  | nil => simp at hx
  | cons y l ih =>
    simp only [List.map_cons, List.nodup_cons] at hnd
    simp only [getS, List.find?_cons]
    simp only [List.mem_cons] at hx
    rcases hx with rfl | hx
    · simp
    · have hne : (y.si == x.si) = false := by
        have : y.si ≠ x.si := by
          intro e; apply hnd.1; rw [e]; exact List.mem_map_of_mem hx
        simpa using this
      simp only [hne]
      exact ih hnd.2 hx

/-- with one entry per stream id, replacing the first match is replacing every match -/
theorem setFirst_eq_map (l : List Stream) (hnd : (l.map (·.si)).Nodup) (a : BitVec 16) (i : Nat) (v : Stream) (hv : v.si = a) :
    setFirst (fun y => y.si == a && y.inc == i) v l = l.map (fun y => if (y.si == a && y.inc == i) = true then v else y) := by
  induction l with
  | nil => rfl
  | cons z l ih =>
    simp only [List.map_cons, List.nodup_cons] at hnd
    simp only [setFirst, List.map_cons]
    split
    · rename_i hz
      congr 1
      -- no other entry has this stream id
      have hzs : z.si = a := by simp only [Bool.and_eq_true, beq_iff_eq] at hz; exact hz.1
      symm
      calc l.map (fun y => if (y.si == a && y.inc == i) = true then v else y) = l.map id := by
            apply List.map_congr_left
            intro y hy
            have : y.si ≠ a := by
              intro e; apply hnd.1; rw [hzs, ← e]; exact List.mem_map_of_mem hy
            simp [this]
        _ = l := List.map_id _
    · congr 1
      exact ih hnd.2

/-- ✱ a read keeps the simulation; on the stream under study it delivers nothing, or exactly message `d` -/
theorem read_step {U : Univ} {T : SSpec} {s : St} {R : RecvQ.St} {d : Nat} (h : PInv U T s R d) (nm : Name) (n : Nat) :
    (readOut T.S.si s (.read nm n) = [] ∧ PInv U T (read s nm n).1 R d) ∨
    (d < T.S.msgs.length ∧ readOut T.S.si s (.read nm n) = [Reasm.Msg.out (T.S.msg d)] ∧ PInv U T (read s nm n).1 R (d + 1)) := by
  obtain ⟨A, P, hinv, hP⟩ := h.spec
  unfold readOut
  dsimp only
  cases hf : s.streams.find? (fun x => x.si == nm.1 && x.inc == nm.2) with
  | none =>
    have hr : read s nm n = (s, .nostream) := by
      unfold read; rw [hf]; dsimp only; rw [h.nr.2]; rfl
    rw [hr]
    left
    exact ⟨by split <;> rfl, h⟩
  | some x =>
    have hxm : x ∈ s.streams := List.mem_of_find?_eq_some hf
    have hxs : x.si = nm.1 := by
      have := List.find?_some hf; simp only [Bool.and_eq_true, beq_iff_eq] at this; exact this.1
    let g : Stream → Stream := fun y => if (y.si == nm.1 && y.inc == nm.2) = true then (readStream x n).1 else y
    have hrsi : (readStream x n).1.si = nm.1 := by
      have : (readStream x n).1.si = x.si := by unfold readStream; dsimp only; split <;> rfl
      rw [this, hxs]
    have hr : read s nm n = ({ s with streams := s.streams.map g }, (readStream x n).2) := by
      unfold read; rw [hf]
      dsimp only
      rw [setFirst_eq_map s.streams h.tb nm.1 nm.2 _ hrsi]
    have hgsi : ∀ y, (g y).si = y.si := by
      intro y
      show (if (y.si == nm.1 && y.inc == nm.2) = true then (readStream x n).1 else y).si = y.si
      split
      · rename_i hy
        simp only [Bool.and_eq_true, beq_iff_eq] at hy
        have : (readStream x n).1.si = x.si := by unfold readStream; dsimp only; split <;> rfl
        rw [this, hxs, hy.1]
      · rfl
    have hnr' : NoReset ({ s with streams := s.streams.map g } : St) := h.nr
    have htb' : TblOK ({ s with streams := s.streams.map g } : St) := by
      unfold TblOK
      show ((s.streams.map g).map (·.si)).Nodup
      rw [List.map_map]
      have : ((fun x => x.si) ∘ g) = fun x => x.si := by funext y; exact hgsi y
      rw [this]; exact h.tb
    have hqOf : ∀ si, qOf ({ s with streams := s.streams.map g } : St) si = ((getS s.streams si).map (fun y => (g y).q)).getD (Reasm.new si s.maxEntries) := by
      intro si
      show ((getS (s.streams.map g) si).map (·.q)).getD _ = _
      rw [getS_map _ g hgsi]
      cases getS s.streams si <;> rfl
    rw [hr]
    by_cases hsi : nm.1 = T.S.si
    · -- a read on our stream
      have hgx : getS s.streams T.S.si = some x := by
        rw [← hsi, ← hxs]; exact getS_of_mem_nodup _ h.tb x hxm
      have hqx : qOf s T.S.si = x.q := by unfold qOf; rw [hgx]; rfl
      have hgxx : g x = (readStream x n).1 := by
        show (if (x.si == nm.1 && x.inc == nm.2) = true then (readStream x n).1 else x) = _
        rw [if_pos (List.find?_some hf)]
      have hq' : qOf ({ s with streams := s.streams.map g } : St) T.S.si = (readStream x n).1.q := by
        rw [hqOf, hgx]; simp [hgxx]
      rw [hqx] at hinv
      simp only [hsi, if_true]
      rcases T.inv_read n hinv with ⟨hne, hsame⟩ | ⟨hok, hd, hppi, hdata, A', hinv'⟩
      · left
        have hrs : (readStream x n).1.q = x.q ∧ (match (readStream x n).2 with | .ok _ ppi data => [(ppi, data)] | _ => []) = ([] : List (Reasm.PPI × List UInt8)) := by
          unfold readStream
          dsimp only
          split
          · rename_i he; exact absurd he hne
          · exact ⟨rfl, rfl⟩
          · constructor
            · rfl
            · cases x.readErr <;> rfl
        refine ⟨hrs.2, h.nr, htb', h.pq, h.ginv, h.c0, h.moff, h.accN, h.noskp, A, P, ?_, hP⟩
        rw [hq', hrs.1]; exact hinv
      · right
        have hrs : (readStream x n).1.q = (x.q.read n).1 ∧ (readStream x n).2 = .ok (x.q.read n).2.n (x.q.read n).2.ppi (x.q.read n).2.data := by
          unfold readStream
          dsimp only
          rw [hok]
          exact ⟨rfl, rfl⟩
        refine ⟨hd, ?_, h.nr, htb', h.pq, h.ginv, h.c0, h.moff, h.accN, h.noskp, A', P, ?_, hP⟩
        · rw [hrs.2]; simp [Reasm.Msg.out, hppi, hdata]
        · rw [hq', hrs.1]; exact hinv'
    · left
      refine ⟨by simp [hsi], h.nr, htb', h.pq, h.ginv, h.c0, h.moff, h.accN, h.noskp, A, P, ?_, hP⟩
      have : qOf ({ s with streams := s.streams.map g } : St) T.S.si = qOf s T.S.si := by
        rw [hqOf]
        unfold qOf
        cases hgs : getS s.streams T.S.si with
        | none => rfl
        | some y =>
          have hys := (getS_mem hgs).2
          have : g y = y := by
            show (if (y.si == nm.1 && y.inc == nm.2) = true then (readStream x n).1 else y) = y
            rw [if_neg]
            simp only [Bool.and_eq_true, beq_iff_eq, not_and]
            intro e; exact absurd (e.symm.trans hys) hsi
          simp [this]
      rw [this]; exact hinv


/-! ### the other ops -/

theorem other_step {U : Univ} {T : SSpec} {s : St} {R : RecvQ.St} {d : Nat} (h : PInv U T s R d) (op : Op)
    (hop : (∀ cs, op ≠ .pkt cs) ∧ (∀ nm n, op ≠ .read nm n)) :
    PInv U T (step s op) (RecvQ.run R (opTrace s op)) d := by
  cases op with
  | pkt cs => exact absurd rfl (hop.1 cs)
  | read nm n => exact absurd rfl (hop.2 nm n)
  | accept =>
    have ht : tbl (accept s).1 = tbl s := by unfold accept; split <;> rfl
    exact h.ghost_same _ _ (noReset_of_tbl ht h.nr) (tblOK_of_tbl ht h.tb) (by simp [step, h.pq, opTrace, RecvQ.run]) h.ginv rfl rfl
      (fun _ => Iff.rfl) (fun _ => Iff.rfl) (qOf_of_tbl ht _)
  | «open» si =>
    have hq : qOf (openStream s si).1 T.S.si = qOf s T.S.si := by
      unfold openStream; split; rfl; exact qOf_getOrCreateStream s si false _
    have hn : NoReset (openStream s si).1 := by
      unfold openStream; split; exact h.nr; exact getOrCreateStream_noReset s si false h.nr
    have ht : TblOK (openStream s si).1 := by
      unfold openStream; split; exact h.tb; exact getOrCreateStream_tblOK s si false h.tb
    exact h.ghost_same _ _ hn ht (by simp [step, h.pq, opTrace, RecvQ.run]) h.ginv rfl rfl (fun _ => Iff.rfl) (fun _ => Iff.rfl) hq
  | gather =>
    have ht : tbl (gather s).1 = tbl s := by
      unfold gather; dsimp only; repeat' split
      all_goals rfl
    have hpq : (gather s).1.pq = (RecvQ.run R (opTrace s .gather)).q := by
      rw [gather_pq, run_R_q R s.pq h.pq]; rfl
    have hgh : (RecvQ.run R (opTrace s .gather)).h = R.h := by
      simp only [opTrace]; split <;> rfl
    exact h.ghost_same _ _ (noReset_of_tbl ht h.nr) (tblOK_of_tbl ht h.tb) hpq (RecvQ.run_ginv h.ginv _)
      (RecvQ.run_maxOff R _) (by rw [hgh]) (fun _ => by rw [hgh]) (fun _ => by rw [hgh]) (qOf_of_tbl ht _)
  | tick dd =>
    have ht : tbl (tick s dd) = tbl s := by
      unfold tick; dsimp only; repeat' split
      all_goals rfl
    exact h.ghost_same _ _ (noReset_of_tbl ht h.nr) (tblOK_of_tbl ht h.tb) (by simp [step, h.pq, opTrace, RecvQ.run]) h.ginv rfl rfl
      (fun _ => Iff.rfl) (fun _ => Iff.rfl) (qOf_of_tbl ht _)
  | setState st =>
    exact h.ghost_same _ _ h.nr h.tb h.pq h.ginv rfl rfl (fun _ => Iff.rfl) (fun _ => Iff.rfl) rfl

/-! ### the run -/

theorem win_tail {T : SSpec} {s : St} {d : Nat} {op : Op} {ops : List Op} (h : Win T s d (op :: ops)) :
    Win T (step s op) (d + (readOut T.S.si s op).length) ops := by
  intro ops1 cs1 k i imm cs2 ops2 he hk hi hp
  have := h (op :: ops1) cs1 k i imm cs2 ops2 (by rw [he]; rfl) hk hi hp
  simp only [delivs, List.length_append] at this
  omega

/-- ✱ the successful reads on the stream form a prefix of what is left of its message list -/
theorem prefix_main {U : Univ} {T : SSpec} (hT : T ∈ U.specs) (ops : List Op) :
    ∀ {s : St} {R : RecvQ.St} {d : Nat}, PInv U T s R d → (∀ op ∈ ops, GoodOp U op) → Win T s d ops →
    delivs T.S.si s ops <+: (T.S.msgs.drop d).map Reasm.Msg.out := by
  induction ops with
  | nil => intro s R d _ _ _; simp [delivs]
  | cons op ops ih =>
    intro s R d h hgood hwin
    have hgood' : ∀ o ∈ ops, GoodOp U o := fun o ho => hgood o (List.mem_cons_of_mem _ ho)
    have hwt := win_tail hwin
    simp only [delivs]
    cases op with
    | read nm n =>
      have est : step s (.read nm n) = (read s nm n).1 := rfl
      rw [est] at hwt ⊢
      rcases read_step h nm n with ⟨ho, hI⟩ | ⟨hd, ho, hI⟩
      · rw [ho] at hwt ⊢
        simpa using ih hI hgood' hwt
      · rw [ho] at hwt ⊢
        have hdrop : T.S.msgs.drop d = T.S.msgs[d] :: T.S.msgs.drop (d + 1) := List.drop_eq_getElem_cons hd
        have hmsg : T.S.msg d = T.S.msgs[d] := by
          simp [Reasm.Sender.msg, List.getD_eq_getElem?_getD, List.getElem?_eq_getElem hd]
        rw [hdrop, List.map_cons, hmsg]
        simp only [List.singleton_append]
        exact (List.prefix_cons_inj _).2 (ih hI hgood' (by simpa using hwt))
    | pkt cs =>
      have est : step s (.pkt cs) = packet s cs := rfl
      rw [est] at hwt ⊢
      have hI := packet_step hT h cs (hgood _ List.mem_cons_self) (by
        intro cs1 k i imm cs2 hcs hk hi hp
        have := hwin [] cs1 k i imm cs2 ops (by rw [hcs]; rfl) hk hi hp
        simpa [delivs] using this)
      simpa [readOut] using ih hI hgood' (by simpa [readOut] using hwt)
    | accept =>
      have hI := other_step h .accept ⟨fun _ => by simp, fun _ _ => by simp⟩
      simpa [readOut] using ih hI hgood' (by simpa [readOut] using hwt)
    | «open» si =>
      have hI := other_step h (.open si) ⟨fun _ => by simp, fun _ _ => by simp⟩
      simpa [readOut] using ih hI hgood' (by simpa [readOut] using hwt)
    | gather =>
      have hI := other_step h .gather ⟨fun _ => by simp, fun _ _ => by simp⟩
      simpa [readOut] using ih hI hgood' (by simpa [readOut] using hwt)
    | tick dd =>
      have hI := other_step h (.tick dd) ⟨fun _ => by simp, fun _ _ => by simp⟩
      simpa [readOut] using ih hI hgood' (by simpa [readOut] using hwt)
    | setState st =>
      have hI := other_step h (.setState st) ⟨fun _ => by simp, fun _ _ => by simp⟩
      simpa [readOut] using ih hI hgood' (by simpa [readOut] using hwt)

/-- the invariant holds in a fresh association -/
theorem init_pinv (U : Univ) (T : SSpec) (maxBuf maxEntries : BitVec 32) (il f g : Bool) (am : Int) :
    PInv U T (init maxBuf maxEntries il f g am U.t) (RecvQ.start (getMaxTSNOffset maxBuf) (U.t - 1)) 0 := by
  refine ⟨⟨rfl, rfl⟩, by simp [TblOK, init], rfl, RecvQ.start_ginv _ _, rfl, ?_, ?_, ?_, [], [], ?_, by simp⟩
  · rw [RecvQ.start_maxOff]; exact RecvQ.round_le _ (RecvQ.getMaxTSNOffset_le maxBuf)
  · intro k hk; simp [RecvQ.start, RecvQ.sInit] at hk
  · intro k hk; simp [RecvQ.start, RecvQ.sInit] at hk
  · have : qOf (init maxBuf maxEntries il f g am U.t) T.S.si = Reasm.new T.S.si maxEntries := by
      simp [qOf, init, getS]
    rw [this]; exact T.inv_new maxEntries


/-! ### `handleChunksStart` does not change what `handleData` decides -/

theorem getOrCreate_isSome_chunksStart (s : St) (si : BitVec 16) (a : Bool) :
    (getOrCreateStream (chunksStart s) si a).2.isSome = (getOrCreateStream s si a).2.isSome := by
  unfold getOrCreateStream
  have e : (chunksStart s).streams = s.streams := rfl
  rw [e]
  cases getS s.streams si with
  | some x => rfl
  | none =>
    dsimp only
    unfold createStream
    dsimp only
    have e2 : (chunksStart s).acceptQ = s.acceptQ := rfl
    rw [e2]
    repeat' split
    all_goals rfl

theorem stores_chunksStart (s : St) (c : Reasm.Chunk) : stores (chunksStart s) c = stores s c := by
  have h1 := stores_iff (chunksStart s) c
  have h2 := stores_iff s c
  rw [getOrCreate_isSome_chunksStart] at h1
  have e1 : credit (chunksStart s) = credit s := rfl
  have e2 : (chunksStart s).pq = s.pq := rfl
  rw [e1, e2] at h1
  cases hs : stores s c with
  | true => exact h1.mpr (h2.mp hs)
  | false =>
    cases hs' : stores (chunksStart s) c with
    | false => rfl
    | true => rw [h2.mpr (h1.mp hs')] at hs; cases hs

theorem pushes_chunksStart (s : St) (c : Reasm.Chunk) : pushes (chunksStart s) c = pushes s c := by
  unfold pushes
  rw [stores_chunksStart]
  rfl

end Receiver
