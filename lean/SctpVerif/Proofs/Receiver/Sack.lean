import SctpVerif.Proofs.Receiver.Total
import SctpVerif.Proofs.RecvQ
/-!
The receive queue inside the association: every association step acts on `payloadQueue` as a list of the
association-level queue operations of `Proofs/RecvQ/History.lean` (`data t store`, `fwd c`, `sack`; a bare
`push` only on the path that ends in an ABORT for an exceeded reassembly limit). Hence every theorem of
`Props/C05.lean` about runs of those operations speaks about the SACKs the association builds.
-/
namespace Receiver
open Gen

@[simp] theorem createStream_pq (s : St) (si : BitVec 16) (a : Bool) : ((createStream s si a).1).pq = s.pq := by
  unfold createStream; repeat' split
  all_goals first | rfl | simp

@[simp] theorem getOrCreateStream_pq (s : St) (si : BitVec 16) (a : Bool) : ((getOrCreateStream s si a).1).pq = s.pq := by
  unfold getOrCreateStream; split <;> simp

@[simp] theorem abortPV_pq (s : St) : (abortPV s).pq = s.pq := by
  rfl

@[simp] theorem unregister_pq (s : St) (id : BitVec 16) : (unregister s id).pq = s.pq := by
  unfold unregister; split <;> rfl

@[simp] theorem foldl_unregister_pq (ids : List (BitVec 16)) (s : St) : (ids.foldl unregister s).pq = s.pq := by
  induction ids generalizing s with
  | nil => rfl
  | cons id ids ih => simp [ih]

@[simp] theorem rememberPerformed_pq (s : St) (rsn : BitVec 32) : (rememberPerformed s rsn).pq = s.pq := by
  rfl

@[simp] theorem resetStreamsIfAny_pq (s : St) (r : ResetReq) : (resetStreamsIfAny s r).pq = s.pq := by
  unfold resetStreamsIfAny; split <;> simp

@[simp] theorem foldl_reset_pq (rs : List ResetReq) (s : St) : (rs.foldl resetStreamsIfAny s).pq = s.pq := by
  induction rs generalizing s with
  | nil => rfl
  | cons r rs ih => simp [ih]

@[simp] theorem handleResetReq_pq (s : St) (r : ResetReq) : (handleResetReq s r).pq = s.pq := by
  unfold handleResetReq; repeat' split
  all_goals first | rfl | simp

@[simp] theorem staleFwd_pq (s : St) : (staleFwd s).pq = s.pq := by
  rfl

@[simp] theorem fwdEntry_pq (s : St) (e : BitVec 16 × BitVec 16) : (fwdEntry s e).pq = s.pq := by
  unfold fwdEntry; dsimp only; repeat' split
  all_goals first | rfl | simp

@[simp] theorem foldl_fwdEntry_pq (es : List (BitVec 16 × BitVec 16)) (s : St) : (es.foldl fwdEntry s).pq = s.pq := by
  induction es generalizing s with
  | nil => rfl
  | cons e es ih => simp [ih]

@[simp] theorem ifwdEntry_pq (s : St) (e : BitVec 16 × Bool × BitVec 32) : (ifwdEntry s e).pq = s.pq := by
  unfold ifwdEntry; dsimp only; repeat' split
  all_goals first | rfl | simp

@[simp] theorem foldl_ifwdEntry_pq (es : List (BitVec 16 × Bool × BitVec 32)) (s : St) : (es.foldl ifwdEntry s).pq = s.pq := by
  induction es generalizing s with
  | nil => rfl
  | cons e es ih => simp [ih]

@[simp] theorem chunksStart_pq (s : St) : (chunksStart s).pq = s.pq := by
  rfl

@[simp] theorem chunksEnd_pq (s : St) : (chunksEnd s).pq = s.pq := by
  unfold chunksEnd; repeat' split
  all_goals rfl

@[simp] theorem read_pq (s : St) (n : Name) (b : Nat) : ((read s n b).1).pq = s.pq := by
  unfold read; repeat' split
  all_goals rfl

@[simp] theorem accept_pq (s : St) : ((accept s).1).pq = s.pq := by
  unfold accept; split <;> rfl

@[simp] theorem openStream_pq (s : St) (si : BitVec 16) : ((openStream s si).1).pq = s.pq := by
  unfold openStream; split <;> simp

@[simp] theorem tick_pq (s : St) (d : Nat) : (tick s d).pq = s.pq := by
  unfold tick; dsimp only; repeat' split
  all_goals first | rfl | simp [ackTimeout]

/-- `acceptPayloadData` reaches `pushPayloadDataToStream`: a stream object is available and either there is
credit or the chunk fills a gap below the highest TSN received -/
def stores (s : St) (c : Reasm.Chunk) : Bool :=
  match getOrCreateStream s c.si true with
  | (_, none) => false
  | (s', some _) =>
    accept_hasCredit (a_getMyReceiverWindowCredit := credit s') ||
    !accept_dropAtFullBuffer (ok := (RecvQ.lastTSN s'.pq).isSome) (chunkPayload_tsn := c.tsn) (lastTSN := (RecvQ.lastTSN s'.pq).getD 0)

theorem pushToStream_pq (s : St) (c : Reasm.Chunk) : (pushToStream s c).1.pq = (RecvQ.push s.pq c.tsn).1 := by
  unfold pushToStream; dsimp only; repeat' split
  all_goals rfl

theorem acceptPayloadData_pq (s : St) (c : Reasm.Chunk) :
    (acceptPayloadData s c).1.pq = if stores s c then (RecvQ.push s.pq c.tsn).1 else s.pq := by
  have hg := getOrCreateStream_pq s c.si true
  unfold acceptPayloadData stores
  rcases hgo : getOrCreateStream s c.si true with ⟨s', o⟩
  rw [hgo] at hg
  cases o with
  | none => simpa using hg
  | some x =>
    dsimp only at hg ⊢
    by_cases hc : accept_hasCredit (credit s') = true
    · simp only [hc, if_true, Bool.true_or]; rw [pushToStream_pq, hg]
    · have hc' : accept_hasCredit (credit s') = false := by simpa using hc
      simp only [hc', Bool.false_eq_true, if_false, Bool.false_or]
      by_cases hd : accept_dropAtFullBuffer (RecvQ.lastTSN s'.pq).isSome c.tsn ((RecvQ.lastTSN s'.pq).getD 0) = true
      · simp only [hd, if_true, Bool.not_true, Bool.false_eq_true, if_false]; exact hg
      · have hd' : accept_dropAtFullBuffer (RecvQ.lastTSN s'.pq).isSome c.tsn ((RecvQ.lastTSN s'.pq).getD 0) = false := by
          simpa using hd
        simp only [hd', Bool.false_eq_true, if_false, Bool.not_false, if_true]; rw [pushToStream_pq, hg]

theorem popLoop_pq (n : Nat) (s : St) (h : RecvQ.Hist) : (popLoop n s).pq = (RecvQ.popLoopS n ⟨s.pq, h⟩).q := by
  induction n generalizing s h with
  | zero => rfl
  | succ n ih =>
    simp only [popLoop, RecvQ.popLoopS]
    split
    · rw [ih _ (RecvQ.sPop ⟨s.pq, h⟩ false).h]
      simp only [foldl_reset_pq]
      rfl
    · rfl

theorem ackStep_pq (s : St) (b : Bool) (h : RecvQ.Hist) : (ackStep s b).pq = (RecvQ.popAllS ⟨s.pq, h⟩).q := by
  have := popLoop_pq s.pq.size.toNat s h
  unfold ackStep
  dsimp only
  repeat' split
  all_goals exact this

theorem popLoopS_q_indep (n : Nat) (q : RecvQ.Q) (h h' : RecvQ.Hist) :
    (RecvQ.popLoopS n ⟨q, h⟩).q = (RecvQ.popLoopS n ⟨q, h'⟩).q := by
  induction n generalizing q h h' with
  | zero => rfl
  | succ n ih => simp only [RecvQ.popLoopS]; split; exact ih _ _ _; rfl

/-- the pop loop on the bare queue -/
def popAllQ (q : RecvQ.Q) : RecvQ.Q := (RecvQ.popAllS ⟨q, ⟨0, 0, fun _ => False, fun _ => False⟩⟩).q

theorem popAllS_q (q : RecvQ.Q) (h : RecvQ.Hist) : (RecvQ.popAllS ⟨q, h⟩).q = popAllQ q :=
  popLoopS_q_indep _ _ _ _

theorem sData_q (q : RecvQ.Q) (h : RecvQ.Hist) (t : TSN) (st : Bool) :
    (RecvQ.sData ⟨q, h⟩ t st).q = popAllQ (if RecvQ.canPush q t && st then (RecvQ.push q t).1 else q) := by
  simp only [RecvQ.sData]
  split
  · exact popAllS_q _ _
  · exact popAllS_q _ _

/-- the queue component of a ghost-instrumented run does not depend on the ghost history -/
theorem step_q_indep (q : RecvQ.Q) (h h' : RecvQ.Hist) (op : RecvQ.Op) :
    (RecvQ.step ⟨q, h⟩ op).q = (RecvQ.step ⟨q, h'⟩ op).q := by
  have hl : ∀ n (q : RecvQ.Q) (h h' : RecvQ.Hist), (RecvQ.popLoopS n ⟨q, h⟩).q = (RecvQ.popLoopS n ⟨q, h'⟩).q := by
    intro n
    induction n with
    | zero => intros; rfl
    | succ n ih => intro q h h'; simp only [RecvQ.popLoopS]; split; exact ih _ _ _; rfl
  cases op with
  | init c => rfl
  | push t => rfl
  | pop f => rfl
  | adv c => rfl
  | data t st =>
    simp only [RecvQ.step, RecvQ.sData, RecvQ.popAllS]
    split
    · exact hl _ _ _ _
    · exact hl _ _ _ _
  | fwd c =>
    simp only [RecvQ.step, RecvQ.sFwd, RecvQ.popAllS]
    split
    · rfl
    · exact hl _ _ _ _
  | sack => rfl

theorem run_q_indep (ops : List RecvQ.Op) (q : RecvQ.Q) (h h' : RecvQ.Hist) :
    (RecvQ.run ⟨q, h⟩ ops).q = (RecvQ.run ⟨q, h'⟩ ops).q := by
  induction ops generalizing q h h' with
  | nil => rfl
  | cons op ops ih =>
    simp only [RecvQ.run, List.foldl_cons]
    have e := step_q_indep q h h' op
    have := ih (RecvQ.step ⟨q, h⟩ op).q (RecvQ.step ⟨q, h⟩ op).h (RecvQ.step ⟨q, h'⟩ op).h
    simp only [RecvQ.run] at this
    rw [show (RecvQ.step ⟨q, h⟩ op) = ⟨(RecvQ.step ⟨q, h⟩ op).q, (RecvQ.step ⟨q, h⟩ op).h⟩ from rfl, this, e]

/-- the queue after a list of queue operations (ghost history irrelevant) -/
def qrun (q : RecvQ.Q) (ops : List RecvQ.Op) : RecvQ.Q :=
  (RecvQ.run ⟨q, ⟨0, 0, fun _ => False, fun _ => False⟩⟩ ops).q

theorem qrun_eq (q : RecvQ.Q) (h : RecvQ.Hist) (ops : List RecvQ.Op) : qrun q ops = (RecvQ.run ⟨q, h⟩ ops).q :=
  run_q_indep ops q _ h

theorem qrun_nil (q : RecvQ.Q) : qrun q [] = q := rfl

theorem qrun_append (q : RecvQ.Q) (a b : List RecvQ.Op) : qrun q (a ++ b) = qrun (qrun q a) b := by
  unfold qrun
  rw [RecvQ.run_append]
  exact run_q_indep b _ _ _

theorem qrun_single (q : RecvQ.Q) (h : RecvQ.Hist) (op : RecvQ.Op) : qrun q [op] = (RecvQ.step ⟨q, h⟩ op).q := by
  rw [qrun_eq q h]; rfl

/-! ### traces -/

/-- what `handleData` does to the receive queue -/
def dataTrace (s : St) (c : Reasm.Chunk) : List RecvQ.Op :=
  if !data_canHandle (a_shutdownCompletePending := s.scp) (state := s.state) then []
  else if data_wrongKind (chunkPayload_isIData := c.iData) (a_useInterleaving := s.il) then []
  else
    let canPush := RecvQ.canPush s.pq c.tsn
    let st := canPush && stores s c
    let cont := if canPush then (acceptPayloadData s c).2 else true
    if cont || s.state == 7#32 then [.data c.tsn st] else if st then [.push c.tsn] else []

theorem ackStep_pq' (s : St) (b : Bool) : (ackStep s b).pq = popAllQ s.pq := by
  rw [ackStep_pq s b ⟨0, 0, fun _ => False, fun _ => False⟩]; rfl

theorem qrun_data (q : RecvQ.Q) (t : TSN) (st : Bool) :
    qrun q [.data t st] = popAllQ (if RecvQ.canPush q t && st then (RecvQ.push q t).1 else q) := by
  rw [qrun_single q ⟨0, 0, fun _ => False, fun _ => False⟩]; exact sData_q _ _ _ _

theorem qrun_push (q : RecvQ.Q) (t : TSN) : qrun q [.push t] = (RecvQ.push q t).1 := by
  rw [qrun_single q ⟨0, 0, fun _ => False, fun _ => False⟩]; rfl

theorem handleData_pq (s : St) (c : Reasm.Chunk) (imm : Bool) : (handleData s c imm).pq = qrun s.pq (dataTrace s c) := by
  unfold handleData dataTrace
  dsimp only
  split
  · rfl
  · split
    · rfl
    · have hq := acceptPayloadData_pq s c
      by_cases hcp : RecvQ.canPush s.pq c.tsn = true
      · simp only [hcp, if_true, Bool.true_and]
        by_cases hr : (acceptPayloadData s c).2 = true
        · simp only [hr, Bool.not_true, Bool.false_eq_true, if_false, Bool.true_or, if_true]
          rw [ackStep_pq', qrun_data, hq, hcp, Bool.true_and]
        · have hr' : (acceptPayloadData s c).2 = false := by simpa using hr
          simp only [hr', Bool.not_false, if_true, Bool.false_or]
          by_cases h7 : (s.state == 7#32) = true
          · simp only [h7, if_true]
            rw [ackStep_pq', qrun_data, hq, hcp, Bool.true_and]
          · simp only [h7, Bool.false_eq_true, if_false]
            rw [hq]
            split
            · rw [qrun_push]
            · rfl
      · have hcp' : RecvQ.canPush s.pq c.tsn = false := by simpa using hcp
        simp only [hcp', Bool.false_eq_true, if_false, Bool.false_and, Bool.not_true, Bool.true_or, if_true]
        rw [ackStep_pq', qrun_data, hcp']
        simp

/-- what `handleForwardTSN` / `handleIForwardTSN` do to the receive queue -/
def fwdTrace (s : St) (newCum : TSN) : List RecvQ.Op :=
  if s.il then [] else if !s.useFwd then []
  else if fwd_stale (chunkTSN_newCumulativeTSN := newCum) (a_peerLastTSN := s.pq.cum) then [] else [.fwd newCum]

def ifwdTrace (s : St) (newCum : TSN) : List RecvQ.Op :=
  if !s.useIFwd then []
  else if ifwd_stale (chunkTSN_newCumulativeTSN := newCum) (a_peerLastTSN := s.pq.cum) then [] else [.fwd newCum]

theorem qrun_fwd (q : RecvQ.Q) (c : TSN) (h : sna32LTE c q.cum = false) : qrun q [.fwd c] = popAllQ (RecvQ.advance q c) := by
  rw [qrun_single q ⟨0, 0, fun _ => False, fun _ => False⟩]
  simp only [RecvQ.step, RecvQ.sFwd, h, Bool.false_eq_true, if_false]
  exact popAllS_q _ _

theorem handleFwd_pq (s : St) (c : TSN) (es : List (BitVec 16 × BitVec 16)) :
    (handleFwd s c es).pq = qrun s.pq (fwdTrace s c) := by
  unfold handleFwd fwdTrace
  split
  · rfl
  · split
    · rfl
    · split
      · rfl
      · rename_i hst
        rw [ackStep_pq', qrun_fwd _ _ (by simpa [fwd_stale] using hst)]
        simp

theorem handleIFwd_pq (s : St) (c : TSN) (es : List (BitVec 16 × Bool × BitVec 32)) :
    (handleIFwd s c es).pq = qrun s.pq (ifwdTrace s c) := by
  unfold handleIFwd ifwdTrace
  split
  · rfl
  · split
    · rfl
    · rename_i hst
      rw [ackStep_pq', qrun_fwd _ _ (by simpa [ifwd_stale] using hst)]
      simp

def chunkTrace (s : St) : InChunk → List RecvQ.Op
  | .data c _ => if c.userData.isEmpty then [] else dataTrace s c
  | .fwd c _ => fwdTrace s c
  | .ifwd c _ => ifwdTrace s c
  | .hb _ => []
  | .reset _ => []

theorem handleChunk_pq (s : St) (ch : InChunk) : (handleChunk s ch).pq = qrun s.pq (chunkTrace s ch) := by
  cases ch with
  | data c imm => simp only [handleChunk, chunkTrace]; split; rfl; exact handleData_pq s c imm
  | fwd c es => exact handleFwd_pq s c es
  | ifwd c es => exact handleIFwd_pq s c es
  | hb info => rfl
  | reset r => simp [handleChunk, chunkTrace, qrun_nil]

def chunksTrace : St → List InChunk → List RecvQ.Op
  | _, [] => []
  | s, c :: cs => chunkTrace s c ++ chunksTrace (handleChunk s c) cs

theorem foldl_handleChunk_pq (cs : List InChunk) (s : St) : (cs.foldl handleChunk s).pq = qrun s.pq (chunksTrace s cs) := by
  induction cs generalizing s with
  | nil => rfl
  | cons c cs ih => rw [List.foldl_cons, ih, handleChunk_pq, chunksTrace, qrun_append]

theorem packet_pq (s : St) (cs : List InChunk) : (packet s cs).pq = qrun s.pq (chunksTrace (chunksStart s) cs) := by
  unfold packet
  rw [chunksEnd_pq, foldl_handleChunk_pq]; rfl

/-- `gather` emits a SACK -/
def sacks (s : St) : Bool :=
  !s.willSendAbort && (s.state == 3#32 || s.state == 5#32 || s.state == 6#32 || s.state == 7#32) &&
    sack_pending (a_ackState := s.ackState)

theorem gather_pq (s : St) : (gather s).1.pq = qrun s.pq (if sacks s then [.sack] else []) := by
  unfold gather sacks
  dsimp only
  split
  · rename_i h; simp [h, qrun_nil]
  · rename_i h
    have h' : s.willSendAbort = false := by simpa using h
    simp only [h', Bool.not_false, Bool.true_and]
    split
    · rw [qrun_single _ ⟨0, 0, fun _ => False, fun _ => False⟩]
      rfl
    · rfl

def opTrace (s : St) : Op → List RecvQ.Op
  | .pkt cs => chunksTrace (chunksStart s) cs
  | .gather => if sacks s then [.sack] else []
  | _ => []

theorem step_pq (s : St) (op : Op) : (step s op).pq = qrun s.pq (opTrace s op) := by
  cases op with
  | pkt cs => exact packet_pq s cs
  | read n b => simp [step, opTrace, qrun_nil]
  | accept => simp [step, opTrace, qrun_nil]
  | «open» si => simp [step, opTrace, qrun_nil]
  | gather => exact gather_pq s
  | tick d => simp [step, opTrace, qrun_nil]
  | setState st => rfl

def runTrace : St → List Op → List RecvQ.Op
  | _, [] => []
  | s, op :: ops => opTrace s op ++ runTrace (step s op) ops

/-- ✱ the receive queue of the association after any op list is the receive queue after the traced list of
association-level queue operations -/
theorem run_pq (ops : List Op) (s : St) : (run s ops).pq = qrun s.pq (runTrace s ops) := by
  induction ops generalizing s with
  | nil => rfl
  | cons op ops ih => rw [run, List.foldl_cons, ← run, ih, step_pq, runTrace, qrun_append]

/-! ### what kind of operations the traces contain -/

def noInit : RecvQ.Op → Prop
  | .init _ => False
  | _ => True

theorem dataTrace_ops (s : St) (c : Reasm.Chunk) : ∀ op ∈ dataTrace s c, op = .data c.tsn (RecvQ.canPush s.pq c.tsn && stores s c) ∨ op = .push c.tsn := by
  unfold dataTrace
  dsimp only
  intro op hop
  repeat' split at hop
  all_goals simp at hop
  all_goals simp [hop]

theorem chunkTrace_noInit (s : St) (ch : InChunk) : ∀ op ∈ chunkTrace s ch, noInit op := by
  intro op hop
  cases ch with
  | data c imm =>
    simp only [chunkTrace] at hop
    split at hop
    · simp at hop
    · rcases dataTrace_ops s c op hop with rfl | rfl <;> trivial
  | fwd c es =>
    simp only [chunkTrace, fwdTrace] at hop
    repeat' split at hop
    all_goals simp at hop
    subst hop; trivial
  | ifwd c es =>
    simp only [chunkTrace, ifwdTrace] at hop
    repeat' split at hop
    all_goals simp at hop
    subst hop; trivial
  | hb info => simp [chunkTrace] at hop
  | reset r => simp [chunkTrace] at hop

theorem chunksTrace_noInit (cs : List InChunk) (s : St) : ∀ op ∈ chunksTrace s cs, noInit op := by
  induction cs generalizing s with
  | nil => intro op hop; simp [chunksTrace] at hop
  | cons c cs ih =>
    intro op hop
    simp only [chunksTrace, List.mem_append] at hop
    rcases hop with h | h
    · exact chunkTrace_noInit s c op h
    · exact ih _ op h

theorem runTrace_noInit (ops : List Op) (s : St) : ∀ op ∈ runTrace s ops, noInit op := by
  induction ops generalizing s with
  | nil => intro op hop; simp [runTrace] at hop
  | cons o ops ih =>
    intro op hop
    simp only [runTrace, List.mem_append] at hop
    rcases hop with h | h
    · cases o with
      | pkt cs => exact chunksTrace_noInit cs _ op h
      | gather => simp only [opTrace] at h; split at h <;> simp at h; subst h; trivial
      | read n b => simp [opTrace] at h
      | accept => simp [opTrace] at h
      | «open» si => simp [opTrace] at h
      | tick d => simp [opTrace] at h
      | setState st => simp [opTrace] at h
    · exact ih _ op h

theorem runTrace_append (a b : List Op) (s : St) : runTrace s (a ++ b) = runTrace s a ++ runTrace (run s a) b := by
  induction a generalizing s with
  | nil => rfl
  | cons op a ih => simp only [List.cons_append, runTrace, ih, List.append_assoc, run, List.foldl_cons]

theorem run_append (a b : List Op) (s : St) : run s (a ++ b) = run (run s a) b := by
  simp [run, List.foldl_append]

/-- one chunk performs at most one queue operation -/
theorem chunkTrace_short (s : St) (ch : InChunk) : chunkTrace s ch = [] ∨ ∃ op, chunkTrace s ch = [op] ∧ noInit op := by
  have hn := chunkTrace_noInit s ch
  cases ch with
  | data c imm =>
    simp only [chunkTrace] at hn ⊢
    split
    · left; rfl
    · unfold dataTrace at hn ⊢
      dsimp only at hn ⊢
      repeat' split
      all_goals first | (left; rfl) | (right; exact ⟨_, rfl, trivial⟩)
  | fwd c es =>
    simp only [chunkTrace, fwdTrace]
    repeat' split
    all_goals first | (left; rfl) | (right; exact ⟨_, rfl, trivial⟩)
  | ifwd c es =>
    simp only [chunkTrace, ifwdTrace]
    repeat' split
    all_goals first | (left; rfl) | (right; exact ⟨_, rfl, trivial⟩)
  | hb info => left; rfl
  | reset r => left; rfl

/-- the queue of a fresh association is the start state of the ghost-instrumented runs -/
theorem init_pq (maxBuf maxEntries : BitVec 32) (il f g : Bool) (am : Int) (t : TSN) :
    (init maxBuf maxEntries il f g am t).pq = (RecvQ.start (getMaxTSNOffset maxBuf) (t - 1)).q := rfl

end Receiver
