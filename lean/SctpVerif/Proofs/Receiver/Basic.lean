import SctpVerif.Model.Receiver
import SctpVerif.Proofs.ReasmTotal
/-!
Lifting principle for the receive-half model: a property of reassembly queues that `new` establishes and every
queue operation keeps holds for every stream object (registered or already deleted from the table) of every
reachable association state. The property may be GRADED by a budget of user bytes: the budget grows by the
payload length of each DATA chunk a step may store — this is how the exactness of the per-stream byte counter
(`Reasm.CInv`, which needs the total below 2^63) is carried along association runs.
-/
namespace Receiver
open Gen

/-! ### lifting per-queue invariants -/

/-- a property of reassembly queues kept by every queue operation -/
structure QPres (P : Reasm.Q → Prop) : Prop where
  new : ∀ si me, P (Reasm.new si me)
  step : ∀ q op, P q → P (q.step op)

/-- a GRADED property of reassembly queues: the grade is a budget of user bytes that grows by the bytes an
operation may add (`Reasm.Op.bytes`: the payload length of a `push`, 0 otherwise) -/
structure GPres (P : Nat → Reasm.Q → Prop) : Prop where
  new : ∀ si me, P 0 (Reasm.new si me)
  mono : ∀ b b' q, b ≤ b' → P b q → P b' q
  step : ∀ b q op, P b q → P (b + op.bytes) (q.step op)

theorem QPres.graded {P : Reasm.Q → Prop} (h : QPres P) : GPres (fun _ => P) :=
  ⟨h.new, fun _ _ _ _ hp => hp, fun _ q op hp => h.step q op hp⟩

/-- user bytes a chunk / an op may add to the reassembly queues -/
def chunkBytes : InChunk → Nat
  | .data c _ => c.len
  | _ => 0

def opBytes : Op → Nat
  | .pkt cs => (cs.map chunkBytes).sum
  | _ => 0

/-- `P` holds for the queue of every stream object, registered or not -/
def AllQ (P : Reasm.Q → Prop) (s : St) : Prop := (∀ x ∈ s.streams, P x.q) ∧ (∀ x ∈ s.gone, P x.q)

theorem AllQ.mono {P : Nat → Reasm.Q → Prop} (hP : GPres P) {b b' : Nat} {s : St} (hb : b ≤ b') (h : AllQ (P b) s) :
    AllQ (P b') s :=
  ⟨fun x hx => hP.mono _ _ _ hb (h.1 x hx), fun x hx => hP.mono _ _ _ hb (h.2 x hx)⟩

theorem mem_setQ {l : List Stream} {si : BitVec 16} {f : Reasm.Q → Reasm.Q} {x' : Stream} (h : x' ∈ setQ l si f) :
    ∃ x ∈ l, x' = x ∨ x' = { x with q := f x.q } := by
  induction l with
  | nil => simp [setQ] at h
  | cons y l ih =>
    simp only [setQ] at h
    split at h
    · simp only [List.mem_cons] at h
      rcases h with rfl | h
      · exact ⟨y, List.mem_cons_self, Or.inr rfl⟩
      · exact ⟨x', List.mem_cons_of_mem _ h, Or.inl rfl⟩
    · simp only [List.mem_cons] at h
      rcases h with rfl | h
      · exact ⟨x', List.mem_cons_self, Or.inl rfl⟩
      · obtain ⟨x, hx, hxe⟩ := ih h
        exact ⟨x, List.mem_cons_of_mem _ hx, hxe⟩

theorem allQ_setQ {P : Reasm.Q → Prop} {l : List Stream} {si : BitVec 16} {f : Reasm.Q → Reasm.Q}
    (h : ∀ x ∈ l, P x.q) (hf : ∀ q, P q → P (f q)) : ∀ x ∈ setQ l si f, P x.q := by
  intro x' hx'
  obtain ⟨x, hx, rfl | rfl⟩ := mem_setQ hx'
  · exact h _ hx
  · exact hf _ (h _ hx)

theorem getS_mem {l : List Stream} {si : BitVec 16} {x : Stream} (h : getS l si = some x) : x ∈ l ∧ x.si = si := by
  simp only [getS] at h
  exact ⟨List.mem_of_find?_eq_some h, by simpa using List.find?_some h⟩

/-! ### createStream / getOrCreateStream -/

theorem createStream_cases (s : St) (si : BitVec 16) (accept : Bool) :
    ((createStream s si accept).1 = s ∧ (createStream s si accept).2 = none) ∨
    (∃ strm : Stream, strm.q = Reasm.new si s.maxEntries ∧ strm.si = si ∧ (createStream s si accept).2 = some strm ∧
      (createStream s si accept).1.streams = s.streams ++ [strm] ∧ (createStream s si accept).1.gone = s.gone ∧
      (createStream s si accept).1.pq = s.pq ∧ (createStream s si accept).1.maxEntries = s.maxEntries) := by
  unfold createStream
  split
  · split
    · right; exact ⟨_, rfl, rfl, rfl, rfl, rfl, rfl, rfl⟩
    · left; exact ⟨rfl, rfl⟩
  · right; exact ⟨_, rfl, rfl, rfl, rfl, rfl, rfl, rfl⟩

theorem createStream_allQ_g {P : Nat → Reasm.Q → Prop} (hP : GPres P) {b : Nat} {s : St} (h : AllQ (P b) s)
    (si : BitVec 16) (accept : Bool) : AllQ (P b) (createStream s si accept).1 := by
  rcases createStream_cases s si accept with ⟨e, _⟩ | ⟨strm, hq, _, _, hs, hg, _, _⟩
  · rw [e]; exact h
  · refine ⟨?_, by rw [hg]; exact h.2⟩
    rw [hs]
    intro x hx
    simp only [List.mem_append, List.mem_singleton] at hx
    rcases hx with hx | rfl
    · exact h.1 x hx
    · rw [hq]; exact hP.mono 0 b _ (Nat.zero_le _) (hP.new _ _)

theorem getOrCreateStream_allQ_g {P : Nat → Reasm.Q → Prop} (hP : GPres P) {b : Nat} {s : St} (h : AllQ (P b) s)
    (si : BitVec 16) (accept : Bool) : AllQ (P b) (getOrCreateStream s si accept).1 := by
  unfold getOrCreateStream
  split
  · exact h
  · exact createStream_allQ_g hP h si accept

/-! ### resets -/

theorem unregister_allQ {P : Reasm.Q → Prop} {s : St} (h : AllQ P s) (id : BitVec 16) : AllQ P (unregister s id) := by
  unfold unregister
  split
  · exact h
  · rename_i x hx
    refine ⟨fun y hy => h.1 y (List.mem_filter.mp hy).1, ?_⟩
    intro y hy
    simp only [List.mem_append, List.mem_singleton] at hy
    rcases hy with hy | rfl
    · exact h.2 y hy
    · exact h.1 x (getS_mem hx).1

theorem foldl_unregister_allQ {P : Reasm.Q → Prop} (ids : List (BitVec 16)) {s : St} (h : AllQ P s) :
    AllQ P (ids.foldl unregister s) := by
  induction ids generalizing s with
  | nil => exact h
  | cons id ids ih => exact ih (unregister_allQ h id)

theorem resetStreamsIfAny_allQ {P : Reasm.Q → Prop} {s : St} (h : AllQ P s) (r : ResetReq) : AllQ P (resetStreamsIfAny s r) := by
  unfold resetStreamsIfAny
  split
  · exact foldl_unregister_allQ r.ids h
  · exact h

theorem foldl_reset_allQ {P : Reasm.Q → Prop} (rs : List ResetReq) {s : St} (h : AllQ P s) :
    AllQ P (rs.foldl resetStreamsIfAny s) := by
  induction rs generalizing s with
  | nil => exact h
  | cons r rs ih => exact ih (resetStreamsIfAny_allQ h r)

theorem handleResetReq_allQ {P : Reasm.Q → Prop} {s : St} (h : AllQ P s) (r : ResetReq) : AllQ P (handleResetReq s r) := by
  unfold handleResetReq
  split
  · exact h
  · split
    · exact h
    · exact resetStreamsIfAny_allQ (s := { s with resetReqs := s.resetReqs.filter (fun x => x.rsn != r.rsn) ++ [r] }) h r

/-! ### acknowledgement step -/

theorem popLoop_allQ {P : Reasm.Q → Prop} (n : Nat) {s : St} (h : AllQ P s) : AllQ P (popLoop n s) := by
  induction n generalizing s with
  | zero => exact h
  | succ n ih =>
    simp only [popLoop]
    split
    · exact ih (foldl_reset_allQ _ (s := { s with pq := _ }) h)
    · exact h

theorem ackStep_allQ {P : Reasm.Q → Prop} {s : St} (h : AllQ P s) (b : Bool) : AllQ P (ackStep s b) := by
  have := popLoop_allQ (P := P) s.pq.size.toNat h
  unfold ackStep
  dsimp only
  split
  · exact this
  · split
    · split <;> exact this
    · exact this

/-! ### DATA -/

theorem pushToStream_allQ_g {P : Nat → Reasm.Q → Prop} (hP : GPres P) {b : Nat} {s : St} (h : AllQ (P b) s)
    (c : Reasm.Chunk) : AllQ (P (b + c.len)) (pushToStream s c).1 := by
  have hm := AllQ.mono hP (Nat.le_add_right b c.len) h
  unfold pushToStream
  dsimp only
  split
  · exact hm
  · rename_i x hx
    have hx' := (getS_mem hx).1
    have hq : P (b + c.len) (x.q.pushWithError c).1 := hP.step b x.q (.push c) (h.1 x hx')
    have hs : ∀ y ∈ setQ s.streams c.si (fun _ => (x.q.pushWithError c).1), P (b + c.len) y.q := by
      intro y hy
      obtain ⟨z, hz, rfl | rfl⟩ := mem_setQ hy
      · exact hm.1 _ hz
      · exact hq
    split <;> exact ⟨hs, hm.2⟩

theorem acceptPayloadData_allQ_g {P : Nat → Reasm.Q → Prop} (hP : GPres P) {b : Nat} {s : St} (h : AllQ (P b) s)
    (c : Reasm.Chunk) : AllQ (P (b + c.len)) (acceptPayloadData s c).1 := by
  unfold acceptPayloadData
  have hg := getOrCreateStream_allQ_g hP h c.si true
  split
  · rename_i s' heq; rw [heq] at hg; exact AllQ.mono hP (Nat.le_add_right _ _) hg
  · rename_i s' x heq
    rw [heq] at hg
    split
    · exact pushToStream_allQ_g hP hg c
    · dsimp only
      split
      · exact AllQ.mono hP (Nat.le_add_right _ _) hg
      · exact pushToStream_allQ_g hP hg c

theorem handleData_allQ_g {P : Nat → Reasm.Q → Prop} (hP : GPres P) {b : Nat} {s : St} (h : AllQ (P b) s)
    (c : Reasm.Chunk) (imm : Bool) : AllQ (P (b + c.len)) (handleData s c imm) := by
  have hm := AllQ.mono hP (Nat.le_add_right b c.len) h
  unfold handleData
  dsimp only
  split
  · exact hm
  · split
    · exact hm
    · by_cases hcp : RecvQ.canPush s.pq c.tsn = true
      · simp only [if_pos hcp]
        have hr := acceptPayloadData_allQ_g hP h c
        split
        · split
          · exact ackStep_allQ hr _
          · exact hr
        · exact ackStep_allQ hr _
      · simp only [if_neg hcp]
        split
        · split
          · exact ackStep_allQ hm _
          · exact hm
        · exact ackStep_allQ hm _

/-! ### FORWARD-TSN -/

theorem fwdEntry_allQ_g {P : Nat → Reasm.Q → Prop} (hP : GPres P) {b : Nat} {s : St} (h : AllQ (P b) s)
    (e : BitVec 16 × BitVec 16) : AllQ (P b) (fwdEntry s e) := by
  unfold fwdEntry
  dsimp only
  have hc := createStream_allQ_g hP h e.1 true
  have key : ∀ s' : St, AllQ (P b) s' →
      AllQ (P b) { s' with streams := setQ s'.streams e.1 (fun q => q.forwardTSNForOrdered e.2) } := fun s' h' =>
    ⟨allQ_setQ (f := fun q => q.forwardTSNForOrdered e.2) h'.1 (fun q hq => hP.step b q (.fwdO e.2) hq), h'.2⟩
  split
  · split
    · exact key _ h
    · exact h
  · split
    · exact key _ hc
    · exact hc

theorem foldl_fwdEntry_allQ_g {P : Nat → Reasm.Q → Prop} (hP : GPres P) {b : Nat} (es : List (BitVec 16 × BitVec 16))
    {s : St} (h : AllQ (P b) s) : AllQ (P b) (es.foldl fwdEntry s) := by
  induction es generalizing s with
  | nil => exact h
  | cons e es ih => exact ih (fwdEntry_allQ_g hP h e)

theorem handleFwd_allQ_g {P : Nat → Reasm.Q → Prop} (hP : GPres P) {b : Nat} {s : St} (h : AllQ (P b) s) (c : TSN)
    (es : List (BitVec 16 × BitVec 16)) : AllQ (P b) (handleFwd s c es) := by
  unfold handleFwd
  split
  · exact h
  · split
    · exact h
    · split
      · exact h
      · apply ackStep_allQ
        have h1 := foldl_fwdEntry_allQ_g hP es (s := { s with pq := RecvQ.advance s.pq c }) h
        refine ⟨?_, h1.2⟩
        intro x hx
        simp only [List.mem_map] at hx
        obtain ⟨y, hy, rfl⟩ := hx
        exact hP.step b y.q (.fwdU c) (h1.1 y hy)

theorem ifwdEntry_allQ_g {P : Nat → Reasm.Q → Prop} (hP : GPres P) {b : Nat} {s : St} (h : AllQ (P b) s)
    (e : BitVec 16 × Bool × BitVec 32) : AllQ (P b) (ifwdEntry s e) := by
  unfold ifwdEntry
  dsimp only
  have hc := createStream_allQ_g hP h e.1 true
  have key : ∀ s' : St, AllQ (P b) s' →
      AllQ (P b) { s' with streams := setQ s'.streams e.1 (fun q =>
        if e.2.1 then q.forwardTSNForUnorderedMID e.2.2 else q.forwardTSNForOrderedMID e.2.2) } := fun s' h' =>
    ⟨allQ_setQ (f := fun q => if e.2.1 then q.forwardTSNForUnorderedMID e.2.2 else q.forwardTSNForOrderedMID e.2.2) h'.1
      (fun q hq => by
        show P b (if e.2.1 then q.forwardTSNForUnorderedMID e.2.2 else q.forwardTSNForOrderedMID e.2.2)
        split
        · exact hP.step b q (.fwdUM e.2.2) hq
        · exact hP.step b q (.fwdOM e.2.2) hq), h'.2⟩
  split
  · split
    · exact key _ h
    · exact h
  · split
    · exact key _ hc
    · exact hc

theorem foldl_ifwdEntry_allQ_g {P : Nat → Reasm.Q → Prop} (hP : GPres P) {b : Nat}
    (es : List (BitVec 16 × Bool × BitVec 32)) {s : St} (h : AllQ (P b) s) : AllQ (P b) (es.foldl ifwdEntry s) := by
  induction es generalizing s with
  | nil => exact h
  | cons e es ih => exact ih (ifwdEntry_allQ_g hP h e)

theorem handleIFwd_allQ_g {P : Nat → Reasm.Q → Prop} (hP : GPres P) {b : Nat} {s : St} (h : AllQ (P b) s) (c : TSN)
    (es : List (BitVec 16 × Bool × BitVec 32)) : AllQ (P b) (handleIFwd s c es) := by
  unfold handleIFwd
  split
  · exact h
  · split
    · exact h
    · exact ackStep_allQ (foldl_ifwdEntry_allQ_g hP es (s := { s with pq := RecvQ.advance s.pq c }) h) _

/-! ### packets, application, writer, clock -/

theorem handleChunk_allQ_g {P : Nat → Reasm.Q → Prop} (hP : GPres P) {b : Nat} {s : St} (h : AllQ (P b) s) (c : InChunk) :
    AllQ (P (b + chunkBytes c)) (handleChunk s c) := by
  cases c with
  | data d imm =>
    simp only [handleChunk, chunkBytes]
    split
    · exact AllQ.mono hP (Nat.le_add_right _ _) h
    · exact handleData_allQ_g hP h d imm
  | fwd t es => exact handleFwd_allQ_g hP h t es
  | ifwd t es => exact handleIFwd_allQ_g hP h t es
  | hb info => exact h
  | reset r => exact handleResetReq_allQ h r

theorem foldl_handleChunk_allQ_g {P : Nat → Reasm.Q → Prop} (hP : GPres P) (cs : List InChunk) {b : Nat} {s : St}
    (h : AllQ (P b) s) : AllQ (P (b + (cs.map chunkBytes).sum)) (cs.foldl handleChunk s) := by
  induction cs generalizing b s with
  | nil => exact h
  | cons c cs ih =>
    have := ih (handleChunk_allQ_g hP h c)
    simp only [List.map_cons, List.sum_cons, List.foldl_cons]
    rw [← Nat.add_assoc]; exact this

theorem chunksEnd_allQ {P : Reasm.Q → Prop} {s : St} (h : AllQ P s) : AllQ P (chunksEnd s) := by
  unfold chunksEnd; split; exact h; split <;> exact h

theorem packet_allQ_g {P : Nat → Reasm.Q → Prop} (hP : GPres P) {b : Nat} {s : St} (h : AllQ (P b) s) (cs : List InChunk) :
    AllQ (P (b + (cs.map chunkBytes).sum)) (packet s cs) :=
  chunksEnd_allQ (foldl_handleChunk_allQ_g hP cs (s := chunksStart s) h)

theorem readStream_q {P : Nat → Reasm.Q → Prop} (hP : GPres P) {b : Nat} (x : Stream) (n : Nat) (h : P b x.q) :
    P b (readStream x n).1.q := by
  unfold readStream
  dsimp only
  split
  · exact hP.step b x.q (.read n) h
  · exact h
  · exact h

theorem mem_setFirst {p : Stream → Bool} {v : Stream} {l : List Stream} {y : Stream} (h : y ∈ setFirst p v l) : y ∈ l ∨ y = v := by
  induction l with
  | nil => simp [setFirst] at h
  | cons z l ih =>
    simp only [setFirst] at h
    split at h
    · simp only [List.mem_cons] at h
      rcases h with rfl | h
      · right; rfl
      · left; exact List.mem_cons_of_mem _ h
    · simp only [List.mem_cons] at h
      rcases h with rfl | h
      · left; exact List.mem_cons_self
      · rcases ih h with h | h
        · left; exact List.mem_cons_of_mem _ h
        · right; exact h

theorem read_allQ_g {P : Nat → Reasm.Q → Prop} (hP : GPres P) {b : Nat} {s : St} (h : AllQ (P b) s) (nm : Name) (n : Nat) :
    AllQ (P b) (read s nm n).1 := by
  unfold read
  split
  · rename_i x hx
    refine ⟨?_, h.2⟩
    intro y hy
    rcases mem_setFirst hy with hy | rfl
    · exact h.1 y hy
    · exact readStream_q hP x n (h.1 x (List.mem_of_find?_eq_some hx))
  · split
    · rename_i x hx
      refine ⟨h.1, ?_⟩
      intro y hy
      rcases mem_setFirst hy with hy | rfl
      · exact h.2 y hy
      · exact readStream_q hP x n (h.2 x (List.mem_of_find?_eq_some hx))
    · exact h

theorem gather_allQ {P : Reasm.Q → Prop} {s : St} (h : AllQ P s) : AllQ P (gather s).1 := by
  unfold gather
  split
  · exact h
  · dsimp only
    split <;> exact h

theorem tick_allQ {P : Reasm.Q → Prop} {s : St} (h : AllQ P s) (d : Nat) : AllQ P (tick s d) := by
  unfold tick
  dsimp only
  split
  · split
    · split <;> exact h
    · exact h
  · exact h

theorem openStream_allQ_g {P : Nat → Reasm.Q → Prop} (hP : GPres P) {b : Nat} {s : St} (h : AllQ (P b) s) (si : BitVec 16) :
    AllQ (P b) (openStream s si).1 := by
  unfold openStream
  split
  · exact h
  · exact getOrCreateStream_allQ_g hP h si false

theorem accept_allQ {P : Reasm.Q → Prop} {s : St} (h : AllQ P s) : AllQ P (accept s).1 := by
  unfold accept; split <;> exact h

/-- ✱ graded lifting: after any association step every stream object's queue satisfies the property at the budget
increased by the user bytes of the DATA chunks of the step -/
theorem step_allQ_g {P : Nat → Reasm.Q → Prop} (hP : GPres P) {b : Nat} {s : St} (h : AllQ (P b) s) (op : Op) :
    AllQ (P (b + opBytes op)) (step s op) := by
  cases op with
  | pkt cs => exact packet_allQ_g hP h cs
  | read n k => exact read_allQ_g hP h n k
  | accept => exact accept_allQ h
  | «open» si => exact openStream_allQ_g hP h si
  | gather => exact gather_allQ h
  | tick d => exact tick_allQ h d
  | setState st => exact h

theorem run_allQ_g {P : Nat → Reasm.Q → Prop} (hP : GPres P) (ops : List Op) {b : Nat} {s : St} (h : AllQ (P b) s) :
    AllQ (P (b + (ops.map opBytes).sum)) (run s ops) := by
  induction ops generalizing b s with
  | nil => exact h
  | cons op ops ih =>
    have := ih (step_allQ_g hP h op)
    simp only [List.map_cons, List.sum_cons, run, List.foldl_cons]
    rw [← Nat.add_assoc]; exact this

theorem init_allQ (P : Reasm.Q → Prop) (a b : BitVec 32) (c d e : Bool) (f : Int) (t : TSN) : AllQ P (init a b c d e f t) :=
  ⟨by intro x hx; simp [init] at hx, by intro x hx; simp [init] at hx⟩

/-! ### ungraded corollaries -/

theorem getOrCreateStream_allQ {P : Reasm.Q → Prop} (hP : QPres P) {s : St} (h : AllQ P s) (si : BitVec 16) (accept : Bool) :
    AllQ P (getOrCreateStream s si accept).1 := getOrCreateStream_allQ_g (b := 0) hP.graded h si accept

theorem handleChunk_allQ {P : Reasm.Q → Prop} (hP : QPres P) {s : St} (h : AllQ P s) (c : InChunk) : AllQ P (handleChunk s c) :=
  handleChunk_allQ_g (b := 0) hP.graded h c

theorem packet_allQ {P : Reasm.Q → Prop} (hP : QPres P) {s : St} (h : AllQ P s) (cs : List InChunk) : AllQ P (packet s cs) :=
  packet_allQ_g (b := 0) hP.graded h cs

/-- ✱ lifting: a queue property established by `new` and kept by every queue operation holds for every stream
object after any association step -/
theorem step_allQ {P : Reasm.Q → Prop} (hP : QPres P) {s : St} (h : AllQ P s) (op : Op) : AllQ P (step s op) :=
  step_allQ_g (b := 0) hP.graded h op

theorem run_allQ {P : Reasm.Q → Prop} (hP : QPres P) (ops : List Op) {s : St} (h : AllQ P s) : AllQ P (run s ops) :=
  run_allQ_g (b := 0) hP.graded ops h

end Receiver
