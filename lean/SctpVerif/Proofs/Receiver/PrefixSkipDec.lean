import SctpVerif.Proofs.Receiver.PrefixSkipRun
/-!
Executable (decidable) forms of the premises of `skip_receiver` — `GoodChunkS` and `FwdOk` — and their soundness, so that
the premises can be exhibited on concrete runs by `decide`.
-/
namespace Receiver
open Gen

/-- decidable form of `EntOk` (bounded quantifiers only) -/
def EntOkD (S : Reasm.Sender) (K : Nat → Bool) (G : List TSN) (es : List (BitVec 16 × BitVec 16)) : Bool :=
  es.all fun e => !(e.1 == S.si) || (List.range S.msgs.length).any fun L =>
    (e.2 == BitVec.ofNat 16 L) && (List.range (L + 1)).all fun k => K k || (List.range (S.nf k)).all fun i => G.contains (S.dataFrag k i).tsn

theorem EntOkD.sound {S K G es} (h : EntOkD S K G es = true) : EntOk S K G es := by
  intro e he hsi
  have h1 := List.all_eq_true.1 h e he
  rw [Bool.or_eq_true] at h1
  rcases h1 with h1 | h1
  · simp [hsi] at h1
  · obtain ⟨L, hL, h2⟩ := List.any_eq_true.1 h1
    rw [Bool.and_eq_true] at h2
    refine ⟨L, List.mem_range.1 hL, by simpa using h2.1, ?_⟩
    intro k hk hK i hi
    have h3 := List.all_eq_true.1 h2.2 k (List.mem_range.2 hk)
    rw [Bool.or_eq_true] at h3
    rcases h3 with h3 | h3
    · rw [hK] at h3; cases h3
    · have := List.all_eq_true.1 h3 i (List.mem_range.2 hi)
      simpa using this

/-- decidable form of `GoodChunkS` -/
def GoodD (U : UnivS) (S : Reasm.Sender) : InChunk → Bool
  | .data c _ => U.senders.any fun S' => (List.range S'.msgs.length).any fun k => (List.range (S'.nf k)).any fun i =>
      decide (c = S'.dataFrag k i) && (List.range S.msgs.length).all fun k0 => (List.range (S.nf k0)).all fun i0 =>
        !((S.dataFrag k0 i0).tsn == c.tsn) || (S'.si == S.si && decide (k = k0) && decide (i = i0))
  | .fwd nc _ => (List.range U.N).any fun n => nc == U.t + BitVec.ofNat 32 n
  | _ => false

theorem GoodD.sound {U : UnivS} {S : Reasm.Sender} (hS : S ∈ U.senders) {ch : InChunk} (h : GoodD U S ch = true) : GoodChunkS U S ch := by
  cases ch with
  | data c imm =>
    left
    simp only [GoodD] at h
    obtain ⟨S', hS', h1⟩ := List.any_eq_true.1 h
    obtain ⟨k, hk, h2⟩ := List.any_eq_true.1 h1
    obtain ⟨i, hi, h3⟩ := List.any_eq_true.1 h2
    rw [Bool.and_eq_true, decide_eq_true_eq] at h3
    obtain ⟨hc, h4⟩ := h3
    refine ⟨S', hS', k, i, imm, List.mem_range.1 hk, List.mem_range.1 hi, by rw [hc], ?_⟩
    intro k0 i0 hk0 hi0 ht
    have h5 := List.all_eq_true.1 (List.all_eq_true.1 h4 k0 (List.mem_range.2 hk0)) i0 (List.mem_range.2 hi0)
    rw [Bool.or_eq_true] at h5
    rcases h5 with h5 | h5
    · rw [hc] at h5; simp [ht] at h5
    · simp only [Bool.and_eq_true, beq_iff_eq, decide_eq_true_eq] at h5
      exact ⟨U.si S hS S' hS' h5.1.1, h5.1.2, h5.2⟩
  | fwd nc es =>
    right
    simp only [GoodD] at h
    obtain ⟨n, hn, h1⟩ := List.any_eq_true.1 h
    exact ⟨nc, es, n, rfl, List.mem_range.1 hn, by simpa using h1⟩
  | ifwd nc es => simp [GoodD] at h
  | hb info => simp [GoodD] at h
  | reset r => simp [GoodD] at h

/-- every chunk of every packet of the op list passes `GoodD` -/
def goodOpsD (U : UnivS) (S : Reasm.Sender) (ops : List Op) : Bool :=
  ops.all fun op => match op with | .pkt cs => cs.all (GoodD U S) | _ => true

theorem goodOpsD.sound {U : UnivS} {S : Reasm.Sender} (hS : S ∈ U.senders) {ops : List Op} (h : goodOpsD U S ops = true) :
    ∀ cs, Op.pkt cs ∈ ops → ∀ ch ∈ cs, GoodChunkS U S ch := by
  intro cs hcs ch hch
  have := List.all_eq_true.1 h _ hcs
  exact GoodD.sound hS (List.all_eq_true.1 this ch hch)

theorem pushedC_cons (x : St) (ch : InChunk) (cs : List InChunk) :
    pushedC x (ch :: cs) = pushedC x [ch] ++ pushedC (handleChunk x ch) cs := by
  simp [pushedC]

/-- decidable form of `FwdOk`, inside a packet … -/
def fwdOkC (S : Reasm.Sender) (K : Nat → Bool) : St → List TSN → List InChunk → Bool
  | _, _, [] => true
  | x, G, ch :: cs =>
    (match ch with
     | .fwd nc es => (chunkTrace x (.fwd nc es)).isEmpty || EntOkD S K G es
     | _ => true) && fwdOkC S K (handleChunk x ch) (G ++ pushedC x [ch]) cs

/-- … and along a run -/
def fwdOkR (S : Reasm.Sender) (K : Nat → Bool) : St → List TSN → List Op → Bool
  | _, _, [] => true
  | s, G, op :: ops =>
    (match op with | .pkt cs => fwdOkC S K (chunksStart s) G cs | _ => true) && fwdOkR S K (step s op) (G ++ pushedO s op) ops

theorem fwdOkC.sound {S K} (cs : List InChunk) : ∀ (x : St) (G : List TSN), fwdOkC S K x G cs = true →
    ∀ cs1 nc es cs2, cs = cs1 ++ InChunk.fwd nc es :: cs2 →
      chunkTrace (cs1.foldl handleChunk x) (.fwd nc es) = [.fwd nc] → EntOk S K (G ++ pushedC x cs1) es := by
  induction cs with
  | nil => intro x G _ cs1 nc es cs2 he; simp at he
  | cons ch cs ih =>
    intro x G h cs1 nc es cs2 he htr
    simp only [fwdOkC, Bool.and_eq_true] at h
    cases cs1 with
    | nil =>
      simp only [List.nil_append, List.cons.injEq] at he
      obtain ⟨rfl, _⟩ := he
      have h1 := h.1
      simp only [Bool.or_eq_true] at h1
      rcases h1 with h1 | h1
      · simp only [List.foldl_nil] at htr; rw [htr] at h1; simp at h1
      · simpa [pushedC] using EntOkD.sound h1
    | cons c cs1' =>
      simp only [List.cons_append, List.cons.injEq] at he
      obtain ⟨rfl, he'⟩ := he
      have := ih _ _ h.2 cs1' nc es cs2 he' (by simpa using htr)
      rw [pushedC_cons, ← List.append_assoc]
      exact this

theorem fwdOkR.sound {S K} (ops : List Op) : ∀ (s : St) (G : List TSN), fwdOkR S K s G ops = true → FwdOk S K s G ops := by
  induction ops with
  | nil => intro s G _ ops1 cs1 nc es cs2 ops2 he; simp at he
  | cons op ops ih =>
    intro s G h ops1 cs1 nc es cs2 ops2 he htr
    simp only [fwdOkR, Bool.and_eq_true] at h
    cases ops1 with
    | nil =>
      simp only [List.nil_append, List.cons.injEq] at he
      obtain ⟨rfl, _⟩ := he
      have := fwdOkC.sound _ _ _ h.1 cs1 nc es cs2 rfl (by simpa [Receiver.run] using htr)
      simpa [pushedT, Receiver.run] using this
    | cons o ops1' =>
      simp only [List.cons_append, List.cons.injEq] at he
      obtain ⟨rfl, he'⟩ := he
      have := ih _ _ h.2 ops1' cs1 nc es cs2 ops2 he' (by simpa [Receiver.run] using htr)
      simpa [pushedT, Receiver.run, List.append_assoc] using this

end Receiver
