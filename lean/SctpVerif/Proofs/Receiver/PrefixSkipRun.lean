import SctpVerif.Proofs.Receiver.PrefixSkip
/-!
The receive-side simulation with skips, continued: reads, the other operations, packets, runs, and the receive-side
theorem `skip_receiver` (ordered DATA, fewer than 2^15 messages on the stream, no entry limit).
-/
namespace Receiver
open Gen

/-! ### the application reads -/

/-- ✱ a read keeps the simulation; on the stream under study it delivers nothing, or one whole message `m` -/
theorem PS.readStep {U : UnivS} {S : Reasm.Sender} {K s R G c A P D} (h : PS U S K s R G c A P D) (hS : S ∈ U.senders)
    (hlen : S.msgs.length < 2^15) (nm : Name) (n : Nat) :
    (readOut S.si s (.read nm n) = [] ∧ PS U S K (read s nm n).1 R G c A P D) ∨
    (∃ m c' A', readOut S.si s (.read nm n) = [Reasm.Msg.out (S.msg m)] ∧ PS U S K (read s nm n).1 R G c' A' P (D ++ [m])) := by
  unfold readOut
  dsimp only
  cases hf : s.streams.find? (fun x => x.si == nm.1 && x.inc == nm.2) with
  | none =>
    have hr : read s nm n = (s, .nostream) := by
      unfold read; rw [hf]; dsimp only; rw [h.nr.2]; rfl
    rw [hr]
    left
    exact ⟨by split <;> rfl, h⟩
  | some x =>
    have hxm : x ∈ s.streams := List.mem_of_find?_eq_some hf
    have hxs : x.si = nm.1 := by
      have := List.find?_some hf; simp only [Bool.and_eq_true, beq_iff_eq] at this; exact this.1
    let g : Stream → Stream := fun y => if (y.si == nm.1 && y.inc == nm.2) = true then (readStream x n).1 else y
    have hrsi : (readStream x n).1.si = nm.1 := by
      have : (readStream x n).1.si = x.si := by unfold readStream; dsimp only; split <;> rfl
      rw [this, hxs]
    have hr : read s nm n = ({ s with streams := s.streams.map g }, (readStream x n).2) := by
      unfold read; rw [hf]
      dsimp only
      rw [setFirst_eq_map s.streams h.tb nm.1 nm.2 _ hrsi]
    have hgsi : ∀ y, (g y).si = y.si := by
      intro y
      show (if (y.si == nm.1 && y.inc == nm.2) = true then (readStream x n).1 else y).si = y.si
      split
      · rename_i hy
        simp only [Bool.and_eq_true, beq_iff_eq] at hy
        have : (readStream x n).1.si = x.si := by unfold readStream; dsimp only; split <;> rfl
        rw [this, hxs, hy.1]
      · rfl
    have hnr' : NoReset ({ s with streams := s.streams.map g } : St) := h.nr
    have htb' : TblOK ({ s with streams := s.streams.map g } : St) := by
      unfold TblOK
      show ((s.streams.map g).map (·.si)).Nodup
      rw [List.map_map]
      have : ((fun x => x.si) ∘ g) = fun x => x.si := by funext y; exact hgsi y
      rw [this]; exact h.tb
    have hqOf : ∀ si, qOf ({ s with streams := s.streams.map g } : St) si = ((getS s.streams si).map (fun y => (g y).q)).getD (Reasm.new si s.maxEntries) := by
      intro si
      show ((getS (s.streams.map g) si).map (·.q)).getD _ = _
      rw [getS_map _ g hgsi]
      cases getS s.streams si <;> rfl
    have hrinv' : ReceiverPR.RInv U.t ({ s with streams := s.streams.map g } : St) R U.N (fun _ => True) G :=
      h.rinv.same_pq _ rfl
    rw [hr]
    by_cases hsi : nm.1 = S.si
    · -- a read on our stream
      have hgx : getS s.streams S.si = some x := by
        rw [← hsi, ← hxs]; exact getS_of_mem_nodup _ h.tb x hxm
      have hqx : qOf s S.si = x.q := by unfold qOf; rw [hgx]; rfl
      have hgxx : g x = (readStream x n).1 := by
        show (if (x.si == nm.1 && x.inc == nm.2) = true then (readStream x n).1 else x) = _
        rw [if_pos (List.find?_some hf)]
      have hq' : qOf ({ s with streams := s.streams.map g } : St) S.si = (readStream x n).1.q := by
        rw [hqOf, hgx]; simp [hgxx]
      have hsk := h.sk
      have hqne := h.qne
      have hqme := h.qme
      rw [hqx] at hsk hqne hqme
      simp only [hsi, if_true]
      rcases hsk.read (U.wf S hS) n with ⟨hne, hsame⟩ | ⟨m, hok, hppi, hdata, _, A', hinv'⟩
      · left
        have hrs : (readStream x n).1.q = x.q ∧ (match (readStream x n).2 with | .ok _ ppi data => [(ppi, data)] | _ => []) = ([] : List (Reasm.PPI × List UInt8)) := by
          unfold readStream
          dsimp only
          split
          · rename_i he; exact absurd he hne
          · exact ⟨rfl, rfl⟩
          · constructor
            · rfl
            · cases x.readErr <;> rfl
        refine ⟨hrs.2, hnr', htb', hrinv', h.gacc, ?_, ?_, ?_, h.pg, h.cl⟩
        · rw [hq', hrs.1]; exact hsk
        · rw [hq', hrs.1]; exact hqne
        · rw [hq', hrs.1]; exact hqme
      · right
        have hrs : (readStream x n).1.q = (x.q.read n).1 ∧ (readStream x n).2 = .ok (x.q.read n).2.n (x.q.read n).2.ppi (x.q.read n).2.data := by
          unfold readStream
          dsimp only
          rw [hok]
          exact ⟨rfl, rfl⟩
        have hm := (hinv'.dlt m (List.mem_append_right _ (by simp)))
        have hcl' : (if m = c then c + 1 else c) ≤ S.msgs.length := by
          have := h.cl
          split
          · rename_i e; subst e; omega
          · exact this
        refine ⟨m, _, A', ?_, hnr', htb', hrinv', h.gacc, ?_, ?_, ?_, h.pg, hcl'⟩
        · rw [hrs.2]; simp [Reasm.Msg.out, hppi, hdata]
        · rw [hq', hrs.1]; exact hinv'.lower0 hlen hcl'
        · rw [hq', hrs.1]; exact Reasm.read_noEmpty _ n hqne
        · rw [hq', hrs.1, Reasm.read_maxEntries]; exact hqme
    · left
      have : qOf ({ s with streams := s.streams.map g } : St) S.si = qOf s S.si := by
        rw [hqOf]
        unfold qOf
        cases hgs : getS s.streams S.si with
        | none => rfl
        | some y =>
          have hys := (getS_mem hgs).2
          have : g y = y := by
            show (if (y.si == nm.1 && y.inc == nm.2) = true then (readStream x n).1 else y) = y
            rw [if_neg]
            simp only [Bool.and_eq_true, beq_iff_eq, not_and]
            intro e; exact absurd (e.symm.trans hys) hsi
          simp [this]
      refine ⟨by simp [hsi], hnr', htb', hrinv', h.gacc, ?_, ?_, ?_, h.pg, h.cl⟩
      · rw [this]; exact h.sk
      · rw [this]; exact h.qne
      · rw [this]; exact h.qme

/-! ### the other ops -/

theorem PS.otherStep {U : UnivS} {S : Reasm.Sender} {K s R G c A P D} (h : PS U S K s R G c A P D) (op : Op)
    (hop : (∀ cs, op ≠ .pkt cs) ∧ (∀ nm n, op ≠ .read nm n)) :
    PS U S K (step s op) (RecvQ.run R (opTrace s op)) G c A P D := by
  obtain ⟨hri, hh⟩ := h.rinv.other op hop.1
  have hg : ∀ x ∈ G, ∃ k, (RecvQ.run R (opTrace s op)).h.acc k ∧ x = U.t + BitVec.ofNat 32 (k - 1) := by
    rw [hh]; exact h.gacc
  have fin : NoReset (step s op) → TblOK (step s op) → qOf (step s op) S.si = qOf s S.si →
      PS U S K (step s op) (RecvQ.run R (opTrace s op)) G c A P D := fun a b e =>
    ⟨a, b, hri, hg, by rw [e]; exact h.sk, by rw [e]; exact h.qne, by rw [e]; exact h.qme, h.pg, h.cl⟩
  cases op with
  | pkt cs => exact absurd rfl (hop.1 cs)
  | read nm n => exact absurd rfl (hop.2 nm n)
  | accept =>
    have ht : tbl (accept s).1 = tbl s := by unfold accept; split <;> rfl
    exact fin (noReset_of_tbl ht h.nr) (tblOK_of_tbl ht h.tb) (qOf_of_tbl ht _)
  | «open» si =>
    have hq : qOf (openStream s si).1 S.si = qOf s S.si := by
      unfold openStream; split; rfl; exact qOf_getOrCreateStream s si false _
    have hn : NoReset (openStream s si).1 := by
      unfold openStream; split; exact h.nr; exact getOrCreateStream_noReset s si false h.nr
    have ht : TblOK (openStream s si).1 := by
      unfold openStream; split; exact h.tb; exact getOrCreateStream_tblOK s si false h.tb
    exact fin hn ht hq
  | gather =>
    have ht : tbl (gather s).1 = tbl s := by
      unfold gather; dsimp only; repeat' split
      all_goals rfl
    exact fin (noReset_of_tbl ht h.nr) (tblOK_of_tbl ht h.tb) (qOf_of_tbl ht _)
  | tick dd =>
    have ht : tbl (tick s dd) = tbl s := by
      unfold tick; dsimp only; repeat' split
      all_goals rfl
    exact fin (noReset_of_tbl ht h.nr) (tblOK_of_tbl ht h.tb) (qOf_of_tbl ht _)
  | setState st => exact fin h.nr h.tb rfl

/-! ### packets -/

theorem PS.sameTbl {U : UnivS} {S : Reasm.Sender} {K s R G c A P D} (h : PS U S K s R G c A P D) (s' : St)
    (ht : tbl s' = tbl s) (hpq : s'.pq = s.pq) : PS U S K s' R G c A P D :=
  ⟨noReset_of_tbl ht h.nr, tblOK_of_tbl ht h.tb, h.rinv.same_pq s' hpq, h.gacc, by rw [qOf_of_tbl ht]; exact h.sk,
   by rw [qOf_of_tbl ht]; exact h.qne, by rw [qOf_of_tbl ht]; exact h.qme, h.pg, h.cl⟩

theorem PS.chunksStep {U : UnivS} {S : Reasm.Sender} {K : Nat → Bool} (hS : S ∈ U.senders) (hlen : S.msgs.length < 2^15)
    {D : List Nat} (cs : List InChunk) :
    ∀ {x : St} {R : RecvQ.St} {G : List TSN} {c : Nat} {A : Reasm.Tab} {P : List (Nat × Nat)}, PS U S K x R G c A P D →
    (∀ ch ∈ cs, GoodChunkS U S ch) →
    (∀ cs1 nc es cs2, cs = cs1 ++ InChunk.fwd nc es :: cs2 →
      chunkTrace (cs1.foldl handleChunk x) (.fwd nc es) = [.fwd nc] → EntOk S K (G ++ pushedC x cs1) es) →
    ∃ R' c' A' P', PS U S K (cs.foldl handleChunk x) R' (G ++ pushedC x cs) c' A' P' D := by
  induction cs with
  | nil => intro x R G c A P h _ _; exact ⟨R, c, A, P, by simpa [pushedC] using h⟩
  | cons ch cs ih =>
    intro x R G c A P h hgood hent
    rcases hgood ch List.mem_cons_self with ⟨S', hS', k, i, imm, hk, hi, rfl, hinj⟩ | ⟨nc, es, n, rfl, hn, hnc⟩
    · obtain ⟨A1, P1, h1⟩ := h.dataStep hS hlen S' hS' k i imm hk hi hinj
      obtain ⟨R', c', A', P', h2⟩ := ih h1 (fun c hc => hgood c (List.mem_cons_of_mem _ hc)) (by
        intro cs1 nc es cs2 hcs htr
        have := hent (InChunk.data (S'.dataFrag k i) imm :: cs1) nc es cs2 (by rw [hcs]; rfl) htr
        simpa [pushedC, List.append_assoc] using this)
      refine ⟨R', c', A', P', ?_⟩
      simpa [pushedC, List.append_assoc] using h2
    · obtain ⟨c1, A1, h1⟩ := h.fwdStep hS hlen nc es n hn hnc (fun htr => by
        have := hent [] nc es cs rfl htr
        simpa [pushedC] using this)
      obtain ⟨R', c', A', P', h2⟩ := ih h1 (fun c hc => hgood c (List.mem_cons_of_mem _ hc)) (by
        intro cs1 nc' es' cs2 hcs htr
        have := hent (InChunk.fwd nc es :: cs1) nc' es' cs2 (by rw [hcs]; rfl) htr
        simpa [pushedC, List.append_assoc] using this)
      refine ⟨R', c', A', P', ?_⟩
      simpa [pushedC, List.append_assoc] using h2

theorem chunksEnd_tbl (s : St) : tbl (chunksEnd s) = tbl s := by
  unfold chunksEnd; repeat' split
  all_goals rfl

/-! ### runs -/

/-- the honest-sender premise for every FORWARD-TSN the run takes (`G0`: what was handed over before the run) -/
def FwdOk (S : Reasm.Sender) (K : Nat → Bool) (s : St) (G0 : List TSN) (ops : List Op) : Prop :=
  ∀ ops1 cs1 nc es cs2 ops2, ops = ops1 ++ Op.pkt (cs1 ++ InChunk.fwd nc es :: cs2) :: ops2 →
    chunkTrace (cs1.foldl handleChunk (chunksStart (run s ops1))) (.fwd nc es) = [.fwd nc] →
    EntOk S K (G0 ++ pushedT s ops1 ++ pushedC (chunksStart (run s ops1)) cs1) es

theorem FwdOk.tail {S K s G0 op ops} (h : FwdOk S K s G0 (op :: ops)) : FwdOk S K (step s op) (G0 ++ pushedO s op) ops := by
  intro ops1 cs1 nc es cs2 ops2 he htr
  have := h (op :: ops1) cs1 nc es cs2 ops2 (by rw [he]; rfl) (by simpa [run] using htr)
  simpa [pushedT, run, List.append_assoc] using this

/-- ✱ the run: the simulation is kept; the successful reads on the stream return exactly the messages the run appends to
the delivered list -/
theorem PS.runOps {U : UnivS} {S : Reasm.Sender} {K : Nat → Bool} (hS : S ∈ U.senders) (hlen : S.msgs.length < 2^15) (ops : List Op) :
    ∀ {s : St} {R : RecvQ.St} {G : List TSN} {c : Nat} {A : Reasm.Tab} {P : List (Nat × Nat)} {D : List Nat},
    PS U S K s R G c A P D → (∀ cs, Op.pkt cs ∈ ops → ∀ ch ∈ cs, GoodChunkS U S ch) → FwdOk S K s G ops →
    ∃ R' c' A' P' D', PS U S K (Receiver.run s ops) R' (G ++ pushedT s ops) c' A' P' (D ++ D') ∧
      delivs S.si s ops = D'.map (fun k => Reasm.Msg.out (S.msg k)) := by
  induction ops with
  | nil => intro s R G c A P D h _ _; exact ⟨R, c, A, P, [], by simpa [Receiver.run, pushedT] using h, rfl⟩
  | cons op ops ih =>
    intro s R G c A P D h hgood hfw
    have hgood' : ∀ cs, Op.pkt cs ∈ ops → ∀ ch ∈ cs, GoodChunkS U S ch := fun cs hcs => hgood cs (List.mem_cons_of_mem _ hcs)
    have hfw' := hfw.tail
    have hrun : Receiver.run s (op :: ops) = Receiver.run (step s op) ops := rfl
    rw [hrun]
    simp only [delivs, pushedT]
    -- one step, then the rest
    have fin : ∀ {R1 c1 A1 P1} (D1 : List Nat), PS U S K (step s op) R1 (G ++ pushedO s op) c1 A1 P1 (D ++ D1) →
        readOut S.si s op = D1.map (fun k => Reasm.Msg.out (S.msg k)) →
        ∃ R' c' A' P' D', PS U S K (Receiver.run (step s op) ops) R' (G ++ (pushedO s op ++ pushedT (step s op) ops)) c' A' P' (D ++ D') ∧
          readOut S.si s op ++ delivs S.si (step s op) ops = D'.map (fun k => Reasm.Msg.out (S.msg k)) := by
      intro R1 c1 A1 P1 D1 h1 ho
      obtain ⟨R', c', A', P', D2, h2, hd⟩ := ih h1 hgood' hfw'
      refine ⟨R', c', A', P', D1 ++ D2, ?_, ?_⟩
      · simpa [List.append_assoc] using h2
      · rw [ho, hd, List.map_append]
    cases op with
    | read nm n =>
      have est : step s (.read nm n) = (read s nm n).1 := rfl
      rcases h.readStep hS hlen nm n with ⟨ho, hI⟩ | ⟨m, c1, A1, ho, hI⟩
      · exact fin [] (by simpa [pushedO, est] using hI) (by simpa using ho)
      · exact fin [m] (by simpa [pushedO, est] using hI) (by simpa using ho)
    | pkt cs =>
      have est : step s (.pkt cs) = packet s cs := rfl
      have h0 : PS U S K (chunksStart s) R G c A P D := h.sameTbl _ rfl rfl
      obtain ⟨R1, c1, A1, P1, h1⟩ := PS.chunksStep hS hlen cs h0 (hgood cs List.mem_cons_self) (by
        intro cs1 nc es cs2 hcs htr
        have := hfw [] cs1 nc es cs2 ops (by rw [hcs]; rfl) (by simpa [Receiver.run] using htr)
        simpa [pushedT, Receiver.run] using this)
      have h2 : PS U S K (packet s cs) R1 (G ++ pushedC (chunksStart s) cs) c1 A1 P1 D :=
        h1.sameTbl _ (chunksEnd_tbl _) (chunksEnd_pq _)
      exact fin [] (by simpa [pushedO, est] using h2) (by simp [readOut])
    | accept =>
      exact fin [] (by simpa [pushedO] using h.otherStep .accept ⟨fun _ => by simp, fun _ _ => by simp⟩) (by simp [readOut])
    | «open» si =>
      exact fin [] (by simpa [pushedO] using h.otherStep (.open si) ⟨fun _ => by simp, fun _ _ => by simp⟩) (by simp [readOut])
    | gather =>
      exact fin [] (by simpa [pushedO] using h.otherStep .gather ⟨fun _ => by simp, fun _ _ => by simp⟩) (by simp [readOut])
    | tick dd =>
      exact fin [] (by simpa [pushedO] using h.otherStep (.tick dd) ⟨fun _ => by simp, fun _ _ => by simp⟩) (by simp [readOut])
    | setState st =>
      exact fin [] (by simpa [pushedO] using h.otherStep (.setState st) ⟨fun _ => by simp, fun _ _ => by simp⟩) (by simp [readOut])

/-! ### the receive-side theorem -/

theorem init_ps (U : UnivS) (S : Reasm.Sender) (K : Nat → Bool) (maxBuf : BitVec 32) (il f g : Bool) (am : Int) :
    PS U S K (init maxBuf 0 il f g am U.t) (RecvQ.start (getMaxTSNOffset maxBuf) (U.t - 1)) [] 0 [] [] [] := by
  have hq : qOf (init maxBuf 0 il f g am U.t) S.si = Reasm.new S.si 0 := by simp [qOf, init, getS]
  refine ⟨⟨rfl, rfl⟩, by simp [TblOK, init], ReceiverPR.RInv.init U.t maxBuf 0 il f g am U.N _, by simp, ?_, ?_, ?_, by simp, Nat.zero_le _⟩
  · rw [hq]; exact Reasm.SkipInv_new S K 0
  · rw [hq]; exact Reasm.NoEmpty_new _ _
  · rw [hq]; rfl

/-- ✱ **Receive side with skips, ordered DATA.** Peer described by `U` (as in `C01_receiver_prefix`); ANY op list whose
inbound chunks are DATA fragments of the universe (each TSN naming one fragment of the stream under study) and FORWARD-TSN
chunks with a new cumulative TSN of the universe, every FORWARD-TSN the receiver TAKES satisfying the honest-sender
premise `EntOk` for the stream (`FwdOk`); fewer than 2^15 messages on the stream; no entry limit. Then the successful reads
on the stream are the messages `D`, strictly increasing — a subsequence of the written messages, each at most once, whole —
and every message that is not abandoned (`K`) and all of whose fragments were handed to the reassembly queue has been read
or sits complete in the queue. -/
theorem skip_receiver (U : UnivS) (S : Reasm.Sender) (hS : S ∈ U.senders) (hlen : S.msgs.length < 2^15) (K : Nat → Bool)
    (maxBuf : BitVec 32) (il f g : Bool) (am : Int) (ops : List Op)
    (hgood : ∀ cs, Op.pkt cs ∈ ops → ∀ ch ∈ cs, GoodChunkS U S ch)
    (hfw : FwdOk S K (init maxBuf 0 il f g am U.t) [] ops) :
    ∃ D : List Nat,
      delivs S.si (init maxBuf 0 il f g am U.t) ops = D.map (fun k => Reasm.Msg.out (S.msg k)) ∧
      D.Pairwise (· < ·) ∧ (∀ k ∈ D, k < S.msgs.length) ∧
      (delivs S.si (init maxBuf 0 il f g am U.t) ops).Sublist (S.msgs.map Reasm.Msg.out) ∧
      (∀ k, k < S.msgs.length → K k = false →
        (∀ i, i < S.nf k → (S.dataFrag k i).tsn ∈ pushedT (init maxBuf 0 il f g am U.t) ops) →
        k ∈ D ∨ S.concSet (k, List.range (S.nf k)) ∈ (qOf (Receiver.run (init maxBuf 0 il f g am U.t) ops) S.si).ordered) := by
  obtain ⟨R', c', A', P', D, h, hd⟩ := PS.runOps hS hlen ops (init_ps U S K maxBuf il f g am) hgood hfw
  simp only [List.nil_append] at h
  have hlt : ∀ k ∈ D, k < S.msgs.length := fun k hk => (h.sk.dlt k hk).2.1
  refine ⟨D, hd, h.sk.dsorted, hlt, ?_, ?_⟩
  · rw [hd]
    have := Reasm.map_getD_sublist (S.msgs.map Reasm.Msg.out) (default : Reasm.Msg).out D 0 h.sk.dsorted
      (fun k hk => ⟨Nat.zero_le _, by simpa using hlt k hk⟩)
    simp only [List.drop_zero] at this
    have e : D.map (fun k => (S.msg k).out) = D.map (fun k => (S.msgs.map Reasm.Msg.out).getD k (default : Reasm.Msg).out) := by
      apply List.map_congr_left
      intro k hk
      have := hlt k hk
      simp [Reasm.Sender.msg, List.getD_eq_getElem?_getD, List.getElem?_eq_getElem this]
    rw [e]; exact this
  · intro k hk hK hall
    rcases h.sk.kept (U.wf S hS) hk hK (fun i hi => (h.pg k i hk hi).2 (hall i hi)) with h' | h'
    · exact .inl h'
    · right; rw [h.sk.tab.ord]; exact List.mem_map_of_mem h'

end Receiver
