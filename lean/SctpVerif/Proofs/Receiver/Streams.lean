import SctpVerif.Proofs.Receiver.Credit
/-!
What one association step does to the reassembly queue of each stream id, in runs without stream resets
(`resetReqs = []`, hence nothing is ever deleted from the table): `qOf s si` — the queue of the registered
stream `si`, or a fresh queue if the association has not created that stream yet — changes only by
`pushWithError` of a DATA chunk for that stream that `handleData` really hands over (`pushes`), and by `read`.
-/
namespace Receiver
open Gen

/-- the reassembly queue of stream `si`: the registered object's, or the queue `createStream` would make -/
def qOf (s : St) (si : BitVec 16) : Reasm.Q := ((getS s.streams si).map (·.q)).getD (Reasm.new si s.maxEntries)

/-- `handleData` hands the chunk to `pushPayloadDataToStream` -/
def pushes (s : St) (c : Reasm.Chunk) : Bool :=
  !c.userData.isEmpty && data_canHandle (a_shutdownCompletePending := s.scp) (state := s.state) &&
  !data_wrongKind (chunkPayload_isIData := c.iData) (a_useInterleaving := s.il) &&
  RecvQ.canPush s.pq c.tsn && stores s c

/-- no reset pending, nothing deleted from the table -/
def NoReset (s : St) : Prop := s.resetReqs = [] ∧ s.gone = []

/-! ### the stream table as a finite map -/

theorem getS_append_single (l : List Stream) (x : Stream) (si : BitVec 16) :
    getS (l ++ [x]) si = (getS l si).or (if x.si == si then some x else none) := by
  simp only [getS, List.find?_append, List.find?_cons, List.find?_nil]
  cases l.find? (fun y => y.si == si) with
  | some y => simp
  | none =>
    simp only [Option.none_or]
    cases h : (x.si == si) <;> simp

theorem getS_setQ (l : List Stream) (si si' : BitVec 16) (f : Reasm.Q → Reasm.Q) :
    getS (setQ l si f) si' = if si' = si then (getS l si).map (fun x => { x with q := f x.q }) else getS l si' := by
  induction l with
  | nil => simp [setQ, getS]
  | cons y l ih =>
    simp only [setQ]
    by_cases hy : (y.si == si) = true
    · have hys : y.si = si := by simpa using hy
      simp only [hy, if_true, getS, List.find?_cons]
      by_cases h : si' = si
      · subst h; simp [hys]
      · have : (y.si == si') = false := by rw [hys]; simpa using fun e => h e.symm
        simp [this, h]
    · have hy' : (y.si == si) = false := by simpa using hy
      simp only [hy', Bool.false_eq_true, if_false, getS, List.find?_cons]
      by_cases h : si' = si
      · subst h
        simp only [hy', if_true]
        have := ih; simp only [getS, if_true] at this; exact this
      · by_cases hy2 : (y.si == si') = true
        · simp [hy2, h]
        · have hy2' : (y.si == si') = false := by simpa using hy2
          simp only [hy2', h, if_false]
          have := ih; simp only [getS, h, if_false] at this; exact this

theorem setQ_map_si (l : List Stream) (si : BitVec 16) (f : Reasm.Q → Reasm.Q) : (setQ l si f).map (·.si) = l.map (·.si) := by
  induction l with
  | nil => rfl
  | cons y l ih => simp only [setQ]; split <;> simp [ih]

/-! ### `createStream` does not change `qOf` -/

theorem qOf_createStream (s : St) (si0 : BitVec 16) (a : Bool) (si : BitVec 16) :
    qOf (createStream s si0 a).1 si = qOf s si := by
  rcases createStream_cases s si0 a with ⟨e, _⟩ | ⟨strm, hq, hsi, _, hs, _, _, hme⟩
  · rw [e]
  · unfold qOf
    rw [hs, hme, getS_append_single]
    cases hg : getS s.streams si with
    | some x => simp
    | none =>
      simp only [Option.none_or]
      by_cases h : (strm.si == si) = true
      · have : si = si0 := by rw [← hsi]; exact (by simpa using h : strm.si = si).symm
        subst this
        simp [hq, hsi]
      · have h' : (strm.si == si) = false := by simpa using h
        simp [h']

theorem qOf_getOrCreateStream (s : St) (si0 : BitVec 16) (a : Bool) (si : BitVec 16) :
    qOf (getOrCreateStream s si0 a).1 si = qOf s si := by
  unfold getOrCreateStream; split; rfl; exact qOf_createStream s si0 a si

/-- after `getOrCreateStream` succeeded the stream is registered -/
theorem getOrCreateStream_some (s : St) (si : BitVec 16) (a : Bool) (x : Stream)
    (h : (getOrCreateStream s si a).2 = some x) : ∃ y, getS (getOrCreateStream s si a).1.streams si = some y := by
  unfold getOrCreateStream at h ⊢
  split
  · rename_i y hy; exact ⟨y, hy⟩
  · rename_i hn
    rcases createStream_cases s si a with ⟨_, e2⟩ | ⟨strm, _, hsi, _, hs, _, _, _⟩
    · rw [hn] at h; simp only at h; rw [e2] at h; cases h
    · refine ⟨strm, ?_⟩
      show getS (createStream s si a).1.streams si = some strm
      rw [hs, getS_append_single, hn]
      simp [hsi]


/-! ### the parts of the state `qOf` and the table invariants read -/

/-- stream table, deleted objects, pending resets, entry limit: what the per-stream reasoning reads -/
def tbl (s : St) : List Stream × List Stream × List ResetReq × BitVec 32 := (s.streams, s.gone, s.resetReqs, s.maxEntries)

theorem qOf_of_tbl {s s' : St} (h : tbl s' = tbl s) (si : BitVec 16) : qOf s' si = qOf s si := by
  simp only [tbl, Prod.mk.injEq] at h
  unfold qOf; rw [h.1, h.2.2.2]

theorem popLoop_tbl (n : Nat) (s : St) (h : s.resetReqs = []) : tbl (popLoop n s) = tbl s := by
  induction n generalizing s with
  | zero => rfl
  | succ n ih =>
    simp only [popLoop]
    split
    · have e : List.foldl resetStreamsIfAny { s with pq := (RecvQ.pop s.pq false).1 }
          ({ s with pq := (RecvQ.pop s.pq false).1 } : St).resetReqs = { s with pq := (RecvQ.pop s.pq false).1 } := by
        show List.foldl resetStreamsIfAny _ s.resetReqs = _
        rw [h]; rfl
      rw [e]
      exact ih _ h
    · rfl

theorem ackStep_tbl (s : St) (b : Bool) (h : s.resetReqs = []) : tbl (ackStep s b) = tbl s := by
  have := popLoop_tbl s.pq.size.toNat s h
  unfold ackStep
  dsimp only
  repeat' split
  all_goals exact this

/-- the si's in the table are pairwise distinct (it is a map) -/
def TblOK (s : St) : Prop := (s.streams.map (·.si)).Nodup

theorem getS_none_iff (l : List Stream) (si : BitVec 16) : getS l si = none ↔ si ∉ l.map (·.si) := by
  simp only [getS, List.find?_eq_none, List.mem_map, not_exists, not_and]
  constructor
  · intro h x hx e; exact (by simpa using h x hx : x.si ≠ si) e
  · intro h x hx; simpa using h x hx

theorem createStream_tblOK (s : St) (si : BitVec 16) (a : Bool) (h : TblOK s) (hn : getS s.streams si = none) :
    TblOK (createStream s si a).1 := by
  rcases createStream_cases s si a with ⟨e, _⟩ | ⟨strm, _, hsi, _, hs, _, _, _⟩
  · rw [e]; exact h
  · unfold TblOK
    rw [hs, List.map_append, List.nodup_append]
    refine ⟨h, by simp, ?_⟩
    intro a ha b hb
    simp only [List.map_cons, List.map_nil, List.mem_singleton] at hb
    rw [hb, hsi]
    intro e; rw [e] at ha
    exact (getS_none_iff _ _).mp hn ha

theorem getOrCreateStream_tblOK (s : St) (si : BitVec 16) (a : Bool) (h : TblOK s) : TblOK (getOrCreateStream s si a).1 := by
  unfold getOrCreateStream
  split
  · exact h
  · rename_i hn; exact createStream_tblOK s si a h hn

theorem createStream_noReset (s : St) (si : BitVec 16) (a : Bool) (h : NoReset s) : NoReset (createStream s si a).1 := by
  unfold createStream NoReset at *
  repeat' split
  all_goals exact h

theorem getOrCreateStream_noReset (s : St) (si : BitVec 16) (a : Bool) (h : NoReset s) : NoReset (getOrCreateStream s si a).1 := by
  unfold getOrCreateStream; split; exact h; exact createStream_noReset s si a h

/-! ### DATA -/

/-- the table after `pushPayloadDataToStream` when the stream is registered -/
theorem pushToStream_tbl (s : St) (c : Reasm.Chunk) (x : Stream) (hx : getS s.streams c.si = some x) :
    tbl (pushToStream s c).1 = (setQ s.streams c.si (fun _ => (x.q.pushWithError c).1), s.gone, s.resetReqs, s.maxEntries) := by
  unfold pushToStream
  dsimp only
  rw [hx]
  dsimp only
  split <;> rfl

theorem qOf_pushToStream (s : St) (c : Reasm.Chunk) (x : Stream) (hx : getS s.streams c.si = some x) (si : BitVec 16) :
    qOf (pushToStream s c).1 si = if si = c.si then ((qOf s c.si).pushWithError c).1 else qOf s si := by
  have ht := pushToStream_tbl s c x hx
  simp only [tbl, Prod.mk.injEq] at ht
  unfold qOf
  rw [ht.1, ht.2.2.2, getS_setQ]
  by_cases h : si = c.si
  · subst h; simp [hx]
  · simp [h]

theorem pushToStream_ok (s : St) (c : Reasm.Chunk) (x : Stream) (hx : getS s.streams c.si = some x)
    (hn : NoReset s) (ht : TblOK s) : NoReset (pushToStream s c).1 ∧ TblOK (pushToStream s c).1 := by
  have h := pushToStream_tbl s c x hx
  simp only [tbl, Prod.mk.injEq] at h
  refine ⟨⟨by rw [h.2.2.1]; exact hn.1, by rw [h.2.1]; exact hn.2⟩, ?_⟩
  unfold TblOK
  rw [h.1, setQ_map_si]
  exact ht

/-- ✱ what `acceptPayloadData` does to the queues: if it stores the chunk (`stores`), the queue of the chunk's
stream gets the chunk; otherwise no queue changes -/
theorem acceptPayloadData_qOf (s : St) (c : Reasm.Chunk) (hn : NoReset s) (ht : TblOK s) (si : BitVec 16) :
    qOf (acceptPayloadData s c).1 si =
      (if stores s c = true ∧ si = c.si then ((qOf s c.si).pushWithError c).1 else qOf s si) ∧
    NoReset (acceptPayloadData s c).1 ∧ TblOK (acceptPayloadData s c).1 := by
  have hq := fun si' => qOf_getOrCreateStream s c.si true si'
  have hnr := getOrCreateStream_noReset s c.si true hn
  have htb := getOrCreateStream_tblOK s c.si true ht
  have hsome := getOrCreateStream_some s c.si true
  unfold acceptPayloadData stores
  rcases hgo : getOrCreateStream s c.si true with ⟨s', o⟩
  rw [hgo] at hq hnr htb hsome
  dsimp only at hq hnr htb hsome
  cases o with
  | none => simp only [Bool.false_eq_true, false_and, if_false]; exact ⟨hq si, hnr, htb⟩
  | some x =>
    obtain ⟨y, hy⟩ := hsome x rfl
    dsimp only
    have hpush := qOf_pushToStream s' c y hy si
    have hok := pushToStream_ok s' c y hy hnr htb
    by_cases hc : accept_hasCredit (credit s') = true
    · simp only [hc, if_true, Bool.true_or, true_and]
      rw [hpush, hq, hq]
      exact ⟨rfl, hok⟩
    · have hc' : accept_hasCredit (credit s') = false := by simpa using hc
      simp only [hc', Bool.false_eq_true, if_false, Bool.false_or]
      by_cases hd : accept_dropAtFullBuffer (RecvQ.lastTSN s'.pq).isSome c.tsn ((RecvQ.lastTSN s'.pq).getD 0) = true
      · simp only [hd, if_true, Bool.not_true, Bool.false_eq_true, false_and, if_false]
        exact ⟨hq si, hnr, htb⟩
      · have hd' : accept_dropAtFullBuffer (RecvQ.lastTSN s'.pq).isSome c.tsn ((RecvQ.lastTSN s'.pq).getD 0) = false := by
          simpa using hd
        simp only [hd', Bool.false_eq_true, if_false, Bool.not_false, true_and]
        rw [hpush, hq, hq]
        exact ⟨rfl, hok⟩

theorem noReset_of_tbl {s s' : St} (h : tbl s' = tbl s) (hn : NoReset s) : NoReset s' := by
  simp only [tbl, Prod.mk.injEq] at h
  exact ⟨by rw [h.2.2.1]; exact hn.1, by rw [h.2.1]; exact hn.2⟩

theorem tblOK_of_tbl {s s' : St} (h : tbl s' = tbl s) (ht : TblOK s) : TblOK s' := by
  simp only [tbl, Prod.mk.injEq] at h
  unfold TblOK; rw [h.1]; exact ht

/-- ✱ what `handleData` does to the queues -/
theorem handleData_qOf (s : St) (c : Reasm.Chunk) (imm : Bool) (hne : c.userData ≠ []) (hn : NoReset s) (ht : TblOK s)
    (si : BitVec 16) :
    qOf (handleData s c imm) si =
      (if pushes s c = true ∧ si = c.si then ((qOf s c.si).pushWithError c).1 else qOf s si) ∧
    NoReset (handleData s c imm) ∧ TblOK (handleData s c imm) := by
  have hemp : c.userData.isEmpty = false := by simpa using hne
  unfold handleData pushes
  dsimp only
  simp only [hemp, Bool.not_false, Bool.true_and]
  by_cases hst : data_canHandle s.scp s.state = true
  · simp only [hst, Bool.not_true, Bool.false_eq_true, if_false, Bool.true_and]
    by_cases hwk : data_wrongKind c.iData s.il = true
    · simp only [hwk, if_true, Bool.not_true, Bool.false_and, Bool.false_eq_true, false_and, if_false]
      exact ⟨rfl, hn, ht⟩
    · have hwk' : data_wrongKind c.iData s.il = false := by simpa using hwk
      simp only [hwk', Bool.false_eq_true, if_false, Bool.not_false, Bool.true_and]
      by_cases hcp : RecvQ.canPush s.pq c.tsn = true
      · simp only [hcp, if_true, Bool.true_and]
        obtain ⟨ha1, ha2, ha3⟩ := acceptPayloadData_qOf s c hn ht si
        have hta := ackStep_tbl (acceptPayloadData s c).1
        split
        · split
          · have := hta true ha2.1
            exact ⟨by rw [qOf_of_tbl this, ha1], noReset_of_tbl this ha2, tblOK_of_tbl this ha3⟩
          · exact ⟨ha1, ha2, ha3⟩
        · exact ⟨by rw [qOf_of_tbl (hta _ ha2.1), ha1], noReset_of_tbl (hta _ ha2.1) ha2, tblOK_of_tbl (hta _ ha2.1) ha3⟩
      · have hcp' : RecvQ.canPush s.pq c.tsn = false := by simpa using hcp
        simp only [hcp', Bool.false_eq_true, if_false, Bool.false_and, false_and, Bool.not_true]
        have := ackStep_tbl s
        split
        · have := this true hn.1
          exact ⟨qOf_of_tbl this si, noReset_of_tbl this hn, tblOK_of_tbl this ht⟩
        · exact ⟨qOf_of_tbl (this _ hn.1) si, noReset_of_tbl (this _ hn.1) hn, tblOK_of_tbl (this _ hn.1) ht⟩
  · have hst' : data_canHandle s.scp s.state = false := by simpa using hst
    simp only [hst', Bool.not_false, if_true, Bool.false_and, Bool.false_eq_true, false_and, if_false]
    exact ⟨trivial, hn, ht⟩

end Receiver
