import SctpVerif.Proofs.Receiver.Cfg
/-!
Totality of the receive-half model (C03): the model's explicit panic outcome (`panicked`, set where Go would
index an empty slice inside `reassemblyQueue.pushWithError`) is unreachable; a chunk of the wrong kind and a
DATA chunk without user data only raise the ABORT flag; a stale FORWARD-TSN changes nothing but the ack state.
-/
namespace Receiver
open Gen

theorem noEmpty_pres : QPres Reasm.NoEmpty := ⟨Reasm.NoEmpty_new, Reasm.step_noEmpty⟩

@[simp] theorem createStream_panicked (s : St) (si : BitVec 16) (a : Bool) : ((createStream s si a).1).panicked = s.panicked := by
  unfold createStream; repeat' split
  all_goals first | rfl | simp

@[simp] theorem getOrCreateStream_panicked (s : St) (si : BitVec 16) (a : Bool) : ((getOrCreateStream s si a).1).panicked = s.panicked := by
  unfold getOrCreateStream; split <;> simp

@[simp] theorem abortPV_panicked (s : St) : (abortPV s).panicked = s.panicked := by
  rfl

@[simp] theorem unregister_panicked (s : St) (id : BitVec 16) : (unregister s id).panicked = s.panicked := by
  unfold unregister; split <;> rfl

@[simp] theorem foldl_unregister_panicked (ids : List (BitVec 16)) (s : St) : (ids.foldl unregister s).panicked = s.panicked := by
  induction ids generalizing s with
  | nil => rfl
  | cons id ids ih => simp [ih]

@[simp] theorem rememberPerformed_panicked (s : St) (rsn : BitVec 32) : (rememberPerformed s rsn).panicked = s.panicked := by
  rfl

@[simp] theorem resetStreamsIfAny_panicked (s : St) (r : ResetReq) : (resetStreamsIfAny s r).panicked = s.panicked := by
  unfold resetStreamsIfAny; split <;> simp

@[simp] theorem foldl_reset_panicked (rs : List ResetReq) (s : St) : (rs.foldl resetStreamsIfAny s).panicked = s.panicked := by
  induction rs generalizing s with
  | nil => rfl
  | cons r rs ih => simp [ih]

@[simp] theorem handleResetReq_panicked (s : St) (r : ResetReq) : (handleResetReq s r).panicked = s.panicked := by
  unfold handleResetReq; repeat' split
  all_goals first | rfl | simp

@[simp] theorem popLoop_panicked (n : Nat) (s : St) : (popLoop n s).panicked = s.panicked := by
  induction n generalizing s with
  | zero => rfl
  | succ n ih => simp only [popLoop]; split <;> simp [ih]

@[simp] theorem ackStep_panicked (s : St) (b : Bool) : (ackStep s b).panicked = s.panicked := by
  unfold ackStep; dsimp only; repeat' split
  all_goals simp

@[simp] theorem staleFwd_panicked (s : St) : (staleFwd s).panicked = s.panicked := by
  rfl

@[simp] theorem fwdEntry_panicked (s : St) (e : BitVec 16 × BitVec 16) : (fwdEntry s e).panicked = s.panicked := by
  unfold fwdEntry; dsimp only; repeat' split
  all_goals first | rfl | simp

@[simp] theorem foldl_fwdEntry_panicked (es : List (BitVec 16 × BitVec 16)) (s : St) : (es.foldl fwdEntry s).panicked = s.panicked := by
  induction es generalizing s with
  | nil => rfl
  | cons e es ih => simp [ih]

@[simp] theorem handleFwd_panicked (s : St) (c : TSN) (es : List (BitVec 16 × BitVec 16)) : (handleFwd s c es).panicked = s.panicked := by
  unfold handleFwd; repeat' split
  all_goals first | rfl | simp

@[simp] theorem ifwdEntry_panicked (s : St) (e : BitVec 16 × Bool × BitVec 32) : (ifwdEntry s e).panicked = s.panicked := by
  unfold ifwdEntry; dsimp only; repeat' split
  all_goals first | rfl | simp

@[simp] theorem foldl_ifwdEntry_panicked (es : List (BitVec 16 × Bool × BitVec 32)) (s : St) : (es.foldl ifwdEntry s).panicked = s.panicked := by
  induction es generalizing s with
  | nil => rfl
  | cons e es ih => simp [ih]

@[simp] theorem handleIFwd_panicked (s : St) (c : TSN) (es : List (BitVec 16 × Bool × BitVec 32)) : (handleIFwd s c es).panicked = s.panicked := by
  unfold handleIFwd; repeat' split
  all_goals first | rfl | simp

@[simp] theorem chunksStart_panicked (s : St) : (chunksStart s).panicked = s.panicked := by
  rfl

@[simp] theorem chunksEnd_panicked (s : St) : (chunksEnd s).panicked = s.panicked := by
  unfold chunksEnd; repeat' split
  all_goals rfl

@[simp] theorem read_panicked (s : St) (n : Name) (b : Nat) : ((read s n b).1).panicked = s.panicked := by
  unfold read; repeat' split
  all_goals rfl

@[simp] theorem accept_panicked (s : St) : ((accept s).1).panicked = s.panicked := by
  unfold accept; split <;> rfl

@[simp] theorem openStream_panicked (s : St) (si : BitVec 16) : ((openStream s si).1).panicked = s.panicked := by
  unfold openStream; split <;> simp

@[simp] theorem gather_panicked (s : St) : ((gather s).1).panicked = s.panicked := by
  unfold gather; dsimp only; repeat' split
  all_goals first | rfl | simp [createSack]

@[simp] theorem tick_panicked (s : St) (d : Nat) : (tick s d).panicked = s.panicked := by
  unfold tick; dsimp only; repeat' split
  all_goals first | rfl | simp [ackTimeout]

/-- no panic so far, and no reassembly queue is in a state from which `pushWithError` could panic -/
def NoPanic (s : St) : Prop := s.panicked = false ∧ AllQ Reasm.NoEmpty s

theorem pushToStream_noPanic {s : St} (h : NoPanic s) (c : Reasm.Chunk) : (pushToStream s c).1.panicked = false := by
  unfold pushToStream
  dsimp only
  split
  · exact h.1
  · rename_i x hx
    have hne := Reasm.pushWithError_no_panic x.q c (h.2.1 x (getS_mem hx).1)
    split
    · exact h.1
    · rename_i hp; exact absurd hp hne
    · exact h.1

theorem acceptPayloadData_noPanic {s : St} (h : NoPanic s) (c : Reasm.Chunk) : (acceptPayloadData s c).1.panicked = false := by
  unfold acceptPayloadData
  have hg : NoPanic (getOrCreateStream s c.si true).1 :=
    ⟨by rw [getOrCreateStream_panicked]; exact h.1, getOrCreateStream_allQ noEmpty_pres h.2 c.si true⟩
  split
  · rename_i s' heq; rw [heq] at hg; exact hg.1
  · rename_i s' x heq
    rw [heq] at hg
    split
    · exact pushToStream_noPanic hg c
    · dsimp only
      split
      · exact hg.1
      · exact pushToStream_noPanic hg c

theorem handleData_noPanic {s : St} (h : NoPanic s) (c : Reasm.Chunk) (imm : Bool) : (handleData s c imm).panicked = false := by
  unfold handleData
  dsimp only
  split
  · exact h.1
  · split
    · exact h.1
    · by_cases hcp : RecvQ.canPush s.pq c.tsn = true
      · simp only [if_pos hcp]
        have hr := acceptPayloadData_noPanic h c
        repeat' split
        all_goals simp [hr]
      · simp only [if_neg hcp]
        repeat' split
        all_goals simp [h.1]

theorem handleChunk_noPanic {s : St} (h : NoPanic s) (c : InChunk) : NoPanic (handleChunk s c) := by
  refine ⟨?_, handleChunk_allQ noEmpty_pres h.2 c⟩
  cases c with
  | data d imm => simp only [handleChunk]; split; exact h.1; exact handleData_noPanic h d imm
  | fwd t es => simp [handleChunk, h.1]
  | ifwd t es => simp [handleChunk, h.1]
  | hb info => exact h.1
  | reset r => simp [handleChunk, h.1]

theorem foldl_handleChunk_noPanic (cs : List InChunk) {s : St} (h : NoPanic s) : NoPanic (cs.foldl handleChunk s) := by
  induction cs generalizing s with
  | nil => exact h
  | cons c cs ih => exact ih (handleChunk_noPanic h c)

theorem packet_noPanic {s : St} (h : NoPanic s) (cs : List InChunk) : NoPanic (packet s cs) := by
  have := foldl_handleChunk_noPanic cs (s := chunksStart s) h
  exact ⟨by unfold packet; rw [chunksEnd_panicked]; exact this.1, packet_allQ noEmpty_pres h.2 cs⟩

theorem step_noPanic {s : St} (h : NoPanic s) (op : Op) : NoPanic (step s op) := by
  refine ⟨?_, step_allQ noEmpty_pres h.2 op⟩
  cases op with
  | pkt cs => exact (packet_noPanic h cs).1
  | read n b => simp [step, h.1]
  | accept => simp [step, h.1]
  | «open» si => simp [step, h.1]
  | gather => simp [step, h.1]
  | tick d => simp [step, h.1]
  | setState st => exact h.1

theorem run_noPanic (ops : List Op) {s : St} (h : NoPanic s) : NoPanic (run s ops) := by
  induction ops generalizing s with
  | nil => exact h
  | cons op ops ih => exact ih (step_noPanic h op)

theorem init_noPanic (a b : BitVec 32) (c d e : Bool) (f : Int) (t : TSN) : NoPanic (init a b c d e f t) :=
  ⟨rfl, init_allQ _ a b c d e f t⟩

end Receiver
