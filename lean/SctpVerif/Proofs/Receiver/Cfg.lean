import SctpVerif.Proofs.Receiver.Basic
/-! Frame lemmas (generated text, one family per field): the configuration `maxBuf`, `maxEntries`, `il`,
`useFwd`, `useIFwd`, `ackMode`, `scp` is set by `init`, read by the handlers and never written. -/
namespace Receiver
open Gen

@[simp] theorem createStream_maxBuf (s : St) (si : BitVec 16) (a : Bool) : ((createStream s si a).1).maxBuf = s.maxBuf := by
  unfold createStream; repeat' split
  all_goals first | rfl | simp

@[simp] theorem getOrCreateStream_maxBuf (s : St) (si : BitVec 16) (a : Bool) : ((getOrCreateStream s si a).1).maxBuf = s.maxBuf := by
  unfold getOrCreateStream; split <;> simp

@[simp] theorem abortPV_maxBuf (s : St) : (abortPV s).maxBuf = s.maxBuf := by
  rfl

@[simp] theorem unregister_maxBuf (s : St) (id : BitVec 16) : (unregister s id).maxBuf = s.maxBuf := by
  unfold unregister; split <;> rfl

@[simp] theorem foldl_unregister_maxBuf (ids : List (BitVec 16)) (s : St) : (ids.foldl unregister s).maxBuf = s.maxBuf := by
  induction ids generalizing s with
  | nil => rfl
  | cons id ids ih => simp [ih]

@[simp] theorem rememberPerformed_maxBuf (s : St) (rsn : BitVec 32) : (rememberPerformed s rsn).maxBuf = s.maxBuf := by
  rfl

@[simp] theorem resetStreamsIfAny_maxBuf (s : St) (r : ResetReq) : (resetStreamsIfAny s r).maxBuf = s.maxBuf := by
  unfold resetStreamsIfAny; split <;> simp

@[simp] theorem foldl_reset_maxBuf (rs : List ResetReq) (s : St) : (rs.foldl resetStreamsIfAny s).maxBuf = s.maxBuf := by
  induction rs generalizing s with
  | nil => rfl
  | cons r rs ih => simp [ih]

@[simp] theorem handleResetReq_maxBuf (s : St) (r : ResetReq) : (handleResetReq s r).maxBuf = s.maxBuf := by
  unfold handleResetReq; repeat' split
  all_goals first | rfl | simp

@[simp] theorem popLoop_maxBuf (n : Nat) (s : St) : (popLoop n s).maxBuf = s.maxBuf := by
  induction n generalizing s with
  | zero => rfl
  | succ n ih => simp only [popLoop]; split <;> simp [ih]

@[simp] theorem ackStep_maxBuf (s : St) (b : Bool) : (ackStep s b).maxBuf = s.maxBuf := by
  unfold ackStep; dsimp only; repeat' split
  all_goals simp

@[simp] theorem pushToStream_maxBuf (s : St) (c : Reasm.Chunk) : ((pushToStream s c).1).maxBuf = s.maxBuf := by
  unfold pushToStream; dsimp only; repeat' split
  all_goals first | rfl | simp

@[simp] theorem acceptPayloadData_maxBuf (s : St) (c : Reasm.Chunk) : ((acceptPayloadData s c).1).maxBuf = s.maxBuf := by
  unfold acceptPayloadData
  split
  · rename_i s' heq; have := getOrCreateStream_maxBuf s c.si true; rw [heq] at this; exact this
  · rename_i s' x heq; have := getOrCreateStream_maxBuf s c.si true; rw [heq] at this
    dsimp only at this ⊢; repeat' split
    all_goals simp [this]

@[simp] theorem handleData_maxBuf (s : St) (c : Reasm.Chunk) (imm : Bool) : (handleData s c imm).maxBuf = s.maxBuf := by
  unfold handleData; dsimp only; repeat' split
  all_goals first | rfl | simp

@[simp] theorem staleFwd_maxBuf (s : St) : (staleFwd s).maxBuf = s.maxBuf := by
  rfl

@[simp] theorem fwdEntry_maxBuf (s : St) (e : BitVec 16 × BitVec 16) : (fwdEntry s e).maxBuf = s.maxBuf := by
  unfold fwdEntry; dsimp only; repeat' split
  all_goals first | rfl | simp

@[simp] theorem foldl_fwdEntry_maxBuf (es : List (BitVec 16 × BitVec 16)) (s : St) : (es.foldl fwdEntry s).maxBuf = s.maxBuf := by
  induction es generalizing s with
  | nil => rfl
  | cons e es ih => simp [ih]

@[simp] theorem handleFwd_maxBuf (s : St) (c : TSN) (es : List (BitVec 16 × BitVec 16)) : (handleFwd s c es).maxBuf = s.maxBuf := by
  unfold handleFwd; repeat' split
  all_goals first | rfl | simp

@[simp] theorem ifwdEntry_maxBuf (s : St) (e : BitVec 16 × Bool × BitVec 32) : (ifwdEntry s e).maxBuf = s.maxBuf := by
  unfold ifwdEntry; dsimp only; repeat' split
  all_goals first | rfl | simp

@[simp] theorem foldl_ifwdEntry_maxBuf (es : List (BitVec 16 × Bool × BitVec 32)) (s : St) : (es.foldl ifwdEntry s).maxBuf = s.maxBuf := by
  induction es generalizing s with
  | nil => rfl
  | cons e es ih => simp [ih]

@[simp] theorem handleIFwd_maxBuf (s : St) (c : TSN) (es : List (BitVec 16 × Bool × BitVec 32)) : (handleIFwd s c es).maxBuf = s.maxBuf := by
  unfold handleIFwd; repeat' split
  all_goals first | rfl | simp

@[simp] theorem handleChunk_maxBuf (s : St) (c : InChunk) : (handleChunk s c).maxBuf = s.maxBuf := by
  cases c <;> simp only [handleChunk]
  · split <;> simp
  all_goals simp

@[simp] theorem foldl_handleChunk_maxBuf (cs : List InChunk) (s : St) : (cs.foldl handleChunk s).maxBuf = s.maxBuf := by
  induction cs generalizing s with
  | nil => rfl
  | cons c cs ih => simp [ih]

@[simp] theorem chunksStart_maxBuf (s : St) : (chunksStart s).maxBuf = s.maxBuf := by
  rfl

@[simp] theorem chunksEnd_maxBuf (s : St) : (chunksEnd s).maxBuf = s.maxBuf := by
  unfold chunksEnd; repeat' split
  all_goals rfl

@[simp] theorem packet_maxBuf (s : St) (cs : List InChunk) : (packet s cs).maxBuf = s.maxBuf := by
  simp [packet]

@[simp] theorem read_maxBuf (s : St) (n : Name) (b : Nat) : ((read s n b).1).maxBuf = s.maxBuf := by
  unfold read; repeat' split
  all_goals rfl

@[simp] theorem accept_maxBuf (s : St) : ((accept s).1).maxBuf = s.maxBuf := by
  unfold accept; split <;> rfl

@[simp] theorem openStream_maxBuf (s : St) (si : BitVec 16) : ((openStream s si).1).maxBuf = s.maxBuf := by
  unfold openStream; split <;> simp

@[simp] theorem gather_maxBuf (s : St) : ((gather s).1).maxBuf = s.maxBuf := by
  unfold gather; dsimp only; repeat' split
  all_goals first | rfl | simp [createSack]

@[simp] theorem tick_maxBuf (s : St) (d : Nat) : (tick s d).maxBuf = s.maxBuf := by
  unfold tick; dsimp only; repeat' split
  all_goals first | rfl | simp [ackTimeout]

@[simp] theorem step_maxBuf (s : St) (op : Op) : (step s op).maxBuf = s.maxBuf := by
  cases op <;> simp [step]

@[simp] theorem run_maxBuf (s : St) (ops : List Op) : (run s ops).maxBuf = s.maxBuf := by
  induction ops generalizing s with
  | nil => rfl
  | cons op ops ih => rw [run, List.foldl_cons]; exact (ih (step s op)).trans (step_maxBuf s op)

@[simp] theorem createStream_maxEntries (s : St) (si : BitVec 16) (a : Bool) : ((createStream s si a).1).maxEntries = s.maxEntries := by
  unfold createStream; repeat' split
  all_goals first | rfl | simp

@[simp] theorem getOrCreateStream_maxEntries (s : St) (si : BitVec 16) (a : Bool) : ((getOrCreateStream s si a).1).maxEntries = s.maxEntries := by
  unfold getOrCreateStream; split <;> simp

@[simp] theorem abortPV_maxEntries (s : St) : (abortPV s).maxEntries = s.maxEntries := by
  rfl

@[simp] theorem unregister_maxEntries (s : St) (id : BitVec 16) : (unregister s id).maxEntries = s.maxEntries := by
  unfold unregister; split <;> rfl

@[simp] theorem foldl_unregister_maxEntries (ids : List (BitVec 16)) (s : St) : (ids.foldl unregister s).maxEntries = s.maxEntries := by
  induction ids generalizing s with
  | nil => rfl
  | cons id ids ih => simp [ih]

@[simp] theorem rememberPerformed_maxEntries (s : St) (rsn : BitVec 32) : (rememberPerformed s rsn).maxEntries = s.maxEntries := by
  rfl

@[simp] theorem resetStreamsIfAny_maxEntries (s : St) (r : ResetReq) : (resetStreamsIfAny s r).maxEntries = s.maxEntries := by
  unfold resetStreamsIfAny; split <;> simp

@[simp] theorem foldl_reset_maxEntries (rs : List ResetReq) (s : St) : (rs.foldl resetStreamsIfAny s).maxEntries = s.maxEntries := by
  induction rs generalizing s with
  | nil => rfl
  | cons r rs ih => simp [ih]

@[simp] theorem handleResetReq_maxEntries (s : St) (r : ResetReq) : (handleResetReq s r).maxEntries = s.maxEntries := by
  unfold handleResetReq; repeat' split
  all_goals first | rfl | simp

@[simp] theorem popLoop_maxEntries (n : Nat) (s : St) : (popLoop n s).maxEntries = s.maxEntries := by
  induction n generalizing s with
  | zero => rfl
  | succ n ih => simp only [popLoop]; split <;> simp [ih]

@[simp] theorem ackStep_maxEntries (s : St) (b : Bool) : (ackStep s b).maxEntries = s.maxEntries := by
  unfold ackStep; dsimp only; repeat' split
  all_goals simp

@[simp] theorem pushToStream_maxEntries (s : St) (c : Reasm.Chunk) : ((pushToStream s c).1).maxEntries = s.maxEntries := by
  unfold pushToStream; dsimp only; repeat' split
  all_goals first | rfl | simp

@[simp] theorem acceptPayloadData_maxEntries (s : St) (c : Reasm.Chunk) : ((acceptPayloadData s c).1).maxEntries = s.maxEntries := by
  unfold acceptPayloadData
  split
  · rename_i s' heq; have := getOrCreateStream_maxEntries s c.si true; rw [heq] at this; exact this
  · rename_i s' x heq; have := getOrCreateStream_maxEntries s c.si true; rw [heq] at this
    dsimp only at this ⊢; repeat' split
    all_goals simp [this]

@[simp] theorem handleData_maxEntries (s : St) (c : Reasm.Chunk) (imm : Bool) : (handleData s c imm).maxEntries = s.maxEntries := by
  unfold handleData; dsimp only; repeat' split
  all_goals first | rfl | simp

@[simp] theorem staleFwd_maxEntries (s : St) : (staleFwd s).maxEntries = s.maxEntries := by
  rfl

@[simp] theorem fwdEntry_maxEntries (s : St) (e : BitVec 16 × BitVec 16) : (fwdEntry s e).maxEntries = s.maxEntries := by
  unfold fwdEntry; dsimp only; repeat' split
  all_goals first | rfl | simp

@[simp] theorem foldl_fwdEntry_maxEntries (es : List (BitVec 16 × BitVec 16)) (s : St) : (es.foldl fwdEntry s).maxEntries = s.maxEntries := by
  induction es generalizing s with
  | nil => rfl
  | cons e es ih => simp [ih]

@[simp] theorem handleFwd_maxEntries (s : St) (c : TSN) (es : List (BitVec 16 × BitVec 16)) : (handleFwd s c es).maxEntries = s.maxEntries := by
  unfold handleFwd; repeat' split
  all_goals first | rfl | simp

@[simp] theorem ifwdEntry_maxEntries (s : St) (e : BitVec 16 × Bool × BitVec 32) : (ifwdEntry s e).maxEntries = s.maxEntries := by
  unfold ifwdEntry; dsimp only; repeat' split
  all_goals first | rfl | simp

@[simp] theorem foldl_ifwdEntry_maxEntries (es : List (BitVec 16 × Bool × BitVec 32)) (s : St) : (es.foldl ifwdEntry s).maxEntries = s.maxEntries := by
  induction es generalizing s with
  | nil => rfl
  | cons e es ih => simp [ih]

@[simp] theorem handleIFwd_maxEntries (s : St) (c : TSN) (es : List (BitVec 16 × Bool × BitVec 32)) : (handleIFwd s c es).maxEntries = s.maxEntries := by
  unfold handleIFwd; repeat' split
  all_goals first | rfl | simp

@[simp] theorem handleChunk_maxEntries (s : St) (c : InChunk) : (handleChunk s c).maxEntries = s.maxEntries := by
  cases c <;> simp only [handleChunk]
  · split <;> simp
  all_goals simp

@[simp] theorem foldl_handleChunk_maxEntries (cs : List InChunk) (s : St) : (cs.foldl handleChunk s).maxEntries = s.maxEntries := by
  induction cs generalizing s with
  | nil => rfl
  | cons c cs ih => simp [ih]

@[simp] theorem chunksStart_maxEntries (s : St) : (chunksStart s).maxEntries = s.maxEntries := by
  rfl

@[simp] theorem chunksEnd_maxEntries (s : St) : (chunksEnd s).maxEntries = s.maxEntries := by
  unfold chunksEnd; repeat' split
  all_goals rfl

@[simp] theorem packet_maxEntries (s : St) (cs : List InChunk) : (packet s cs).maxEntries = s.maxEntries := by
  simp [packet]

@[simp] theorem read_maxEntries (s : St) (n : Name) (b : Nat) : ((read s n b).1).maxEntries = s.maxEntries := by
  unfold read; repeat' split
  all_goals rfl

@[simp] theorem accept_maxEntries (s : St) : ((accept s).1).maxEntries = s.maxEntries := by
  unfold accept; split <;> rfl

@[simp] theorem openStream_maxEntries (s : St) (si : BitVec 16) : ((openStream s si).1).maxEntries = s.maxEntries := by
  unfold openStream; split <;> simp

@[simp] theorem gather_maxEntries (s : St) : ((gather s).1).maxEntries = s.maxEntries := by
  unfold gather; dsimp only; repeat' split
  all_goals first | rfl | simp [createSack]

@[simp] theorem tick_maxEntries (s : St) (d : Nat) : (tick s d).maxEntries = s.maxEntries := by
  unfold tick; dsimp only; repeat' split
  all_goals first | rfl | simp [ackTimeout]

@[simp] theorem step_maxEntries (s : St) (op : Op) : (step s op).maxEntries = s.maxEntries := by
  cases op <;> simp [step]

@[simp] theorem run_maxEntries (s : St) (ops : List Op) : (run s ops).maxEntries = s.maxEntries := by
  induction ops generalizing s with
  | nil => rfl
  | cons op ops ih => rw [run, List.foldl_cons]; exact (ih (step s op)).trans (step_maxEntries s op)

@[simp] theorem createStream_il (s : St) (si : BitVec 16) (a : Bool) : ((createStream s si a).1).il = s.il := by
  unfold createStream; repeat' split
  all_goals first | rfl | simp

@[simp] theorem getOrCreateStream_il (s : St) (si : BitVec 16) (a : Bool) : ((getOrCreateStream s si a).1).il = s.il := by
  unfold getOrCreateStream; split <;> simp

@[simp] theorem abortPV_il (s : St) : (abortPV s).il = s.il := by
  rfl

@[simp] theorem unregister_il (s : St) (id : BitVec 16) : (unregister s id).il = s.il := by
  unfold unregister; split <;> rfl

@[simp] theorem foldl_unregister_il (ids : List (BitVec 16)) (s : St) : (ids.foldl unregister s).il = s.il := by
  induction ids generalizing s with
  | nil => rfl
  | cons id ids ih => simp [ih]

@[simp] theorem rememberPerformed_il (s : St) (rsn : BitVec 32) : (rememberPerformed s rsn).il = s.il := by
  rfl

@[simp] theorem resetStreamsIfAny_il (s : St) (r : ResetReq) : (resetStreamsIfAny s r).il = s.il := by
  unfold resetStreamsIfAny; split <;> simp

@[simp] theorem foldl_reset_il (rs : List ResetReq) (s : St) : (rs.foldl resetStreamsIfAny s).il = s.il := by
  induction rs generalizing s with
  | nil => rfl
  | cons r rs ih => simp [ih]

@[simp] theorem handleResetReq_il (s : St) (r : ResetReq) : (handleResetReq s r).il = s.il := by
  unfold handleResetReq; repeat' split
  all_goals first | rfl | simp

@[simp] theorem popLoop_il (n : Nat) (s : St) : (popLoop n s).il = s.il := by
  induction n generalizing s with
  | zero => rfl
  | succ n ih => simp only [popLoop]; split <;> simp [ih]

@[simp] theorem ackStep_il (s : St) (b : Bool) : (ackStep s b).il = s.il := by
  unfold ackStep; dsimp only; repeat' split
  all_goals simp

@[simp] theorem pushToStream_il (s : St) (c : Reasm.Chunk) : ((pushToStream s c).1).il = s.il := by
  unfold pushToStream; dsimp only; repeat' split
  all_goals first | rfl | simp

@[simp] theorem acceptPayloadData_il (s : St) (c : Reasm.Chunk) : ((acceptPayloadData s c).1).il = s.il := by
  unfold acceptPayloadData
  split
  · rename_i s' heq; have := getOrCreateStream_il s c.si true; rw [heq] at this; exact this
  · rename_i s' x heq; have := getOrCreateStream_il s c.si true; rw [heq] at this
    dsimp only at this ⊢; repeat' split
    all_goals simp [this]

@[simp] theorem handleData_il (s : St) (c : Reasm.Chunk) (imm : Bool) : (handleData s c imm).il = s.il := by
  unfold handleData; dsimp only; repeat' split
  all_goals first | rfl | simp

@[simp] theorem staleFwd_il (s : St) : (staleFwd s).il = s.il := by
  rfl

@[simp] theorem fwdEntry_il (s : St) (e : BitVec 16 × BitVec 16) : (fwdEntry s e).il = s.il := by
  unfold fwdEntry; dsimp only; repeat' split
  all_goals first | rfl | simp

@[simp] theorem foldl_fwdEntry_il (es : List (BitVec 16 × BitVec 16)) (s : St) : (es.foldl fwdEntry s).il = s.il := by
  induction es generalizing s with
  | nil => rfl
  | cons e es ih => simp [ih]

@[simp] theorem handleFwd_il (s : St) (c : TSN) (es : List (BitVec 16 × BitVec 16)) : (handleFwd s c es).il = s.il := by
  unfold handleFwd; repeat' split
  all_goals first | rfl | simp

@[simp] theorem ifwdEntry_il (s : St) (e : BitVec 16 × Bool × BitVec 32) : (ifwdEntry s e).il = s.il := by
  unfold ifwdEntry; dsimp only; repeat' split
  all_goals first | rfl | simp

@[simp] theorem foldl_ifwdEntry_il (es : List (BitVec 16 × Bool × BitVec 32)) (s : St) : (es.foldl ifwdEntry s).il = s.il := by
  induction es generalizing s with
  | nil => rfl
  | cons e es ih => simp [ih]

@[simp] theorem handleIFwd_il (s : St) (c : TSN) (es : List (BitVec 16 × Bool × BitVec 32)) : (handleIFwd s c es).il = s.il := by
  unfold handleIFwd; repeat' split
  all_goals first | rfl | simp

@[simp] theorem handleChunk_il (s : St) (c : InChunk) : (handleChunk s c).il = s.il := by
  cases c <;> simp only [handleChunk]
  · split <;> simp
  all_goals simp

@[simp] theorem foldl_handleChunk_il (cs : List InChunk) (s : St) : (cs.foldl handleChunk s).il = s.il := by
  induction cs generalizing s with
  | nil => rfl
  | cons c cs ih => simp [ih]

@[simp] theorem chunksStart_il (s : St) : (chunksStart s).il = s.il := by
  rfl

@[simp] theorem chunksEnd_il (s : St) : (chunksEnd s).il = s.il := by
  unfold chunksEnd; repeat' split
  all_goals rfl

@[simp] theorem packet_il (s : St) (cs : List InChunk) : (packet s cs).il = s.il := by
  simp [packet]

@[simp] theorem read_il (s : St) (n : Name) (b : Nat) : ((read s n b).1).il = s.il := by
  unfold read; repeat' split
  all_goals rfl

@[simp] theorem accept_il (s : St) : ((accept s).1).il = s.il := by
  unfold accept; split <;> rfl

@[simp] theorem openStream_il (s : St) (si : BitVec 16) : ((openStream s si).1).il = s.il := by
  unfold openStream; split <;> simp

@[simp] theorem gather_il (s : St) : ((gather s).1).il = s.il := by
  unfold gather; dsimp only; repeat' split
  all_goals first | rfl | simp [createSack]

@[simp] theorem tick_il (s : St) (d : Nat) : (tick s d).il = s.il := by
  unfold tick; dsimp only; repeat' split
  all_goals first | rfl | simp [ackTimeout]

@[simp] theorem step_il (s : St) (op : Op) : (step s op).il = s.il := by
  cases op <;> simp [step]

@[simp] theorem run_il (s : St) (ops : List Op) : (run s ops).il = s.il := by
  induction ops generalizing s with
  | nil => rfl
  | cons op ops ih => rw [run, List.foldl_cons]; exact (ih (step s op)).trans (step_il s op)

@[simp] theorem createStream_useFwd (s : St) (si : BitVec 16) (a : Bool) : ((createStream s si a).1).useFwd = s.useFwd := by
  unfold createStream; repeat' split
  all_goals first | rfl | simp

@[simp] theorem getOrCreateStream_useFwd (s : St) (si : BitVec 16) (a : Bool) : ((getOrCreateStream s si a).1).useFwd = s.useFwd := by
  unfold getOrCreateStream; split <;> simp

@[simp] theorem abortPV_useFwd (s : St) : (abortPV s).useFwd = s.useFwd := by
  rfl

@[simp] theorem unregister_useFwd (s : St) (id : BitVec 16) : (unregister s id).useFwd = s.useFwd := by
  unfold unregister; split <;> rfl

@[simp] theorem foldl_unregister_useFwd (ids : List (BitVec 16)) (s : St) : (ids.foldl unregister s).useFwd = s.useFwd := by
  induction ids generalizing s with
  | nil => rfl
  | cons id ids ih => simp [ih]

@[simp] theorem rememberPerformed_useFwd (s : St) (rsn : BitVec 32) : (rememberPerformed s rsn).useFwd = s.useFwd := by
  rfl

@[simp] theorem resetStreamsIfAny_useFwd (s : St) (r : ResetReq) : (resetStreamsIfAny s r).useFwd = s.useFwd := by
  unfold resetStreamsIfAny; split <;> simp

@[simp] theorem foldl_reset_useFwd (rs : List ResetReq) (s : St) : (rs.foldl resetStreamsIfAny s).useFwd = s.useFwd := by
  induction rs generalizing s with
  | nil => rfl
  | cons r rs ih => simp [ih]

@[simp] theorem handleResetReq_useFwd (s : St) (r : ResetReq) : (handleResetReq s r).useFwd = s.useFwd := by
  unfold handleResetReq; repeat' split
  all_goals first | rfl | simp

@[simp] theorem popLoop_useFwd (n : Nat) (s : St) : (popLoop n s).useFwd = s.useFwd := by
  induction n generalizing s with
  | zero => rfl
  | succ n ih => simp only [popLoop]; split <;> simp [ih]

@[simp] theorem ackStep_useFwd (s : St) (b : Bool) : (ackStep s b).useFwd = s.useFwd := by
  unfold ackStep; dsimp only; repeat' split
  all_goals simp

@[simp] theorem pushToStream_useFwd (s : St) (c : Reasm.Chunk) : ((pushToStream s c).1).useFwd = s.useFwd := by
  unfold pushToStream; dsimp only; repeat' split
  all_goals first | rfl | simp

@[simp] theorem acceptPayloadData_useFwd (s : St) (c : Reasm.Chunk) : ((acceptPayloadData s c).1).useFwd = s.useFwd := by
  unfold acceptPayloadData
  split
  · rename_i s' heq; have := getOrCreateStream_useFwd s c.si true; rw [heq] at this; exact this
  · rename_i s' x heq; have := getOrCreateStream_useFwd s c.si true; rw [heq] at this
    dsimp only at this ⊢; repeat' split
    all_goals simp [this]

@[simp] theorem handleData_useFwd (s : St) (c : Reasm.Chunk) (imm : Bool) : (handleData s c imm).useFwd = s.useFwd := by
  unfold handleData; dsimp only; repeat' split
  all_goals first | rfl | simp

@[simp] theorem staleFwd_useFwd (s : St) : (staleFwd s).useFwd = s.useFwd := by
  rfl

@[simp] theorem fwdEntry_useFwd (s : St) (e : BitVec 16 × BitVec 16) : (fwdEntry s e).useFwd = s.useFwd := by
  unfold fwdEntry; dsimp only; repeat' split
  all_goals first | rfl | simp

@[simp] theorem foldl_fwdEntry_useFwd (es : List (BitVec 16 × BitVec 16)) (s : St) : (es.foldl fwdEntry s).useFwd = s.useFwd := by
  induction es generalizing s with
  | nil => rfl
  | cons e es ih => simp [ih]

@[simp] theorem handleFwd_useFwd (s : St) (c : TSN) (es : List (BitVec 16 × BitVec 16)) : (handleFwd s c es).useFwd = s.useFwd := by
  unfold handleFwd; repeat' split
  all_goals first | rfl | simp

@[simp] theorem ifwdEntry_useFwd (s : St) (e : BitVec 16 × Bool × BitVec 32) : (ifwdEntry s e).useFwd = s.useFwd := by
  unfold ifwdEntry; dsimp only; repeat' split
  all_goals first | rfl | simp

@[simp] theorem foldl_ifwdEntry_useFwd (es : List (BitVec 16 × Bool × BitVec 32)) (s : St) : (es.foldl ifwdEntry s).useFwd = s.useFwd := by
  induction es generalizing s with
  | nil => rfl
  | cons e es ih => simp [ih]

@[simp] theorem handleIFwd_useFwd (s : St) (c : TSN) (es : List (BitVec 16 × Bool × BitVec 32)) : (handleIFwd s c es).useFwd = s.useFwd := by
  unfold handleIFwd; repeat' split
  all_goals first | rfl | simp

@[simp] theorem handleChunk_useFwd (s : St) (c : InChunk) : (handleChunk s c).useFwd = s.useFwd := by
  cases c <;> simp only [handleChunk]
  · split <;> simp
  all_goals simp

@[simp] theorem foldl_handleChunk_useFwd (cs : List InChunk) (s : St) : (cs.foldl handleChunk s).useFwd = s.useFwd := by
  induction cs generalizing s with
  | nil => rfl
  | cons c cs ih => simp [ih]

@[simp] theorem chunksStart_useFwd (s : St) : (chunksStart s).useFwd = s.useFwd := by
  rfl

@[simp] theorem chunksEnd_useFwd (s : St) : (chunksEnd s).useFwd = s.useFwd := by
  unfold chunksEnd; repeat' split
  all_goals rfl

@[simp] theorem packet_useFwd (s : St) (cs : List InChunk) : (packet s cs).useFwd = s.useFwd := by
  simp [packet]

@[simp] theorem read_useFwd (s : St) (n : Name) (b : Nat) : ((read s n b).1).useFwd = s.useFwd := by
  unfold read; repeat' split
  all_goals rfl

@[simp] theorem accept_useFwd (s : St) : ((accept s).1).useFwd = s.useFwd := by
  unfold accept; split <;> rfl

@[simp] theorem openStream_useFwd (s : St) (si : BitVec 16) : ((openStream s si).1).useFwd = s.useFwd := by
  unfold openStream; split <;> simp

@[simp] theorem gather_useFwd (s : St) : ((gather s).1).useFwd = s.useFwd := by
  unfold gather; dsimp only; repeat' split
  all_goals first | rfl | simp [createSack]

@[simp] theorem tick_useFwd (s : St) (d : Nat) : (tick s d).useFwd = s.useFwd := by
  unfold tick; dsimp only; repeat' split
  all_goals first | rfl | simp [ackTimeout]

@[simp] theorem step_useFwd (s : St) (op : Op) : (step s op).useFwd = s.useFwd := by
  cases op <;> simp [step]

@[simp] theorem run_useFwd (s : St) (ops : List Op) : (run s ops).useFwd = s.useFwd := by
  induction ops generalizing s with
  | nil => rfl
  | cons op ops ih => rw [run, List.foldl_cons]; exact (ih (step s op)).trans (step_useFwd s op)

@[simp] theorem createStream_useIFwd (s : St) (si : BitVec 16) (a : Bool) : ((createStream s si a).1).useIFwd = s.useIFwd := by
  unfold createStream; repeat' split
  all_goals first | rfl | simp

@[simp] theorem getOrCreateStream_useIFwd (s : St) (si : BitVec 16) (a : Bool) : ((getOrCreateStream s si a).1).useIFwd = s.useIFwd := by
  unfold getOrCreateStream; split <;> simp

@[simp] theorem abortPV_useIFwd (s : St) : (abortPV s).useIFwd = s.useIFwd := by
  rfl

@[simp] theorem unregister_useIFwd (s : St) (id : BitVec 16) : (unregister s id).useIFwd = s.useIFwd := by
  unfold unregister; split <;> rfl

@[simp] theorem foldl_unregister_useIFwd (ids : List (BitVec 16)) (s : St) : (ids.foldl unregister s).useIFwd = s.useIFwd := by
  induction ids generalizing s with
  | nil => rfl
  | cons id ids ih => simp [ih]

@[simp] theorem rememberPerformed_useIFwd (s : St) (rsn : BitVec 32) : (rememberPerformed s rsn).useIFwd = s.useIFwd := by
  rfl

@[simp] theorem resetStreamsIfAny_useIFwd (s : St) (r : ResetReq) : (resetStreamsIfAny s r).useIFwd = s.useIFwd := by
  unfold resetStreamsIfAny; split <;> simp

@[simp] theorem foldl_reset_useIFwd (rs : List ResetReq) (s : St) : (rs.foldl resetStreamsIfAny s).useIFwd = s.useIFwd := by
  induction rs generalizing s with
  | nil => rfl
  | cons r rs ih => simp [ih]

@[simp] theorem handleResetReq_useIFwd (s : St) (r : ResetReq) : (handleResetReq s r).useIFwd = s.useIFwd := by
  unfold handleResetReq; repeat' split
  all_goals first | rfl | simp

@[simp] theorem popLoop_useIFwd (n : Nat) (s : St) : (popLoop n s).useIFwd = s.useIFwd := by
  induction n generalizing s with
  | zero => rfl
  | succ n ih => simp only [popLoop]; split <;> simp [ih]

@[simp] theorem ackStep_useIFwd (s : St) (b : Bool) : (ackStep s b).useIFwd = s.useIFwd := by
  unfold ackStep; dsimp only; repeat' split
  all_goals simp

@[simp] theorem pushToStream_useIFwd (s : St) (c : Reasm.Chunk) : ((pushToStream s c).1).useIFwd = s.useIFwd := by
  unfold pushToStream; dsimp only; repeat' split
  all_goals first | rfl | simp

@[simp] theorem acceptPayloadData_useIFwd (s : St) (c : Reasm.Chunk) : ((acceptPayloadData s c).1).useIFwd = s.useIFwd := by
  unfold acceptPayloadData
  split
  · rename_i s' heq; have := getOrCreateStream_useIFwd s c.si true; rw [heq] at this; exact this
  · rename_i s' x heq; have := getOrCreateStream_useIFwd s c.si true; rw [heq] at this
    dsimp only at this ⊢; repeat' split
    all_goals simp [this]

@[simp] theorem handleData_useIFwd (s : St) (c : Reasm.Chunk) (imm : Bool) : (handleData s c imm).useIFwd = s.useIFwd := by
  unfold handleData; dsimp only; repeat' split
  all_goals first | rfl | simp

@[simp] theorem staleFwd_useIFwd (s : St) : (staleFwd s).useIFwd = s.useIFwd := by
  rfl

@[simp] theorem fwdEntry_useIFwd (s : St) (e : BitVec 16 × BitVec 16) : (fwdEntry s e).useIFwd = s.useIFwd := by
  unfold fwdEntry; dsimp only; repeat' split
  all_goals first | rfl | simp

@[simp] theorem foldl_fwdEntry_useIFwd (es : List (BitVec 16 × BitVec 16)) (s : St) : (es.foldl fwdEntry s).useIFwd = s.useIFwd := by
  induction es generalizing s with
  | nil => rfl
  | cons e es ih => simp [ih]

@[simp] theorem handleFwd_useIFwd (s : St) (c : TSN) (es : List (BitVec 16 × BitVec 16)) : (handleFwd s c es).useIFwd = s.useIFwd := by
  unfold handleFwd; repeat' split
  all_goals first | rfl | simp

@[simp] theorem ifwdEntry_useIFwd (s : St) (e : BitVec 16 × Bool × BitVec 32) : (ifwdEntry s e).useIFwd = s.useIFwd := by
  unfold ifwdEntry; dsimp only; repeat' split
  all_goals first | rfl | simp

@[simp] theorem foldl_ifwdEntry_useIFwd (es : List (BitVec 16 × Bool × BitVec 32)) (s : St) : (es.foldl ifwdEntry s).useIFwd = s.useIFwd := by
  induction es generalizing s with
  | nil => rfl
  | cons e es ih => simp [ih]

@[simp] theorem handleIFwd_useIFwd (s : St) (c : TSN) (es : List (BitVec 16 × Bool × BitVec 32)) : (handleIFwd s c es).useIFwd = s.useIFwd := by
  unfold handleIFwd; repeat' split
  all_goals first | rfl | simp

@[simp] theorem handleChunk_useIFwd (s : St) (c : InChunk) : (handleChunk s c).useIFwd = s.useIFwd := by
  cases c <;> simp only [handleChunk]
  · split <;> simp
  all_goals simp

@[simp] theorem foldl_handleChunk_useIFwd (cs : List InChunk) (s : St) : (cs.foldl handleChunk s).useIFwd = s.useIFwd := by
  induction cs generalizing s with
  | nil => rfl
  | cons c cs ih => simp [ih]

@[simp] theorem chunksStart_useIFwd (s : St) : (chunksStart s).useIFwd = s.useIFwd := by
  rfl

@[simp] theorem chunksEnd_useIFwd (s : St) : (chunksEnd s).useIFwd = s.useIFwd := by
  unfold chunksEnd; repeat' split
  all_goals rfl

@[simp] theorem packet_useIFwd (s : St) (cs : List InChunk) : (packet s cs).useIFwd = s.useIFwd := by
  simp [packet]

@[simp] theorem read_useIFwd (s : St) (n : Name) (b : Nat) : ((read s n b).1).useIFwd = s.useIFwd := by
  unfold read; repeat' split
  all_goals rfl

@[simp] theorem accept_useIFwd (s : St) : ((accept s).1).useIFwd = s.useIFwd := by
  unfold accept; split <;> rfl

@[simp] theorem openStream_useIFwd (s : St) (si : BitVec 16) : ((openStream s si).1).useIFwd = s.useIFwd := by
  unfold openStream; split <;> simp

@[simp] theorem gather_useIFwd (s : St) : ((gather s).1).useIFwd = s.useIFwd := by
  unfold gather; dsimp only; repeat' split
  all_goals first | rfl | simp [createSack]

@[simp] theorem tick_useIFwd (s : St) (d : Nat) : (tick s d).useIFwd = s.useIFwd := by
  unfold tick; dsimp only; repeat' split
  all_goals first | rfl | simp [ackTimeout]

@[simp] theorem step_useIFwd (s : St) (op : Op) : (step s op).useIFwd = s.useIFwd := by
  cases op <;> simp [step]

@[simp] theorem run_useIFwd (s : St) (ops : List Op) : (run s ops).useIFwd = s.useIFwd := by
  induction ops generalizing s with
  | nil => rfl
  | cons op ops ih => rw [run, List.foldl_cons]; exact (ih (step s op)).trans (step_useIFwd s op)

@[simp] theorem createStream_ackMode (s : St) (si : BitVec 16) (a : Bool) : ((createStream s si a).1).ackMode = s.ackMode := by
  unfold createStream; repeat' split
  all_goals first | rfl | simp

@[simp] theorem getOrCreateStream_ackMode (s : St) (si : BitVec 16) (a : Bool) : ((getOrCreateStream s si a).1).ackMode = s.ackMode := by
  unfold getOrCreateStream; split <;> simp

@[simp] theorem abortPV_ackMode (s : St) : (abortPV s).ackMode = s.ackMode := by
  rfl

@[simp] theorem unregister_ackMode (s : St) (id : BitVec 16) : (unregister s id).ackMode = s.ackMode := by
  unfold unregister; split <;> rfl

@[simp] theorem foldl_unregister_ackMode (ids : List (BitVec 16)) (s : St) : (ids.foldl unregister s).ackMode = s.ackMode := by
  induction ids generalizing s with
  | nil => rfl
  | cons id ids ih => simp [ih]

@[simp] theorem rememberPerformed_ackMode (s : St) (rsn : BitVec 32) : (rememberPerformed s rsn).ackMode = s.ackMode := by
  rfl

@[simp] theorem resetStreamsIfAny_ackMode (s : St) (r : ResetReq) : (resetStreamsIfAny s r).ackMode = s.ackMode := by
  unfold resetStreamsIfAny; split <;> simp

@[simp] theorem foldl_reset_ackMode (rs : List ResetReq) (s : St) : (rs.foldl resetStreamsIfAny s).ackMode = s.ackMode := by
  induction rs generalizing s with
  | nil => rfl
  | cons r rs ih => simp [ih]

@[simp] theorem handleResetReq_ackMode (s : St) (r : ResetReq) : (handleResetReq s r).ackMode = s.ackMode := by
  unfold handleResetReq; repeat' split
  all_goals first | rfl | simp

@[simp] theorem popLoop_ackMode (n : Nat) (s : St) : (popLoop n s).ackMode = s.ackMode := by
  induction n generalizing s with
  | zero => rfl
  | succ n ih => simp only [popLoop]; split <;> simp [ih]

@[simp] theorem ackStep_ackMode (s : St) (b : Bool) : (ackStep s b).ackMode = s.ackMode := by
  unfold ackStep; dsimp only; repeat' split
  all_goals simp

@[simp] theorem pushToStream_ackMode (s : St) (c : Reasm.Chunk) : ((pushToStream s c).1).ackMode = s.ackMode := by
  unfold pushToStream; dsimp only; repeat' split
  all_goals first | rfl | simp

@[simp] theorem acceptPayloadData_ackMode (s : St) (c : Reasm.Chunk) : ((acceptPayloadData s c).1).ackMode = s.ackMode := by
  unfold acceptPayloadData
  split
  · rename_i s' heq; have := getOrCreateStream_ackMode s c.si true; rw [heq] at this; exact this
  · rename_i s' x heq; have := getOrCreateStream_ackMode s c.si true; rw [heq] at this
    dsimp only at this ⊢; repeat' split
    all_goals simp [this]

@[simp] theorem handleData_ackMode (s : St) (c : Reasm.Chunk) (imm : Bool) : (handleData s c imm).ackMode = s.ackMode := by
  unfold handleData; dsimp only; repeat' split
  all_goals first | rfl | simp

@[simp] theorem staleFwd_ackMode (s : St) : (staleFwd s).ackMode = s.ackMode := by
  rfl

@[simp] theorem fwdEntry_ackMode (s : St) (e : BitVec 16 × BitVec 16) : (fwdEntry s e).ackMode = s.ackMode := by
  unfold fwdEntry; dsimp only; repeat' split
  all_goals first | rfl | simp

@[simp] theorem foldl_fwdEntry_ackMode (es : List (BitVec 16 × BitVec 16)) (s : St) : (es.foldl fwdEntry s).ackMode = s.ackMode := by
  induction es generalizing s with
  | nil => rfl
  | cons e es ih => simp [ih]

@[simp] theorem handleFwd_ackMode (s : St) (c : TSN) (es : List (BitVec 16 × BitVec 16)) : (handleFwd s c es).ackMode = s.ackMode := by
  unfold handleFwd; repeat' split
  all_goals first | rfl | simp

@[simp] theorem ifwdEntry_ackMode (s : St) (e : BitVec 16 × Bool × BitVec 32) : (ifwdEntry s e).ackMode = s.ackMode := by
  unfold ifwdEntry; dsimp only; repeat' split
  all_goals first | rfl | simp

@[simp] theorem foldl_ifwdEntry_ackMode (es : List (BitVec 16 × Bool × BitVec 32)) (s : St) : (es.foldl ifwdEntry s).ackMode = s.ackMode := by
  induction es generalizing s with
  | nil => rfl
  | cons e es ih => simp [ih]

@[simp] theorem handleIFwd_ackMode (s : St) (c : TSN) (es : List (BitVec 16 × Bool × BitVec 32)) : (handleIFwd s c es).ackMode = s.ackMode := by
  unfold handleIFwd; repeat' split
  all_goals first | rfl | simp

@[simp] theorem handleChunk_ackMode (s : St) (c : InChunk) : (handleChunk s c).ackMode = s.ackMode := by
  cases c <;> simp only [handleChunk]
  · split <;> simp
  all_goals simp

@[simp] theorem foldl_handleChunk_ackMode (cs : List InChunk) (s : St) : (cs.foldl handleChunk s).ackMode = s.ackMode := by
  induction cs generalizing s with
  | nil => rfl
  | cons c cs ih => simp [ih]

@[simp] theorem chunksStart_ackMode (s : St) : (chunksStart s).ackMode = s.ackMode := by
  rfl

@[simp] theorem chunksEnd_ackMode (s : St) : (chunksEnd s).ackMode = s.ackMode := by
  unfold chunksEnd; repeat' split
  all_goals rfl

@[simp] theorem packet_ackMode (s : St) (cs : List InChunk) : (packet s cs).ackMode = s.ackMode := by
  simp [packet]

@[simp] theorem read_ackMode (s : St) (n : Name) (b : Nat) : ((read s n b).1).ackMode = s.ackMode := by
  unfold read; repeat' split
  all_goals rfl

@[simp] theorem accept_ackMode (s : St) : ((accept s).1).ackMode = s.ackMode := by
  unfold accept; split <;> rfl

@[simp] theorem openStream_ackMode (s : St) (si : BitVec 16) : ((openStream s si).1).ackMode = s.ackMode := by
  unfold openStream; split <;> simp

@[simp] theorem gather_ackMode (s : St) : ((gather s).1).ackMode = s.ackMode := by
  unfold gather; dsimp only; repeat' split
  all_goals first | rfl | simp [createSack]

@[simp] theorem tick_ackMode (s : St) (d : Nat) : (tick s d).ackMode = s.ackMode := by
  unfold tick; dsimp only; repeat' split
  all_goals first | rfl | simp [ackTimeout]

@[simp] theorem step_ackMode (s : St) (op : Op) : (step s op).ackMode = s.ackMode := by
  cases op <;> simp [step]

@[simp] theorem run_ackMode (s : St) (ops : List Op) : (run s ops).ackMode = s.ackMode := by
  induction ops generalizing s with
  | nil => rfl
  | cons op ops ih => rw [run, List.foldl_cons]; exact (ih (step s op)).trans (step_ackMode s op)

@[simp] theorem createStream_scp (s : St) (si : BitVec 16) (a : Bool) : ((createStream s si a).1).scp = s.scp := by
  unfold createStream; repeat' split
  all_goals first | rfl | simp

@[simp] theorem getOrCreateStream_scp (s : St) (si : BitVec 16) (a : Bool) : ((getOrCreateStream s si a).1).scp = s.scp := by
  unfold getOrCreateStream; split <;> simp

@[simp] theorem abortPV_scp (s : St) : (abortPV s).scp = s.scp := by
  rfl

@[simp] theorem unregister_scp (s : St) (id : BitVec 16) : (unregister s id).scp = s.scp := by
  unfold unregister; split <;> rfl

@[simp] theorem foldl_unregister_scp (ids : List (BitVec 16)) (s : St) : (ids.foldl unregister s).scp = s.scp := by
  induction ids generalizing s with
  | nil => rfl
  | cons id ids ih => simp [ih]

@[simp] theorem rememberPerformed_scp (s : St) (rsn : BitVec 32) : (rememberPerformed s rsn).scp = s.scp := by
  rfl

@[simp] theorem resetStreamsIfAny_scp (s : St) (r : ResetReq) : (resetStreamsIfAny s r).scp = s.scp := by
  unfold resetStreamsIfAny; split <;> simp

@[simp] theorem foldl_reset_scp (rs : List ResetReq) (s : St) : (rs.foldl resetStreamsIfAny s).scp = s.scp := by
  induction rs generalizing s with
  | nil => rfl
  | cons r rs ih => simp [ih]

@[simp] theorem handleResetReq_scp (s : St) (r : ResetReq) : (handleResetReq s r).scp = s.scp := by
  unfold handleResetReq; repeat' split
  all_goals first | rfl | simp

@[simp] theorem popLoop_scp (n : Nat) (s : St) : (popLoop n s).scp = s.scp := by
  induction n generalizing s with
  | zero => rfl
  | succ n ih => simp only [popLoop]; split <;> simp [ih]

@[simp] theorem ackStep_scp (s : St) (b : Bool) : (ackStep s b).scp = s.scp := by
  unfold ackStep; dsimp only; repeat' split
  all_goals simp

@[simp] theorem pushToStream_scp (s : St) (c : Reasm.Chunk) : ((pushToStream s c).1).scp = s.scp := by
  unfold pushToStream; dsimp only; repeat' split
  all_goals first | rfl | simp

@[simp] theorem acceptPayloadData_scp (s : St) (c : Reasm.Chunk) : ((acceptPayloadData s c).1).scp = s.scp := by
  unfold acceptPayloadData
  split
  · rename_i s' heq; have := getOrCreateStream_scp s c.si true; rw [heq] at this; exact this
  · rename_i s' x heq; have := getOrCreateStream_scp s c.si true; rw [heq] at this
    dsimp only at this ⊢; repeat' split
    all_goals simp [this]

@[simp] theorem handleData_scp (s : St) (c : Reasm.Chunk) (imm : Bool) : (handleData s c imm).scp = s.scp := by
  unfold handleData; dsimp only; repeat' split
  all_goals first | rfl | simp

@[simp] theorem staleFwd_scp (s : St) : (staleFwd s).scp = s.scp := by
  rfl

@[simp] theorem fwdEntry_scp (s : St) (e : BitVec 16 × BitVec 16) : (fwdEntry s e).scp = s.scp := by
  unfold fwdEntry; dsimp only; repeat' split
  all_goals first | rfl | simp

@[simp] theorem foldl_fwdEntry_scp (es : List (BitVec 16 × BitVec 16)) (s : St) : (es.foldl fwdEntry s).scp = s.scp := by
  induction es generalizing s with
  | nil => rfl
  | cons e es ih => simp [ih]

@[simp] theorem handleFwd_scp (s : St) (c : TSN) (es : List (BitVec 16 × BitVec 16)) : (handleFwd s c es).scp = s.scp := by
  unfold handleFwd; repeat' split
  all_goals first | rfl | simp

@[simp] theorem ifwdEntry_scp (s : St) (e : BitVec 16 × Bool × BitVec 32) : (ifwdEntry s e).scp = s.scp := by
  unfold ifwdEntry; dsimp only; repeat' split
  all_goals first | rfl | simp

@[simp] theorem foldl_ifwdEntry_scp (es : List (BitVec 16 × Bool × BitVec 32)) (s : St) : (es.foldl ifwdEntry s).scp = s.scp := by
  induction es generalizing s with
  | nil => rfl
  | cons e es ih => simp [ih]

@[simp] theorem handleIFwd_scp (s : St) (c : TSN) (es : List (BitVec 16 × Bool × BitVec 32)) : (handleIFwd s c es).scp = s.scp := by
  unfold handleIFwd; repeat' split
  all_goals first | rfl | simp

@[simp] theorem handleChunk_scp (s : St) (c : InChunk) : (handleChunk s c).scp = s.scp := by
  cases c <;> simp only [handleChunk]
  · split <;> simp
  all_goals simp

@[simp] theorem foldl_handleChunk_scp (cs : List InChunk) (s : St) : (cs.foldl handleChunk s).scp = s.scp := by
  induction cs generalizing s with
  | nil => rfl
  | cons c cs ih => simp [ih]

@[simp] theorem chunksStart_scp (s : St) : (chunksStart s).scp = s.scp := by
  rfl

@[simp] theorem chunksEnd_scp (s : St) : (chunksEnd s).scp = s.scp := by
  unfold chunksEnd; repeat' split
  all_goals rfl

@[simp] theorem packet_scp (s : St) (cs : List InChunk) : (packet s cs).scp = s.scp := by
  simp [packet]

@[simp] theorem read_scp (s : St) (n : Name) (b : Nat) : ((read s n b).1).scp = s.scp := by
  unfold read; repeat' split
  all_goals rfl

@[simp] theorem accept_scp (s : St) : ((accept s).1).scp = s.scp := by
  unfold accept; split <;> rfl

@[simp] theorem openStream_scp (s : St) (si : BitVec 16) : ((openStream s si).1).scp = s.scp := by
  unfold openStream; split <;> simp

@[simp] theorem gather_scp (s : St) : ((gather s).1).scp = s.scp := by
  unfold gather; dsimp only; repeat' split
  all_goals first | rfl | simp [createSack]

@[simp] theorem tick_scp (s : St) (d : Nat) : (tick s d).scp = s.scp := by
  unfold tick; dsimp only; repeat' split
  all_goals first | rfl | simp [ackTimeout]

@[simp] theorem step_scp (s : St) (op : Op) : (step s op).scp = s.scp := by
  cases op <;> simp [step]

@[simp] theorem run_scp (s : St) (ops : List Op) : (run s ops).scp = s.scp := by
  induction ops generalizing s with
  | nil => rfl
  | cons op ops ih => rw [run, List.foldl_cons]; exact (ih (step s op)).trans (step_scp s op)

end Receiver
