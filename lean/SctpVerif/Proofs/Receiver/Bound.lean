import SctpVerif.Proofs.Receiver.Streams
import SctpVerif.Proofs.RecvQ.Unset
/-!
The memory bound (C11): the user bytes held by the registered streams never exceed
`buffer + maxTSNOffset · M` (`M` = largest DATA chunk). Potential argument: while the credit is positive a stored
chunk leaves the held bytes below `buffer + M`; while it is zero a chunk is stored only into an UNSET slot below
the highest TSN received (`RecvQ.unset`), and nothing but storing above the highest TSN — impossible at zero
credit — adds unset slots. So `held + unset · M ≤ buffer + maxTSNOffset · M` whenever `held ≥ buffer`.
-/
namespace Receiver
open Gen

/-- the potential -/
def Pot (M : Nat) (s : St) : Prop :=
  s.maxBuf.toNat ≤ heldRegistered s →
    heldRegistered s + RecvQ.unset s.pq * M ≤ s.maxBuf.toNat + s.pq.maxOff.toNat * M

theorem Pot.mono {M : Nat} {s s' : St} (hH : heldRegistered s' ≤ heldRegistered s) (hU : RecvQ.unset s'.pq ≤ RecvQ.unset s.pq)
    (hB : s'.maxBuf = s.maxBuf) (hm : s'.pq.maxOff = s.pq.maxOff) (h : Pot M s) : Pot M s' := by
  intro hb
  rw [hB, hm] at *
  have := h (by omega)
  have : RecvQ.unset s'.pq * M ≤ RecvQ.unset s.pq * M := Nat.mul_le_mul_right _ hU
  omega

/-- the graded exactness predicate of `Credit.lean` -/
abbrev Pc (b : Nat) (q : Reasm.Q) : Prop := b < 2^63 → Reasm.CInv q b

theorem exact_of_pc {b : Nat} {s : St} (h : AllQ (Pc b) s) (hb : b < 2^63) : Exact s :=
  ⟨fun x hx => by obtain ⟨h1, h2⟩ := h.1 x hx hb; exact ⟨h1, by omega⟩,
   fun x hx => by obtain ⟨h1, h2⟩ := h.2 x hx hb; exact ⟨h1, by omega⟩⟩

/-- an operation that adds no bytes does not increase the bytes a queue holds -/
theorem step0_held_le (q : Reasm.Q) (hex : q.nBytes.toNat = q.heldBytes ∧ q.heldBytes < 2^63) (op : Reasm.Op)
    (h0 : op.bytes = 0) : (q.step op).heldBytes ≤ q.heldBytes := by
  have := Reasm.CInv_step (q := q) (B := q.heldBytes) ⟨hex.1, Nat.le_refl _⟩ op (by omega)
  have := this.2; omega

/-! ### sums over the stream table -/

theorem sumHeld_setQ_le (l : List Stream) (si : BitVec 16) (f : Reasm.Q → Reasm.Q)
    (hf : ∀ x ∈ l, (f x.q).heldBytes ≤ x.q.heldBytes) : sumHeld (setQ l si f) ≤ sumHeld l := by
  cases hg : getS l si with
  | none => rw [sumHeld_setQ_none l si f hg]; exact Nat.le_refl _
  | some x =>
    have := sumHeld_setQ l si f x hg
    have := hf x (getS_mem hg).1
    omega

theorem sumHeld_map_le (l : List Stream) (g : Stream → Stream) (hg : ∀ x ∈ l, (g x).q.heldBytes ≤ x.q.heldBytes) :
    sumHeld (l.map g) ≤ sumHeld l := by
  induction l with
  | nil => exact Nat.le_refl _
  | cons x l ih =>
    simp only [List.map_cons, sumHeld_cons]
    have := hg x List.mem_cons_self
    have := ih (fun y hy => hg y (List.mem_cons_of_mem _ hy))
    omega

/-! ### the handlers that store nothing -/

theorem createStream_hr (s : St) (si : BitVec 16) (a : Bool) : heldRegistered (createStream s si a).1 = heldRegistered s := by
  rcases createStream_cases s si a with ⟨e, _⟩ | ⟨strm, hq, _, _, hs, _, _, _⟩
  · rw [e]
  · show sumHeld _ = sumHeld _
    rw [hs, sumHeld_append, sumHeld_cons, sumHeld_nil, hq, heldBytes_new]; omega

theorem getOrCreateStream_hr (s : St) (si : BitVec 16) (a : Bool) :
    heldRegistered (getOrCreateStream s si a).1 = heldRegistered s := by
  unfold getOrCreateStream; split; rfl; exact createStream_hr s si a

theorem unregister_hr (s : St) (id : BitVec 16) : heldRegistered (unregister s id) ≤ heldRegistered s := by
  unfold unregister
  split
  · exact Nat.le_refl _
  · exact sumHeld_filter_le _ _

theorem foldl_unregister_hr (ids : List (BitVec 16)) (s : St) : heldRegistered (ids.foldl unregister s) ≤ heldRegistered s := by
  induction ids generalizing s with
  | nil => exact Nat.le_refl _
  | cons id ids ih => exact Nat.le_trans (ih _) (unregister_hr s id)

theorem resetStreamsIfAny_hr (s : St) (r : ResetReq) : heldRegistered (resetStreamsIfAny s r) ≤ heldRegistered s := by
  unfold resetStreamsIfAny
  split
  · exact foldl_unregister_hr r.ids s
  · exact Nat.le_refl _

theorem foldl_reset_hr (rs : List ResetReq) (s : St) : heldRegistered (rs.foldl resetStreamsIfAny s) ≤ heldRegistered s := by
  induction rs generalizing s with
  | nil => exact Nat.le_refl _
  | cons r rs ih => exact Nat.le_trans (ih _) (resetStreamsIfAny_hr s r)

theorem handleResetReq_hr (s : St) (r : ResetReq) : heldRegistered (handleResetReq s r) ≤ heldRegistered s := by
  unfold handleResetReq
  split
  · exact Nat.le_refl _
  · split
    · exact Nat.le_refl _
    · exact resetStreamsIfAny_hr { s with resetReqs := s.resetReqs.filter (fun x => x.rsn != r.rsn) ++ [r] } r

theorem popLoop_hr (n : Nat) (s : St) : heldRegistered (popLoop n s) ≤ heldRegistered s := by
  induction n generalizing s with
  | zero => exact Nat.le_refl _
  | succ n ih =>
    simp only [popLoop]
    split
    · exact Nat.le_trans (ih _) (foldl_reset_hr _ { s with pq := _ })
    · exact Nat.le_refl _

theorem ackStep_hr (s : St) (b : Bool) : heldRegistered (ackStep s b) ≤ heldRegistered s := by
  have := popLoop_hr s.pq.size.toNat s
  unfold ackStep
  dsimp only
  repeat' split
  all_goals exact this

/-- the pop loop: queue invariant kept, unset slots and window unchanged -/
theorem ackStep_queue (s : St) (b : Bool) (I : RecvQ.Inv s.pq) :
    RecvQ.Inv (ackStep s b).pq ∧ RecvQ.unset (ackStep s b).pq = RecvQ.unset s.pq ∧ (ackStep s b).pq.maxOff = s.pq.maxOff := by
  rw [ackStep_pq s b ⟨0, 0, fun _ => False, fun _ => False⟩]
  refine ⟨?_, RecvQ.unset_popLoop _ I, RecvQ.popLoopS_maxOff _ _⟩
  have : RecvQ.GInv (⟨s.pq, ⟨0, 0, fun _ => False, fun _ => False⟩⟩ : RecvQ.St) → True := fun _ => trivial
  -- `Inv` along the pop loop
  have hl : ∀ n (R : RecvQ.St), RecvQ.Inv R.q → RecvQ.Inv (RecvQ.popLoopS n R).q := by
    intro n
    induction n with
    | zero => intro R h; exact h
    | succ n ih =>
      intro R h
      simp only [RecvQ.popLoopS]
      split
      · exact ih _ (RecvQ.pop_inv h false)
      · exact h
  exact hl _ _ I

theorem ackStep_pot {M : Nat} (s : St) (b : Bool) (I : RecvQ.Inv s.pq) (h : Pot M s) : Pot M (ackStep s b) := by
  obtain ⟨_, hu, hm⟩ := ackStep_queue s b I
  exact h.mono (ackStep_hr s b) (Nat.le_of_eq hu) (ackStep_maxBuf s b) hm


/-! ### storing a chunk -/

theorem pushToStream_gone (s : St) (c : Reasm.Chunk) : (pushToStream s c).1.gone = s.gone := by
  unfold pushToStream; dsimp only; repeat' split
  all_goals rfl

theorem pushToStream_hr (s : St) (c : Reasm.Chunk) : heldRegistered (pushToStream s c).1 ≤ heldRegistered s + c.len := by
  have h := pushToStream_heldAll s c
  have hg := pushToStream_gone s c
  simp only [heldAll, hg] at h
  show sumHeld _ ≤ sumHeld _ + _
  omega

/-- serially below the highest TSN received ⇒ the slot lies below the tail -/
theorem below_tail {q : RecvQ.Q} (I : RecvQ.Inv q) (t : TSN) (hadm : RecvQ.admissible q t) (hs : q.size ≠ 0)
    (hlt : sna32LT t q.tail = true) : (t - q.cum).toNat < RecvQ.dtail q := by
  have hb := I.hb
  have h := (Sna.lt32_iff t q.tail).mp hlt
  obtain ⟨a1, a2, a3, a4⟩ := hadm
  simp only [RecvQ.dtail] at *
  bv_omega

/-- ✱ the core of the bound: `acceptPayloadData` keeps the potential -/
theorem acceptPayloadData_pot {M b : Nat} (s : St) (c : Reasm.Chunk) (hex : AllQ (Pc b) s) (hb : b < 2^63)
    (I : RecvQ.Inv s.pq) (hcp : RecvQ.canPush s.pq c.tsn = true) (hM : c.len ≤ M) (hmo : 1 ≤ s.pq.maxOff.toNat)
    (hsmall : s.maxBuf.toNat + s.pq.maxOff.toNat * M < 2^32) (hbound : heldRegistered s ≤ s.maxBuf.toNat + s.pq.maxOff.toNat * M)
    (h : Pot M s) : Pot M (acceptPayloadData s c).1 := by
  have hpush : (RecvQ.push s.pq c.tsn).2 = true := by rw [← RecvQ.canPush_eq_push]; exact hcp
  have hg_hr := getOrCreateStream_hr s c.si true
  have hg_pq := getOrCreateStream_pq s c.si true
  have hg_mb := getOrCreateStream_maxBuf s c.si true
  have hg_cr := credit_getOrCreateStream s c.si true
  have hg_ex := exact_of_pc (getOrCreateStream_allQ_g cinv_gpres hex c.si true) hb
  unfold acceptPayloadData
  rcases hgo : getOrCreateStream s c.si true with ⟨s1, o⟩
  rw [hgo] at hg_hr hg_pq hg_mb hg_cr hg_ex
  dsimp only at hg_hr hg_pq hg_mb hg_cr hg_ex
  have h1 : Pot M s1 := h.mono (Nat.le_of_eq hg_hr) (by rw [hg_pq]; exact Nat.le_refl _) hg_mb (by rw [hg_pq])
  cases o with
  | none => exact h1
  | some x =>
    dsimp only
    -- the credit formula in `s1`
    have hcr : (credit s1).toNat = s1.maxBuf.toNat - heldRegistered s1 :=
      credit_eq s1 hg_ex.1 (by rw [hg_hr]; omega)
    have hp_hr := pushToStream_hr s1 c
    have hp_pq : (pushToStream s1 c).1.pq = (RecvQ.push s.pq c.tsn).1 := by rw [pushToStream_pq, hg_pq]
    have hp_mb : (pushToStream s1 c).1.maxBuf = s.maxBuf := by rw [pushToStream_maxBuf, hg_mb]
    by_cases hc : accept_hasCredit (credit s1) = true
    · -- credit: the held bytes are below the buffer; afterwards below buffer + M
      rw [if_pos hc]
      have hpos : 0 < (credit s1).toNat := by
        simp only [accept_hasCredit, decide_eq_true_eq] at hc
        exact BitVec.lt_def.mp hc
      intro _
      rw [hp_pq, hp_mb, RecvQ.push_maxOff]
      have hu := RecvQ.unset_push_any I c.tsn hpush
      have hlt : heldRegistered s < s.maxBuf.toNat := by rw [hg_mb, hg_hr] at hcr; omega
      have hle : heldRegistered (pushToStream s1 c).1 ≤ heldRegistered s + M := by rw [hg_hr] at hp_hr; omega
      have : RecvQ.unset (RecvQ.push s.pq c.tsn).1 * M ≤ (s.pq.maxOff.toNat - 1) * M := Nat.mul_le_mul_right _ (by omega)
      have e : (s.pq.maxOff.toNat - 1) * M + M = s.pq.maxOff.toNat * M := by
        rw [← Nat.succ_mul]; congr 1; omega
      omega
    · rw [if_neg hc]
      have hzero : (credit s1).toNat = 0 := by
        simp only [accept_hasCredit, decide_eq_true_eq] at hc
        have := mt BitVec.lt_def.mpr hc
        simp at this; omega
      have hfull : s.maxBuf.toNat ≤ heldRegistered s := by rw [hg_mb, hg_hr] at hcr; omega
      by_cases hd : accept_dropAtFullBuffer (RecvQ.lastTSN s1.pq).isSome c.tsn ((RecvQ.lastTSN s1.pq).getD 0) = true
      · rw [if_pos hd]; exact h1
      · rw [if_neg hd]
        -- fills a gap below the highest TSN received: one unset slot is used up
        have hd' : accept_dropAtFullBuffer (RecvQ.lastTSN s1.pq).isSome c.tsn ((RecvQ.lastTSN s1.pq).getD 0) = false := by
          simpa using hd
        rw [hg_pq] at hd'
        simp only [accept_dropAtFullBuffer, Bool.or_eq_false_iff, Bool.not_eq_false'] at hd'
        have hsz : s.pq.size ≠ 0 := by
          intro h0
          have : RecvQ.lastTSN s.pq = none := by simp [RecvQ.lastTSN, h0]
          rw [this] at hd'; simp at hd'
        have hlast : RecvQ.lastTSN s.pq = some s.pq.tail := by
          have : (s.pq.size == 0) = false := by simpa using hsz
          simp [RecvQ.lastTSN, this]
        rw [hlast] at hd'
        have hlt : sna32LT c.tsn s.pq.tail = true := by simpa using hd'.2
        obtain ⟨hadm, _⟩ := (RecvQ.push_accept_iff I c.tsn).mp hpush
        have hgap := below_tail I c.tsn hadm hsz hlt
        have hu := RecvQ.unset_push_gap I c.tsn hpush (by omega)
        have hpot := h hfull
        intro _
        rw [hp_pq, hp_mb, RecvQ.push_maxOff]
        have hle : heldRegistered (pushToStream s1 c).1 ≤ heldRegistered s + M := by rw [hg_hr] at hp_hr; omega
        have e : RecvQ.unset s.pq * M = RecvQ.unset (RecvQ.push s.pq c.tsn).1 * M + M := by
          rw [← hu, Nat.succ_mul]
        omega


/-! ### the queue invariant along traces -/

theorem ginv_of_inv {q : RecvQ.Q} (I : RecvQ.Inv q) :
    RecvQ.GInv ⟨q, ⟨q.cum, 0, fun k => RecvQ.heldAt q k, fun _ => False⟩⟩ :=
  ⟨I, by simp, fun d _ => by simp, fun k h1 h2 => by simp at h2; omega⟩

theorem qrun_inv {q : RecvQ.Q} (I : RecvQ.Inv q) (ops : List RecvQ.Op) :
    RecvQ.Inv (qrun q ops) ∧ (qrun q ops).maxOff = q.maxOff := by
  rw [qrun_eq q ⟨q.cum, 0, fun k => RecvQ.heldAt q k, fun _ => False⟩]
  exact ⟨(RecvQ.run_ginv (ginv_of_inv I) ops).inv, RecvQ.run_maxOff _ _⟩

/-! ### DATA -/

theorem handleData_pot {M b : Nat} (s : St) (c : Reasm.Chunk) (imm : Bool) (hex : AllQ (Pc b) s) (hb : b < 2^63)
    (I : RecvQ.Inv s.pq) (hM : c.len ≤ M) (hmo : 1 ≤ s.pq.maxOff.toNat)
    (hsmall : s.maxBuf.toNat + s.pq.maxOff.toNat * M < 2^32) (hbound : heldRegistered s ≤ s.maxBuf.toNat + s.pq.maxOff.toNat * M)
    (h : Pot M s) : Pot M (handleData s c imm) := by
  unfold handleData
  dsimp only
  split
  · exact h
  · split
    · exact h
    · by_cases hcp : RecvQ.canPush s.pq c.tsn = true
      · simp only [if_pos hcp]
        have hr := acceptPayloadData_pot s c hex hb I hcp hM hmo hsmall hbound h
        have hI : RecvQ.Inv (acceptPayloadData s c).1.pq := by
          rw [acceptPayloadData_pq]; split
          · exact RecvQ.push_inv I _
          · exact I
        split
        · split
          · exact ackStep_pot _ _ hI hr
          · exact hr
        · exact ackStep_pot _ _ hI hr
      · simp only [if_neg hcp]
        split
        · split
          · exact ackStep_pot _ _ I h
          · exact h
        · exact ackStep_pot _ _ I h

/-! ### FORWARD-TSN -/

theorem fwdEntry_hr {b : Nat} (s : St) (e : BitVec 16 × BitVec 16) (hex : AllQ (Pc b) s) (hb : b < 2^63) :
    heldRegistered (fwdEntry s e) ≤ heldRegistered s := by
  have hc := createStream_hr s e.1 true
  have hcx := exact_of_pc (createStream_allQ_g cinv_gpres hex e.1 true) hb
  have hsx := exact_of_pc hex hb
  unfold fwdEntry
  dsimp only
  have key : ∀ s' : St, Exact s' → sumHeld (setQ s'.streams e.1 (fun q => q.forwardTSNForOrdered e.2)) ≤ sumHeld s'.streams :=
    fun s' hx => sumHeld_setQ_le _ _ _ (fun x hx' => step0_held_le x.q (hx.1 x hx') (.fwdO e.2) rfl)
  split
  · split
    · exact key s hsx
    · exact Nat.le_refl _
  · split
    · exact Nat.le_trans (key _ hcx) (Nat.le_of_eq hc)
    · exact Nat.le_of_eq hc

theorem foldl_fwdEntry_hr {b : Nat} (es : List (BitVec 16 × BitVec 16)) (s : St) (hex : AllQ (Pc b) s) (hb : b < 2^63) :
    heldRegistered (es.foldl fwdEntry s) ≤ heldRegistered s := by
  induction es generalizing s with
  | nil => exact Nat.le_refl _
  | cons e es ih => exact Nat.le_trans (ih _ (fwdEntry_allQ_g cinv_gpres hex e)) (fwdEntry_hr s e hex hb)

theorem ifwdEntry_hr {b : Nat} (s : St) (e : BitVec 16 × Bool × BitVec 32) (hex : AllQ (Pc b) s) (hb : b < 2^63) :
    heldRegistered (ifwdEntry s e) ≤ heldRegistered s := by
  have hc := createStream_hr s e.1 true
  have hcx := exact_of_pc (createStream_allQ_g cinv_gpres hex e.1 true) hb
  have hsx := exact_of_pc hex hb
  unfold ifwdEntry
  dsimp only
  have key : ∀ s' : St, Exact s' → sumHeld (setQ s'.streams e.1 (fun q =>
      if e.2.1 then q.forwardTSNForUnorderedMID e.2.2 else q.forwardTSNForOrderedMID e.2.2)) ≤ sumHeld s'.streams :=
    fun s' hx => sumHeld_setQ_le _ _ _ (fun x hx' => by
      show (if e.2.1 then x.q.forwardTSNForUnorderedMID e.2.2 else x.q.forwardTSNForOrderedMID e.2.2).heldBytes ≤ _
      split
      · exact step0_held_le x.q (hx.1 x hx') (.fwdUM e.2.2) rfl
      · exact step0_held_le x.q (hx.1 x hx') (.fwdOM e.2.2) rfl)
  split
  · split
    · exact key s hsx
    · exact Nat.le_refl _
  · split
    · exact Nat.le_trans (key _ hcx) (Nat.le_of_eq hc)
    · exact Nat.le_of_eq hc

theorem foldl_ifwdEntry_hr {b : Nat} (es : List (BitVec 16 × Bool × BitVec 32)) (s : St) (hex : AllQ (Pc b) s) (hb : b < 2^63) :
    heldRegistered (es.foldl ifwdEntry s) ≤ heldRegistered s := by
  induction es generalizing s with
  | nil => exact Nat.le_refl _
  | cons e es ih => exact Nat.le_trans (ih _ (ifwdEntry_allQ_g cinv_gpres hex e)) (ifwdEntry_hr s e hex hb)

theorem handleFwd_pot {M b : Nat} (s : St) (c : TSN) (es : List (BitVec 16 × BitVec 16)) (hex : AllQ (Pc b) s) (hb : b < 2^63)
    (I : RecvQ.Inv s.pq) (h : Pot M s) : Pot M (handleFwd s c es) := by
  unfold handleFwd
  split
  · exact h
  · split
    · exact h
    · split
      · exact h
      · -- advance, purge, pop loop
        let s1 : St := { s with pq := RecvQ.advance s.pq c }
        have hex1 : AllQ (Pc b) s1 := hex
        have h1 : Pot M s1 := Pot.mono (s := s) (s' := s1) (Nat.le_refl _) (RecvQ.unset_advance I c) rfl (RecvQ.advance_maxOff _ _) h
        have hf_hr := foldl_fwdEntry_hr es s1 hex1 hb
        have hf_ex := exact_of_pc (foldl_fwdEntry_allQ_g cinv_gpres es hex1) hb
        have hf_pq : (es.foldl fwdEntry s1).pq = s1.pq := foldl_fwdEntry_pq es s1
        have hf_mb : (es.foldl fwdEntry s1).maxBuf = s1.maxBuf := foldl_fwdEntry_maxBuf es s1
        have h2 : Pot M (es.foldl fwdEntry s1) :=
          Pot.mono (s := s1) (s' := es.foldl fwdEntry s1) hf_hr (by rw [hf_pq]; exact Nat.le_refl _) hf_mb (by rw [hf_pq]) h1
        let s3 : St := { es.foldl fwdEntry s1 with streams := (es.foldl fwdEntry s1).streams.map fun x => { x with q := x.q.forwardTSNForUnordered c } }
        have hle3 : heldRegistered s3 ≤ heldRegistered (es.foldl fwdEntry s1) :=
          sumHeld_map_le _ _ (fun x hx => step0_held_le x.q (hf_ex.1 x hx) (.fwdU c) rfl)
        have h3 : Pot M s3 := Pot.mono (s := es.foldl fwdEntry s1) (s' := s3) hle3 (Nat.le_refl _) rfl rfl h2
        have hI3 : RecvQ.Inv s3.pq := by
          show RecvQ.Inv (es.foldl fwdEntry s1).pq
          rw [hf_pq]; exact RecvQ.advance_inv I c
        show Pot M (ackStep s3 false)
        exact ackStep_pot s3 false hI3 h3

theorem handleIFwd_pot {M b : Nat} (s : St) (c : TSN) (es : List (BitVec 16 × Bool × BitVec 32)) (hex : AllQ (Pc b) s) (hb : b < 2^63)
    (I : RecvQ.Inv s.pq) (h : Pot M s) : Pot M (handleIFwd s c es) := by
  unfold handleIFwd
  split
  · exact h
  · split
    · exact h
    · let s1 : St := { s with pq := RecvQ.advance s.pq c }
      have hex1 : AllQ (Pc b) s1 := hex
      have h1 : Pot M s1 := Pot.mono (s := s) (s' := s1) (Nat.le_refl _) (RecvQ.unset_advance I c) rfl (RecvQ.advance_maxOff _ _) h
      have hf_hr := foldl_ifwdEntry_hr es s1 hex1 hb
      have hf_pq : (es.foldl ifwdEntry s1).pq = s1.pq := foldl_ifwdEntry_pq es s1
      have hf_mb : (es.foldl ifwdEntry s1).maxBuf = s1.maxBuf := foldl_ifwdEntry_maxBuf es s1
      have h2 : Pot M (es.foldl ifwdEntry s1) :=
        Pot.mono (s := s1) (s' := es.foldl ifwdEntry s1) hf_hr (by rw [hf_pq]; exact Nat.le_refl _) hf_mb (by rw [hf_pq]) h1
      have hI2 : RecvQ.Inv (es.foldl ifwdEntry s1).pq := by rw [hf_pq]; exact RecvQ.advance_inv I c
      show Pot M (ackStep (es.foldl ifwdEntry s1) false)
      exact ackStep_pot _ false hI2 h2


/-! ### the invariant along runs -/

/-- budgeted exactness of all counters, queue invariant, potential, and the sizing side conditions -/
structure BInv (M b : Nat) (s : St) : Prop where
  ex : AllQ (Pc b) s
  inv : RecvQ.Inv s.pq
  pot : Pot M s
  mo : 1 ≤ s.pq.maxOff.toNat
  small : s.maxBuf.toNat + s.pq.maxOff.toNat * M < 2^32

/-- ✱ the bound follows from the potential -/
theorem BInv.bound {M b : Nat} {s : St} (h : BInv M b s) : heldRegistered s ≤ s.maxBuf.toNat + s.pq.maxOff.toNat * M := by
  by_cases hb : s.maxBuf.toNat ≤ heldRegistered s
  · have := h.pot hb; omega
  · omega

theorem BInv.weaken {M b b' : Nat} {s : St} (h : BInv M b s) (hb : b ≤ b') : BInv M b' s :=
  ⟨AllQ.mono cinv_gpres hb h.ex, h.inv, h.pot, h.mo, h.small⟩

/-- a step that touches neither a reassembly queue's bytes upward nor the receive queue's slots -/
theorem BInv.of_frames {M b : Nat} {s s' : St} (h : BInv M b s) (hex : AllQ (Pc b) s') (hpq : s'.pq = s.pq)
    (hmb : s'.maxBuf = s.maxBuf) (hhr : heldRegistered s' ≤ heldRegistered s) : BInv M b s' :=
  ⟨hex, hpq ▸ h.inv, h.pot.mono hhr (by rw [hpq]; exact Nat.le_refl _) hmb (by rw [hpq]), hpq ▸ h.mo, by rw [hpq, hmb]; exact h.small⟩

theorem handleChunk_binv {M b : Nat} {s : St} (h : BInv M b s) (ch : InChunk) (hM : chunkBytes ch ≤ M)
    (hb : b + chunkBytes ch < 2^63) : BInv M (b + chunkBytes ch) (handleChunk s ch) := by
  have hex' := handleChunk_allQ_g cinv_gpres h.ex ch
  have hq := qrun_inv h.inv (chunkTrace s ch)
  rw [← handleChunk_pq] at hq
  have hmb : (handleChunk s ch).maxBuf = s.maxBuf := handleChunk_maxBuf s ch
  refine ⟨hex', hq.1, ?_, by rw [hq.2]; exact h.mo, by rw [hq.2, hmb]; exact h.small⟩
  have hb0 : b < 2^63 := by omega
  cases ch with
  | data c imm =>
    simp only [handleChunk]
    split
    · exact h.pot
    · exact handleData_pot s c imm h.ex hb0 h.inv hM h.mo h.small h.bound h.pot
  | fwd c es => exact handleFwd_pot s c es h.ex hb0 h.inv h.pot
  | ifwd c es => exact handleIFwd_pot s c es h.ex hb0 h.inv h.pot
  | hb info => exact h.pot
  | reset r =>
    exact h.pot.mono (handleResetReq_hr s r) (by rw [show (handleChunk s (.reset r)).pq = s.pq from handleResetReq_pq s r]; exact Nat.le_refl _)
      (handleResetReq_maxBuf s r) (by rw [show (handleChunk s (.reset r)).pq = s.pq from handleResetReq_pq s r])

theorem foldl_handleChunk_binv {M : Nat} (cs : List InChunk) : ∀ {b : Nat} {s : St}, BInv M b s →
    (∀ ch ∈ cs, chunkBytes ch ≤ M) → b + (cs.map chunkBytes).sum < 2^63 →
    BInv M (b + (cs.map chunkBytes).sum) (cs.foldl handleChunk s) := by
  induction cs with
  | nil => intro b s h _ _; exact h
  | cons c cs ih =>
    intro b s h hM hb
    simp only [List.map_cons, List.sum_cons] at hb ⊢
    have h1 := handleChunk_binv h c (hM c List.mem_cons_self) (by omega)
    have := ih h1 (fun ch hch => hM ch (List.mem_cons_of_mem _ hch)) (by omega)
    rw [← Nat.add_assoc]; exact this

theorem sumHeld_setFirst_le (p : Stream → Bool) (v : Stream) (l : List Stream) (x : Stream) (hf : l.find? p = some x)
    (hv : v.q.heldBytes ≤ x.q.heldBytes) : sumHeld (setFirst p v l) ≤ sumHeld l := by
  induction l with
  | nil => simp at hf
  | cons y l ih =>
    simp only [List.find?_cons] at hf
    simp only [setFirst]
    split at hf
    · rename_i hy
      cases hf
      simp only [hy, if_true, sumHeld_cons]; omega
    · rename_i hy
      have hy' : p y = false := by simpa using hy
      simp only [hy', Bool.false_eq_true, if_false, sumHeld_cons]
      have := ih hf; omega

theorem read_hr {b : Nat} (s : St) (nm : Name) (n : Nat) (hex : AllQ (Pc b) s) (hb : b < 2^63) :
    heldRegistered (read s nm n).1 ≤ heldRegistered s := by
  have hx := exact_of_pc hex hb
  unfold read
  split
  · rename_i x hf
    have hxm := List.mem_of_find?_eq_some hf
    apply sumHeld_setFirst_le _ _ _ x hf
    unfold readStream; dsimp only
    split
    · exact step0_held_le x.q (hx.1 x hxm) (.read n) rfl
    · exact Nat.le_refl _
    · exact Nat.le_refl _
  · split <;> exact Nat.le_refl _

theorem step_binv {M b : Nat} {s : St} (h : BInv M b s) (op : Op)
    (hM : ∀ cs, op = .pkt cs → ∀ ch ∈ cs, chunkBytes ch ≤ M) (hb : b + opBytes op < 2^63) :
    BInv M (b + opBytes op) (step s op) := by
  have hb0 : b < 2^63 := by omega
  have hex' := step_allQ_g cinv_gpres h.ex op
  cases op with
  | pkt cs =>
    have h0 : BInv M b (chunksStart s) := h.of_frames h.ex rfl rfl (Nat.le_refl _)
    have h1 := foldl_handleChunk_binv cs h0 (hM cs rfl) hb
    show BInv M (b + (cs.map chunkBytes).sum) (chunksEnd (cs.foldl handleChunk (chunksStart s)))
    refine h1.of_frames ?_ (chunksEnd_pq _) (chunksEnd_maxBuf _) ?_
    · exact chunksEnd_allQ h1.ex
    · have : (chunksEnd (cs.foldl handleChunk (chunksStart s))).streams = (cs.foldl handleChunk (chunksStart s)).streams := by
        unfold chunksEnd; repeat' split
        all_goals rfl
      show sumHeld _ ≤ sumHeld _
      rw [this]; exact Nat.le_refl _
  | read nm n =>
    show BInv M (b + 0) (read s nm n).1
    exact h.of_frames hex' (read_pq s nm n) (read_maxBuf s nm n) (read_hr s nm n h.ex hb0)
  | accept =>
    show BInv M (b + 0) (accept s).1
    refine h.of_frames hex' (accept_pq s) (accept_maxBuf s) ?_
    have : (accept s).1.streams = s.streams := by unfold accept; split <;> rfl
    show sumHeld _ ≤ sumHeld _; rw [this]; exact Nat.le_refl _
  | «open» si =>
    show BInv M (b + 0) (openStream s si).1
    refine h.of_frames hex' (openStream_pq s si) (openStream_maxBuf s si) ?_
    show heldRegistered (openStream s si).1 ≤ _
    unfold openStream; split
    · exact Nat.le_refl _
    · exact Nat.le_of_eq (getOrCreateStream_hr s si false)
  | gather =>
    show BInv M (b + 0) (gather s).1
    have hst : (gather s).1.streams = s.streams := by
      unfold gather; dsimp only; repeat' split
      all_goals rfl
    have hmb : (gather s).1.maxBuf = s.maxBuf := gather_maxBuf s
    have hq := qrun_inv h.inv (if sacks s then [RecvQ.Op.sack] else [])
    rw [← gather_pq] at hq
    have hu : RecvQ.unset (gather s).1.pq = RecvQ.unset s.pq := by
      rw [gather_pq]
      split
      · rw [qrun_single _ ⟨0, 0, fun _ => False, fun _ => False⟩]; rfl
      · rfl
    refine ⟨hex', hq.1, ?_, by rw [hq.2]; exact h.mo, by rw [hq.2, hmb]; exact h.small⟩
    exact h.pot.mono (by show sumHeld _ ≤ sumHeld _; rw [hst]; exact Nat.le_refl _) (Nat.le_of_eq hu) hmb hq.2
  | tick d =>
    show BInv M (b + 0) (tick s d)
    refine h.of_frames hex' (tick_pq s d) (tick_maxBuf s d) ?_
    have : (tick s d).streams = s.streams := by
      unfold tick; dsimp only; repeat' split
      all_goals rfl
    show sumHeld _ ≤ sumHeld _; rw [this]; exact Nat.le_refl _
  | setState st => exact h.of_frames hex' rfl rfl (Nat.le_refl _)

theorem run_binv {M : Nat} (ops : List Op) : ∀ {b : Nat} {s : St}, BInv M b s →
    (∀ cs, Op.pkt cs ∈ ops → ∀ ch ∈ cs, chunkBytes ch ≤ M) → b + (ops.map opBytes).sum < 2^63 →
    BInv M (b + (ops.map opBytes).sum) (run s ops) := by
  induction ops with
  | nil => intro b s h _ _; exact h
  | cons op ops ih =>
    intro b s h hM hb
    simp only [List.map_cons, List.sum_cons] at hb ⊢
    have h1 := step_binv h op (fun cs he => hM cs (he ▸ List.mem_cons_self)) (by omega)
    have := ih h1 (fun cs hcs => hM cs (List.mem_cons_of_mem _ hcs)) (by omega)
    rw [← Nat.add_assoc]; exact this

theorem init_binv (M : Nat) (maxBuf maxEntries : BitVec 32) (il f g : Bool) (am : Int) (t : TSN)
    (hsmall : maxBuf.toNat + 40000 * M < 2^32) : BInv M 0 (init maxBuf maxEntries il f g am t) := by
  have hq : (init maxBuf maxEntries il f g am t).pq = (RecvQ.start (getMaxTSNOffset maxBuf) (t - 1)).q := rfl
  have hmo : (init maxBuf maxEntries il f g am t).pq.maxOff.toNat ≤ 40000 := by
    rw [hq, RecvQ.start_maxOff]; exact RecvQ.round_le _ (RecvQ.getMaxTSNOffset_le maxBuf)
  have hmo1 : 1 ≤ (init maxBuf maxEntries il f g am t).pq.maxOff.toNat := by
    rw [hq, RecvQ.start_maxOff]
    have hge : 2000 ≤ (getMaxTSNOffset maxBuf).toNat := by
      simp only [getMaxTSNOffset, Gen.gmin, Gen.gmax]
      repeat' split
      all_goals first
        | decide
        | (simp only [BitVec.le_def, BitVec.toNat_ofNat, Nat.reducePow, Nat.reduceMod] at *; omega)
    have hle := RecvQ.getMaxTSNOffset_le maxBuf
    generalize getMaxTSNOffset maxBuf = o at hge hle
    show 1 ≤ (((o + 63#32) / 64#32) * 64#32).toNat
    rw [BitVec.toNat_mul, BitVec.toNat_udiv, BitVec.toNat_add]
    simp only [BitVec.toNat_ofNat, Nat.reducePow, Nat.reduceMod]
    omega
  refine ⟨init_allQ _ _ _ _ _ _ _ _, by rw [hq]; exact (RecvQ.start_ginv _ _).inv, ?_, hmo1, ?_⟩
  · intro hb
    have h0 : heldRegistered (init maxBuf maxEntries il f g am t) = 0 := rfl
    have hu : RecvQ.unset (init maxBuf maxEntries il f g am t).pq = 0 :=
      RecvQ.unset_empty (by rw [hq]; exact (RecvQ.start_ginv _ _).inv) rfl
    rw [h0, hu]; omega
  · have : (init maxBuf maxEntries il f g am t).maxBuf = maxBuf := rfl
    rw [this]
    have := Nat.mul_le_mul_right M hmo
    omega

end Receiver
