import SctpVerif.Proofs.PendQWfqFair
/-!
Helper lemmas for C17, part 7: WFQ fairness for ALL operation lists, stale selections included.

`eff w` is the virtual time the scheduler is already committed to: a cached selection will be served
next whatever is pushed meanwhile, and its tag becomes the virtual time. `lam w s` is how far the head
of stream `s` lies behind that ("lateness"; 0 along atomic runs). Two potentials bracket the
normalised service of a backlogged stream in every step:
  Δ(sigma + lam) ≤ service/weight ≤ Δ sigma
and both live within one chunk of `eff`. Fairness follows by telescoping.
-/
namespace PendQ
namespace WFQ

def headTag (w : WFQ Rat) (s : Nat) : Rat :=
  match (w.sq s).head? with
  | some (_, f) => f
  | none => 0

/-- the virtual time after the pending (cached) selection is served -/
def eff (w : WFQ Rat) : Rat := if w.sel = true then max w.vtime (headTag w w.selStream) else w.vtime

/-- lateness of the head of stream `s` -/
def lam (w : WFQ Rat) (s : Nat) : Rat := max 0 (eff w - headTag w s)

theorem vtime_le_eff (w : WFQ Rat) : w.vtime ≤ eff w := by
  unfold eff; split
  · exact le_max_left _ _
  · exact le_refl _

theorem lam_nonneg (w : WFQ Rat) (s : Nat) : 0 ≤ lam w s := le_max_left _ _

theorem sel_head {w : WFQ Rat} (hwf : w.WF) (hsel : w.sel = true) : ∃ c f tl, w.sq w.selStream = (c, f) :: tl := by
  obtain ⟨l, hg⟩ := Option.isSome_iff_exists.mp (hwf.sel hsel)
  obtain ⟨hne, _⟩ := hwf.q1 _ l hg
  cases l with
  | nil => exact absurd rfl hne
  | cons hd tl => exact ⟨hd.1, hd.2, tl, by simp [sq, hg]⟩

/-- both potentials of a backlogged stream lie within one head chunk below `eff` -/
theorem potentials_bounds {w : WFQ Rat} (h : GInv w) {s : Nat} (hne : w.sq s ≠ []) :
    eff w - (headLen w s : Rat) / wt w s ≤ sigma w s + lam w s ∧ sigma w s + lam w s ≤ eff w ∧
    eff w - lam w s - (headLen w s : Rat) / wt w s ≤ sigma w s ∧ sigma w s ≤ eff w - lam w s := by
  cases hq : w.sq s with
  | nil => exact absurd hq hne
  | cons hd tl =>
    obtain ⟨c, f⟩ := hd
    have ha := h.a s c f tl hq
    have hv := vtime_le_eff w
    have hd := div_wt_nonneg w c.len s
    simp only [sigma, headLen, lam, headTag, hq, List.head?_cons]
    rcases le_total (eff w - f) 0 with hle | hle
    · rw [max_eq_left hle]; refine ⟨?_, ?_, ?_, ?_⟩ <;> linarith
    · rw [max_eq_right hle]; refine ⟨?_, ?_, ?_, ?_⟩ <;> linarith

/-- one step, stream `i` backlogged before and after -/
theorem lag_step {w w' : WFQ Rat} {o : Op} {po : List Chunk} (h : GInv w) (hwf : w.WF) (hs : WStep w o w' po)
    (i : Nat) (hb : w.sq i ≠ []) (hb' : w'.sq i ≠ []) :
    (sigma w' i + lam w' i) - (sigma w i + lam w i) ≤ (lenSum (po.filter (·.sid == i)) : Rat) / wt w i ∧
    (lenSum (po.filter (·.sid == i)) : Rat) / wt w i ≤ sigma w' i - sigma w i := by
  obtain ⟨hwt, hs⟩ := hs
  have hwt' : ∀ s, wt w' s = wt w s := wt_congr hwt
  -- the head of `i` did not change
  have same : (w'.sq i).head? = (w.sq i).head? → po = [] →
      (eff w' ≤ eff w ∨ (∀ c f tl, w.sq i = (c, f) :: tl → eff w' ≤ f)) →
      (sigma w' i + lam w' i) - (sigma w i + lam w i) ≤ (lenSum (po.filter (·.sid == i)) : Rat) / wt w i ∧
      (lenSum (po.filter (·.sid == i)) : Rat) / wt w i ≤ sigma w' i - sigma w i := by
    intro hsq hpo heff
    have hs1 : sigma w' i = sigma w i := by simp [sigma, hsq, hwt']
    have ht : headTag w' i = headTag w i := by simp [headTag, hsq]
    have hl : lam w' i ≤ lam w i := by
      unfold lam; rw [ht]
      rcases heff with heff | heff
      · exact max_le_max (le_refl _) (by linarith)
      · cases hq : w.sq i with
        | nil => exact absurd hq hb
        | cons hd tl =>
          have := heff hd.1 hd.2 tl hq
          have hh : headTag w i = hd.2 := by simp [headTag, hq]
          rw [hh]
          have : eff w' - hd.2 ≤ 0 := by linarith
          rw [max_eq_left this]; exact le_max_left _ _
    subst hpo
    simp only [List.filter_nil, lenSum_nil, Nat.cast_zero, zero_div]
    constructor <;> linarith
  -- the operations that at most cache a selection
  have peekish : po = [] → (∀ s, w'.sq s = w.sq s) → w'.vtime = w.vtime →
      ((w.sel = true ∧ w'.sel = true ∧ w'.selStream = w.selStream) ∨
       (w.sel = false ∧ w'.sel = false ∧ ∀ s, (w.sq s).head? = none) ∨
       (w.sel = false ∧ w'.sel = true ∧ ∃ c f tl, w.sq w'.selStream = (c, f) :: tl ∧ IsMin w w'.selStream f)) →
      (sigma w' i + lam w' i) - (sigma w i + lam w i) ≤ (lenSum (po.filter (·.sid == i)) : Rat) / wt w i ∧
      (lenSum (po.filter (·.sid == i)) : Rat) / wt w i ≤ sigma w' i - sigma w i := by
    intro hpo hsq hv hsel
    refine same (by rw [hsq]) hpo ?_
    rcases hsel with ⟨h1, h2, h3⟩ | ⟨h1, h2, _⟩ | ⟨h1, h2, c, f, tl, h4, h5⟩
    · left; simp [eff, h1, h2, h3, hv, headTag, hsq]
    · left; simp [eff, h1, h2, hv]
    · have hht : headTag w' w'.selStream = f := by simp [headTag, hsq, h4]
      rcases le_total f w.vtime with hle | hle
      · left; simp [eff, h1, h2, hv, hht, max_eq_left hle]
      · right
        intro c' f' tl' hq'
        have := (h5 i c' f' tl' hq').1
        simp only [eff, h2, if_true, hv, hht, max_eq_right hle]; exact this
  cases o with
  | rawPop c => exact peekish hs.1 hs.2.1 hs.2.2.2.1 hs.2.2.2.2
  | popNil => exact peekish hs.1 hs.2.1 hs.2.2.2.1 hs.2.2.2.2
  | setil b => exact peekish hs.1 hs.2.1 hs.2.2.2.1 hs.2.2.2.2
  | peek => exact peekish hs.1 hs.2.1 hs.2.2.2.1 hs.2.2.2.2
  | push c =>
    obtain ⟨hpo, hsq, _, hv, hsel, hss⟩ := hs
    have hhead : ∀ s, w.sq s ≠ [] → (w'.sq s).head? = (w.sq s).head? := by
      intro s hne
      rw [hsq]; split
      · cases hq : w.sq s with
        | nil => exact absurd hq hne
        | cons a t => simp
      · rfl
    refine same (hhead i hb) hpo (Or.inl ?_)
    unfold eff
    rw [hsel, hv, hss]
    cases hsl : w.sel with
    | false => simp
    | true =>
      obtain ⟨c0, f0, tl0, hq0⟩ := sel_head hwf hsl
      have : headTag w' w.selStream = headTag w w.selStream := by
        simp [headTag, hhead w.selStream (by rw [hq0]; simp)]
      simp [this]
  | pop =>
    rcases hs with ⟨hpo, hsq, _, hv, hs1, hs2, _⟩ | ⟨s0, c, f, tl, hq0, hpo, hcs, hselT, hselF, hsq, _, hv, hsel'⟩
    · exact same (by rw [hsq]) hpo (Or.inl (by simp [eff, hs1, hs2, hv]))
    · have heff' : eff w' = max w.vtime f := by simp [eff, hsel', hv]
      have hht0 : headTag w s0 = f := by simp [headTag, hq0]
      by_cases hi : i = s0
      · -- the served stream
        subst hi
        have htl : w'.sq i = tl := by rw [hsq]; simp
        cases tl with
        | nil => exact absurd htl hb'
        | cons hd2 tl2 =>
          obtain ⟨c2, f2⟩ := hd2
          have hcl := h.cl i [] c f c2 f2 tl2 (by rw [hq0]; simp)
          have hcu := h.cu i [] c f c2 f2 tl2 (by rw [hq0]; simp)
          rw [max_comm] at hcu
          have hd2 := div_wt_nonneg w c2.len i
          have hlam : lam w i = max 0 (w.vtime - f) := by
            unfold lam eff
            rw [hht0]
            cases hsl : w.sel with
            | false => simp
            | true =>
              have : w.selStream = i := (hselT hsl).symm
              simp only [if_true, this, hht0]
              rcases le_total w.vtime f with hle | hle
              · rw [max_eq_right hle]; simp [sub_nonpos.mpr hle]
              · rw [max_eq_left hle]
          have hlam' : lam w' i = max 0 (max w.vtime f - f2) := by
            simp [lam, heff', headTag, htl]
          have hserved : (lenSum (po.filter (·.sid == i)) : Rat) = (c.len : Rat) := by
            simp [hpo, hcs]
          have hsig : sigma w i = f - (c.len : Rat) / wt w i := by simp [sigma, hq0]
          have hsig' : sigma w' i = f2 - (c2.len : Rat) / wt w i := by simp [sigma, htl, hwt']
          rw [hserved, hsig, hsig', hlam, hlam']
          constructor
          · rcases le_total w.vtime f with hle | hle
            · rw [max_eq_right hle] at hcu ⊢
              have h1 : f - f2 ≤ 0 := by linarith
              have h2 : w.vtime - f ≤ 0 := by linarith
              rw [max_eq_left h1, max_eq_left h2]; linarith
            · rw [max_eq_left hle] at hcu ⊢
              have h2 : 0 ≤ w.vtime - f := by linarith
              rw [max_eq_right h2]
              rcases le_total (w.vtime - f2) 0 with h3 | h3
              · rw [max_eq_left h3]; linarith
              · rw [max_eq_right h3]; linarith
          · linarith
      · -- another stream is served
        have hne : ¬ c.sid = i := by rw [hcs]; exact fun h => hi h.symm
        have hsame : w'.sq i = w.sq i := by rw [hsq]; simp [hi]
        have hpo' : (lenSum (po.filter (·.sid == i)) : Rat) = 0 := by simp [hpo, hne]
        have hs1 : sigma w' i = sigma w i := by simp [sigma, hsame, hwt']
        have ht : headTag w' i = headTag w i := by simp [headTag, hsame]
        rw [hpo', hs1]
        have hl : lam w' i ≤ lam w i := by
          unfold lam; rw [ht, heff']
          cases hsl : w.sel with
          | true =>
            have : w.selStream = s0 := (hselT hsl).symm
            have : eff w = max w.vtime f := by simp [eff, hsl, this, hht0]
            rw [this]
          | false =>
            have hE : eff w = w.vtime := by simp [eff, hsl]
            rw [hE]
            cases hq : w.sq i with
            | nil => exact absurd hq hb
            | cons hd tl' =>
              have hm := (hselF hsl i hd.1 hd.2 tl' hq).1
              have hh : headTag w i = hd.2 := by simp [headTag, hq]
              rw [hh]
              rcases le_total f w.vtime with hle | hle
              · rw [max_eq_left hle]
              · rw [max_eq_right hle]
                have : f - hd.2 ≤ 0 := by linarith
                rw [max_eq_left this]; exact le_max_left _ _
        constructor
        · simp; linarith
        · simp


/-- the lateness of every head is bounded by the largest normalised chunk size `D` -/
structure LInv (w : WFQ Rat) (D : Rat) : Prop where
  qd : ∀ s, ∀ x ∈ w.sq s, (x.1.len : Rat) / wt w s ≤ D
  ld : ∀ s c f tl, w.sq s = (c, f) :: tl → eff w - f ≤ D

theorem linv_new (ws : AMap Nat) (D : Rat) : LInv (WFQ.new ws : WFQ Rat) D := by
  have hsq : ∀ s, (WFQ.new ws : WFQ Rat).sq s = [] := fun s => by simp [sq, WFQ.new]
  exact ⟨fun s x hx => by rw [hsq] at hx; simp at hx, fun s c f tl h => by rw [hsq] at h; simp at h⟩

theorem lam_le_of_linv {w : WFQ Rat} {D : Rat} (hD : 0 ≤ D) (hl : LInv w D) {s : Nat} (hne : w.sq s ≠ []) :
    lam w s ≤ D := by
  cases hq : w.sq s with
  | nil => exact absurd hq hne
  | cons hd tl =>
    have := hl.ld s hd.1 hd.2 tl hq
    simp only [lam, headTag, hq, List.head?_cons]
    exact max_le hD this

theorem eff_sub_vtime_le {w : WFQ Rat} {D : Rat} (hD : 0 ≤ D) (h : GInv w) (hwf : w.WF) (hl : LInv w D) :
    eff w - w.vtime ≤ D := by
  unfold eff
  cases hsl : w.sel with
  | false => simpa using hD
  | true =>
    obtain ⟨c, f, tl, hq⟩ := sel_head hwf hsl
    have ha := h.a _ c f tl hq
    have hq' := hl.qd _ (c, f) (by rw [hq]; simp)
    simp only [if_true, headTag, hq, List.head?_cons]
    rcases le_total w.vtime f with hle | hle
    · rw [max_eq_right hle]; simp only at hq'; linarith
    · rw [max_eq_left hle]; linarith

theorem linv_step {w w' : WFQ Rat} {o : Op} {po : List Chunk} {D : Rat} (hD : 0 ≤ D) (h : GInv w) (hwf : w.WF)
    (hl : LInv w D) (hs : WStep w o w' po) (hpush : ∀ c, o = .push c → (c.len : Rat) / wt w c.sid ≤ D) :
    LInv w' D := by
  have hwt' : ∀ s, wt w' s = wt w s := wt_congr hs.1
  -- heads of streams that were backlogged before: lateness does not grow
  have old : ∀ s c f tl, w.sq s ≠ [] → w'.sq s = (c, f) :: tl → eff w' - f ≤ D := by
    intro s c f tl hne hq'
    have hne' : w'.sq s ≠ [] := by rw [hq']; simp
    obtain ⟨h1, h2⟩ := lag_step h hwf hs s hne hne'
    have hle : lam w' s ≤ lam w s := by linarith
    have := lam_le_of_linv hD hl hne
    have hl' : eff w' - f ≤ lam w' s := by
      simp only [lam, headTag, hq', List.head?_cons]; exact le_max_right _ _
    linarith
  obtain ⟨hwt, hs'⟩ := hs
  cases o with
  | push c =>
    obtain ⟨_, hsq, _, hv, hsel, hss⟩ := hs'
    refine ⟨fun s x hx => ?_, fun s c' f tl hq' => ?_⟩
    · rw [hwt']; rw [hsq] at hx; split at hx
      · rename_i hsc
        simp only [List.mem_append, List.mem_singleton] at hx
        rcases hx with hx | hx
        · exact hl.qd s x hx
        · subst hx; rw [hsc]; exact hpush c rfl
      · exact hl.qd s x hx
    · by_cases hne : w.sq s = []
      · -- a stream that becomes backlogged: its tag is at least the virtual time
        have hsc : s = c.sid := by
          by_contra hne'
          rw [hsq, if_neg hne', hne] at hq'; simp at hq'
        rw [hsq, if_pos hsc, hne] at hq'
        simp only [List.nil_append, List.cons.injEq, Prod.mk.injEq] at hq'
        obtain ⟨⟨_, rfl⟩, _⟩ := hq'
        have hT := pushTag_eq w c
        have hd := div_wt_nonneg w c.len c.sid
        have hm := le_max_left w.vtime (w.fin c.sid)
        have heff : eff w' = eff w := by
          unfold eff; rw [hsel, hv, hss]
          cases hsl : w.sel with
          | false => simp
          | true =>
            obtain ⟨c0, f0, tl0, hq0⟩ := sel_head hwf hsl
            have hne0 : w.selStream ≠ c.sid := by
              intro he; rw [he, ← hsc, hne] at hq0; simp at hq0
            simp [headTag, hsq, hne0]
        have := eff_sub_vtime_le hD h hwf hl
        rw [heff]; linarith
      · exact old s c' f tl hne hq'
  | pop =>
    rcases hs' with ⟨_, hsq, _, hv, hs1, hs2, _⟩ | ⟨s0, c, f, tl, hq0, _, _, _, _, hsq, _, _, _⟩
    · refine ⟨fun s x hx => by rw [hwt']; rw [hsq] at hx; exact hl.qd s x hx, fun s c' f tl hq' => ?_⟩
      have : eff w' = eff w := by simp [eff, hs1, hs2, hv]
      rw [this]; rw [hsq] at hq'; exact hl.ld s c' f tl hq'
    · refine ⟨fun s x hx => ?_, fun s c' f' tl' hq' => ?_⟩
      · rw [hwt']; rw [hsq] at hx; split at hx
        · rename_i hsc; subst hsc; exact hl.qd s x (by rw [hq0]; simp [hx])
        · exact hl.qd s x hx
      · have hne : w.sq s ≠ [] := by
          intro hne
          rw [hsq] at hq'; split at hq'
          · rename_i hsc; subst hsc; rw [hq0] at hne; simp at hne
          · rw [hne] at hq'; simp at hq'
        exact old s c' f' tl' hne hq'
  | rawPop c =>
    obtain ⟨_, hsq, _, _, _⟩ := hs'
    exact ⟨fun s x hx => by rw [hwt']; rw [hsq] at hx; exact hl.qd s x hx,
      fun s c' f tl hq' => old s c' f tl (by rw [← hsq, hq']; simp) hq'⟩
  | popNil =>
    obtain ⟨_, hsq, _, _, _⟩ := hs'
    exact ⟨fun s x hx => by rw [hwt']; rw [hsq] at hx; exact hl.qd s x hx,
      fun s c' f tl hq' => old s c' f tl (by rw [← hsq, hq']; simp) hq'⟩
  | setil b =>
    obtain ⟨_, hsq, _, _, _⟩ := hs'
    exact ⟨fun s x hx => by rw [hwt']; rw [hsq] at hx; exact hl.qd s x hx,
      fun s c' f tl hq' => old s c' f tl (by rw [← hsq, hq']; simp) hq'⟩
  | peek =>
    obtain ⟨_, hsq, _, _, _⟩ := hs'
    exact ⟨fun s x hx => by rw [hwt']; rw [hsq] at hx; exact hl.qd s x hx,
      fun s c' f tl hq' => old s c' f tl (by rw [← hsq, hq']; simp) hq'⟩

end WFQ

/-! ### runs -/

open WFQ in
theorem wfq_run_lag :
    ∀ (ops : List Op) (q : PQ Rat) (w : WFQ Rat), q.policy = .wfq w → GInv w → w.WF →
      (∀ o ∈ ops, o.basic = true) →
      ∃ w', (q.run ops).1.policy = .wfq w' ∧ GInv w' ∧ w'.WF ∧ w'.weights = w.weights ∧
        ∀ i, PQ.AllStates (fun q => q.backlogged i) q ops →
          (sigma w' i + lam w' i) - (sigma w i + lam w i) ≤ (served (q.run ops).2 i : Rat) / wt w i ∧
          (served (q.run ops).2 i : Rat) / wt w i ≤ sigma w' i - sigma w i := by
  intro ops
  induction ops with
  | nil =>
    intro q w hq hg hwf _
    exact ⟨w, hq, hg, hwf, rfl, fun i _ => by simp [PQ.run, served, popsOf]⟩
  | cons o os ih =>
    intro q w hq hg hwf hops
    obtain ⟨w1, hq1, hwf1, hstep, _⟩ := wfq_step_obs hq hwf o (hops o (by simp))
    obtain ⟨w', hq', hg', hwf', hwt', htele⟩ := ih (q.step o).1 w1 hq1 (ginv_step hg hstep) hwf1
      (fun o' ho' => hops o' (by simp [ho']))
    refine ⟨w', by rw [run_cons]; exact hq', hg', hwf', by rw [hwt', hstep.1], ?_⟩
    intro i hall
    have hb : w.sq i ≠ [] := (backlogged_wfq hq i).mp hall.1
    have hb1 : w1.sq i ≠ [] := (backlogged_wfq hq1 i).mp (PQ.AllStates.head hall.2)
    obtain ⟨a1, a2⟩ := lag_step hg hwf hstep i hb hb1
    obtain ⟨b1, b2⟩ := htele i hall.2
    have hw : wt w1 i = wt w i := wt_congr hstep.1 i
    rw [hw] at b1 b2
    rw [run_cons, served_cons]
    have : ((lenSum (List.filter (fun x => x.sid == i) (evPop (o, (q.step o).2))) + served ((q.step o).1.run os).2 i : Nat) : Rat)
        / wt w i = (lenSum (List.filter (fun x => x.sid == i) (evPop (o, (q.step o).2))) : Rat) / wt w i +
          (served ((q.step o).1.run os).2 i : Rat) / wt w i := by push_cast; ring
    rw [this]
    constructor <;> linarith

open WFQ in
/-- WFQ fairness for every list of basic operations: the statement's bound plus the lateness the two
streams carry into the interval -/
theorem wfq_fair_lag_core {q : PQ Rat} {w : WFQ Rat} (hq : q.policy = .wfq w) (hg : GInv w) (hwf : w.WF)
    (mid : List Op) (hmid : ∀ o ∈ mid, o.basic = true) (i j : Nat)
    (hall : PQ.AllStates (fun q => q.backlogged i ∧ q.backlogged j) q mid) :
    ∃ w', (q.run mid).1.policy = .wfq w' ∧ w'.WF ∧
      |(served (q.run mid).2 i : Rat) / wt w i - (served (q.run mid).2 j : Rat) / wt w j| ≤
        (max (headLen w i) (headLen w' i) : Rat) / wt w i + (max (headLen w j) (headLen w' j) : Rat) / wt w j +
          max (lam w i) (lam w j) := by
  obtain ⟨w', hq', hg', hwf', hwt', htele⟩ := wfq_run_lag mid q w hq hg hwf hmid
  refine ⟨w', hq', hwf', ?_⟩
  obtain ⟨i1, i2⟩ := htele i (PQ.AllStates.imp (fun q h => h.1) mid q hall)
  obtain ⟨j1, j2⟩ := htele j (PQ.AllStates.imp (fun q h => h.2) mid q hall)
  have hb0 := PQ.AllStates.head hall
  have hbe := PQ.AllStates.last mid q hall
  obtain ⟨p0i, q0i, r0i, s0i⟩ := potentials_bounds hg ((backlogged_wfq hq i).mp hb0.1)
  obtain ⟨p0j, q0j, r0j, s0j⟩ := potentials_bounds hg ((backlogged_wfq hq j).mp hb0.2)
  obtain ⟨p1i, q1i, r1i, s1i⟩ := potentials_bounds hg' ((backlogged_wfq hq' i).mp hbe.1)
  obtain ⟨p1j, q1j, r1j, s1j⟩ := potentials_bounds hg' ((backlogged_wfq hq' j).mp hbe.2)
  have hwi : wt w' i = wt w i := wt_congr hwt' i
  have hwj : wt w' j = wt w j := wt_congr hwt' j
  rw [hwi] at p1i r1i; rw [hwj] at p1j r1j
  have pi := wt_pos w i; have pj := wt_pos w j
  have m0i : (headLen w i : Rat) / wt w i ≤ (max (headLen w i) (headLen w' i) : Rat) / wt w i :=
    div_le_div_of_nonneg_right (le_max_left _ _) (le_of_lt pi)
  have m1i : (headLen w' i : Rat) / wt w i ≤ (max (headLen w i) (headLen w' i) : Rat) / wt w i :=
    div_le_div_of_nonneg_right (le_max_right _ _) (le_of_lt pi)
  have m0j : (headLen w j : Rat) / wt w j ≤ (max (headLen w j) (headLen w' j) : Rat) / wt w j :=
    div_le_div_of_nonneg_right (le_max_left _ _) (le_of_lt pj)
  have m1j : (headLen w' j : Rat) / wt w j ≤ (max (headLen w j) (headLen w' j) : Rat) / wt w j :=
    div_le_div_of_nonneg_right (le_max_right _ _) (le_of_lt pj)
  have li := le_max_left (lam w i) (lam w j)
  have lj := le_max_right (lam w i) (lam w j)
  have n1i := lam_nonneg w' i; have n1j := lam_nonneg w' j
  rw [abs_le]
  constructor <;> linarith

open WFQ in
theorem wfq_run_linv (D : Rat) (hD : 0 ≤ D) :
    ∀ (ops : List Op) (q : PQ Rat) (w : WFQ Rat), q.policy = .wfq w → GInv w → w.WF → LInv w D →
      (∀ o ∈ ops, o.basic = true) →
      (∀ c ∈ pushesOf (q.run ops).2, (c.len : Rat) / wt w c.sid ≤ D) →
      ∃ w', (q.run ops).1.policy = .wfq w' ∧ GInv w' ∧ w'.WF ∧ LInv w' D ∧ w'.weights = w.weights := by
  intro ops
  induction ops with
  | nil => intro q w hq hg hwf hl _ _; exact ⟨w, hq, hg, hwf, hl, rfl⟩
  | cons o os ih =>
    intro q w hq hg hwf hl hops hpush
    obtain ⟨w1, hq1, hwf1, hstep, hpu⟩ := wfq_step_obs hq hwf o (hops o (by simp))
    rw [run_cons] at hpush
    simp only [pushesOf_cons] at hpush
    have hl1 : LInv w1 D := linv_step hD hg hwf hl hstep (by
      intro c hc; subst hc
      exact hpush c (by simp [hpu]))
    have hw1 : ∀ s, wt w1 s = wt w s := wt_congr hstep.1
    obtain ⟨w', hq', hg', hwf', hl', hwt'⟩ := ih (q.step o).1 w1 hq1 (ginv_step hg hstep) hwf1 hl1
      (fun o' ho' => hops o' (by simp [ho'])) (fun c hc => by rw [hw1]; exact hpush c (by simp [hc]))
    exact ⟨w', by rw [run_cons]; exact hq', hg', hwf', hl', by rw [hwt', hstep.1]⟩

/-- head chunks were pushed, so bounds on pushed chunk sizes bound them -/
theorem wfq_headLen_le (ws : AMap Nat) (ops : List Op) (hops : ∀ o ∈ ops, o.basic = true) {w : WFQ Rat}
    (hq : ((wfqFresh ws).run ops).1.policy = .wfq w) (hwf : w.WF) (k L : Nat)
    (hL : ∀ c ∈ pushesOf ((wfqFresh ws).run ops).2, c.sid = k → c.len ≤ L) : WFQ.headLen w k ≤ L := by
  unfold WFQ.headLen
  cases hh : w.sq k with
  | nil => simp
  | cons x tl =>
    simp only [List.head?_cons]
    have hm := wfq_queued_mem_pushes ws ops hops hq (s := k) (x := x) (by rw [hh]; simp)
    exact hL x.1 hm (WFQ.sid_of_mem_sq hwf (by rw [hh]; simp))

theorem basic_append {a b : List Op} (ha : ∀ o ∈ a, o.basic = true) (hb : ∀ o ∈ b, o.basic = true) :
    ∀ o ∈ a ++ b, o.basic = true := by
  intro o ho; rcases List.mem_append.mp ho with h | h
  · exact ha o h
  · exact hb o h

/-! ### per-stream FIFO under the interleaving schedulers (regardless of the U flag) -/

theorem filter_sid_append_single (P : List Chunk) (c : Chunk) (s : Nat) :
    (P ++ [c]).filter (·.sid == s) = P.filter (·.sid == s) ++ (if c.sid = s then [c] else []) := by
  by_cases h : c.sid = s <;> simp [List.filter_append, h]

theorem rr_stream_fifo {α : Type} [Num α] :
    ∀ (ops : List Op) (q : PQ α) (r : RR) (P Q : List Chunk), q.policy = .rr r → r.WF →
      (∀ o ∈ ops, o.basic = true) → (∀ s, P.filter (·.sid == s) = Q.filter (·.sid == s) ++ r.sq s) →
      ∀ s, (P ++ pushesOf (q.run ops).2).filter (·.sid == s) =
        (Q ++ popsOf (q.run ops).2).filter (·.sid == s) ++ (q.run ops).1.policy.streamQ s := by
  intro ops
  induction ops with
  | nil => intro q r P Q hq _ _ h s; simpa [PQ.run, pushesOf, popsOf, hq, Policy.streamQ] using h s
  | cons o os ih =>
    intro q r P Q hq hwf hops h s
    obtain ⟨r', hq', hwf', hstep, hpu⟩ := rr_step_obs hq hwf o (hops o (by simp))
    have hrun : (q.run (o :: os)) = (((q.step o).1.run os).1, (o, (q.step o).2) :: ((q.step o).1.run os).2) := by
      simp [PQ.run]
    rw [hrun]
    simp only [pushesOf_cons, popsOf_cons, ← List.append_assoc]
    refine ih (q.step o).1 r' _ _ hq' hwf' (fun o' ho' => hops o' (by simp [ho'])) ?_ s
    intro s'
    cases o with
    | rawPop c => simp [Op.basic] at hops
    | popNil => simp [Op.basic] at hops
    | setil b => simp [Op.basic] at hops
    | peek =>
      obtain ⟨hpo, _, hsq⟩ := hstep
      rw [hpu, hpo, hsq]; simpa using h s'
    | push c =>
      obtain ⟨hpo, _, hsq⟩ := hstep
      rw [hpu, hpo, hsq, filter_sid_append_single, h s']
      by_cases hs : s' = c.sid
      · subst hs; simp
      · have : ¬ c.sid = s' := fun h => hs h.symm
        simp [hs, this]
    | pop =>
      rcases hstep with ⟨_, hpo, _, hsq⟩ | ⟨s0, rest, c, tl, _, hsq0, hpo, _, hsq⟩
      · rw [hpu, hpo, hsq]; simpa using h s'
      · have hcs : c.sid = s0 := RR.sid_of_mem_sq hwf (by rw [hsq0]; simp)
        rw [hpu, hpo, hsq, filter_sid_append_single, List.append_nil, h s']
        by_cases hs : s' = s0
        · subst hs; simp [hcs, hsq0]
        · have : ¬ c.sid = s' := by rw [hcs]; exact fun h => hs h.symm
          simp [hs, this]

theorem wfq_stream_fifo :
    ∀ (ops : List Op) (q : PQ Rat) (w : WFQ Rat) (P Q : List Chunk), q.policy = .wfq w → w.WF →
      (∀ o ∈ ops, o.basic = true) → (∀ s, P.filter (·.sid == s) = Q.filter (·.sid == s) ++ (w.sq s).map Prod.fst) →
      ∀ s, (P ++ pushesOf (q.run ops).2).filter (·.sid == s) =
        (Q ++ popsOf (q.run ops).2).filter (·.sid == s) ++ (q.run ops).1.policy.streamQ s := by
  intro ops
  induction ops with
  | nil => intro q w P Q hq _ _ h s; simpa [PQ.run, pushesOf, popsOf, hq, Policy.streamQ] using h s
  | cons o os ih =>
    intro q w P Q hq hwf hops h s
    obtain ⟨w', hq', hwf', hstep, hpu⟩ := wfq_step_obs hq hwf o (hops o (by simp))
    rw [run_cons]
    simp only [pushesOf_cons, popsOf_cons, ← List.append_assoc]
    refine ih (q.step o).1 w' _ _ hq' hwf' (fun o' ho' => hops o' (by simp [ho'])) ?_ s
    intro s'
    obtain ⟨_, hstep⟩ := hstep
    cases o with
    | rawPop c => simp [Op.basic] at hops
    | popNil => simp [Op.basic] at hops
    | setil b => simp [Op.basic] at hops
    | peek =>
      obtain ⟨hpo, hsq, _⟩ := hstep
      rw [hpu, hpo, hsq]; simpa using h s'
    | push c =>
      obtain ⟨hpo, hsq, _⟩ := hstep
      rw [hpu, hpo, hsq, filter_sid_append_single, h s']
      by_cases hs : s' = c.sid
      · subst hs; simp
      · have : ¬ c.sid = s' := fun h => hs h.symm
        simp [hs, this]
    | pop =>
      rcases hstep with ⟨hpo, hsq, _⟩ | ⟨s0, c, f, tl, hsq0, hpo, hcs, _, _, hsq, _⟩
      · rw [hpu, hpo, hsq]; simpa using h s'
      · rw [hpu, hpo, hsq, filter_sid_append_single, List.append_nil, h s']
        by_cases hs : s' = s0
        · subst hs; simp [hcs, hsq0]
        · have : ¬ c.sid = s' := by rw [hcs]; exact fun h => hs h.symm
          simp [hs, this]

end PendQ
