import SctpVerif.Proofs.ReasmFwdOrd
/-!
Helper lemmas for C07 (receiver reassembly under skips), part 4: the read and skip steps of `SkipInv`,
the run theorem, and what the invariant says at the end of a run (ordered DATA).
-/
set_option linter.unusedVariables false
set_option linter.unusedSimpArgs false
namespace Reasm
open Gen

theorem TabInv.tail {S : Sender} {ordered f} {e : Nat × List Nat} {rest : Tab}
    (h : TabInv S ordered f (e :: rest)) : TabInv S (rest.map S.concSet) f rest :=
  { ord := rfl, sorted := (List.pairwise_cons.1 h.sorted).2,
    win := fun x hx => h.win x (List.mem_cons_of_mem _ hx),
    wf := fun x hx => h.wf x (List.mem_cons_of_mem _ hx) }

theorem ofNat16_succ_ne (c : Nat) : BitVec.ofNat 16 (c + 1) ≠ BitVec.ofNat 16 c := by
  intro h
  have := congrArg BitVec.toNat h
  simp only [BitVec.toNat_ofNat] at this
  omega

/-- the state after a successful read of the first set `(k, js)` (complete, not above the cursor). -/
theorem SkipInv.afterRead {S K q f c P D} {k : Nat} {js : List Nat} {rest : Tab}
    (h : SkipInv S K q f c ((k, js) :: rest) P D) (hS : S.WF) (hall : js = List.range (S.nf k)) (hkc : k ≤ c)
    (q' : Q) (hsi : q'.si = S.si) (hil : q'.useInterleaving = false) (hun : q'.unordered = [])
    (hq'cur : q'.nextSSN = BitVec.ofNat 16 (if k = c then c + 1 else c))
    (hq'ord : q'.ordered = rest.map S.concSet) :
    SkipInv S K q' (q'.floorSSN f (if k = c then c + 1 else c)) (if k = c then c + 1 else c) rest P (D ++ [k]) := by
  have hfc := h.fc
  have hin : (k, js) ∈ (k, js) :: rest := List.mem_cons_self ..
  have hwin := h.tab.win _ hin
  have hs := h.tab.sorted
  rw [List.pairwise_cons] at hs
  simp only at hwin
  have hc'ge : f ≤ (if k = c then c + 1 else c) := by split <;> omega
  have htail : TabInv S (rest.map S.concSet) f rest := h.tab.tail
  have htab' : TabInv S q'.ordered f rest := by rw [hq'ord]; exact htail
  obtain ⟨s1, s2, s3, s4⟩ := floorSSN_spec htab' hc'ge
  refine
    { si := hsi, il := hil, un := hun, cur := hq'cur,
      tab := htab'.raise _ s1 s3, fc := ⟨s2, ?_⟩,
      pushed := fun e he => h.pushed e (List.mem_cons_of_mem _ he),
      below := ?_, done := ?_, dsorted := ?_, dlt := ?_, held := ?_ }
  · rcases s4 with s4 | ⟨e, he, s4⟩
    · rw [s4]; omega
    · have := hs.1 e he
      simp only at this
      rw [s4]; split <;> omega
  · intro e he hec
    have hlt := hs.1 e he
    simp only at hlt
    by_cases hkc : k = c
    · rw [if_pos hkc] at hec; omega
    · rw [if_neg hkc] at hec
      exact h.below e (List.mem_cons_of_mem _ he) hec
  · intro k' hk' hK' i hi
    by_cases hkc : k = c
    · rw [if_pos hkc] at hk'
      rcases Nat.lt_or_ge k' c with hlt | hge
      · exact h.done k' hlt hK' i hi
      · have : k' = k := by omega
        subst this
        refine h.pushed _ hin i ?_
        simp only [hall, List.mem_range]; exact hi
    · rw [if_neg hkc] at hk'
      exact h.done k' hk' hK' i hi
  · rw [List.pairwise_append]
    refine ⟨h.dsorted, by simp, ?_⟩
    intro a ha b hb
    simp only [List.mem_singleton] at hb; subst hb
    exact (h.dlt a ha).2.2 _ hin
  · intro k0 hk0
    rcases List.mem_append.1 hk0 with hk0 | hk0
    · obtain ⟨a, b, d⟩ := h.dlt k0 hk0
      refine ⟨by split <;> omega, b, fun e he => d e (List.mem_cons_of_mem _ he)⟩
    · simp only [List.mem_singleton] at hk0; subst hk0
      refine ⟨by split <;> omega, hwin.2.2, fun e he => hs.1 e he⟩
  · intro k0 hK0 hD0 i0 hi0
    have hD1 : k0 ∉ D := fun hx => hD0 (List.mem_append_left _ hx)
    have hne : k0 ≠ k := fun hx => hD0 (List.mem_append_right _ (by simp [hx]))
    obtain ⟨js0, hjs0, hij0⟩ := h.held k0 hK0 hD1 i0 hi0
    rcases List.mem_cons.1 hjs0 with e | hjs0
    · exact absurd (Prod.mk.inj e).1 hne
    · exact ⟨js0, hjs0, hij0⟩

/-- a read on a refined state: either nothing is delivered and the queue is unchanged, or the first set held —
message `m`, complete, not above the cursor — is delivered (PPI and payload), the cursor moves iff `m` was the
message it stood on, and the state refines the table without it. -/
theorem SkipInv.read {S K q f c A P D} (h : SkipInv S K q f c A P D) (hS : S.WF) (n : Nat) :
    ((q.read n).2.err ≠ .ok ∧ (q.read n).1 = q) ∨
    (∃ m, (q.read n).2.err = .ok ∧ (q.read n).2.ppi = (S.msg m).ppi ∧ (q.read n).2.data = (S.msg m).payload ∧
      (q.read n).1.nextSSN = BitVec.ofNat 16 (if m = c then c + 1 else c) ∧
      ∃ A', SkipInv S K (q.read n).1 ((q.read n).1.floorSSN f (if m = c then c + 1 else c))
        (if m = c then c + 1 else c) A' P (D ++ [m])) := by
  have hfc := h.fc
  unfold Q.read
  simp only [h.il, Bool.false_eq_true, ↓reduceIte, h.un, h.tab.ord]
  cases hA : A with
  | nil => left; simp [ReadRes.tryAgain]
  | cons e rest =>
    obtain ⟨k, js⟩ := e
    subst hA
    have hin : (k, js) ∈ (k, js) :: rest := List.mem_cons_self ..
    have hwin := h.tab.win _ hin
    have hwf := h.tab.wf _ hin
    have hs := h.tab.sorted
    rw [List.pairwise_cons] at hs
    simp only at hwin hwf
    simp only [List.map_cons]
    by_cases hc : (S.concSet (k, js)).isComplete = true
    · simp only [hc, Bool.not_true, Bool.false_eq_true, ↓reduceIte]
      have hgt : sna16GT (S.concSet (k, js)).ssn q.nextSSN = decide (c < k) := by
        rw [h.cur]; simp only [Sender.concSet]
        exact sna16GT_ofNat _ _ (by omega) (by omega)
      rw [hgt]
      by_cases hck : c < k
      · left; simp [hck, ReadRes.tryAgain]
      · simp only [hck, decide_false, Bool.false_eq_true, ↓reduceIte]
        have hall : js = List.range (S.nf k) := (h.tab.complete_iff hS hin).1 hc
        cases herr : (copyLoop (n : Int) (S.concSet (k, js)).chunks 0 false []).2.1 with
        | true => left; simp [herr]
        | false =>
          right
          have hdata := copyLoop_ok _ _ _ _ herr
          simp only [herr, Bool.false_eq_true, ↓reduceIte]
          have hcur' : (if (S.concSet (k, js)).ssn == q.nextSSN then q.nextSSN + 1 else q.nextSSN)
              = BitVec.ofNat 16 (if k = c then c + 1 else c) := by
            rw [h.cur]
            simp only [Sender.concSet]
            by_cases hkc : k = c
            · subst hkc
              simp only [beq_self_eq_true, ↓reduceIte]
              rw [BitVec.ofNat_add]; rfl
            · have : (BitVec.ofNat 16 k == BitVec.ofNat 16 c) = false := by
                rw [beq_eq_false_iff_ne, ne_eq, ofNat16_eq_iff _ _ (by omega) (by omega)]; exact hkc
              simp only [this, Bool.false_eq_true, ↓reduceIte, hkc]
          refine ⟨k, trivial, rfl, ?_, ?_, rest, ?_⟩
          · rw [hdata]; simp only [Sender.concSet, List.nil_append, hall]
            exact dataFrags_payload S k
          · simpa [Q.subtractNumBytes] using hcur'
          · exact h.afterRead hS hall (by omega) _ (by simp [Q.subtractNumBytes, h.si]) (by simp [Q.subtractNumBytes])
              (by simp [Q.subtractNumBytes]) (by simpa [Q.subtractNumBytes] using hcur') (by simp [Q.subtractNumBytes])
    · left
      simp only [Bool.not_eq_true] at hc
      simp [hc, ReadRes.tryAgain]

/-- a skip on a refined state: exactly the incomplete sets at or below `L` leave the table, the cursor
moves to `max c (L + 1)`; under the honest-sender premise nothing of a message that is not abandoned leaves. -/
theorem SkipInv.skip {S K q f c A P D} (h : SkipInv S K q f c A P D) (hS : S.WF) {L : Nat}
    (hLlen : L < S.msgs.length) (hfL : f ≤ L) (hL : L + 1 < f + 2^15)
    (hprem : ∀ k, k < L + 1 → K k = false → ∀ i, i < S.nf k → (k, i) ∈ P) :
    SkipInv S K (q.forwardTSNForOrdered (BitVec.ofNat 16 L)) f (max c (L + 1))
      (A.filter (fun e => !S.purgedE L e)) P D := by
  have hfc := h.fc
  obtain ⟨r1, r2, r3, _⟩ := fwdO_rest q (BitVec.ofNat 16 L)
  have hmemA : ∀ e, e ∈ A.filter (fun e => !S.purgedE L e) → e ∈ A := fun e he => (List.mem_filter.1 he).1
  refine { si := by rw [r1, h.si], il := by rw [r2, h.il], un := by rw [r3, h.un], cur := ?_,
           tab := ?_, fc := by omega, pushed := fun e he => h.pushed e (hmemA e he),
           below := ?_, done := ?_, dsorted := h.dsorted, dlt := ?_, held := ?_ }
  · rw [fwdO_nextSSN, h.cur, sna16LTE_ofNat _ _ (by omega) (by omega)]
    by_cases hcl : c ≤ L
    · simp only [hcl, decide_true, ↓reduceIte]
      have : max c (L + 1) = L + 1 := by omega
      rw [this, BitVec.ofNat_add]; rfl
    · simp only [hcl, decide_false, Bool.false_eq_true, ↓reduceIte]
      have : max c (L + 1) = c := by omega
      rw [this]
  · rw [fwdO_ordered]; exact h.tab.purge L hfL (by omega)
  · intro e he hec
    have heA := hmemA e he
    rcases Nat.lt_or_ge e.1 c with hlt | hge
    · exact h.below e heA hlt
    · have hkeep := (List.mem_filter.1 he).2
      have heL : e.1 ≤ L := by omega
      simp only [Sender.purgedE, heL, decide_true, Bool.true_and, Bool.not_not] at hkeep
      exact (h.tab.complete_iff hS heA).1 hkeep
  · intro k hk hK i hi
    rcases Nat.lt_or_ge k c with hlt | hge
    · exact h.done k hlt hK i hi
    · exact hprem k (by omega) hK i hi
  · intro k hk
    obtain ⟨a, b, d⟩ := h.dlt k hk
    exact ⟨by omega, b, fun e he => d e (hmemA e he)⟩
  · intro k hK hD i hi
    obtain ⟨js, hjs, hij⟩ := h.held k hK hD i hi
    refine ⟨js, List.mem_filter.2 ⟨hjs, ?_⟩, hij⟩
    simp only [Sender.purgedE, Bool.not_and, Bool.not_not, Bool.or_eq_true, Bool.not_eq_true',
      decide_eq_false_iff_not]
    rcases Nat.lt_or_ge L k with hlt | hge
    · left; omega
    · right
      apply (h.tab.complete_iff hS hjs).2
      have hwf := h.tab.wf _ hjs
      apply sorted_all_eq_range js (S.nf k) hwf.2.1 hwf.2.2
      intro i' hi'
      obtain ⟨js', hjs', hij'⟩ := h.held k hK hD i' (hprem k (by omega) hK i' hi')
      rw [h.tab.unique hjs hjs']; exact hij'

/-! ### the run theorem -/

/-- ✱ every admissible run keeps the invariant; the successful reads return exactly the messages `D'` that the
run appends to the delivered list. -/
theorem SkipInv.run {S : Sender} (hS : S.WF) (K : Nat → Bool) (ops : List SOp) {q f c A P D}
    (h : SkipInv S K q f c A P D) (hadm : S.AdmissibleS K S.dataFr q f c P ops) :
    ∃ f' c' A' P' D', SkipInv S K (S.dataFr.run q ops) f' c' A' P' (D ++ D') ∧
      S.dataFr.deliveries q ops = D'.map (fun k => ((S.msg k).ppi, (S.msg k).payload)) ∧
      (∀ x, x ∈ P' ↔ x ∈ P ∨ x ∈ pushedS ops) ∧ c ≤ c' ∧ (∀ L ∈ skipsS ops, L < c') := by
  induction ops generalizing q f c A P D with
  | nil =>
    exact ⟨f, c, A, P, [], by simpa [Framing.run] using h, rfl, by simp [pushedS], Nat.le_refl _, by simp [skipsS]⟩
  | cons op ops ih =>
    cases op with
    | push k i =>
      simp only [Sender.AdmissibleS] at hadm
      obtain ⟨hk, hi, hP, hw, hlate, hok, hrest⟩ := hadm
      obtain ⟨A1, h1⟩ := h.push hS hk hi hP hw hlate hok
      obtain ⟨f', c', A', P', D', hinv, hdel, hP', hcc, hsk⟩ := ih h1 hrest
      refine ⟨f', c', A', P', D', hinv, hdel, ?_, hcc, hsk⟩
      intro x
      rw [hP' x]
      simp only [pushedS, List.mem_cons]
      constructor
      · rintro ((h | h) | h)
        · exact .inr (.inl h)
        · exact .inl h
        · exact .inr (.inr h)
      · rintro (h | h | h)
        · exact .inl (.inr h)
        · exact .inl (.inl h)
        · exact .inr h
    | read n =>
      simp only [Sender.AdmissibleS] at hadm
      simp only [Framing.deliveries]
      rcases h.read hS n with ⟨hne, hq⟩ | ⟨m, hok, hppi, hdata, hcur, A1, h1⟩
      · rw [if_neg hne]
        have hcs : S.dataFr.cursor (q.read n).1 = S.dataFr.cursor q := by rw [hq]
        rw [if_pos hcs] at hadm
        have hrun : S.dataFr.run q (.read n :: ops) = S.dataFr.run q ops := by
          simp only [Framing.run, List.foldl_cons, Framing.step]; rw [hq]
        rw [hrun]
        rw [hq] at hadm ⊢
        obtain ⟨f', c', A', P', D', hinv, hdel, hP', hcc, hsk⟩ := ih h.refloor hadm
        exact ⟨f', c', A', P', D', hinv, by simpa using hdel, by simpa [pushedS] using hP', hcc,
          by simpa [skipsS] using hsk⟩
      · rw [if_pos hok]
        have hcs : (S.dataFr.cursor (q.read n).1 = S.dataFr.cursor q) ↔ ¬ m = c := by
          simp only [Sender.dataFr]
          rw [hcur, h.cur]
          by_cases hmc : m = c
          · simp only [hmc, ↓reduceIte, not_true_eq_false, iff_false]
            intro hx
            exact ofNat16_succ_ne c (BitVec.eq_of_toNat_eq hx)
          · simp [hmc]
        have hc' : (if S.dataFr.cursor (q.read n).1 = S.dataFr.cursor q then c else c + 1)
            = (if m = c then c + 1 else c) := by
          by_cases hmc : m = c
          · rw [if_neg (by rw [hcs]; simpa using hmc), if_pos hmc]
          · rw [if_pos (hcs.2 hmc), if_neg hmc]
        rw [hc'] at hadm
        obtain ⟨f', c', A', P', D', hinv, hdel, hP', hcc, hsk⟩ := ih h1 hadm
        refine ⟨f', c', A', P', m :: D', ?_, ?_, by simpa [pushedS] using hP', ?_, by simpa [skipsS] using hsk⟩
        · have : D ++ m :: D' = D ++ [m] ++ D' := by simp
          rw [this]; exact hinv
        · rw [hdel, hppi, hdata]; rfl
        · split at hcc <;> omega
    | skip L =>
      simp only [Sender.AdmissibleS] at hadm
      obtain ⟨hLlen, hfL, hL, hprem, hrest⟩ := hadm
      have h1 := h.skip hS hLlen hfL hL ((S.allPushed_iff K P L).1 hprem)
      obtain ⟨f', c', A', P', D', hinv, hdel, hP', hcc, hsk⟩ := ih h1.refloor hrest
      refine ⟨f', c', A', P', D', hinv, hdel, by simpa [pushedS] using hP', by omega, ?_⟩
      intro L' hL'
      simp only [skipsS, List.mem_cons] at hL'
      rcases hL' with rfl | hL'
      · omega
      · exact hsk L' hL'

/-! ### what the invariant says about the state it describes -/

/-- nothing that is not abandoned is lost: a message all of whose fragments were handed over has been
delivered or sits complete in the queue. -/
theorem SkipInv.kept {S K q f c A P D} (h : SkipInv S K q f c A P D) (hS : S.WF) {k : Nat}
    (hk : k < S.msgs.length) (hK : K k = false) (hall : ∀ i, i < S.nf k → (k, i) ∈ P) :
    k ∈ D ∨ (k, List.range (S.nf k)) ∈ A := by
  by_cases hD : k ∈ D
  · exact .inl hD
  · right
    have hnf := S.nf_pos hS hk
    obtain ⟨js, hjs, _⟩ := h.held k hK hD 0 (hall 0 (by omega))
    have hwf := h.tab.wf _ hjs
    have : js = List.range (S.nf k) := by
      apply sorted_all_eq_range js (S.nf k) hwf.2.1 hwf.2.2
      intro i hi
      obtain ⟨js', hjs', hij'⟩ := h.held k hK hD i (hall i hi)
      rw [h.tab.unique hjs hjs']; exact hij'
    rw [← this]; exact hjs

/-- when the application has drained the queue (`isReadable = false`), every message at or below the cursor
that is not abandoned and was handed over completely HAS been delivered. -/
theorem SkipInv.drained {S K q f c A P D} (h : SkipInv S K q f c A P D) (hS : S.WF)
    (hnr : q.isReadable = false) {k : Nat} (hk : k < S.msgs.length) (hkc : k ≤ c) (hK : K k = false)
    (hall : ∀ i, i < S.nf k → (k, i) ∈ P) : k ∈ D := by
  rcases h.kept hS hk hK hall with hD | hA
  · exact hD
  · exfalso
    have hfc := h.fc
    unfold Q.isReadable at hnr
    simp only [h.il, Bool.false_eq_true, ↓reduceIte, h.un, List.length_nil, Nat.lt_irrefl, decide_false,
      h.tab.ord] at hnr
    cases hAe : A with
    | nil => rw [hAe] at hA; cases hA
    | cons e rest =>
      rw [hAe] at hnr
      simp only [List.map_cons] at hnr
      have he : e ∈ A := by rw [hAe]; exact List.mem_cons_self ..
      have hwin := h.tab.win e he
      have hs := h.tab.sorted
      rw [hAe, List.pairwise_cons] at hs
      have hek : e.1 ≤ k := by
        rw [hAe] at hA
        rcases List.mem_cons.1 hA with e1 | hA
        · rw [← e1]; exact Nat.le_refl _
        · have := hs.1 _ hA; simp only at this; omega
      have hcomp : (S.concSet e).isComplete = true := by
        apply (h.tab.complete_iff hS he).2
        rcases Nat.lt_or_ge e.1 c with hlt | hge
        · exact h.below e he hlt
        · have hek' : e.1 = k := by omega
          have := h.tab.unique (k := k) (js1 := e.2) (js2 := List.range (S.nf k)) (by rw [← hek']; exact he) hA
          rw [this, hek']
      have hle : sna16LTE (S.concSet e).ssn q.nextSSN = true := by
        rw [h.cur]
        show sna16LTE (BitVec.ofNat 16 e.1) _ = true
        rw [sna16LTE_ofNat _ _ (by omega) (by omega)]
        simp; omega
      rw [hcomp, hle] at hnr
      cases hnr

/-- picking strictly increasing indices out of a list gives a sublist. -/
theorem map_getD_sublist {α} (l : List α) (d : α) : ∀ (ks : List Nat) (lo : Nat), ks.Pairwise (· < ·) →
    (∀ k ∈ ks, lo ≤ k ∧ k < l.length) → (ks.map (fun k => l.getD k d)).Sublist (l.drop lo)
  | [], _, _, _ => by simp
  | k :: ks, lo, hs, hb => by
    rw [List.pairwise_cons] at hs
    obtain ⟨hlo, hlen⟩ := hb k (List.mem_cons_self ..)
    have ih := map_getD_sublist l d ks (k + 1) hs.2 (fun x hx => by
      have := hs.1 x hx
      exact ⟨by omega, (hb x (List.mem_cons_of_mem _ hx)).2⟩)
    have e1 : l.drop lo = (l.drop lo).take (k - lo) ++ (l.drop lo).drop (k - lo) := (List.take_append_drop _ _).symm
    have e2 : (l.drop lo).drop (k - lo) = l.drop k := by rw [List.drop_drop]; congr 1; omega
    have e3 : l.drop k = l[k] :: l.drop (k + 1) := List.drop_eq_getElem_cons hlen
    have e4 : l.getD k d = l[k] := by simp [List.getD_eq_getElem?_getD, List.getElem?_eq_getElem hlen]
    rw [e1, e2, e3, List.map_cons, e4]
    exact List.Sublist.trans (List.Sublist.cons_cons _ ih) (List.sublist_append_right _ _)

end Reasm
