import SctpVerif.Proofs.ReasmUnordMidUniv
/-!
Helper lemmas for C06 (unordered reassembly), part 6: refinement of the unordered I-DATA containers
(`unorderedMIDMap`, `unorderedMID`) to a table of fragment indices / a list of message indices; push and read steps.
-/
set_option linter.unusedVariables false
set_option linter.unusedSimpArgs false
namespace Reasm
open Gen

/-- the complete set of message `k` as it waits in `unorderedMID`. -/
def Sender.usetFull (S : Sender) (τ : Nat → Nat → BitVec 32) (k : Nat) : ChunkSetMID :=
  S.usetMID τ (k, List.range (S.nf k))

/-- the local function `go` of `pushUnorderedIData`. -/
def goUI (c : Chunk) (q : Q) (cset : ChunkSetMID) : Q × Bool × Err :=
  let (cset', complete, accepted) := cset.pushAndCheck c
  if !accepted then (q, false, .none)
  else
    let q := q.addBytes c.len
    if complete then
      ({ q with unorderedMIDMap := delMID c.mid q.unorderedMIDMap,
                unorderedMID := q.unorderedMID ++ [cset'] }, true, .none)
    else
      ({ q with unorderedMIDMap := updMID c.mid cset' q.unorderedMIDMap },
       false, .none)

theorem pushUnorderedIData_eq (q : Q) (c : Chunk) :
    q.pushUnorderedIData c =
      if q.hasQueuedUnorderedMID c.mid then (q, false, .none)
      else match q.unorderedMIDMap.find? (fun s => s.mid == c.mid) with
        | some cset => goUI c q cset
        | none =>
          if q.isMIDLimitReached q.unorderedMIDEntryCount then (q, false, .midLimit)
          else goUI c { q with unorderedMIDMap := q.unorderedMIDMap ++ [newChunkSetMID c.mid c.ppi] }
                 (newChunkSetMID c.mid c.ppi) := rfl

theorem updMID_at (mid : BitVec 32) (s s' : ChunkSetMID) (l1 l2 : List ChunkSetMID)
    (hl : ∀ x ∈ l1, (x.mid == mid) = false) (hs : s.mid = mid) :
    updMID mid s' (l1 ++ s :: l2) = l1 ++ s' :: l2 := by
  induction l1 with
  | nil => simp [updMID, hs]
  | cons x rest ih =>
    simp only [List.cons_append, updMID, hl x (List.mem_cons_self ..), Bool.false_eq_true, ↓reduceIte]
    rw [ih (fun y hy => hl y (List.mem_cons_of_mem _ hy))]

theorem delMID_at (mid : BitVec 32) (s : ChunkSetMID) (l1 l2 : List ChunkSetMID)
    (hl : ∀ x ∈ l1, (x.mid == mid) = false) (hs : s.mid = mid) :
    delMID mid (l1 ++ s :: l2) = l1 ++ l2 := by
  induction l1 with
  | nil => simp [delMID, hs]
  | cons x rest ih =>
    simp only [List.cons_append, delMID, hl x (List.mem_cons_self ..), Bool.false_eq_true, ↓reduceIte]
    rw [ih (fun y hy => hl y (List.mem_cons_of_mem _ hy))]

/-- refinement invariant of the unordered I-DATA containers. `D` = messages read, `W` = complete messages waiting in
`unorderedMID`, `A` = the MID map (message index ↦ fragment indices held, all incomplete), `P` = fragments handed
over, `G` ⊆ `P` those taken without error. -/
structure UMInv (S : Sender) (τ : Nat → Nat → BitVec 32) (q : Q) (D W : List Nat) (A : Tab)
    (P G : List (Nat × Nat)) : Prop where
  si : q.si = S.si
  il : q.useInterleaving = false → A = [] ∧ W = []
  map : q.unorderedMIDMap = A.map (S.usetMID τ)
  um : q.unorderedMID = W.map (S.usetFull τ)
  keys : A.Pairwise (fun a b => a.1 ≠ b.1)
  awf : ∀ e ∈ A, e.1 < S.msgs.length ∧ e.2.Pairwise (· < ·) ∧ (∀ j ∈ e.2, j < S.nf e.1) ∧
          e.2 ≠ List.range (S.nf e.1)
  apush : ∀ e ∈ A, ∀ j ∈ e.2, (e.1, j) ∈ P
  nodup : (D ++ W).Nodup
  dwlen : ∀ k ∈ D ++ W, k < S.msgs.length
  dwpush : ∀ k ∈ D ++ W, ∀ i, i < S.nf k → (k, i) ∈ P
  disj : ∀ e ∈ A, e.1 ∉ D ++ W
  track : ∀ p ∈ G, p.1 ∈ D ++ W ∨ ∃ js, (p.1, js) ∈ A ∧ p.2 ∈ js

theorem UMInv_new (S : Sender) (τ) (me : BitVec 32) : UMInv S τ (new S.si me) [] [] [] [] [] := by
  constructor <;> simp [new]

/-- the fields a push of an unordered I-DATA chunk leaves alone (frame); `useInterleaving` becomes true. -/
structure FrameUM (q q' : Q) : Prop where
  si : q'.si = q.si
  ordered : q'.ordered = q.ordered
  unordered : q'.unordered = q.unordered
  unorderedChunks : q'.unorderedChunks = q.unorderedChunks
  nextSSN : q'.nextSSN = q.nextSSN
  nextMID : q'.nextMID = q.nextMID
  orderedMID : q'.orderedMID = q.orderedMID
  maxEntries : q'.maxEntries = q.maxEntries

/-- the common tail of `pushUnorderedIData` (`go`): the set `s` of message `k` (fragments `js`, possibly none) sits in
the map between `pre` and `post`; fragment `i ∉ js` goes in; the set either stays (incomplete) or moves to
`unorderedMID` (complete: then it holds exactly all fragments). -/
theorem UMInv.afterGo {S τ q D W A P G} (h : UMInv S τ q D W A P G) (hS : S.UMWF) {k i : Nat}
    (hk : k < S.msgs.length) (hi : i < S.nf k) (hP : (k, i) ∉ P)
    (pre post : Tab) (js : List Nat) (s : ChunkSetMID) (q1 : Q)
    (hsub : ∀ e ∈ pre ++ post, e ∈ A) (hkeysR : (pre ++ post).Pairwise (fun a b => a.1 ≠ b.1))
    (hnok : ∀ e ∈ pre ++ post, e.1 ≠ k) (hAcov : ∀ e ∈ A, e ∈ pre ++ post ∨ e = (k, js))
    (hjs1 : js.Pairwise (· < ·)) (hjs2 : ∀ j ∈ js, j < S.nf k) (hjs3 : js ≠ List.range (S.nf k))
    (hjs4 : ∀ j ∈ js, (k, j) ∈ P)
    (hq1si : q1.si = q.si) (hq1il : q1.useInterleaving = true) (hq1um : q1.unorderedMID = q.unorderedMID)
    (hq1map : q1.unorderedMIDMap = pre.map (S.usetMID τ) ++ s :: post.map (S.usetMID τ))
    (hsmid : s.mid = BitVec.ofNat 32 k) (hsch : s.chunks = js.map (S.uidataFrag τ k))
    (hsppi : i ≠ 0 → s.ppi = if 0 ∈ js then (S.msg k).ppi else 0) :
    (goUI (S.uidataFrag τ k i) q1 s).2.2 = .none ∧
    (goUI (S.uidataFrag τ k i) q1 s).1.si = q1.si ∧ (goUI (S.uidataFrag τ k i) q1 s).1.ordered = q1.ordered ∧
    (goUI (S.uidataFrag τ k i) q1 s).1.unordered = q1.unordered ∧
    (goUI (S.uidataFrag τ k i) q1 s).1.unorderedChunks = q1.unorderedChunks ∧
    (goUI (S.uidataFrag τ k i) q1 s).1.nextSSN = q1.nextSSN ∧ (goUI (S.uidataFrag τ k i) q1 s).1.nextMID = q1.nextMID ∧
    (goUI (S.uidataFrag τ k i) q1 s).1.orderedMID = q1.orderedMID ∧
    (goUI (S.uidataFrag τ k i) q1 s).1.maxEntries = q1.maxEntries ∧
    ∃ W' A', UMInv S τ (goUI (S.uidataFrag τ k i) q1 s).1 D W' A' ((k, i) :: P) ((k, i) :: G) := by
  have hnf := S.nf_pos hS.wf hk
  have hspan := hS.span
  have hnotin : i ∉ js := fun hin => hP (hjs4 i hin)
  have hkDW : k ∉ D ++ W := fun hin => hP (h.dwpush k hin i hi)
  have hinc : s.isComplete = false := by
    cases hc : s.isComplete with
    | false => rfl
    | true =>
      rw [ChunkSetMID.isComplete, hsch] at hc
      exact absurd ((ucompleteMID_iff S hS.wf τ k hk js hjs2).1 hc) hjs3
  have hpc := upushAndCheck_conc S τ k i js s hsch hinc (fun j hj => by have := hjs2 j hj; omega) (by omega) hnotin
  let js' := goSort (fun a b => decide (a < b)) (js ++ [i])
  have hmemj : ∀ j, j ∈ js' ↔ j ∈ js ∨ j = i := by
    intro j; simp only [js']; rw [goSort_mem]; simp
  have hjs'1 : js'.Pairwise (· < ·) := by
    apply goSort_sorted (fun a : Nat => a)
    rw [List.pairwise_append]
    refine ⟨hjs1.imp (fun hab => by omega), by simp, ?_⟩
    intro a ha b hb
    simp only [List.mem_singleton] at hb; subst hb
    intro hab; exact hnotin (hab ▸ ha)
  have hjs'2 : ∀ j ∈ js', j < S.nf k := by
    intro j hj
    rcases (hmemj j).1 hj with hj | rfl
    · exact hjs2 j hj
    · exact hi
  have hjs'4 : ∀ j ∈ js', (k, j) ∈ (k, i) :: P := by
    intro j hj
    rcases (hmemj j).1 hj with hj | rfl
    · exact List.mem_cons_of_mem _ (hjs4 j hj)
    · exact List.mem_cons_self ..
  have hset : ({ mid := s.mid, ppi := if i = 0 then (S.msg k).ppi else s.ppi,
                 chunks := js'.map (S.uidataFrag τ k) } : ChunkSetMID) = S.usetMID τ (k, js') := by
    simp only [Sender.usetMID, hsmid]
    congr 1
    by_cases h0 : i = 0
    · have : 0 ∈ js' := (hmemj 0).2 (.inr h0.symm)
      simp [h0, this]
    · have : 0 ∈ js' ↔ 0 ∈ js := by
        rw [hmemj 0]; constructor
        · rintro (h | h)
          · exact h
          · exact absurd h.symm h0
        · exact .inl
      simp only [h0, ↓reduceIte, this, hsppi h0]
  have hpreNo : ∀ x ∈ pre.map (S.usetMID τ), (x.mid == BitVec.ofNat 32 k) = false := by
    intro x hx
    obtain ⟨e, he, rfl⟩ := List.mem_map.1 hx
    have h1 := hnok e (by simp [he])
    have h2 := (h.awf e (hsub e (by simp [he]))).1
    simp only [Sender.usetMID, beq_eq_false_iff_ne, ne_eq]
    rw [ofNat32_eq_iff _ _ (by omega) (by omega)]; exact h1
  have hcmid : (S.uidataFrag τ k i).mid = BitVec.ofNat 32 k := rfl
  have hmemDW : ∀ x, x ∈ D ++ (W ++ [k]) ↔ x ∈ D ++ W ∨ x = k := by
    intro x; simp only [List.mem_append, List.mem_singleton]; constructor
    · rintro (h | h | h) <;> simp [h]
    · rintro ((h | h) | h) <;> simp [h]
  have htrackR : ∀ p ∈ (k, i) :: G, p.1 ∈ D ++ W ∨ (∃ js0, (p.1, js0) ∈ pre ++ post ∧ p.2 ∈ js0) ∨
      (p.1 = k ∧ p.2 ∈ js') := by
    intro p hp
    rcases List.mem_cons.1 hp with rfl | hp
    · exact .inr (.inr ⟨rfl, (hmemj i).2 (.inr rfl)⟩)
    · rcases h.track p hp with hin | ⟨js0, hin, hj⟩
      · exact .inl hin
      · rcases hAcov _ hin with hr | heq
        · exact .inr (.inl ⟨js0, hr, hj⟩)
        · simp only [Prod.mk.injEq] at heq
          exact .inr (.inr ⟨heq.1, (hmemj _).2 (.inl (heq.2 ▸ hj))⟩)
  unfold goUI
  rw [hpc]
  simp only [Bool.not_true, Bool.false_eq_true, ↓reduceIte, hcmid]
  cases hcomp : chunksCompleteMID (List.map (S.uidataFrag τ k) (goSort (fun a b => decide (a < b)) (js ++ [i]))) with
  | true =>
    have hall : js' = List.range (S.nf k) := (ucompleteMID_iff S hS.wf τ k hk js' hjs'2).1 hcomp
    simp only [↓reduceIte, Q.addBytes, hq1map]
    rw [delMID_at _ _ _ _ hpreNo hsmid]
    refine ⟨trivial, trivial, trivial, trivial, trivial, trivial, trivial, trivial, trivial, W ++ [k], pre ++ post, ?_⟩
    exact
      { si := by simp [hq1si, h.si], il := by simp [hq1il],
        map := by simp,
        um := by
          simp only [hq1um, h.um, List.map_append, List.map_cons, List.map_nil]
          congr 2
          show _ = S.usetMID τ (k, List.range (S.nf k))
          rw [← hall]; exact hset
        keys := hkeysR,
        awf := fun e he => h.awf e (hsub e he),
        apush := fun e he j hj => List.mem_cons_of_mem _ (h.apush e (hsub e he) j hj),
        nodup := by
          rw [← List.append_assoc, List.nodup_append]
          refine ⟨h.nodup, by simp, ?_⟩
          intro a ha b hb
          simp only [List.mem_singleton] at hb; subst hb
          intro hab; exact hkDW (hab ▸ ha)
        dwlen := by
          intro x hx
          rcases (hmemDW x).1 hx with hx | rfl
          · exact h.dwlen x hx
          · exact hk
        dwpush := by
          intro x hx j hj
          rcases (hmemDW x).1 hx with hx | rfl
          · exact List.mem_cons_of_mem _ (h.dwpush x hx j hj)
          · exact hjs'4 j (by rw [hall]; exact List.mem_range.2 hj)
        disj := by
          intro e he hin
          rcases (hmemDW _).1 hin with hin | heq
          · exact h.disj e (hsub e he) hin
          · exact hnok e he heq
        track := by
          intro p hp
          rcases htrackR p hp with hin | ⟨js0, hin, hj⟩ | ⟨hpk, _⟩
          · exact .inl ((hmemDW _).2 (.inl hin))
          · exact .inr ⟨js0, hin, hj⟩
          · exact .inl ((hmemDW _).2 (.inr hpk)) }
  | false =>
    have hnall : js' ≠ List.range (S.nf k) := by
      intro hall
      have := (ucompleteMID_iff S hS.wf τ k hk js' hjs'2).2 hall
      rw [hcomp] at this; cases this
    simp only [Bool.false_eq_true, ↓reduceIte, Q.addBytes, hq1map]
    rw [updMID_at _ _ _ _ _ hpreNo hsmid]
    refine ⟨trivial, trivial, trivial, trivial, trivial, trivial, trivial, trivial, trivial, W, pre ++ (k, js') :: post, ?_⟩
    have hmemA' : ∀ e, e ∈ pre ++ (k, js') :: post ↔ e ∈ pre ++ post ∨ e = (k, js') := by
      intro e; simp only [List.mem_append, List.mem_cons]; constructor
      · rintro (h | h | h) <;> simp [h]
      · rintro ((h | h) | h) <;> simp [h]
    exact
      { si := by simp [hq1si, h.si], il := by simp [hq1il],
        map := by simp only [List.map_append, List.map_cons]; rw [← hset],
        um := by simp only [hq1um, h.um],
        keys := by
          rw [List.pairwise_append] at hkeysR ⊢
          refine ⟨hkeysR.1, ?_, ?_⟩
          · rw [List.pairwise_cons]
            exact ⟨fun b hb => (hnok b (by simp [hb])).symm, hkeysR.2.1⟩
          · intro a ha b hb
            rcases List.mem_cons.1 hb with rfl | hb
            · exact hnok a (by simp [ha])
            · exact hkeysR.2.2 a ha b hb
        awf := by
          intro e he
          rcases (hmemA' e).1 he with he | rfl
          · exact h.awf e (hsub e he)
          · exact ⟨hk, hjs'1, hjs'2, hnall⟩
        apush := by
          intro e he j hj
          rcases (hmemA' e).1 he with he | rfl
          · exact List.mem_cons_of_mem _ (h.apush e (hsub e he) j hj)
          · exact hjs'4 j hj
        nodup := h.nodup, dwlen := h.dwlen,
        dwpush := fun x hx j hj => List.mem_cons_of_mem _ (h.dwpush x hx j hj),
        disj := by
          intro e he
          rcases (hmemA' e).1 he with he | rfl
          · exact h.disj e (hsub e he)
          · exact hkDW
        track := by
          intro p hp
          rcases htrackR p hp with hin | ⟨js0, hin, hj⟩ | ⟨hpk, hj⟩
          · exact .inl hin
          · exact .inr ⟨js0, (hmemA' _).2 (.inl hin), hj⟩
          · exact .inr ⟨js', (hmemA' _).2 (.inr (by rw [hpk])), hj⟩ }

end Reasm
