import SctpVerif.Model.Reasm
import SctpVerif.Proofs.Sna
/-!
Helper lemmas about the L0 model of the reassembly queue (`Model/Reasm.lean`).
Part 1: byte accounting and entry counts (used by `Props/C11.lean`).
-/
set_option linter.unusedSimpArgs false
set_option linter.unusedVariables false
namespace Reasm
open Gen

/-! ### Go's insertion sort is a permutation -/

theorem insRev_perm {α} (lt : α → α → Bool) (x : α) (l : List α) : (insRev lt x l).Perm (x :: l) := by
  induction l with
  | nil => exact List.Perm.refl _
  | cons y ys ih =>
    simp only [insRev]
    split
    · exact ((List.Perm.cons y ih).trans (List.Perm.swap x y ys))
    · exact List.Perm.refl _

theorem foldl_insRev_perm {α} (lt : α → α → Bool) (l acc : List α) :
    (l.foldl (fun rev x => insRev lt x rev) acc).Perm (l ++ acc) := by
  induction l generalizing acc with
  | nil => exact List.Perm.refl _
  | cons x xs ih =>
    simp only [List.foldl_cons]
    refine (ih _).trans ?_
    refine (List.Perm.append_left xs (insRev_perm lt x acc)).trans ?_
    simp

theorem goSort_perm {α} (lt : α → α → Bool) (l : List α) : (goSort lt l).Perm l := by
  unfold goSort
  refine (List.reverse_perm _).trans ?_
  simpa using foldl_insRev_perm lt l []

theorem goSort_sum {α} (lt : α → α → Bool) (f : α → Nat) (l : List α) :
    ((goSort lt l).map f).sum = (l.map f).sum :=
  ((goSort_perm lt l).map f).sum_nat

theorem goSort_length {α} (lt : α → α → Bool) (l : List α) : (goSort lt l).length = l.length :=
  (goSort_perm lt l).length_eq

/-! ### bytes / counts of containers -/

@[simp] theorem bytesOf_nil : bytesOf [] = 0 := rfl
@[simp] theorem bytesOf_cons (c : Chunk) (cs) : bytesOf (c :: cs) = c.len + bytesOf cs := by
  simp [bytesOf]
@[simp] theorem bytesOf_append (a b : List Chunk) : bytesOf (a ++ b) = bytesOf a + bytesOf b := by
  simp [bytesOf]
@[simp] theorem bytesOfSets_nil : bytesOfSets [] = 0 := rfl
@[simp] theorem bytesOfSets_cons (s : ChunkSet) (ss) : bytesOfSets (s :: ss) = bytesOf s.chunks + bytesOfSets ss := by
  simp [bytesOfSets]
@[simp] theorem bytesOfSets_append (a b : List ChunkSet) : bytesOfSets (a ++ b) = bytesOfSets a + bytesOfSets b := by
  simp [bytesOfSets]
@[simp] theorem bytesOfMIDSets_nil : bytesOfMIDSets [] = 0 := rfl
@[simp] theorem bytesOfMIDSets_cons (s : ChunkSetMID) (ss) :
    bytesOfMIDSets (s :: ss) = bytesOf s.chunks + bytesOfMIDSets ss := by
  simp [bytesOfMIDSets]
@[simp] theorem bytesOfMIDSets_append (a b : List ChunkSetMID) :
    bytesOfMIDSets (a ++ b) = bytesOfMIDSets a + bytesOfMIDSets b := by
  simp [bytesOfMIDSets]

@[simp] theorem countChunks_nil : countChunks [] = 0 := rfl
@[simp] theorem countChunks_cons (s : ChunkSet) (ss) : countChunks (s :: ss) = s.chunks.length + countChunks ss := by
  simp [countChunks]
@[simp] theorem countChunks_append (a b : List ChunkSet) : countChunks (a ++ b) = countChunks a + countChunks b := by
  simp [countChunks]

theorem bytesOf_sortTSN (l : List Chunk) : bytesOf (sortChunksByTSN l) = bytesOf l := goSort_sum _ _ l
theorem bytesOf_sortFSN (l : List Chunk) : bytesOf (sortChunksByFSN l) = bytesOf l := goSort_sum _ _ l
theorem bytesOfSets_sortSSN (l : List ChunkSet) : bytesOfSets (sortChunksBySSN l) = bytesOfSets l := goSort_sum _ _ l
theorem countChunks_sortSSN (l : List ChunkSet) : countChunks (sortChunksBySSN l) = countChunks l := goSort_sum _ _ l
theorem length_sortTSN (l : List Chunk) : (sortChunksByTSN l).length = l.length := goSort_length _ l
theorem length_sortFSN (l : List Chunk) : (sortChunksByFSN l).length = l.length := goSort_length _ l

theorem bytesOf_take_drop (l : List Chunk) (k : Nat) : bytesOf (l.take k) + bytesOf (l.drop k) = bytesOf l := by
  rw [← bytesOf_append, List.take_append_drop]

/-! ### the counter -/

theorem subBytes_exact (cur : BitVec 64) (n : Nat) (h1 : n ≤ cur.toNat) (h2 : cur.toNat < 2^63) :
    (subBytes cur (n : Int)).toNat = cur.toNat - n := by
  unfold subBytes
  have : cur.toInt = cur.toNat := by
    rw [BitVec.toInt_eq_toNat_cond]; split <;> omega
  rw [if_pos (by omega)]
  have : BitVec.ofInt 64 (-(n : Int)) = - BitVec.ofNat 64 n := by
    simp [BitVec.ofInt_neg]
  rw [this]
  bv_omega

theorem subChunks_exact (cs : List Chunk) (cur : BitVec 64) (h1 : bytesOf cs ≤ cur.toNat) (h2 : cur.toNat < 2^63) :
    (subChunks cur cs).toNat = cur.toNat - bytesOf cs := by
  induction cs generalizing cur with
  | nil => simp [subChunks]
  | cons c cs ih =>
    simp only [bytesOf_cons] at h1
    have e := subBytes_exact cur c.len (by omega) h2
    simp only [subChunks]
    rw [ih _ (by omega) (by omega), e, bytesOf_cons]
    omega

theorem addBytes_toNat (cur : BitVec 64) (n : Nat) (h : cur.toNat + n < 2^64) :
    (cur + BitVec.ofNat 64 n).toNat = cur.toNat + n := by
  bv_omega

/-! ### forward loops: the counter drops by exactly the bytes of the dropped sets -/

theorem fwdOrderedLoop_spec (lastSSN : BitVec 16) (l : List ChunkSet) (nb : BitVec 64)
    (h1 : bytesOfSets l ≤ nb.toNat) (h2 : nb.toNat < 2^63) :
    (fwdOrderedLoop lastSSN l nb).1.toNat + bytesOfSets l = nb.toNat + bytesOfSets (fwdOrderedLoop lastSSN l nb).2 ∧
    countChunks (fwdOrderedLoop lastSSN l nb).2 ≤ countChunks l ∧
    bytesOfSets (fwdOrderedLoop lastSSN l nb).2 ≤ bytesOfSets l := by
  induction l generalizing nb with
  | nil => simp [fwdOrderedLoop]
  | cons s rest ih =>
    simp only [bytesOfSets_cons] at h1
    simp only [fwdOrderedLoop]
    split
    · have e := subChunks_exact s.chunks nb (by omega) h2
      have := ih (subChunks nb s.chunks) (by omega) (by omega)
      simp only [bytesOfSets_cons, countChunks_cons]
      omega
    · have := ih nb (by omega) h2
      simp only [bytesOfSets_cons, countChunks_cons]
      omega

theorem fwdOrderedMIDLoop_spec (lastMID : BitVec 32) (l : List ChunkSetMID) (nb : BitVec 64)
    (h1 : bytesOfMIDSets l ≤ nb.toNat) (h2 : nb.toNat < 2^63) :
    (fwdOrderedMIDLoop lastMID l nb).1.toNat + bytesOfMIDSets l =
      nb.toNat + bytesOfMIDSets (fwdOrderedMIDLoop lastMID l nb).2 ∧
    (fwdOrderedMIDLoop lastMID l nb).2.length ≤ l.length ∧
    bytesOfMIDSets (fwdOrderedMIDLoop lastMID l nb).2 ≤ bytesOfMIDSets l := by
  induction l generalizing nb with
  | nil => simp [fwdOrderedMIDLoop]
  | cons s rest ih =>
    simp only [bytesOfMIDSets_cons] at h1
    simp only [fwdOrderedMIDLoop]
    split
    · have e := subChunks_exact s.chunks nb (by omega) h2
      have := ih (subChunks nb s.chunks) (by omega) (by omega)
      simp only [bytesOfMIDSets_cons, List.length_cons]
      omega
    · have := ih nb (by omega) h2
      simp only [bytesOfMIDSets_cons, List.length_cons]
      omega

theorem fwdUnorderedMIDLoop_spec (lastMID : BitVec 32) (l : List ChunkSetMID) (nb : BitVec 64)
    (h1 : bytesOfMIDSets l ≤ nb.toNat) (h2 : nb.toNat < 2^63) :
    (fwdUnorderedMIDLoop lastMID l nb).1.toNat + bytesOfMIDSets l =
      nb.toNat + bytesOfMIDSets (fwdUnorderedMIDLoop lastMID l nb).2 ∧
    (fwdUnorderedMIDLoop lastMID l nb).2.length ≤ l.length ∧
    bytesOfMIDSets (fwdUnorderedMIDLoop lastMID l nb).2 ≤ bytesOfMIDSets l := by
  induction l generalizing nb with
  | nil => simp [fwdUnorderedMIDLoop]
  | cons s rest ih =>
    simp only [bytesOfMIDSets_cons] at h1
    simp only [fwdUnorderedMIDLoop]
    split
    · have e := subChunks_exact s.chunks nb (by omega) h2
      have := ih (subChunks nb s.chunks) (by omega) (by omega)
      simp only [bytesOfMIDSets_cons, List.length_cons]
      omega
    · have := ih nb (by omega) h2
      simp only [bytesOfMIDSets_cons, List.length_cons]
      omega

/-! ### what a push does to bytes and counts -/

theorem findFragSet_found {ssn : BitVec 16} {l pre : List ChunkSet} {s post}
    (h : findFragSet ssn l = .found pre s post) : l = pre ++ s :: post := by
  induction l generalizing pre with
  | nil => simp [findFragSet] at h
  | cons x rest ih =>
    have hc : ∀ {pre}, (findFragSet ssn rest).cons x = .found pre s post → x :: rest = pre ++ s :: post := by
      intro pre h
      generalize hr : findFragSet ssn rest = r at h
      cases r <;> simp [FindO.cons] at h
      obtain ⟨rfl, rfl, rfl⟩ := h
      rw [ih hr]; rfl
    simp only [findFragSet] at h
    split at h
    · split at h
      · cases h
      · split at h
        · cases h; rfl
        · exact hc h
    · exact hc h

theorem split3 {α} (l : List α) (a n : Nat) : l.take a ++ ((l.drop a).take n ++ l.drop (a + n)) = l := by
  rw [← List.drop_drop, List.take_append_drop, List.take_append_drop]

theorem findCompleteUnordered_found {uc : List Chunk} {set rest}
    (h : findCompleteUnorderedChunkSet uc = .found set rest) :
    bytesOf set.chunks + bytesOf rest = bytesOf uc ∧ set.chunks.length + rest.length = uc.length := by
  unfold findCompleteUnorderedChunkSet at h
  split at h
  · cases h
  · rename_i start n _
    dsimp only at h
    split at h
    · cases h
    · rename_i c0 tl hch
      cases h
      simp only
      have e := split3 uc start n
      constructor
      · conv => rhs; rw [← e]
        simp only [bytesOf_append]; rw [hch]; omega
      · conv => rhs; rw [← e]
        simp only [List.length_append]; rw [hch]; omega

theorem updMID_spec {mid : BitVec 32} {s' : ChunkSetMID} {l : List ChunkSetMID} {cset}
    (h : l.find? (fun s => s.mid == mid) = some cset) :
    bytesOfMIDSets (updMID mid s' l) + bytesOf cset.chunks = bytesOfMIDSets l + bytesOf s'.chunks ∧
    (updMID mid s' l).length = l.length := by
  induction l with
  | nil => simp at h
  | cons x rest ih =>
    simp only [List.find?_cons] at h
    simp only [updMID]
    split at h
    · rename_i hx; cases h; simp only [hx, if_true, bytesOfMIDSets_cons, List.length_cons]; constructor <;> first | trivial | omega
    · rename_i hx; simp only [hx]; have := ih h
      simp only [bytesOfMIDSets_cons, List.length_cons, Bool.false_eq_true, if_false]; omega

theorem delMID_spec {mid : BitVec 32} {l : List ChunkSetMID} {cset}
    (h : l.find? (fun s => s.mid == mid) = some cset) :
    bytesOfMIDSets (delMID mid l) + bytesOf cset.chunks = bytesOfMIDSets l ∧
    (delMID mid l).length + 1 = l.length := by
  induction l with
  | nil => simp at h
  | cons x rest ih =>
    simp only [List.find?_cons] at h
    simp only [delMID]
    split at h
    · rename_i hx; cases h; simp only [hx, if_true, bytesOfMIDSets_cons, List.length_cons]; constructor <;> first | trivial | omega
    · rename_i hx; simp only [hx]; have := ih h
      simp only [bytesOfMIDSets_cons, List.length_cons, Bool.false_eq_true, if_false]; omega

theorem insertChunkSetByMID_spec (a : List ChunkSetMID) (s : ChunkSetMID) :
    bytesOfMIDSets (insertChunkSetByMID a s) = bytesOfMIDSets a + bytesOf s.chunks ∧
    (insertChunkSetByMID a s).length = a.length + 1 := by
  unfold insertChunkSetByMID
  generalize goSearch _ _ _ _ = k
  constructor
  · have := congrArg bytesOfMIDSets (List.take_append_drop k a)
    simp only [bytesOfMIDSets_append, bytesOfMIDSets_cons] at *
    omega
  · have := congrArg List.length (List.take_append_drop k a)
    simp only [List.length_append, List.length_cons] at *
    omega

theorem pushAndCheck_spec (s : ChunkSetMID) (c : Chunk) :
    ((s.pushAndCheck c).2.2 = false ∧ (s.pushAndCheck c).1 = s) ∨
    ((s.pushAndCheck c).2.2 = true ∧ bytesOf (s.pushAndCheck c).1.chunks = bytesOf s.chunks + c.len ∧
      (s.pushAndCheck c).1.mid = s.mid) := by
  unfold ChunkSetMID.pushAndCheck
  split
  · left; simp
  · split
    · left; simp
    · right; simp [bytesOf_sortFSN]

/-- what one `pushWithError` may do to the byte counter, the held bytes and the four limited counts. -/
structure PushEffect (q q' : Q) (c : Chunk) : Prop where
  bytes : (q'.heldBytes = q.heldBytes ∧ q'.nBytes = q.nBytes) ∨
          (q'.heldBytes = q.heldBytes + c.len ∧ q'.nBytes = q.nBytes + BitVec.ofNat 64 c.len)
  me : q'.maxEntries = q.maxEntries
  oe : q'.orderedDataEntryCount = q.orderedDataEntryCount ∨
       (q'.orderedDataEntryCount = q.orderedDataEntryCount + 1 ∧ q.isDataLimitReached q.orderedDataEntryCount = false)
  ue : q'.unorderedDataEntryCount = q.unorderedDataEntryCount ∨
       (q'.unorderedDataEntryCount = q.unorderedDataEntryCount + 1 ∧ q.isDataLimitReached q.unorderedDataEntryCount = false)
  om : q'.orderedMID.length = q.orderedMID.length ∨
       (q'.orderedMID.length = q.orderedMID.length + 1 ∧ q.isMIDLimitReached q.orderedMID.length = false)
  um : q'.unorderedMIDEntryCount = q.unorderedMIDEntryCount ∨
       (q'.unorderedMIDEntryCount = q.unorderedMIDEntryCount + 1 ∧ q.isMIDLimitReached q.unorderedMIDEntryCount = false)

theorem PushEffect.refl (q : Q) (c : Chunk) : PushEffect q q c :=
  ⟨.inl ⟨rfl, rfl⟩, rfl, .inl rfl, .inl rfl, .inl rfl, .inl rfl⟩

theorem pushOrderedIData_effect (q : Q) (c : Chunk) : PushEffect q (q.pushOrderedIData c).1 c := by
  unfold Q.pushOrderedIData
  split
  · exact .refl q c
  · split
    · rename_i cset hf
      rcases pushAndCheck_spec cset c with ⟨ha, he⟩ | ⟨ha, hb, hm⟩
      · simp only [ha, Bool.not_true, Bool.not_false, Bool.false_eq_true, ↓reduceIte]; exact .refl q c
      · have hu := updMID_spec (s' := (cset.pushAndCheck c).1) hf
        simp only [ha, Bool.not_true, Bool.not_false, Bool.false_eq_true, ↓reduceIte]
        refine ⟨.inr ⟨?_, ?_⟩, rfl, .inl rfl, .inl rfl, .inl ?_, .inl rfl⟩
        · simp only [Q.heldBytes, Q.addBytes]; omega
        · simp [Q.addBytes]
        · simp [Q.addBytes, hu.2]
    · split
      · exact .refl q c
      · rename_i hlim
        rcases pushAndCheck_spec (newChunkSetMID c.mid c.ppi) c with ⟨ha, he⟩ | ⟨ha, hb, hm⟩
        · simp only [ha, Bool.not_true, Bool.not_false, Bool.false_eq_true, ↓reduceIte]
          have hi := insertChunkSetByMID_spec q.orderedMID (newChunkSetMID c.mid c.ppi)
          refine ⟨.inl ⟨?_, rfl⟩, rfl, .inl rfl, .inl rfl, .inr ⟨?_, ?_⟩, .inl rfl⟩
          · simp only [Q.heldBytes]; rw [hi.1]; simp [newChunkSetMID]
          · simp [hi.2]
          · simpa using hlim
        · simp only [ha, Bool.not_true, Bool.not_false, Bool.false_eq_true, ↓reduceIte]
          have hi := insertChunkSetByMID_spec q.orderedMID ((newChunkSetMID c.mid c.ppi).pushAndCheck c).1
          refine ⟨.inr ⟨?_, ?_⟩, rfl, .inl rfl, .inl rfl, .inr ⟨?_, ?_⟩, .inl rfl⟩
          · simp only [Q.heldBytes, Q.addBytes]; rw [hi.1, hb]; simp [newChunkSetMID]; omega
          · simp [Q.addBytes]
          · simp [Q.addBytes, hi.2]
          · simpa using hlim

theorem pushUnorderedIData_effect (q : Q) (c : Chunk) : PushEffect q (q.pushUnorderedIData c).1 c := by
  unfold Q.pushUnorderedIData
  split
  · exact .refl q c
  · dsimp only
    split
    · rename_i cset hf
      rcases pushAndCheck_spec cset c with ⟨ha, he⟩ | ⟨ha, hb, hm⟩
      · simp only [ha, Bool.not_true, Bool.not_false, Bool.false_eq_true, ↓reduceIte]; exact .refl q c
      · simp only [ha, Bool.not_true, Bool.not_false, Bool.false_eq_true, ↓reduceIte]
        split
        · have hd := delMID_spec hf
          refine ⟨.inr ⟨?_, ?_⟩, rfl, .inl rfl, .inl rfl, .inl rfl, .inl ?_⟩
          · simp only [Q.heldBytes, Q.addBytes, bytesOfMIDSets_append, bytesOfMIDSets_cons, bytesOfMIDSets_nil]; omega
          · simp [Q.addBytes]
          · simp only [Q.unorderedMIDEntryCount, Q.addBytes, List.length_append, List.length_cons, List.length_nil]; omega
        · have hu := updMID_spec (s' := (cset.pushAndCheck c).1) hf
          refine ⟨.inr ⟨?_, ?_⟩, rfl, .inl rfl, .inl rfl, .inl rfl, .inl ?_⟩
          · simp only [Q.heldBytes, Q.addBytes]; omega
          · simp [Q.addBytes]
          · simp only [Q.unorderedMIDEntryCount, Q.addBytes]; omega
    · rename_i hnf
      split
      · exact .refl q c
      · rename_i hlim
        have hf : (q.unorderedMIDMap ++ [newChunkSetMID c.mid c.ppi]).find? (fun s => s.mid == c.mid)
            = some (newChunkSetMID c.mid c.ppi) := by
          rw [List.find?_append, hnf]; simp [newChunkSetMID]
        rcases pushAndCheck_spec (newChunkSetMID c.mid c.ppi) c with ⟨ha, he⟩ | ⟨ha, hb, hm⟩
        · simp only [ha, Bool.not_true, Bool.not_false, Bool.false_eq_true, ↓reduceIte]
          refine ⟨.inl ⟨?_, rfl⟩, rfl, .inl rfl, .inl rfl, .inl rfl, .inr ⟨?_, ?_⟩⟩
          · simp [Q.heldBytes, newChunkSetMID]
          · simp [Q.unorderedMIDEntryCount]; omega
          · simpa using hlim
        · simp only [ha, Bool.not_true, Bool.not_false, Bool.false_eq_true, ↓reduceIte]
          split
          · have hd := delMID_spec hf
            have hb' : bytesOf ((newChunkSetMID c.mid c.ppi).pushAndCheck c).1.chunks = c.len := by
              have hs0 : bytesOf (newChunkSetMID c.mid c.ppi).chunks = 0 := rfl
              omega
            have hd1 : bytesOfMIDSets (delMID c.mid (q.unorderedMIDMap ++ [newChunkSetMID c.mid c.ppi]))
                = bytesOfMIDSets q.unorderedMIDMap := by
              have h1 := hd.1
              have hs0 : bytesOf (newChunkSetMID c.mid c.ppi).chunks = 0 := rfl
              simp only [bytesOfMIDSets_append, bytesOfMIDSets_cons, bytesOfMIDSets_nil, hs0] at h1; omega
            have hd2 : (delMID c.mid (q.unorderedMIDMap ++ [newChunkSetMID c.mid c.ppi])).length
                = q.unorderedMIDMap.length := by
              have h2 := hd.2
              simp only [List.length_append, List.length_cons, List.length_nil] at h2; omega
            refine ⟨.inr ⟨?_, ?_⟩, rfl, .inl rfl, .inl rfl, .inl rfl, .inr ⟨?_, ?_⟩⟩
            · simp only [Q.heldBytes, Q.addBytes, bytesOfMIDSets_append, bytesOfMIDSets_cons, bytesOfMIDSets_nil, hd1, hb']
              omega
            · simp [Q.addBytes]
            · simp only [Q.unorderedMIDEntryCount, Q.addBytes, List.length_append, List.length_cons, List.length_nil, hd2]
              omega
            · simpa using hlim
          · have hu := updMID_spec (s' := ((newChunkSetMID c.mid c.ppi).pushAndCheck c).1) hf
            have hb' : bytesOf ((newChunkSetMID c.mid c.ppi).pushAndCheck c).1.chunks = c.len := by
              have hs0 : bytesOf (newChunkSetMID c.mid c.ppi).chunks = 0 := rfl
              omega
            have hu1 : bytesOfMIDSets (updMID c.mid ((newChunkSetMID c.mid c.ppi).pushAndCheck c).1
                  (q.unorderedMIDMap ++ [newChunkSetMID c.mid c.ppi]))
                = bytesOfMIDSets q.unorderedMIDMap + c.len := by
              have h1 := hu.1
              have hs0 : bytesOf (newChunkSetMID c.mid c.ppi).chunks = 0 := rfl
              simp only [bytesOfMIDSets_append, bytesOfMIDSets_cons, bytesOfMIDSets_nil, hs0] at h1; omega
            have hu2 := hu.2
            refine ⟨.inr ⟨?_, ?_⟩, rfl, .inl rfl, .inl rfl, .inl rfl, .inr ⟨?_, ?_⟩⟩
            · simp only [Q.heldBytes, Q.addBytes, hu1]; omega
            · simp [Q.addBytes]
            · simp only [Q.unorderedMIDEntryCount, Q.addBytes, hu2, List.length_append, List.length_cons, List.length_nil]
              omega
            · simpa using hlim

theorem limit_false_of_not_both {q : Q} {n : Nat} (h : ¬ (q.hasDataLimit && q.isDataLimitReached n) = true) :
    q.isDataLimitReached n = false := by
  simp only [Q.hasDataLimit, Q.isDataLimitReached, isReassemblyQueueLimitReached] at *
  cases h1 : decide (q.maxEntries > 0#32) <;> simp_all

theorem pushNoDuplicate_spec (s : ChunkSet) (c : Chunk) :
    bytesOf (s.pushNoDuplicate c).1.chunks = bytesOf s.chunks + c.len ∧
    (s.pushNoDuplicate c).1.chunks.length = s.chunks.length + 1 := by
  simp [ChunkSet.pushNoDuplicate, bytesOf_sortTSN, length_sortTSN]

theorem pushIData_effect (q : Q) (c : Chunk) : PushEffect q (q.pushIData c).1 c := by
  unfold Q.pushIData
  split
  · exact .refl q c
  · split
    · exact pushUnorderedIData_effect q c
    · exact pushOrderedIData_effect q c

theorem pushWithError_effect (q : Q) (c : Chunk) : PushEffect q (q.pushWithError c).1 c := by
  unfold Q.pushWithError
  split
  · have h := pushIData_effect { q with useInterleaving := true } c
    exact ⟨h.bytes, h.me, h.oe, h.ue, h.om, h.um⟩
  · split
    · exact .refl q c
    · split
      · -- unordered DATA
        split
        · exact .refl q c
        · rename_i hlim
          have hl := limit_false_of_not_both hlim
          dsimp only
          split
          · -- panic (unreachable, but the accounting is still exact)
            refine ⟨.inr ⟨?_, ?_⟩, rfl, .inl rfl, .inr ⟨?_, hl⟩, .inl rfl, .inl rfl⟩
            · simp only [Q.heldBytes, Q.addBytes, bytesOf_sortTSN, bytesOf_append, bytesOf_cons, bytesOf_nil]; omega
            · simp [Q.addBytes]
            · simp only [Q.unorderedDataEntryCount, Q.addBytes, length_sortTSN, List.length_append, List.length_cons, List.length_nil]
              omega
          · refine ⟨.inr ⟨?_, ?_⟩, rfl, .inl rfl, .inr ⟨?_, hl⟩, .inl rfl, .inl rfl⟩
            · simp only [Q.heldBytes, Q.addBytes, bytesOf_sortTSN, bytesOf_append, bytesOf_cons, bytesOf_nil]; omega
            · simp [Q.addBytes]
            · simp only [Q.unorderedDataEntryCount, Q.addBytes, length_sortTSN, List.length_append, List.length_cons, List.length_nil]
              omega
          · rename_i cset rest hf
            have hs := findCompleteUnordered_found hf
            simp only [bytesOf_sortTSN, length_sortTSN, bytesOf_append, bytesOf_cons, bytesOf_nil,
              List.length_append, List.length_cons, List.length_nil] at hs
            refine ⟨.inr ⟨?_, ?_⟩, rfl, .inl rfl, .inr ⟨?_, hl⟩, .inl rfl, .inl rfl⟩
            · simp only [Q.heldBytes, Q.addBytes, bytesOfSets_append, bytesOfSets_cons, bytesOfSets_nil]; omega
            · simp [Q.addBytes]
            · simp only [Q.unorderedDataEntryCount, Q.addBytes, countChunks_append, countChunks_cons, countChunks_nil]
              omega
      · split
        · exact .refl q c
        · split
          · exact .refl q c
          · rename_i pre cset post hf
            have hf' : q.ordered = pre ++ cset :: post := by
              split at hf
              · exact findFragSet_found hf
              · cases hf
            split
            · exact .refl q c
            · split
              · exact .refl q c
              · rename_i hlim
                have hl := limit_false_of_not_both hlim
                have hp := pushNoDuplicate_spec cset c
                refine ⟨.inr ⟨?_, ?_⟩, rfl, .inr ⟨?_, hl⟩, .inl rfl, .inl rfl, .inl rfl⟩
                · simp only [Q.heldBytes, Q.addBytes, hf', bytesOfSets_append, bytesOfSets_cons]; omega
                · simp [Q.addBytes]
                · simp only [Q.orderedDataEntryCount, Q.addBytes, hf', countChunks_append, countChunks_cons]; omega
          · split
            · exact .refl q c
            · rename_i hlim
              have hl := limit_false_of_not_both hlim
              have hp := pushNoDuplicate_spec (newChunkSet c.ssn c.ppi) c
              have h0 : bytesOf (newChunkSet c.ssn c.ppi).chunks = 0 := rfl
              have h1 : (newChunkSet c.ssn c.ppi).chunks.length = 0 := rfl
              refine ⟨.inr ⟨?_, ?_⟩, rfl, .inr ⟨?_, hl⟩, .inl rfl, .inl rfl, .inl rfl⟩
              · simp only [Q.heldBytes, Q.addBytes, bytesOfSets_sortSSN, bytesOfSets_append, bytesOfSets_cons, bytesOfSets_nil]
                omega
              · simp [Q.addBytes]
              · simp only [Q.orderedDataEntryCount, Q.addBytes, countChunks_sortSSN, countChunks_append, countChunks_cons, countChunks_nil]
                omega

/-! ### read -/

theorem copyLoop_total (buflen : Int) (cs : List Chunk) (n : Int) (e : Bool) (out : List UInt8) :
    (copyLoop buflen cs n e out).1 = n + (bytesOf cs : Nat) := by
  induction cs generalizing n e out with
  | nil => simp [copyLoop]
  | cons c cs ih =>
    simp only [copyLoop]
    split <;> rw [ih] <;> simp only [bytesOf_cons] <;> omega

/-- a read either leaves the queue alone (`tryAgain`, `shortBuffer`) or removes one set and
subtracts exactly its bytes. -/
def ReadEffect (q q' : Q) : Prop :=
  q' = q ∨ (∃ m : Nat, q'.heldBytes + m = q.heldBytes ∧ q'.nBytes = subBytes q.nBytes (m : Int) ∧
    q'.maxEntries = q.maxEntries ∧
    q'.orderedDataEntryCount ≤ q.orderedDataEntryCount ∧ q'.unorderedDataEntryCount ≤ q.unorderedDataEntryCount ∧
    q'.orderedMID.length ≤ q.orderedMID.length ∧ q'.unorderedMIDEntryCount ≤ q.unorderedMIDEntryCount)

theorem read_effect (q : Q) (n : Nat) : ReadEffect q (q.read n).1 := by
  unfold Q.read
  split
  · dsimp only
    split
    · rename_i iSet rest hq
      split
      · left; rfl
      · right
        refine ⟨bytesOf iSet.chunks, ?_, ?_, rfl, Nat.le_refl _, Nat.le_refl _, Nat.le_refl _, ?_⟩
        · simp only [Q.heldBytes, Q.subtractNumBytes, hq, bytesOfMIDSets_cons]; omega
        · simp only [Q.subtractNumBytes, copyLoop_total]; simp
        · simp only [Q.unorderedMIDEntryCount, Q.subtractNumBytes, hq, List.length_cons]; omega
    · split
      · rename_i iSet rest hq
        split
        · left; rfl
        · split
          · left; rfl
          · split
            · left; rfl
            · right
              refine ⟨bytesOf iSet.chunks, ?_, ?_, rfl, Nat.le_refl _, Nat.le_refl _, ?_, Nat.le_refl _⟩
              · simp only [Q.heldBytes, Q.subtractNumBytes, hq, bytesOfMIDSets_cons]; omega
              · simp only [Q.subtractNumBytes, copyLoop_total]; simp
              · simp only [Q.subtractNumBytes, hq, List.length_cons]; omega
      · left; rfl
  · dsimp only
    split
    · rename_i cset rest hq
      split
      · left; rfl
      · right
        refine ⟨bytesOf cset.chunks, ?_, ?_, rfl, Nat.le_refl _, ?_, Nat.le_refl _, Nat.le_refl _⟩
        · simp only [Q.heldBytes, Q.subtractNumBytes, hq, bytesOfSets_cons]; omega
        · simp only [Q.subtractNumBytes, copyLoop_total]; simp
        · simp only [Q.unorderedDataEntryCount, Q.subtractNumBytes, hq, countChunks_cons]; omega
    · split
      · rename_i cset rest hq
        split
        · left; rfl
        · split
          · left; rfl
          · split
            · left; rfl
            · right
              refine ⟨bytesOf cset.chunks, ?_, ?_, rfl, ?_, Nat.le_refl _, Nat.le_refl _, Nat.le_refl _⟩
              · simp only [Q.heldBytes, Q.subtractNumBytes, hq, bytesOfSets_cons]; omega
              · simp only [Q.subtractNumBytes, copyLoop_total]; simp
              · simp only [Q.orderedDataEntryCount, Q.subtractNumBytes, hq, countChunks_cons]; omega
      · left; rfl

/-! ### the counter invariant -/

/-- bytes a single op can add to the queue. -/
def Op.bytes : Op → Nat
  | .push c => c.len
  | _ => 0

def pushedBytes (ops : List Op) : Nat := (ops.map Op.bytes).sum

/-- counter invariant: the counter is the truth, and the truth is bounded by what was ever pushed. -/
def CInv (q : Q) (B : Nat) : Prop := q.nBytes.toNat = q.heldBytes ∧ q.heldBytes ≤ B

theorem CInv_new (si : BitVec 16) (me : BitVec 32) : CInv (new si me) 0 := by
  simp [CInv, new, Q.heldBytes]

theorem CInv_step {q : Q} {B : Nat} (h : CInv q B) (op : Op) (hB : B + op.bytes < 2^63) :
    CInv (q.step op) (B + op.bytes) := by
  obtain ⟨h1, h2⟩ := h
  cases op with
  | push c =>
    simp only [Q.step, Op.bytes] at *
    rcases (pushWithError_effect q c).bytes with ⟨e1, e2⟩ | ⟨e1, e2⟩
    · exact ⟨by rw [e1, e2, h1], by omega⟩
    · refine ⟨?_, by omega⟩
      rw [e1, e2, addBytes_toNat _ _ (by omega), h1]
  | read n =>
    simp only [Q.step, Op.bytes, Nat.add_zero] at *
    rcases read_effect q n with e | ⟨m, e1, e2, _⟩
    · rw [e]; exact ⟨h1, h2⟩
    · refine ⟨?_, by omega⟩
      rw [e2, subBytes_exact _ _ (by omega) (by omega)]; omega
  | fwdO s =>
    simp only [Q.step, Op.bytes, Nat.add_zero, Q.forwardTSNForOrdered] at *
    have hb : bytesOfSets q.ordered ≤ q.nBytes.toNat := by rw [h1]; simp only [Q.heldBytes]; omega
    have := (fwdOrderedLoop_spec s q.ordered q.nBytes hb (by omega))
    simp only [CInv, Q.heldBytes] at *
    constructor <;> omega
  | fwdU t =>
    simp only [Q.step, Op.bytes, Nat.add_zero, Q.forwardTSNForUnordered] at *
    split
    · have hs := bytesOf_take_drop q.unorderedChunks (fwdUnorderedPrefix t q.unorderedChunks)
      have hb : bytesOf (q.unorderedChunks.take (fwdUnorderedPrefix t q.unorderedChunks)) ≤ q.nBytes.toNat := by
        rw [h1]; simp only [Q.heldBytes]; omega
      have := subChunks_exact _ q.nBytes hb (by omega)
      simp only [CInv, Q.heldBytes] at *
      constructor <;> omega
    · exact ⟨h1, h2⟩
  | fwdOM m =>
    simp only [Q.step, Op.bytes, Nat.add_zero, Q.forwardTSNForOrderedMID] at *
    have hb : bytesOfMIDSets q.orderedMID ≤ q.nBytes.toNat := by rw [h1]; simp only [Q.heldBytes]; omega
    have := (fwdOrderedMIDLoop_spec m q.orderedMID q.nBytes hb (by omega))
    simp only [CInv, Q.heldBytes] at *
    constructor <;> omega
  | fwdUM m =>
    simp only [Q.step, Op.bytes, Nat.add_zero, Q.forwardTSNForUnorderedMID] at *
    have hb : bytesOfMIDSets q.unorderedMIDMap ≤ q.nBytes.toNat := by rw [h1]; simp only [Q.heldBytes]; omega
    have := (fwdUnorderedMIDLoop_spec m q.unorderedMIDMap q.nBytes hb (by omega))
    simp only [CInv, Q.heldBytes] at *
    constructor <;> omega

theorem CInv_run {q : Q} {B : Nat} (h : CInv q B) (ops : List Op) (hB : B + pushedBytes ops < 2^63) :
    CInv (q.run ops) (B + pushedBytes ops) := by
  induction ops generalizing q B with
  | nil => simpa [Q.run, pushedBytes] using h
  | cons op ops ih =>
    simp only [pushedBytes, List.map_cons, List.sum_cons] at hB ⊢
    have := ih (CInv_step h op (by omega)) (by simp only [pushedBytes]; omega)
    simp only [Q.run, List.foldl_cons] at this ⊢
    simp only [pushedBytes] at this
    rw [Nat.add_assoc] at this
    exact this

/-! ### the entry limit -/

theorem lt_of_limit_false {me : BitVec 32} {n : Nat} (hpos : me > 0#32)
    (h : isReassemblyQueueLimitReached me (n : Int) = false) : n < me.toNat := by
  simp only [isReassemblyQueueLimitReached, Bool.and_eq_false_iff, decide_eq_false_iff_not] at h
  rcases h with h | h
  · exact absurd hpos h
  · omega

/-- the four counts the code limits are within `maxEntries`. -/
def LInv (q : Q) : Prop :=
  q.orderedDataEntryCount ≤ q.maxEntries.toNat ∧ q.unorderedDataEntryCount ≤ q.maxEntries.toNat ∧
  q.orderedMID.length ≤ q.maxEntries.toNat ∧ q.unorderedMIDEntryCount ≤ q.maxEntries.toNat

theorem LInv_new (si : BitVec 16) (me : BitVec 32) : LInv (new si me) := by
  simp [LInv, new, Q.orderedDataEntryCount, Q.unorderedDataEntryCount, Q.unorderedMIDEntryCount]

theorem step_maxEntries (q : Q) (op : Op) : (q.step op).maxEntries = q.maxEntries := by
  cases op with
  | push c => exact (pushWithError_effect q c).me
  | read n =>
    rcases read_effect q n with e | ⟨m, _, _, e, _⟩
    · simp only [Q.step]; rw [e]
    · exact e
  | fwdO s => rfl
  | fwdU t => simp only [Q.step, Q.forwardTSNForUnordered]; split <;> rfl
  | fwdOM m => rfl
  | fwdUM m => rfl

theorem run_maxEntries (q : Q) (ops : List Op) : (q.run ops).maxEntries = q.maxEntries := by
  induction ops generalizing q with
  | nil => rfl
  | cons op ops ih => simp only [Q.run, List.foldl_cons] at *; rw [ih, step_maxEntries]

theorem LInv_step {q : Q} (hpos : q.maxEntries > 0#32) (h : LInv q) (op : Op) : LInv (q.step op) := by
  obtain ⟨h1, h2, h3, h4⟩ := h
  have hme := step_maxEntries q op
  unfold LInv; rw [hme]
  cases op with
  | push c =>
    have e := pushWithError_effect q c
    simp only [Q.step]
    refine ⟨?_, ?_, ?_, ?_⟩
    · rcases e.oe with e | ⟨e, l⟩
      · omega
      · have := lt_of_limit_false hpos l; omega
    · rcases e.ue with e | ⟨e, l⟩
      · omega
      · have := lt_of_limit_false hpos l; omega
    · rcases e.om with e | ⟨e, l⟩
      · omega
      · have := lt_of_limit_false hpos l; omega
    · rcases e.um with e | ⟨e, l⟩
      · omega
      · have := lt_of_limit_false hpos l; omega
  | read n =>
    simp only [Q.step]
    rcases read_effect q n with e | ⟨m, _, _, _, a, b, c, d⟩
    · rw [e]; exact ⟨h1, h2, h3, h4⟩
    · exact ⟨by omega, by omega, by omega, by omega⟩
  | fwdO s =>
    have hb : countChunks (fwdOrderedLoop s q.ordered q.nBytes).2 ≤ countChunks q.ordered := by
      clear h1 h2 h3 h4 hme
      generalize q.nBytes = nb
      induction q.ordered generalizing nb with
      | nil => simp [fwdOrderedLoop]
      | cons x rest ih =>
        simp only [fwdOrderedLoop]
        split
        · have := ih (subChunks nb x.chunks); simp only [countChunks_cons]; omega
        · have := ih nb; simp only [countChunks_cons]; omega
    simp only [Q.step, Q.forwardTSNForOrdered, Q.orderedDataEntryCount, Q.unorderedDataEntryCount,
      Q.unorderedMIDEntryCount] at *
    exact ⟨by omega, h2, h3, h4⟩
  | fwdU t =>
    simp only [Q.step, Q.forwardTSNForUnordered]
    split
    · simp only [Q.orderedDataEntryCount, Q.unorderedDataEntryCount, Q.unorderedMIDEntryCount, List.length_drop] at *
      exact ⟨h1, by omega, h3, h4⟩
    · exact ⟨h1, h2, h3, h4⟩
  | fwdOM m =>
    have hb : (fwdOrderedMIDLoop m q.orderedMID q.nBytes).2.length ≤ q.orderedMID.length := by
      clear h1 h2 h3 h4 hme
      generalize q.nBytes = nb
      induction q.orderedMID generalizing nb with
      | nil => simp [fwdOrderedMIDLoop]
      | cons x rest ih =>
        simp only [fwdOrderedMIDLoop]
        split
        · have := ih (subChunks nb x.chunks); simp only [List.length_cons]; omega
        · have := ih nb; simp only [List.length_cons]; omega
    simp only [Q.step, Q.forwardTSNForOrderedMID, Q.orderedDataEntryCount, Q.unorderedDataEntryCount,
      Q.unorderedMIDEntryCount] at *
    exact ⟨h1, h2, by omega, h4⟩
  | fwdUM m =>
    have hb : (fwdUnorderedMIDLoop m q.unorderedMIDMap q.nBytes).2.length ≤ q.unorderedMIDMap.length := by
      clear h1 h2 h3 h4 hme
      generalize q.nBytes = nb
      induction q.unorderedMIDMap generalizing nb with
      | nil => simp [fwdUnorderedMIDLoop]
      | cons x rest ih =>
        simp only [fwdUnorderedMIDLoop]
        split
        · have := ih (subChunks nb x.chunks); simp only [List.length_cons]; omega
        · have := ih nb; simp only [List.length_cons]; omega
    simp only [Q.step, Q.forwardTSNForUnorderedMID, Q.orderedDataEntryCount, Q.unorderedDataEntryCount,
      Q.unorderedMIDEntryCount] at *
    exact ⟨h1, h2, h3, by omega⟩

theorem LInv_run {q : Q} (hpos : q.maxEntries > 0#32) (h : LInv q) (ops : List Op) : LInv (q.run ops) := by
  induction ops generalizing q with
  | nil => exact h
  | cons op ops ih =>
    simp only [Q.run, List.foldl_cons]
    exact ih (by rw [step_maxEntries]; exact hpos) (LInv_step hpos h op)

/-- a limit error leaves every container and the counter untouched (only `useInterleaving` may have
been set by an I-DATA chunk). -/
theorem pushOrderedIData_limit (q : Q) (c : Chunk)
    (he : (q.pushOrderedIData c).2.2 = .dataLimit ∨ (q.pushOrderedIData c).2.2 = .midLimit) :
    (q.pushOrderedIData c).1 = q := by
  unfold Q.pushOrderedIData at *
  split
  · rfl
  · rename_i h1
    simp only [h1, Bool.false_eq_true, ↓reduceIte] at he
    split
    · rename_i cset hf
      simp only [hf] at he
      split at he <;> simp at he
    · rename_i hf
      simp only [hf] at he
      split
      · rfl
      · rename_i h2
        simp only [h2, Bool.false_eq_true, ↓reduceIte] at he
        split at he <;> simp at he

theorem pushUnorderedIData_limit (q : Q) (c : Chunk)
    (he : (q.pushUnorderedIData c).2.2 = .dataLimit ∨ (q.pushUnorderedIData c).2.2 = .midLimit) :
    (q.pushUnorderedIData c).1 = q := by
  unfold Q.pushUnorderedIData at *
  split
  · rfl
  · rename_i h1
    simp only [h1, Bool.false_eq_true, ↓reduceIte] at he
    dsimp only at he ⊢
    split
    · rename_i cset hf
      simp only [hf] at he
      split at he
      · simp at he
      · split at he <;> simp at he
    · rename_i hf
      simp only [hf] at he
      split
      · rfl
      · rename_i h2
        simp only [h2, Bool.false_eq_true, ↓reduceIte] at he
        split at he
        · simp at he
        · split at he <;> simp at he

theorem limit_error_no_change (q : Q) (c : Chunk)
    (he : (q.pushWithError c).2.2 = .dataLimit ∨ (q.pushWithError c).2.2 = .midLimit) :
    (q.pushWithError c).1 = { q with useInterleaving := q.useInterleaving || c.iData } := by
  unfold Q.pushWithError at *
  split
  · rename_i hi
    simp only [hi, ↓reduceIte] at he
    simp only [hi, Bool.or_true]
    unfold Q.pushIData at *
    split
    · rfl
    · rename_i h1
      simp only [h1, Bool.false_eq_true, ↓reduceIte] at he
      split
      · rename_i h2; simp only [h2, Bool.false_eq_true, ↓reduceIte] at he; exact pushUnorderedIData_limit _ c he
      · rename_i h2; simp only [h2, Bool.false_eq_true, ↓reduceIte] at he; exact pushOrderedIData_limit _ c he
  · rename_i hi
    simp only [hi, Bool.false_eq_true, ↓reduceIte] at he
    have hq : ({ q with useInterleaving := q.useInterleaving || c.iData } : Q) = q := by
      simp [hi]
    rw [hq]
    split
    · rfl
    · rename_i h1
      simp only [h1, Bool.false_eq_true, ↓reduceIte] at he
      split
      · rename_i h2
        simp only [h2, Bool.false_eq_true, ↓reduceIte] at he
        split
        · rfl
        · rename_i h3
          simp only [h3, Bool.false_eq_true, ↓reduceIte] at he
          split at he <;> simp at he
      · rename_i h2
        simp only [h2, Bool.false_eq_true, ↓reduceIte] at he
        split
        · rfl
        · rename_i h3
          simp only [h3, Bool.false_eq_true, ↓reduceIte] at he
          split
          · rfl
          · rename_i pre cset post hf
            simp only [hf] at he
            split
            · rfl
            · rename_i h4
              simp only [h4, Bool.false_eq_true, ↓reduceIte] at he
              split
              · rfl
              · rename_i h5
                simp only [h5, Bool.false_eq_true, ↓reduceIte] at he
                simp at he
          · rename_i hf
            simp only [hf] at he
            split
            · rfl
            · rename_i h4
              simp only [h4, Bool.false_eq_true, ↓reduceIte] at he
              simp at he
end Reasm
