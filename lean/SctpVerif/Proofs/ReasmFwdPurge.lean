import SctpVerif.Proofs.Reasm
import SctpVerif.Proofs.Sna
/-!
Helper lemmas for C07 (receiver reassembly under skips), part 1: what each of the four forward
handlers of `reassemblyQueue` removes, keeps and subtracts — exact characterisations of the loops
`fwdOrderedLoop`, `fwdOrderedMIDLoop`, `fwdUnorderedMIDLoop`, `fwdUnorderedPrefix` as list filters.
-/
set_option linter.unusedVariables false
set_option linter.unusedSimpArgs false
namespace Reasm
open Gen

/-! ### generic: splitting a sum over a filter and its complement -/

theorem sum_filter_split {α} (f : α → Nat) (p : α → Bool) (l : List α) :
    (l.map f).sum = ((l.filter p).map f).sum + ((l.filter (fun x => !p x)).map f).sum := by
  induction l with
  | nil => rfl
  | cons x xs ih =>
    cases hp : p x <;> simp [List.filter_cons, hp, ih] <;> omega

/-- once the predicate holds it holds for the rest of the list ⇒ dropping the leading run of
non-matching elements is the same as filtering. -/
theorem dropWhile_not_eq_filter {α} (p : α → Bool) (l : List α)
    (h : l.Pairwise (fun a b => p a = true → p b = true)) :
    l.dropWhile (fun x => !p x) = l.filter p := by
  induction l with
  | nil => rfl
  | cons x xs ih =>
    rw [List.pairwise_cons] at h
    cases hp : p x
    · simp only [List.dropWhile_cons, hp, Bool.not_false, ↓reduceIte, List.filter_cons, Bool.false_eq_true]
      exact ih h.2
    · simp only [List.dropWhile_cons, hp, Bool.not_true, Bool.false_eq_true, ↓reduceIte, List.filter_cons]
      congr 1
      symm
      rw [List.filter_eq_self]
      intro a ha
      exact h.1 a ha hp

theorem takeWhile_not_eq_filter {α} (p : α → Bool) (l : List α)
    (h : l.Pairwise (fun a b => p a = true → p b = true)) :
    l.takeWhile (fun x => !p x) = l.filter (fun x => !p x) := by
  induction l with
  | nil => rfl
  | cons x xs ih =>
    rw [List.pairwise_cons] at h
    cases hp : p x
    · simp only [List.takeWhile_cons, hp, Bool.not_false, ↓reduceIte, List.filter_cons]
      rw [ih h.2]
    · simp only [List.takeWhile_cons, hp, Bool.not_true, Bool.false_eq_true, ↓reduceIte, List.filter_cons]
      symm
      rw [List.filter_eq_nil_iff]
      intro a ha
      simp [h.1 a ha hp]

/-! ### ordered DATA (SSN) -/

/-- the test of `forwardTSNForOrdered`: the set is dropped. -/
def purgedO (lastSSN : BitVec 16) (s : ChunkSet) : Bool := sna16LTE s.ssn lastSSN && !s.isComplete

theorem fwdOrderedLoop_keep (lastSSN : BitVec 16) (l : List ChunkSet) (nb : BitVec 64) :
    (fwdOrderedLoop lastSSN l nb).2 = l.filter (fun s => !purgedO lastSSN s) := by
  induction l generalizing nb with
  | nil => rfl
  | cons s rest ih =>
    simp only [fwdOrderedLoop, List.filter_cons, purgedO]
    cases h : (sna16LTE s.ssn lastSSN && !s.isComplete)
    · simp only [Bool.false_eq_true, ↓reduceIte, Bool.not_false]
      exact congrArg (s :: ·) (ih nb)
    · simp only [↓reduceIte, Bool.not_true, Bool.false_eq_true]
      exact ih _

theorem fwdOrderedLoop_bytes (lastSSN : BitVec 16) (l : List ChunkSet) (nb : BitVec 64)
    (h1 : bytesOfSets l ≤ nb.toNat) (h2 : nb.toNat < 2^63) :
    (fwdOrderedLoop lastSSN l nb).1.toNat + bytesOfSets (l.filter (purgedO lastSSN)) = nb.toNat := by
  have hs := (fwdOrderedLoop_spec lastSSN l nb h1 h2).1
  rw [fwdOrderedLoop_keep] at hs
  have := sum_filter_split (fun s : ChunkSet => bytesOf s.chunks) (purgedO lastSSN) l
  simp only [bytesOfSets] at hs this ⊢
  omega

/-! ### ordered I-DATA (MID) -/

def purgedOM (lastMID : BitVec 32) (s : ChunkSetMID) : Bool := sna32LTE s.mid lastMID && !s.isComplete

theorem fwdOrderedMIDLoop_keep (lastMID : BitVec 32) (l : List ChunkSetMID) (nb : BitVec 64) :
    (fwdOrderedMIDLoop lastMID l nb).2 = l.filter (fun s => !purgedOM lastMID s) := by
  induction l generalizing nb with
  | nil => rfl
  | cons s rest ih =>
    simp only [fwdOrderedMIDLoop, List.filter_cons, purgedOM]
    cases h : (sna32LTE s.mid lastMID && !s.isComplete)
    · simp only [Bool.false_eq_true, ↓reduceIte, Bool.not_false]
      exact congrArg (s :: ·) (ih nb)
    · simp only [↓reduceIte, Bool.not_true, Bool.false_eq_true]
      exact ih _

theorem fwdOrderedMIDLoop_bytes (lastMID : BitVec 32) (l : List ChunkSetMID) (nb : BitVec 64)
    (h1 : bytesOfMIDSets l ≤ nb.toNat) (h2 : nb.toNat < 2^63) :
    (fwdOrderedMIDLoop lastMID l nb).1.toNat + bytesOfMIDSets (l.filter (purgedOM lastMID)) = nb.toNat := by
  have hs := (fwdOrderedMIDLoop_spec lastMID l nb h1 h2).1
  rw [fwdOrderedMIDLoop_keep] at hs
  have := sum_filter_split (fun s : ChunkSetMID => bytesOf s.chunks) (purgedOM lastMID) l
  simp only [bytesOfMIDSets] at hs this ⊢
  omega

/-! ### unordered I-DATA (MID): every set still in the map (all incomplete) at or below the skip point -/

def purgedUM (lastMID : BitVec 32) (s : ChunkSetMID) : Bool := sna32LTE s.mid lastMID

theorem fwdUnorderedMIDLoop_keep (lastMID : BitVec 32) (l : List ChunkSetMID) (nb : BitVec 64) :
    (fwdUnorderedMIDLoop lastMID l nb).2 = l.filter (fun s => !purgedUM lastMID s) := by
  induction l generalizing nb with
  | nil => rfl
  | cons s rest ih =>
    simp only [fwdUnorderedMIDLoop, List.filter_cons, purgedUM]
    cases h : sna32LTE s.mid lastMID
    · simp only [Bool.false_eq_true, ↓reduceIte, Bool.not_false]
      exact congrArg (s :: ·) (ih nb)
    · simp only [↓reduceIte, Bool.not_true, Bool.false_eq_true]
      exact ih _

theorem fwdUnorderedMIDLoop_bytes (lastMID : BitVec 32) (l : List ChunkSetMID) (nb : BitVec 64)
    (h1 : bytesOfMIDSets l ≤ nb.toNat) (h2 : nb.toNat < 2^63) :
    (fwdUnorderedMIDLoop lastMID l nb).1.toNat + bytesOfMIDSets (l.filter (purgedUM lastMID)) = nb.toNat := by
  have hs := (fwdUnorderedMIDLoop_spec lastMID l nb h1 h2).1
  rw [fwdUnorderedMIDLoop_keep] at hs
  have := sum_filter_split (fun s : ChunkSetMID => bytesOf s.chunks) (purgedUM lastMID) l
  simp only [bytesOfMIDSets] at hs this ⊢
  omega

/-! ### unordered DATA (TSN): the leading run of fragments at or below the new cumulative TSN -/

theorem fwdUnorderedPrefix_eq (t : BitVec 32) (l : List Chunk) :
    fwdUnorderedPrefix t l = (l.takeWhile (fun c => !sna32GT c.tsn t)).length := by
  induction l with
  | nil => rfl
  | cons c cs ih =>
    simp only [fwdUnorderedPrefix, List.takeWhile_cons]
    cases h : sna32GT c.tsn t
    · simp [ih]
    · simp

theorem take_fwdUnorderedPrefix (t : BitVec 32) (l : List Chunk) :
    l.take (fwdUnorderedPrefix t l) = l.takeWhile (fun c => !sna32GT c.tsn t) := by
  induction l with
  | nil => rfl
  | cons c cs ih =>
    simp only [fwdUnorderedPrefix, List.takeWhile_cons]
    cases h : sna32GT c.tsn t
    · simp [ih]
    · simp

theorem drop_fwdUnorderedPrefix (t : BitVec 32) (l : List Chunk) :
    l.drop (fwdUnorderedPrefix t l) = l.dropWhile (fun c => !sna32GT c.tsn t) := by
  induction l with
  | nil => rfl
  | cons c cs ih =>
    simp only [fwdUnorderedPrefix, List.dropWhile_cons]
    cases h : sna32GT c.tsn t
    · simp [ih]
    · simp

/-- the state after `forwardTSNForUnordered`, both branches of `if lastIdx >= 0` in one formula. -/
theorem forwardTSNForUnordered_eq (q : Q) (t : BitVec 32) :
    q.forwardTSNForUnordered t =
      { q with nBytes := subChunks q.nBytes (q.unorderedChunks.takeWhile (fun c => !sna32GT c.tsn t)),
               unorderedChunks := q.unorderedChunks.dropWhile (fun c => !sna32GT c.tsn t) } := by
  unfold Q.forwardTSNForUnordered
  simp only
  split
  · rw [take_fwdUnorderedPrefix, drop_fwdUnorderedPrefix]
  · rename_i h
    have h0 : fwdUnorderedPrefix t q.unorderedChunks = 0 := by omega
    have e1 := take_fwdUnorderedPrefix t q.unorderedChunks
    have e2 := drop_fwdUnorderedPrefix t q.unorderedChunks
    rw [h0] at e1 e2
    simp only [List.take_zero, List.drop_zero] at e1 e2
    rw [← e1, ← e2]
    rfl

end Reasm
