import SctpVerif.Gen.Funcs
/-!
Serial-number arithmetic lemmas about the TRANSLATOR-GENERATED `Gen.sna32*` / `Gen.sna16*`
(i.e. about util.go as it is in the working tree). Characterisations in terms of the
modular distance `(b - a).toNat`; everything else follows from these.
-/
namespace Sna
open Gen

theorem lt32_iff (a b : BitVec 32) :
    sna32LT a b = true ↔ (0 < (b - a).toNat ∧ (b - a).toNat < 2^31) := by
  simp only [sna32LT, Bool.or_eq_true, Bool.and_eq_true, decide_eq_true_eq]
  bv_omega

theorem gt32_iff (a b : BitVec 32) :
    sna32GT a b = true ↔ (0 < (a - b).toNat ∧ (a - b).toNat ≤ 2^31) := by
  simp only [sna32GT, Bool.or_eq_true, Bool.and_eq_true, decide_eq_true_eq]
  bv_omega

theorem lte32_iff (a b : BitVec 32) : sna32LTE a b = true ↔ (b - a).toNat < 2^31 := by
  simp only [sna32LTE, Bool.or_eq_true, beq_iff_eq, lt32_iff]
  bv_omega

theorem gte32_iff (a b : BitVec 32) : sna32GTE a b = true ↔ (a - b).toNat ≤ 2^31 := by
  simp only [sna32GTE, Bool.or_eq_true, beq_iff_eq, gt32_iff]
  bv_omega

theorem lt16_iff (a b : BitVec 16) :
    sna16LT a b = true ↔ (0 < (b - a).toNat ∧ (b - a).toNat < 2^15) := by
  simp only [sna16LT, Bool.or_eq_true, Bool.and_eq_true, decide_eq_true_eq]
  bv_omega

theorem gt16_iff (a b : BitVec 16) :
    sna16GT a b = true ↔ (0 < (a - b).toNat ∧ (a - b).toNat ≤ 2^15) := by
  simp only [sna16GT, Bool.or_eq_true, Bool.and_eq_true, decide_eq_true_eq]
  bv_omega

theorem lte16_iff (a b : BitVec 16) : sna16LTE a b = true ↔ (b - a).toNat < 2^15 := by
  simp only [sna16LTE, Bool.or_eq_true, beq_iff_eq, lt16_iff]
  bv_omega

theorem gte16_iff (a b : BitVec 16) : sna16GTE a b = true ↔ (a - b).toNat ≤ 2^15 := by
  simp only [sna16GTE, Bool.or_eq_true, beq_iff_eq, gt16_iff]
  bv_omega

theorem sub_shift32 (a b k : BitVec 32) : (b + k) - (a + k) = b - a := by bv_omega
theorem sub_shift16 (a b k : BitVec 16) : (b + k) - (a + k) = b - a := by bv_omega

end Sna
