import SctpVerif.Proofs.Shutdown.Frame
import SctpVerif.Proofs.Shutdown.Inv
import SctpVerif.Proofs.Shutdown.Link
import SctpVerif.Proofs.Shutdown.Sys
import SctpVerif.Proofs.Shutdown.State
import SctpVerif.Proofs.Shutdown.Safety
import SctpVerif.Proofs.Shutdown.Live
import SctpVerif.Proofs.Shutdown.Rounds
/-! helper lemmas for C08 (graceful shutdown): see the files under Proofs/Shutdown/ -/
