import SctpVerif.Proofs.Reasm
/-!
Helper lemmas for C01 (ordered reassembly, DATA and I-DATA): serial-number comparisons on naturals
inside a half-space window, correctness of Go's insertion sort under a total order, the honest
sender's chunk universe, and the refinement of the queue to a table of messages.
-/
set_option linter.unusedVariables false
set_option linter.unusedSimpArgs false
namespace Reasm
open Gen

/-! ### G1: serial-number comparisons on naturals inside a half-space window -/

theorem ofNat16_sub (a b : Nat) (h : a ≤ b) :
    (BitVec.ofNat 16 b - BitVec.ofNat 16 a).toNat = (b - a) % 65536 := by
  rw [BitVec.toNat_sub, BitVec.toNat_ofNat, BitVec.toNat_ofNat]; omega

theorem sna16LT_ofNat (a b : Nat) (h1 : a < b + 2^15) (h2 : b < a + 2^15) :
    sna16LT (BitVec.ofNat 16 a) (BitVec.ofNat 16 b) = decide (a < b) := by
  rw [Bool.eq_iff_iff, Sna.lt16_iff, decide_eq_true_iff]
  rcases Nat.lt_or_ge a b with h | h
  · rw [ofNat16_sub a b (by omega)]; omega
  · have : (BitVec.ofNat 16 b - BitVec.ofNat 16 a).toNat = (65536 - (a - b) % 65536) % 65536 := by
      rw [BitVec.toNat_sub, BitVec.toNat_ofNat, BitVec.toNat_ofNat]; omega
    rw [this]; omega

theorem sna16GT_ofNat (a b : Nat) (h1 : a < b + 2^15) (h2 : b < a + 2^15) :
    sna16GT (BitVec.ofNat 16 a) (BitVec.ofNat 16 b) = decide (b < a) := by
  rw [Bool.eq_iff_iff, Sna.gt16_iff, decide_eq_true_iff]
  rcases Nat.lt_or_ge b a with h | h
  · rw [ofNat16_sub b a (by omega)]; omega
  · have : (BitVec.ofNat 16 a - BitVec.ofNat 16 b).toNat = (65536 - (b - a) % 65536) % 65536 := by
      rw [BitVec.toNat_sub, BitVec.toNat_ofNat, BitVec.toNat_ofNat]; omega
    rw [this]; omega

theorem ofNat16_eq_iff (a b : Nat) (h1 : a < b + 2^15) (h2 : b < a + 2^15) :
    BitVec.ofNat 16 a = BitVec.ofNat 16 b ↔ a = b := by
  constructor
  · intro h
    have := congrArg BitVec.toNat h
    simp only [BitVec.toNat_ofNat] at this; omega
  · intro h; rw [h]

theorem ofNat32_sub (a b : Nat) (h : a ≤ b) :
    (BitVec.ofNat 32 b - BitVec.ofNat 32 a).toNat = (b - a) % 4294967296 := by
  rw [BitVec.toNat_sub, BitVec.toNat_ofNat, BitVec.toNat_ofNat]; omega

theorem sna32LT_ofNat (a b : Nat) (h1 : a < b + 2^31) (h2 : b < a + 2^31) :
    sna32LT (BitVec.ofNat 32 a) (BitVec.ofNat 32 b) = decide (a < b) := by
  rw [Bool.eq_iff_iff, Sna.lt32_iff, decide_eq_true_iff]
  rcases Nat.lt_or_ge a b with h | h
  · rw [ofNat32_sub a b (by omega)]; omega
  · have : (BitVec.ofNat 32 b - BitVec.ofNat 32 a).toNat = (4294967296 - (a - b) % 4294967296) % 4294967296 := by
      rw [BitVec.toNat_sub, BitVec.toNat_ofNat, BitVec.toNat_ofNat]; omega
    rw [this]; omega

theorem sna32GT_ofNat (a b : Nat) (h1 : a < b + 2^31) (h2 : b < a + 2^31) :
    sna32GT (BitVec.ofNat 32 a) (BitVec.ofNat 32 b) = decide (b < a) := by
  rw [Bool.eq_iff_iff, Sna.gt32_iff, decide_eq_true_iff]
  rcases Nat.lt_or_ge b a with h | h
  · rw [ofNat32_sub b a (by omega)]; omega
  · have : (BitVec.ofNat 32 a - BitVec.ofNat 32 b).toNat = (4294967296 - (b - a) % 4294967296) % 4294967296 := by
      rw [BitVec.toNat_sub, BitVec.toNat_ofNat, BitVec.toNat_ofNat]; omega
    rw [this]; omega

theorem ofNat32_eq_iff (a b : Nat) (h1 : a < b + 2^31) (h2 : b < a + 2^31) :
    BitVec.ofNat 32 a = BitVec.ofNat 32 b ↔ a = b := by
  constructor
  · intro h
    have := congrArg BitVec.toNat h
    simp only [BitVec.toNat_ofNat] at this; omega
  · intro h; rw [h]

/-- shifting both operands by the same base does not change the comparison -/
theorem sna32LT_add_left (t a b : BitVec 32) : sna32LT (t + a) (t + b) = sna32LT a b := by
  rw [Bool.eq_iff_iff, Sna.lt32_iff, Sna.lt32_iff]
  have : t + b - (t + a) = b - a := by bv_omega
  rw [this]

/-! ### G2: Go's insertion sort sorts when the comparator is a strict total order on the elements -/

theorem insRev_map {α β} (f : β → α) (lt : α → α → Bool) (lt' : β → β → Bool) (x : β) (rev : List β)
    (h : ∀ b ∈ rev, lt (f x) (f b) = lt' x b) :
    insRev lt (f x) (rev.map f) = (insRev lt' x rev).map f := by
  induction rev with
  | nil => rfl
  | cons y ys ih =>
    simp only [List.map_cons, insRev]
    rw [h y (List.mem_cons_self ..)]
    split
    · rw [List.map_cons, ih (fun b hb => h b (List.mem_cons_of_mem _ hb))]
    · rfl

theorem insRev_mem {α} (lt : α → α → Bool) (x : α) (l : List α) (a : α) :
    a ∈ insRev lt x l ↔ a = x ∨ a ∈ l := by
  rw [(insRev_perm lt x l).mem_iff]; simp

theorem foldl_insRev_map {α β} (f : β → α) (lt : α → α → Bool) (lt' : β → β → Bool) (l acc : List β)
    (h : ∀ a, a ∈ l ∨ a ∈ acc → ∀ b, b ∈ l ∨ b ∈ acc → lt (f a) (f b) = lt' a b) :
    (l.map f).foldl (fun rev x => insRev lt x rev) (acc.map f) =
      (l.foldl (fun rev x => insRev lt' x rev) acc).map f := by
  induction l generalizing acc with
  | nil => rfl
  | cons x xs ih =>
    simp only [List.map_cons, List.foldl_cons]
    rw [insRev_map f lt lt' x acc (fun b hb => h x (.inl (List.mem_cons_self ..)) b (.inr hb))]
    apply ih
    intro a ha b hb
    apply h
    · rcases ha with ha | ha
      · exact .inl (List.mem_cons_of_mem _ ha)
      · rcases (insRev_mem lt' x acc a).1 ha with rfl | ha
        · exact .inl (List.mem_cons_self ..)
        · exact .inr ha
    · rcases hb with hb | hb
      · exact .inl (List.mem_cons_of_mem _ hb)
      · rcases (insRev_mem lt' x acc b).1 hb with rfl | hb
        · exact .inl (List.mem_cons_self ..)
        · exact .inr hb

/-- naturality: sorting images with `lt` = sorting pre-images with `lt'` when they agree on the elements. -/
theorem goSort_map {α β} (f : β → α) (lt : α → α → Bool) (lt' : β → β → Bool) (l : List β)
    (h : ∀ a ∈ l, ∀ b ∈ l, lt (f a) (f b) = lt' a b) :
    goSort lt (l.map f) = (goSort lt' l).map f := by
  unfold goSort
  have := foldl_insRev_map f lt lt' l [] (by
    intro a ha b hb
    rcases ha with ha | ha <;> rcases hb with hb | hb <;> simp_all)
  simp only [List.map_nil] at this
  rw [this, List.map_reverse]

/-- `insRev` keeps a list that is descending by `key` descending. -/
theorem insRev_desc {β} (key : β → Nat) (x : β) (rev : List β)
    (hs : rev.Pairwise (fun a b => key b < key a)) (hx : ∀ b ∈ rev, key b ≠ key x) :
    (insRev (fun a b => decide (key a < key b)) x rev).Pairwise (fun a b => key b < key a) := by
  induction rev with
  | nil => simp [insRev]
  | cons y ys ih =>
    simp only [insRev]
    rw [List.pairwise_cons] at hs
    split
    · rename_i hlt
      simp only [decide_eq_true_eq] at hlt
      rw [List.pairwise_cons]
      refine ⟨?_, ih hs.2 (fun b hb => hx b (List.mem_cons_of_mem _ hb))⟩
      intro a ha
      rcases (insRev_mem _ x ys a).1 ha with rfl | ha
      · exact hlt
      · exact hs.1 a ha
    · rename_i hlt
      simp only [decide_eq_true_eq] at hlt
      have hne := hx y (List.mem_cons_self ..)
      rw [List.pairwise_cons]
      refine ⟨?_, List.pairwise_cons.2 hs⟩
      intro a ha
      rcases List.mem_cons.1 ha with rfl | ha
      · omega
      · have := hs.1 a ha; omega

theorem foldl_insRev_desc {β} (key : β → Nat) (l acc : List β)
    (hacc : acc.Pairwise (fun a b => key b < key a))
    (hl : l.Pairwise (fun a b => key a ≠ key b)) (hla : ∀ a ∈ l, ∀ b ∈ acc, key b ≠ key a) :
    (l.foldl (fun rev x => insRev (fun a b => decide (key a < key b)) x rev) acc).Pairwise
      (fun a b => key b < key a) := by
  induction l generalizing acc with
  | nil => exact hacc
  | cons x xs ih =>
    simp only [List.foldl_cons]
    rw [List.pairwise_cons] at hl
    apply ih
    · exact insRev_desc key x acc hacc (fun b hb => hla x (List.mem_cons_self ..) b hb)
    · exact hl.2
    · intro a ha b hb
      rcases (insRev_mem _ x acc b).1 hb with rfl | hb
      · exact hl.1 a ha
      · exact hla a (List.mem_cons_of_mem _ ha) b hb

/-- sorting by a key with pairwise distinct keys yields a strictly ascending list. -/
theorem goSort_sorted {β} (key : β → Nat) (l : List β) (hl : l.Pairwise (fun a b => key a ≠ key b)) :
    (goSort (fun a b => decide (key a < key b)) l).Pairwise (fun a b => key a < key b) := by
  unfold goSort
  rw [List.pairwise_reverse]
  exact foldl_insRev_desc key l [] List.Pairwise.nil hl (by simp)

theorem goSort_mem {α} (lt : α → α → Bool) (l : List α) (a : α) : a ∈ goSort lt l ↔ a ∈ l :=
  (goSort_perm lt l).mem_iff

/-! ### the honest sender's universe (what `Stream.packetize` + TSN assignment produce) -/

/-- a user message: PPI and the pieces `packetize` cuts the payload into (at least one). -/
structure Msg where
  ppi   : PPI
  frags : List (List UInt8)
deriving Repr, DecidableEq, Inhabited

def Msg.nf (m : Msg) : Nat := m.frags.length
def Msg.payload (m : Msg) : List UInt8 := m.frags.flatten

structure Sender where
  si   : BitVec 16
  t0   : BitVec 32          -- TSN of the first fragment of the first message (any value)
  msgs : List Msg
  /-- TSNs used by OTHER streams of the association before message `k` of this one (the streams share the TSN
  space; the fragments of one message still get consecutive TSNs). Irrelevant to the reassembly queue. -/
  skip : Nat → Nat := fun _ => 0
deriving Inhabited

def Sender.msg (S : Sender) (k : Nat) : Msg := S.msgs.getD k default
def Sender.nf (S : Sender) (k : Nat) : Nat := (S.msg k).nf
/-- number of fragments of all messages before message `k` (consecutive TSNs per message). -/
def Sender.base (S : Sender) (k : Nat) : Nat := ((S.msgs.take k).map Msg.nf).sum + S.skip k

/-- ordered DATA fragment `i` of message `k`: SSN = `k` (mod 2^16), TSN consecutive, B/E at the ends,
every fragment carries the PPI. -/
def Sender.dataFrag (S : Sender) (k i : Nat) : Chunk :=
  { tsn := S.t0 + BitVec.ofNat 32 (S.base k + i), si := S.si, ssn := BitVec.ofNat 16 k,
    unordered := false, bf := i == 0, ef := i + 1 == S.nf k, iData := false,
    ppi := (S.msg k).ppi, userData := (S.msg k).frags.getD i [] }

/-- messages well formed: at least one fragment, fewer than 2^31 fragments each. -/
def Sender.WF (S : Sender) : Prop := ∀ m ∈ S.msgs, 1 ≤ m.nf ∧ m.nf < 2^31

theorem Sender.nf_pos (S : Sender) (h : S.WF) {k : Nat} (hk : k < S.msgs.length) :
    1 ≤ S.nf k ∧ S.nf k < 2^31 := by
  have : S.msg k ∈ S.msgs := by
    simp only [Sender.msg, List.getD_eq_getElem?_getD, List.getElem?_eq_getElem hk, Option.getD_some]
    exact List.getElem_mem hk
  exact h _ this

/-! ### G3: a TSN-sorted set of fragments of one message is complete only if it is all of them -/

theorem dataFrag_tsn_succ (S : Sender) (k i j N : Nat) (hN : N < 2^31) (hi : i < N) (hj : j < N)
    (h : (S.dataFrag k j).tsn = (S.dataFrag k i).tsn + 1) : j = i + 1 := by
  simp only [Sender.dataFrag] at h
  have h' : BitVec.ofNat 32 (S.base k + j) = BitVec.ofNat 32 (S.base k + i + 1) := by
    have : BitVec.ofNat 32 (S.base k + i + 1) = BitVec.ofNat 32 (S.base k + i) + 1 := by
      rw [BitVec.ofNat_add]; rfl
    rw [this]; bv_omega
  have := (ofNat32_eq_iff _ _ (by omega) (by omega)).1 h'
  omega

theorem tsnContig_range (S : Sender) (k N : Nat) (hN : N < 2^31) (i : Nat) (js : List Nat)
    (hi : i < N) (hjs : ∀ j ∈ js, j < N)
    (h : tsnContig (S.dataFrag k i).tsn (js.map (S.dataFrag k)) = true) :
    js = List.range' (i + 1) js.length := by
  induction js generalizing i with
  | nil => rfl
  | cons j rest ih =>
    simp only [List.map_cons, tsnContig] at h
    split at h
    · cases h
    · rename_i hne
      simp only [bne_iff_ne, ne_eq, Decidable.not_not] at hne
      have hjN := hjs j (List.mem_cons_self ..)
      have hj := dataFrag_tsn_succ S k i j N hN hi hjN hne
      subst hj
      have := ih (i + 1) hjN (fun x hx => hjs x (List.mem_cons_of_mem _ hx)) h
      simp only [List.length_cons, List.range'_succ]
      rw [← this]

theorem getLast_map_range' {α} (f : Nat → α) (n s : Nat) (h) :
    ((List.range' s (n + 1)).map f).getLast h = f (s + n) := by
  induction n generalizing s with
  | zero => simp
  | succ n ih =>
    have e : List.range' s (n + 1 + 1) = s :: List.range' (s + 1) (n + 1) := by rw [List.range'_succ]
    simp only [e, List.map_cons]
    rw [List.getLast_cons (by simp)]
    rw [ih (s + 1)]
    congr 1; omega

/-- G3: completeness of a set of fragments of message `k` forces it to be fragments `0 … nf-1`. -/
theorem complete_imp_all (S : Sender) (k : Nat) (js : List Nat) (hnf : S.nf k < 2^31)
    (hjs : ∀ j ∈ js, j < S.nf k)
    (h : chunksComplete (js.map (S.dataFrag k)) = true) : js = List.range (S.nf k) := by
  cases js with
  | nil => simp [chunksComplete] at h
  | cons j0 rest =>
    simp only [List.map_cons, chunksComplete] at h
    split at h
    · cases h
    · rename_i hb
      split at h
      · cases h
      · rename_i he
        have hb' : j0 = 0 := by simpa [Sender.dataFrag] using hb
        subst hb'
        have hc := tsnContig_range S k (S.nf k) hnf 0 rest (hjs 0 (List.mem_cons_self ..))
          (fun j hj => hjs j (List.mem_cons_of_mem _ hj)) h
        have e : S.dataFrag k 0 :: rest.map (S.dataFrag k) = (List.range' 0 (rest.length + 1)).map (S.dataFrag k) := by
          rw [List.range'_succ, List.map_cons, ← hc]
        have hlast : ((S.dataFrag k 0 :: rest.map (S.dataFrag k)).getLast (List.cons_ne_nil _ _)).ef = true := by
          simpa using he
        simp only [e] at hlast
        rw [getLast_map_range'] at hlast
        have hef : rest.length + 1 = S.nf k := by simpa [Sender.dataFrag] using hlast
        rw [List.range_eq_range', ← hef, List.range'_succ, ← hc]

/-! ### G4: what a successful read copies -/

theorem copyLoop_err_true (buflen : Int) (cs : List Chunk) (n : Int) (out : List UInt8) :
    (copyLoop buflen cs n true out).2.1 = true := by
  induction cs generalizing n out with
  | nil => rfl
  | cons c cs ih => simp only [copyLoop]; split <;> exact ih ..

theorem copyLoop_ok (buflen : Int) (cs : List Chunk) (n : Int) (out : List UInt8)
    (h : (copyLoop buflen cs n false out).2.1 = false) :
    (copyLoop buflen cs n false out).2.2 = out ++ (cs.map (·.userData)).flatten := by
  induction cs generalizing n out with
  | nil => simp [copyLoop]
  | cons c cs ih =>
    simp only [copyLoop] at h ⊢
    split
    · rename_i hc; rw [if_pos hc, copyLoop_err_true] at h; cases h
    · rename_i hc; rw [if_neg hc] at h
      simp only [Bool.false_eq_true, ↓reduceIte] at h ⊢
      rw [ih _ _ h]; simp

theorem map_getD_range {α} (l : List α) (d : α) : (List.range l.length).map (fun i => l.getD i d) = l := by
  apply List.ext_getElem
  · simp
  · intro i h1 h2
    simp only [List.length_map, List.length_range] at h1
    simp [List.getD_eq_getElem?_getD, List.getElem?_eq_getElem h1]

theorem dataFrags_payload (S : Sender) (k : Nat) :
    (((List.range (S.nf k)).map (S.dataFrag k)).map (·.userData)).flatten = (S.msg k).payload := by
  simp only [List.map_map, Msg.payload]
  have : ((fun c : Chunk => c.userData) ∘ S.dataFrag k) = fun i => (S.msg k).frags.getD i [] := by
    funext i; simp [Sender.dataFrag]
  rw [this]
  simp only [Sender.nf, Msg.nf]
  rw [map_getD_range]

/-! ### the table of messages the ordered DATA containers refine -/

/-- abstract state: per message index the fragment indices held, ascending in both. -/
abbrev Tab := List (Nat × List Nat)

def Sender.concSet (S : Sender) (e : Nat × List Nat) : ChunkSet :=
  { ssn := BitVec.ofNat 16 e.1, ppi := (S.msg e.1).ppi, chunks := e.2.map (S.dataFrag e.1) }

theorem dataFrag_isFragmented (S : Sender) (k j : Nat) (hj : j < S.nf k) :
    (S.dataFrag k j).isFragmented = !(decide (S.nf k = 1)) := by
  simp only [Chunk.isFragmented, Sender.dataFrag]
  by_cases h1 : S.nf k = 1
  · have : j = 0 := by omega
    simp [h1, this]
  · by_cases h0 : j = 0
    · subst h0; simp [h1]; omega
    · simp [h0, h1]

/-- looking up the fragmented set of message `k` in the concrete list = looking `k` up in the table. -/
theorem findFragSet_conc (S : Sender) (k : Nat) (hfr : S.nf k ≠ 1) (A : Tab)
    (hwin : ∀ e ∈ A, e.1 < k + 2^15 ∧ k < e.1 + 2^15)
    (hwf : ∀ e ∈ A, e.2 ≠ [] ∧ ∀ j ∈ e.2, j < S.nf e.1) :
    ((∀ e ∈ A, e.1 ≠ k) ∧ findFragSet (BitVec.ofNat 16 k) (A.map S.concSet) = .notFound) ∨
    (∃ pre js post, A = pre ++ (k, js) :: post ∧
      findFragSet (BitVec.ofNat 16 k) (A.map S.concSet) = .found (pre.map S.concSet) (S.concSet (k, js)) (post.map S.concSet)) := by
  induction A with
  | nil => left; simp [findFragSet]
  | cons e rest ih =>
    have ihr := ih (fun x hx => hwin x (List.mem_cons_of_mem _ hx)) (fun x hx => hwf x (List.mem_cons_of_mem _ hx))
    obtain ⟨k', js'⟩ := e
    have hw := hwin (k', js') (List.mem_cons_self ..)
    have hf := hwf (k', js') (List.mem_cons_self ..)
    simp only [List.map_cons, findFragSet]
    by_cases hk : k' = k
    · subst hk
      right
      refine ⟨[], js', rest, rfl, ?_⟩
      simp only [Sender.concSet, beq_self_eq_true, ↓reduceIte, List.map_nil]
      cases js' with
      | nil => exact absurd rfl hf.1
      | cons j0 tl =>
        simp only [List.map_cons]
        rw [dataFrag_isFragmented S k' j0 (hf.2 j0 (List.mem_cons_self ..))]
        simp [hfr]
    · have hne : ((S.concSet (k', js')).ssn == BitVec.ofNat 16 k) = false := by
        simp only [Sender.concSet, beq_eq_false_iff_ne, ne_eq]
        rw [ofNat16_eq_iff _ _ hw.1 hw.2]; exact hk
      rw [hne]
      simp only [Bool.false_eq_true, ↓reduceIte]
      rcases ihr with ⟨hall, hnf⟩ | ⟨pre, js, post, hA, hfound⟩
      · left
        refine ⟨?_, by rw [hnf]; rfl⟩
        intro x hx
        rcases List.mem_cons.1 hx with rfl | hx
        · exact hk
        · exact hall x hx
      · right
        refine ⟨(k', js') :: pre, js, post, by rw [hA]; rfl, ?_⟩
        rw [hfound]; rfl

/-- refinement invariant for ordered DATA: `d` messages delivered, `A` the table held, `P` the
fragments pushed so far. -/
structure OrdInv (S : Sender) (q : Q) (d : Nat) (A : Tab) (P : List (Nat × Nat)) : Prop where
  si : q.si = S.si
  il : q.useInterleaving = false
  un : q.unordered = []
  cur : q.nextSSN = BitVec.ofNat 16 d
  ord : q.ordered = A.map S.concSet
  sorted : A.Pairwise (fun a b => a.1 < b.1)
  win : ∀ e ∈ A, d ≤ e.1 ∧ e.1 < d + 2^15 ∧ e.1 < S.msgs.length
  wf : ∀ e ∈ A, e.2 ≠ [] ∧ e.2.Pairwise (· < ·) ∧ ∀ j ∈ e.2, j < S.nf e.1
  pushed : ∀ e ∈ A, ∀ j ∈ e.2, (e.1, j) ∈ P
  done : ∀ k, k < d → ∀ i, i < S.nf k → (k, i) ∈ P

theorem OrdInv.mono {S q d A P} (h : OrdInv S q d A P) (x : Nat × Nat) : OrdInv S q d A (x :: P) :=
  { h with pushed := fun e he j hj => List.mem_cons_of_mem _ (h.pushed e he j hj),
           done := fun k hk i hi => List.mem_cons_of_mem _ (h.done k hk i hi) }

theorem OrdInv_new (S : Sender) (me : BitVec 32) : OrdInv S (new S.si me) 0 [] [] := by
  constructor <;> simp [new]

theorem dataFrag_tsn_lt (S : Sender) (k a b : Nat) (ha : a < 2^31) (hb : b < 2^31) :
    sna32LT (S.dataFrag k a).tsn (S.dataFrag k b).tsn = decide (a < b) := by
  simp only [Sender.dataFrag]
  rw [sna32LT_add_left, sna32LT_ofNat _ _ (by omega) (by omega)]
  simp

theorem dataFrag_tsn_inj (S : Sender) (k a b : Nat) (ha : a < 2^31) (hb : b < 2^31)
    (h : (S.dataFrag k a).tsn = (S.dataFrag k b).tsn) : a = b := by
  simp only [Sender.dataFrag] at h
  have h' : BitVec.ofNat 32 (S.base k + a) = BitVec.ofNat 32 (S.base k + b) := by bv_omega
  have := (ofNat32_eq_iff _ _ (by omega) (by omega)).1 h'
  omega

/-- sorting the chunks of one message by TSN = sorting their fragment indices. -/
theorem sortTSN_conc (S : Sender) (k : Nat) (js : List Nat) (h : ∀ j ∈ js, j < 2^31) :
    sortChunksByTSN (js.map (S.dataFrag k)) = (goSort (fun a b => decide (a < b)) js).map (S.dataFrag k) := by
  unfold sortChunksByTSN
  exact goSort_map (S.dataFrag k) _ _ js (fun a ha b hb => dataFrag_tsn_lt S k a b (h a ha) (h b hb))

/-- sorting sets by SSN = sorting table entries by message index, inside the window. -/
theorem sortSSN_conc (S : Sender) (A : Tab) (d : Nat) (h : ∀ e ∈ A, d ≤ e.1 ∧ e.1 < d + 2^15) :
    sortChunksBySSN (A.map S.concSet) = (goSort (fun a b => decide (a.1 < b.1)) A).map S.concSet := by
  unfold sortChunksBySSN
  apply goSort_map
  intro a ha b hb
  have := h a ha; have := h b hb
  simp only [Sender.concSet]
  exact sna16LT_ofNat _ _ (by omega) (by omega)

theorem pairwise_lt_ne {l : List Nat} (h : l.Pairwise (· < ·)) : l.Pairwise (fun a b => (id a) ≠ (id b)) :=
  h.imp (fun hab => by simp only [id]; omega)

theorem goSort_singleton {α} (lt : α → α → Bool) (x : α) : goSort lt [x] = [x] := by
  simp [goSort, insRev]

/-- state after creating a new set for chunk `c` (the `cset == nil` path, limit not reached). -/
theorem OrdInv.newSet {S q d A P} (h : OrdInv S q d A P) (hS : S.WF) {k i : Nat}
    (hk : k < S.msgs.length) (hi : i < S.nf k) (hdk : d ≤ k) (hw : k < d + 2^15)
    (hfresh : ∀ e ∈ A, e.1 ≠ k) (q' : Q)
    (hsi : q'.si = q.si) (hil : q'.useInterleaving = q.useInterleaving) (hun : q'.unordered = q.unordered)
    (hcur : q'.nextSSN = q.nextSSN)
    (hord : q'.ordered = sortChunksBySSN (q.ordered ++
      [((newChunkSet (S.dataFrag k i).ssn (S.dataFrag k i).ppi).pushNoDuplicate (S.dataFrag k i)).1])) :
    ∃ A', OrdInv S q' d A' ((k, i) :: P) := by
  have hset : ((newChunkSet (S.dataFrag k i).ssn (S.dataFrag k i).ppi).pushNoDuplicate (S.dataFrag k i)).1
      = S.concSet (k, [i]) := by
    simp only [ChunkSet.pushNoDuplicate, newChunkSet, List.nil_append, sortChunksByTSN, goSort_singleton,
      Sender.concSet, List.map_cons, List.map_nil]
    simp [Sender.dataFrag]
  have hwin' : ∀ e ∈ A ++ [(k, [i])], d ≤ e.1 ∧ e.1 < d + 2^15 := by
    intro e he
    rcases List.mem_append.1 he with he | he
    · have := h.win e he; omega
    · simp only [List.mem_singleton] at he; subst he; exact ⟨hdk, hw⟩
  refine ⟨goSort (fun a b => decide (a.1 < b.1)) (A ++ [(k, [i])]), ?_⟩
  have hmem : ∀ e, e ∈ goSort (fun a b : Nat × List Nat => decide (a.1 < b.1)) (A ++ [(k, [i])]) ↔ e ∈ A ∨ e = (k, [i]) := by
    intro e; rw [goSort_mem]; simp
  refine
    { si := by rw [hsi, h.si], il := by rw [hil, h.il], un := by rw [hun, h.un], cur := by rw [hcur, h.cur],
      ord := ?_, sorted := ?_, win := ?_, wf := ?_, pushed := ?_,
      done := fun k' hk' i' hi' => List.mem_cons_of_mem _ (h.done k' hk' i' hi') }
  · rw [hord, hset, h.ord]
    have : A.map S.concSet ++ [S.concSet (k, [i])] = (A ++ [(k, [i])]).map S.concSet := by simp
    rw [this, sortSSN_conc S _ d hwin']
  · apply goSort_sorted (fun e : Nat × List Nat => e.1)
    rw [List.pairwise_append]
    refine ⟨h.sorted.imp (fun hab => by omega), by simp, ?_⟩
    intro a ha b hb
    simp only [List.mem_singleton] at hb; subst hb
    exact hfresh a ha
  · intro e he
    rcases (hmem e).1 he with he | rfl
    · exact h.win e he
    · exact ⟨hdk, hw, hk⟩
  · intro e he
    rcases (hmem e).1 he with he | rfl
    · exact h.wf e he
    · refine ⟨by simp, by simp, ?_⟩
      intro j hj; simp only [List.mem_singleton] at hj; subst hj; exact hi
  · intro e he j hj
    rcases (hmem e).1 he with he | rfl
    · exact List.mem_cons_of_mem _ (h.pushed e he j hj)
    · simp only [List.mem_singleton] at hj; subst hj; exact List.mem_cons_self ..

/-- state after pushing chunk `c` into the existing set of its message. -/
theorem OrdInv.intoSet {S q d P} {pre post : Tab} {js : List Nat} {k i : Nat}
    (h : OrdInv S q d (pre ++ (k, js) :: post) P) (hS : S.WF)
    (hk : k < S.msgs.length) (hi : i < S.nf k) (hnotin : i ∉ js) (q' : Q)
    (hsi : q'.si = q.si) (hil : q'.useInterleaving = q.useInterleaving) (hun : q'.unordered = q.unordered)
    (hcur : q'.nextSSN = q.nextSSN)
    (hord : q'.ordered = pre.map S.concSet ++ ((S.concSet (k, js)).pushNoDuplicate (S.dataFrag k i)).1 :: post.map S.concSet) :
    ∃ A', OrdInv S q' d A' ((k, i) :: P) := by
  have hnf := S.nf_pos hS hk
  have hin : (k, js) ∈ pre ++ (k, js) :: post := by simp
  have hwf := h.wf _ hin
  have hjs31 : ∀ j ∈ js ++ [i], j < 2^31 := by
    intro j hj
    rcases List.mem_append.1 hj with hj | hj
    · have := hwf.2.2 j hj; simp only at this; omega
    · simp only [List.mem_singleton] at hj; omega
  let js' := goSort (fun a b => decide (a < b)) (js ++ [i])
  have hset : ((S.concSet (k, js)).pushNoDuplicate (S.dataFrag k i)).1 = S.concSet (k, js') := by
    simp only [ChunkSet.pushNoDuplicate, Sender.concSet]
    have : js.map (S.dataFrag k) ++ [S.dataFrag k i] = (js ++ [i]).map (S.dataFrag k) := by simp
    rw [this, sortTSN_conc S k _ hjs31]
  have hmem : ∀ j, j ∈ js' ↔ j ∈ js ∨ j = i := by
    intro j; simp only [js']; rw [goSort_mem]; simp
  refine ⟨pre ++ (k, js') :: post, ?_⟩
  have hmemA : ∀ e, e ∈ pre ++ (k, js') :: post → e = (k, js') ∨ e ∈ pre ++ (k, js) :: post := by
    intro e he
    simp only [List.mem_append, List.mem_cons] at he ⊢
    rcases he with he | rfl | he
    · right; exact .inl he
    · left; rfl
    · right; exact .inr (.inr he)
  refine
    { si := by rw [hsi, h.si], il := by rw [hil, h.il], un := by rw [hun, h.un], cur := by rw [hcur, h.cur],
      ord := ?_, sorted := ?_, win := ?_, wf := ?_, pushed := ?_,
      done := fun k' hk' i' hi' => List.mem_cons_of_mem _ (h.done k' hk' i' hi') }
  · rw [hord, hset]; simp
  · have hs := h.sorted
    rw [List.pairwise_append, List.pairwise_cons] at hs ⊢
    refine ⟨hs.1, ⟨fun b hb => hs.2.1.1 b hb, hs.2.1.2⟩, ?_⟩
    intro a ha b hb
    rcases List.mem_cons.1 hb with rfl | hb
    · exact hs.2.2 a ha (k, js) (List.mem_cons_self ..)
    · exact hs.2.2 a ha b (List.mem_cons_of_mem _ hb)
  · intro e he
    rcases hmemA e he with rfl | he
    · exact h.win (k, js) hin
    · exact h.win e he
  · intro e he
    rcases hmemA e he with rfl | he
    · refine ⟨?_, ?_, ?_⟩
      · intro hnil
        have := (hmem i).2 (.inr rfl)
        simp only at hnil; rw [hnil] at this; simp at this
      · apply goSort_sorted (fun a : Nat => a)
        rw [List.pairwise_append]
        refine ⟨hwf.2.1.imp (fun hab => by omega), by simp, ?_⟩
        intro a ha b hb
        simp only [List.mem_singleton] at hb; subst hb
        intro hab; exact hnotin (hab ▸ ha)
      · intro j hj
        rcases (hmem j).1 hj with hj | rfl
        · exact hwf.2.2 j hj
        · exact hi
    · exact h.wf e he
  · intro e he j hj
    rcases hmemA e he with rfl | he
    · rcases (hmem j).1 hj with hj | rfl
      · exact List.mem_cons_of_mem _ (h.pushed (k, js) hin j hj)
      · exact List.mem_cons_self ..
    · exact List.mem_cons_of_mem _ (h.pushed e he j hj)


theorem OrdInv.push {S q d A P} (h : OrdInv S q d A P) (hS : S.WF) {k i : Nat}
    (hk : k < S.msgs.length) (hi : i < S.nf k) (hP : (k, i) ∉ P) (hw : k < d + 2^15) :
    ∃ A', OrdInv S (q.pushWithError (S.dataFrag k i)).1 d A' ((k, i) :: P) := by
  have hnf := S.nf_pos hS hk
  have hdk : d ≤ k := by
    rcases Nat.lt_or_ge k d with hlt | hge
    · exact absurd (h.done k hlt i hi) hP
    · exact hge
  have hwinA : ∀ e ∈ A, e.1 < k + 2^15 ∧ k < e.1 + 2^15 := fun e he => by
    have := h.win e he; omega
  have hwfA : ∀ e ∈ A, e.2 ≠ [] ∧ ∀ j ∈ e.2, j < S.nf e.1 := fun e he => ⟨(h.wf e he).1, (h.wf e he).2.2⟩
  unfold Q.pushWithError
  have c1 : (S.dataFrag k i).iData = false := rfl
  have c2 : ((S.dataFrag k i).si != q.si) = false := by simp [Sender.dataFrag, h.si]
  have c3 : (S.dataFrag k i).unordered = false := rfl
  have c4 : sna16LT (BitVec.ofNat 16 k) q.nextSSN = false := by
    rw [h.cur, sna16LT_ofNat _ _ (by omega) (by omega)]; simp; omega
  have c5 : (S.dataFrag k i).ssn = BitVec.ofNat 16 k := rfl
  simp only [c1, c2, c3, c4, c5, Bool.false_eq_true, ↓reduceIte]
  rw [dataFrag_isFragmented S k i hi, h.ord]
  by_cases hone : S.nf k = 1
  · -- unfragmented message: always a new set
    simp only [hone, decide_true, Bool.not_true, Bool.false_eq_true, ↓reduceIte]
    have hfresh : ∀ e ∈ A, e.1 ≠ k := by
      intro e he hek
      obtain ⟨hne, _, hlt⟩ := h.wf e he
      cases hjs : e.2 with
      | nil => exact hne hjs
      | cons j0 tl =>
        have hj0 : j0 ∈ e.2 := by rw [hjs]; exact List.mem_cons_self ..
        have := hlt j0 hj0
        rw [hek, hone] at this
        have hi0 : i = 0 := by omega
        have hj00 : j0 = 0 := by omega
        have := h.pushed e he j0 hj0
        rw [hek, hj00, ← hi0] at this
        exact hP this
    split
    · exact ⟨A, h.mono _⟩
    · exact h.newSet hS hk hi hdk hw hfresh _ rfl rfl rfl rfl (by rw [h.ord]; rfl)
  · simp only [hone, decide_false, Bool.not_false, ↓reduceIte]
    rcases findFragSet_conc S k hone A hwinA hwfA with ⟨hfresh, hnf'⟩ | ⟨pre, js, post, hA, hfound⟩
    · rw [hnf']
      simp only
      split
      · exact ⟨A, h.mono _⟩
      · exact h.newSet hS hk hi hdk hw hfresh _ rfl rfl rfl rfl (by rw [h.ord]; rfl)
    · rw [hfound]
      simp only
      have hin : (k, js) ∈ A := by rw [hA]; simp
      have hnotin : i ∉ js := fun hij => hP (h.pushed _ hin i hij)
      have hwf := h.wf _ hin
      have hno : (S.concSet (k, js)).hasTSN (S.dataFrag k i).tsn = false := by
        simp only [ChunkSet.hasTSN, Sender.concSet, List.any_map, List.any_eq_false, Function.comp]
        intro j hj
        simp only [beq_iff_eq]
        intro heq
        have hj' := hwf.2.2 j hj
        simp only at hj'
        have := dataFrag_tsn_inj S k j i (by omega) (by omega) heq
        exact hnotin (this ▸ hj)
      rw [hno]
      simp only [Bool.false_eq_true, ↓reduceIte]
      split
      · exact ⟨A, h.mono _⟩
      · subst hA
        exact h.intoSet hS hk hi hnotin _ rfl rfl rfl rfl rfl

/-- a read on a refined state: either nothing is delivered and the queue is unchanged, or exactly
message `d` is delivered (PPI and payload) and the state refines the table without it. -/
theorem OrdInv.read {S q d A P} (h : OrdInv S q d A P) (hS : S.WF) (n : Nat) :
    ((q.read n).2.err ≠ .ok ∧ (q.read n).1 = q) ∨
    ((q.read n).2.err = .ok ∧ d < S.msgs.length ∧ (q.read n).2.ppi = (S.msg d).ppi ∧
      (q.read n).2.data = (S.msg d).payload ∧ ∃ A', OrdInv S (q.read n).1 (d + 1) A' P) := by
  unfold Q.read
  simp only [h.il, Bool.false_eq_true, ↓reduceIte, h.un, h.ord]
  cases hA : A with
  | nil => left; simp [ReadRes.tryAgain]
  | cons e rest =>
    obtain ⟨k, js⟩ := e
    subst hA
    have hin : (k, js) ∈ (k, js) :: rest := List.mem_cons_self ..
    have hwin := h.win _ hin
    have hwf := h.wf _ hin
    simp only at hwin hwf
    simp only [List.map_cons]
    by_cases hc : (S.concSet (k, js)).isComplete = true
    · simp only [hc, Bool.not_true, Bool.false_eq_true, ↓reduceIte]
      have hgt : sna16GT (S.concSet (k, js)).ssn q.nextSSN = decide (d < k) := by
        rw [h.cur]; simp only [Sender.concSet]
        exact sna16GT_ofNat _ _ (by omega) (by omega)
      rw [hgt]
      by_cases hdk : d < k
      · left; simp [hdk, ReadRes.tryAgain]
      · have hkd : k = d := by omega
        subst hkd
        simp only [hdk, decide_false, Bool.false_eq_true, ↓reduceIte]
        have hnf := S.nf_pos hS hwin.2.2
        have hall : js = List.range (S.nf k) :=
          complete_imp_all S k js hnf.2 hwf.2.2 (by simpa [ChunkSet.isComplete, Sender.concSet] using hc)
        cases herr : (copyLoop (n : Int) (S.concSet (k, js)).chunks 0 false []).2.1 with
        | true => left; simp [herr]
        | false =>
          right
          have hdata := copyLoop_ok _ _ _ _ herr
          simp only [herr, Bool.false_eq_true, ↓reduceIte]
          refine ⟨trivial, hwin.2.2, rfl, ?_, rest, ?_⟩
          · rw [hdata]; simp only [Sender.concSet, List.nil_append, hall]
            exact dataFrags_payload S k
          · have hs := h.sorted
            rw [List.pairwise_cons] at hs
            refine
              { si := by simp [Q.subtractNumBytes, h.si], il := by simp [Q.subtractNumBytes], un := by simp [Q.subtractNumBytes], cur := ?_, ord := by simp [Q.subtractNumBytes],
                sorted := hs.2, win := ?_, wf := fun e he => h.wf e (List.mem_cons_of_mem _ he),
                pushed := fun e he => h.pushed e (List.mem_cons_of_mem _ he), done := ?_ }
            · simp only [Q.subtractNumBytes, Sender.concSet, h.cur, beq_self_eq_true, ↓reduceIte]
              rw [BitVec.ofNat_add]; rfl
            · intro e he
              have := h.win e (List.mem_cons_of_mem _ he)
              have := hs.1 e he
              simp only at this; omega
            · intro k' hk' i hi
              rcases Nat.lt_or_ge k' k with hlt | hge
              · exact h.done k' hlt i hi
              · have : k' = k := by omega
                subst this
                refine h.pushed _ hin i ?_
                simp only [hall, List.mem_range]; exact hi
    · left
      simp only [Bool.not_eq_true] at hc
      simp [hc, ReadRes.tryAgain]

/-! ### honest runs -/

/-- what an honest peer + network can do to the queue: deliver fragment `i` of message `k`, or the
application reads with a buffer of `buflen` bytes. -/
inductive HOp
  | push (k i : Nat)
  | read (buflen : Nat)
deriving Repr

/-- the `(PPI, payload)` pairs returned by the successful reads of a run, in order. -/
def Sender.deliveries (S : Sender) (frag : Nat → Nat → Chunk) : Q → List HOp → List (PPI × List UInt8)
  | _, [] => []
  | q, .push k i :: ops => S.deliveries frag (q.pushWithError (frag k i)).1 ops
  | q, .read n :: ops =>
    (if (q.read n).2.err = .ok then [((q.read n).2.ppi, (q.read n).2.data)] else []) ++
      S.deliveries frag (q.read n).1 ops

/-- admissible runs: valid indices; no fragment is handed over twice (the association's TSN filter,
C05); the sender is never `W` or more messages ahead of what the application has read
(`W = 2^15` for SSNs, `2^31` for MIDs). `d` = messages read so far, `P` = fragments pushed so far. -/
def Sender.Admissible (S : Sender) (frag : Nat → Nat → Chunk) (W : Nat) : Q → Nat → List (Nat × Nat) → List HOp → Prop
  | _, _, _, [] => True
  | q, d, P, .push k i :: ops =>
      k < S.msgs.length ∧ i < S.nf k ∧ (k, i) ∉ P ∧ k < d + W ∧
      S.Admissible frag W (q.pushWithError (frag k i)).1 d ((k, i) :: P) ops
  | q, d, P, .read n :: ops =>
      S.Admissible frag W (q.read n).1 (if (q.read n).2.err = .ok then d + 1 else d) P ops

instance Sender.decAdmissible (S : Sender) (frag : Nat → Nat → Chunk) (W : Nat) :
    ∀ q d P ops, Decidable (S.Admissible frag W q d P ops)
  | _, _, _, [] => isTrue trivial
  | q, d, P, .push k i :: ops =>
    have := Sender.decAdmissible S frag W (q.pushWithError (frag k i)).1 d ((k, i) :: P) ops
    by unfold Sender.Admissible; exact inferInstance
  | q, d, P, .read n :: ops =>
    have := Sender.decAdmissible S frag W (q.read n).1 (if (q.read n).2.err = .ok then d + 1 else d) P ops
    by unfold Sender.Admissible; exact inferInstance

def Msg.out (m : Msg) : PPI × List UInt8 := (m.ppi, m.payload)

theorem OrdInv.prefix {S : Sender} (hS : S.WF) (ops : List HOp) {q d A P} (h : OrdInv S q d A P)
    (hadm : S.Admissible S.dataFrag (2^15) q d P ops) :
    S.deliveries S.dataFrag q ops <+: (S.msgs.drop d).map Msg.out := by
  induction ops generalizing q d A P with
  | nil => simp [Sender.deliveries]
  | cons op ops ih =>
    cases op with
    | push k i =>
      simp only [Sender.Admissible] at hadm
      obtain ⟨hk, hi, hP, hw, hrest⟩ := hadm
      obtain ⟨A', h'⟩ := h.push hS hk hi hP hw
      simp only [Sender.deliveries]
      exact ih h' hrest
    | read n =>
      simp only [Sender.Admissible] at hadm
      simp only [Sender.deliveries]
      rcases h.read hS n with ⟨hne, hq⟩ | ⟨hok, hd, hppi, hdata, A', h'⟩
      · rw [if_neg hne] at hadm ⊢
        rw [hq] at hadm ⊢
        simpa using ih h hadm
      · rw [if_pos hok] at hadm ⊢
        have hdrop : S.msgs.drop d = S.msgs[d] :: S.msgs.drop (d + 1) := (List.drop_eq_getElem_cons hd)
        have hmsg : S.msg d = S.msgs[d] := by
          simp [Sender.msg, List.getD_eq_getElem?_getD, List.getElem?_eq_getElem hd]
        rw [hdrop, List.map_cons, hppi, hdata, hmsg]
        simp only [List.singleton_append, Msg.out]
        exact (List.prefix_cons_inj _).2 (ih h' hadm)

/-! ### I-DATA: universe -/

/-- ordered I-DATA fragment `i` of message `k`: MID = `k` (mod 2^32), FSN = `i`, B/E at the ends,
only the first fragment carries the PPI (the others carry the FSN in that wire field; `unmarshal`
leaves `payloadType = 0`). The TSN `τ k i` is ARBITRARY: I-DATA reassembly never looks at it. -/
def Sender.idataFrag (S : Sender) (τ : Nat → Nat → BitVec 32) (k i : Nat) : Chunk :=
  { tsn := τ k i, si := S.si, ssn := BitVec.ofNat 16 k, mid := BitVec.ofNat 32 k, fsn := BitVec.ofNat 32 i,
    unordered := false, bf := i == 0, ef := i + 1 == S.nf k, iData := true,
    ppi := if i == 0 then (S.msg k).ppi else 0, userData := (S.msg k).frags.getD i [] }

/-! ### `sort.Search` on a monotone predicate returns the first `true` -/

theorem goSearch_spec (f : Nat → Bool) (n : Nat)
    (hmono : ∀ x y, x ≤ y → y < n → f x = true → f y = true) :
    ∀ fuel i j, i ≤ j → j ≤ n → j - i < fuel → (∀ x, x < i → f x = false) → (∀ x, j ≤ x → x < n → f x = true) →
      i ≤ goSearch f fuel i j ∧ goSearch f fuel i j ≤ j ∧ (∀ x, x < goSearch f fuel i j → f x = false) ∧
      (∀ x, goSearch f fuel i j ≤ x → x < n → f x = true) := by
  intro fuel
  induction fuel with
  | zero => intro i j _ _ h; omega
  | succ fuel ih =>
    intro i j hij hjn hfuel hlo hhi
    simp only [goSearch]
    by_cases hlt : i < j
    · simp only [hlt, ↓reduceIte]
      cases hf : f ((i + j) / 2) with
      | false =>
        simp only [Bool.not_false, ↓reduceIte]
        have := ih ((i + j) / 2 + 1) j (by omega) hjn (by omega)
          (by
            intro x hx
            rcases Nat.lt_or_ge x i with h | h
            · exact hlo x h
            · cases hfx : f x with
              | false => rfl
              | true =>
                have := hmono x ((i + j) / 2) (by omega) (by omega) hfx
                rw [hf] at this; cases this)
          hhi
        exact ⟨by omega, this.2.1, this.2.2⟩
      | true =>
        simp only [Bool.not_true, Bool.false_eq_true, ↓reduceIte]
        have := ih i ((i + j) / 2) (by omega) (by omega) (by omega) hlo
          (by
            intro x hx hxn
            exact hmono _ x hx hxn hf)
        exact ⟨this.1, by omega, this.2.2⟩
    · simp only [hlt, ↓reduceIte]
      have : i = j := by omega
      subst this
      exact ⟨Nat.le_refl _, Nat.le_refl _, hlo, hhi⟩

/-! ### I-DATA: completeness forces all fragments -/

theorem fsnContig_range (S : Sender) (τ) (k N : Nat) (hN : N < 2^31) (i : Nat) (js : List Nat)
    (hi : i < N) (hjs : ∀ j ∈ js, j < N)
    (h : fsnContig (S.idataFrag τ k i).fsn (js.map (S.idataFrag τ k)) = true) :
    js = List.range' (i + 1) js.length := by
  induction js generalizing i with
  | nil => rfl
  | cons j rest ih =>
    simp only [List.map_cons, fsnContig] at h
    split at h
    · cases h
    · rename_i hne
      simp only [bne_iff_ne, ne_eq, Decidable.not_not] at hne
      have hjN := hjs j (List.mem_cons_self ..)
      have hj : j = i + 1 := by
        simp only [Sender.idataFrag] at hne
        have h' : BitVec.ofNat 32 j = BitVec.ofNat 32 (i + 1) := by
          rw [hne, BitVec.ofNat_add]; rfl
        exact (ofNat32_eq_iff _ _ (by omega) (by omega)).1 h'
      subst hj
      have := ih (i + 1) hjN (fun x hx => hjs x (List.mem_cons_of_mem _ hx)) h
      simp only [List.length_cons, List.range'_succ]
      rw [← this]

theorem completeMID_imp_all (S : Sender) (τ) (k : Nat) (js : List Nat) (hnf : S.nf k < 2^31)
    (hjs : ∀ j ∈ js, j < S.nf k)
    (h : chunksCompleteMID (js.map (S.idataFrag τ k)) = true) : js = List.range (S.nf k) := by
  cases js with
  | nil => simp [chunksCompleteMID] at h
  | cons j0 rest =>
    simp only [List.map_cons, chunksCompleteMID] at h
    split at h
    · cases h
    · rename_i hb
      split at h
      · cases h
      · rename_i he
        split at h
        · cases h
        · have hb' : j0 = 0 := by simpa [Sender.idataFrag] using hb
          subst hb'
          have hc := fsnContig_range S τ k (S.nf k) hnf 0 rest (hjs 0 (List.mem_cons_self ..))
            (fun j hj => hjs j (List.mem_cons_of_mem _ hj)) h
          have e : S.idataFrag τ k 0 :: rest.map (S.idataFrag τ k)
              = (List.range' 0 (rest.length + 1)).map (S.idataFrag τ k) := by
            rw [List.range'_succ, List.map_cons, ← hc]
          have hlast : ((S.idataFrag τ k 0 :: rest.map (S.idataFrag τ k)).getLast (List.cons_ne_nil _ _)).ef = true := by
            simpa using he
          simp only [e] at hlast
          rw [getLast_map_range'] at hlast
          have hef : rest.length + 1 = S.nf k := by simpa [Sender.idataFrag] using hlast
          rw [List.range_eq_range', ← hef, List.range'_succ, ← hc]

theorem idataFrags_payload (S : Sender) (τ) (k : Nat) :
    (((List.range (S.nf k)).map (S.idataFrag τ k)).map (·.userData)).flatten = (S.msg k).payload := by
  simp only [List.map_map, Msg.payload]
  have : ((fun c : Chunk => c.userData) ∘ S.idataFrag τ k) = fun i => (S.msg k).frags.getD i [] := by
    funext i; simp [Sender.idataFrag]
  rw [this]
  simp only [Sender.nf, Msg.nf]
  rw [map_getD_range]

/-! ### I-DATA: the table the ordered MID containers refine -/

def Sender.concSetMID (S : Sender) (τ : Nat → Nat → BitVec 32) (e : Nat × List Nat) : ChunkSetMID :=
  { mid := BitVec.ofNat 32 e.1, ppi := if 0 ∈ e.2 then (S.msg e.1).ppi else 0,
    chunks := e.2.map (S.idataFrag τ e.1) }

theorem findMID_conc (S : Sender) (τ) (k : Nat) (A : Tab)
    (hwin : ∀ e ∈ A, e.1 < k + 2^31 ∧ k < e.1 + 2^31) :
    ((∀ e ∈ A, e.1 ≠ k) ∧ (A.map (S.concSetMID τ)).find? (fun s => s.mid == BitVec.ofNat 32 k) = none) ∨
    (∃ pre js post, A = pre ++ (k, js) :: post ∧
      (A.map (S.concSetMID τ)).find? (fun s => s.mid == BitVec.ofNat 32 k) = some (S.concSetMID τ (k, js)) ∧
      ∀ s', updMID (BitVec.ofNat 32 k) s' (A.map (S.concSetMID τ)) =
        pre.map (S.concSetMID τ) ++ s' :: post.map (S.concSetMID τ)) := by
  induction A with
  | nil => left; simp
  | cons e rest ih =>
    have ihr := ih (fun x hx => hwin x (List.mem_cons_of_mem _ hx))
    obtain ⟨k', js'⟩ := e
    have hw := hwin (k', js') (List.mem_cons_self ..)
    simp only at hw
    by_cases hk : k' = k
    · subst hk
      right
      refine ⟨[], js', rest, rfl, ?_, ?_⟩
      · simp [Sender.concSetMID]
      · intro s'; simp [updMID, Sender.concSetMID]
    · have hne : ((S.concSetMID τ (k', js')).mid == BitVec.ofNat 32 k) = false := by
        simp only [Sender.concSetMID, beq_eq_false_iff_ne, ne_eq]
        rw [ofNat32_eq_iff _ _ hw.1 hw.2]; exact hk
      rcases ihr with ⟨hall, hnf⟩ | ⟨pre, js, post, hA, hfound, hupd⟩
      · left
        refine ⟨?_, ?_⟩
        · intro x hx
          rcases List.mem_cons.1 hx with rfl | hx
          · exact hk
          · exact hall x hx
        · simp only [List.map_cons, List.find?_cons, hne]; exact hnf
      · right
        refine ⟨(k', js') :: pre, js, post, by rw [hA]; rfl, ?_, ?_⟩
        · simp only [List.map_cons, List.find?_cons, hne]; exact hfound
        · intro s'
          simp only [List.map_cons, updMID, hne, Bool.false_eq_true, ↓reduceIte, List.cons_append]
          rw [hupd s']

/-- inserting a fresh MID by binary search = inserting the entry at its place in the sorted table. -/
theorem insertMID_conc (S : Sender) (τ) (x : Nat × List Nat) (A : Tab) (d : Nat)
    (hsorted : A.Pairwise (fun a b => a.1 < b.1))
    (hwin : ∀ e ∈ A, d ≤ e.1 ∧ e.1 < d + 2^31) (hx : d ≤ x.1 ∧ x.1 < d + 2^31)
    (hfresh : ∀ e ∈ A, e.1 ≠ x.1) :
    ∃ A' : Tab, insertChunkSetByMID (A.map (S.concSetMID τ)) (S.concSetMID τ x) = A'.map (S.concSetMID τ) ∧
      A'.Pairwise (fun a b => a.1 < b.1) ∧ (∀ e, e ∈ A' ↔ e ∈ A ∨ e = x) := by
  unfold insertChunkSetByMID
  -- the search predicate in terms of the table
  let f : Nat → Bool := fun i => match (A.map (S.concSetMID τ))[i]? with
    | some s => !sna32LT s.mid (S.concSetMID τ x).mid
    | none => true
  have hf : ∀ i (hi : i < A.length), f i = decide (x.1 < A[i].1) := by
    intro i hi
    simp only [f, List.getElem?_map, List.getElem?_eq_getElem hi, Option.map_some]
    have hw := hwin A[i] (List.getElem_mem hi)
    have hne := hfresh A[i] (List.getElem_mem hi)
    simp only [Sender.concSetMID]
    rw [sna32LT_ofNat _ _ (by omega) (by omega)]
    simp only [Bool.not_eq_eq_eq_not, Bool.not_not, decide_eq_decide] 
    by_cases h1 : A[i].1 < x.1
    · simp [h1]; omega
    · simp [h1]; omega
  have hmono : ∀ a b, a ≤ b → b < A.length → f a = true → f b = true := by
    intro a b hab hb hfa
    have ha : a < A.length := by omega
    rw [hf a ha] at hfa; rw [hf b hb]
    simp only [decide_eq_true_eq] at hfa ⊢
    rcases Nat.lt_or_ge a b with hlt | hge
    · have := List.pairwise_iff_getElem.1 hsorted a b ha hb hlt; omega
    · have : a = b := by omega
      subst this; exact hfa
  have hlen : (A.map (S.concSetMID τ)).length = A.length := by simp
  rw [hlen]
  obtain ⟨_, hr2, hr3, hr4⟩ := goSearch_spec f A.length hmono (A.length + 1) 0 A.length (by omega) (by omega) (by omega)
    (by intro x hx; omega) (by intro x h1 h2; omega)
  generalize goSearch f (A.length + 1) 0 A.length = r at hr2 hr3 hr4
  refine ⟨A.take r ++ x :: A.drop r, ?_, ?_, ?_⟩
  · simp [List.map_take, List.map_drop]
  · have hs := hsorted
    rw [← List.take_append_drop r A, List.pairwise_append] at hs
    rw [List.pairwise_append, List.pairwise_cons]
    refine ⟨hs.1, ⟨?_, hs.2.1⟩, ?_⟩
    · intro b hb
      obtain ⟨i, hi, rfl⟩ := List.mem_iff_getElem.1 hb
      simp only [List.length_drop] at hi
      rw [List.getElem_drop]
      have := hr4 (r + i) (by omega) (by omega)
      rw [hf _ (by omega)] at this
      simpa using this
    · intro a ha b hb
      rcases List.mem_cons.1 hb with rfl | hb
      · obtain ⟨i, hi, rfl⟩ := List.mem_iff_getElem.1 ha
        simp only [List.length_take] at hi
        rw [List.getElem_take]
        have := hr3 i (by omega)
        rw [hf _ (by omega)] at this
        simp only [decide_eq_false_iff_not] at this
        have hne := hfresh A[i] (List.getElem_mem (by omega))
        omega
      · exact hs.2.2 a ha b hb
  · intro e
    simp only [List.mem_append, List.mem_cons]
    have : e ∈ A ↔ e ∈ A.take r ∨ e ∈ A.drop r := by
      have h := @List.mem_append _ e (A.take r) (A.drop r)
      rw [List.take_append_drop] at h; exact h
    rw [this]
    constructor
    · rintro (h | h | h)
      · exact .inl (.inl h)
      · exact .inr h
      · exact .inl (.inr h)
    · rintro ((h | h) | h)
      · exact .inl h
      · exact .inr (.inr h)
      · exact .inr (.inl h)

theorem idataFrag_fsn_lt (S : Sender) (τ) (k a b : Nat) (ha : a < 2^31) (hb : b < 2^31) :
    sna32LT (S.idataFrag τ k a).fsn (S.idataFrag τ k b).fsn = decide (a < b) := by
  simp only [Sender.idataFrag]
  exact sna32LT_ofNat _ _ (by omega) (by omega)

theorem sortFSN_conc (S : Sender) (τ) (k : Nat) (js : List Nat) (h : ∀ j ∈ js, j < 2^31) :
    sortChunksByFSN (js.map (S.idataFrag τ k)) = (goSort (fun a b => decide (a < b)) js).map (S.idataFrag τ k) := by
  unfold sortChunksByFSN
  exact goSort_map (S.idataFrag τ k) _ _ js (fun a ha b hb => idataFrag_fsn_lt S τ k a b (h a ha) (h b hb))

/-- pushing fragment `i` into a (possibly empty) incomplete set holding fragments `js ∌ i` of message `k`. -/
theorem pushAndCheck_conc (S : Sender) (τ) (k i : Nat) (js : List Nat) (s : ChunkSetMID)
    (hch : s.chunks = js.map (S.idataFrag τ k)) (hinc : s.isComplete = false)
    (hjs : ∀ j ∈ js, j < 2^31) (hi : i < 2^31) (hnotin : i ∉ js) :
    (s.pushAndCheck (S.idataFrag τ k i)).2.2 = true ∧
    (s.pushAndCheck (S.idataFrag τ k i)).1 =
      { mid := s.mid, ppi := if i = 0 then (S.msg k).ppi else s.ppi,
        chunks := (goSort (fun a b => decide (a < b)) (js ++ [i])).map (S.idataFrag τ k) } := by
  unfold ChunkSetMID.pushAndCheck
  have hdup : (s.chunks.any fun x => x.fsn == (S.idataFrag τ k i).fsn) = false := by
    rw [hch]
    simp only [List.any_map, List.any_eq_false, Function.comp, beq_iff_eq]
    intro j hj heq
    simp only [Sender.idataFrag] at heq
    have := (ofNat32_eq_iff _ _ (by have := hjs j hj; omega) (by have := hjs j hj; omega)).1 heq
    exact hnotin (this ▸ hj)
  simp only [hinc, hdup, Bool.false_eq_true, ↓reduceIte, true_and]
  have e : s.chunks ++ [S.idataFrag τ k i] = (js ++ [i]).map (S.idataFrag τ k) := by rw [hch]; simp
  rw [e, sortFSN_conc S τ k _ (by
    intro j hj
    rcases List.mem_append.1 hj with hj | hj
    · exact hjs j hj
    · simp only [List.mem_singleton] at hj; omega)]
  congr 1
  by_cases h0 : i = 0
  · simp [h0, Sender.idataFrag]
  · simp [h0, Sender.idataFrag]

/-- refinement invariant for ordered I-DATA. -/
structure MidInv (S : Sender) (τ : Nat → Nat → BitVec 32) (q : Q) (d : Nat) (A : Tab) (P : List (Nat × Nat)) : Prop where
  si : q.si = S.si
  il : q.useInterleaving = false → A = []
  un : q.unordered = []
  od : q.ordered = []
  um : q.unorderedMID = []
  cur : q.nextMID = BitVec.ofNat 32 d
  ord : q.orderedMID = A.map (S.concSetMID τ)
  sorted : A.Pairwise (fun a b => a.1 < b.1)
  win : ∀ e ∈ A, d ≤ e.1 ∧ e.1 < d + 2^31 ∧ e.1 < S.msgs.length
  wf : ∀ e ∈ A, e.2 ≠ [] ∧ e.2.Pairwise (· < ·) ∧ ∀ j ∈ e.2, j < S.nf e.1
  pushed : ∀ e ∈ A, ∀ j ∈ e.2, (e.1, j) ∈ P
  done : ∀ k, k < d → ∀ i, i < S.nf k → (k, i) ∈ P

theorem MidInv_new (S : Sender) (τ) (me : BitVec 32) : MidInv S τ (new S.si me) 0 [] [] := by
  constructor <;> simp [new]

theorem MidInv.push {S τ q d A P} (h : MidInv S τ q d A P) (hS : S.WF) {k i : Nat}
    (hk : k < S.msgs.length) (hi : i < S.nf k) (hP : (k, i) ∉ P) (hw : k < d + 2^31) :
    ∃ A', MidInv S τ (q.pushWithError (S.idataFrag τ k i)).1 d A' ((k, i) :: P) := by
  have hnf := S.nf_pos hS hk
  have hdk : d ≤ k := by
    rcases Nat.lt_or_ge k d with hlt | hge
    · exact absurd (h.done k hlt i hi) hP
    · exact hge
  have hwinA : ∀ e ∈ A, e.1 < k + 2^31 ∧ k < e.1 + 2^31 := fun e he => by
    have := h.win e he; omega
  -- a state that only got `useInterleaving := true` still refines the same table
  have hsame : ∀ q' : Q, q'.si = q.si → q'.unordered = q.unordered → q'.ordered = q.ordered →
      q'.unorderedMID = q.unorderedMID → q'.nextMID = q.nextMID → q'.orderedMID = q.orderedMID →
      q'.useInterleaving = true → MidInv S τ q' d A ((k, i) :: P) := by
    intro q' a b c e f g hil
    exact { si := by rw [a, h.si], il := (by rw [hil]; intro hc; cases hc), un := by rw [b, h.un], od := by rw [c, h.od],
            um := by rw [e, h.um], cur := by rw [f, h.cur], ord := by rw [g, h.ord], sorted := h.sorted,
            win := h.win, wf := h.wf,
            pushed := fun e he j hj => List.mem_cons_of_mem _ (h.pushed e he j hj),
            done := fun k hk i hi => List.mem_cons_of_mem _ (h.done k hk i hi) }
  unfold Q.pushWithError
  have c1 : (S.idataFrag τ k i).iData = true := rfl
  simp only [c1, ↓reduceIte]
  unfold Q.pushIData
  have c2 : ((S.idataFrag τ k i).si != q.si) = false := by simp [Sender.idataFrag, h.si]
  have c3 : (S.idataFrag τ k i).unordered = false := rfl
  simp only [c2, c3, Bool.false_eq_true, ↓reduceIte]
  unfold Q.pushOrderedIData
  have c5 : (S.idataFrag τ k i).mid = BitVec.ofNat 32 k := rfl
  have c4 : sna32LT (BitVec.ofNat 32 k) q.nextMID = false := by
    rw [h.cur, sna32LT_ofNat _ _ (by omega) (by omega)]; simp; omega
  simp only [c5, c4, Bool.false_eq_true, ↓reduceIte, h.ord]
  rcases findMID_conc S τ k A hwinA with ⟨hfresh, hnone⟩ | ⟨pre, js, post, hA, hsome, hupd⟩
  · rw [hnone]
    simp only
    split
    · exact ⟨A, hsame _ rfl rfl rfl rfl rfl (by simp [h.ord]) rfl⟩
    · -- new set
      have hpc := pushAndCheck_conc S τ k i [] (newChunkSetMID (BitVec.ofNat 32 k) (S.idataFrag τ k i).ppi)
        rfl rfl (by simp) (by omega) (by simp)
      have hset : ((newChunkSetMID (BitVec.ofNat 32 k) (S.idataFrag τ k i).ppi).pushAndCheck (S.idataFrag τ k i)).1
          = S.concSetMID τ (k, [i]) := by
        rw [hpc.2]
        simp only [List.nil_append, goSort_singleton, newChunkSetMID, Sender.concSetMID, List.map_cons, List.map_nil,
          List.mem_singleton]
        congr 1
        by_cases h0 : i = 0
        · simp [h0]
        · simp [h0, Sender.idataFrag]; omega
      simp only [hpc.1, Bool.not_true, Bool.false_eq_true, ↓reduceIte, hset]
      obtain ⟨A', hins, hsorted', hmem⟩ := insertMID_conc S τ (k, [i]) A d h.sorted
        (fun e he => by have := h.win e he; omega) ⟨hdk, hw⟩ hfresh
      refine ⟨A', ?_⟩
      exact
        { si := by simp [Q.addBytes, h.si], il := by simp [Q.addBytes], un := by simp [Q.addBytes, h.un],
          od := by simp [Q.addBytes, h.od], um := by simp [Q.addBytes, h.um], cur := by simp [Q.addBytes, h.cur],
          ord := by simp only [Q.addBytes]; exact hins,
          sorted := hsorted',
          win := by
            intro e he
            rcases (hmem e).1 he with he | rfl
            · exact h.win e he
            · exact ⟨hdk, hw, hk⟩
          wf := by
            intro e he
            rcases (hmem e).1 he with he | rfl
            · exact h.wf e he
            · refine ⟨by simp, by simp, ?_⟩
              intro j hj; simp only [List.mem_singleton] at hj; subst hj; exact hi
          pushed := by
            intro e he j hj
            rcases (hmem e).1 he with he | rfl
            · exact List.mem_cons_of_mem _ (h.pushed e he j hj)
            · simp only [List.mem_singleton] at hj; subst hj; exact List.mem_cons_self ..
          done := fun k' hk' i' hi' => List.mem_cons_of_mem _ (h.done k' hk' i' hi') }
  · rw [hsome]
    simp only
    have hin : (k, js) ∈ A := by rw [hA]; simp
    have hnotin : i ∉ js := fun hij => hP (h.pushed _ hin i hij)
    have hwf := h.wf _ hin
    simp only at hwf
    have hinc : (S.concSetMID τ (k, js)).isComplete = false := by
      cases hc : (S.concSetMID τ (k, js)).isComplete with
      | false => rfl
      | true =>
        have := completeMID_imp_all S τ k js hnf.2 hwf.2.2 (by simpa [ChunkSetMID.isComplete, Sender.concSetMID] using hc)
        exact absurd (by rw [this]; simp [hi]) hnotin
    have hpc := pushAndCheck_conc S τ k i js (S.concSetMID τ (k, js)) rfl hinc
      (fun j hj => by have := hwf.2.2 j hj; omega) (by omega) hnotin
    let js' := goSort (fun a b => decide (a < b)) (js ++ [i])
    have hmemj : ∀ j, j ∈ js' ↔ j ∈ js ∨ j = i := by
      intro j; simp only [js']; rw [goSort_mem]; simp
    have hset : ((S.concSetMID τ (k, js)).pushAndCheck (S.idataFrag τ k i)).1 = S.concSetMID τ (k, js') := by
      rw [hpc.2]
      simp only [Sender.concSetMID]
      congr 1
      by_cases h0 : i = 0
      · have : 0 ∈ js' := (hmemj 0).2 (.inr h0.symm)
        simp [h0, this]
      · have : 0 ∈ js' ↔ 0 ∈ js := by
          rw [hmemj 0]; constructor
          · rintro (h | h)
            · exact h
            · exact absurd h.symm h0
          · exact .inl
        simp only [h0, ↓reduceIte, this]
    simp only [hpc.1, Bool.not_true, Bool.false_eq_true, ↓reduceIte, hset, hupd]
    refine ⟨pre ++ (k, js') :: post, ?_⟩
    have hmemA : ∀ e, e ∈ pre ++ (k, js') :: post → e = (k, js') ∨ e ∈ A := by
      intro e he
      rw [hA]
      simp only [List.mem_append, List.mem_cons] at he ⊢
      rcases he with he | rfl | he
      · right; exact .inl he
      · left; rfl
      · right; exact .inr (.inr he)
    exact
      { si := by simp [Q.addBytes, h.si], il := by simp [Q.addBytes], un := by simp [Q.addBytes, h.un],
        od := by simp [Q.addBytes, h.od], um := by simp [Q.addBytes, h.um], cur := by simp [Q.addBytes, h.cur],
        ord := by simp [Q.addBytes],
        sorted := by
          have hs := h.sorted
          rw [hA, List.pairwise_append, List.pairwise_cons] at hs
          rw [List.pairwise_append, List.pairwise_cons]
          refine ⟨hs.1, ⟨fun b hb => hs.2.1.1 b hb, hs.2.1.2⟩, ?_⟩
          intro a ha b hb
          rcases List.mem_cons.1 hb with rfl | hb
          · exact hs.2.2 a ha (k, js) (List.mem_cons_self ..)
          · exact hs.2.2 a ha b (List.mem_cons_of_mem _ hb)
        win := by
          intro e he
          rcases hmemA e he with rfl | he
          · exact h.win (k, js) hin
          · exact h.win e he
        wf := by
          intro e he
          rcases hmemA e he with rfl | he
          · refine ⟨?_, ?_, ?_⟩
            · intro hnil
              have := (hmemj i).2 (.inr rfl)
              simp only at hnil; rw [hnil] at this; simp at this
            · apply goSort_sorted (fun a : Nat => a)
              rw [List.pairwise_append]
              refine ⟨hwf.2.1.imp (fun hab => by omega), by simp, ?_⟩
              intro a ha b hb
              simp only [List.mem_singleton] at hb; subst hb
              intro hab; exact hnotin (hab ▸ ha)
            · intro j hj
              rcases (hmemj j).1 hj with hj | rfl
              · exact hwf.2.2 j hj
              · exact hi
          · exact h.wf e he
        pushed := by
          intro e he j hj
          rcases hmemA e he with rfl | he
          · rcases (hmemj j).1 hj with hj | rfl
            · exact List.mem_cons_of_mem _ (h.pushed (k, js) hin j hj)
            · exact List.mem_cons_self ..
          · exact List.mem_cons_of_mem _ (h.pushed e he j hj)
        done := fun k' hk' i' hi' => List.mem_cons_of_mem _ (h.done k' hk' i' hi') }

theorem MidInv.read {S τ q d A P} (h : MidInv S τ q d A P) (hS : S.WF) (n : Nat) :
    ((q.read n).2.err ≠ .ok ∧ (q.read n).1 = q) ∨
    ((q.read n).2.err = .ok ∧ d < S.msgs.length ∧ (q.read n).2.ppi = (S.msg d).ppi ∧
      (q.read n).2.data = (S.msg d).payload ∧ ∃ A', MidInv S τ (q.read n).1 (d + 1) A' P) := by
  unfold Q.read
  cases hil : q.useInterleaving with
  | false =>
    left
    simp [h.un, h.od, ReadRes.tryAgain]
  | true =>
    simp only [↓reduceIte, h.um, h.ord]
    cases hA : A with
    | nil => left; simp [ReadRes.tryAgain]
    | cons e rest =>
      obtain ⟨k, js⟩ := e
      subst hA
      have hin : (k, js) ∈ (k, js) :: rest := List.mem_cons_self ..
      have hwin := h.win _ hin
      have hwf := h.wf _ hin
      simp only at hwin hwf
      simp only [List.map_cons]
      by_cases hc : (S.concSetMID τ (k, js)).isComplete = true
      · simp only [hc, Bool.not_true, Bool.false_eq_true, ↓reduceIte]
        have hgt : sna32GT (S.concSetMID τ (k, js)).mid q.nextMID = decide (d < k) := by
          rw [h.cur]; simp only [Sender.concSetMID]
          exact sna32GT_ofNat _ _ (by omega) (by omega)
        rw [hgt]
        by_cases hdk : d < k
        · left; simp [hdk, ReadRes.tryAgain]
        · have hkd : k = d := by omega
          subst hkd
          simp only [hdk, decide_false, Bool.false_eq_true, ↓reduceIte]
          have hnf := S.nf_pos hS hwin.2.2
          have hall : js = List.range (S.nf k) :=
            completeMID_imp_all S τ k js hnf.2 hwf.2.2 (by simpa [ChunkSetMID.isComplete, Sender.concSetMID] using hc)
          cases herr : (copyLoop (n : Int) (S.concSetMID τ (k, js)).chunks 0 false []).2.1 with
          | true => left; simp [herr]
          | false =>
            right
            have hdata := copyLoop_ok _ _ _ _ herr
            simp only [herr, Bool.false_eq_true, ↓reduceIte]
            refine ⟨trivial, hwin.2.2, ?_, ?_, rest, ?_⟩
            · have : 0 ∈ js := by rw [hall]; simp; omega
              simp [Sender.concSetMID, this]
            · rw [hdata]; simp only [Sender.concSetMID, List.nil_append, hall]
              exact idataFrags_payload S τ k
            · have hs := h.sorted
              rw [List.pairwise_cons] at hs
              refine
                { si := by simp [Q.subtractNumBytes, h.si], il := by simp [Q.subtractNumBytes, hil],
                  un := by simp [Q.subtractNumBytes, h.un], od := by simp [Q.subtractNumBytes, h.od],
                  um := by simp [Q.subtractNumBytes], cur := ?_, ord := by simp [Q.subtractNumBytes],
                  sorted := hs.2, win := ?_, wf := fun e he => h.wf e (List.mem_cons_of_mem _ he),
                  pushed := fun e he => h.pushed e (List.mem_cons_of_mem _ he), done := ?_ }
              · simp only [Q.subtractNumBytes, Sender.concSetMID, h.cur, beq_self_eq_true, ↓reduceIte]
                rw [BitVec.ofNat_add]; rfl
              · intro e he
                have := h.win e (List.mem_cons_of_mem _ he)
                have := hs.1 e he
                simp only at this; omega
              · intro k' hk' i hi
                rcases Nat.lt_or_ge k' k with hlt | hge
                · exact h.done k' hlt i hi
                · have : k' = k := by omega
                  subst this
                  refine h.pushed _ hin i ?_
                  simp only [hall, List.mem_range]; exact hi
      · left
        simp only [Bool.not_eq_true] at hc
        simp [hc, ReadRes.tryAgain]

theorem MidInv.prefix {S : Sender} {τ} (hS : S.WF) (ops : List HOp) {q d A P} (h : MidInv S τ q d A P)
    (hadm : S.Admissible (S.idataFrag τ) (2^31) q d P ops) :
    S.deliveries (S.idataFrag τ) q ops <+: (S.msgs.drop d).map Msg.out := by
  induction ops generalizing q d A P with
  | nil => simp [Sender.deliveries]
  | cons op ops ih =>
    cases op with
    | push k i =>
      simp only [Sender.Admissible] at hadm
      obtain ⟨hk, hi, hP, hw, hrest⟩ := hadm
      obtain ⟨A', h'⟩ := h.push hS hk hi hP hw
      simp only [Sender.deliveries]
      exact ih h' hrest
    | read n =>
      simp only [Sender.Admissible] at hadm
      simp only [Sender.deliveries]
      rcases h.read hS n with ⟨hne, hq⟩ | ⟨hok, hd, hppi, hdata, A', h'⟩
      · rw [if_neg hne] at hadm ⊢
        rw [hq] at hadm ⊢
        simpa using ih h hadm
      · rw [if_pos hok] at hadm ⊢
        have hdrop : S.msgs.drop d = S.msgs[d] :: S.msgs.drop (d + 1) := (List.drop_eq_getElem_cons hd)
        have hmsg : S.msg d = S.msgs[d] := by
          simp [Sender.msg, List.getD_eq_getElem?_getD, List.getElem?_eq_getElem hd]
        rw [hdrop, List.map_cons, hppi, hdata, hmsg]
        simp only [List.singleton_append, Msg.out]
        exact (List.prefix_cons_inj _).2 (ih h' hadm)

/-! ### converse: all fragments of a message form a complete set -/

theorem tsnContig_of_range (S : Sender) (k i n : Nat) :
    tsnContig (S.dataFrag k i).tsn ((List.range' (i + 1) n).map (S.dataFrag k)) = true := by
  induction n generalizing i with
  | zero => simp [tsnContig]
  | succ n ih =>
    rw [List.range'_succ, List.map_cons, tsnContig]
    have : ((S.dataFrag k (i + 1)).tsn != (S.dataFrag k i).tsn + 1) = false := by
      simp only [Sender.dataFrag, bne_eq_false_iff_eq]
      have : BitVec.ofNat 32 (S.base k + (i + 1)) = BitVec.ofNat 32 (S.base k + i) + 1 := by
        rw [← Nat.add_assoc, BitVec.ofNat_add]; rfl
      rw [this]; bv_omega
    simp only [this, Bool.false_eq_true, ↓reduceIte]
    exact ih (i + 1)

theorem all_imp_complete (S : Sender) (k : Nat) (hnf : 1 ≤ S.nf k) :
    chunksComplete ((List.range (S.nf k)).map (S.dataFrag k)) = true := by
  obtain ⟨n, hn⟩ : ∃ n, S.nf k = n + 1 := ⟨S.nf k - 1, by omega⟩
  rw [List.range_eq_range', hn, List.range'_succ, List.map_cons, chunksComplete]
  have h1 : (!(S.dataFrag k 0).bf) = false := by simp [Sender.dataFrag]
  have h2 : (!((S.dataFrag k 0 :: (List.range' (0 + 1) n).map (S.dataFrag k)).getLast (List.cons_ne_nil _ _)).ef) = false := by
    have e : S.dataFrag k 0 :: (List.range' (0 + 1) n).map (S.dataFrag k) = (List.range' 0 (n + 1)).map (S.dataFrag k) := by
      rw [List.range'_succ, List.map_cons]
    simp only [e]
    rw [getLast_map_range']
    simp [Sender.dataFrag, hn]
  simp only [h1, h2, Bool.false_eq_true, ↓reduceIte]
  exact tsnContig_of_range S k 0 n

theorem fsnContig_of_range (S : Sender) (τ) (k i n : Nat) :
    fsnContig (S.idataFrag τ k i).fsn ((List.range' (i + 1) n).map (S.idataFrag τ k)) = true := by
  induction n generalizing i with
  | zero => simp [fsnContig]
  | succ n ih =>
    rw [List.range'_succ, List.map_cons, fsnContig]
    have : ((S.idataFrag τ k (i + 1)).fsn != (S.idataFrag τ k i).fsn + 1) = false := by
      simp only [Sender.idataFrag, bne_eq_false_iff_eq]
      rw [BitVec.ofNat_add]; rfl
    simp only [this, Bool.false_eq_true, ↓reduceIte]
    exact ih (i + 1)

theorem all_imp_completeMID (S : Sender) (τ) (k : Nat) (hnf : 1 ≤ S.nf k) :
    chunksCompleteMID ((List.range (S.nf k)).map (S.idataFrag τ k)) = true := by
  obtain ⟨n, hn⟩ : ∃ n, S.nf k = n + 1 := ⟨S.nf k - 1, by omega⟩
  rw [List.range_eq_range', hn, List.range'_succ, List.map_cons, chunksCompleteMID]
  have h1 : (!(S.idataFrag τ k 0).bf) = false := by simp [Sender.idataFrag]
  have h2 : (!((S.idataFrag τ k 0 :: (List.range' (0 + 1) n).map (S.idataFrag τ k)).getLast (List.cons_ne_nil _ _)).ef) = false := by
    have e : S.idataFrag τ k 0 :: (List.range' (0 + 1) n).map (S.idataFrag τ k)
        = (List.range' 0 (n + 1)).map (S.idataFrag τ k) := by
      rw [List.range'_succ, List.map_cons]
    simp only [e]
    rw [getLast_map_range']
    simp [Sender.idataFrag, hn]
  have h3 : ((S.idataFrag τ k 0).fsn != 0) = false := by simp [Sender.idataFrag]
  simp only [h1, h2, h3, Bool.false_eq_true, ↓reduceIte]
  exact fsnContig_of_range S τ k 0 n

end Reasm
