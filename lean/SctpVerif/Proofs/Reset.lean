import SctpVerif.Proofs.Reset.Perf
import SctpVerif.Proofs.Reset.Final
import SctpVerif.Proofs.Reset.Keeps
import SctpVerif.Proofs.Reset.Reopen
/-!
Helper lemmas for C14 (stream reset), split over `Proofs/Reset/*.lean`:
`Basic` (handlers of RE-CONFIG parameters: what they cannot touch), `Pop` (what one pass of the write loop takes out of
the pending queue), `Inv`/`RecvFrame`/`SendInv` (send-half invariants), `ReadInv`/`RecvInv` (receive queues),
`Cross` (one direction of the system), `System` (both endpoints, every operation), `Gens`/`Handle`/`GStep`
(incarnations), `Final` (EOF only after every message), `Perf` (the performed-request set of the D10 fix).
-/
namespace Rs

theorem run_il (il : Bool) (tsnA tsnB : Nat) (ops : List Op) :
    ((Sys.init il tsnA tsnB).run ops).a.il = ((Sys.init il tsnA tsnB).run ops).b.il := by
  unfold Sys.run
  have : ∀ s : Sys, s.a.il = s.b.il → (ops.foldl Sys.step s).a.il = (ops.foldl Sys.step s).b.il := by
    induction ops with
    | nil => intro s h; exact h
    | cons op rest ih => intro s h; simp only [List.foldl_cons]; exact ih _ (il_same s op h)
  exact this _ rfl

end Rs
