import SctpVerif.Model.Rack
/-!
Lemmas about the chunk store (`find`, `modify`) and the marking walk over the RACK list (`Rack.walk`) shared by
`onRackAfterSACK` and `onRackTimeoutLocked`.
-/
namespace Rack
open Gen

/-! ## the generated loop tests, spelled out (these proofs are the place where a changed operator in the code shows) -/

/-- what the three tests of the marking loop are expected to be -/
structure StdFns (f : WalkFns) : Prop where
  dead : ∀ a b, f.skipDead a b = (a || b)
  resent : ∀ r n, f.skipResent r n = (r || decide (n > 1#32))
  tooNew : ∀ t w d, f.tooNew t w d = !decide (t + w < d)

theorem sackWalk_std : StdFns sackWalk :=
  ⟨fun _ _ => rfl, fun _ _ => rfl, fun _ _ _ => rfl⟩

theorem timeoutWalk_std : StdFns timeoutWalk :=
  ⟨fun _ _ => rfl, fun _ _ => rfl, fun _ _ _ => rfl⟩

/-! ## find / modify -/

theorem find_some_tsn {q : List Chunk} {t : BitVec 32} {c : Chunk} (h : find q t = some c) : c.tsn = t := by
  unfold find at h
  have := List.find?_some h
  simpa using this

theorem find_some_mem {q : List Chunk} {t : BitVec 32} {c : Chunk} (h : find q t = some c) : c ∈ q := by
  unfold find at h
  exact List.mem_of_find?_eq_some h

theorem find_none_iff {q : List Chunk} {t : BitVec 32} : find q t = none ↔ ∀ c ∈ q, c.tsn ≠ t := by
  unfold find
  simp [List.find?_eq_none]

theorem find_cons (c : Chunk) (q : List Chunk) (t : BitVec 32) :
    find (c :: q) t = if c.tsn == t then some c else find q t := by
  unfold find
  simp [List.find?_cons]
  split <;> simp_all

/-- `modify` with a function that keeps the BitVec 32 acts on `find` pointwise -/
theorem find_modify (q : List Chunk) (t u : BitVec 32) (g : Chunk → Chunk) (hg : ∀ c, (g c).tsn = c.tsn) :
    find (modify q u g) t = (find q t).map (fun c => if c.tsn == u then g c else c) := by
  induction q with
  | nil => simp [find, modify]
  | cons c q ih =>
    have ih' : find (List.map (fun c => if c.tsn == u then g c else c) q) t =
        (find q t).map (fun c => if c.tsn == u then g c else c) := ih
    simp only [modify, List.map_cons, find_cons]
    by_cases hc : (c.tsn == u) = true
    · rw [if_pos hc, hg]
      by_cases ht : (c.tsn == t) = true
      · rw [if_pos ht, if_pos ht, Option.map_some, if_pos hc]
      · rw [if_neg ht, if_neg ht]; exact ih'
    · rw [if_neg hc]
      by_cases ht : (c.tsn == t) = true
      · rw [if_pos ht, if_pos ht, Option.map_some, if_neg hc]
      · rw [if_neg ht, if_neg ht]; exact ih'

theorem modify_length (q : List Chunk) (u : BitVec 32) (g : Chunk → Chunk) : (modify q u g).length = q.length := by
  simp [modify]

theorem modify_map_tsn (q : List Chunk) (u : BitVec 32) (g : Chunk → Chunk) (hg : ∀ c, (g c).tsn = c.tsn) :
    (modify q u g).map (·.tsn) = q.map (·.tsn) := by
  simp only [modify, List.map_map]
  apply List.map_congr_left
  intro c _
  simp only [Function.comp]
  split <;> simp [hg]

def setRtx (c : Chunk) : Chunk := { c with retransmit := true }

@[simp] theorem setRtx_tsn (c : Chunk) : (setRtx c).tsn = c.tsn := rfl

/-! ## the walk -/

/-- a chunk the walk would mark when it reaches it -/
def Cand (f : WalkFns) (w : Int) (d : Int) (q : List Chunk) (t : BitVec 32) : Prop :=
  ∃ c, find q t = some c ∧ f.skipDead c.acked c.abandoned = false ∧ f.skipResent c.retransmit c.nSent = false ∧
    f.tooNew c.since w d = false

theorem walk_eq (f : WalkFns) (w : Int) (d : Int) (t : BitVec 32) (rest : List (BitVec 32)) (q : List Chunk) :
    walk f w d (t :: rest) q =
      match find q t with
      | none => walk f w d rest q
      | some c =>
        if f.skipDead c.acked c.abandoned then walk f w d rest q
        else if f.skipResent c.retransmit c.nSent then
          let r := walk f w d rest q
          { r with list := t :: r.list }
        else if f.tooNew c.since w d then { list := t :: rest, q := q, marks := [] }
        else
          let r := walk f w d rest (modify q t setRtx)
          { r with marks := t :: r.marks } := by
  rw [walk]; rfl

/-- every marked BitVec 32 is in the list walked and is a candidate in the ORIGINAL store -/
theorem walk_marks (f : WalkFns) (hf : StdFns f) (w : Int) (d : Int) :
    ∀ (l : List (BitVec 32)) (q : List Chunk) (t : BitVec 32), t ∈ (walk f w d l q).marks → t ∈ l ∧ Cand f w d q t := by
  intro l
  induction l with
  | nil => intro q t h; simp [walk] at h
  | cons u rest ih =>
    intro q t h
    rw [walk_eq] at h
    cases hfu : find q u with
    | none =>
      rw [hfu] at h
      have := ih q t h
      exact ⟨List.mem_cons_of_mem _ this.1, this.2⟩
    | some c =>
      rw [hfu] at h
      simp only at h
      by_cases h1 : f.skipDead c.acked c.abandoned
      · simp only [h1, ↓reduceIte] at h
        have := ih q t h
        exact ⟨List.mem_cons_of_mem _ this.1, this.2⟩
      · simp only [h1] at h
        by_cases h2 : f.skipResent c.retransmit c.nSent
        · simp only [h2, ↓reduceIte] at h
          have := ih q t h
          exact ⟨List.mem_cons_of_mem _ this.1, this.2⟩
        · simp only [h2] at h
          by_cases h3 : f.tooNew c.since w d
          · simp [h3] at h
          · simp only [h3] at h
            simp only [Bool.false_eq_true, ↓reduceIte, List.mem_cons] at h
            rcases h with rfl | h
            · exact ⟨List.mem_cons_self, c, hfu, by simpa using h1, by simpa using h2, by simpa using h3⟩
            · have := ih _ t h
              refine ⟨List.mem_cons_of_mem _ this.1, ?_⟩
              obtain ⟨c', hc', hd, hr, hn⟩ := this.2
              rw [find_modify _ _ _ _ setRtx_tsn] at hc'
              cases hq : find q t with
              | none => rw [hq] at hc'; simp at hc'
              | some c0 =>
                rw [hq] at hc'
                simp only [Option.map_some, Option.some.injEq] at hc'
                by_cases hu : c0.tsn == u
                · -- the chunk just flagged cannot be marked again
                  simp only [hu, ↓reduceIte] at hc'
                  subst hc'
                  rw [hf.resent] at hr
                  simp [setRtx] at hr
                · simp only [hu] at hc'
                  subst hc'
                  exact ⟨c0, hq, hd, hr, hn⟩

/-- the store after the walk: exactly the marked chunks got the retransmit flag -/
theorem walk_q (f : WalkFns) (w : Int) (d : Int) :
    ∀ (l : List (BitVec 32)) (q : List Chunk),
      (walk f w d l q).q = q.map (fun c => if (walk f w d l q).marks.contains c.tsn then setRtx c else c) := by
  intro l
  induction l with
  | nil => intro q; simp [walk]
  | cons u rest ih =>
    intro q
    rw [walk_eq]
    cases hfu : find q u with
    | none => simp only; exact ih q
    | some c =>
      simp only
      by_cases h1 : f.skipDead c.acked c.abandoned
      · simp only [h1, ↓reduceIte]; exact ih q
      · simp only [h1]
        by_cases h2 : f.skipResent c.retransmit c.nSent
        · simp only [h2, ↓reduceIte]; exact ih q
        · simp only [h2]
          by_cases h3 : f.tooNew c.since w d
          · simp [h3]
          · simp only [h3, Bool.false_eq_true, ↓reduceIte]
            rw [ih]
            simp only [modify, List.map_map]
            apply List.map_congr_left
            intro x _
            simp only [Function.comp, List.contains_cons]
            by_cases hx : x.tsn == u
            · have hx' : (x.tsn == u) = true := hx
              simp only [hx', ↓reduceIte, setRtx_tsn, Bool.true_or]
              split <;> rfl
            · have hx' : (x.tsn == u) = false := by simpa using hx
              simp only [hx', Bool.false_or]
              simp

/-- the walk changes no field other than `retransmit` -/
theorem walk_q_fields (f : WalkFns) (w : Int) (d : Int) (l : List (BitVec 32)) (q : List Chunk) :
    (walk f w d l q).q.map (fun c => (c.tsn, c.since, c.nSent, c.acked, c.abandoned)) =
      q.map (fun c => (c.tsn, c.since, c.nSent, c.acked, c.abandoned)) := by
  rw [walk_q, List.map_map]
  apply List.map_congr_left
  intro c _
  simp only [Function.comp]
  split <;> rfl

theorem walk_q_length (f : WalkFns) (w : Int) (d : Int) (l : List (BitVec 32)) (q : List Chunk) :
    (walk f w d l q).q.length = q.length := by
  rw [walk_q]; simp

/-- the list afterwards is a sublist of the list before -/
theorem walk_list_sublist (f : WalkFns) (w : Int) (d : Int) :
    ∀ (l : List (BitVec 32)) (q : List Chunk), (walk f w d l q).list.Sublist l := by
  intro l
  induction l with
  | nil => intro q; simp [walk]
  | cons u rest ih =>
    intro q
    rw [walk_eq]
    cases hfu : find q u with
    | none => exact (ih q).cons _
    | some c =>
      simp only
      by_cases h1 : f.skipDead c.acked c.abandoned
      · simp only [h1, ↓reduceIte]; exact (ih q).cons _
      · simp only [h1]
        by_cases h2 : f.skipResent c.retransmit c.nSent
        · simp only [h2, ↓reduceIte]; exact (ih q).cons_cons _
        · simp only [h2]
          by_cases h3 : f.tooNew c.since w d
          · simp [h3]
          · simp only [h3, Bool.false_eq_true, ↓reduceIte]; exact (ih _).cons _

/-! ## send-time order, candidates -/

/-- mapping the store with a function that keeps the BitVec 32 acts on `find` pointwise -/
theorem find_map_pres (q : List Chunk) (t : BitVec 32) (g : Chunk → Chunk) (hg : ∀ c, (g c).tsn = c.tsn) :
    find (q.map g) t = (find q t).map g := by
  induction q with
  | nil => simp [find]
  | cons c q ih =>
    simp only [List.map_cons, find_cons, hg]
    by_cases ht : (c.tsn == t) = true
    · rw [if_pos ht, if_pos ht, Option.map_some]
    · rw [if_neg ht, if_neg ht]; exact ih

/-- the send time recorded for a BitVec 32 (0 when the store has no such chunk) -/
def sinceOf (q : List Chunk) (t : BitVec 32) : Int :=
  match find q t with
  | some c => c.since
  | none => 0

/-- the store after the walk, chunk by chunk -/
theorem find_walk (f : WalkFns) (w : Int) (d : Int) (l : List (BitVec 32)) (q : List Chunk) (t : BitVec 32) :
    find (walk f w d l q).q t = (find q t).map (fun c => if (walk f w d l q).marks.contains c.tsn then setRtx c else c) := by
  rw [walk_q]
  apply find_map_pres
  intro c; split <;> rfl

theorem sinceOf_walk (f : WalkFns) (w : Int) (d : Int) (l : List (BitVec 32)) (q : List Chunk) (t : BitVec 32) :
    sinceOf (walk f w d l q).q t = sinceOf q t := by
  unfold sinceOf
  rw [find_walk]
  cases find q t with
  | none => rfl
  | some c => simp only [Option.map_some]; split <;> rfl

theorem sinceOf_modify_setRtx (q : List Chunk) (u t : BitVec 32) : sinceOf (modify q u setRtx) t = sinceOf q t := by
  unfold sinceOf
  rw [find_modify _ _ _ _ setRtx_tsn]
  cases find q t with
  | none => rfl
  | some c => simp only [Option.map_some]; split <;> rfl

/-- no candidate in the list: the walk marks nothing and leaves the store alone -/
theorem walk_no_cand (f : WalkFns) (w : Int) (d : Int) :
    ∀ (l : List (BitVec 32)) (q : List Chunk), (∀ t ∈ l, ¬Cand f w d q t) →
      (walk f w d l q).marks = [] ∧ (walk f w d l q).q = q := by
  intro l
  induction l with
  | nil => intro q _; simp [walk]
  | cons u rest ih =>
    intro q h
    have hrest : ∀ t ∈ rest, ¬Cand f w d q t := fun t ht => h t (List.mem_cons_of_mem _ ht)
    rw [walk_eq]
    cases hfu : find q u with
    | none => exact ih q hrest
    | some c =>
      simp only
      by_cases h1 : f.skipDead c.acked c.abandoned
      · simp only [h1, ↓reduceIte]; exact ih q hrest
      · simp only [h1]
        by_cases h2 : f.skipResent c.retransmit c.nSent
        · simp only [h2, ↓reduceIte]; exact ih q hrest
        · simp only [h2]
          by_cases h3 : f.tooNew c.since w d
          · simp [h3]
          · exact absurd ⟨c, hfu, by simpa using h1, by simpa using h2, by simpa using h3⟩ (h u List.mem_cons_self)

/-- after the walk no entry of the remaining list is a candidate, PROVIDED the list was in send-time order:
the walk stops at the first chunk that is too new and relies on everything behind it being newer still -/
theorem walk_quiet (f : WalkFns) (hf : StdFns f) (w : Int) (d : Int) :
    ∀ (l : List (BitVec 32)) (q : List Chunk), l.Pairwise (fun t u => sinceOf q t ≤ sinceOf q u) →
      ∀ t ∈ (walk f w d l q).list, ¬Cand f w d (walk f w d l q).q t := by
  intro l
  induction l with
  | nil => intro q _ t h; simp [walk] at h
  | cons u rest ih =>
    intro q hs t ht
    have hs' := List.pairwise_cons.mp hs
    rw [walk_eq] at ht ⊢
    cases hfu : find q u with
    | none => rw [hfu] at ht; exact ih q hs'.2 t ht
    | some c =>
      rw [hfu] at ht
      simp only at ht ⊢
      by_cases h1 : f.skipDead c.acked c.abandoned
      · simp only [h1, ↓reduceIte] at ht ⊢; exact ih q hs'.2 t ht
      · simp only [h1, Bool.false_eq_true, ↓reduceIte] at ht ⊢
        by_cases h2 : f.skipResent c.retransmit c.nSent
        · simp only [h2, ↓reduceIte] at ht ⊢
          rcases List.mem_cons.mp ht with rfl | ht
          · -- the skipped chunk is still "already flagged or retransmitted"
            rintro ⟨c', hc', _, hr, _⟩
            rw [find_walk, hfu] at hc'
            simp only [Option.map_some, Option.some.injEq] at hc'
            rw [hf.resent] at h2 hr
            subst hc'
            split at hr <;> simp_all [setRtx]
          · exact ih q hs'.2 t ht
        · simp only [h2, Bool.false_eq_true, ↓reduceIte] at ht ⊢
          by_cases h3 : f.tooNew c.since w d
          · simp only [h3, ↓reduceIte] at ht ⊢
            rintro ⟨c', hc', _, _, hn⟩
            rcases List.mem_cons.mp ht with rfl | ht
            · rw [hfu] at hc'; cases hc'; rw [h3] at hn; cases hn
            · have hle := hs'.1 t ht
              unfold sinceOf at hle
              rw [hfu, hc'] at hle
              simp only at hle
              rw [hf.tooNew] at h3 hn
              simp only [Bool.not_eq_eq_eq_not, Bool.not_true, decide_eq_false_iff_not, Bool.not_false, decide_eq_true_eq] at h3 hn
              exact h3 (Int.lt_of_le_of_lt (Int.add_le_add_right hle w) hn)
          · simp only [h3, Bool.false_eq_true, ↓reduceIte] at ht ⊢
            apply ih (modify q u setRtx) _ t ht
            apply hs'.2.imp
            intro a b hab
            rw [sinceOf_modify_setRtx, sinceOf_modify_setRtx]; exact hab

end Rack
