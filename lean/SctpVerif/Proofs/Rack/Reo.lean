import SctpVerif.Proofs.Rack.Marks
/-!
The reordering window (`rackReoWnd`, step 2 of `onRackAfterSACK`), the RACK timer duration and the SRTT readings.
-/
namespace Rack
open Gen

/-- what the model needs from the environment's SRTT reading: a valid reading is not negative -/
def EnvOK (env : Env) : Prop := env.srtt.rackValid = true → 0 ≤ env.srtt.rackDur

theorem gmax_ge_right (a b : Int) : b ≤ Gen.gmax a b := by
  unfold Gen.gmax; split <;> omega

theorem gmax_ge_left (a b : Int) : a ≤ Gen.gmax a b := by
  unfold Gen.gmax; split <;> omega

theorem reoBase_nonneg (s : St) (hf : 0 ≤ s.cfg.reoWndFloor) : 0 ≤ reoBase s := by
  unfold reoBase rack_reoBase
  split
  · exact Int.le_trans hf (gmax_ge_right _ _)
  · exact Int.le_refl 0

theorem reoInit_nonneg (s : St) (env : Env) (hf : 0 ≤ s.cfg.reoWndFloor) (h : 0 ≤ s.reoWnd) : 0 ≤ (reoInit s env).reoWnd := by
  unfold reoInit
  split
  · exact Int.le_refl 0
  · split
    · exact reoBase_nonneg s hf
    · exact h

theorem reoInflate_nonneg (s : St) (nd : Int) (hf : 0 ≤ s.cfg.reoWndFloor) (h : 0 ≤ s.reoWnd) : 0 ≤ (reoInflate s nd).reoWnd := by
  unfold reoInflate rack_reoInflated
  split
  · have := gmax_ge_right (Int.tdiv s.minRTT 4) s.cfg.reoWndFloor
    show 0 ≤ s.reoWnd + _
    omega
  · exact h

theorem reoKeep_nonneg (s : St) (env : Env) (h : 0 ≤ s.reoWnd) : 0 ≤ (reoKeep s env).reoWnd := by
  unfold reoKeep
  split
  · dsimp only
    split
    · next hk =>
      simp only [rack_keepExpired, Bool.and_eq_true, decide_eq_true_eq] at hk
      show 0 ≤ rack_reoAfterKeep s.minRTT
      unfold rack_reoAfterKeep
      exact Int.tdiv_nonneg (by omega) (by omega)
    · exact h
  · exact h

theorem reoClamp_bounds (s : St) (env : Env) (he : EnvOK env) (h : 0 ≤ s.reoWnd) :
    0 ≤ (reoClamp s env).reoWnd ∧ (env.srtt.rackValid = true → (reoClamp s env).reoWnd ≤ env.srtt.rackDur) := by
  unfold reoClamp
  split
  · next hv =>
    split
    · exact ⟨he hv, fun _ => Int.le_refl _⟩
    · next hc =>
      simp only [rack_reoAboveSrtt, decide_eq_true_eq] at hc
      exact ⟨h, fun _ => by omega⟩
  · next hv => exact ⟨h, fun h' => absurd h' hv⟩

/-- the reordering window after step 2 of `onRackAfterSACK`: never negative, never above a valid SRTT -/
theorem rackReoWnd_bounds (s : St) (env : Env) (nd : Int) (he : EnvOK env) (hf : 0 ≤ s.cfg.reoWndFloor) (h : 0 ≤ s.reoWnd) :
    0 ≤ (rackReoWnd s env nd).reoWnd ∧ (env.srtt.rackValid = true → (rackReoWnd s env nd).reoWnd ≤ env.srtt.rackDur) := by
  unfold rackReoWnd
  apply reoClamp_bounds _ _ he
  apply reoKeep_nonneg
  apply reoInflate_nonneg _ _ (by simpa using hf)
  apply reoInit_nonneg _ _ (by simpa using hf)
  simpa using h

/-- how far one SACK can raise the window: from `max old base` by one inflation step -/
theorem rackReoWnd_growth (s : St) (env : Env) (nd : Int) (hf : 0 ≤ s.cfg.reoWndFloor) (h : 0 ≤ s.reoWnd) :
    (rackReoWnd s env nd).reoWnd ≤
      max s.reoWnd (reoBase (reoMinRTT s)) + Gen.gmax (Int.tdiv (reoMinRTT s).minRTT 4) s.cfg.reoWndFloor := by
  have hb := reoBase_nonneg (reoMinRTT s) (by simpa using hf)
  have hg : 0 ≤ Gen.gmax (Int.tdiv (reoMinRTT s).minRTT 4) s.cfg.reoWndFloor := Int.le_trans hf (gmax_ge_right _ _)
  -- after initialisation
  have h1 : (reoInit (reoMinRTT s) env).reoWnd ≤ max s.reoWnd (reoBase (reoMinRTT s)) := by
    unfold reoInit
    split
    · show (0 : Int) ≤ _; omega
    · split
      · show reoBase (reoMinRTT s) ≤ _; omega
      · show (reoMinRTT s).reoWnd ≤ _; simp only [reoMinRTT_reoWnd]; omega
  have h1' : 0 ≤ (reoInit (reoMinRTT s) env).reoWnd := reoInit_nonneg _ _ (by simpa using hf) (by simpa using h)
  -- after inflation
  have h2 : (reoInflate (reoInit (reoMinRTT s) env) nd).reoWnd ≤
      max s.reoWnd (reoBase (reoMinRTT s)) + Gen.gmax (Int.tdiv (reoMinRTT s).minRTT 4) s.cfg.reoWndFloor := by
    unfold reoInflate rack_reoInflated
    split
    · show (reoInit (reoMinRTT s) env).reoWnd + Gen.gmax (Int.tdiv (reoInit (reoMinRTT s) env).minRTT 4) (reoInit (reoMinRTT s) env).cfg.reoWndFloor ≤ _
      simp only [reoInit_minRTT, reoInit_cfg, reoMinRTT_cfg]
      omega
    · omega
  -- keep counter: either unchanged or a quarter of the min-RTT, which is below the inflation step
  have h3 : (reoKeep (reoInflate (reoInit (reoMinRTT s) env) nd) env).reoWnd ≤
      max s.reoWnd (reoBase (reoMinRTT s)) + Gen.gmax (Int.tdiv (reoMinRTT s).minRTT 4) s.cfg.reoWndFloor := by
    unfold reoKeep
    split
    · dsimp only
      split
      · show rack_reoAfterKeep (reoInflate (reoInit (reoMinRTT s) env) nd).minRTT ≤ _
        simp only [reoInflate_minRTT, reoInit_minRTT, rack_reoAfterKeep]
        have := gmax_ge_left (Int.tdiv (reoMinRTT s).minRTT 4) s.cfg.reoWndFloor
        omega
      · exact h2
    · exact h2
  unfold rackReoWnd reoClamp
  split
  · split
    · next hc =>
      simp only [rack_reoAboveSrtt, decide_eq_true_eq] at hc
      show env.srtt.rackDur ≤ _
      omega
    · exact h3
  · exact h3

/-- the readings the code computes from an SRTT value satisfy `EnvOK` (over `Rat`, from the generated conversion sites) -/
theorem envOK_ofRat (x : Rat) (fr t3 : Bool) (p : Int) :
    EnvOK { srtt := SrttView.ofRat x, inFastRecovery := fr, t3Running := t3, pendingSize := p } := by
  intro hv
  simp only [SrttView.ofRat, rack_srttValid_Rat, decide_eq_true_eq] at hv
  simp only [SrttView.ofRat, rack_srttDur_Rat, Gen.truncR]
  apply Int.tdiv_nonneg
  · rw [Rat.num_nonneg]
    exact Rat.mul_nonneg (Rat.le_of_lt hv) (by decide)
  · exact Int.natCast_nonneg _

/-- the RACK timer after `onRackAfterSACK` -/
theorem rackArm_deadline (s : St) :
    (rackArm s).rackDeadline =
      if s.list ≠ [] ∧ s.deliveredTime ≠ 0 then
        (if max (s.now - s.deliveredTime) 0 + s.reoWnd ≤ 0 then 0 else s.now + (max (s.now - s.deliveredTime) 0 + s.reoWnd))
      else 0 := by
  unfold rackArm rack_armTimer rack_timerDur rack_rtt startRackTimer stopRackTimer rackTimer_disarms rackTimer_deadline
  have hg : Gen.gmax (s.now - s.deliveredTime) 0 = max (s.now - s.deliveredTime) 0 := by
    unfold Gen.gmax; split <;> omega
  rw [hg]
  by_cases hl : s.list = [] <;> by_cases hd : s.deliveredTime = 0 <;> simp [hl, hd]

end Rack
