import SctpVerif.Proofs.Rack.Walk
import SctpVerif.Proofs.Rack.Frame
/-!
What the four marking paths (`onRackAfterSACK`, `onRackTimeoutLocked`, `onPTOTimerLocked`, `timerLoop` firing both) do to
the chunk store: which chunks they flag, and that nothing else changes.
-/
namespace Rack
open Gen

/-- the store with the retransmit flag set on the chunks whose TSN is in `m` -/
def flagged (q : List Chunk) (m : List (BitVec 32)) : List Chunk := q.map fun c => if m.contains c.tsn then setRtx c else c

@[simp] theorem flagged_nil (q : List Chunk) : flagged q [] = q := by simp [flagged]

theorem flagged_length (q : List Chunk) (m : List (BitVec 32)) : (flagged q m).length = q.length := by simp [flagged]

theorem flagged_append (q : List Chunk) (m n : List (BitVec 32)) : flagged (flagged q m) n = flagged q (m ++ n) := by
  simp only [flagged, List.map_map]
  apply List.map_congr_left
  intro c _
  simp only [Function.comp, List.contains_eq_mem, List.mem_append, decide_eq_true_eq]
  by_cases h1 : c.tsn ∈ m <;> by_cases h2 : c.tsn ∈ n <;> simp [h1, h2, setRtx]

theorem modify_setRtx_eq_flagged (q : List Chunk) (t : BitVec 32) : modify q t setRtx = flagged q [t] := by
  unfold flagged modify
  apply List.map_congr_left
  intro x _
  simp

theorem find_flagged (q : List Chunk) (m : List (BitVec 32)) (t : BitVec 32) :
    find (flagged q m) t = (find q t).map fun c => if m.contains c.tsn then setRtx c else c := by
  apply find_map_pres
  intro c; split <;> rfl

/-- in the store `q`, TSN `t` names a chunk that is neither acknowledged nor abandoned -/
def Outstanding (q : List Chunk) (t : BitVec 32) : Prop := ∃ c, find q t = some c ∧ c.acked = false ∧ c.abandoned = false

theorem Cand.outstanding {f : WalkFns} (hf : StdFns f) {w d : Int} {q : List Chunk} {t : BitVec 32} (h : Cand f w d q t) :
    Outstanding q t := by
  obtain ⟨c, hc, hd, _, _⟩ := h
  rw [hf.dead] at hd
  exact ⟨c, hc, by simp_all, by simp_all⟩

theorem outstanding_flagged (q : List Chunk) (m : List (BitVec 32)) (t : BitVec 32) :
    Outstanding (flagged q m) t ↔ Outstanding q t := by
  unfold Outstanding
  rw [find_flagged]
  constructor
  · rintro ⟨c, hc, ha, hb⟩
    cases hq : find q t with
    | none => rw [hq] at hc; simp at hc
    | some c0 =>
      rw [hq] at hc
      simp only [Option.map_some, Option.some.injEq] at hc
      subst hc
      refine ⟨c0, rfl, ?_, ?_⟩ <;> (split at ha <;> split at hb <;> simp_all [setRtx])
  · rintro ⟨c, hc, ha, hb⟩
    refine ⟨_, by rw [hc]; rfl, ?_, ?_⟩ <;> (dsimp only; split <;> simp_all [setRtx])

/-! ## rackMark / onRackTimeout -/

theorem rackMark_q (s : St) (env : Env) : (rackMark s env).1.q = flagged s.q (rackMark s env).2 := by
  unfold rackMark
  split
  · simp only [afterWalk_q]; exact walk_q _ _ _ _ _
  · simp

theorem rackMark_marks (s : St) (env : Env) (t : BitVec 32) (h : t ∈ (rackMark s env).2) :
    t ∈ s.list ∧ Cand sackWalk s.reoWnd s.deliveredTime s.q t ∧ s.deliveredTime ≠ 0 := by
  unfold rackMark at h
  split at h
  · next hd =>
    have := walk_marks sackWalk sackWalk_std _ _ _ _ _ h
    refine ⟨this.1, this.2, ?_⟩
    simpa [rack_haveDelivered] using hd
  · simp at h

theorem rackMark_list (s : St) (env : Env) : (rackMark s env).1.list.Sublist s.list := by
  unfold rackMark
  split
  · simp only [afterWalk_list]; exact walk_list_sublist _ _ _ _ _
  · exact List.Sublist.refl _

theorem onRackTimeout_q (s : St) (env : Env) : (onRackTimeout s env).1.q = flagged s.q (onRackTimeout s env).2 := by
  unfold onRackTimeout
  split
  · simp
  · simp only [afterWalk_q]; exact walk_q _ _ _ _ _

theorem onRackTimeout_marks (s : St) (env : Env) (t : BitVec 32) (h : t ∈ (onRackTimeout s env).2) :
    t ∈ s.list ∧ Cand timeoutWalk s.reoWnd s.deliveredTime s.q t ∧ s.deliveredTime ≠ 0 := by
  unfold onRackTimeout at h
  split at h
  · simp at h
  · next hd =>
    have := walk_marks timeoutWalk timeoutWalk_std _ _ _ _ _ h
    refine ⟨this.1, this.2, ?_⟩
    simpa [rackTimeout_noDelivered] using hd

theorem onRackTimeout_list (s : St) (env : Env) : (onRackTimeout s env).1.list.Sublist s.list := by
  unfold onRackTimeout
  split
  · exact List.Sublist.refl _
  · simp only [afterWalk_list]; exact walk_list_sublist _ _ _ _ _

/-! ## onRackAfterSACK -/

/-- the state in which the marking loop of `onRackAfterSACK` runs: steps 1 and 2 done -/
def beforeMark (s : St) (env : Env) (found : Bool) (nt : Int) (ntsn : BitVec 32) (nd : Int) : St :=
  rackReoWnd (rackDelivered s found nt ntsn) env nd

@[simp] theorem beforeMark_q (s : St) (env : Env) (f : Bool) (nt : Int) (ntsn : BitVec 32) (nd : Int) :
    (beforeMark s env f nt ntsn nd).q = s.q := by simp [beforeMark]

@[simp] theorem beforeMark_list (s : St) (env : Env) (f : Bool) (nt : Int) (ntsn : BitVec 32) (nd : Int) :
    (beforeMark s env f nt ntsn nd).list = s.list := by simp [beforeMark]

theorem onRackAfterSACK_eq (s : St) (env : Env) (f : Bool) (nt : Int) (ntsn : BitVec 32) (nd : Int) :
    onRackAfterSACK s env f nt ntsn nd =
      (schedulePTOAfterSack (rackArm (rackMark (beforeMark s env f nt ntsn nd) env).1) env,
       (rackMark (beforeMark s env f nt ntsn nd) env).2) := rfl

theorem onRackAfterSACK_q (s : St) (env : Env) (f : Bool) (nt : Int) (ntsn : BitVec 32) (nd : Int) :
    (onRackAfterSACK s env f nt ntsn nd).1.q = flagged s.q (onRackAfterSACK s env f nt ntsn nd).2 := by
  rw [onRackAfterSACK_eq]
  simp only [schedulePTOAfterSack_q, rackArm_q, rackMark_q, beforeMark_q]

theorem rackMark_reoWnd (s : St) (env : Env) : (rackMark s env).1.reoWnd = s.reoWnd := by
  unfold rackMark; split <;> simp

theorem rackMark_deliveredTime (s : St) (env : Env) : (rackMark s env).1.deliveredTime = s.deliveredTime := by
  unfold rackMark; split <;> simp

theorem rackMark_now (s : St) (env : Env) : (rackMark s env).1.now = s.now := by
  unfold rackMark; split <;> simp

theorem onRackAfterSACK_reoWnd (s : St) (env : Env) (f : Bool) (nt : Int) (ntsn : BitVec 32) (nd : Int) :
    (onRackAfterSACK s env f nt ntsn nd).1.reoWnd = (beforeMark s env f nt ntsn nd).reoWnd := by
  rw [onRackAfterSACK_eq]; simp [rackMark_reoWnd]

theorem onRackAfterSACK_deliveredTime (s : St) (env : Env) (f : Bool) (nt : Int) (ntsn : BitVec 32) (nd : Int) :
    (onRackAfterSACK s env f nt ntsn nd).1.deliveredTime = (beforeMark s env f nt ntsn nd).deliveredTime := by
  rw [onRackAfterSACK_eq]; simp [rackMark_deliveredTime]

theorem onRackAfterSACK_marks (s : St) (env : Env) (f : Bool) (nt : Int) (ntsn : BitVec 32) (nd : Int) (t : BitVec 32)
    (h : t ∈ (onRackAfterSACK s env f nt ntsn nd).2) :
    t ∈ s.list ∧
    Cand sackWalk (onRackAfterSACK s env f nt ntsn nd).1.reoWnd (onRackAfterSACK s env f nt ntsn nd).1.deliveredTime s.q t ∧
    (onRackAfterSACK s env f nt ntsn nd).1.deliveredTime ≠ 0 := by
  rw [onRackAfterSACK_reoWnd, onRackAfterSACK_deliveredTime]
  rw [onRackAfterSACK_eq] at h
  have := rackMark_marks _ env t h
  simpa using this

theorem onRackAfterSACK_list (s : St) (env : Env) (f : Bool) (nt : Int) (ntsn : BitVec 32) (nd : Int) :
    (onRackAfterSACK s env f nt ntsn nd).1.list.Sublist s.list := by
  rw [onRackAfterSACK_eq]
  simp only [schedulePTOAfterSack_list, rackArm_list]
  have := rackMark_list (beforeMark s env f nt ntsn nd) env
  simpa using this

/-! ## PTO -/

theorem scanFrom_sublist (q : List Chunk) (t : BitVec 32) : (scanFrom q t).Sublist q := by
  unfold scanFrom
  cases q with
  | nil => exact List.Sublist.refl _
  | cons f r => exact List.drop_sublist _ _

/-- the probe candidate: a chunk of the store that is neither acknowledged nor abandoned, and the LAST such chunk of the scan -/
theorem ptoLatest_spec (s : St) (c : Chunk) (h : ptoLatest s = some c) :
    c ∈ s.q ∧ c.acked = false ∧ c.abandoned = false := by
  unfold ptoLatest at h
  have hm := List.mem_of_getLast? h
  rw [List.mem_filter] at hm
  refine ⟨(scanFrom_sublist _ _).subset hm.1, ?_, ?_⟩ <;>
    (have := hm.2; simp only [pto_skipDead, Bool.not_eq_true', Bool.or_eq_false_iff] at this; simp [this])

theorem ptoLatest_none (s : St) (h : ptoLatest s = none) :
    ∀ c ∈ scanFrom s.q (s.cumAck + 1), c.acked = true ∨ c.abandoned = true := by
  unfold ptoLatest at h
  have h0 : pto_scanTSN (a_cumulativeTSNAckPoint := s.cumAck) (i := 0) = s.cumAck + 1 := by unfold pto_scanTSN; bv_omega
  rw [h0] at h
  rw [List.getLast?_eq_none_iff] at h
  intro c hc
  have : c ∉ (scanFrom s.q (s.cumAck + 1)).filter fun c => !pto_skipDead (c_acked := c.acked) (c_abandoned := c.abandoned) := by
    rw [h]; simp
  rw [List.mem_filter] at this
  simp only [hc, true_and, pto_skipDead, Bool.not_eq_true', Bool.or_eq_false_iff, not_and, Bool.not_eq_false] at this
  cases ha : c.acked
  · right; exact this ha
  · left; rfl

@[simp] theorem ptoTlr_q (s : St) (env : Env) : (ptoTlr s env).q = s.q := by unfold ptoTlr; split <;> simp
@[simp] theorem ptoTlr_cumAck (s : St) (env : Env) : (ptoTlr s env).cumAck = s.cumAck := by unfold ptoTlr; split <;> simp
@[simp] theorem ptoTlr_list (s : St) (env : Env) : (ptoTlr s env).list = s.list := by unfold ptoTlr; split <;> simp
@[simp] theorem ptoTlr_reoWnd (s : St) (env : Env) : (ptoTlr s env).reoWnd = s.reoWnd := by unfold ptoTlr; split <;> simp
@[simp] theorem ptoTlr_deliveredTime (s : St) (env : Env) : (ptoTlr s env).deliveredTime = s.deliveredTime := by unfold ptoTlr; split <;> simp
@[simp] theorem ptoTlr_now (s : St) (env : Env) : (ptoTlr s env).now = s.now := by unfold ptoTlr; split <;> simp
@[simp] theorem ptoTlr_cfg (s : St) (env : Env) : (ptoTlr s env).cfg = s.cfg := by unfold ptoTlr; split <;> simp

theorem ptoLatest_congr (s s' : St) (hq : s'.q = s.q) (hc : s'.cumAck = s.cumAck) : ptoLatest s' = ptoLatest s := by
  unfold ptoLatest; rw [hq, hc]

/-- `onPTOTimerLocked` with data in flight, spelled out -/
theorem onPTOTimer_eq (s : St) (env : Env) (hq : s.q ≠ []) :
    onPTOTimer s env =
      if 0 < env.pendingSize then (ptoTlr s env, [])
      else match ptoLatest s with
        | none => (ptoTlr s env, [])
        | some c => if c.retransmit then (ptoTlr s env, []) else ({ ptoTlr s env with q := modify s.q c.tsn setRtx }, [c.tsn]) := by
  have hl : ptoLatest (ptoTlr s env) = ptoLatest s := ptoLatest_congr _ _ (by simp) (by simp)
  have hidle : pto_idle (a_inflightQueue_size := (s.q.length : Int)) = false := by
    simp only [pto_idle, beq_eq_false_iff_ne, ne_eq]
    intro h; exact hq (List.length_eq_zero_iff.mp (by omega))
  unfold onPTOTimer
  simp only [hidle, Bool.false_eq_true, ↓reduceIte, pto_hasPending, hl, decide_eq_true_eq]
  by_cases hp : 0 < env.pendingSize
  · simp [hp]
  · simp only [hp, ↓reduceIte]
    cases ptoLatest s with
    | none => rfl
    | some c =>
      simp only [pto_marks, Bool.true_and, Bool.not_eq_eq_eq_not, Bool.not_true, ptoTlr_q]
      cases c.retransmit <;> simp
      rfl

theorem onPTOTimer_idle (s : St) (env : Env) (hq : s.q = []) :
    (onPTOTimer s env).2 = [] ∧ (onPTOTimer s env).1.q = s.q := by
  simp [onPTOTimer, pto_idle, hq]

end Rack
